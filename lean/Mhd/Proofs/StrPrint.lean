/-
  C17 proofs: number printing — `MHD_uint16_to_str`, `MHD_uint64_to_str`
  (one model, two divisors), `MHD_uint8_to_str_pad` — and the print/parse
  round trip.
-/
import Mhd.Proofs.StrNum
import Mhd.Proofs.StrPct

namespace Mhd.Str

/-! ### reference: the `k+1` decimal digits of `v < 10^(k+1)`, most significant first -/

def decDigits : Nat → Nat → Bytes
  | 0, v => [UInt8.ofNat (v + 0x30)]
  | k + 1, v => UInt8.ofNat (v / 10 ^ (k + 1) + 0x30) :: decDigits k (v % 10 ^ (k + 1))

theorem decDigits_length (k v : Nat) : (decDigits k v).length = k + 1 := by
  induction k generalizing v with
  | zero => rfl
  | succ k ih => simp [decDigits, ih]

theorem pow10_pos (k : Nat) : 0 < 10 ^ k := Nat.pow_pos (by decide)

theorem pow10_succ_div (k : Nat) : 10 ^ (k + 1) / 10 = 10 ^ k := by
  rw [Nat.pow_succ]; exact Nat.mul_div_cancel _ (by decide)

theorem pow10_succ_ne_one (k : Nat) : 10 ^ (k + 1) ≠ 1 := by
  have := pow10_pos k
  rw [Nat.pow_succ]; omega

theorem lt_of_div_eq_zero {a d : Nat} (hd : 0 < d) (h : a / d = 0) : a < d := by
  have h1 := Nat.div_add_mod a d
  have h2 := Nat.mod_lt a hd
  rw [h] at h1; simp at h1; omega

theorem div_lt_ten {v k : Nat} (h : v < 10 ^ (k + 1)) : v / 10 ^ k < 10 := by
  rw [Nat.div_lt_iff_lt_mul (pow10_pos k)]
  rw [Nat.pow_succ] at h; omega

/-! ### the two loops of `MHD_uint16_to_str` / `MHD_uint64_to_str` -/

/-- the "skip leading zeros" loop stops at the unique `k` with
    `10^k ≤ val < 10^(k+1)` (`k = 0` for `val < 10`) -/
theorem decSkip (val : Nat) : ∀ j n, j < n → val < 10 ^ (j + 1) →
    ∃ k, k ≤ j ∧ (k = 0 ∨ 10 ^ k ≤ val) ∧ val < 10 ^ (k + 1) ∧
      iter decSkipStep n ⟨val, 10 ^ j, val / 10 ^ j⟩ = .ok ⟨val, 10 ^ k, val / 10 ^ k⟩ := by
  intro j
  induction j with
  | zero =>
    intro n hn hv
    obtain ⟨n', rfl⟩ : ∃ n', n = n' + 1 := ⟨n - 1, by omega⟩
    refine ⟨0, Nat.le_refl _, Or.inl rfl, hv, ?_⟩
    simp [iter, decSkipStep]
  | succ j ih =>
    intro n hn hv
    obtain ⟨n', rfl⟩ : ∃ n', n = n' + 1 := ⟨n - 1, by omega⟩
    by_cases h0 : val / 10 ^ (j + 1) = 0
    · have hlt : val < 10 ^ (j + 1) := lt_of_div_eq_zero (pow10_pos _) h0
      obtain ⟨k, hk, hk1, hk2, hk3⟩ := ih n' (by omega) hlt
      refine ⟨k, by omega, hk1, hk2, ?_⟩
      have h1 : 1 < 10 ^ (j + 1) := by
        have := pow10_pos j; rw [Nat.pow_succ]; omega
      simp only [iter, decSkipStep, h0, h1, and_self, if_true, pow10_succ_div]
      exact hk3
    · refine ⟨j + 1, Nat.le_refl _, Or.inr ?_, hv, ?_⟩
      · by_cases h : 10 ^ (j + 1) ≤ val
        · exact h
        · exact absurd (Nat.div_eq_of_lt (by omega)) h0
      · simp [iter, decSkipStep, h0]

/-- the printing loop writes exactly `decDigits j val` at `w`, or returns 0 if
    that does not fit -/
theorem decPrint : ∀ j val w (out : Bytes) n, j < n → val < 10 ^ (j + 1) → w ≤ out.length →
    ∃ r, iter decPrintStep n ⟨⟨val, 10 ^ j, val / 10 ^ j⟩, w, out⟩ = .ok r ∧ r.2.length = out.length ∧
      if w + j + 1 ≤ out.length then r.1 = w + j + 1 ∧ r.2.take r.1 = out.take w ++ decDigits j val
      else r.1 = 0 := by
  intro j
  induction j with
  | zero =>
    intro val w out n hn hv hw
    obtain ⟨n', rfl⟩ : ∃ n', n = n' + 1 := ⟨n - 1, by omega⟩
    by_cases hlt : w < out.length
    · refine ⟨(w + 1, out.set w (UInt8.ofNat (val / 10 ^ 0 + 0x30))), ?_, by simp, ?_⟩
      · simp [iter, decPrintStep, hlt, wr_ok _ hlt]
      · have : w + 0 + 1 ≤ out.length := by omega
        simp only [this, if_true, true_and]
        rw [take_set_succ _ _ _ hlt]; simp [decDigits]
    · refine ⟨(0, out), ?_, rfl, ?_⟩
      · simp [iter, decPrintStep, hlt]
      · have : ¬ (w + 0 + 1 ≤ out.length) := by omega
        simp [this]
  | succ j ih =>
    intro val w out n hn hv hw
    obtain ⟨n', rfl⟩ : ∃ n', n = n' + 1 := ⟨n - 1, by omega⟩
    by_cases hlt : w < out.length
    · have hmod : val % 10 ^ (j + 1) < 10 ^ (j + 1) := Nat.mod_lt _ (pow10_pos _)
      obtain ⟨r, hr, hl, hp⟩ := ih (val % 10 ^ (j + 1)) (w + 1) (out.set w (UInt8.ofNat (val / 10 ^ (j + 1) + 0x30))) n'
        (by omega) hmod (by simp; omega)
      refine ⟨r, ?_, by simpa using hl, ?_⟩
      · simp only [iter, decPrintStep, hlt, if_true, wr_ok _ hlt, bind_ok', pow10_succ_ne_one, if_false,
          pure_eq_ok, pow10_succ_div]
        exact hr
      · simp only [List.length_set] at hp
        by_cases hfit : w + (j + 1) + 1 ≤ out.length
        · have hfit' : w + 1 + j + 1 ≤ out.length := by omega
          simp only [hfit, hfit', if_true] at hp ⊢
          refine ⟨by omega, ?_⟩
          rw [hp.2, take_set_succ _ _ _ hlt]; simp [decDigits]
        · have hfit' : ¬ (w + 1 + j + 1 ≤ out.length) := by omega
          simp only [hfit, hfit', if_false] at hp ⊢
          exact hp
    · refine ⟨(0, out), ?_, rfl, ?_⟩
      · simp [iter, decPrintStep, hlt]
      · have : ¬ (w + (j + 1) + 1 ≤ out.length) := by omega
        simp [this]

/-- `MHD_uint16_to_str` / `MHD_uint64_to_str` with initial divisor `10^K`: prints the
    canonical decimal representation of `val` (`k+1` digits, `10^k ≤ val < 10^(k+1)`,
    no leading zero) iff it fits; returns 0 iff it does not. -/
theorem uintToStr_spec (K val : Nat) (out : Bytes) (hK : K < 21) (hv : val < 10 ^ (K + 1)) :
    ∃ k, k ≤ K ∧ (k = 0 ∨ 10 ^ k ≤ val) ∧ val < 10 ^ (k + 1) ∧
      Wrote (uintToStr (10 ^ K) val out) out (if k + 1 ≤ out.length then some (decDigits k val) else none) := by
  obtain ⟨k, hk, hk1, hk2, hk3⟩ := decSkip val K 21 hK hv
  obtain ⟨r, hr, hl, hp⟩ := decPrint k val 0 out 21 (by omega) hk2 (by simp)
  refine ⟨k, hk, hk1, hk2, r.1, r.2, ?_, hl, ?_⟩
  · simp only [uintToStr, hk3, bind_ok', hr]
  · by_cases hfit : k + 1 ≤ out.length
    · have hfit' : 0 + k + 1 ≤ out.length := by omega
      simp only [hfit, hfit', if_true] at hp ⊢
      refine ⟨by rw [decDigits_length]; omega, ?_⟩
      simpa using hp.2
    · have hfit' : ¬ (0 + k + 1 ≤ out.length) := by omega
      simp only [hfit, hfit', if_false] at hp ⊢
      exact hp

theorem dec64Divisor_eq : Mhd.Gen.Str.dec64Divisor = 10 ^ 19 := by decide
theorem dec16Divisor_eq : Mhd.Gen.Str.dec16Divisor = 10 ^ 4 := by decide

theorem uint64ToStr_spec (val : Nat) (out : Bytes) (hv : val ≤ u64Max) :
    ∃ k, (k = 0 ∨ 10 ^ k ≤ val) ∧ val < 10 ^ (k + 1) ∧
      Wrote (uint64ToStr val out) out (if k + 1 ≤ out.length then some (decDigits k val) else none) := by
  have hv' : val < 10 ^ (19 + 1) := by
    have : u64Max < 10 ^ 20 := by decide
    omega
  obtain ⟨k, _, h1, h2, h3⟩ := uintToStr_spec 19 val out (by decide) hv'
  exact ⟨k, h1, h2, by unfold uint64ToStr; rw [dec64Divisor_eq]; exact h3⟩

theorem uint16ToStr_spec (val : Nat) (out : Bytes) (hv : val < 65536) :
    ∃ k, (k = 0 ∨ 10 ^ k ≤ val) ∧ val < 10 ^ (k + 1) ∧
      Wrote (uint16ToStr val out) out (if k + 1 ≤ out.length then some (decDigits k val) else none) := by
  have hv' : val < 10 ^ (4 + 1) := by
    have : (65536 : Nat) < 10 ^ 5 := by decide
    omega
  obtain ⟨k, _, h1, h2, h3⟩ := uintToStr_spec 4 val out (by decide) hv'
  exact ⟨k, h1, h2, by unfold uint16ToStr; rw [dec16Divisor_eq]; exact h3⟩

/-! ### printing then parsing gives the number back -/

theorem digit_char_table : ∀ d : Fin 10,
    isDigit (UInt8.ofNat (d.val + 0x30)) = true ∧ decDigitVal (UInt8.ofNat (d.val + 0x30)) = d.val := by
  decide

theorem decDigits_foldl (k v acc : Nat) (hv : v < 10 ^ (k + 1)) :
    (decDigits k v).foldl (fun a d => a * 10 + decDigitVal d) acc = acc * 10 ^ (k + 1) + v := by
  induction k generalizing v acc with
  | zero =>
    have := (digit_char_table ⟨v, by simpa using hv⟩).2
    simp only at this
    simp only [decDigits, List.foldl_cons, List.foldl_nil, this]
  | succ k ih =>
    have hd : v / 10 ^ (k + 1) < 10 := div_lt_ten hv
    have := (digit_char_table ⟨v / 10 ^ (k + 1), hd⟩).2
    simp only at this
    simp only [decDigits, List.foldl_cons, this]
    rw [ih _ _ (Nat.mod_lt _ (pow10_pos _))]
    have h1 := Nat.div_add_mod v (10 ^ (k + 1))
    rw [Nat.pow_succ 10 (k + 1), Nat.add_mul, Nat.mul_assoc]
    have : 10 * 10 ^ (k + 1) = 10 ^ (k + 1) * 10 := Nat.mul_comm _ _
    rw [Nat.mul_comm (v / 10 ^ (k + 1)) (10 ^ (k + 1)), ← this] at *
    rw [Nat.mul_comm 10 (10 ^ (k + 1))] at *
    omega

theorem decVal_decDigits (k v : Nat) (hv : v < 10 ^ (k + 1)) : decVal (decDigits k v) = v := by
  have := decDigits_foldl k v 0 hv
  simpa [decVal, valB] using this

theorem decDigits_all_digit (k v : Nat) (hv : v < 10 ^ (k + 1)) : ∀ c ∈ decDigits k v, isDigit c = true := by
  induction k generalizing v with
  | zero =>
    intro c hc
    have := (digit_char_table ⟨v, by simpa using hv⟩).1
    simp only [decDigits, List.mem_singleton] at hc
    subst hc; exact this
  | succ k ih =>
    intro c hc
    simp only [decDigits, List.mem_cons] at hc
    rcases hc with hc | hc
    · subst hc; exact (digit_char_table ⟨v / 10 ^ (k + 1), div_lt_ten hv⟩).1
    · exact ih _ (Nat.mod_lt _ (pow10_pos _)) c hc

theorem takeWhile_all (p : UInt8 → Bool) (l : Bytes) (h : ∀ c ∈ l, p c = true) : l.takeWhile p = l := by
  induction l with
  | nil => rfl
  | cons a t ih =>
    rw [takeWhile_cons_pos p a t (h a List.mem_cons_self), ih (fun c hc => h c (List.mem_cons_of_mem _ hc))]

/-- parsing the printed digits of `v` consumes all of them and yields `v` -/
theorem parseDec_decDigits (k v : Nat) (hv : v < 10 ^ (k + 1)) (hmax : v ≤ u64Max) :
    parseDec (decDigits k v) = (k + 1, v) := by
  unfold parseDec digitRun
  rw [takeWhile_all _ _ (decDigits_all_digit k v hv), decVal_decDigits k v hv]
  unfold parseResult
  have hne : decDigits k v ≠ [] := by
    intro h; have := decDigits_length k v; rw [h] at this; simp at this
  have : ¬ v > u64Max := by omega
  simp [hne, this, decDigits_length]

/-- `MHD_str_to_uint64_n_ ∘ MHD_uint64_to_str = id` (for every value and every buffer
    that is large enough; smaller buffers are reported with 0) -/
theorem strToUint64N_uint64ToStr (val : Nat) (out : Bytes) (hv : val ≤ u64Max) :
    ∃ n o, uint64ToStr val out = .ok (n, o) ∧
      (n ≠ 0 → strToUint64N (o.take n) = .ok (n, val)) ∧
      (n = 0 ↔ ∀ k, val < 10 ^ (k + 1) → out.length < k + 1) := by
  obtain ⟨k, hk1, hk2, n, o, hr, hl, hp⟩ := uint64ToStr_spec val out hv
  refine ⟨n, o, hr, ?_, ?_⟩
  · intro hn
    by_cases hfit : k + 1 ≤ out.length
    · simp only [hfit, if_true] at hp
      rw [hp.2, strToUint64N_spec, parseDec_decDigits k val hk2 hv, hp.1, decDigits_length]
    · simp only [hfit, if_false] at hp; exact absurd hp hn
  · by_cases hfit : k + 1 ≤ out.length
    · simp only [hfit, if_true] at hp
      have hn : n ≠ 0 := by rw [hp.1, decDigits_length]; omega
      constructor
      · intro h; exact absurd h hn
      · intro h; have := h k hk2; omega
    · simp only [hfit, if_false] at hp
      constructor
      · intro _ k' hk'
        -- any k' with val < 10^(k'+1) is at least k
        have : k ≤ k' := by
          rcases hk1 with h | h
          · omega
          · by_cases hle : k ≤ k'
            · exact hle
            · have h1 : 10 ^ (k' + 1) ≤ 10 ^ k := Nat.pow_le_pow_right (by decide) (by omega)
              omega
        omega
      · intro _; exact hp

/-! ### reference: the `k+1` upper-case hexadecimal digits of `v < 16^(k+1)` -/

def hexDigitsU : Nat → Nat → Bytes
  | 0, v => [x32Char v]
  | k + 1, v => x32Char (v / 16 ^ (k + 1)) :: hexDigitsU k (v % 16 ^ (k + 1))

theorem hexDigitsU_length (k v : Nat) : (hexDigitsU k v).length = k + 1 := by
  induction k generalizing v with
  | zero => rfl
  | succ k ih => simp [hexDigitsU, ih]

theorem pow16_pos (k : Nat) : 0 < 16 ^ k := Nat.pow_pos (by decide)

/-- the shift arithmetic of one loop round: the field holds `X < 16^k` in its top `k`
    nibbles; the round extracts nibble `k-1` and shifts the rest up -/
theorem x32_round (k X : Nat) (hk1 : 1 ≤ k) (hk8 : k ≤ 8) (_hX : X < 16 ^ k) :
    (X * 16 ^ (8 - k)) / 2 ^ 28 = X / 16 ^ (k - 1) ∧
    (X * 16 ^ (8 - k) * 16) % 2 ^ 32 = (X % 16 ^ (k - 1)) * 16 ^ (8 - (k - 1)) := by
  have h28 : (2 : Nat) ^ 28 = 16 ^ 7 := by decide
  have h32 : (2 : Nat) ^ 32 = 16 ^ 8 := by decide
  have ha : (16 : Nat) ^ 7 = 16 ^ (8 - k) * 16 ^ (k - 1) := by
    rw [← Nat.pow_add]; congr 1; omega
  have hb : (16 : Nat) ^ 8 = 16 ^ (8 - (k - 1)) * 16 ^ (k - 1) := by
    rw [← Nat.pow_add]; congr 1; omega
  have hc : (16 : Nat) ^ (8 - k) * 16 = 16 ^ (8 - (k - 1)) := by
    rw [← Nat.pow_succ]; congr 1; omega
  constructor
  · rw [h28, ha, Nat.mul_comm X, Nat.mul_div_mul_left _ _ (pow16_pos _)]
  · rw [h32, Nat.mul_assoc, hc, hb, Nat.mul_comm X, Nat.mul_mod_mul_left, Nat.mul_comm]

/-- canonical loop state: `k+1` nibbles of `X` still to print, the top one in `digit` -/
def x32State (k X : Nat) : X32St := ⟨(X % 16 ^ k) * 16 ^ (8 - k), k, X / 16 ^ k⟩

theorem x32Skip (X : Nat) : ∀ k n (d0 : Nat), 1 ≤ k → k ≤ 8 → k < n → X < 16 ^ k →
    ∃ j, j < k ∧ (j = 0 ∨ 16 ^ j ≤ X) ∧ X < 16 ^ (j + 1) ∧
      iter x32SkipStep n ⟨X * 16 ^ (8 - k), k, d0⟩ = .ok (x32State j X) := by
  intro k
  induction k with
  | zero => intro n d0 h1; omega
  | succ k ih =>
    intro n d0 h1 h8 hn hX
    obtain ⟨n', rfl⟩ : ∃ n', n = n' + 1 := ⟨n - 1, by omega⟩
    obtain ⟨hr1, hr2⟩ := x32_round (k + 1) X (by omega) h8 hX
    simp only [Nat.add_sub_cancel] at hr1 hr2
    by_cases hcont : X / 16 ^ k = 0 ∧ k ≠ 0
    · have hlt : X < 16 ^ k := lt_of_div_eq_zero (pow16_pos _) hcont.1
      obtain ⟨j, hj, hj1, hj2, hj3⟩ := ih n' 0 (by omega) (by omega) (by omega) hlt
      refine ⟨j, by omega, hj1, hj2, ?_⟩
      have hmod : X % 16 ^ k = X := Nat.mod_eq_of_lt hlt
      simp only [iter, x32SkipStep, Nat.add_sub_cancel, hr1, hr2, hcont.1, hcont.2, ne_eq, not_false_eq_true,
        and_self, if_true, hmod]
      exact hj3
    · refine ⟨k, by omega, ?_, hX, ?_⟩
      · by_cases hk0 : k = 0
        · exact Or.inl hk0
        · right
          by_cases h : 16 ^ k ≤ X
          · exact h
          · exact absurd ⟨Nat.div_eq_of_lt (by omega), hk0⟩ hcont
      · have : ¬ (X / 16 ^ k = 0 ∧ ¬ k = 0) := hcont
        simp only [iter, x32SkipStep, Nat.add_sub_cancel, hr1, hr2, ne_eq, this, if_false]
        rfl

theorem x32Print : ∀ j X w (out : Bytes) n, j ≤ 7 → j < n → X < 16 ^ (j + 1) → w ≤ out.length →
    ∃ r, iter x32PrintStep n ⟨x32State j X, w, out⟩ = .ok r ∧ r.2.length = out.length ∧
      if w + j + 1 ≤ out.length then r.1 = w + j + 1 ∧ r.2.take r.1 = out.take w ++ hexDigitsU j X
      else r.1 = 0 := by
  intro j
  induction j with
  | zero =>
    intro X w out n _ hn hX hw
    obtain ⟨n', rfl⟩ : ∃ n', n = n' + 1 := ⟨n - 1, by omega⟩
    by_cases hlt : w < out.length
    · refine ⟨(w + 1, out.set w (x32Char (X / 16 ^ 0))), ?_, by simp, ?_⟩
      · simp [iter, x32PrintStep, x32State, hlt, wr_ok _ hlt]
      · have : w + 0 + 1 ≤ out.length := by omega
        simp only [this, if_true, true_and]
        rw [take_set_succ _ _ _ hlt]; simp [hexDigitsU]
    · refine ⟨(0, out), ?_, rfl, ?_⟩
      · simp [iter, x32PrintStep, x32State, hlt]
      · have : ¬ (w + 0 + 1 ≤ out.length) := by omega
        simp [this]
  | succ j ih =>
    intro X w out n h7 hn hX hw
    obtain ⟨n', rfl⟩ : ∃ n', n = n' + 1 := ⟨n - 1, by omega⟩
    by_cases hlt : w < out.length
    · have hmod : X % 16 ^ (j + 1) < 16 ^ (j + 1) := Nat.mod_lt _ (pow16_pos _)
      obtain ⟨hr1, hr2⟩ := x32_round (j + 1) (X % 16 ^ (j + 1)) (by omega) (by omega) hmod
      simp only [Nat.add_sub_cancel] at hr1 hr2
      obtain ⟨r, hr, hl, hp⟩ := ih (X % 16 ^ (j + 1)) (w + 1) (out.set w (x32Char (X / 16 ^ (j + 1)))) n'
        (by omega) (by omega) hmod (by simp; omega)
      refine ⟨r, ?_, by simpa using hl, ?_⟩
      · simp only [iter, x32PrintStep, x32State, hlt, if_true, wr_ok _ hlt, bind_ok', Nat.add_one_ne_zero, if_false,
          pure_eq_ok, hr1, hr2, Nat.add_sub_cancel]
        exact hr
      · simp only [List.length_set] at hp
        by_cases hfit : w + (j + 1) + 1 ≤ out.length
        · have hfit' : w + 1 + j + 1 ≤ out.length := by omega
          simp only [hfit, hfit', if_true] at hp ⊢
          refine ⟨by omega, ?_⟩
          rw [hp.2, take_set_succ _ _ _ hlt]; simp [hexDigitsU]
        · have hfit' : ¬ (w + 1 + j + 1 ≤ out.length) := by omega
          simp only [hfit, hfit', if_false] at hp ⊢
          exact hp
    · refine ⟨(0, out), ?_, rfl, ?_⟩
      · simp [iter, x32PrintStep, x32State, hlt]
      · have : ¬ (w + (j + 1) + 1 ≤ out.length) := by omega
        simp [this]

/-- `MHD_uint32_to_strx`: prints the canonical upper-case hexadecimal representation
    (`k+1` digits, `16^k ≤ val < 16^(k+1)`, or one digit for `val < 16`) iff it fits,
    returns 0 iff it does not. -/
theorem uint32ToStrx_spec (val : Nat) (out : Bytes) (hv : val < 2 ^ 32) :
    ∃ k, (k = 0 ∨ 16 ^ k ≤ val) ∧ val < 16 ^ (k + 1) ∧
      Wrote (uint32ToStrx val out) out (if k + 1 ≤ out.length then some (hexDigitsU k val) else none) := by
  have hv' : val < 16 ^ 8 := by have : (2 : Nat) ^ 32 = 16 ^ 8 := by decide
                                omega
  obtain ⟨k, hk, hk1, hk2, hk3⟩ := x32Skip val 8 9 0 (by omega) (by omega) (by omega) hv'
  obtain ⟨r, hr, hl, hp⟩ := x32Print k val 0 out 9 (by omega) (by omega) hk2 (by simp)
  refine ⟨k, hk1, hk2, r.1, r.2, ?_, hl, ?_⟩
  · have h0 : (⟨val, 8, 0⟩ : X32St) = ⟨val * 16 ^ (8 - 8), 8, 0⟩ := by simp
    simp only [uint32ToStrx, h0, hk3, bind_ok', hr]
  · by_cases hfit : k + 1 ≤ out.length
    · have hfit' : 0 + k + 1 ≤ out.length := by omega
      simp only [hfit, hfit', if_true] at hp ⊢
      refine ⟨by rw [hexDigitsU_length]; omega, ?_⟩
      simpa using hp.2
    · have hfit' : ¬ (0 + k + 1 ≤ out.length) := by omega
      simp only [hfit, hfit', if_false] at hp ⊢
      exact hp


/-! ### printing then parsing, hexadecimal -/

theorem xchar_table : ∀ d : Fin 16, isXDigit (x32Char d.val) = true ∧ hexDigitVal (x32Char d.val) = d.val := by
  decide

theorem div_lt_sixteen {v k : Nat} (h : v < 16 ^ (k + 1)) : v / 16 ^ k < 16 := by
  rw [Nat.div_lt_iff_lt_mul (pow16_pos k)]
  rw [Nat.pow_succ] at h; omega

theorem hexDigitsU_foldl (k v acc : Nat) (hv : v < 16 ^ (k + 1)) :
    (hexDigitsU k v).foldl (fun a d => a * 16 + hexDigitVal d) acc = acc * 16 ^ (k + 1) + v := by
  induction k generalizing v acc with
  | zero =>
    have := (xchar_table ⟨v, by simpa using hv⟩).2
    simp only at this
    simp only [hexDigitsU, List.foldl_cons, List.foldl_nil, this]
  | succ k ih =>
    have hd : v / 16 ^ (k + 1) < 16 := div_lt_sixteen hv
    have := (xchar_table ⟨v / 16 ^ (k + 1), hd⟩).2
    simp only at this
    simp only [hexDigitsU, List.foldl_cons, this]
    rw [ih _ _ (Nat.mod_lt _ (pow16_pos _))]
    have h1 := Nat.div_add_mod v (16 ^ (k + 1))
    rw [Nat.pow_succ 16 (k + 1), Nat.add_mul, Nat.mul_assoc]
    have : 16 * 16 ^ (k + 1) = 16 ^ (k + 1) * 16 := Nat.mul_comm _ _
    rw [Nat.mul_comm (v / 16 ^ (k + 1)) (16 ^ (k + 1)), ← this] at *
    rw [Nat.mul_comm 16 (16 ^ (k + 1))] at *
    omega

theorem hexDigitsU_all_xdigit (k v : Nat) (hv : v < 16 ^ (k + 1)) : ∀ c ∈ hexDigitsU k v, isXDigit c = true := by
  induction k generalizing v with
  | zero =>
    intro c hc
    have := (xchar_table ⟨v, by simpa using hv⟩).1
    simp only [hexDigitsU, List.mem_singleton] at hc
    subst hc; exact this
  | succ k ih =>
    intro c hc
    simp only [hexDigitsU, List.mem_cons] at hc
    rcases hc with hc | hc
    · subst hc; exact (xchar_table ⟨v / 16 ^ (k + 1), div_lt_sixteen hv⟩).1
    · exact ih _ (Nat.mod_lt _ (pow16_pos _)) c hc

/-- `MHD_strx_to_uint32_n_ ∘ MHD_uint32_to_strx = id` -/
theorem strxToUint32N_uint32ToStrx (val : Nat) (out : Bytes) (hv : val < 2 ^ 32) :
    ∃ n o, uint32ToStrx val out = .ok (n, o) ∧ (n ≠ 0 → strxToUint32N (o.take n) = .ok (n, val)) := by
  obtain ⟨k, _, hk2, n, o, hr, _, hp⟩ := uint32ToStrx_spec val out hv
  refine ⟨n, o, hr, ?_⟩
  intro hn
  by_cases hfit : k + 1 ≤ out.length
  · simp only [hfit, if_true] at hp
    rw [hp.2]
    show strxToUintN u32Max (hexDigitsU k val) = _
    rw [strxToUintN_spec]
    unfold parseHex xdigitRun
    rw [takeWhile_all _ _ (hexDigitsU_all_xdigit k val hk2)]
    have hval : hexVal (hexDigitsU k val) = val := by
      have := hexDigitsU_foldl k val 0 hk2
      simpa [hexVal, valB] using this
    rw [hval]
    unfold parseResult
    have hne : hexDigitsU k val ≠ [] := by
      intro h; have := hexDigitsU_length k val; rw [h] at this; simp at this
    have hmax : ¬ val > u32Max := by
      have : u32Max = 2 ^ 32 - 1 := by decide
      omega
    simp [hne, hmax, hexDigitsU_length, hp.1]
  · simp only [hfit, if_false] at hp; exact absurd hp hn

/-! ### MHD_uint8_to_str_pad -/

def digitChar (d : Nat) : UInt8 := UInt8.ofNat (0x30 + d)

/-- what the three stages write (mirror of the control flow) -/
def padOnes (v : Nat) : Bytes := [digitChar v]
def padTens (v md : Nat) : Bytes :=
  if v / 10 = 0 then (if 2 ≤ md then 0x30 :: padOnes v else padOnes v) else digitChar (v / 10) :: padOnes (v % 10)
def padAll (v md : Nat) : Bytes :=
  if v / 100 = 0 then (if 3 ≤ md then 0x30 :: padTens v md else padTens v md)
  else digitChar (v / 100) :: padTens (v % 100) 2

/-- reference: `val` in decimal, left-padded with '0' to at least `pad` (and at least one) digits -/
def padSpec (val pad : Nat) : Bytes :=
  decDigits (max (if 100 ≤ val then 2 else if 10 ≤ val then 1 else 0) (pad - 1)) val

theorem padAll_eq_spec : ∀ (val : Fin 256) (pad : Fin 4), padAll val.val pad.val = padSpec val.val pad.val := by
  decide +kernel

/-- a stage that appends `d` at `pos` -/
def StagePost (out : Bytes) (pos : Nat) (d : Bytes) (r : Nat × Bytes) : Prop :=
  r.2.length = out.length ∧
  if pos + d.length ≤ out.length then r.1 = pos + d.length ∧ r.2.take r.1 = out.take pos ++ d else r.1 = 0

theorem padOnes_spec (v pos : Nat) (out : Bytes) (hp : pos ≤ out.length) :
    ∃ r, uint8PadOnes v pos out = .ok r ∧ StagePost out pos (padOnes v) r := by
  unfold uint8PadOnes
  by_cases h : out.length ≤ pos
  · refine ⟨(0, out), by simp [h], rfl, ?_⟩
    have : ¬ pos + (padOnes v).length ≤ out.length := by simp [padOnes]; omega
    simp only [this, if_false]
  · have hw : pos < out.length := by omega
    refine ⟨(pos + 1, out.set pos (digitChar v)), by simp [h, wr_ok _ hw, digitChar], by simp, ?_⟩
    have : pos + (padOnes v).length ≤ out.length := by simp [padOnes]; omega
    simp only [this, if_true]
    exact ⟨by simp [padOnes], by rw [take_set_succ _ _ _ hw]; rfl⟩

theorem stage_after_write (out : Bytes) (pos : Nat) (c : UInt8) (d : Bytes) (hw : pos < out.length)
    (r : Nat × Bytes) (h : StagePost (out.set pos c) (pos + 1) d r) : StagePost out pos (c :: d) r := by
  obtain ⟨h1, h2⟩ := h
  refine ⟨by simpa using h1, ?_⟩
  simp only [List.length_set] at h2
  by_cases hf : pos + 1 + d.length ≤ out.length
  · have hf' : pos + (c :: d).length ≤ out.length := by simp; omega
    simp only [hf, hf', if_true] at h2 ⊢
    refine ⟨by simp; omega, ?_⟩
    rw [h2.2, take_set_succ _ _ _ hw]; simp
  · have hf' : ¬ pos + (c :: d).length ≤ out.length := by simp; omega
    simp only [hf, hf', if_false] at h2 ⊢
    exact h2

theorem padOnes_length (v : Nat) : (padOnes v).length = 1 := rfl

theorem padTens_pos (v md : Nat) : 0 < (padTens v md).length := by
  unfold padTens
  by_cases h1 : v / 10 = 0 <;> by_cases h2 : 2 ≤ md <;> simp [h1, h2, padOnes]

theorem padTens_spec (v md pos : Nat) (out : Bytes) (hp : pos ≤ out.length) :
    ∃ r, uint8PadTens v md pos out = .ok r ∧ StagePost out pos (padTens v md) r := by
  unfold uint8PadTens
  by_cases h : out.length ≤ pos
  · refine ⟨(0, out), by simp [h], rfl, ?_⟩
    have := padTens_pos v md
    have : ¬ pos + (padTens v md).length ≤ out.length := by omega
    simp only [this, if_false]
  · have hw : pos < out.length := by omega
    simp only [h, if_false, pure_eq_ok, bind_ok']
    by_cases h2 : v / 10 = 0
    · by_cases h3 : 2 ≤ md
      · simp only [h2, h3, if_true, wr_ok _ hw, bind_ok', padTens]
        obtain ⟨r, hr, hpst⟩ := padOnes_spec v (pos + 1) (out.set pos 0x30) (by simp; omega)
        exact ⟨r, hr, stage_after_write out pos _ _ hw r hpst⟩
      · simp only [h2, h3, if_true, if_false, padTens]
        exact padOnes_spec v pos out hp
    · simp only [h2, if_false, wr_ok _ hw, bind_ok', padTens]
      obtain ⟨r, hr, hpst⟩ := padOnes_spec (v % 10) (pos + 1) (out.set pos (UInt8.ofNat (0x30 + v / 10))) (by simp; omega)
      exact ⟨r, hr, stage_after_write out pos _ _ hw r hpst⟩

theorem padAll_pos (v md : Nat) : 0 < (padAll v md).length := by
  unfold padAll
  have h1 := padTens_pos v md
  have h2 := padTens_pos (v % 100) 2
  by_cases h : v / 100 = 0 <;> by_cases h3 : 3 ≤ md <;> simp [h, h3] <;> omega

theorem uint8ToStrPad_mirror (val pad : Nat) (out : Bytes) :
    ∃ r, uint8ToStrPad val pad out = .ok r ∧ StagePost out 0 (padAll val pad) r := by
  unfold uint8ToStrPad
  by_cases h0 : out.length = 0
  · refine ⟨(0, out), by simp [h0], rfl, ?_⟩
    have := padAll_pos val pad
    have : ¬ 0 + (padAll val pad).length ≤ out.length := by omega
    simp only [this, if_false]
  · have hw : 0 < out.length := by omega
    simp only [h0, if_false, pure_eq_ok, bind_ok']
    by_cases h1 : val / 100 = 0
    · by_cases h3 : 3 ≤ pad
      · simp only [h1, h3, if_true, wr_ok _ hw, bind_ok', padAll]
        obtain ⟨r, hr, hpst⟩ := padTens_spec val pad 1 (out.set 0 0x30) (by simp; omega)
        exact ⟨r, hr, stage_after_write out 0 _ _ hw r hpst⟩
      · simp only [h1, h3, if_true, if_false, padAll]
        exact padTens_spec val pad 0 out (by omega)
    · simp only [h1, if_false, wr_ok _ hw, bind_ok', padAll]
      obtain ⟨r, hr, hpst⟩ := padTens_spec (val % 100) 2 1 (out.set 0 (UInt8.ofNat (0x30 + val / 100))) (by simp; omega)
      exact ⟨r, hr, stage_after_write out 0 _ _ hw r hpst⟩

/-- `MHD_uint8_to_str_pad`: for every value, every permitted `min_digits` (0..3) and every
    buffer: the value in decimal, zero-padded to `max (min_digits, 1)` digits, iff it fits;
    0 iff it does not. -/
theorem uint8ToStrPad_spec (val pad : Nat) (out : Bytes) (hv : val < 256) (hp : pad ≤ 3) :
    Wrote (uint8ToStrPad val pad out) out
      (if (padSpec val pad).length ≤ out.length then some (padSpec val pad) else none) := by
  obtain ⟨⟨n, o⟩, hr, hl, hpst⟩ := uint8ToStrPad_mirror val pad out
  have he := padAll_eq_spec ⟨val, hv⟩ ⟨pad, by omega⟩
  simp only at he
  rw [he] at hpst
  refine ⟨n, o, hr, hl, ?_⟩
  simp only [Nat.zero_add, List.take_zero, List.nil_append] at hpst
  by_cases hf : (padSpec val pad).length ≤ out.length
  · simp only [hf, if_true] at hpst ⊢; exact hpst
  · simp only [hf, if_false] at hpst ⊢; exact hpst

end Mhd.Str
