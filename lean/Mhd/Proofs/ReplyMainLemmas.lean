import Mhd.Proofs.ReplyBody
set_option linter.unusedSimpArgs false
set_option linter.unusedVariables false
namespace Mhd.Reply
open Mhd.ReplyStr Mhd.Resp
open Mhd.Http (FieldOK NameOK NoCRLF normField ChunkOK chunkBytes clsOf tesOf connsOf ciEq lower isOWS)
open Mhd.Gen.Reply (sizeUnknown maxChunk)

/-! ### the user fields, seen from outside the loop -/

theorem userFields_unfold (c : Conn) (r : Resp) (ka : KA) (props : Props) (hinv : Inv r) :
    (r.fa.connHdr = true → ∃ v rest st, r.hdrs = ⟨.header, sConnection, v⟩ :: rest ∧
        userFields c r ka props =
          ⟨sConnection, (if useConnClose ka && ! r.fa.connClose then sCloseSep
                         else if useConnKAlive c r ka then sKeepAliveSep else []) ++ v⟩ ::
            userFieldsLoop false rest st ∧ st.addClose = false ∧ st.addKA = false) ∧
    (r.fa.connHdr = false → ∃ st, userFields c r ka props = userFieldsLoop false r.hdrs st ∧
        st.addClose = false ∧ st.addKA = false) := by
  constructor
  · intro hf
    obtain ⟨v, rest, hh, _, _, _⟩ := conn_shape r hinv hf
    refine ⟨v, rest, { (userInit r (! props.chunked) (! props.useReplyBodyHeaders && ! false)
        (useConnClose ka) (useConnKAlive c r ka)) with addClose := false, addKA := false }, hh, ?_, rfl, rfl⟩
    unfold userFields
    rw [hinv.noInsanity, hh, userLoop_connHead]
    simp only [userInit, hf]
    by_cases hcc : r.fa.connClose = true
    · simp [hcc]
    · have : r.fa.connClose = false := by simpa using hcc
      simp [this]
  · intro hf
    refine ⟨userInit r (! props.chunked) (! props.useReplyBodyHeaders && ! false)
        (useConnClose ka) (useConnKAlive c r ka), ?_, ?_, ?_⟩
    · unfold userFields; rw [hinv.noInsanity]
    · simp [userInit, hf]
    · simp [userInit, hf]

/-- every user field is the (possibly extended) Connection header or a stored header, verbatim -/
theorem userFields_mem (c : Conn) (r : Resp) (ka : KA) (props : Props) (hinv : Inv r) (f : Field)
    (hf : f ∈ userFields c r ka props) :
    f.name = sConnection ∨ ∃ h ∈ r.hdrs, h.kind = .header ∧ f = ⟨h.name, h.value⟩ := by
  obtain ⟨h1, h2⟩ := userFields_unfold c r ka props hinv
  by_cases hc : r.fa.connHdr = true
  · obtain ⟨v, rest, st, hh, hu, ha, hb⟩ := h1 hc
    rw [hu] at hf
    rcases List.mem_cons.1 hf with rfl | hf'
    · left; rfl
    · right
      obtain ⟨h, hm, hk, he⟩ := userLoop_verbatim rest st ha hb f hf'
      exact ⟨h, by rw [hh]; simp [hm], hk, he⟩
  · have hc' : r.fa.connHdr = false := by simpa using hc
    obtain ⟨st, hu, ha, hb⟩ := h2 hc'
    rw [hu] at hf
    right
    exact userLoop_verbatim r.hdrs st ha hb f hf

/-! ### bridging the model's name tests to the grammar's -/

theorem lower_sCL : sContentLength.map lower = Mhd.Http.nContentLength := by decide
theorem lower_sTE : sTransferEncoding.map lower = Mhd.Http.nTransferEncoding := by decide
theorem lower_sConn : sConnection.map lower = Mhd.Http.nConnection := by decide
theorem lower_sChunked : sChunked.map lower = Mhd.Http.vChunked := by decide

theorem filter_bridge (F : List Field) (key lit : Bytes) (hk : key.map lower = lit) :
    (((F.map toHttp).map normField).filter fun f => ciEq f.name lit) =
      ((F.filter fun f => nameIs f.name key).map toHttp).map normField := by
  induction F with
  | nil => rfl
  | cons f t ih =>
    have e : ciEq (normField (toHttp f)).name lit = nameIs f.name key := by
      rw [Mhd.Bridge.nameIs_iff f.name key lit hk]; rfl
    simp only [List.map_cons, List.filter_cons, e]
    split
    · simp only [List.map_cons, ih]
    · exact ih

theorem clsOf_bridge (F : List Field) :
    clsOf ((F.map toHttp).map normField) = ((F.filter fun f => nameIs f.name sContentLength).map toHttp).map normField :=
  filter_bridge F _ _ lower_sCL
theorem tesOf_bridge (F : List Field) :
    tesOf ((F.map toHttp).map normField) = ((F.filter fun f => nameIs f.name sTransferEncoding).map toHttp).map normField :=
  filter_bridge F _ _ lower_sTE
theorem connsOf_bridge (F : List Field) :
    connsOf ((F.map toHttp).map normField) = ((F.filter fun f => nameIs f.name sConnection).map toHttp).map normField :=
  filter_bridge F _ _ lower_sConn

theorem clsOf_len (F : List Field) : (clsOf ((F.map toHttp).map normField)).length = fcnt sContentLength F := by
  rw [clsOf_bridge]; simp [fcnt]
theorem tesOf_len (F : List Field) : (tesOf ((F.map toHttp).map normField)).length = fcnt sTransferEncoding F := by
  rw [tesOf_bridge]; simp [fcnt]
theorem connsOf_len (F : List Field) : (connsOf ((F.map toHttp).map normField)).length = fcnt sConnection F := by
  rw [connsOf_bridge]; simp [fcnt]

/-! ### values of the framing fields -/

theorem isDigits_parse (v : Bytes) (h : IsDigits v) : (Mhd.Http.parseDec (v.dropWhile isOWS)).isSome = true := by
  obtain ⟨h0, hd⟩ := h
  cases v with
  | nil => exact absurd rfl h0
  | cons b t =>
    have hb := hd b (by simp)
    have hno : isOWS b = false := by
      unfold isOWS
      have h1 : b ≠ 32 := by intro hh; subst hh; simp at hb
      have h2 : b ≠ 9 := by intro hh; subst hh; simp at hb
      simp [h1, h2]
    simp only [List.dropWhile, hno]
    unfold Mhd.Http.parseDec
    have hall : (b :: t).all Mhd.Http.isDigit = true := by
      rw [List.all_eq_true]
      intro x hx
      have := hd x hx
      unfold Mhd.Http.isDigit; simp [this.1, this.2]
    simp [hall]

theorem digits_isDigits (ds : Bytes) (h0 : ds ≠ []) (h : ds.all Mhd.Http.isDigit = true) : IsDigits ds := by
  refine ⟨h0, ?_⟩
  intro b hb
  rw [List.all_eq_true] at h
  have := h b hb
  unfold Mhd.Http.isDigit at this
  simp at this
  exact this

theorem chunked_value (v : Bytes) (h : strEqCaseless v sChunked = true) :
    ciEq (v.dropWhile isOWS) Mhd.Http.vChunked = true := by
  have hm : v.map lower = Mhd.Http.vChunked := by
    rw [← lower_sChunked]; exact (Mhd.Bridge.strEq_iff v sChunked).1 h
  cases v with
  | nil => simp [Mhd.Http.vChunked] at hm
  | cons b t =>
    have hb : lower b = 99 := by
      simp only [List.map_cons, Mhd.Http.vChunked, List.cons.injEq] at hm
      exact hm.1
    have hno : isOWS b = false := by
      unfold isOWS
      have h1 : b ≠ 32 := by intro hh; subst hh; revert hb; decide
      have h2 : b ≠ 9 := by intro hh; subst hh; revert hb; decide
      simp [h1, h2]
    simp only [List.dropWhile, hno]
    unfold ciEq
    simp [hm]

theorem cl_values (c : Conn) (r : Resp) (date : Option Bytes) (ka : KA) (props : Props) (hinv : Inv r)
    (hsz : r.totalSize < 2 ^ 64) :
    ∀ f ∈ allFields c r date ka props, nameIs f.name sContentLength = true →
      (Mhd.Http.parseDec (normField (toHttp f)).value).isSome = true := by
  intro f hf hn
  unfold allFields at hf
  simp only [List.mem_append] at hf
  simp only [normField, toHttp]
  rcases hf with ((hf | hf) | hf) | hf
  · exfalso
    unfold dateFields at hf
    split at hf
    · cases date with
      | none => simp at hf
      | some d => simp at hf; subst hf; rw [nameIs_date_cl] at hn; cases hn
    · simp at hf
  · exfalso
    unfold connFields at hf
    split at hf
    · split at hf
      · simp at hf; subst hf; rw [nameIs_conn_cl] at hn; cases hn
      · split at hf
        · simp at hf; subst hf; rw [nameIs_conn_cl] at hn; cases hn
        · simp at hf
    · simp at hf
  · rcases userFields_mem c r ka props hinv f hf with h | ⟨h, hm, hk, rfl⟩
    · rw [h, nameIs_conn_cl] at hn; cases hn
    · exact isDigits_parse _ (hinv.clVal h hm (by rw [isHdr_of, hk]; simpa using hn))
  · unfold bodyFields at hf
    split at hf
    · split at hf
      · split at hf
        · simp at hf; subst hf; rw [nameIs_te_cl] at hn; cases hn
        · simp at hf
      · split at hf
        · split at hf
          · simp at hf; subst hf
            obtain ⟨s1, s2, s3⟩ := sizeDigits_ok r.totalSize hsz
            exact isDigits_parse _ (digits_isDigits _ s1 s2)
          · simp at hf
        · simp at hf
    · simp at hf

theorem te_values (c : Conn) (r : Resp) (date : Option Bytes) (ka : KA) (props : Props) (hinv : Inv r) :
    ∀ f ∈ allFields c r date ka props, nameIs f.name sTransferEncoding = true →
      ciEq (normField (toHttp f)).value Mhd.Http.vChunked = true := by
  intro f hf hn
  unfold allFields at hf
  simp only [List.mem_append] at hf
  simp only [normField, toHttp]
  rcases hf with ((hf | hf) | hf) | hf
  · exfalso
    unfold dateFields at hf
    split at hf
    · cases date with
      | none => simp at hf
      | some d => simp at hf; subst hf; rw [nameIs_date_te] at hn; cases hn
    · simp at hf
  · exfalso
    unfold connFields at hf
    split at hf
    · split at hf
      · simp at hf; subst hf; rw [nameIs_conn_te] at hn; cases hn
      · split at hf
        · simp at hf; subst hf; rw [nameIs_conn_te] at hn; cases hn
        · simp at hf
    · simp at hf
  · rcases userFields_mem c r ka props hinv f hf with h | ⟨h, hm, hk, rfl⟩
    · rw [h, nameIs_conn_te] at hn; cases hn
    · exact chunked_value _ (hinv.teVal h hm (by rw [isHdr_of, hk]; simpa using hn))
  · unfold bodyFields at hf
    split at hf
    · split at hf
      · split at hf
        · simp at hf; subst hf; decide
        · simp at hf
      · split at hf
        · split at hf
          · simp at hf; subst hf; rw [nameIs_cl_te] at hn; cases hn
          · simp at hf
        · simp at hf
    · simp at hf

/-! ### "Connection: close" is announced whenever the connection will be closed -/

theorem splitComma_ne_nil : ∀ (s : Bytes), Mhd.Http.splitComma s ≠ []
  | [] => by simp [Mhd.Http.splitComma]
  | b :: rest => by
    have := splitComma_ne_nil rest
    cases h : Mhd.Http.splitComma rest with
    | nil => exact absurd h this
    | cons t ts =>
      by_cases hb : b = 44 <;> simp [Mhd.Http.splitComma, h, hb]

theorem splitComma_prefix : ∀ (pre t : Bytes), (∀ b ∈ pre, b ≠ 44) →
    Mhd.Http.splitComma (pre ++ 44 :: t) = pre :: Mhd.Http.splitComma t
  | [], t, _ => by
    simp only [List.nil_append, Mhd.Http.splitComma]
    cases h : Mhd.Http.splitComma t with
    | nil => exact absurd h (splitComma_ne_nil t)
    | cons x xs => simp
  | b :: pre, t, hp => by
    have ih := splitComma_prefix pre t (fun x hx => hp x (by simp [hx]))
    have hb := hp b (by simp)
    simp only [List.cons_append, Mhd.Http.splitComma, ih, hb, if_false]

theorem hasToken_close_prefix (t : Bytes) : Mhd.Http.hasToken (Mhd.Http.vClose ++ 44 :: t) Mhd.Http.vClose = true := by
  unfold Mhd.Http.hasToken
  rw [splitComma_prefix _ _ (by decide)]
  simp only [List.any_cons]
  have : ciEq (Mhd.Http.trimOWS Mhd.Http.vClose) Mhd.Http.vClose = true := by decide
  simp [this]

theorem hasToken_close_of_prefix (v : Bytes) (h : ClosePrefix v) : Mhd.Http.hasToken v Mhd.Http.vClose = true := by
  rcases h with h | ⟨t, h⟩
  · subst h; decide
  · subst h
    have : sCloseSep ++ t = Mhd.Http.vClose ++ 44 :: (32 :: t) := by simp [sCloseSep, Mhd.Http.vClose]
    rw [this]; exact hasToken_close_prefix _

theorem dropOWS_closePrefix (v : Bytes) (h : ClosePrefix v) : v.dropWhile isOWS = v := by
  rcases h with h | ⟨t, h⟩ <;> (subst h; simp [sClose, sCloseSep, List.dropWhile, isOWS])

theorem ciEq_conn : ciEq sConnection Mhd.Http.nConnection = true := by decide

/-- if the reply properties say MUST_CLOSE, the header block carries `Connection: close` -/
theorem close_in_fields (c : Conn) (r : Resp) (date : Option Bytes) (ka : KA) (props : Props) (hinv : Inv r)
    (hka : ka = .mustClose) :
    Mhd.Http.announcesClose (((allFields c r date ka props).map toHttp).map normField) = true := by
  unfold Mhd.Http.announcesClose
  rw [List.any_eq_true]
  by_cases hc : r.fa.connHdr = true
  · obtain ⟨v, rest, st, hh, hu, _, _⟩ := (userFields_unfold c r ka props hinv).1 hc
    obtain ⟨v', rest', hh', _, hcp, _⟩ := conn_shape r hinv hc
    have hv : v' = v := by rw [hh] at hh'; simp at hh'; exact hh'.1.symm
    subst hv
    have huc : useConnClose ka = true := by rw [hka]; rfl
    have huk : useConnKAlive c r ka = false := by rw [hka]; rfl
    let val : Bytes := (if useConnClose ka && ! r.fa.connClose then sCloseSep
                         else if useConnKAlive c r ka then sKeepAliveSep else []) ++ v'
    have hval : ClosePrefix val := by
      simp only [val, huc, huk, Bool.true_and]
      by_cases hcc : r.fa.connClose = true
      · simpa [hcc] using hcp hcc
      · have : r.fa.connClose = false := by simpa using hcc
        simp only [this, Bool.not_false, if_true]
        right; exact ⟨v', rfl⟩
    refine ⟨normField (toHttp ⟨sConnection, val⟩), ?_, ?_⟩
    · apply List.mem_map_of_mem
      apply List.mem_map_of_mem
      unfold allFields
      rw [hu]
      simp only [List.mem_append, List.mem_cons]
      exact Or.inl (Or.inr (Or.inl rfl))
    · simp only [normField, toHttp, ciEq_conn, Bool.true_and, dropOWS_closePrefix val hval]
      exact hasToken_close_of_prefix val hval
  · have hc' : r.fa.connHdr = false := by simpa using hc
    refine ⟨normField (toHttp ⟨sConnection, sClose⟩), ?_, by decide⟩
    apply List.mem_map_of_mem
    apply List.mem_map_of_mem
    unfold allFields connFields
    simp [hc', hka, useConnClose]

/-! ### what a successful MHD_queue_response guarantees -/

theorem ite_none_some {α : Type} {c : Prop} [Decidable c] {x : Option α} {q : α}
    (h : (if c then none else x) = some q) : ¬ c ∧ x = some q := by
  by_cases hc : c
  · simp [hc] at h
  · simp [hc] at h; exact ⟨hc, h⟩

theorem queue_facts (c : Conn) (st : CState) (allow : Bool) (code0 : Nat) (r : Resp) (q : Queued)
    (h : queueResponse c st false false allow code0 r = some q) :
    100 ≤ q.code ∧ q.code ≤ 999 ∧ (r.flags.headOnly = true → isReplyBodyNeeded c.mthd q.code ≠ .send) ∧
    (r.upgrade = true → q.code = 101) ∧ q.icy = icyOf code0 := by
  unfold queueResponse at h
  simp only at h
  generalize codeOf code0 = code at h
  obtain ⟨_, h⟩ := ite_none_some h
  obtain ⟨_, h⟩ := ite_none_some h
  obtain ⟨_, h⟩ := ite_none_some h
  obtain ⟨_, h⟩ := ite_none_some h
  obtain ⟨h5, h⟩ := ite_none_some h
  obtain ⟨_, h⟩ := ite_none_some h
  obtain ⟨_, h⟩ := ite_none_some h
  obtain ⟨_, h⟩ := ite_none_some h
  obtain ⟨_, h⟩ := ite_none_some h
  obtain ⟨h10, h⟩ := ite_none_some h
  obtain ⟨_, h⟩ := ite_none_some h
  obtain ⟨_, h⟩ := ite_none_some h
  obtain ⟨_, h⟩ := ite_none_some h
  obtain ⟨h14, h⟩ := ite_none_some h
  simp at h
  subst h
  simp only
  simp at h10
  refine ⟨by omega, by omega, ?_, ?_, by first | rfl | trivial⟩
  · intro hh hs
    apply h14
    simp [hh, hs]
  · intro hu
    simp [hu, Mhd.Gen.Reply.httpSwitchingProtocols] at h5
    omega
end Mhd.Reply
