/-
  Exactness at the level of a whole event-loop round (all states, both loops, every variant):
  a connection is closed for timeout in a round only if — in the state before the round — it was not
  suspended, had a timeout and `connection_check_timedout` holds for its stamp; connections that are
  read, resumed or started in the round are not closed by it.
-/
import Mhd.Proofs.TmoHint
namespace Mhd.Tmo
open Mhd.Gen.Tmo

/-- how the record of one connection may change inside a round: it may be freed (`tmo = 0`), be or
    become closed, or keep its timeout while its stamp is either untouched (then a suspended
    connection stays suspended) or set to the current time -/
def Step1 (now : Nat) (c c' : Conn) : Prop :=
  (c.closed = true → c'.closed = true ∨ c'.tmo = 0) ∧
  (c'.tmo = 0 ∨ c'.closed = true ∨ (c'.tmo = c.tmo ∧ (c'.la = now ∨
    (c'.la = c.la ∧ (c.suspended = true → c'.suspended = true)))))

def Steps (d d' : Daemon) : Prop := d'.now = d.now ∧ d'.back = d.back ∧ ∀ j, Step1 d.now (d.c j) (d'.c j)

theorem Step1.refl (now : Nat) (c : Conn) : Step1 now c c :=
  ⟨fun h => Or.inl h, Or.inr (Or.inr ⟨rfl, Or.inr ⟨rfl, fun h => h⟩⟩)⟩

theorem Step1.trans {now : Nat} {a b c : Conn} (h1 : Step1 now a b) (h2 : Step1 now b c) : Step1 now a c := by
  unfold Step1 at *
  grind

theorem Steps.refl (d : Daemon) : Steps d d := ⟨rfl, rfl, fun j => Step1.refl _ _⟩

theorem Steps.trans {a b c : Daemon} (h1 : Steps a b) (h2 : Steps b c) : Steps a c := by
  refine ⟨by rw [h2.1, h1.1], by rw [h2.2.1, h1.2.1], fun j => ?_⟩
  have := h2.2.2 j; rw [h1.1] at this
  exact Step1.trans (h1.2.2 j) this

/-- only the record of `i` changed, and in an admissible way -/
theorem steps_of_others {i : Id} {d d' : Daemon} (o : Others i d d') (h : Step1 d.now (d.c i) (d'.c i)) :
    Steps d d' := by
  refine ⟨o.2.2.2.1.1, o.2.2.2.1.2, fun j => ?_⟩
  by_cases e : j = i
  · subst e; exact h
  · rw [(o.2.2.2.2 j e).2.2.2]; exact Step1.refl _ _

/-- the decisive fact: what is closed by the timeout check inside a round was expired before it -/
theorem expired_before {now : Nat} {c0 c : Conn} (h : Step1 now c0 c) (hc : c.closed = false)
    (ht : checkTimedOut now c = true) :
    c0.suspended = false ∧ c0.tmo ≠ 0 ∧ checkTimedOut now c0 = true := by
  have hs : c.suspended = false := by
    cases hh : c.suspended with
    | false => rfl
    | true => rw [checkTimedOut_suspended now c hh] at ht; cases ht
  have h0 : c.tmo ≠ 0 := fun e => by rw [checkTimedOut_noTimeout now c e] at ht; cases ht
  rcases h.2 with x | x | ⟨xt, xl⟩
  · exact absurd x h0
  · rw [hc] at x; cases x
  · rcases xl with x1 | ⟨x1, x2⟩
    · -- stamped in this round: idle time 0, cannot be timed out
      exfalso
      unfold checkTimedOut at ht
      simp only [hs, h0, x1, sub64, W] at ht
      have : (now + 18446744073709551616 - now) % 18446744073709551616 = 0 := by omega
      simp [this] at ht
    · have hs0 : c0.suspended = false := by
        cases hh : c0.suspended with
        | false => rfl
        | true => have := x2 hh; rw [hs] at this; cases this
      refine ⟨hs0, by rw [← xt]; exact h0, ?_⟩
      unfold checkTimedOut at ht ⊢
      simp only [hs, hs0, xt, x1] at ht ⊢
      exact ht


/-! ### every primitive is an admissible step -/

theorem steps_updateLastActivity (v : Variant) (d : Daemon) (i : Id) : Steps d (updateLastActivity v d i) := by
  refine steps_of_others (others_updateLastActivity v d i) ?_
  unfold updateLastActivity Daemon.remNormal Step1
  dsimp only
  repeat' split
  all_goals first | (simp; done) | (simp; grind) | grind

theorem steps_internalSuspend (d : Daemon) (i : Id) : Steps d (internalSuspend d i) := by
  refine steps_of_others (others_internalSuspend d i) ?_
  unfold internalSuspend Daemon.remTimeout Daemon.remNormal Daemon.remManual Daemon.remConns Step1
  dsimp only
  repeat' split
  all_goals first | (simp; done) | (simp; grind) | grind

theorem steps_resumeOne (v : Variant) (d : Daemon) (i : Id) : Steps d (resumeOne v d i) := by
  refine steps_of_others (others_resumeOne v d i) ?_
  unfold resumeOne Daemon.remSusp Daemon.insTimeout Step1
  dsimp only
  repeat' split
  all_goals first | (simp; done) | (simp; grind) | grind

theorem steps_processOneNew (v : Variant) (d : Daemon) (i : Id) : Steps d (processOneNew v d i) := by
  refine steps_of_others (others_processOneNew v d i) ?_
  unfold processOneNew Step1
  dsimp only
  repeat' split
  all_goals first | (simp; done) | (simp; grind) | grind

theorem steps_freeOne (d : Daemon) (i : Id) : Steps d (freeOne d i) := by
  refine steps_of_others (others_freeOne d i) ?_
  unfold freeOne Step1
  first | (simp; done) | (simp; grind) | grind

theorem steps_cleanupConnection (d : Daemon) (i : Id) (hc : (d.c i).closed = true) :
    Steps d (cleanupConnection d i) := by
  refine steps_of_others (others_cleanupConnection d i) ?_
  unfold cleanupConnection Daemon.remTimeout Daemon.remNormal Daemon.remManual Daemon.remConns Daemon.remSusp Step1
  dsimp only
  repeat' split
  all_goals first | (simp [hc]; done) | (simp [hc]; grind) | grind

theorem steps_set_same (d : Daemon) (i : Id) (x : Conn) (h1 : x.la = (d.c i).la) (h2 : x.tmo = (d.c i).tmo)
    (h3 : x.suspended = (d.c i).suspended) (h4 : (d.c i).closed = true → x.closed = true) : Steps d (d.set i x) := by
  refine steps_of_others (others_set i d x) ?_
  unfold Step1
  simp only [set_c, if_true]
  refine ⟨fun h => Or.inl (h4 h), Or.inr (Or.inr ⟨h2, Or.inr ⟨h1, fun h => by rw [h3]; exact h⟩⟩)⟩

theorem steps_epollUpdate (d : Daemon) (i : Id) : Steps d (epollUpdate d i) := by
  refine steps_of_others (others_epollUpdate d i) ?_
  unfold epollUpdate epollArm epollQueue Step1
  dsimp only
  repeat' split
  all_goals first | (simp; done) | (simp; grind) | grind

theorem steps_procBuf (d : Daemon) (i : Id) : Steps d (procBuf d i) := by
  rcases procBuf_cases d i with e | e <;> rw [e]
  · exact Steps.refl d
  · exact steps_set_same d i _ rfl rfl rfl (fun h => h)


theorem steps_epollEvent (d : Daemon) (i : Id) : Steps d (epollEvent d i) := by
  have o : Others i d (epollEvent d i) := by
    unfold epollEvent
    dsimp only
    repeat' split
    all_goals first
      | exact Others.refl i d
      | (refine ⟨rfl, rfl, rfl, ⟨rfl, rfl⟩, ?_⟩; intro j hj; simp [hj])
  refine steps_of_others o ?_
  unfold epollEvent Step1
  dsimp only
  repeat' split
  all_goals first | (simp; done) | (simp; grind) | grind

theorem foldl_steps {f : Daemon → Id → Daemon} (hf : ∀ d i, Steps d (f d i)) :
    ∀ (l : List Id) (d : Daemon), Steps d (l.foldl f d)
  | [], d => Steps.refl d
  | i :: rest, d => by
    rw [List.foldl_cons]
    exact Steps.trans (hf d i) (foldl_steps hf rest (f d i))

theorem steps_flags (d d' : Daemon) (hn : d'.now = d.now) (hb : d'.back = d.back) (hc : d'.c = d.c) : Steps d d' :=
  ⟨hn, hb, fun j => by rw [hc]; exact Step1.refl _ _⟩

theorem steps_notePending (v : Variant) (d : Daemon) (i : Id) : Steps d (notePending v d i) := by
  rw [notePending_eq]; exact steps_flags _ _ rfl rfl rfl

theorem steps_resumeSuspended (v : Variant) (d : Daemon) : Steps d (resumeSuspended v d) := by
  unfold resumeSuspended
  dsimp only
  exact Steps.trans (steps_flags d { d with resuming := false } rfl rfl rfl) (foldl_steps (steps_resumeOne v) _ _)

theorem steps_epollWait (d : Daemon) : Steps d (epollWait d) := by
  unfold epollWait
  exact Steps.trans (steps_flags d { d with kq := [] } rfl rfl rfl) (foldl_steps steps_epollEvent _ _)

/-! ### events of a round -/

/-- every close-for-timeout among the events concerns a connection that was expired, not suspended
    and had a timeout in the state `d0` -/
def EvOk (d0 : Daemon) (evs : List Event) : Prop :=
  ∀ i a, Event.tmoClose i a ∈ evs →
    (d0.c i).suspended = false ∧ (d0.c i).tmo ≠ 0 ∧ checkTimedOut d0.now (d0.c i) = true

def Sound (d0 : Daemon) (r : Daemon × List Event) : Prop := Steps d0 r.1 ∧ EvOk d0 r.2

theorem evOk_nil (d0 : Daemon) : EvOk d0 [] := fun _ _ h => absurd h List.not_mem_nil

theorem evOk_append {d0 : Daemon} {a b : List Event} (ha : EvOk d0 a) (hb : EvOk d0 b) : EvOk d0 (a ++ b) := by
  intro i x h
  rcases List.mem_append.1 h with y | y
  · exact ha i x y
  · exact hb i x y

theorem evOk_of_no_close {d0 : Daemon} {evs : List Event} (h : ∀ i a, Event.tmoClose i a ∉ evs) : EvOk d0 evs :=
  fun i a hm => absurd hm (h i a)

theorem sound_seq2 {d0 : Daemon} {a : Daemon × List Event} {f : Daemon → Daemon × List Event}
    (ha : Sound d0 a) (hf : ∀ d, Steps d0 d → Sound d0 (f d)) : Sound d0 (seq2 a f) := by
  have := hf a.1 ha.1
  exact ⟨this.1, evOk_append ha.2 this.2⟩

theorem sound_idleCheck {d0 d : Daemon} (hs : Steps d0 d) (i : Id) (hc : (d.c i).closed = false) :
    Sound d0 (idleCheck d i) := by
  unfold idleCheck
  dsimp only
  split
  · rename_i ht
    refine ⟨Steps.trans hs (steps_set_same d i _ rfl rfl rfl (fun _ => rfl)), ?_⟩
    intro j a hm
    simp only [List.mem_singleton, Event.tmoClose.injEq] at hm
    obtain ⟨e, _⟩ := hm
    subst e
    have s1 := hs.2.2 j
    rw [hs.1] at ht
    exact expired_before s1 hc ht
  · exact ⟨Steps.trans hs (steps_epollUpdate d i), evOk_nil d0⟩

theorem sound_handleIdle {d0 d : Daemon} (hs : Steps d0 d) (i : Id) : Sound d0 (handleIdle d i) := by
  unfold handleIdle
  split
  · rename_i hc
    exact ⟨Steps.trans hs (steps_cleanupConnection d i hc), evOk_nil d0⟩
  · rename_i hc
    exact sound_idleCheck hs i (by simpa using hc)

theorem sound_readData (v : Variant) {d0 d : Daemon} (hs : Steps d0 d) (i : Id) : Sound d0 (readData v d i) := by
  unfold readData
  dsimp only
  have s1 := Steps.trans hs (steps_set_same d i (readRec (d.c i)) rfl rfl rfl (fun h => h))
  have s2 := Steps.trans s1 (steps_updateLastActivity v _ i)
  split
  · split
    · refine ⟨?_, ?_⟩
      · refine Steps.trans ?_ (steps_internalSuspend _ i)
        refine Steps.trans s2 ?_
        exact steps_set_same _ i _ rfl rfl rfl (fun h => h)
      · intro j a hm; simp at hm
    · refine ⟨?_, evOk_nil d0⟩
      refine Steps.trans s2 ?_
      exact steps_set_same _ i _ rfl rfl rfl (fun h => h)
  · split
    · refine ⟨?_, evOk_nil d0⟩
      refine Steps.trans s2 ?_
      exact steps_set_same _ i _ rfl rfl rfl (fun h => h)
    · exact ⟨s2, evOk_nil d0⟩

theorem mem_ite_nil {α : Type} {p : Prop} [Decidable p] {x e : α} (h : e ∈ (if p then [] else [x])) : e = x := by
  by_cases hp : p
  · rw [if_pos hp] at h; exact absurd h List.not_mem_nil
  · rw [if_neg hp] at h; exact List.mem_singleton.1 h

theorem writeStep_events (v : Variant) (d : Daemon) (i : Id) :
    ∀ e, e ∈ (writeStep v d i).2 → e = Event.completed i := by
  intro e he
  unfold writeStep at he
  dsimp only at he
  by_cases hf : i ∈ d.fset
  · simp only [hf, if_true] at he
    exact mem_ite_nil he
  · simp only [hf, if_false] at he
    exact absurd he List.not_mem_nil

theorem sound_writeStep (v : Variant) {d0 d : Daemon} (hs : Steps d0 d) (i : Id) : Sound d0 (writeStep v d i) := by
  obtain ⟨d1, h1, h2⟩ := writeStep_cases v d i
  have s1 : Steps d0 d1 := by
    rcases h1 with e | e <;> rw [e]
    · exact hs
    · exact Steps.trans hs (steps_updateLastActivity v d i)
  refine ⟨?_, ?_⟩
  · rcases h2 with e | e <;> rw [e]
    · exact s1
    · exact Steps.trans s1 (steps_set_same d1 i _ rfl rfl rfl (fun h => h))
  · intro j a hm
    have := writeStep_events v d i _ hm
    cases this

theorem sound_closeOther {d0 d : Daemon} (hs : Steps d0 d) (i : Id) (code : Nat) : Sound d0 (closeOther d i code) := by
  unfold closeOther
  refine ⟨Steps.trans hs (steps_set_same d i _ rfl rfl rfl (fun _ => rfl)), ?_⟩
  intro j a hm; simp at hm


theorem sound_handleIdleP {d0 d : Daemon} (hs : Steps d0 d) (i : Id) : Sound d0 (handleIdleP d i) :=
  sound_handleIdle (Steps.trans hs (steps_procBuf d i)) i

theorem sound_note (v : Variant) {d0 : Daemon} {r : Daemon × List Event} (h : Sound d0 r) (i : Id) :
    Sound d0 (notePending v r.1 i, r.2) :=
  ⟨Steps.trans h.1 (steps_notePending v r.1 i), h.2⟩

theorem sound_callHandlersSel (v : Variant) {d0 d : Daemon} (hs : Steps d0 d) (i : Id) (r : Bool) :
    Sound d0 (callHandlersSel v d i r) := by
  unfold callHandlersSel
  dsimp only
  apply sound_note
  unfold callHandlersSel0
  dsimp only
  split
  · exact sound_handleIdle hs i
  · split
    · exact sound_seq2 (sound_writeStep v hs i) (fun d' h' => sound_handleIdle h' i)
    · split
      · refine sound_seq2 (sound_readData v hs i) (fun d' h' => ?_)
        unfold fastTrack
        split
        · exact sound_seq2 (sound_writeStep v h' i) (fun d'' h'' => sound_handleIdle h'' i)
        · exact sound_handleIdle h' i
      · split
        · exact sound_seq2 (sound_closeOther hs i _) (fun d' h' => sound_handleIdle h' i)
        · exact sound_handleIdleP hs i

theorem sound_travSel (v : Variant) (rs : List Id) {d0 : Daemon} : ∀ (l : List Id) (d : Daemon), Steps d0 d →
    Sound d0 (travSel v rs l d)
  | [], d, hs => ⟨hs, evOk_nil d0⟩
  | i :: rest, d, hs => by
    unfold travSel
    dsimp only
    have h1 := sound_callHandlersSel v hs i (rs.contains i)
    split
    · exact h1
    · exact sound_seq2 h1 (fun d' h' => sound_travSel v rs rest d' h')

theorem sound_processNew (v : Variant) {d0 d : Daemon} (hs : Steps d0 d) : Sound d0 (processNew v d) := by
  unfold processNew
  split
  · dsimp only
    refine ⟨?_, ?_⟩
    · exact Steps.trans hs (Steps.trans (steps_flags d { d with newL := [], haveNew := false } rfl rfl rfl)
        (foldl_steps (steps_processOneNew v) _ _))
    · intro i a hm; simp at hm
  · exact ⟨hs, evOk_nil d0⟩

theorem sound_cleanupAll {d0 d : Daemon} (hs : Steps d0 d) : Sound d0 (cleanupAll d) := by
  unfold cleanupAll
  dsimp only
  refine ⟨?_, ?_⟩
  · exact Steps.trans hs (Steps.trans (foldl_steps steps_freeOne _ _)
      (steps_flags _ { (d.cleanup.reverse.foldl freeOne d) with cleanup := [] } rfl rfl rfl))
  · intro i a hm; simp at hm

theorem sound_roundSelect (v : Variant) (d : Daemon) : Sound d (roundSelect v d) := by
  unfold roundSelect
  dsimp only
  have s1 : Steps d (if d.cfg.allowSuspend then resumeSuspended v d else d) := by
    split; exact steps_resumeSuspended v d; exact Steps.refl d
  have s2 : Steps d { (if d.cfg.allowSuspend then resumeSuspended v d else d) with dataPending := false } :=
    Steps.trans s1 (steps_flags _ _ rfl rfl rfl)
  exact sound_seq2 (sound_seq2 (sound_processNew v s2) (fun d' h' => sound_travSel v _ _ d' h'))
    (fun d' h' => sound_cleanupAll h')

theorem sound_scanManual {d0 : Daemon} : ∀ (l : List Id) (d : Daemon), Steps d0 d → Sound d0 (scanManual l d)
  | [], d, hs => ⟨hs, evOk_nil d0⟩
  | i :: rest, d, hs => by
    unfold scanManual
    exact sound_seq2 (sound_handleIdleP hs i) (fun d' h' => sound_scanManual rest d' h')

theorem sound_scanNormal {d0 : Daemon} : ∀ (l : List Id) (d : Daemon), Steps d0 d → Sound d0 (scanNormal l d)
  | [], d, hs => ⟨hs, evOk_nil d0⟩
  | i :: rest, d, hs => by
    unfold scanNormal
    dsimp only
    split
    · exact sound_seq2 (sound_handleIdleP hs i) (fun d' h' => sound_scanNormal rest d' h')
    · exact sound_handleIdleP hs i

theorem sound_callHandlersE0 (v : Variant) {d0 d : Daemon} (hs : Steps d0 d) (i : Id) : Sound d0 (callHandlersE0 v d i) := by
  unfold callHandlersE0
  dsimp only
  split
  · exact ⟨hs, evOk_nil d0⟩
  · split
    · split
      · exact sound_handleIdle hs i
      · exact sound_seq2 (sound_closeOther hs i _) (fun d' h' => sound_handleIdle h' i)
    · split
      · exact sound_handleIdle hs i
      · split
        · exact sound_handleIdleP hs i
        · split
          · split
            · exact sound_seq2 (sound_readData v hs i) (fun d' h' => sound_handleIdle h' i)
            · split
              · exact sound_seq2 (sound_closeOther hs i _) (fun d' h' => sound_handleIdle h' i)
              · apply sound_handleIdle
                refine Steps.trans hs ?_
                exact steps_set_same d i _ rfl rfl rfl (fun h => h)
          · exact sound_handleIdle hs i

theorem sound_callHandlersE (v : Variant) {d0 d : Daemon} (hs : Steps d0 d) (i : Id) : Sound d0 (callHandlersE v d i) := by
  unfold callHandlersE
  dsimp only
  have h : Sound d0 (callHandlersE1 v d i) := by
    unfold callHandlersE1
    dsimp only
    split
    · exact sound_callHandlersE0 v hs i
    · exact sound_note v (sound_callHandlersE0 v hs i) i
  split
  · exact ⟨Steps.trans h.1 (steps_flags _ _ rfl rfl rfl), h.2⟩
  · exact h

theorem sound_procEready (v : Variant) {d0 : Daemon} : ∀ (l : List Id) (d : Daemon), Steps d0 d → Sound d0 (procEready v l d)
  | [], d, hs => ⟨hs, evOk_nil d0⟩
  | i :: rest, d, hs => by
    unfold procEready
    exact sound_seq2 (sound_callHandlersE v hs i) (fun d' h' => sound_procEready v rest d' h')

theorem sound_roundEpoll (v : Variant) (d : Daemon) : Sound d (roundEpoll v d) := by
  unfold roundEpoll
  dsimp only
  have s1 : Steps d (if d.cfg.allowSuspend then resumeSuspended v d else d) := by
    split; exact steps_resumeSuspended v d; exact Steps.refl d
  have s2 : Steps d (epollWait { (if d.cfg.allowSuspend then resumeSuspended v d else d) with dataPending := false }) :=
    Steps.trans (Steps.trans s1 (steps_flags _ _ rfl rfl rfl)) (steps_epollWait _)
  exact sound_seq2 (sound_seq2 (sound_seq2 (sound_seq2 (sound_processNew v s2)
    (fun d' h' => sound_scanManual _ d' h'))
    (fun d' h' => sound_scanNormal _ d' h'))
    (fun d' h' => sound_procEready v _ d' h'))
    (fun d' h' => sound_cleanupAll h')

/-- **Round soundness.**  Whatever the state (reachable or not), loop and variant: a connection closed
    for timeout by a round was, before the round, not suspended, had a timeout, and the close decision
    holds for the stamp it had then. -/
theorem round_sound (v : Variant) (d : Daemon) (i : Id) (a : Bool)
    (h : Event.tmoClose i a ∈ (round v d).2) :
    (d.c i).suspended = false ∧ (d.c i).tmo ≠ 0 ∧ checkTimedOut d.now (d.c i) = true := by
  unfold round at h
  split at h
  · exact (sound_roundEpoll v d).2 i a h
  · exact (sound_roundSelect v d).2 i a h

end Mhd.Tmo
