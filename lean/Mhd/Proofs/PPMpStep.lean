/-
  Round trip of the multipart machine, one loop iteration: `act_spec` — on a window that is a prefix
  of the rest of a well-formed stream, the `skip_rn` machine, the main switch and `AGAIN:` keep the
  invariant `MInv`, never return an error, and make progress unless the window is too short.
-/
import Mhd.Proofs.PPMpInv
namespace Mhd.PP

/-- everything after the copy and the out-of-memory test in one iteration of the loop -/
def act (pp1 : PP) (l2 : ML) : PP × ML × Flow :=
  match rnMachine pp1 l2 with
  | (pp2, l3, some .again) => let (pp3, l4) := again pp2 l3; (pp3, l4, if pp3.fault.isSome then .ret else .again)
  | (pp2, l3, some f) => (pp2, l3, f)
  | (pp2, l3, none) =>
    match mainSwitch pp2 l3 with
    | (pp3, l4, .again) => let (pp4, l5) := again pp3 l4; (pp4, l5, if pp4.fault.isSome then .ret else .again)
    | r => r

theorem mpIter_eq (d : Bytes) (pp : PP) (l : ML) :
    mpIter d pp l =
      if pp.buf.length > pp.bufferSize then (pp.setFault "buffer-pos-oob", l, .ret) else
      let max := min (pp.bufferSize - pp.buf.length) (d.length - l.poff)
      let pp1 := { pp with buf := pp.buf ++ slice d l.poff (l.poff + max) }
      let l1 := { l with poff := l.poff + max }
      if max = 0 ∧ l1.stateChanged = false ∧ l1.poff < d.length then ({ pp1 with state := .error }, l1, .ret)
      else act pp1 { l1 with stateChanged := false } := rfl

theorem rn_step (pp : PP) (l : ML) (pend X : Bytes) (hr : RnOk pp.skipRn (pp.buf ++ pend) X)
    (hrn : pp.skipRn ≠ .inactive) (hne : pp.buf ≠ []) (hio : l.ioff = 0) (hf : pp.fault = none) :
    ∃ k rn', 0 < k ∧ k ≤ pp.buf.length ∧
      act pp l = ({ pp with skipRn := rn', buf := pp.buf.drop k }, { l with ioff := 0, stateChanged := true }, .again) ∧
      RnOk rn' (pp.buf.drop k ++ pend) X := by
  obtain ⟨c0, b', hb⟩ : ∃ c0 b', pp.buf = c0 :: b' := by
    cases h : pp.buf with
    | nil => exact absurd h hne
    | cons a t => exact ⟨a, t, rfl⟩
  rcases hr with ⟨h, _⟩ | ⟨h, hR⟩ | ⟨h, hR⟩
  · exact absurd h hrn
  · rw [hb] at hR
    simp only [List.cons_append, List.cons.injEq] at hR
    obtain ⟨rfl, hR⟩ := hR
    refine ⟨1, .inactive, by omega, by simp [hb], ?_, ?_⟩
    · simp [act, rnMachine, h, rnOptN, hb, again, hf, hio]
    · simp [hb, RnOk, hR]
  · rw [hb] at hR
    simp only [List.cons_append, List.cons.injEq] at hR
    obtain ⟨rfl, hR⟩ := hR
    cases b' with
    | nil =>
      refine ⟨1, .optN, by omega, by simp [hb], ?_, ?_⟩
      · rcases h with h | h <;> simp [act, rnMachine, h, rnDash, rnFull, hb, again, hf, hio, cCR, cDash]
      · simp only [List.nil_append] at hR
        simp [hb, RnOk, hR]
    | cons c1 b'' =>
      simp only [List.cons_append, List.cons.injEq] at hR
      obtain ⟨rfl, hR⟩ := hR
      have hlt : ¬ (b''.length + 1 + 1 < 2) := by omega
      refine ⟨2, .inactive, by omega, by simp [hb], ?_, ?_⟩
      · rcases h with h | h <;> simp [act, rnMachine, h, rnDash, rnFull, hb, again, hf, hio, cCR, cDash, hlt]
      · simp [hb, RnOk, hR]

theorem findBoundary_short (pp : PP) (B : Bytes) (ioff : Nat) (next nd : St) (h : pp.buf.length < 2 + B.length)
    (h2 : pp.buf.length ≠ pp.bufferSize) : findBoundary pp B ioff next nd = (pp, ioff, false) := by
  simp [findBoundary, h, h2]

theorem findBoundary_hit (pp : PP) (B : Bytes) (ioff : Nat) (next nd : St) (a' : Bytes)
    (h : pp.buf = sDashDash ++ B ++ a') :
    findBoundary pp B ioff next nd =
      ({ pp with skipRn := .dash, state := next, dashState := nd }, ioff + 2 + B.length, true) := by
  have h1 : ¬ pp.buf.length < 2 + B.length := by rw [h]; simp [sDashDash]; omega
  have h2 : slice pp.buf 0 2 = sDashDash := by rw [h]; simp [slice, sDashDash]
  have h3 : slice pp.buf 2 (2 + B.length) = B := by rw [h]; simp [slice, sDashDash]
  simp [findBoundary, h1, h2, h3]

theorem again_pos (pp : PP) (l : ML) (h0 : 0 < l.ioff) (h1 : l.ioff ≤ pp.buf.length) :
    again pp l = ({ pp with buf := pp.buf.drop l.ioff }, { l with ioff := 0, stateChanged := true }) := by
  have : ¬ l.ioff > pp.buf.length := by omega
  simp [again, h0, this]

theorem again_zero (pp : PP) (l : ML) (h0 : l.ioff = 0) : again pp l = (pp, l) := by
  simp [again, h0]

theorem act_main (pp : PP) (l : ML) (hrn : pp.skipRn = .inactive) :
    act pp l = match mainSwitch pp l with
      | (pp3, l4, .again) => ((again pp3 l4).1, (again pp3 l4).2, if (again pp3 l4).1.fault.isSome then .ret else .again)
      | r => r := by
  simp only [act, rnMachine, hrn]

theorem act_main_again (pp : PP) (l : ML) (pp3 : PP) (l4 : ML) (hrn : pp.skipRn = .inactive)
    (h : mainSwitch pp l = (pp3, l4, .again)) :
    act pp l = ((again pp3 l4).1, (again pp3 l4).2, if (again pp3 l4).1.fault.isSome then .ret else .again) := by
  rw [act_main pp l hrn, h]

theorem act_main_end (pp : PP) (l : ML) (pp3 : PP) (l4 : ML) (hrn : pp.skipRn = .inactive)
    (h : mainSwitch pp l = (pp3, l4, .gotoEnd)) : act pp l = (pp3, l4, .gotoEnd) := by
  rw [act_main pp l hrn, h]

/-- what one pass of `act` has to establish -/
def ActOk (c : Cfg) (pend : Bytes) (pp1 : PP) (l2 : ML) (r : PP × ML × Flow) : Prop :=
  r.2.2 ≠ .ret ∧ MBase c r.1 ∧ MInv c r.1 (r.1.buf ++ pend) ∧ r.2.1.ioff = 0 ∧ r.2.1.poff = l2.poff ∧
  ((r.2.2 = .gotoEnd ∨ r.2.1.stateChanged = false) → Quiescent r.1) ∧ (r.2.2 = .gotoEnd → r.1.buf = pp1.buf)

theorem delivers_nil : Delivers [] [] := rfl

theorem bnd0_step (c : Cfg) (hc : CfgOk c) (pp : PP) (l : ML) (pend : Bytes) (hb : MBase c pp)
    (hrn : pp.skipRn = .inactive) (hs : pp.state = .init) (he : pp.evs = [])
    (hm : pp.metaOf = ⟨none, none, none, none⟩)
    (hX : pp.buf ++ pend = sDashDash ++ c.B ++ afterB c.B c.parts)
    (hio : l.ioff = 0) : ActOk c pend pp l (act pp l) := by
  by_cases hshort : pp.buf.length < 2 + c.B.length
  · have hne : pp.buf.length ≠ pp.bufferSize := by rw [hb.size]; have := hc.bs; omega
    have hms : mainSwitch pp l = (pp, l, .again) := by
      simp only [mainSwitch, hs, hb.bnd, findBoundary_short pp c.B l.ioff _ _ hshort hne]
    rw [act_main_again pp l _ _ hrn hms]
    simp only [again_zero pp l hio, hb.fault]
    refine ⟨by simp, hb, ?_, hio, rfl, fun _ => ?_, by simp⟩
    · exact .main _ (Or.inl ⟨hrn, hX⟩) (.bnd0 hs he hm rfl)
    · exact Or.inr ⟨hrn, Or.inl ⟨hs, by rw [hb.bnd]; exact hshort⟩⟩
  · obtain ⟨a', ha, hp⟩ : ∃ a', pp.buf = sDashDash ++ c.B ++ a' ∧ afterB c.B c.parts = a' ++ pend := by
      rcases List.append_eq_append_iff.mp hX with ⟨a', h1, h2⟩ | ⟨c', h1, h2⟩
      · have hl := congrArg List.length h1
        simp only [List.length_append, sDashDash, List.length_cons, List.length_nil] at hl
        have : a' = [] := List.length_eq_zero_iff.mp (by omega)
        subst this
        exact ⟨[], by simpa using h1.symm, by simpa using h2.symm⟩
      · exact ⟨c', h1, h2⟩
    have hms : mainSwitch pp l =
        ({ pp with skipRn := .dash, state := .processEntryHeaders, dashState := .done },
          { l with ioff := l.ioff + 2 + c.B.length }, .again) := by
      simp only [mainSwitch, hs, hb.bnd, findBoundary_hit pp c.B l.ioff _ _ a' ha]
    rw [act_main_again pp l _ _ hrn hms]
    have hlen : pp.buf.length = 2 + c.B.length + a'.length := by rw [ha]; simp [sDashDash]; omega
    rw [again_pos _ _ (by simp; omega) (by simp [hio, hlen])]
    have hdrop : pp.buf.drop (l.ioff + 2 + c.B.length) = a' := by
      rw [hio, ha]
      have : 0 + 2 + c.B.length = (sDashDash ++ c.B).length := by simp [sDashDash]; omega
      rw [this, List.drop_left]
    simp only [hdrop, hb.fault]
    refine ⟨by simp, ⟨hb.size, hb.bnd, hb.xbuf, rfl⟩, ?_, rfl, rfl, fun h => ?_, by simp⟩
    · show MInv c _ (a' ++ pend)
      rw [← hp]
      cases hpa : c.parts with
      | nil => exact .fin0 (by rw [hpa]; show Delivers pp.evs []; rw [he]; rfl) rfl rfl rfl
      | cons p rest =>
        have hpo := hc.parts p (by rw [hpa]; simp)
        refine .main _ (Or.inr (Or.inr ⟨Or.inr rfl, rfl⟩)) (.hdr [] p rest (hdrLines p) (by simp [hpa]) ?_ (Or.inl ⟨rfl, ?_⟩) hpo.lines rfl)
        · show Delivers pp.evs []; rw [he]; rfl
        · show (hdrLines p).foldl hdrM pp.metaOf = metaP p
          rw [hm]; exact hpo.hdr
    · rcases h with h | h <;> simp at h

theorem lineEnd_noCRLF : ∀ (l : Bytes), (∀ c ∈ l, c ≠ cCR ∧ c ≠ cLF) → lineEnd l = l.length
  | [], _ => rfl
  | x :: t, h => by
    have hx := h x (by simp)
    have := lineEnd_noCRLF t (fun c hc => h c (by simp [hc]))
    simp [lineEnd, hx.1, hx.2, this]

theorem lineEnd_app : ∀ (ln more : Bytes), (∀ c ∈ ln, c ≠ cCR ∧ c ≠ cLF) → lineEnd (ln ++ cCR :: more) = ln.length
  | [], more, _ => by simp [lineEnd]
  | x :: t, more, h => by
    have hx := h x (by simp)
    have := lineEnd_app t more (fun c hc => h c (by simp [hc]))
    simp [lineEnd, hx.1, hx.2, this]

theorem pmh_wait (pp : PP) (ioff : Nat) (next : St) (h : lineEnd pp.buf = pp.buf.length)
    (h2 : pp.buf.length ≠ pp.bufferSize) : processMultipartHeaders pp ioff next = (pp, ioff, false) := by
  simp [processMultipartHeaders, h, h2]

theorem pmh_empty (pp : PP) (ioff : Nat) (next : St) (more : Bytes) (h : pp.buf = cCR :: more)
    (h2 : 0 ≠ pp.bufferSize) :
    processMultipartHeaders pp ioff next = ({ pp with skipRn := .full, state := next }, ioff, true) := by
  have : lineEnd pp.buf = 0 := by rw [h]; simp [lineEnd]
  have h3 : ¬ (0 = pp.buf.length) := by rw [h]; simp
  unfold processMultipartHeaders
  simp only [this, h2, h3, if_false, if_true]

theorem pmh_line (pp : PP) (ioff : Nat) (next : St) (ln more : Bytes) (hne : ln ≠ [])
    (hcl : ∀ c ∈ ln, c ≠ cCR ∧ c ≠ cLF) (hfit : ln.length < pp.bufferSize) (hb : pp.buf = ln ++ cCR :: more) :
    processMultipartHeaders pp ioff next =
      ({ pp with skipRn := .optN, cname := (hdrM pp.metaOf ln).key, cfile := (hdrM pp.metaOf ln).filename,
                 ctype := (hdrM pp.metaOf ln).ctype, cenc := (hdrM pp.metaOf ln).enc,
                 buf := pp.buf.set ln.length 0 }, ioff + ln.length + 1, true) := by
  have h1 : lineEnd pp.buf = ln.length := by rw [hb]; exact lineEnd_app ln more hcl
  have h2 : ¬ ln.length = pp.bufferSize := by omega
  have h3 : ¬ ln.length = pp.buf.length := by rw [hb]; simp
  have h4 : ¬ ln.length = 0 := by
    intro h; exact hne (List.length_eq_zero_iff.mp h)
  have h5 : pp.buf[ln.length]? = some cCR := by rw [hb]; simp
  have h6 : pp.buf.take ln.length = ln := by rw [hb]; simp
  unfold processMultipartHeaders
  simp only [h1, h2, h3, h4, h5, if_false, if_true, h6]
  by_cases hd : eqCaselessN hdrDisposition (cstr ln) hdrDisposition.length = true
  · simp [hdrM, hd, PP.metaOf]
  · simp [hdrM, hd, PP.metaOf]

theorem hdr_step (c : Cfg) (hc : CfgOk c) (pp : PP) (l : ML) (pend : Bytes) (hb : MBase c pp)
    (hrn : pp.skipRn = .inactive) (done : List Part) (p : Part) (rest : List Part) (lines : List Bytes)
    (hsp : c.parts = done ++ p :: rest) (hd : Delivers pp.evs (done.map fieldOf))
    (hs : (pp.state = .processEntryHeaders ∧ lines.foldl hdrM pp.metaOf = metaP p) ∨
          (pp.state = .performCleanup ∧ lines = hdrLines p))
    (hl : ∀ ln ∈ lines, LineOk c.size ln)
    (hX : pp.buf ++ pend = linesEnc lines ++ (cCR :: cLF :: (p.value ++ sCRLFDashDash ++ (c.B ++ afterB c.B rest))))
    (hne : pp.buf ≠ []) (hio : l.ioff = 0) : ActOk c pend pp l (act pp l) := by
  have hpo := hc.parts p (by rw [hsp]; simp)
  have hsz0 : 0 ≠ pp.bufferSize := by rw [hb.size]; have := hc.bs; omega
  rcases hs with ⟨hs, hfold⟩ | ⟨hs, hlines⟩
  · -- PP_ProcessEntryHeaders
    have hms : mainSwitch pp l =
        flowHeaders (processMultipartHeaders { pp with mustIkvi := true } l.ioff .performCheckMultipart) l := by
      simp only [mainSwitch, hs]
    cases lines with
    | nil =>
      simp only [linesEnc, List.nil_append] at hX
      obtain ⟨b', hbuf⟩ : ∃ b', pp.buf = cCR :: b' := by
        cases hpb : pp.buf with
        | nil => exact absurd hpb hne
        | cons a t => rw [hpb] at hX; simp only [List.cons_append, List.cons.injEq] at hX; exact ⟨t, by rw [hX.1]⟩
      rw [pmh_empty { pp with mustIkvi := true } l.ioff _ b' hbuf hsz0] at hms
      simp only [flowHeaders, if_true] at hms
      rw [act_main_again pp l _ _ hrn hms, again_zero _ { l with stateChanged := true } hio]
      simp only [hb.fault]
      refine ⟨by simp, ⟨hb.size, hb.bnd, hb.xbuf, by first | rfl | exact hb.fault⟩, ?_, hio, rfl, fun h => ?_, by simp⟩
      · exact .main _ (Or.inr (Or.inr ⟨Or.inl rfl, hX⟩)) (.chk done p rest hsp hd rfl (by show pp.metaOf = metaP p; simpa using hfold) rfl rfl)
      · rcases h with h | h <;> simp at h
    | cons ln lrest =>
      have hlo := hl ln (by simp)
      simp only [linesEnc, List.append_assoc, List.cons_append] at hX
      have hcase : (∃ as, ln = pp.buf ++ as) ∨
          (∃ b'', pp.buf = ln ++ cCR :: b'' ∧
            b'' ++ pend = cLF :: (linesEnc lrest ++ (cCR :: cLF :: (p.value ++ (sCRLFDashDash ++ (c.B ++ afterB c.B rest)))))) := by
        rcases List.append_eq_append_iff.mp hX with ⟨as, h1, _⟩ | ⟨bs, h1, h2⟩
        · exact Or.inl ⟨as, h1⟩
        · cases bs with
          | nil => exact Or.inl ⟨[], by simpa using h1.symm⟩
          | cons b0 b'' =>
            simp only [List.cons_append, List.cons.injEq] at h2
            exact Or.inr ⟨b'', by rw [h1, ← h2.1], h2.2.symm⟩
      rcases hcase with ⟨as, has⟩ | ⟨b'', hbuf, hrest⟩
      · -- the line is not complete yet
        have hle : lineEnd pp.buf = pp.buf.length :=
          lineEnd_noCRLF _ (fun x hx => hlo.2.1 x (by rw [has]; simp [hx]))
        have hlen : pp.buf.length ≠ pp.bufferSize := by
          have := congrArg List.length has
          simp only [List.length_append] at this
          have := hlo.2.2; rw [hb.size]; omega
        rw [pmh_wait { pp with mustIkvi := true } l.ioff _ hle hlen] at hms
        simp only [flowHeaders, hs] at hms
        rw [act_main_end pp l _ _ hrn (by simpa using hms)]
        refine ⟨by simp, ⟨hb.size, hb.bnd, hb.xbuf, by first | rfl | exact hb.fault⟩, ?_, hio, rfl, fun _ => ?_, fun _ => rfl⟩
        · refine .main _ (Or.inl ⟨hrn, ?_⟩) (.hdr done p rest (ln :: lrest) hsp hd (Or.inl ⟨by first | rfl | exact hs, hfold⟩) hl rfl)
          simpa [linesEnc] using hX
        · exact Or.inr ⟨hrn, Or.inr (Or.inl ⟨by first | rfl | exact hs, hle⟩)⟩
      · -- a complete header line
        rw [pmh_line { pp with mustIkvi := true } l.ioff _ ln b'' hlo.1 hlo.2.1 (by rw [hb.size]; exact hlo.2.2) hbuf] at hms
        simp only [flowHeaders, if_true] at hms
        rw [act_main_again pp l _ _ hrn hms]
        have hlen : pp.buf.length = ln.length + 1 + b''.length := by rw [hbuf]; simp; omega
        rw [again_pos _ _ (by simp) (by simp [hio, hlen])]
        have hdrop : (pp.buf.set ln.length 0).drop (l.ioff + ln.length + 1) = b'' := by
          rw [hio, List.drop_set_of_lt (by omega), hbuf]
          have : 0 + ln.length + 1 = (ln ++ [cCR]).length := by simp
          rw [this, show ln ++ cCR :: b'' = (ln ++ [cCR]) ++ b'' by simp, List.drop_left]
        simp only [hdrop, hb.fault]
        refine ⟨by simp, ⟨hb.size, hb.bnd, hb.xbuf, by first | rfl | exact hb.fault⟩, ?_, rfl, rfl, fun h => ?_, by simp⟩
        · show MInv c _ (b'' ++ pend)
          rw [hrest]
          refine .main _ (Or.inr (Or.inl ⟨rfl, rfl⟩)) (.hdr done p rest lrest hsp hd (Or.inl ⟨by first | rfl | exact hs, ?_⟩)
            (fun x hx => hl x (by simp [hx])) (by simp))
          simpa [PP.metaOf] using hfold
        · rcases h with h | h <;> simp at h
  · -- PP_PerformCleanup
    have hms : mainSwitch pp l =
        ({ freeUnmarked pp.clearHave with nested := none, state := .processEntryHeaders },
          { l with stateChanged := true }, .again) := by
      simp only [mainSwitch, hs]
    rw [act_main_again pp l _ _ hrn hms, again_zero _ { l with stateChanged := true } hio]
    have hf : (freeUnmarked pp.clearHave).fault = none := by simp [freeUnmarked, PP.clearHave, hb.fault]
    simp only [hf]
    refine ⟨by simp, ⟨hb.size, hb.bnd, hb.xbuf, by first | rfl | exact hf⟩, ?_, hio, rfl, fun h => ?_, by simp⟩
    · refine .main _ (Or.inl ⟨hrn, hX⟩) (.hdr done p rest lines hsp hd (Or.inl ⟨rfl, ?_⟩) hl rfl)
      have hmeta : (freeUnmarked pp.clearHave).metaOf = ⟨none, none, none, none⟩ := by
        simp [freeUnmarked, PP.clearHave, PP.metaOf]
      show List.foldl hdrM (freeUnmarked pp.clearHave).metaOf lines = metaP p
      rw [hmeta, hlines]; exact hpo.hdr
    · rcases h with h | h <;> simp at h

theorem chk_step (c : Cfg) (hc : CfgOk c) (pp : PP) (l : ML) (pend : Bytes) (hb : MBase c pp)
    (hrn : pp.skipRn = .inactive) (done : List Part) (p : Part) (rest : List Part)
    (hsp : c.parts = done ++ p :: rest) (hd : Delivers pp.evs (done.map fieldOf))
    (hs : pp.state = .performCheckMultipart) (hm : pp.metaOf = metaP p) (hi : pp.mustIkvi = true)
    (hX : pp.buf ++ pend = p.value ++ sCRLFDashDash ++ (c.B ++ afterB c.B rest))
    (hio : l.ioff = 0) : ActOk c pend pp l (act pp l) := by
  have hpo := hc.parts p (by rw [hsp]; simp)
  have hct : pp.ctype = p.ctype := congrArg Meta.ctype hm
  have hms : mainSwitch pp l =
      ({ pp with state := .processValueToBoundary, valueOffset := 0 }, { l with stateChanged := true }, .again) := by
    simp only [mainSwitch, hs, performCheckMultipart]
    cases hc2 : pp.ctype with
    | none => rfl
    | some ct =>
      have := hpo.notMixed ct (by rw [← hct]; exact hc2)
      simp [this]
  rw [act_main_again pp l _ _ hrn hms, again_zero _ { l with stateChanged := true } hio]
  simp only [hb.fault]
  refine ⟨by simp, ⟨hb.size, hb.bnd, hb.xbuf, by first | rfl | exact hb.fault⟩, ?_, hio, rfl, fun h => ?_, by simp⟩
  · refine .main _ (Or.inl ⟨hrn, hX⟩) (.val done p rest 0 pp.evs [] hsp hd (by simp) (by simp [Pieces])
      (Or.inr hi) rfl hm rfl (Nat.zero_le _) (by simp))
  · rcases h with h | h <;> simp at h

/-- the event that `process_value_to_boundary` hands to the iterator -/
def valEv (q : PP) (nl : Nat) : Event :=
  { key := q.cname, filename := q.cfile, ctype := q.ctype, enc := q.cenc, off := q.valueOffset, data := q.buf.take nl }

/-- the state after the iterator call of `process_value_to_boundary` for `buf[0 .. nl)` -/
def partPP (pp : PP) (nl : Nat) : PP :=
  { pp with evs := pp.evs ++ (if pp.mustIkvi = true ∨ nl ≠ 0 then [valEv pp nl] else []), mustIkvi := false, valueOffset := pp.valueOffset + nl }

theorem if_fault (q : PP) (hf : q.fault = none) :
    (if q.fault.isSome = true then Flow.ret else Flow.again) = Flow.again := by simp [hf]

theorem pvtbDeliver_eq (q : PP) (ioff nl : Nat) (h : nl ≤ q.buf.length) :
    pvtbDeliver q ioff nl = (partPP q nl, ioff + nl, true) := by
  have : ¬ nl > q.buf.length := by omega
  unfold pvtbDeliver partPP
  simp only [this, if_false]
  by_cases hc : q.mustIkvi = true ∨ nl ≠ 0
  · simp only [hc, if_true, emitMulti, valEv]
  · simp only [hc, if_false, List.append_nil]

theorem flowValue_true (r : PP × Nat × Bool) (l : ML) (h : r.2.2 = true) :
    flowValue r l = (r.1, { l with ioff := r.2.1 }, .again) := by
  simp [flowValue, h]

theorem again_fst (pp : PP) (l : ML) (h : l.ioff ≤ pp.buf.length) :
    (again pp l).1 = { pp with buf := pp.buf.drop l.ioff } := by
  by_cases h0 : 0 < l.ioff
  · rw [again_pos pp l h0 h]
  · have : l.ioff = 0 := by omega
    rw [again_zero pp l this, this]; rfl

theorem again_snd (pp : PP) (l : ML) (h : l.ioff ≤ pp.buf.length) :
    (again pp l).2.ioff = 0 ∧ (again pp l).2.poff = l.poff ∧ ((again pp l).2.stateChanged = false → l.ioff = 0) := by
  by_cases h0 : 0 < l.ioff
  · rw [again_pos pp l h0 h]; simp
  · have : l.ioff = 0 := by omega
    rw [again_zero pp l this]; exact ⟨this, rfl, fun _ => this⟩

theorem pieces_extend {m : Meta} {v : Bytes} {off nl : Nat} {cur : List Event} (ev : Event)
    (hp : Pieces m 0 (v.take off) cur) (hle : off ≤ v.length) (hm : ev.meta = m) (ho : ev.off = off)
    (hd : ev.data = (v.drop off).take nl) : Pieces m 0 (v.take (off + nl)) (cur ++ [ev]) := by
  rw [List.take_add]
  apply Pieces.append hp
  refine ⟨hm, by rw [ho]; simp; omega, [], by simp [hd], rfl⟩

theorem ActOk.of_again {c : Cfg} {pend : Bytes} {pp : PP} {l : ML} {q : PP} {l' : ML} (hf : q.fault = none)
    (h : ActOk c pend pp l (q, l', .again)) :
    ActOk c pend pp l (q, l', if q.fault.isSome = true then .ret else .again) := by
  rw [if_fault q hf]; exact h

theorem fresh_of_cfg (c : Cfg) (hc : CfgOk c) (p : Part) (hp : p ∈ c.parts) :
    occursIn (sCRLFDashDash ++ c.B)
      (p.value ++ (sCRLFDashDash ++ c.B).take ((sCRLFDashDash ++ c.B).length - 1)) = false := by
  have := hc.fresh
  unfold boundaryFresh at this
  rw [List.all_eq_true] at this
  simpa using this p hp

theorem val_book {m : Meta} {v : Bytes} {off nl : Nat} {cur : List Event} (ev : Event) (mi : Bool)
    (hp : Pieces m 0 (v.take off) cur) (hi : cur ≠ [] ∨ mi = true) (hle : off ≤ v.length)
    (hm : ev.meta = m) (ho : ev.off = off) (hd : ev.data = (v.drop off).take nl) :
    Pieces m 0 (v.take (off + nl)) (cur ++ (if mi = true ∨ nl ≠ 0 then [ev] else [])) ∧
      cur ++ (if mi = true ∨ nl ≠ 0 then [ev] else []) ≠ [] := by
  by_cases hc : mi = true ∨ nl ≠ 0
  · simp only [hc, if_true]
    exact ⟨pieces_extend ev hp hle hm ho hd, by simp⟩
  · simp only [hc, if_false, List.append_nil]
    have h0 : nl = 0 := by
      by_cases h : nl = 0
      · exact h
      · exact absurd (Or.inr h) hc
    have hmi : ¬ mi = true := fun h => hc (Or.inl h)
    subst h0
    refine ⟨by simpa using hp, ?_⟩
    rcases hi with h | h
    · exact h
    · exact absurd h hmi

/-- the state in which `process_value_to_boundary` calls the iterator when it found the boundary at `W` -/
def foundPP (pp : PP) (W : Nat) : PP :=
  { pp with skipRn := .dash, state := .performCleanup, dashState := .done, buf := pp.buf.set W 0 }

theorem val_step (c : Cfg) (hc : CfgOk c) (pp : PP) (l : ML) (pend : Bytes) (hb : MBase c pp)
    (hrn : pp.skipRn = .inactive) (done : List Part) (p : Part) (rest : List Part) (off : Nat)
    (evs0 cur : List Event) (hsp : c.parts = done ++ p :: rest) (hd : Delivers evs0 (done.map fieldOf))
    (he : pp.evs = evs0 ++ cur) (hp : Pieces (metaP p) 0 (p.value.take off) cur)
    (hi : cur ≠ [] ∨ pp.mustIkvi = true) (hs : pp.state = .processValueToBoundary)
    (hm : pp.metaOf = metaP p) (ho : pp.valueOffset = off) (hle : off ≤ p.value.length)
    (hX : pp.buf ++ pend = p.value.drop off ++ sCRLFDashDash ++ (c.B ++ afterB c.B rest))
    (hio : l.ioff = 0) : ActOk c pend pp l (act pp l) := by
  have hpm : p ∈ c.parts := by rw [hsp]; simp
  have hocc := fresh_of_cfg c hc p hpm
  have hfr : ∀ k, k < (p.value.drop off).length →
      slice (pp.buf ++ pend) k (k + 4 + c.B.length) ≠ sCRLFDashDash ++ c.B := by
    intro k hk; rw [hX]; exact fresh_drop c.B p.value _ off k hocc hle hk
  have hwl : (p.value.drop off).length = p.value.length - off := by simp
  have hfull : p.value.take (off + (p.value.drop off).length) = p.value := by
    rw [List.take_of_length_le]; omega
  have hR : ∀ nl, nl ≤ (p.value.drop off).length → (p.value.drop off).drop nl = p.value.drop (off + nl) := by
    intro nl _; rw [List.drop_drop]
  generalize hw : p.value.drop off = w at *
  obtain ⟨sf, sp⟩ := scanBoundary_fresh c.B w (afterB c.B rest) pp.buf pend c.size hc.b1 hX hfr
    (by have := hc.bs; omega) 0 (Nat.zero_le _) (Nat.zero_le _)
  have hms : mainSwitch pp l = flowValue (processValueToBoundary pp l.ioff c.B .performCleanup .done) l := by
    simp only [mainSwitch, hs, hb.bnd]
  have htake : ∀ nl, nl ≤ w.length → nl ≤ pp.buf.length →
      pp.buf.take nl = w.take nl := by
    intro nl h1 h2
    have := congrArg (List.take nl) hX
    rwa [List.take_append_of_le_length h2, List.append_assoc, List.take_append_of_le_length h1] at this
  by_cases hcomp : w.length + 4 + c.B.length ≤ pp.buf.length
  · -- the boundary is completely inside the window
    have hfound := sf hcomp
    obtain ⟨b2, hbuf, htl⟩ : ∃ b2, pp.buf = (w ++ sCRLFDashDash ++ c.B) ++ b2 ∧
        afterB c.B rest = b2 ++ pend := by
      have hX' : pp.buf ++ pend = (w ++ sCRLFDashDash ++ c.B) ++ afterB c.B rest := by
        rw [hX]; simp
      rcases List.append_eq_append_iff.mp hX' with ⟨a', h1, h2⟩ | ⟨c', h1, h2⟩
      · have hl := congrArg List.length h1
        simp only [List.length_append, sCRLFDashDash, List.length_cons, List.length_nil] at hl
        have : a' = [] := List.length_eq_zero_iff.mp (by omega)
        subst this
        exact ⟨[], by simpa using h1.symm, by simpa using h2.symm⟩
      · exact ⟨c', h1, h2⟩
    have hW : w.length ≤ (foundPP pp w.length).buf.length := by
      show w.length ≤ (pp.buf.set w.length 0).length
      simp; omega
    have hpv : processValueToBoundary pp l.ioff c.B .performCleanup .done =
        pvtbDeliver (foundPP pp w.length)
          (l.ioff + c.B.length + 4) w.length := by
      simp only [processValueToBoundary, hb.size, hfound, foundPP]
    have hms2 : mainSwitch pp l = (partPP (foundPP pp w.length) w.length,
        { l with ioff := l.ioff + c.B.length + 4 + w.length }, .again) := by
      rw [hms, hpv, pvtbDeliver_eq _ _ _ hW, flowValue_true _ _ rfl]
    rw [act_main_again pp l _ _ hrn hms2]
    have hlen : pp.buf.length = w.length + 4 + c.B.length + b2.length := by
      rw [hbuf]; simp [sCRLFDashDash]; omega
    rw [again_pos _ _ (by show 0 < l.ioff + c.B.length + 4 + w.length; omega)
      (by show l.ioff + c.B.length + 4 + w.length ≤ (pp.buf.set w.length 0).length; simp; omega)]
    have hdrop : (pp.buf.set w.length 0).drop (l.ioff + c.B.length + 4 + w.length) ++ pend = afterB c.B rest := by
      rw [hio, List.drop_set_of_lt (by omega), hbuf]
      have : 0 + c.B.length + 4 + w.length = (w ++ sCRLFDashDash ++ c.B).length := by simp [sCRLFDashDash]; omega
      rw [this, List.drop_left, htl]
    refine ActOk.of_again ?_ ?_
    · exact hb.fault
    have hdata : (valEv (foundPP pp w.length) w.length).data = (p.value.drop off).take w.length := by
      show (pp.buf.set w.length 0).take w.length = _
      rw [List.take_set_of_le (Nat.le_refl _), hw]
      exact htake _ (Nat.le_refl _) (by omega)
    obtain ⟨k1, k2⟩ := val_book (valEv (foundPP pp w.length) w.length) pp.mustIkvi hp hi hle hm ho hdata
    rw [hfull] at k1
    have hdel := Delivers.snoc hd k2 k1
    have hdel' : Delivers (pp.evs ++ (if pp.mustIkvi = true ∨ w.length ≠ 0 then
        [valEv (foundPP pp w.length) w.length] else [])) ((done ++ [p]).map fieldOf) := by
      rw [he, List.append_assoc]
      simpa [fieldOf] using hdel
    refine ⟨by simp, ⟨hb.size, hb.bnd, hb.xbuf, hb.fault⟩, ?_, rfl, rfl, fun h => ?_, by simp⟩
    · show MInv c _ ((pp.buf.set w.length 0).drop (l.ioff + c.B.length + 4 + w.length) ++ pend)
      rw [hdrop]
      cases hr : rest with
      | nil =>
        refine .fin0 ?_ rfl rfl rfl
        rw [hsp, hr]
        exact hdel'
      | cons p' rest' =>
        have hpo' := hc.parts p' (by rw [hsp, hr]; simp)
        exact .main _ (Or.inr (Or.inr ⟨Or.inr rfl, rfl⟩))
          (.hdr (done ++ [p]) p' rest' (hdrLines p') (by rw [hsp, hr]; simp) hdel' (Or.inr ⟨rfl, rfl⟩) hpo'.lines rfl)
    · rcases h with h | h <;> simp at h
  · -- only a part of the value can be released
    obtain ⟨nl, hpart, _, hnl1, hnl2⟩ := sp hcomp
    have hpv : processValueToBoundary pp l.ioff c.B .performCleanup .done = pvtbDeliver pp l.ioff nl := by
      simp only [processValueToBoundary, hb.size, hpart]
    rw [hpv, pvtbDeliver_eq _ _ _ hnl2, flowValue_true _ _ rfl] at hms
    rw [act_main_again pp l _ _ hrn hms]
    have hio2 : ({ l with ioff := l.ioff + nl } : ML).ioff ≤ pp.buf.length := by simp [hio]; exact hnl2
    obtain ⟨g1, g2, g3⟩ := again_snd (partPP pp nl) { l with ioff := l.ioff + nl } hio2
    have g0 := again_fst (partPP pp nl) { l with ioff := l.ioff + nl } hio2
    have hdata : (valEv pp nl).data = (p.value.drop off).take nl := by rw [hw]; exact htake nl hnl1 hnl2
    obtain ⟨k1, k2⟩ := val_book (valEv pp nl) pp.mustIkvi hp hi hle hm ho hdata
    have hf : (again (partPP pp nl) { l with ioff := l.ioff + nl }).1.fault = none := by
      rw [g0]; exact hb.fault
    simp only [hf]
    refine ⟨by simp, ?_, ?_, g1, g2, fun h => ?_, by simp⟩
    · rw [g0]; exact ⟨hb.size, hb.bnd, hb.xbuf, hb.fault⟩
    · rw [g0]
      show MInv c _ (pp.buf.drop (l.ioff + nl) ++ pend)
      have hR : pp.buf.drop (l.ioff + nl) ++ pend =
          p.value.drop (off + nl) ++ sCRLFDashDash ++ (c.B ++ afterB c.B rest) := by
        have := congrArg (List.drop nl) hX
        rw [List.drop_append_of_le_length hnl2, List.append_assoc, List.drop_append_of_le_length hnl1,
          hR nl hnl1] at this
        rw [hio, Nat.zero_add, this]; simp
      refine .main _ (Or.inl ⟨hrn, hR⟩) (.val done p rest (off + nl) evs0 _ hsp hd ?_ k1 (Or.inl k2) hs hm
        (by show pp.valueOffset + nl = off + nl; rw [ho]) (by omega) rfl)
      show pp.evs ++ _ = _
      rw [he]; simp
    · have hz : l.ioff + nl = 0 := by
        rcases h with h | h
        · simp at h
        · exact g3 h
      have hnz : nl = 0 := by omega
      rw [g0]
      refine Or.inr ⟨hrn, Or.inr (Or.inr ⟨hs, ?_⟩)⟩
      show scanBoundary (pp.buf.drop (l.ioff + nl)) pp.boundary pp.bufferSize 0 = _
      rw [hz, hb.bnd, hb.size, List.drop_zero, hpart, hnz]

theorem rnok_inactive {rn : RN} {R X : Bytes} (h : RnOk rn R X) (hrn : rn = .inactive) : R = X := by
  rcases h with ⟨_, h⟩ | ⟨h, _⟩ | ⟨h, _⟩
  · exact h
  · rw [hrn] at h; cases h
  · rw [hrn] at h; rcases h with h | h <;> cases h

/-- one pass through the `skip_rn` machine, the main switch and `AGAIN:` on a window that is a
    non-empty prefix of the rest of a well-formed stream: the invariant holds again (no error, no
    `return`), and if nothing was consumed and no state changed, the window was too short -/
theorem act_spec (c : Cfg) (hc : CfgOk c) (pp : PP) (l : ML) (pend : Bytes) (hb : MBase c pp)
    (hI : MInv c pp (pp.buf ++ pend)) (hne : pp.buf ≠ []) (hio : l.ioff = 0) :
    ActOk c pend pp l (act pp l) := by
  have rn_case : ∀ X, RnOk pp.skipRn (pp.buf ++ pend) X → pp.skipRn ≠ .inactive →
      ∃ k rn', act pp l = ({ pp with skipRn := rn', buf := pp.buf.drop k }, { l with ioff := 0, stateChanged := true }, .again) ∧
        RnOk rn' (pp.buf.drop k ++ pend) X := by
    intro X hr hrn
    obtain ⟨k, rn', _, _, h3, h4⟩ := rn_step pp l pend X hr hrn hne hio hb.fault
    exact ⟨k, rn', h3, h4⟩
  obtain ⟨c0, b', hbuf⟩ : ∃ c0 b', pp.buf = c0 :: b' := by
    cases h : pp.buf with
    | nil => exact absurd h hne
    | cons a t => exact ⟨a, t, rfl⟩
  cases hI with
  | main X hr hm =>
    by_cases hrn : pp.skipRn = .inactive
    · have hX := rnok_inactive hr hrn
      cases hm with
      | bnd0 hs he hm hX2 => exact bnd0_step c hc pp l pend hb hrn hs he hm (hX.trans hX2) hio
      | hdr done p rest lines hsp hd hs hl hX2 =>
        exact hdr_step c hc pp l pend hb hrn done p rest lines hsp hd hs hl (hX.trans hX2) hne hio
      | chk done p rest hsp hd hs hm hi hX2 =>
        exact chk_step c hc pp l pend hb hrn done p rest hsp hd hs hm hi (hX.trans hX2) hio
      | val done p rest off evs0 cur hsp hd he hp hi hs hm ho hle hX2 =>
        exact val_step c hc pp l pend hb hrn done p rest off evs0 cur hsp hd he hp hi hs hm ho hle (hX.trans hX2) hio
    · obtain ⟨k, rn', h3, h4⟩ := rn_case X hr hrn
      rw [h3]
      refine ⟨by simp, ⟨hb.size, hb.bnd, hb.xbuf, hb.fault⟩, ?_, rfl, rfl, fun h => ?_, by simp⟩
      · exact .main X h4 (hm.congr rfl rfl rfl rfl rfl)
      · rcases h with h | h <;> simp at h
  | fin0 hd hr hds hR =>
    rw [hbuf] at hR
    simp only [List.cons_append, List.cons.injEq] at hR
    obtain ⟨rfl, hR⟩ := hR
    have hact : act pp l = ({ pp with skipRn := .dash2, buf := b' }, { l with ioff := 0, stateChanged := true }, .again) := by
      simp [act, rnMachine, hr, rnDash, hbuf, again, hb.fault, hio]
    rw [hact]
    refine ⟨by simp, ⟨hb.size, hb.bnd, hb.xbuf, hb.fault⟩, ?_, rfl, rfl, fun h => ?_, by simp⟩
    · exact .fin1 hd rfl hds hR
    · rcases h with h | h <;> simp at h
  | fin1 hd hr hds hR =>
    rw [hbuf] at hR
    simp only [List.cons_append, List.cons.injEq] at hR
    obtain ⟨rfl, hR⟩ := hR
    have hact : act pp l = ({ pp with skipRn := .full, state := pp.dashState, buf := b' },
        { l with ioff := 0, stateChanged := true }, .again) := by
      simp [act, rnMachine, hr, rnDash2, hbuf, again, hb.fault, hio]
    rw [hact]
    refine ⟨by simp, ⟨hb.size, hb.bnd, hb.xbuf, hb.fault⟩, ?_, rfl, rfl, fun h => ?_, by simp⟩
    · exact .fin2 hd hds (Or.inr (Or.inr ⟨Or.inl rfl, hR⟩))
    · rcases h with h | h <;> simp at h
  | fin2 hd hs hr =>
    by_cases hrn : pp.skipRn = .inactive
    · have hX := rnok_inactive hr hrn
      rw [hbuf] at hX; cases hX
    · obtain ⟨k, rn', h3, h4⟩ := rn_case [] hr hrn
      rw [h3]
      refine ⟨by simp, ⟨hb.size, hb.bnd, hb.xbuf, hb.fault⟩, ?_, rfl, rfl, fun h => ?_, by simp⟩
      · exact .fin2 hd hs h4
      · rcases h with h | h <;> simp at h

end Mhd.PP
