/-
  Round trip of the NON-CANONICAL renderings of the request line that `get_request_line_inner`
  accepts when whitespace blocks are not merged (`wsp_blocks = false`, levels ≥ 0); extends
  `Mhd.Proofs.ReqLineRoundtrip` (canonical line `method SP target SP version CR LF`):

   (1) `k` empty lines in front of the line (`CR LF` each, or a bare `LF` where
       `bare_lf_as_crlf`), accepted when `skip_empty_lines` and `k` is within the limit of
       `afterEmptyLine` (`SkipOK`);
   (2) each of the two separators any byte `w` with `rlIsWsp F w = true` (SP always, HT with
       `tab_as_wsp`, VT/FF with `other_wsp_as_wsp`);
   (3) the line end `CR LF`, or a bare `LF` where `bare_lf_as_crlf` (`LineEnd`).

  `run_skip` (empty lines), `step_*_w` / `step_eol_*_g` / `finishLine_ok_g` (generalised step
  lemmas), `head_part_g`, `tail_strict_g` / `tail_lenient_g`, `reqline_roundtrip_nc` with the
  result record `LineNC` (fields + the three NUL-terminated views).
-/
import Mhd.Proofs.ReqLineRoundtrip
set_option linter.unusedSimpArgs false
namespace Mhd.Req
namespace RLP
open Mhd.Gen

/-! ### renderings -/

/-- a line end the parser accepts: `CR LF`, or a bare `LF` where that is taken as a line end -/
def LineEnd (F : RLFlags) (e : List UInt8) : Prop := e = [cCR, cLF] ∨ (e = [cLF] ∧ F.bareLfAsCrlf = true)

instance (F : RLFlags) (e : List UInt8) : Decidable (LineEnd F e) := by unfold LineEnd; infer_instance

/-- the number of empty lines `afterEmptyLine` lets pass -/
def skipLimit (F : RLFlags) : Nat := if F.skipSeveral then Discipline.maxEmptyLinesSkip else 1

/-- `k` empty lines before the request line are skipped (not an error) -/
def SkipOK (F : RLFlags) (k : Nat) : Prop :=
  k = 0 ∨ (F.skipEmpty = true ∧ (F.skipUnlimited = true ∨ k ≤ skipLimit F))

instance (F : RLFlags) (k : Nat) : Decidable (SkipOK F k) := by unfold SkipOK; infer_instance

theorem wsp_ne {F : RLFlags} {w : UInt8} (h : rlIsWsp F w = true) : w ≠ cCR ∧ w ≠ cLF := by
  have a1 : (cCR == cSP) = false ∧ (cCR == cHT) = false ∧ (cCR == cVT) = false ∧ (cCR == cFF) = false := by decide
  have a2 : (cLF == cSP) = false ∧ (cLF == cHT) = false ∧ (cLF == cVT) = false ∧ (cLF == cFF) = false := by decide
  constructor <;> (intro e; subst e; simp [rlIsWsp, a1, a2] at h)

/-! ### empty lines -/

theorem afterEmptyLine_adv (F : RLFlags) (s : RL) (h : F.skipUnlimited = true ∨ s.skipped ≤ skipLimit F) :
    afterEmptyLine F s = .advance s := by
  unfold afterEmptyLine
  have : (!F.skipUnlimited &&
      decide ((if F.skipSeveral then Discipline.maxEmptyLinesSkip else 1) < s.skipped)) = false := by
    rcases h with h | h
    · simp [h]
    · unfold skipLimit at h
      simp only [Bool.and_eq_false_imp, Bool.not_eq_eq_eq_not, Bool.not_true, decide_eq_false_iff_not, Nat.not_lt]
      intro _; exact h
  rw [this]; rfl

theorem step_skip_crlf (F : RLFlags) (s : RL) (hp0 : s.p = 0) (hS : F.skipEmpty = true)
    (h0 : s.buf[s.rb]? = some cCR) (h1 : s.buf[s.rb + 1]? = some cLF) :
    rlStep F s = afterEmptyLine F { s with rb := s.rb + 2, skipped := s.skipped + 1 } := by
  have hb1 : s.rb + 1 < s.buf.size := by
    by_cases hlt : s.rb + 1 < s.buf.size
    · exact hlt
    · rw [Array.getElem?_eq_none (by omega)] at h1; cases h1
  unfold rlStep
  have : (s.p == 0 && F.skipEmpty) = true := by simp [hp0, hS]
  simp only [this, ↓reduceIte]
  unfold skipStep
  rw [h0]
  have hf : (s.fill == 1) = false := by simp [RL.fill]; omega
  simp only [beq_self_eq_true, ↓reduceIte, hf, Bool.false_eq_true, h1]

theorem step_skip_lf (F : RLFlags) (s : RL) (hp0 : s.p = 0) (hS : F.skipEmpty = true) (hL : F.bareLfAsCrlf = true)
    (h0 : s.buf[s.rb]? = some cLF) :
    rlStep F s = afterEmptyLine F { s with rb := s.rb + 1, skipped := s.skipped + 1 } := by
  unfold rlStep
  have : (s.p == 0 && F.skipEmpty) = true := by simp [hp0, hS]
  simp only [this, ↓reduceIte]
  unfold skipStep
  rw [h0]
  have e1 : (cLF == cCR) = false := by decide
  simp only [e1, Bool.false_eq_true, ↓reduceIte, beq_self_eq_true, hL, Bool.and_self]

/-- `k` empty lines are skipped: `read_buffer` moves behind them, they are counted -/
theorem run_skip (F : RLFlags) (hS : F.skipEmpty = true) (els : List (List UInt8)) :
    ∀ (s : RL), RLInv s → s.p = 0 → (∀ e ∈ els, LineEnd F e) →
      (F.skipUnlimited = true ∨ s.skipped + els.length ≤ skipLimit F) → BufIs s.buf s.rb els.flatten →
      (rlScanner F).run s = (rlScanner F).run { s with rb := s.rb + els.flatten.length, skipped := s.skipped + els.length } ∧
        RLInv { s with rb := s.rb + els.flatten.length, skipped := s.skipped + els.length } := by
  induction els with
  | nil => intro s hi _ _ _ _; exact ⟨rfl, hi⟩
  | cons e els ih =>
    intro s hi hp0 he hk hb
    have hk' : F.skipUnlimited = true ∨ s.skipped + 1 ≤ skipLimit F := by
      rcases hk with h | h
      · exact Or.inl h
      · right; simp only [List.length_cons] at h; omega
    have hb' : BufIs s.buf s.rb (e ++ els.flatten) := by simpa using hb
    rcases he e (by simp) with h | ⟨h, hL⟩
    · subst h
      have h0 : s.buf[s.rb]? = some cCR := by have := hb' 0 (by simp); simpa using this
      have h1 : s.buf[s.rb + 1]? = some cLF := by have := hb' 1 (by simp); simpa using this
      have st := step_skip_crlf F s hp0 hS h0 h1
      rw [afterEmptyLine_adv F _ hk'] at st
      have r1 := run_step F s _ hi st
      have := ih { s with rb := s.rb + 2, skipped := s.skipped + 1 } r1.2 hp0 (fun e' h' => he e' (by simp [h']))
        (by rcases hk with h | h
            · exact Or.inl h
            · right; show s.skipped + 1 + els.length ≤ _; simp only [List.length_cons] at h; omega)
        (by have := hb'.right; simpa using this)
      have e1 : s.rb + 2 + els.flatten.length = s.rb + ([cCR, cLF] :: els).flatten.length := by simp; omega
      have e2 : s.skipped + 1 + els.length = s.skipped + ([cCR, cLF] :: els).length := by simp; omega
      have this' : (rlScanner F).run { s with rb := s.rb + 2, skipped := s.skipped + 1 } =
          (rlScanner F).run { s with rb := s.rb + 2 + els.flatten.length, skipped := s.skipped + 1 + els.length } ∧
          RLInv { s with rb := s.rb + 2 + els.flatten.length, skipped := s.skipped + 1 + els.length } := this
      rw [e1, e2] at this'
      exact ⟨r1.1.trans this'.1, this'.2⟩
    · subst h
      have h0 : s.buf[s.rb]? = some cLF := by have := hb' 0 (by simp); simpa using this
      have st := step_skip_lf F s hp0 hS hL h0
      rw [afterEmptyLine_adv F _ hk'] at st
      have r1 := run_step F s _ hi st
      have := ih { s with rb := s.rb + 1, skipped := s.skipped + 1 } r1.2 hp0 (fun e' h' => he e' (by simp [h']))
        (by rcases hk with h | h
            · exact Or.inl h
            · right; show s.skipped + 1 + els.length ≤ _; simp only [List.length_cons] at h; omega)
        (by have := hb'.right; simpa using this)
      have e1 : s.rb + 1 + els.flatten.length = s.rb + ([cLF] :: els).flatten.length := by simp; omega
      have e2 : s.skipped + 1 + els.length = s.skipped + ([cLF] :: els).length := by simp; omega
      have this' : (rlScanner F).run { s with rb := s.rb + 1, skipped := s.skipped + 1 } =
          (rlScanner F).run { s with rb := s.rb + 1 + els.flatten.length, skipped := s.skipped + 1 + els.length } ∧
          RLInv { s with rb := s.rb + 1 + els.flatten.length, skipped := s.skipped + 1 + els.length } := this
      rw [e1, e2] at this'
      exact ⟨r1.1.trans this'.1, this'.2⟩

/-! ### the separators and the line end, generalised -/

/-- R2 for any whitespace delimiter: the byte that ends the method -/
theorem step_methodEnd_w (F : RLFlags) (s : RL) (w : UInt8) (hw1 : rlIsWsp F w = true) (hc : s.buf[s.rb + s.p]? = some w)
    (hm : s.hasMethod = false) (hp0 : s.p ≠ 0) (hw : s.wsEnd = 0) :
    rlStep F s = .advance { s with buf := s.buf.setIfInBounds (s.rb + s.p) 0, hasMethod := true, methodLen := s.p,
                                   mthd := stdMethodOf ((s.buf.setIfInBounds (s.rb + s.p) 0).extract s.rb (s.rb + s.p)).toList,
                                   wsStart := s.p, wsEnd := s.p + 1, p := s.p + 1 } := by
  have hb := fill_gt hc
  have hne := wsp_ne hw1
  rw [rlStep_eq_charStep F s w hc hne.1 hne.2, charStep_plain F s w hc hne.1 hne.2]
  unfold processChar
  have e1 : endOfWspStrict F s = s := by
    unfold endOfWspStrict; simp [hw]
  rw [e1, hw1]
  simp only [↓reduceIte]
  unfold onWsp
  have hz : (s.p == 0) = false := by simp [hp0]
  simp only [hw, beq_self_eq_true, Bool.true_or, ↓reduceIte, hm, Bool.not_false, hz, Bool.false_eq_true]
  rw [wr_in hb]
  have hr : rdRange (s.buf.setIfInBounds (s.rb + s.p) 0) s.rb s.p
      = some ((s.buf.setIfInBounds (s.rb + s.p) 0).extract s.rb (s.rb + s.p)).toList := by
    unfold rdRange; rw [if_pos (by simp only [Array.size_setIfInBounds]; omega)]
  rw [hr]

/-- R4 (strict) for any whitespace delimiter -/
theorem step_targetEnd_strict_w (F : RLFlags) (s : RL) (w : UInt8) (hw1 : rlIsWsp F w = true) (t0 : Nat)
    (hc : s.buf[s.rb + s.p]? = some w)
    (hU : F.wspInUri = false) (hm : s.hasMethod = true) (ht : s.tgt = some t0) (hv : s.version = none)
    (hw : s.wsEnd = 0) :
    rlStep F s = .advance { s with buf := s.buf.setIfInBounds (s.rb + s.p) 0, tgtLen := s.p - t0,
                                   wsStart := s.p, wsEnd := s.p + 1, p := s.p + 1 } := by
  have hb := fill_gt hc
  have hne := wsp_ne hw1
  rw [rlStep_eq_charStep F s w hc hne.1 hne.2, charStep_plain F s w hc hne.1 hne.2]
  unfold processChar
  rw [endStrict_id F s (Or.inl hw), hw1]
  simp only [↓reduceIte]
  unfold onWsp
  simp only [hw, beq_self_eq_true, Bool.true_or, ↓reduceIte, hm, Bool.not_true, Bool.false_eq_true, hU, Bool.not_false, hv, ht]
  rw [wr_in hb]

/-- R4 (lenient) for any whitespace delimiter -/
theorem step_targetEnd_lenient_w (F : RLFlags) (s : RL) (w : UInt8) (hw1 : rlIsWsp F w = true)
    (hc : s.buf[s.rb + s.p]? = some w)
    (hU : F.wspInUri = true) (hm : s.hasMethod = true) (hw : s.wsEnd = 0) :
    rlStep F s = .advance { s with wsStart := s.p, wsEnd := s.p + 1, p := s.p + 1 } := by
  have hne := wsp_ne hw1
  rw [rlStep_eq_charStep F s w hc hne.1 hne.2, charStep_plain F s w hc hne.1 hne.2]
  unfold processChar
  rw [endStrict_id F s (Or.inl hw), hw1]
  simp only [↓reduceIte]
  unfold onWsp
  simp only [hw, beq_self_eq_true, Bool.true_or, ↓reduceIte, hm, Bool.not_true, Bool.false_eq_true, hU, bne_self_eq_false]

/-- the line end at the current position: `CR LF`, or a bare `LF` where allowed -/
def EolAt (F : RLFlags) (s : RL) (chr : UInt8) : Prop :=
  s.buf[s.rb + s.p]? = some chr ∧
    ((chr = cCR ∧ s.buf[s.rb + s.p + 1]? = some cLF) ∨ (chr = cLF ∧ F.bareLfAsCrlf = true))

theorem rlStep_eol (F : RLFlags) (s : RL) (chr : UInt8) (h : EolAt F s chr) (hp0 : s.p ≠ 0) :
    rlStep F s = handleEol F s chr := by
  obtain ⟨hc, h | h⟩ := h
  · obtain ⟨rfl, hn⟩ := h
    exact rlStep_crlf F s hc hn hp0
  · obtain ⟨rfl, hL⟩ := h
    unfold rlStep
    have : (s.p == 0 && F.skipEmpty) = false := by simp [hp0]
    simp only [this, Bool.false_eq_true, ↓reduceIte]
    unfold charStep
    rw [hc]
    have e1 : (cLF == cCR) = false := by decide
    simp only [e1, Bool.false_eq_true, ↓reduceIte, beq_self_eq_true, hL]

/-- R6 (strict), either line end -/
theorem step_eol_strict_g (F : RLFlags) (s : RL) (chr : UInt8) (t0 v0 : Nat) (h : EolAt F s chr)
    (hp0 : s.p ≠ 0) (hU : F.wspInUri = false) (hm : s.hasMethod = true)
    (ht : s.tgt = some t0) (hv : s.version = some v0) :
    rlStep F s = finishLine s chr t0 v0 := by
  rw [rlStep_eol F s chr h hp0]
  unfold handleEol
  simp only [hm, ↓reduceIte, hU, Bool.false_eq_true]
  unfold eolResolveStrict
  simp only [hv, ht]
  unfold eolFinish
  simp only [hv, ht]

/-- R6 (lenient), either line end -/
theorem step_eol_lenient_g (F : RLFlags) (s : RL) (chr : UInt8) (t0 : Nat) (h : EolAt F s chr)
    (hp0 : s.p ≠ 0) (hU : F.wspInUri = true) (hm : s.hasMethod = true)
    (ht : s.tgt = some t0) (hne : s.wsEnd ≠ 0) (hws : s.rb + s.wsStart < s.buf.size) :
    rlStep F s = finishLine { s with buf := s.buf.setIfInBounds (s.rb + s.wsStart) 0, tgtLen := s.wsStart - t0,
                                     version := some s.wsEnd } chr t0 s.wsEnd := by
  rw [rlStep_eol F s chr h hp0]
  unfold handleEol
  simp only [hm, ↓reduceIte, hU]
  unfold eolResolveWspInUri
  simp only [ne_eq, hne, not_false_eq_true, ↓reduceIte, ht]
  rw [wr_in hws]
  unfold eolFinish
  simp only [ht, hm]

/-- length of the line end that starts with `chr` -/
def eolLen (chr : UInt8) : Nat := if chr == cCR then 2 else 1

/-- the line is consumed and the request line handed out (either line end) -/
theorem finishLine_ok_g (s : RL) (chr : UInt8) (t v : Nat) (vs : List UInt8) (hv : Int)
    (hr : rdRange s.buf (s.rb + v) (s.p - v) = some vs) (hpv : parseHttpVersion vs = .ok hv)
    (hb : s.rb + s.p < s.buf.size) :
    finishLine s chr t v = .done (.ok {
        buf := s.buf.setIfInBounds (s.rb + s.p) 0, rb := s.rb + (s.p + eolLen chr), method := s.rb,
        methodLen := s.methodLen, mthd := s.mthd, tgt := s.rb + t, tgtLen := s.tgtLen, qmark := s.qmark.map (s.rb + ·),
        version := s.rb + v, httpVer := hv, numWs := s.numWs, crSp := s.crSp, skipped := s.skipped }) := by
  unfold finishLine eolLen
  rw [hr]
  simp only [hpv]
  rw [wr_in hb]
  by_cases hc : (chr == cCR) = true
  · simp [hc]
  · simp [hc]

/-! ### the tail `WSP version EOL` -/

/-- what the finished request line looks like; `k` skipped empty lines, line end of `e` bytes -/
structure LineG (r : ReqLine) (buf0 : Bytes) (rb a b : Nat) (m t : List UInt8) (hv : Int) (k e : Nat) : Prop where
  e_rb : r.rb = rb + (a + b + 10 + e)
  e_method : r.method = rb
  e_ml : r.methodLen = a
  e_mt : r.mthd = stdMethodOf m
  e_tgt : r.tgt = rb + (a + 1)
  e_tl : r.tgtLen = b
  e_q : r.qmark = (firstQ t).map (rb + (a + 1) + ·)
  e_ver : r.version = rb + (a + b + 2)
  e_hv : r.httpVer = hv
  e_nw : r.numWs = 0
  e_sk : r.skipped = k
  e_cs : r.crSp = 0
  e_buf : r.buf = ((buf0.setIfInBounds (rb + a) 0).setIfInBounds (rb + (a + 1 + b)) 0).setIfInBounds (rb + (a + b + 10)) 0

/-- the tail `w version EOL` in the original buffer; `chr` is the first byte of the line end -/
structure TailBytesG (F : RLFlags) (buf0 : Bytes) (rb a b : Nat) (v : List UInt8) (w chr : UInt8) : Prop where
  sp : buf0[rb + (a + 1 + b)]? = some w
  wsp : rlIsWsp F w = true
  ver : BufIs buf0 (rb + (a + b + 2)) v
  eol : buf0[rb + (a + b + 10)]? = some chr
  eolc : (chr = cCR ∧ buf0[rb + (a + b + 11)]? = some cLF) ∨ (chr = cLF ∧ F.bareLfAsCrlf = true)
  len : v.length = 8
  chars : ∀ c ∈ v, rplain c ∧ c ≠ 63

theorem tail_strict_g (F : RLFlags) (hB : F.wspBlocks = false) (hU : F.wspInUri = false) (s : RL) (buf0 : Bytes)
    (rb a b : Nat) (m t v : List UInt8) (w chr : UInt8) (hv : Int) (k : Nat) (h : AfterTarget s buf0 rb a b m t)
    (hsk : s.skipped = k) (hcs : s.crSp = 0) (tb : TailBytesG F buf0 rb a b v w chr)
    (hpv : parseHttpVersion v = .ok hv) :
    ∃ r, (rlScanner F).run s = .done (.ok r) ∧ LineG r buf0 rb a b m t hv k (eolLen chr) := by
  have get_s : ∀ j, j ≠ rb + a → s.buf[j]? = buf0[j]? := by
    intro j hj; rw [h.e_buf, Array.getElem?_setIfInBounds, if_neg (by omega)]
  -- the delimiter after the target
  have hsp : s.buf[s.rb + s.p]? = some w := by rw [h.e_rb, h.e_p, get_s _ (by omega)]; exact tb.sp
  have st5 := step_targetEnd_strict_w F s w tb.wsp (a + 1) hsp hU h.e_hm h.e_tgt h.e_ver h.e_we
  have r5 := run_step F s _ h.inv st5
  generalize hs5 : ({ s with buf := s.buf.setIfInBounds (s.rb + s.p) 0, tgtLen := s.p - (a + 1), wsStart := s.p, wsEnd := s.p + 1, p := s.p + 1 } : RL) = s5 at r5
  have b5 : s5.buf = (buf0.setIfInBounds (rb + a) 0).setIfInBounds (rb + (a + 1 + b)) 0 := by
    rw [← hs5]; show s.buf.setIfInBounds (s.rb + s.p) 0 = _; rw [h.e_buf, h.e_rb, h.e_p]
  have get5 : ∀ j, j ≠ rb + a → j ≠ rb + (a + 1 + b) → s5.buf[j]? = buf0[j]? := by
    intro j h1 h2
    rw [b5, Array.getElem?_setIfInBounds, if_neg (by omega), Array.getElem?_setIfInBounds, if_neg (by omega)]
  have p5 : s5.p = a + b + 2 := by rw [← hs5]; show s.p + 1 = _; rw [h.e_p]; omega
  have rb5 : s5.rb = rb := by rw [← hs5]; exact h.e_rb
  have we5 : s5.wsEnd = a + b + 2 := by rw [← hs5]; show s.p + 1 = _; rw [h.e_p]; omega
  have tg5 : s5.tgt = some (a + 1) := by rw [← hs5]; exact h.e_tgt
  -- the version
  obtain ⟨h0, v', hvv⟩ : ∃ h0 v', v = h0 :: v' := by
    cases v with
    | nil => have := tb.len; simp at this
    | cons h0 v' => exact ⟨h0, v', rfl⟩
  have hh0 := tb.chars h0 (by rw [hvv]; simp)
  have hver0 : s5.buf[s5.rb + s5.p]? = some h0 := by
    rw [rb5, p5, get5 _ (by omega) (by omega)]
    have := tb.ver 0 (by rw [hvv]; simp); rw [hvv] at this; simpa using this
  have st6 := step_versionStart_strict F s5 h0 (a + 1) hver0 hh0.1 hh0.2 hB hU (by rw [p5, we5]) (by rw [we5]; omega) tg5
  have r6 := run_step F s5 _ r5.2 st6
  generalize hs6 : ({ s5 with version := some s5.p, wsStart := 0, wsEnd := 0, p := s5.p + 1 } : RL) = s6 at r6
  have b6 : s6.buf = s5.buf := by rw [← hs6]
  have p6 : s6.p = a + b + 3 := by rw [← hs6]; show s5.p + 1 = _; rw [p5]
  have rb6 : s6.rb = rb := by rw [← hs6]; exact rb5
  have hv' : BufIs s6.buf (s6.rb + s6.p) v' := by
    intro i hi'
    rw [b6, rb6, p6, get5 _ (by omega) (by omega)]
    have := tb.ver (i + 1) (by rw [hvv]; simp; omega)
    rw [hvv] at this
    simp only [List.getElem?_cons_succ] at this
    rw [← this]; congr 1; omega
  have r7 := run_plain F v' s6 r6.2 hv' (fun c hc => tb.chars c (by rw [hvv]; simp [hc])) (Or.inl (by rw [← hs6]))
  generalize hs7 : ({ s6 with p := s6.p + v'.length } : RL) = s7 at r7
  have lv' : v'.length = 7 := by have := tb.len; rw [hvv] at this; simpa using this
  have b7 : s7.buf = s5.buf := by rw [← hs7]; exact b6
  have p7 : s7.p = a + b + 10 := by rw [← hs7]; show s6.p + v'.length = _; rw [p6, lv']
  have rb7 : s7.rb = rb := by rw [← hs7]; exact rb6
  have hm7 : s7.hasMethod = true := by rw [← hs7, ← hs6, ← hs5]; exact h.e_hm
  have tg7 : s7.tgt = some (a + 1) := by rw [← hs7, ← hs6]; exact tg5
  have ve7 : s7.version = some (a + b + 2) := by rw [← hs7, ← hs6]; show some s5.p = _; rw [p5]
  have hcr : s7.buf[s7.rb + s7.p]? = some chr := by rw [b7, rb7, p7, get5 _ (by omega) (by omega)]; exact tb.eol
  have heol : EolAt F s7 chr := by
    refine ⟨hcr, ?_⟩
    rcases tb.eolc with ⟨hc, hl⟩ | hl
    · left; refine ⟨hc, ?_⟩
      rw [b7, rb7, p7, get5 _ (by omega) (by omega)]
      rwa [show rb + (a + b + 11) = rb + (a + b + 10) + 1 by omega] at hl
    · right; exact hl
  have st8 := step_eol_strict_g F s7 chr (a + 1) (a + b + 2) heol (by rw [p7]; omega) hU hm7 tg7 ve7
  have hrd : rdRange s7.buf (s7.rb + (a + b + 2)) (s7.p - (a + b + 2)) = some v := by
    have e8 : s7.p - (a + b + 2) = v.length := by rw [p7, tb.len]; omega
    rw [e8]
    apply rdRange_eq
    · intro i hi'
      rw [b7, rb7, get5 _ (by rw [tb.len] at hi'; omega) (by rw [tb.len] at hi'; omega)]; exact tb.ver i hi'
    · have := fill_gt hcr; rw [rb7, p7] at this; rw [rb7, tb.len]; omega
  have fin := finishLine_ok_g s7 chr (a + 1) (a + b + 2) v hv hrd hpv (fill_gt hcr)
  refine ⟨_, r5.1.trans (r6.1.trans (r7.1.trans (Scanner.run_done s7 _ (by show rlStep F s7 = _; rw [st8, fin])))), ?_⟩
  refine ⟨?_, ?_, ?_, ?_, ?_, ?_, ?_, ?_, rfl, ?_, ?_, ?_, ?_⟩
  · show s7.rb + (s7.p + eolLen chr) = _; rw [rb7, p7]
  · exact rb7
  · show s7.methodLen = a; rw [← hs7, ← hs6, ← hs5]; exact h.e_ml
  · show s7.mthd = _; rw [← hs7, ← hs6, ← hs5]; exact h.e_mt
  · show s7.rb + (a + 1) = _; rw [rb7]
  · show s7.tgtLen = b; rw [← hs7, ← hs6, ← hs5]; show s.p - (a + 1) = b; rw [h.e_p]; omega
  · show s7.qmark.map (s7.rb + ·) = _
    have : s7.qmark = (firstQ t).map (a + 1 + ·) := by rw [← hs7, ← hs6, ← hs5]; exact h.e_q
    rw [this, rb7, qmap_shift]
  · show s7.rb + (a + b + 2) = _; rw [rb7]
  · show s7.numWs = 0; rw [← hs7, ← hs6, ← hs5]; exact h.e_nw
  · show s7.skipped = k; rw [← hs7, ← hs6, ← hs5]; exact hsk
  · show s7.crSp = 0; rw [← hs7, ← hs6, ← hs5]; exact hcs
  · show s7.buf.setIfInBounds (s7.rb + s7.p) 0 = _; rw [b7, b5, rb7, p7]

theorem tail_lenient_g (F : RLFlags) (hB : F.wspBlocks = false) (hU : F.wspInUri = true) (s : RL) (buf0 : Bytes)
    (rb a b : Nat) (m t v : List UInt8) (w chr : UInt8) (hv : Int) (k : Nat) (h : AfterTarget s buf0 rb a b m t)
    (hsk : s.skipped = k) (hcs : s.crSp = 0) (tb : TailBytesG F buf0 rb a b v w chr)
    (hpv : parseHttpVersion v = .ok hv) :
    ∃ r, (rlScanner F).run s = .done (.ok r) ∧ LineG r buf0 rb a b m t hv k (eolLen chr) := by
  have get_s : ∀ j, j ≠ rb + a → s.buf[j]? = buf0[j]? := by
    intro j hj; rw [h.e_buf, Array.getElem?_setIfInBounds, if_neg (by omega)]
  have hsp : s.buf[s.rb + s.p]? = some w := by rw [h.e_rb, h.e_p, get_s _ (by omega)]; exact tb.sp
  have st5 := step_targetEnd_lenient_w F s w tb.wsp hsp hU h.e_hm h.e_we
  have r5 := run_step F s _ h.inv st5
  generalize hs5 : ({ s with wsStart := s.p, wsEnd := s.p + 1, p := s.p + 1 } : RL) = s5 at r5
  have b5 : s5.buf = s.buf := by rw [← hs5]
  have p5 : s5.p = a + b + 2 := by rw [← hs5]; show s.p + 1 = _; rw [h.e_p]; omega
  have rb5 : s5.rb = rb := by rw [← hs5]; exact h.e_rb
  have we5 : s5.wsEnd = a + b + 2 := by rw [← hs5]; show s.p + 1 = _; rw [h.e_p]; omega
  have ws5 : s5.wsStart = a + 1 + b := by rw [← hs5]; exact h.e_p
  have tg5 : s5.tgt = some (a + 1) := by rw [← hs5]; exact h.e_tgt
  obtain ⟨h0, v', hvv⟩ : ∃ h0 v', v = h0 :: v' := by
    cases v with
    | nil => have := tb.len; simp at this
    | cons h0 v' => exact ⟨h0, v', rfl⟩
  have hh0 := tb.chars h0 (by rw [hvv]; simp)
  have hver0 : s5.buf[s5.rb + s5.p]? = some h0 := by
    rw [b5, rb5, p5, get_s _ (by omega)]
    have := tb.ver 0 (by rw [hvv]; simp); rw [hvv] at this; simpa using this
  have st6 := step_versionStart_lenient F s5 h0 (a + 1) hver0 hh0.1 hh0.2 hB hU tg5
  have r6 := run_step F s5 _ r5.2 st6
  generalize hs6 : ({ s5 with p := s5.p + 1 } : RL) = s6 at r6
  have b6 : s6.buf = s.buf := by rw [← hs6]; exact b5
  have p6 : s6.p = a + b + 3 := by rw [← hs6]; show s5.p + 1 = _; rw [p5]
  have rb6 : s6.rb = rb := by rw [← hs6]; exact rb5
  have we6 : s6.wsEnd = a + b + 2 := by rw [← hs6]; exact we5
  have hv' : BufIs s6.buf (s6.rb + s6.p) v' := by
    intro i hi'
    rw [b6, rb6, p6, get_s _ (by omega)]
    have := tb.ver (i + 1) (by rw [hvv]; simp; omega)
    rw [hvv] at this
    simp only [List.getElem?_cons_succ] at this
    rw [← this]; congr 1; omega
  have r7 := run_plain F v' s6 r6.2 hv' (fun c hc => tb.chars c (by rw [hvv]; simp [hc])) (Or.inr (by rw [we6, p6]; omega))
  generalize hs7 : ({ s6 with p := s6.p + v'.length } : RL) = s7 at r7
  have lv' : v'.length = 7 := by have := tb.len; rw [hvv] at this; simpa using this
  have b7 : s7.buf = s.buf := by rw [← hs7]; exact b6
  have p7 : s7.p = a + b + 10 := by rw [← hs7]; show s6.p + v'.length = _; rw [p6, lv']
  have rb7 : s7.rb = rb := by rw [← hs7]; exact rb6
  have we7 : s7.wsEnd = a + b + 2 := by rw [← hs7]; exact we6
  have ws7 : s7.wsStart = a + 1 + b := by rw [← hs7, ← hs6]; exact ws5
  have hm7 : s7.hasMethod = true := by rw [← hs7, ← hs6, ← hs5]; exact h.e_hm
  have tg7 : s7.tgt = some (a + 1) := by rw [← hs7, ← hs6]; exact tg5
  have hcr : s7.buf[s7.rb + s7.p]? = some chr := by rw [b7, rb7, p7, get_s _ (by omega)]; exact tb.eol
  have heol : EolAt F s7 chr := by
    refine ⟨hcr, ?_⟩
    rcases tb.eolc with ⟨hc, hl⟩ | hl
    · left; refine ⟨hc, ?_⟩
      rw [b7, rb7, p7, get_s _ (by omega)]
      rwa [show rb + (a + b + 11) = rb + (a + b + 10) + 1 by omega] at hl
    · right; exact hl
  have hsz := fill_gt hcr
  have st8 := step_eol_lenient_g F s7 chr (a + 1) heol (by rw [p7]; omega) hU hm7 tg7 (by rw [we7]; omega)
    (by rw [rb7, ws7]; rw [rb7, p7] at hsz; omega)
  generalize hs8 : ({ s7 with buf := s7.buf.setIfInBounds (s7.rb + s7.wsStart) 0, tgtLen := s7.wsStart - (a + 1), version := some s7.wsEnd } : RL) = s8 at st8
  have b8 : s8.buf = (buf0.setIfInBounds (rb + a) 0).setIfInBounds (rb + (a + 1 + b)) 0 := by
    rw [← hs8]; show s7.buf.setIfInBounds (s7.rb + s7.wsStart) 0 = _; rw [b7, h.e_buf, rb7, ws7]
  have get8 : ∀ j, j ≠ rb + a → j ≠ rb + (a + 1 + b) → s8.buf[j]? = buf0[j]? := by
    intro j h1 h2
    rw [b8, Array.getElem?_setIfInBounds, if_neg (by omega), Array.getElem?_setIfInBounds, if_neg (by omega)]
  have p8 : s8.p = a + b + 10 := by rw [← hs8]; exact p7
  have rb8 : s8.rb = rb := by rw [← hs8]; exact rb7
  have hsz8 : s8.rb + s8.p < s8.buf.size := by rw [b8, rb8, p8]; simp only [Array.size_setIfInBounds]; rw [b7, h.e_buf, rb7, p7] at hsz; simpa using hsz
  have hrd : rdRange s8.buf (s8.rb + s7.wsEnd) (s8.p - s7.wsEnd) = some v := by
    have e8 : s8.p - s7.wsEnd = v.length := by rw [p8, we7, tb.len]; omega
    rw [e8, we7]
    apply rdRange_eq
    · intro i hi'
      rw [rb8, get8 _ (by rw [tb.len] at hi'; omega) (by rw [tb.len] at hi'; omega)]; exact tb.ver i hi'
    · rw [rb8, p8] at hsz8; rw [rb8, tb.len]; omega
  have fin := finishLine_ok_g s8 chr (a + 1) s7.wsEnd v hv hrd hpv hsz8
  refine ⟨_, r5.1.trans (r6.1.trans (r7.1.trans (Scanner.run_done s7 _ (by show rlStep F s7 = _; rw [st8, fin])))), ?_⟩
  refine ⟨?_, ?_, ?_, ?_, ?_, ?_, ?_, ?_, rfl, ?_, ?_, ?_, ?_⟩
  · show s8.rb + (s8.p + eolLen chr) = _; rw [rb8, p8]
  · exact rb8
  · show s8.methodLen = a; rw [← hs8, ← hs7, ← hs6, ← hs5]; exact h.e_ml
  · show s8.mthd = _; rw [← hs8, ← hs7, ← hs6, ← hs5]; exact h.e_mt
  · show s8.rb + (a + 1) = _; rw [rb8]
  · show s8.tgtLen = b; rw [← hs8]; show s7.wsStart - (a + 1) = b; rw [ws7]; omega
  · show s8.qmark.map (s8.rb + ·) = _
    have : s8.qmark = (firstQ t).map (a + 1 + ·) := by rw [← hs8, ← hs7, ← hs6, ← hs5]; exact h.e_q
    rw [this, rb8, qmap_shift]
  · show s8.rb + s7.wsEnd = _; rw [rb8, we7]
  · show s8.numWs = 0; rw [← hs8, ← hs7, ← hs6, ← hs5]; exact h.e_nw
  · show s8.skipped = k; rw [← hs8, ← hs7, ← hs6, ← hs5]; exact hsk
  · show s8.crSp = 0; rw [← hs8, ← hs7, ← hs6, ← hs5]; exact hcs
  · show s8.buf.setIfInBounds (s8.rb + s8.p) 0 = _; rw [b8, rb8, p8]

/-! ### the head `method WSP target`, started after `k` skipped empty lines -/

/-- the parser state at the start of the request line after `k` skipped empty lines -/
def startAt (buf0 : Bytes) (rb k : Nat) : RL := { buf := buf0, rb := rb, skipped := k }

theorem startAt_zero (buf0 : Bytes) (rb : Nat) : startAt buf0 rb 0 = RL.init buf0 rb := rfl

theorem RLInv.startAt (buf : Bytes) (rb k : Nat) (h : rb ≤ buf.size) : RLInv (startAt buf rb k) := by
  refine ⟨by simpa [RLP.startAt] using h, by simp [RLP.startAt], ?_, ?_, ?_, ?_⟩ <;> simp [RLP.startAt]

/-- method, delimiter, target: the state in which the two regimes start to differ -/
theorem head_part_g (F : RLFlags) (hB : F.wspBlocks = false) (buf0 : Bytes) (rb k : Nat) (m t rest : List UInt8) (w : UInt8)
    (hw : rlIsWsp F w = true)
    (hrb : rb ≤ buf0.size) (hm0 : m ≠ []) (ht0 : t ≠ []) (hm : ∀ c ∈ m, rplain c ∧ c ≠ 63) (ht : ∀ c ∈ t, rplain c)
    (hbuf : BufIs buf0 rb (m ++ [w] ++ t ++ rest)) :
    ∃ s, (rlScanner F).run (startAt buf0 rb k) = (rlScanner F).run s ∧ AfterTarget s buf0 rb m.length t.length m t ∧
      s.skipped = k ∧ s.crSp = 0 := by
  have hbm : BufIs buf0 rb m := hbuf.left.left.left
  have hbs : buf0[rb + m.length]? = some w := by
    have := hbuf.left.left.right 0 (by simp); simpa using this
  have hbt : BufIs buf0 (rb + (m.length + 1)) t := by
    have := hbuf.left.right; simpa [Nat.add_assoc] using this
  have a1 : 1 ≤ m.length := by
    cases m with
    | nil => exact absurd rfl hm0
    | cons _ _ => simp
  -- 1. the method
  have i0 := RLInv.startAt buf0 rb k hrb
  have r1 := run_plain F m (startAt buf0 rb k) i0 (by show BufIs buf0 (rb + 0) m; rw [Nat.add_zero]; exact hbm) hm (Or.inl rfl)
  generalize hs1 : ({ startAt buf0 rb k with p := (startAt buf0 rb k).p + m.length } : RL) = s1 at r1
  have p1 : s1.p = m.length := by rw [← hs1]; show 0 + m.length = _; omega
  have rb1 : s1.rb = rb := by rw [← hs1]; rfl
  have b1 : s1.buf = buf0 := by rw [← hs1]; rfl
  -- 2. the delimiter
  have hsp : s1.buf[s1.rb + s1.p]? = some w := by rw [b1, rb1, p1]; exact hbs
  have st2 := step_methodEnd_w F s1 w hw hsp (by rw [← hs1]; rfl) (by rw [p1]; omega) (by rw [← hs1]; rfl)
  have r2 := run_step F s1 _ r1.2 st2
  generalize hs2 : ({ s1 with buf := s1.buf.setIfInBounds (s1.rb + s1.p) 0, hasMethod := true, methodLen := s1.p, mthd := stdMethodOf ((s1.buf.setIfInBounds (s1.rb + s1.p) 0).extract s1.rb (s1.rb + s1.p)).toList, wsStart := s1.p, wsEnd := s1.p + 1, p := s1.p + 1 } : RL) = s2 at r2
  have b2 : s2.buf = buf0.setIfInBounds (rb + m.length) 0 := by
    rw [← hs2]; show s1.buf.setIfInBounds (s1.rb + s1.p) 0 = _; rw [b1, rb1, p1]
  have p2 : s2.p = m.length + 1 := by rw [← hs2]; show s1.p + 1 = _; rw [p1]
  have rb2 : s2.rb = rb := by rw [← hs2]; exact rb1
  have we2 : s2.wsEnd = m.length + 1 := by rw [← hs2]; show s1.p + 1 = _; rw [p1]
  have mt2 : s2.mthd = stdMethodOf m := by
    rw [← hs2]
    show stdMethodOf ((s1.buf.setIfInBounds (s1.rb + s1.p) 0).extract s1.rb (s1.rb + s1.p)).toList = _
    rw [b1, rb1, p1, extract_eq _ rb m (hbm.set _ _ (Or.inr (Nat.le_refl _)))]
  have get2 : ∀ j, j ≠ rb + m.length → s2.buf[j]? = buf0[j]? := by
    intro j hj; rw [b2, Array.getElem?_setIfInBounds, if_neg (by omega)]
  -- 3. the first character of the target
  obtain ⟨c0, t', htt⟩ : ∃ c0 t', t = c0 :: t' := by
    cases t with
    | nil => exact absurd rfl ht0
    | cons c0 t' => exact ⟨c0, t', rfl⟩
  have hc0 : s2.buf[s2.rb + s2.p]? = some c0 := by
    rw [rb2, p2, get2 _ (by omega)]
    have := hbt 0 (by rw [htt]; simp); rw [htt] at this; simpa using this
  have st3 := step_targetStart F s2 c0 hc0 (ht c0 (by rw [htt]; simp)) hB (by rw [p2, we2]) (by rw [we2]; omega)
    (by rw [← hs2, ← hs1]; rfl)
  have r3 := run_step F s2 _ r2.2 st3
  generalize hs3 : ({ s2 with tgt := some s2.p, wsStart := 0, wsEnd := 0, qmark := if (c0 == 63 && s2.qmark.isNone) = true then some s2.p else s2.qmark, p := s2.p + 1 } : RL) = s3 at r3
  have b3 : s3.buf = s2.buf := by rw [← hs3]
  have p3 : s3.p = m.length + 2 := by rw [← hs3]; show s2.p + 1 = _; rw [p2]
  have rb3 : s3.rb = rb := by rw [← hs3]; exact rb2
  have q2 : s2.qmark = none := by rw [← hs2, ← hs1]; rfl
  have q3 : s3.qmark = if (c0 == 63 && (none : Option Nat).isNone) = true then some (m.length + 1) else none := by
    rw [← hs3]; show (if (c0 == 63 && s2.qmark.isNone) = true then some s2.p else s2.qmark) = _; rw [q2, p2]
  -- 4. the rest of the target
  have hbt' : BufIs s3.buf (s3.rb + s3.p) t' := by
    intro i hi'
    rw [b3, rb3, p3, get2 _ (by omega)]
    have := hbt (i + 1) (by rw [htt]; simp; omega)
    rw [htt] at this
    simp only [List.getElem?_cons_succ] at this
    rw [← this]; congr 1; omega
  have r4 := run_target F t' s3 r3.2 hbt' (fun c hc => ht c (by rw [htt]; simp [hc])) (by rw [← hs3]) (by rw [← hs3]; rfl)
  refine ⟨_, r1.1.trans (r2.1.trans (r3.1.trans r4.1)), ?_, ?_, ?_⟩
  have lt : t.length = t'.length + 1 := by rw [htt]; simp
  refine ⟨r4.2, rb3, ?_, ?_, ?_, ?_, ?_, ?_, ?_, ?_, ?_, ?_⟩
  · show s3.p + t'.length = _; rw [p3, lt]; omega
  · show s3.buf = _; rw [b3, b2]
  · show s3.hasMethod = true; rw [← hs3, ← hs2]
  · show s3.methodLen = _; rw [← hs3, ← hs2]; exact p1
  · show s3.mthd = _; rw [← hs3]; exact mt2
  · show s3.tgt = _; rw [← hs3]; show some s2.p = _; rw [p2]
  · show qAfter s3.qmark s3.p t' = _
    rw [q3, p3, htt]
    have := firstQ_cons c0 t' (m.length + 1)
    unfold qAfter
    rw [show m.length + 2 = m.length + 1 + 1 by omega]
    exact this
  · show s3.version = none; rw [← hs3, ← hs2, ← hs1]; rfl
  · show s3.wsEnd = 0; rw [← hs3]
  · show s3.numWs = 0; rw [← hs3, ← hs2, ← hs1]; rfl
  · show s3.skipped = k; rw [← hs3, ← hs2, ← hs1]; rfl
  · show s3.crSp = 0; rw [← hs3, ← hs2, ← hs1]; rfl

/-! ### the result -/

/-- the finished request line of a (possibly non-canonical) rendering: `rb'` is where the
    method starts (behind the `k` skipped empty lines), `e` the length of the line end -/
structure LineNC (r : ReqLine) (buf0 : Bytes) (rb' : Nat) (m t v : List UInt8) (hv : Int) (k e : Nat) : Prop where
  method : r.method = rb'
  methodLen : r.methodLen = m.length
  mthd : r.mthd = stdMethodOf m
  tgt : r.tgt = rb' + m.length + 1
  tgtLen : r.tgtLen = t.length
  qmark : r.qmark = (firstQ t).map (r.tgt + ·)
  version : r.version = rb' + m.length + t.length + 2
  httpVer : r.httpVer = hv
  numWs : r.numWs = 0
  crSp : r.crSp = 0
  skipped : r.skipped = k
  rb : r.rb = rb' + m.length + t.length + 10 + e
  /-- the buffer is the input with the three delimiters replaced by NUL -/
  buf : r.buf = ((buf0.setIfInBounds (rb' + m.length) 0).setIfInBounds (rb' + m.length + 1 + t.length) 0).setIfInBounds
                  (rb' + m.length + t.length + 10) 0
  vMethod : BufIs r.buf r.method (m ++ [0])
  vTgt : BufIs r.buf r.tgt (t ++ [0])
  vVersion : BufIs r.buf r.version (v ++ [0])

theorem LineG.toNC {r : ReqLine} {buf0 : Bytes} {rb a b : Nat} {m t v : List UInt8} {hv : Int} {k e : Nat}
    (h : LineG r buf0 rb a b m t hv k e) (ha : m.length = a) (hb : t.length = b) (hvl : v.length = 8)
    (hbm : BufIs buf0 rb m) (hbt : BufIs buf0 (rb + (a + 1)) t) (hbv : BufIs buf0 (rb + (a + b + 2)) v)
    (hsz : rb + (a + b + 10) < buf0.size) : LineNC r buf0 rb m t v hv k e := by
  have hsz1 : rb + a < buf0.size := by omega
  have hsz2 : rb + (a + 1 + b) < buf0.size := by omega
  have getO : ∀ j, j ≠ rb + a → j ≠ rb + (a + 1 + b) → j ≠ rb + (a + b + 10) → r.buf[j]? = buf0[j]? := by
    intro j h1 h2 h3
    rw [h.e_buf]
    simp only [Array.getElem?_setIfInBounds]
    rw [if_neg (by omega), if_neg (by omega), if_neg (by omega)]
  have get1 : r.buf[rb + a]? = some 0 := by
    rw [h.e_buf]
    simp only [Array.getElem?_setIfInBounds, Array.size_setIfInBounds]
    rw [if_neg (by omega), if_neg (by omega)]; simp [hsz1]
  have get2 : r.buf[rb + (a + 1 + b)]? = some 0 := by
    rw [h.e_buf]
    simp only [Array.getElem?_setIfInBounds, Array.size_setIfInBounds]
    rw [if_neg (by omega)]; simp [hsz2]
  have get3 : r.buf[rb + (a + b + 10)]? = some 0 := by
    rw [h.e_buf]
    simp only [Array.getElem?_setIfInBounds, Array.size_setIfInBounds]
    simp [hsz]
  refine ⟨h.e_method, by rw [h.e_ml, ha], h.e_mt, by rw [h.e_tgt, ha]; omega, by rw [h.e_tl, hb], by rw [h.e_q, h.e_tgt],
    by rw [h.e_ver, ha, hb]; omega, h.e_hv, h.e_nw, h.e_cs, h.e_sk, by rw [h.e_rb, ha, hb]; omega, ?_, ?_, ?_, ?_⟩
  · rw [h.e_buf, ha, hb]
    rw [show rb + a + 1 + b = rb + (a + 1 + b) by omega, show rb + a + b + 10 = rb + (a + b + 10) by omega]
  · rw [h.e_method]
    intro i hi'
    simp only [List.length_append, List.length_cons, List.length_nil, ha] at hi'
    by_cases hia : i = a
    · subst hia
      rw [get1, List.getElem?_append_right (by omega)]
      simp [ha]
    · rw [getO _ (by omega) (by omega) (by omega), List.getElem?_append_left (by omega)]
      exact hbm i (by omega)
  · rw [h.e_tgt]
    intro i hi'
    simp only [List.length_append, List.length_cons, List.length_nil, hb] at hi'
    by_cases hib : i = b
    · subst hib
      rw [show rb + (a + 1) + i = rb + (a + 1 + i) by omega, get2, List.getElem?_append_right (by omega)]
      simp [hb]
    · rw [getO _ (by omega) (by omega) (by omega), List.getElem?_append_left (by omega)]
      exact hbt i (by omega)
  · rw [h.e_ver]
    intro i hi'
    simp only [List.length_append, List.length_cons, List.length_nil, hvl] at hi'
    by_cases hi8 : i = 8
    · subst hi8
      rw [show rb + (a + b + 2) + 8 = rb + (a + b + 10) by omega, get3, List.getElem?_append_right (by omega)]
      simp [hvl]
    · rw [getO _ (by omega) (by omega) (by omega), List.getElem?_append_left (by omega)]
      exact hbv i (by omega)

/-- the empty lines in front of the request line are skipped -/
theorem run_skip_init (F : RLFlags) (buf0 : Bytes) (rb : Nat) (els : List (List UInt8)) (hrb : rb ≤ buf0.size)
    (hels : ∀ e ∈ els, LineEnd F e) (hk : SkipOK F els.length) (hb : BufIs buf0 rb els.flatten) :
    (rlScanner F).run (RL.init buf0 rb) = (rlScanner F).run (startAt buf0 (rb + els.flatten.length) els.length) ∧
      rb + els.flatten.length ≤ buf0.size := by
  cases els with
  | nil => exact ⟨rfl, hrb⟩
  | cons e els =>
    rcases hk with h | ⟨hS, hlim⟩
    · simp at h
    · have := run_skip F hS (e :: els) (RL.init buf0 rb) (RLInv.init buf0 rb hrb) rfl hels
        (by rcases hlim with h | h
            · exact Or.inl h
            · right; show 0 + (e :: els).length ≤ _; omega) hb
      have eq : ({ RL.init buf0 rb with rb := (RL.init buf0 rb).rb + (e :: els).flatten.length,
                                        skipped := (RL.init buf0 rb).skipped + (e :: els).length } : RL)
          = startAt buf0 (rb + (e :: els).flatten.length) (e :: els).length := by
        show ({ RL.init buf0 rb with rb := rb + (e :: els).flatten.length, skipped := 0 + (e :: els).length } : RL) = _
        rw [Nat.zero_add]; rfl
      rw [eq] at this
      refine ⟨this.1, ?_⟩
      have := this.2.hp
      exact this

/-- **Round trip of the non-canonical renderings of the request line** that the parser accepts
    when whitespace blocks are not merged (levels ≥ 0): `k` empty lines in front (each `CR LF`,
    or a bare `LF` where that ends a line; accepted up to the per-level limit), each of the two
    separators any byte that is a whitespace delimiter at this strictness (SP; HT with
    `tabAsWsp`; VT/FF with `otherWspAsWsp`), the line ended by `CR LF` or — where allowed — a
    bare `LF`.  The parser hands out exactly the three tokens (each NUL-terminated in the
    buffer), remembers the first '?' of the target, recognises method and version, counts the
    skipped lines and consumes exactly the empty lines and the line. -/
theorem reqline_roundtrip_nc (F : RLFlags) (hB : F.wspBlocks = false) (buf0 : Bytes) (rb : Nat)
    (els : List (List UInt8)) (m t v eol : List UInt8) (w1 w2 : UInt8) (hv : Int)
    (hrb : rb ≤ buf0.size)
    (hels : ∀ e ∈ els, LineEnd F e) (hk : SkipOK F els.length)
    (hw1 : rlIsWsp F w1 = true) (hw2 : rlIsWsp F w2 = true) (heol : LineEnd F eol)
    (hm0 : m ≠ []) (ht0 : t ≠ []) (hm : ∀ c ∈ m, rplain c ∧ c ≠ 63)
    (ht : ∀ c ∈ t, rplain c) (hvl : v.length = 8) (hvc : ∀ c ∈ v, rplain c ∧ c ≠ 63)
    (hpv : parseHttpVersion v = .ok hv)
    (hbuf : BufIs buf0 rb (els.flatten ++ (m ++ [w1] ++ t ++ ([w2] ++ v ++ eol)))) :
    ∃ r, (rlScanner F).run (RL.init buf0 rb) = .done (.ok r) ∧
      LineNC r buf0 (rb + els.flatten.length) m t v hv els.length eol.length := by
  obtain ⟨r0, hrb'⟩ := run_skip_init F buf0 rb els hrb hels hk hbuf.left
  generalize hrbq : rb + els.flatten.length = rb' at r0 hrb'
  have hbuf' : BufIs buf0 rb' (m ++ [w1] ++ t ++ ([w2] ++ v ++ eol)) := by rw [← hrbq]; exact hbuf.right
  obtain ⟨s, r1, at1, hsk, hcs⟩ := head_part_g F hB buf0 rb' els.length m t _ w1 hw1 hrb' hm0 ht0 hm ht hbuf'
  have hrest : BufIs buf0 (rb' + (m.length + 1 + t.length)) ([w2] ++ v ++ eol) := by
    intro i hi'
    have := hbuf'.right i hi'
    rw [← this]; congr 1; simp; omega
  have hbm : BufIs buf0 rb' m := hbuf'.left.left.left
  have hbt : BufIs buf0 (rb' + (m.length + 1)) t := by
    have := hbuf'.left.right; simpa [Nat.add_assoc] using this
  have hbv : BufIs buf0 (rb' + (m.length + t.length + 2)) v := by
    have := hrest.left.right
    intro i hi'
    have h2 := this i hi'
    rw [← h2]; congr 1; simp; omega
  have hsp : buf0[rb' + (m.length + 1 + t.length)]? = some w2 := by
    have := hrest.left.left 0 (by simp); simpa using this
  have he : BufIs buf0 (rb' + (m.length + t.length + 10)) eol := by
    have := hrest.right
    intro i hi'
    have h2 := this i hi'
    rw [← h2]; congr 1; simp [hvl]; omega
  obtain ⟨chr, htb, hlen⟩ : ∃ chr, TailBytesG F buf0 rb' m.length t.length v w2 chr ∧ eolLen chr = eol.length := by
    rcases heol with h | ⟨h, hL⟩
    · subst h
      refine ⟨cCR, ⟨hsp, hw2, hbv, ?_, Or.inl ⟨rfl, ?_⟩, hvl, hvc⟩, rfl⟩
      · have := he 0 (by simp); simpa using this
      · have := he 1 (by simp)
        rw [show rb' + (m.length + t.length + 11) = rb' + (m.length + t.length + 10) + 1 by omega]
        simpa using this
    · subst h
      refine ⟨cLF, ⟨hsp, hw2, hbv, ?_, Or.inr ⟨rfl, hL⟩, hvl, hvc⟩, rfl⟩
      have := he 0 (by simp); simpa using this
  have hsz : rb' + (m.length + t.length + 10) < buf0.size := by
    have := htb.eol
    by_cases hlt : rb' + (m.length + t.length + 10) < buf0.size
    · exact hlt
    · rw [Array.getElem?_eq_none (by omega)] at this; cases this
  rw [← hlen]
  cases hU : F.wspInUri with
  | false =>
    obtain ⟨r, r2, ok⟩ := tail_strict_g F hB hU s buf0 rb' m.length t.length m t v w2 chr hv els.length at1 hsk hcs htb hpv
    exact ⟨r, r0.trans (r1.trans r2), ok.toNC rfl rfl hvl hbm hbt hbv hsz⟩
  | true =>
    obtain ⟨r, r2, ok⟩ := tail_lenient_g F hB hU s buf0 rb' m.length t.length m t v w2 chr hv els.length at1 hsk hcs htb hpv
    exact ⟨r, r0.trans (r1.trans r2), ok.toNC rfl rfl hvl hbm hbt hbv hsz⟩

/-! ### non-vacuity -/

/-- the canonical line is the rendering without empty lines, `SP` separators and `CR LF` -/
example (F : RLFlags) : SkipOK F ([] : List (List UInt8)).length ∧ rlIsWsp F cSP = true ∧ LineEnd F [cCR, cLF] :=
  ⟨Or.inl rfl, by simp [rlIsWsp], Or.inl rfl⟩

/-- at level 0: up to 1024 empty lines, `HT` as separator, bare `LF` as line end are accepted, `VT` is not -/
example : SkipOK (RLFlags.ofLevel 0) 1024 ∧ ¬ SkipOK (RLFlags.ofLevel 0) 1025 ∧ SkipOK (RLFlags.ofLevel 1) 1 ∧
    ¬ SkipOK (RLFlags.ofLevel 1) 2 ∧ ¬ SkipOK (RLFlags.ofLevel 2) 1 ∧
    rlIsWsp (RLFlags.ofLevel 0) cHT = true ∧ rlIsWsp (RLFlags.ofLevel 0) cVT = false ∧
    rlIsWsp (RLFlags.ofLevel 1) cHT = false ∧
    LineEnd (RLFlags.ofLevel 0) [cLF] ∧ ¬ LineEnd (RLFlags.ofLevel 1) [cLF] := by decide

theorem BufIs.ofList (w post : List UInt8) : BufIs (w ++ post).toArray 0 w := by
  intro i hi
  simp [List.getElem?_append_left hi]

/-- `CRLF GET HT /a?x HT HTTP/1.1 LF H` at level 0: the hypotheses of `reqline_roundtrip_nc` hold -/
example : ∃ r, (rlScanner (RLFlags.ofLevel 0)).run
      (RL.init #[13, 10, 71, 69, 84, 9, 47, 97, 63, 120, 9, 72, 84, 84, 80, 47, 49, 46, 49, 10, 72] 0) = .done (.ok r) ∧
    r.method = 2 ∧ r.tgt = 6 ∧ r.tgtLen = 4 ∧ r.qmark = some 8 ∧ r.version = 11 ∧ r.rb = 20 ∧ r.skipped = 1 ∧
    r.httpVer = Http.ver11 := by
  obtain ⟨r, h, ok⟩ := reqline_roundtrip_nc (RLFlags.ofLevel 0) rfl
    #[13, 10, 71, 69, 84, 9, 47, 97, 63, 120, 9, 72, 84, 84, 80, 47, 49, 46, 49, 10, 72] 0
    [[13, 10]] [71, 69, 84] [47, 97, 63, 120] [72, 84, 84, 80, 47, 49, 46, 49] [10] 9 9 Http.ver11
    (by decide) (by decide) (by decide) (by decide) (by decide) (by decide) (by decide) (by decide)
    (by intro c hc; simp at hc; rcases hc with rfl | rfl | rfl <;> (unfold rplain; decide))
    (by intro c hc; simp at hc; rcases hc with rfl | rfl | rfl | rfl <;> (unfold rplain; decide))
    rfl
    (by intro c hc; simp at hc; rcases hc with rfl | rfl | rfl | rfl | rfl | rfl | rfl <;> (unfold rplain; decide))
    rfl
    (BufIs.ofList _ [72])
  refine ⟨r, h, ok.method, ok.tgt, ok.tgtLen, ?_, ok.version, ok.rb, ok.skipped, ok.httpVer⟩
  rw [ok.qmark, ok.tgt]; rfl

/-- the same line evaluated by the kernel (`decide +kernel`: a test of the model on this input, not a
    proof step of any theorem): one empty line skipped, `HT` separators, bare `LF` line end -/
example :
    (match (rlScanner (RLFlags.ofLevel 0)).run
        (RL.init #[13, 10, 71, 69, 84, 9, 47, 97, 63, 120, 9, 72, 84, 84, 80, 47, 49, 46, 49, 10, 72] 0) with
     | .done (.ok r) =>
        (r.method, r.methodLen, r.tgt, r.tgtLen, r.qmark, r.version) == (2, 3, 6, 4, some 8, 11) &&
        (r.rb, r.skipped, r.numWs, r.httpVer) == (20, 1, 0, Http.ver11) &&
        r.buf.toList == [13, 10, 71, 69, 84, 0, 47, 97, 63, 120, 0, 72, 84, 84, 80, 47, 49, 46, 49, 0, 72]
     | _ => false) = true := by decide +kernel

/-- at level 1 the same bytes are refused (`HT` is no delimiter, the bare `LF` is an error) -/
example :
    (match (rlScanner (RLFlags.ofLevel 1)).run
        (RL.init #[13, 10, 71, 69, 84, 9, 47, 97, 63, 120, 9, 72, 84, 84, 80, 47, 49, 46, 49, 10, 72] 0) with
     | .done (.err _) => true
     | _ => false) = true := by decide +kernel

end RLP
end Mhd.Req
