/-
  C03 helper lemmas, part 10: the strict reference framer `Framer.frames` on strictly rendered
  valid requests, and its agreement with what the implementation model presents to the handler.
-/
import Mhd.Proofs.FramingMalformed
namespace Mhd.Framing
open Mhd.Gen.Framing Framer

set_option linter.unusedSectionVars false
variable [P : HeadParser] [L : LawfulHeadParser]

/-! ### the strict reference framer on strictly rendered requests -/

theorem takeLine_intro (l r : Bytes) (h : ∀ d ∈ l, d ≠ CR) : takeLine (l ++ CR :: LF :: r) = some (l, r) := by
  induction l with
  | nil => simp [takeLine]
  | cons c t ih =>
    have hc : c ≠ CR := h c List.mem_cons_self
    have ih' := ih (fun d hd => h d (List.mem_cons_of_mem _ hd))
    simp only [List.cons_append]
    cases hq : t ++ CR :: LF :: r with
    | nil => cases t <;> simp at hq
    | cons d rest' =>
      unfold takeLine
      have : (c == CR && d == LF) = false := by simp [hc]
      simp only [this, Bool.false_eq_true, if_false]
      rw [← hq, ih']

theorem takeWhile_hex_prefix (ds x : Bytes) (hd : ∀ d ∈ ds, isHex d = true)
    (hx : ∀ c r, x = c :: r → isHex c = false) : (ds ++ x).takeWhile isHex = ds ∧ (ds ++ x).dropWhile isHex = x := by
  induction ds with
  | nil =>
    cases x with
    | nil => simp
    | cons c r => simp [hx c r rfl]
  | cons c t ih =>
    have hc := hd c List.mem_cons_self
    have := ih (fun d hd' => hd d (List.mem_cons_of_mem _ hd'))
    simp [List.takeWhile_cons, List.dropWhile_cons, hc, this.1, this.2]

/-- a chunk rendered strictly: CRLF line ends, no BWS, extension free of CR and LF -/
structure StrictLine (c : Chunk) : Prop where
  digitsNonempty : c.digits ≠ []
  digitsHex : ∀ d ∈ c.digits, isHex d = true
  noOverflow : hexValue c.digits ≤ uint64Max
  noBws : c.bws = []
  ext : c.ext = [] ∨ ∃ e, c.ext = SEMI :: e ∧ ∀ d ∈ e, d ≠ LF ∧ d ≠ CR
  eol : c.eol = .crlf

structure StrictChunk (c : Chunk) : Prop extends StrictLine c where
  size : hexValue c.digits = c.data.length
  nonEmpty : c.data ≠ []
  dataEol : c.dataEol = .crlf

structure StrictLast (c : Chunk) : Prop extends StrictLine c where
  zero : hexValue c.digits = 0

theorem StrictLine.lineOK {c : Chunk} (h : StrictLine c) (lvl : Int) : LineOK lvl c where
  digitsNonempty := h.digitsNonempty
  digitsHex := h.digitsHex
  noOverflow := h.noOverflow
  bwsWs := by rw [h.noBws]; intro d hd; cases hd
  bwsLevel := by rw [h.noBws]; intro hne; exact absurd rfl hne
  ext := by
    cases h.ext with
    | inl e => exact Or.inl e
    | inr e => obtain ⟨x, hx, hall⟩ := e; exact Or.inr ⟨x, hx, fun d hd => (hall d hd).1⟩
  eol := Or.inl h.eol

theorem StrictChunk.chunkOK {c : Chunk} (h : StrictChunk c) (lvl : Int) : ChunkOK lvl c :=
  { h.toStrictLine.lineOK lvl with size := h.size, nonEmpty := h.nonEmpty, dataEolOK := Or.inl h.dataEol }

theorem StrictLast.lastOK {c : Chunk} (h : StrictLast c) (lvl : Int) : LastOK lvl c :=
  { h.toStrictLine.lineOK lvl with zero := h.zero }

theorem isHex_ne_CR (d : UInt8) (h : isHex d = true) : d ≠ CR := by
  intro e; subst e; revert h; decide

theorem strict_takeLine (c : Chunk) (h : StrictLine c) (more : Bytes) :
    takeLine (c.line ++ more) = some (c.digits ++ c.ext, more) := by
  have hl : c.line ++ more = (c.digits ++ c.ext) ++ CR :: LF :: more := by
    simp [Chunk.line, h.noBws, h.eol, Eol.bytes, List.append_assoc]
  rw [hl]
  apply takeLine_intro
  intro d hd
  simp only [List.mem_append] at hd
  cases hd with
  | inl hd => exact isHex_ne_CR d (h.digitsHex d hd)
  | inr hd =>
    cases h.ext with
    | inl e => rw [e] at hd; cases hd
    | inr e =>
      obtain ⟨x, hx, hall⟩ := e
      rw [hx] at hd
      cases hd with
      | head => decide
      | tail _ hd => exact (hall d hd).2

theorem strict_chunkLine (c : Chunk) (h : StrictLine c) : chunkLine (c.digits ++ c.ext) = some (hexValue c.digits) := by
  have hx : ∀ a r, c.ext = a :: r → isHex a = false := by
    intro a r har
    cases h.ext with
    | inl e => rw [e] at har; cases har
    | inr e => obtain ⟨x, hx, _⟩ := e; rw [hx] at har; cases har; decide
  have tw := takeWhile_hex_prefix c.digits c.ext h.digitsHex hx
  unfold chunkLine
  simp only [tw.1, tw.2]
  have hne : c.digits.isEmpty = false := by
    cases hd : c.digits with
    | nil => exact absurd hd h.digitsNonempty
    | cons _ _ => rfl
  have hov : ¬ (hexValue c.digits > uint64Max) := by have := h.noOverflow; omega
  simp only [hne, Bool.false_or, decide_eq_true_eq, hov, if_false]
  cases h.ext with
  | inl e => rw [e]
  | inr e =>
    obtain ⟨x, hx', hall⟩ := e
    rw [hx']
    have : (x.all fun y => y != CR && y != LF) = true := by
      rw [List.all_eq_true]; intro y hy; simp [(hall y hy).1, (hall y hy).2]
    simp [this]

theorem ref_chunks (cs : List Chunk) (hcs : ∀ c ∈ cs, StrictChunk c) (last : Chunk) (hl : StrictLast last)
    (rest acc : Bytes) (f : Nat) (hf : cs.length < f) :
    chunks f (encodeChunked cs last ++ rest) acc = .ok (acc ++ cs.flatMap Chunk.data) rest := by
  induction cs generalizing acc f with
  | nil =>
    cases f with
    | zero => omega
    | succ f =>
      unfold chunks
      simp only [encodeChunked, List.flatMap_nil, List.nil_append, List.append_nil]
      rw [strict_takeLine last hl.toStrictLine rest]
      simp only [strict_chunkLine last hl.toStrictLine, hl.zero]
  | cons c t ih =>
    cases f with
    | zero => omega
    | succ f =>
      have hc := hcs c List.mem_cons_self
      have hdl : 0 < c.data.length := by
        cases hd : c.data with
        | nil => exact absurd hd hc.nonEmpty
        | cons _ _ => simp
      unfold chunks
      have e1 : encodeChunked (c :: t) last ++ rest
          = c.line ++ (c.data ++ CR :: LF :: (encodeChunked t last ++ rest)) := by
        simp [encodeChunked, List.flatMap_cons, Chunk.bytes, hc.dataEol, Eol.bytes, List.append_assoc]
      rw [e1, strict_takeLine c hc.toStrictLine]
      simp only [strict_chunkLine c hc.toStrictLine, hc.size]
      have hnz : c.data.length ≠ 0 := by omega
      have hlen : ¬ ((c.data ++ CR :: LF :: (encodeChunked t last ++ rest)).length < c.data.length + 2) := by
        simp only [List.length_append, List.length_cons]; omega
      have hd2 : (List.drop c.data.length (c.data ++ CR :: LF :: (encodeChunked t last ++ rest))).take 2 = [CR, LF] := by
        rw [List.drop_left]; rfl
      have hdrop : List.drop (c.data.length + 2) (c.data ++ CR :: LF :: (encodeChunked t last ++ rest))
          = encodeChunked t last ++ rest := by
        rw [← List.drop_drop, List.drop_left]; rfl
      have hih := ih (fun c' hc' => hcs c' (List.mem_cons_of_mem _ hc')) (acc ++ c.data) f
        (by simp only [List.length_cons] at hf; omega)
      cases hn : c.data.length with
      | zero => omega
      | succ k =>
        rw [hn] at hlen hd2 hdrop
        simp only [hlen, if_false, hd2, beq_self_eq_true, if_true, hdrop]
        rw [← hn, List.take_left, hih]
        simp [List.flatMap_cons, List.append_assoc]

/-- a generated request whose framing fields satisfy RFC 9112 §6.3 and which is rendered strictly -/
structure MsgStrict (m : Msg) : Prop where
  headOK : P.head m.headBytes = .ok m.head []
  framing :
    match m.body with
    | .none => fieldValues m.head.fields hdrTransferEncoding = [] ∧
        (fieldValues m.head.fields hdrContentLength = [] ∨
          ∃ v, fieldValues m.head.fields hdrContentLength = [v] ∧ ValidDec v ∧ decValue v = 0)
    | .identity d => d ≠ [] ∧ fieldValues m.head.fields hdrTransferEncoding = [] ∧
        ∃ v, fieldValues m.head.fields hdrContentLength = [v] ∧ ValidDec v ∧ decValue v = d.length
    | .chunked cs last tr => (∃ te, fieldValues m.head.fields hdrTransferEncoding = [te] ∧ eqCI te tokChunked = true) ∧
        fieldValues m.head.fields hdrContentLength = [] ∧ m.head.http11 = true ∧
        (∀ c ∈ cs, StrictChunk c) ∧ StrictLast last ∧ ∃ fs, P.trailers tr = .ok fs []
  noClose : lookupToken m.head.fields hdrConnection tokClose = false
  keep : m.head.http11 = true ∨ lookupToken m.head.fields hdrConnection tokKeepAlive = true

/-- RFC-level validity implies what the implementation model needs (`decideBody_valid`) -/
theorem MsgStrict.msgOK {m : Msg} (h : MsgStrict m) (lvl : Int) (hh : HostOK lvl m.head.http11 m.head.fields) :
    MsgOK lvl m where
  headOK := h.headOK
  noClose := h.noClose
  keep := h.keep
  framing := by
    have hf := h.framing
    cases hb : m.body with
    | none =>
      rw [hb] at hf; simp only at hf ⊢
      cases hf.2 with
      | inl hcl => exact Or.inl (decideBody_none lvl _ _ hh hf.1 hcl)
      | inr hcl =>
        obtain ⟨v, hv, hvd, hz⟩ := hcl
        right; rw [decideBody_len lvl _ _ hh v hf.1 hv hvd, hz]
    | identity d =>
      rw [hb] at hf; simp only at hf ⊢
      obtain ⟨hd, hte, v, hv, hvd, hz⟩ := hf
      exact ⟨hd, by rw [decideBody_len lvl _ _ hh v hte hv hvd, hz]⟩
    | chunked cs last tr =>
      rw [hb] at hf; simp only at hf ⊢
      obtain ⟨⟨te, hte, hc⟩, hcl, h11, hcs, hl, htr⟩ := hf
      refine ⟨?_, fun c hc' => (hcs c hc').chunkOK lvl, hl.lastOK lvl, htr⟩
      rw [decideBody_chunked lvl _ _ hh te hte hc hcl, h11]; rfl

def Msg.frame (m : Msg) : Frame := ⟨m.head.method, m.head.target, m.body.data, true⟩

theorem encodeChunked_length (cs : List Chunk) (last : Chunk) (hcs : ∀ c ∈ cs, StrictChunk c) :
    cs.length ≤ (encodeChunked cs last).length := by
  induction cs with
  | nil => simp
  | cons c t ih =>
    have hc := hcs c List.mem_cons_self
    have hd : 0 < c.data.length := by
      cases hd : c.data with
      | nil => exact absurd hd hc.nonEmpty
      | cons _ _ => simp
    have := ih (fun c' hc' => hcs c' (List.mem_cons_of_mem _ hc'))
    simp only [encodeChunked, List.flatMap_cons, List.length_append, Chunk.bytes, List.length_cons] at this ⊢
    omega

theorem ref_next (m : Msg) (h : MsgStrict m) (rest : Bytes) :
    Framer.next (m.bytes ++ rest) = .frame m.frame rest := by
  have hp : P.head (m.bytes ++ rest) = .ok m.head (m.body.bytes ++ rest) := by
    have := L.head_append m.headBytes (m.body.bytes ++ rest) m.head [] h.headOK
    simpa [Msg.bytes, List.append_assoc] using this
  have hpers : persistent m.head = true := by
    unfold persistent
    simp only [h.noClose, Bool.false_eq_true, if_false]
    cases h.keep with
    | inl hk => simp [hk]
    | inr hk => cases m.head.http11 <;> simp [hk]
  have hf := h.framing
  unfold Framer.next
  simp only [hp]
  cases hb : m.body with
  | none =>
    rw [hb] at hf; simp only at hf
    simp only [hf.1, Msg.frame, hb, BodySpec.data, BodySpec.bytes, List.nil_append]
    cases hf.2 with
    | inl hcl => simp only [hcl, hpers]
    | inr hcl =>
      obtain ⟨v, hv, hvd, hz⟩ := hcl
      obtain ⟨hne, hdig, hlt⟩ := hvd
      have c1 : (v.isEmpty || !v.all isDigit || decide (decValue v ≥ sizeUnknown)) = false := by
        have a1 : v.isEmpty = false := by cases v with | nil => exact absurd rfl hne | cons _ _ => rfl
        have a2 : v.all isDigit = true := by rw [List.all_eq_true]; exact hdig
        have a3 : ¬ (decValue v ≥ sizeUnknown) := by omega
        simp [a1, a2, a3]
      rw [hz] at c1
      simp only [hv, hz, c1, Bool.false_eq_true, if_false, Nat.not_lt_zero, List.take_zero, List.drop_zero, hpers]
  | identity d =>
    rw [hb] at hf; simp only at hf
    obtain ⟨hd, hte, v, hv, hvd, hz⟩ := hf
    obtain ⟨hne, hdig, hlt⟩ := hvd
    have c1 : (v.isEmpty || !v.all isDigit || decide (decValue v ≥ sizeUnknown)) = false := by
      have a1 : v.isEmpty = false := by cases v with | nil => exact absurd rfl hne | cons _ _ => rfl
      have a2 : v.all isDigit = true := by rw [List.all_eq_true]; exact hdig
      have a3 : ¬ (decValue v ≥ sizeUnknown) := by omega
      simp [a1, a2, a3]
    rw [hz] at c1
    have c2 : ¬ ((d ++ rest).length < d.length) := by simp only [List.length_append]; omega
    simp only [hte, hv, c1, Bool.false_eq_true, if_false, hz, Msg.frame, hb, BodySpec.data, BodySpec.bytes, c2,
      List.take_left, List.drop_left, hpers]
  | chunked cs last tr =>
    rw [hb] at hf; simp only at hf
    obtain ⟨⟨te, hte, hc⟩, hcl, h11, hcs, hl, fs, htr⟩ := hf
    have hfuel : cs.length < (encodeChunked cs last ++ tr ++ rest).length + 1 := by
      have := encodeChunked_length cs last hcs
      simp only [List.length_append]; omega
    have hch := ref_chunks cs hcs last hl (tr ++ rest) [] _ hfuel
    simp only [List.append_assoc] at hch
    have htr' := parseTrailers_append tr rest fs [] htr
    simp only [hte, hcl, hc, Bool.not_true, List.isEmpty_nil, Bool.or_self, Bool.false_eq_true, if_false,
      BodySpec.bytes, List.append_assoc, hch, List.nil_append, htr', Msg.frame, hb, BodySpec.data, hpers]

theorem Msg.bytes_ne (m : Msg) (h : MsgStrict m) : m.bytes ≠ [] := by
  have := L.head_length _ _ _ h.headOK
  intro e
  have : m.headBytes.length = 0 := by
    have := congrArg List.length e
    simp only [Msg.bytes, List.length_append, List.length_nil] at this; omega
  omega

theorem ref_frames (ms : List Msg) (hms : ∀ m ∈ ms, MsgStrict m) (f : Nat) (hf : ms.length < f) :
    framesFuel f (ms.flatMap Msg.bytes) = (ms.map Msg.frame, .incomplete 0) := by
  induction ms generalizing f with
  | nil =>
    cases f with
    | zero => omega
    | succ f => rfl
  | cons m t ih =>
    cases f with
    | zero => omega
    | succ f =>
      have hm := hms m List.mem_cons_self
      have hne := Msg.bytes_ne m hm
      unfold framesFuel
      simp only [List.flatMap_cons]
      cases hq : m.bytes ++ t.flatMap Msg.bytes with
      | nil => cases hb : m.bytes with
        | nil => exact absurd hb hne
        | cons _ _ => rw [hb] at hq; simp at hq
      | cons a r =>
        simp only
        rw [← hq, ref_next m hm]
        have hpf : m.frame.persistent = true := rfl
        simp only [hpf, if_true]
        rw [ih (fun m' hm' => hms m' (List.mem_cons_of_mem _ hm')) f (by simp only [List.length_cons] at hf; omega)]
        rfl

def Frame.seen (f : Frame) : Seen := ⟨f.method, f.target, f.body⟩

/-- **the implementation frames a pipelined stream exactly as the strict reference framer does** -/
theorem frames_agree (lvl : Int) (app : App) (ms : List Msg) (segs : List Bytes)
    (hms : ∀ m ∈ ms, MsgStrict m) (hh : ∀ m ∈ ms, HostOK lvl m.head.http11 m.head.fields)
    (happ : ∀ j, j < ms.length → ∃ st, app j = .cont st false)
    (hsegs : segs.flatten = ms.flatMap Msg.bytes) :
    framesOf (runSegs lvl app segs) = (Framer.frames lvl segs.flatten).1.map Frame.seen ∧
    (Framer.frames lvl segs.flatten).2 = .incomplete 0 := by
  have h1 := pipeline_frames lvl app ms segs (fun m hm => (hms m hm).msgOK lvl (hh m hm)) happ hsegs
  have hlen : ms.length < (ms.flatMap Msg.bytes).length + 1 := by
    clear h1 hsegs happ hh
    induction ms with
    | nil => simp
    | cons m t ih =>
      have hne := Msg.bytes_ne m (hms m List.mem_cons_self)
      have : 0 < m.bytes.length := by cases hb : m.bytes with | nil => exact absurd hb hne | cons _ _ => simp
      have := ih (fun m' hm' => hms m' (List.mem_cons_of_mem _ hm'))
      simp only [List.flatMap_cons, List.length_append, List.length_cons] at this ⊢
      omega
  have h2 := ref_frames ms hms _ hlen
  unfold Framer.frames
  rw [hsegs, h2, h1.1]
  simp [List.map_map, Function.comp_def, Msg.frame, Msg.seen, Frame.seen]
end Mhd.Framing
