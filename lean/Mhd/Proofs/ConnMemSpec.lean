/-
  Operation-level specifications of the buffer layer in the receiving phase, as used by the
  composition `Mhd.ConnRead`: which operations are accepted (never `badOp`), what they do to
  `read_buffer`, `read_buffer_size`, `read_buffer_offset`.
-/
import Mhd.Proofs.ConnMem
import Mhd.Model.ConnRead

namespace Mhd.ConnMem
open Mhd.Pool

/-- the buffer layer while a request is received: invariant, receiving phase, the read
    buffer is the block at the arena base -/
structure Recv (c : CM) (r : Nat) : Prop where
  inv : CMInv c
  snd : c.sending = false
  rb : c.rb = some r
  base : c.rbBase = 0

theorem Recv.off_le {c : CM} {r : Nat} (h : Recv c r) : c.rbOff ≤ c.rbSize :=
  ((inv_recv h.inv h.snd).2.2.2.2.2.2.2 r h.rb).2.1

theorem Recv.inside {c : CM} {r : Nat} (h : Recv c r) : r + c.rbSize ≤ c.p.pos ∧ c.p.pos ≤ c.p.size := by
  have f := inv_recv h.inv h.snd
  have g := geo_arith f.1
  exact ⟨(f.2.2.2.2.2.2.2 r h.rb).2.2.1, by omega⟩

theorem Recv.setMem {c : CM} {r : Nat} (h : Recv c r) (m : List UInt8) : Recv (Mhd.ConnRead.setMem c m) r := by
  refine ⟨?_, h.snd, h.rb, h.base⟩
  exact inv_swap c { c.p with mem := m } h.inv h.inv.1 rfl rfl

theorem consume_spec {c : CM} {r : Nat} (h : Recv c r) (k : Nat) (hk : k ≤ c.rbOff) :
    ∃ c', Mhd.ConnRead.op c (.consume k) = some c' ∧ Recv c' (r + k) ∧ c'.rbOff = c.rbOff - k ∧
      c'.rbSize = c.rbSize - k ∧ c'.inc = c.inc ∧ c'.poolSize = c.poolSize ∧ c'.p = c.p := by
  have hi := step_consume c k h.inv
  have hs := h.snd
  have e : step c (.consume k) =
      ({ c with rb := some (r + k), rbSize := c.rbSize - k, rbOff := c.rbOff - k }, .ok) := by
    simp only [step, h.rb, hs, Bool.not_false, true_and, hk, if_true]
  rw [e] at hi
  refine ⟨_, by simp only [Mhd.ConnRead.op, e], ⟨hi, hs, rfl, h.base⟩, rfl, rfl, rfl, rfl, rfl⟩

theorem recv_spec {c : CM} {r : Nat} (h : Recv c r) (k : Nat) (hk : k ≤ c.rbSize - c.rbOff) :
    ∃ c', Mhd.ConnRead.op c (.recv k) = some c' ∧ Recv c' r ∧ c'.rbOff = c.rbOff + k ∧
      c'.rbSize = c.rbSize ∧ c'.inc = c.inc ∧ c'.poolSize = c.poolSize ∧ c'.p = c.p := by
  have hi := step_simple_recv c k h.inv
  have hs := h.snd
  have e : step c (.recv k) = ({ c with rbOff := c.rbOff + k }, .ok) := by
    simp only [step, h.rb, hs, Bool.not_false, Option.isSome_some, true_and, hk, if_true]
  rw [e] at hi
  exact ⟨_, by simp only [Mhd.ConnRead.op, e], ⟨hi, hs, h.rb, h.base⟩, rfl, rfl, rfl, rfl, rfl⟩

theorem shiftBack_spec {c : CM} {r : Nat} (h : Recv c r) (k : Nat) (hk : k ≤ r) :
    ∃ c', Mhd.ConnRead.op c (.shiftBack k) = some c' ∧ Recv c' (r - k) ∧ c'.rbOff = c.rbOff ∧
      c'.rbSize = c.rbSize + k ∧ c'.inc = c.inc ∧ c'.poolSize = c.poolSize ∧ c'.p = c.p := by
  have hi := step_shiftBack c k h.inv
  have hs := h.snd
  have hb : c.rbBase + k ≤ r := by rw [h.base]; omega
  have e : step c (.shiftBack k) = ({ c with rb := some (r - k), rbSize := c.rbSize + k }, .ok) := by
    simp only [step, h.rb, hs, Bool.not_false, true_and, hb, if_true]
  rw [e] at hi
  exact ⟨_, by simp only [Mhd.ConnRead.op, e], ⟨hi, hs, rfl, h.base⟩, rfl, rfl, rfl, rfl, rfl⟩

theorem errRelease_spec {c : CM} {r : Nat} (h : Recv c r) :
    ∃ c', Mhd.ConnRead.op c .errRelease = some c' ∧ CMInv c' := by
  have hi := step_errRelease c h.inv
  have hs := h.snd
  by_cases hz : c.rbSize ≠ 0
  · have e : step c .errRelease =
        ({ c with p := deallocate c.p c.rb c.rbSize, rb := none, rbSize := 0, rbOff := 0, sending := true }, .ok) := by
      simp only [step, hs, Bool.false_eq_true, if_false, hz, ne_eq, not_false_eq_true, if_true]
    rw [e] at hi
    exact ⟨_, by simp only [Mhd.ConnRead.op, e], hi⟩
  · have e : step c .errRelease = ({ c with sending := true }, .ok) := by
      simp only [step, hs, Bool.false_eq_true, if_false, hz]
    rw [e] at hi
    exact ⟨_, by simp only [Mhd.ConnRead.op, e], hi⟩



/-- `MHD_connection_alloc_memory_` while receiving: the window keeps its start and its fill,
    only its free tail may be taken -/
theorem alloc_spec {c : CM} {r : Nat} (h : Recv c r) (n : Nat) (hn : n < W) :
    Recv (step c (.alloc n)).1 r ∧ (step c (.alloc n)).1.rbOff = c.rbOff ∧
      (step c (.alloc n)).1.rbSize ≤ c.rbSize ∧ (step c (.alloc n)).1.inc = c.inc ∧
      (step c (.alloc n)).1.poolSize = c.poolSize ∧ (step c (.alloc n)).2 ≠ .badOp := by
  have hi := step_alloc c n h.inv hn
  have f := inv_recv h.inv h.snd
  have fr := f.2.2.2.2.2.2.2 r h.rb
  have hwb : c.wb = none := f.2.2.1
  simp only [step] at hi ⊢
  refine ⟨⟨hi, ?_, ?_, ?_⟩, ?_, ?_, ?_, ?_, by simp⟩
  all_goals
    unfold allocMem
    rcases tryAlloc_geo c.p n f.1 hn with ⟨need, he⟩ | ⟨p', off, he, _⟩
    · rw [he]
      cases need with
      | none => try first | exact h.snd | exact h.rb | exact h.base | rfl | exact Nat.le_refl _
      | some need =>
        simp only [hwb, resizable_none, Bool.false_eq_true, if_false]
        by_cases hrr : isResizableInplace c.p c.rb c.rbSize = true
        · rw [if_pos hrr]
          by_cases hroom : c.rbSize - c.rbOff ≥ need
          · rw [if_pos hroom]
            try
              obtain ⟨p1, he1, _⟩ := realloc_last_fit c.p r c.rbSize (c.rbSize - need) f.1 fr.2.2.1 fr.2.2.2
                (by intro hh; have := fr.2.2.1; have := geo_arith f.1; omega)
              rw [h.rb, he1]
              try first | exact h.snd | rfl | exact h.base | exact Nat.sub_le _ _
          · rw [if_neg hroom]
            try first | exact h.snd | exact h.rb | exact h.base | rfl | exact Nat.le_refl _
        · rw [if_neg hrr]
          try first | exact h.snd | exact h.rb | exact h.base | rfl | exact Nat.le_refl _
    · rw [he]
      try first | exact h.snd | exact h.rb | exact h.base | rfl | exact Nat.le_refl _


/-- a successful `try_grow_read_buffer` on a full buffer really adds space — with the guard
    `if (0 == small_inc) small_inc = 1`; without it only when `pool_increment` is not 1 … 7 -/
theorem growSizeG_strict (m : Bool) (c : CM) (req : Bool) (n : Nat) (hg : Geo c.p) (h : growSizeG m c req = some n)
    (hfull : c.rbOff = c.rbSize) (hinc : m = true ∨ c.inc = 0 ∨ 8 ≤ c.inc) : c.rbSize < n := by
  have g := geo_arith hg
  have hfr : getFree c.p = c.p.end_ - c.p.pos := rfl
  unfold growSizeG at h
  simp only at h
  by_cases h0 : getFree c.p = 0
  · simp [h0] at h
  · rw [if_neg h0] at h
    have hav : 16 ≤ getFree c.p := by
      simp only [A, Mhd.Gen.Pool.alignSize] at g; omega
    by_cases h1 : c.rbSize = 0
    · rw [if_pos h1] at h
      have := Option.some.inj h; omega
    · rw [if_neg h1] at h
      by_cases h2 : c.inc > getFree c.p / 8
      · rw [if_pos h2] at h
        have h3 : ¬ (c.inc ≤ getFree c.p / 8 + (c.rbSize - c.rbOff) ∧ c.rbSize - c.rbOff < c.inc) := by omega
        rw [if_neg h3] at h
        cases req with
        | false => simp at h
        | true =>
          simp only [Bool.not_true, Bool.false_eq_true, if_false, Mhd.Gen.ConnMem.bufIncSize] at h
          have key : ∀ si : Nat, 0 < si →
              (if si < getFree c.p then some (c.rbSize + si) else some (c.rbSize + getFree c.p)) = some n → c.rbSize < n := by
            intro si hsi hh
            split at hh <;> (have := Option.some.inj hh; omega)
          refine key _ ?_ h
          by_cases h4 : 1500 > c.inc
          · simp only [h4, if_true]
            by_cases h5 : m = true ∧ c.inc / 8 = 0
            · rw [if_pos h5]; omega
            · rw [if_neg h5]
              rcases hinc with hm | hz | h8
              · have : ¬ c.inc / 8 = 0 := fun hh => h5 ⟨hm, hh⟩
                omega
              · omega
              · omega
          · simp only [h4, if_false]
            split <;> omega
      · rw [if_neg h2] at h
        have := Option.some.inj h; omega

/-- the code as it is (fix F32 present, by the regenerated behaviour probe `growMinOne`) -/
theorem growSize_strict (c : CM) (req : Bool) (n : Nat) (hg : Geo c.p) (h : growSize c req = some n)
    (hfull : c.rbOff = c.rbSize) : c.rbSize < n :=
  growSizeG_strict _ c req n hg h hfull (Or.inl rfl)

theorem grow_spec {c : CM} {r : Nat} (h : Recv c r) (req : Bool) :
    Recv (step c (.grow req)).1 r ∧ (step c (.grow req)).1.rbOff = c.rbOff ∧
      c.rbSize ≤ (step c (.grow req)).1.rbSize ∧ (step c (.grow req)).1.inc = c.inc ∧
      (step c (.grow req)).1.poolSize = c.poolSize ∧
      ((step c (.grow req)).2 = .bool true ∨ ((step c (.grow req)).2 = .bool false ∧ (step c (.grow req)).1 = c)) ∧
      ((step c (.grow req)).2 = .bool true → c.rbOff = c.rbSize →
        (step c (.grow req)).1.rbOff < (step c (.grow req)).1.rbSize) := by
  have hi := step_grow c req h.inv
  have f := inv_recv h.inv h.snd
  have fr := f.2.2.2.2.2.2.2 r h.rb
  have hs := h.snd
  have same : step c (.grow req) = (c, .bool false) →
      Recv (step c (.grow req)).1 r ∧ (step c (.grow req)).1.rbOff = c.rbOff ∧
      c.rbSize ≤ (step c (.grow req)).1.rbSize ∧ (step c (.grow req)).1.inc = c.inc ∧
      (step c (.grow req)).1.poolSize = c.poolSize ∧
      ((step c (.grow req)).2 = .bool true ∨ ((step c (.grow req)).2 = .bool false ∧ (step c (.grow req)).1 = c)) ∧
      ((step c (.grow req)).2 = .bool true → c.rbOff = c.rbSize →
        (step c (.grow req)).1.rbOff < (step c (.grow req)).1.rbSize) := by
    intro e
    rw [e]
    exact ⟨h, rfl, Nat.le_refl _, rfl, rfl, Or.inr ⟨rfl, rfl⟩, fun hh => by cases hh⟩
  cases hgs : growSize c req with
  | none =>
    apply same
    simp only [step, hs, Bool.false_eq_true, if_false, grow, hgs]
  | some newSize =>
    by_cases hres : isResizableInplace c.p (some r) c.rbSize = true
    · rcases realloc_last c.p r c.rbSize newSize f.1 fr.2.2.1 fr.2.2.2 with ⟨he, _⟩ | ⟨p', he, _⟩
      · apply same
        simp only [step, hs, Bool.false_eq_true, if_false, grow, hgs, h.rb, Option.isSome_some, true_and, hres,
          Bool.not_true, he]
      · have e : step c (.grow req) =
            ({ c with p := p', rb := some r, rbSize := newSize, rbBase := c.rbBase }, .bool true) := by
          simp only [step, hs, Bool.false_eq_true, if_false, grow, hgs, h.rb, Option.isSome_some, true_and, hres,
            Bool.not_true, he, if_true]
        rw [e] at hi ⊢
        have hb := growSize_bounds c req newSize hgs
        refine ⟨⟨hi, hs, rfl, h.base⟩, rfl, hb.1, rfl, rfl, Or.inl rfl, ?_⟩
        intro _ hfull
        have := growSize_strict c req newSize f.1 hgs hfull
        show c.rbOff < newSize
        omega
    · apply same
      simp only [step, hs, Bool.false_eq_true, if_false, grow, hgs, h.rb, Option.isSome_some, true_and, hres,
        Bool.not_false, if_true]


theorem init_fields (allocSize poolSize inc : Nat) (ha : allocSize % A = 0) (hs : allocSize < 2 ^ 62)
    (hp : poolSize ≤ allocSize) :
    (init allocSize poolSize inc).rb = some 0 ∧ (init allocSize poolSize inc).rbOff = 0 ∧
    (init allocSize poolSize inc).rbBase = 0 ∧ (init allocSize poolSize inc).sending = false ∧
    (init allocSize poolSize inc).rbSize = poolSize / 2 ∧ (init allocSize poolSize inc).inc = inc ∧
    (init allocSize poolSize inc).poolSize = poolSize := by
  unfold init
  simp only
  unfold allocate
  by_cases h1 : (roundUp (poolSize / 2) = 0 ∧ poolSize / 2 ≠ 0)
  · exfalso
    simp only [roundUp, W_eq, A, Mhd.Gen.Pool.alignSize] at *; omega
  · by_cases h2 : roundUp (poolSize / 2) > (create allocSize).end_ - (create allocSize).pos
    · exfalso
      simp only [create, roundUp, W_eq, A, Mhd.Gen.Pool.alignSize] at *; omega
    · simp only [h1, h2, if_false, Bool.false_eq_true]
      simp [create]

theorem bodyDrop_spec {c : CM} {r : Nat} (h : Recv c r) (k : Nat) (hk : k ≤ c.rbOff) :
    ∃ c', Mhd.ConnRead.op c (.bodyDrop k) = some c' ∧ Recv c' r ∧ c'.rbOff = c.rbOff - k ∧
      c'.rbSize = c.rbSize ∧ c'.inc = c.inc ∧ c'.poolSize = c.poolSize ∧ c'.p = c.p := by
  have hi := step_bodyDrop c k h.inv
  have hs := h.snd
  have e : step c (.bodyDrop k) = ({ c with rbOff := c.rbOff - k }, .ok) := by
    simp only [step, h.rb, hs, Bool.not_false, Option.isSome_some, true_and, hk, if_true]
  rw [e] at hi
  exact ⟨_, by simp only [Mhd.ConnRead.op, e], ⟨hi, hs, h.rb, h.base⟩, rfl, rfl, rfl, rfl, rfl⟩

/-- the reply is sent and the connection recycled: `connection_shrink_read_buffer`, then
    `connection_reset (c, true)`: the read-ahead is kept, the window starts at the arena base again -/
theorem shrink_reset_spec {c : CM} {r : Nat} (h : Recv c r) :
    ∃ c1 c2, Mhd.ConnRead.op c .shrinkRead = some c1 ∧ Mhd.ConnRead.op c1 .resetConn = some c2 ∧
      Recv c2 0 ∧ c2.rbOff = c.rbOff ∧ c2.inc = c.inc := by
  have f := inv_recv h.inv h.snd
  have hs := h.snd
  have i1 := step_shrinkRead c h.inv
  have e1 : step c .shrinkRead = ({ shrinkRead c with sending := true }, .ok) := by
    simp only [step, hs, Bool.false_eq_true, if_false]
  rw [e1] at i1
  have hoff : (shrinkRead c).rbOff = c.rbOff ∧ (shrinkRead c).wbSend = c.wbSend ∧ (shrinkRead c).wbApp = c.wbApp ∧
      (shrinkRead c).inc = c.inc := by
    unfold shrinkRead
    split
    · exact ⟨rfl, rfl, rfl, rfl⟩
    · split
      · exact ⟨rfl, rfl, rfl, rfl⟩
      · split <;> exact ⟨rfl, rfl, rfl, rfl⟩
  have i2 := step_resetConn _ i1
  have hw : ({ shrinkRead c with sending := true } : CM).wbSend = ({ shrinkRead c with sending := true } : CM).wbApp := by
    show (shrinkRead c).wbSend = (shrinkRead c).wbApp
    rw [hoff.2.1, hoff.2.2.1, f.2.2.2.2.2.1, f.2.2.2.2.1]
  have e2 : step { shrinkRead c with sending := true } .resetConn =
      ({ resetConn { shrinkRead c with sending := true } with sending := false }, .ok) := by
    have hc : ({ shrinkRead c with sending := true } : CM).sending = true ∧
        ({ shrinkRead c with sending := true } : CM).wbSend = ({ shrinkRead c with sending := true } : CM).wbApp := ⟨rfl, hw⟩
    show (if _ then _ else _) = _
    rw [if_pos hc]
  rw [e2] at i2
  refine ⟨{ shrinkRead c with sending := true }, { resetConn { shrinkRead c with sending := true } with sending := false },
    by simp only [Mhd.ConnRead.op, e1], by simp only [Mhd.ConnRead.op, e2], ⟨i2, rfl, rfl, rfl⟩, ?_, ?_⟩
  · show (shrinkRead c).rbOff = c.rbOff; exact hoff.1
  · show (shrinkRead c).inc = c.inc; exact hoff.2.2.2

end Mhd.ConnMem
