/-
  C12 proofs: for every input the model never writes beyond `hash1_bin[MAX_DIGEST]` or `tmp1[128]`.
-/
import Mhd.Proofs.DauthHex
namespace Mhd.Dauth
open Mhd.Auth Mhd.Gen.Auth Mhd.Gen.Dauth

/-- a write beyond one of the two fixed-size stack buffers of `digest_auth_check_all_inner` -/
def Overflow (e : Res) : Prop := e = .fault .hash1Overflow ∨ e = .fault .tmp1Overflow

def Safe {α : Type} (x : Except Res α) : Prop := ∀ e, x = .error e → ¬ Overflow e

theorem Safe.bind {α β : Type} {x : Except Res α} {f : α → Except Res β} (hx : Safe x) (hf : ∀ a, Safe (f a)) :
    Safe (x >>= f) := by
  intro e h
  cases x with
  | error e' => simp [Bind.bind, Except.bind] at h; subst h; exact hx e' rfl
  | ok a => exact hf a e h

theorem safe_ok {α : Type} (a : α) : Safe (Except.ok a : Except Res α) := by intro e h; cases h
theorem safe_err {α : Type} (r : Res) (h : ¬ Overflow r) : Safe (Except.error r : Except Res α) := by
  intro e he; cases he; exact h

macro "safe" : tactic => `(tactic| (intro e h; repeat' split at h; all_goals (first | (cases h; done) | (injection h with h; subst h; simp [Overflow]) | skip)))

theorem need_safe (o : Option Param) : Safe (need o) := by unfold need; safe
theorem getUnq_safe (p : Param) : Safe (getUnq p) := by unfold getUnq; safe
theorem stageAlgoN_safe (call : Call) (x : Nat) : Safe (stageAlgoN call x) := by unfold stageAlgoN; safe
theorem stageQopN_safe (call : Call) (x : Nat) : Safe (stageQopN call x) := by unfold stageQopN; safe
theorem presUsername_safe (ds : Nat) (lv : LenView) (uh : Bool) : Safe (presUsername ds lv uh) := by unfold presUsername; safe
theorem presRealm_safe (call : Call) (lv : LenView) (uh : Bool) : Safe (presRealm call lv uh) := by unfold presRealm; safe
theorem presNcCnonce_safe (lv : LenView) (q : Nat) : Safe (presNcCnonce lv q) := by unfold presNcCnonce; safe
theorem presUri_safe (lv : LenView) : Safe (presUri lv) := by unfold presUri; safe
theorem presNonce_safe (a : Algo) (lv : LenView) : Safe (presNonce a lv) := by unfold presNonce; safe
theorem presResponse_safe (ds : Nat) (lv : LenView) : Safe (presResponse ds lv) := by unfold presResponse; safe

theorem presenceV_safe (a : Algo) (call : Call) (lv : LenView) (q : Nat) (uh : Bool) : Safe (presenceV a call lv q uh) := by
  unfold presenceV
  exact (presUsername_safe _ _ _).bind fun _ => (presRealm_safe _ _ _).bind fun _ => (presNcCnonce_safe _ _).bind fun _ =>
    (presUri_safe _).bind fun _ => (presNonce_safe _ _).bind fun _ => presResponse_safe _ _

theorem stageRealm_safe (call : Call) (d : DAuth) : Safe (stageRealm call d) := by
  unfold stageRealm
  exact (need_safe _).bind fun p => by safe

theorem stageUsername_safe (a : Algo) (call : Call) (d : DAuth) : Safe (stageUsername a call d) := by
  unfold stageUsername
  split
  · split
    · safe
    · exact (need_safe _).bind fun e => by safe
  · refine (need_safe _).bind fun u => ?_
    simp only [tmp1_ok a, if_false]
    safe

theorem stageNc_safe (m : Nat) (d : DAuth) : Safe (stageNc m d) := by
  unfold stageNc
  split
  · exact (need_safe _).bind fun p => (getUnq_safe p).bind fun txt => by safe
  · exact safe_ok _

theorem stageNonce_safe (a : Algo) (now t : Nat) (d : DAuth) : Safe (stageNonce a now t d) := by
  unfold stageNonce
  exact (need_safe _).bind fun p => (getUnq_safe p).bind fun n => by safe

theorem stagePre_safe (now timeout maxNc : Nat) (call : Call) (d : DAuth) : Safe (stagePre now timeout maxNc call d) := by
  unfold stagePre stageAlgo stageQop stagePresence
  exact (stageAlgoN_safe _ _).bind fun a => (stageQopN_safe _ _).bind fun _ => (presenceV_safe _ _ _ _ _).bind fun _ =>
    (stageRealm_safe _ _).bind fun _ => (stageUsername_safe _ _ _).bind fun _ => (stageNc_safe _ _).bind fun _ =>
    (stageNonce_safe _ _ _ _).bind fun _ => safe_ok _

theorem stageUri_safe (cfg : Cfg) (r : Req) (d : DAuth) : Safe (stageUri cfg r d) := by
  unfold stageUri
  refine (need_safe _).bind fun p => ?_
  split
  · exact safe_err _ (by simp [Overflow])
  · simp only
    generalize (if p.quoted = true then unquote p.raw else p.raw) = uri
    split
    · exact safe_ok _
    · exact safe_err _ (by simp [Overflow])

theorem ha1Hex_safe (a : Algo) (call : Call) : Safe (ha1Hex a call) := by unfold ha1Hex; safe

theorem qopPart_safe (d : DAuth) : Safe (qopPart d) := by
  unfold qopPart
  split
  · exact ((need_safe _).bind getUnq_safe).bind fun _ => ((need_safe _).bind getUnq_safe).bind fun _ =>
      ((need_safe _).bind getUnq_safe).bind fun _ => safe_ok _
  · exact safe_ok _

/-- the decoded `response` always fits `hash1_bin[MAX_DIGEST]` (this is what fix F24 established) and the
    hexadecimal texts always fit `tmp1[]` -/
theorem stageResponse_safe (a : Algo) (r : Req) (call : Call) (d : DAuth) (uri : Bytes) :
    Safe (stageResponse a r call d uri) := by
  unfold stageResponse
  refine (ha1Hex_safe _ _).bind fun h1 => (need_safe _).bind fun rp => (getUnq_safe rp).bind fun resp => ?_
  by_cases hl : a.size * 2 < resp.length
  · simp only [hl, if_true]; exact safe_err _ (by simp [Overflow])
  · simp only [hl, if_false, hash1_ok a _ hl]
    split
    · exact safe_err _ (by simp [Overflow])
    · split
      · exact safe_err _ (by simp [Overflow])
      · refine (need_safe _).bind fun np => (getUnq_safe np).bind fun _ => (qopPart_safe d).bind fun _ => ?_
        simp only [tmp1_ok a, if_false]
        safe

theorem stageBind_safe (cfg : Cfg) (a : Algo) (r : Req) (call : Call) (d : DAuth) (t : Nat) :
    Safe (stageBind cfg a r call d t) := by
  unfold stageBind
  split
  · simp only [tmp1_ok' a, if_false]
    split
    · exact safe_err _ (by simp [Overflow])
    · exact (need_safe _).bind fun _ => by safe
  · exact safe_ok _

theorem stagePost_safe (cfg : Cfg) (r : Req) (call : Call) (d : DAuth) (a : Algo) (t : Nat) :
    ¬ Overflow (stagePost cfg r call d a t) := by
  have hs : Safe (do
      let uri ← stageUri cfg r d
      stageResponse a r call d uri
      stageBind cfg a r call d t : Except Res Unit) :=
    (stageUri_safe _ _ _).bind fun uri => (stageResponse_safe _ _ _ _ _).bind fun _ => stageBind_safe _ _ _ _ _ _
  unfold stagePost
  split
  · simp [Overflow]
  · rename_i e he; exact hs e he

theorem ofNc_safe (x : Mhd.Nonce.NcRes) : ¬ Overflow (ofNc x) := by cases x <;> simp [ofNc, Overflow]

/-- for every input whatsoever the check never writes beyond `hash1_bin[]` or `tmp1[]` -/
theorem checkInner_no_overflow (cfg : Cfg) (tbl : Mhd.Nonce.Table) (now : Nat) (r : Req) (call : Call) (timeout maxNc : Nat)
    (p : Option DAuth) : ¬ Overflow (checkInner cfg tbl now r call timeout maxNc p).2 := by
  unfold checkInner
  cases p with
  | none => simp [Overflow]
  | some d =>
    simp only
    cases hS : stagePre now timeout maxNc call d with
    | error e => exact stagePre_safe _ _ _ _ _ e hS
    | ok x =>
      obtain ⟨a, nci, n, t⟩ := x
      simp only
      split
      · exact stagePost_safe _ _ _ _ _ _
      · exact ofNc_safe _

end Mhd.Dauth
