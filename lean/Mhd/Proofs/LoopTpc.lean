/-
  C06 — proofs, part 7: thread-per-connection (Mhd.Model.LoopTpc).

  No lost wake-up and progress for the loop of thread_main_handle_connection, under the same laws
  of the abstract per-connection step as the select / poll / epoll loops (`Laws`, `ProgLaws`).
-/
import Mhd.Model.LoopTpc
import Mhd.Proofs.LoopProgress
namespace Mhd.Loop
open Mhd.Gen.Loop
variable {W : Type}

/-! ### the blocking call -/

theorem socketWait_spec (wb : Bool) (c : Conn W) :
    (c.loc.eli = .cleanup ∧ socketWait wb c = none) ∨
    (∃ b, socketWait wb c = some b ∧ b.onItc = false ∧
      (c.loc.eli.hasProcess = true → b.wait = .zero) ∧
      (b.wait = .forever → c.loc.eli.hasProcess = false) ∧ b.wait ≠ .bounded250 ∧
      (c.loc.eli.hasRead = true → b.r = true) ∧ (c.loc.eli.isWrite = true → b.w = true)) := by
  have hw : ∀ e : Eli, ∀ w : TWait,
      w = (if e.hasProcess then TWait.zero else if c.tmo > 0 then TWait.deadline
           else if wb && e.isWrite then TWait.bounded1000 else TWait.forever) →
      (e.hasProcess = true → w = .zero) ∧ (w = .forever → e.hasProcess = false) ∧ w ≠ .bounded250 := by
    intro e w hw
    subst hw
    cases hp : e.hasProcess
    · by_cases ht : c.tmo > 0
      · simp [ht]
      · cases hq : (wb && e.isWrite) <;> simp [ht, hq]
    · simp
  unfold socketWait
  cases h : c.loc.eli
  case cleanup => left; exact ⟨rfl, rfl⟩
  all_goals
    right
    refine ⟨_, rfl, rfl, ?_⟩
    simp only []
    have := hw c.loc.eli _ (by rw [h])
    rw [h] at this
    refine ⟨this.1, this.2.1, this.2.2, ?_, ?_⟩ <;> intro hp <;> first | trivial | exact absurd hp (by decide)

/-! ### the invariant between iterations -/

/-- what the connection's thread relies on between two iterations:
    `sync`   — an active connection that is past the post-resume idle call is in sync;
    `marked` — (only for a loop that marks early) a suspended connection is known to be suspended. -/
structure TInv (needs : Local W → Bool) (early : Bool) (t : TState W) : Prop where
  sync : t.wh = .active → t.wasSuspended = false → Sync needs t.c
  marked : early = true → t.wh = .susp → t.wasSuspended = true

/-- the daemon thread may process a resume now without the connection's thread missing it -/
def Noticed (early : Bool) (t : TState W) : Prop := early = true ∨ (t.wh = .susp → t.wasSuspended = true)

section
variable {ops : Ops W} {needs : Local W → Bool}

/-- the state and the blocking call the thread reaches from the loop head (loop with the re-check) -/
structure HeadOK (needs : Local W → Bool) (t1 : TState W) (b : TBlock) : Prop where
  susp : t1.wh = .susp → b = suspendedWait ∧ t1.wasSuspended = true
  sock : t1.wh ≠ .susp → socketWait t1.selBounded t1.c = some b ∧ t1.wasSuspended = false
  sync : t1.wh = .active → Sync needs t1.c

theorem tpcExit_none (ops : Ops W) (t : TState W) : (tpcExit ops t).2 = none := by
  unfold tpcExit; split <;> rfl

theorem tpcExit_ne_some (ops : Ops W) (t t1 : TState W) (b : TBlock) : tpcExit ops t ≠ (t1, some b) := by
  intro h
  have := tpcExit_none ops t
  rw [h] at this; cases this

theorem tpcHead_ok (L : Laws ops needs) (early : Bool) {t : TState W} (h : TInv needs early t)
    {t1 : TState W} {b : TBlock} (hb : tpcHeadWith ops true early t = (t1, some b)) : HeadOK needs t1 b := by
  unfold tpcHeadWith at hb
  by_cases hc : t.c.loc.st = stClosed
  · rw [if_pos hc] at hb
    have := tpcExit_none ops t
    rw [hb] at this; cases this
  rw [if_neg hc] at hb
  by_cases hs : t.wh = .susp
  · rw [if_pos hs] at hb
    cases hb
    exact ⟨fun _ => ⟨rfl, rfl⟩, fun hn => absurd hs hn, fun ha => by rw [show ({ t with wasSuspended := true } : TState W).wh = t.wh from rfl, hs] at ha; cases ha⟩
  rw [if_neg hs] at hb
  cases hws : t.wasSuspended
  · -- straight to the socket
    simp only [hws, Bool.false_eq_true, if_false] at hb
    cases hb' : socketWait t.selBounded t.c with
    | none => rw [hb'] at hb; cases hb
    | some b' =>
      rw [hb'] at hb; cases hb
      exact ⟨fun e => absurd e hs, fun _ => ⟨hb', hws⟩, fun ha => h.sync ha hws⟩
  · simp only [hws, if_true] at hb
    generalize hsd : doIdle ops false { c := t.c, wh := t.wh, evs := [] } = s at hb
    by_cases hr : s.wh = .susp
    · simp only [hr, Bool.true_and, decide_true, if_true] at hb
      by_cases hc2 : s.c.loc.st = stClosed
      · rw [if_pos hc2] at hb
        exact absurd hb (tpcExit_ne_some ops _ _ _)
      · rw [if_neg hc2] at hb
        cases hb
        exact ⟨fun _ => ⟨rfl, rfl⟩, fun hn => absurd rfl hn, fun ha => by cases ha⟩
    · simp only [hr, decide_false, Bool.and_false, Bool.false_eq_true, if_false] at hb
      cases hb' : socketWait t.selBounded s.c with
      | none => rw [hb'] at hb; cases hb
      | some b' =>
        rw [hb'] at hb; cases hb
        refine ⟨fun e => absurd e hr, fun _ => ⟨hb', rfl⟩, fun ha => ?_⟩
        have ha' : s.wh = .active := ha
        intro hn
        have hn' : needs s.c.loc = true := hn
        show s.c.loc.eli.hasProcess = true
        rw [← hsd, doIdle_loc] at hn' ⊢
        rw [← hsd, doIdle_wh] at ha'
        exact L.idle_sync _ _ _ _ ha' hn'

theorem tpcHead_inv (L : Laws ops needs) (early : Bool) {t : TState W} (h : TInv needs early t)
    {t1 : TState W} {b : TBlock} (hb : tpcHeadWith ops true early t = (t1, some b)) : TInv needs early t1 := by
  have H := tpcHead_ok L early h hb
  exact ⟨fun ha _ => H.sync ha, fun _ hs => (H.susp hs).2⟩

theorem tpcTail_inv (L : Laws ops needs) (early : Bool) {t1 : TState W} (h : TInv needs early t1) (b : TBlock) (rr wr er : Bool) :
    TInv needs early (tpcTailWith ops early t1 b rr wr er) := by
  unfold tpcTailWith
  cases b.onItc
  · simp only [Bool.false_eq_true, if_false]
    refine ⟨fun ha _ => chLocal_sync L false t1.c t1.wh rr wr er ha, fun he hs => ?_⟩
    have hs' : (chLocal ops false t1.c t1.wh rr wr er).wh = .susp := hs
    show (t1.wasSuspended || (early && decide ((chLocal ops false t1.c t1.wh rr wr er).wh = .susp))) = true
    simp [he, hs']
  · simpa using h

theorem tpcIter_inv (L : Laws ops needs) (early : Bool) {t t' : TState W} (h : TInv needs early t) {rr wr er : Bool}
    (hi : tpcIterWith ops true early t rr wr er = some t') : TInv needs early t' := by
  unfold tpcIterWith at hi
  generalize hh : tpcHeadWith ops true early t = r at hi
  obtain ⟨t1, ob⟩ := r
  cases ob with
  | none => simp at hi
  | some b =>
    simp only [Option.some.injEq] at hi
    rw [← hi]
    exact tpcTail_inv L early (tpcHead_inv L early h hh) b rr wr er

theorem tpcResumed_inv (early : Bool) {t : TState W} (h : TInv needs early t) (hn : Noticed early t) :
    TInv needs early (tpcResumed t) := by
  unfold tpcResumed
  by_cases hs : t.wh = .susp
  · rw [if_pos hs]
    have hws : t.wasSuspended = true := by
      rcases hn with he | hn
      · exact h.marked he hs
      · exact hn hs
    refine ⟨fun _ hf => ?_, fun _ hx => ?_⟩
    · have hf' : t.wasSuspended = false := hf
      rw [hws] at hf'; cases hf'
    · cases hx
  · rw [if_neg hs]; exact h

/-- states of a connection's thread reachable from its creation by iterations with arbitrary readiness and by
    resumes the daemon thread processes — at any moment if the loop marks early, else only once the thread has
    noticed the suspension -/
inductive TReach (ops : Ops W) (needs : Local W → Bool) (early : Bool) : TState W → Prop where
  | init (c : Conn W) (h : Sync needs c) : TReach ops needs early { c := c, wh := .active }
  | iter {t t' : TState W} (rr wr er : Bool) : TReach ops needs early t → tpcIterWith ops true early t rr wr er = some t' →
      TReach ops needs early t'
  | resumed {t : TState W} : TReach ops needs early t → Noticed early t → TReach ops needs early (tpcResumed t)

theorem treach_inv (L : Laws ops needs) {early : Bool} {t : TState W} (h : TReach ops needs early t) : TInv needs early t := by
  induction h with
  | init c hc => exact ⟨fun _ _ => hc, fun _ hs => by cases hs⟩
  | iter rr wr er _ hi ih => exact tpcIter_inv L early ih hi
  | resumed _ hn ih => exact tpcResumed_inv early ih hn

/-- **No lost wake-up, thread-per-connection.** -/
theorem tpc_nlw (L : Laws ops needs) (early : Bool) {t : TState W} (h : TInv needs early t)
    {t1 : TState W} {b : TBlock} (hb : tpcHeadWith ops true early t = (t1, some b)) :
    (t1.wh = .susp → b = suspendedWait) ∧
    (t1.wh = .active → b.onItc = false ∧ (needs t1.c.loc = true → b.wait = .zero) ∧
        (t1.c.loc.eli.hasRead = true → b.r = true) ∧ (t1.c.loc.eli.isWrite = true → b.w = true)) ∧
    (b.wait = .forever → t1.wh ≠ .susp ∧ (t1.wh = .active → needs t1.c.loc = false)) := by
  have H := tpcHead_ok L early h hb
  have key : t1.wh ≠ .susp → b.onItc = false ∧ (t1.c.loc.eli.hasProcess = true → b.wait = .zero) ∧
      (b.wait = .forever → t1.c.loc.eli.hasProcess = false) ∧
      (t1.c.loc.eli.hasRead = true → b.r = true) ∧ (t1.c.loc.eli.isWrite = true → b.w = true) := by
    intro hn
    have hsw := (H.sock hn).1
    rcases socketWait_spec t1.selBounded t1.c with ⟨_, e⟩ | ⟨b', e, h1, h2, h4, _, h6, h7⟩
    · rw [e] at hsw; cases hsw
    · rw [e] at hsw; cases hsw
      exact ⟨h1, h2, h4, h6, h7⟩
  refine ⟨fun hs => (H.susp hs).1, fun ha => ?_, fun hf => ?_⟩
  · have hn : t1.wh ≠ .susp := by rw [ha]; decide
    obtain ⟨k1, k2, _, k4, k5⟩ := key hn
    exact ⟨k1, fun hnd => k2 (H.sync ha hnd), k4, k5⟩
  · have hn : t1.wh ≠ .susp := by
      intro hs
      rw [(H.susp hs).1] at hf
      cases hf
    refine ⟨hn, fun ha => ?_⟩
    have := (key hn).2.2.1 hf
    cases hnd : needs t1.c.loc with
    | false => rfl
    | true => rw [H.sync ha hnd] at this; cases this

/-- a resumed connection is passed through handle_idle before its thread blocks again -/
theorem tpc_resumed_idles (recheck early : Bool) {t : TState W} (hc : t.c.loc.st ≠ stClosed) (hw : t.wh ≠ .susp)
    (hs : t.wasSuspended = true) :
    ∃ evs, (tpcHeadWith ops recheck early t).1.log = evs ++ t.log ∧ Ev.idle t.c.id ∈ evs := by
  unfold tpcHeadWith
  rw [if_neg hc, if_neg hw]
  simp only [hs, if_true]
  split
  · split
    · unfold tpcExit
      split
      · exact ⟨[Ev.idle t.c.id], rfl, List.mem_cons_self⟩
      · exact ⟨[Ev.idle (doIdle ops false { c := t.c, wh := t.wh, evs := [] }).c.id, Ev.idle t.c.id], rfl, by simp⟩
    · exact ⟨[Ev.idle t.c.id], rfl, List.mem_cons_self⟩
  · exact ⟨[Ev.idle t.c.id], rfl, List.mem_cons_self⟩

/-! ### progress -/

variable {awaiting : Local W → Bool} {replies rank : Local W → Nat}

/-- one iteration with fair readiness on a connection that awaits its reply: the thread leaves the loop (closed),
    or the connection left the active list, or the reply is complete, or the measure decreased -/
theorem tpc_progress_iter (L : Laws ops needs) (PL : ProgLaws ops awaiting replies rank) (recheck early : Bool) {t : TState W}
    (hw : t.wh = .active) (hs : t.wasSuspended = false) (ha : awaiting t.c.loc = true)
    (he : t.c.loc.eli = .process ∨ t.c.loc.eli = .write) (rr wr : Bool) (hfair : t.c.loc.eli = .write → wr = true) :
    match tpcIterWith ops recheck early t rr wr false with
    | none => True
    | some t' => t'.wh ≠ .active ∨ replies t.c.loc < replies t'.c.loc ∨
        (awaiting t'.c.loc = true ∧ replies t'.c.loc = replies t.c.loc ∧ rank t'.c.loc < rank t.c.loc ∧
          (t'.c.loc.eli = .process ∨ t'.c.loc.eli = .write) ∧ t'.wasSuspended = false) := by
  unfold tpcIterWith tpcHeadWith
  by_cases hc : t.c.loc.st = stClosed
  · rw [if_pos hc]
    have := tpcExit_none ops t
    generalize tpcExit ops t = r at this
    obtain ⟨r1, r2⟩ := r
    simp only at this
    subst this
    trivial
  rw [if_neg hc, if_neg (by rw [hw]; decide)]
  simp only [hs, Bool.false_eq_true, if_false]
  rcases socketWait_spec t.selBounded t.c with ⟨e, _⟩ | ⟨b, e, hb, _⟩
  · rcases he with h | h <;> rw [h] at e <;> cases e
  · rw [e]
    show _ ∨ _ ∨ _
    unfold tpcTailWith
    simp only [hb, Bool.false_eq_true, if_false]
    have P := chLocal_progress L PL t.c rr wr ha he hfair
    rw [hw]
    rcases P with P | P | ⟨p1, p2, p3, p4⟩
    · exact Or.inl P
    · exact Or.inr (Or.inl P)
    · by_cases hact : (chLocal ops false t.c .active rr wr false).wh = .active
      · refine Or.inr (Or.inr ⟨p1, p2, p3, p4, ?_⟩)
        show (t.wasSuspended || (early && decide ((chLocal ops false t.c .active rr wr false).wh = .susp))) = false
        simp [hs, hact]
      · exact Or.inl hact

/-- what can happen to a connection's thread -/
inductive TStep where
  | iter (rr wr er : Bool)     -- its blocking call returns with this readiness of the socket
  | resumed                    -- the daemon thread processes a resume of this connection
  deriving Repr, DecidableEq

def tpcStep (ops : Ops W) (recheck early : Bool) (t : TState W) : TStep → Option (TState W)
  | .iter rr wr er => tpcIterWith ops recheck early t rr wr er
  | .resumed => some (tpcResumed t)

/-- `none` = the thread has left the loop (the connection is closed) -/
def tpcRun (ops : Ops W) (recheck early : Bool) : TState W → List TStep → Option (TState W)
  | t, [] => some t
  | t, s :: H => match tpcStep ops recheck early t s with
    | none => none
    | some t' => tpcRun ops recheck early t' H

def nIters : List TStep → Nat
  | [] => 0
  | .iter _ _ _ :: H => nIters H + 1
  | .resumed :: H => nIters H

/-- fair for this connection: whenever its thread's blocking call returns, the socket is reported writable if the
    connection waits for writability, and no socket error is reported -/
def TFair (ops : Ops W) (recheck early : Bool) : TState W → List TStep → Prop
  | _, [] => True
  | t, .resumed :: H => TFair ops recheck early (tpcResumed t) H
  | t, .iter rr wr er :: H => ((t.c.loc.eli = .write → wr = true) ∧ er = false) ∧
      ∀ t', tpcIterWith ops recheck early t rr wr er = some t' → TFair ops recheck early t' H

theorem tpc_progress_run (L : Laws ops needs) (PL : ProgLaws ops awaiting replies rank) (recheck early : Bool) :
    ∀ (H : List TStep) (t : TState W), t.wh = .active → t.wasSuspended = false → awaiting t.c.loc = true →
      (t.c.loc.eli = .process ∨ t.c.loc.eli = .write) → TFair ops recheck early t H → rank t.c.loc < nIters H →
      ∃ H1 H2, H = H1 ++ H2 ∧
        match tpcRun ops recheck early t H1 with
        | none => True
        | some t' => t'.wh ≠ .active ∨ replies t.c.loc < replies t'.c.loc := by
  intro H
  induction H with
  | nil => intro t _ _ _ _ _ hr; simp [nIters] at hr
  | cons st H' ih =>
    intro t hw hs ha he hf hr
    cases st with
    | resumed =>
      have hid : tpcResumed t = t := by unfold tpcResumed; rw [if_neg (by rw [hw]; decide)]
      simp only [TFair, hid] at hf
      obtain ⟨H1, H2, e, hh⟩ := ih t hw hs ha he hf (by simpa [nIters] using hr)
      refine ⟨.resumed :: H1, H2, by rw [e]; rfl, ?_⟩
      simpa [tpcRun, tpcStep, hid] using hh
    | iter rr wr er =>
      obtain ⟨⟨hfw, hfe⟩, hf'⟩ := hf
      subst hfe
      have P := tpc_progress_iter L PL recheck early hw hs ha he rr wr hfw
      cases hi : tpcIterWith ops recheck early t rr wr false with
      | none =>
        refine ⟨[.iter rr wr false], H', rfl, ?_⟩
        simp [tpcRun, tpcStep, hi]
      | some t' =>
        rw [hi] at P
        rcases P with P | P | ⟨p1, p2, p3, p4, p5⟩
        · refine ⟨[.iter rr wr false], H', rfl, ?_⟩
          simp only [tpcRun, tpcStep, hi]
          exact Or.inl P
        · refine ⟨[.iter rr wr false], H', rfl, ?_⟩
          simp only [tpcRun, tpcStep, hi]
          exact Or.inr P
        · by_cases hact : t'.wh = .active
          · have hr' : rank t'.c.loc < nIters H' := by simp only [nIters] at hr; omega
            obtain ⟨H1, H2, e, hh⟩ := ih t' hact p5 p1 p4 (hf' t' hi) hr'
            refine ⟨.iter rr wr false :: H1, H2, by rw [e]; rfl, ?_⟩
            simp only [tpcRun, tpcStep, hi]
            rw [p2] at hh
            exact hh
          · refine ⟨[.iter rr wr false], H', rfl, ?_⟩
            simp only [tpcRun, tpcStep, hi]
            exact Or.inl hact

end

end Mhd.Loop

namespace Mhd.Loop
open Mhd.Gen.Loop
variable {W : Type}

/-! ### the daemon thread's cycle -/

/-- a cycle that calls resume_suspended_connections resumes every connection marked by MHD_resume_connection -/
theorem tpcDaemonCycle_resumes {ths : List (TThread W)} {th : TThread W} (hm : th ∈ ths) (hr : th.resuming = true) :
    ({ t := tpcResumed th.t, resuming := false } : TThread W) ∈ tpcDaemonCycleWith true ths := by
  unfold tpcDaemonCycleWith
  simp only [if_true]
  exact List.mem_map.mpr ⟨th, hm, by simp [hr]⟩

theorem tpcResumed_active {t : TState W} (h : t.wh = .susp) : (tpcResumed t).wh = .active := by
  unfold tpcResumed; rw [if_pos h]

/-- a suspended connection's thread only re-checks: an iteration leaves it where it is -/
theorem tpcIter_suspended (ops : Ops W) (recheck early : Bool) {t : TState W} (hs : t.wh = .susp) (hc : t.c.loc.st ≠ stClosed)
    (rr wr er : Bool) : tpcIterWith ops recheck early t rr wr er = some { t with wasSuspended := true } := by
  unfold tpcIterWith tpcHeadWith
  rw [if_neg hc, if_pos hs]
  rfl

/-- one round of a daemon whose thread does not call resume_suspended_connections: the connection's thread runs an
    iteration (its bounded wait expired), the daemon thread runs a cycle -/
def tpcDeafRound (ops : Ops W) (recheck early : Bool) (th : TThread W) : TThread W :=
  match tpcIterWith ops recheck early th.t false false false with
  | some t' => (tpcDaemonCycleWith false [{ th with t := t' }]).headD th
  | none => th

def tpcDeafRounds (ops : Ops W) (recheck early : Bool) : Nat → TThread W → TThread W
  | 0, th => th
  | n + 1, th => tpcDeafRounds ops recheck early n (tpcDeafRound ops recheck early th)

/-- … so with a daemon thread that never calls resume_suspended_connections the connection stays suspended for ever,
    whatever MHD_resume_connection marked -/
theorem tpc_never_resumed (ops : Ops W) (recheck early : Bool) :
    ∀ (n : Nat) (th : TThread W), th.t.wh = .susp → th.t.c.loc.st ≠ stClosed →
      (tpcDeafRounds ops recheck early n th).t.wh = .susp ∧ (tpcDeafRounds ops recheck early n th).resuming = th.resuming := by
  intro n
  induction n with
  | zero => intro th hs _; exact ⟨hs, rfl⟩
  | succ k ih =>
    intro th hs hc
    have e : tpcDeafRound ops recheck early th = { th with t := { th.t with wasSuspended := true } } := by
      unfold tpcDeafRound
      rw [tpcIter_suspended ops recheck early hs hc]
      rfl
    show (tpcDeafRounds ops recheck early k (tpcDeafRound ops recheck early th)).t.wh = .susp ∧
      (tpcDeafRounds ops recheck early k (tpcDeafRound ops recheck early th)).resuming = th.resuming
    rw [e]
    exact ih { th with t := { th.t with wasSuspended := true } } hs hc

end Mhd.Loop

namespace Mhd.Loop
open Mhd.Gen.Loop

/-! a lawful instance of the abstract step for the thread-per-connection witnesses: `w` = "the application has
    a reply ready for this connection".  The access handler suspends the connection in the idle calls number 1
    and (if `again`) number 2 of the connection; once resumed, the next idle call queues the reply (WRITE). -/
namespace TpcWitness

def ops (again : Bool) : Ops Bool where
  read := fun _ _ f l => if f then { l with st := stClosed, eli := .cleanup } else l
  write := fun _ _ l => l
  close := fun _ _ l => l
  idle := fun _ k wh l =>
    if l.st = stClosed then (l, .cleanup)
    else if wh = .active then
      if k = 1 ∨ (again = true ∧ k = 2) then ({ l with w := true }, .susp)     -- suspended: the wait state stays stale
      else if l.w then ({ l with eli := .write, w := false }, wh)
      else (l, wh)
    else (l, wh)

/-- work that needs no network input: a reply is ready, or the connection is in a PROCESS state -/
def needs (l : Local Bool) : Bool := l.w || l.eli.hasProcess

theorem laws (again : Bool) : Laws (ops again) needs where
  idle_sync := by
    intro id k wh l h hn
    simp only [ops] at h hn ⊢
    by_cases h1 : l.st = stClosed
    · simp only [h1, if_true] at h; cases h
    · simp only [h1, if_false] at h hn ⊢
      by_cases h2 : wh = .active
      · simp only [h2, if_true] at h hn ⊢
        by_cases h3 : k = 1 ∨ (again = true ∧ k = 2)
        · simp only [h3, if_true] at h; cases h
        · simp only [h3, if_false] at h hn ⊢
          by_cases h4 : l.w = true
          · simp only [h4, if_true] at hn; simp [needs] at hn; cases hn
          · simp only [h4, Bool.false_eq_true, if_false] at hn ⊢
            simpa [needs, h4] using hn
      · simp only [h2, if_false] at h
  idle_closed := by intro id k l h; simp [ops, h]
  read_force := by intro id k l; simp [ops]
  idle_where := by
    intro id k wh l h
    simp only [ops]
    by_cases h1 : l.st = stClosed
    · simp [h1]
    · simp only [h1, if_false, h]; exact h

def c0 : Conn Bool := { id := 0, loc := { st := stInit, eli := .read, rdReady := false, wrReady := false, bufSpace := true, w := false } }
def t0 : TState Bool := { c := c0, wh := .active }

end TpcWitness
end Mhd.Loop
