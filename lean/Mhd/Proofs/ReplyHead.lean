import Mhd.Proofs.ReplyParse
import Mhd.Proofs.RespInv
import Mhd.Model.ReplyWire
set_option linter.unusedSimpArgs false
set_option linter.unusedVariables false
namespace Mhd.Reply
open Mhd.ReplyStr Mhd.Resp

def toHttp (f : Field) : Mhd.Http.Field := ⟨f.name, f.value⟩

theorem fieldLine_http (f : Field) : fieldLine f = Mhd.Http.fieldLine (toHttp f) := by
  simp [fieldLine, Mhd.Http.fieldLine, toHttp, colonSp, crlf, List.append_assoc]

theorem render_http (fs : List Field) : (fs.map fieldLine).flatten = Mhd.Http.renderFields (fs.map toHttp) := by
  unfold Mhd.Http.renderFields
  induction fs with
  | nil => rfl
  | cons f t ih => simp [fieldLine_http, ih]

theorem runSegs_eq (bs : Nat) : ∀ (segs : List Seg) (buf out : Bytes), runSegs bs segs buf = some out →
    out = buf ++ (segs.map (·.piece)).flatten
  | [], buf, out, h => by simp [runSegs] at h; simp [h]
  | s :: rest, buf, out, h => by
    simp only [runSegs, appendChk] at h
    by_cases hc : bs < buf.length + s.need
    · simp [hc] at h
    · simp only [hc, if_false] at h
      have := runSegs_eq bs rest _ out h
      simp [this, List.append_assoc]

/-- the automatic body headers as fields -/
def bodyFields (r : Resp) (props : Props) : List Field :=
  if props.useReplyBodyHeaders && ! r.flags.headOnly then
    (if props.chunked then (if ! r.fa.transEnc then [⟨sTransferEncoding, sChunked⟩] else [])
     else if r.totalSize != Mhd.Gen.Reply.sizeUnknown then
       (if ! r.fa.contentLength then [⟨sContentLength, sizeDigits r.totalSize⟩] else [])
     else [])
  else []

theorem bodyHdrSegs_pieces (r : Resp) (props : Props) :
    ((bodyHdrSegs r props).map (·.piece)).flatten = ((bodyFields r props).map fieldLine).flatten := by
  unfold bodyHdrSegs bodyFields
  split
  · split
    · split <;> simp [segStr]
    · split
      · split <;> simp [segStr, fieldLine, List.append_assoc]
      · rfl
  · rfl

/-- every field of the header block, in wire order -/
def allFields (c : Conn) (r : Resp) (date : Option Bytes) (ka : KA) (props : Props) : List Field :=
  dateFields c r date ++ connFields c r ka ++ userFields c r ka props ++ bodyFields r props

theorem map_fieldSeg_pieces (fs : List Field) : ((fs.map fieldSeg).map (·.piece)).flatten = (fs.map fieldLine).flatten := by
  induction fs with
  | nil => rfl
  | cons f t ih =>
    simp only [List.map_cons, List.flatten_cons, ih]
    simp [fieldSeg, segStr]

theorem dateSegs_pieces (c : Conn) (r : Resp) (date : Option Bytes) :
    ((dateSegs c r date).map (·.piece)).flatten = ((dateFields c r date).map fieldLine).flatten := by
  unfold dateSegs dateFields
  split <;> simp

theorem headSegs_pieces (c : Conn) (r : Resp) (rcode : Nat) (icy : Bool) (date : Option Bytes) (ka : KA) (props : Props) :
    ((headSegs c r rcode icy date ka props).map (·.piece)).flatten =
      versionStr r icy ++ 32 :: (codeDigits rcode ++ 32 :: (reasonPhrase rcode ++ 13 :: 10 ::
        (Mhd.Http.renderFields ((allFields c r date ka props).map toHttp) ++ [13, 10]))) := by
  rw [← render_http]
  unfold headSegs allFields
  simp only [List.map_append, List.flatten_append, map_fieldSeg_pieces, dateSegs_pieces, bodyHdrSegs_pieces]
  simp [segStr, crlf, List.append_assoc]

/-! ### what `add_user_headers` emits -/

def fcnt (key : Bytes) (fs : List Field) : Nat := (fs.filter fun f => nameIs f.name key).length

theorem fcnt_cons (key : Bytes) (f : Field) (t : List Field) : fcnt key (f :: t) = b2n (nameIs f.name key) + fcnt key t := by
  unfold fcnt b2n; by_cases h : nameIs f.name key = true <;> simp [List.filter, h]; omega

theorem fcnt_append (key : Bytes) (a b : List Field) : fcnt key (a ++ b) = fcnt key a + fcnt key b := by
  unfold fcnt; simp [List.filter_append]

theorem cnt_cons_nonhdr (k : Bytes) (h : Hdr) (t : List Hdr) (hk : (h.kind != Kind.header) = true) : cnt k (h :: t) = cnt k t := by
  rw [cnt_cons, isHdr_of]
  have : (h.kind == Kind.header) = false := by cases hx : h.kind <;> simp_all
  simp [this, b2n]

theorem cnt_cons_hdr (k : Bytes) (h : Hdr) (t : List Hdr) (hk : ¬ (h.kind != Kind.header) = true) :
    cnt k (h :: t) = b2n (nameIs h.name k) + cnt k t := by
  rw [cnt_cons, isHdr_of]
  have : (h.kind == Kind.header) = true := by cases hx : h.kind <;> simp_all
  simp [this]

/-- how many Transfer-Encoding / Content-Length / Connection fields the loop emits -/
theorem userLoop_counts : ∀ (hs : List Hdr) (st : UH),
    fcnt sTransferEncoding (userFieldsLoop false hs st) = (if st.filterTE then cnt sTransferEncoding hs - 1 else cnt sTransferEncoding hs) ∧
    fcnt sContentLength (userFieldsLoop false hs st) = (if st.filterCL then 0 else cnt sContentLength hs) ∧
    fcnt sConnection (userFieldsLoop false hs st) = cnt sConnection hs
  | [], st => by simp [userFieldsLoop, fcnt, cnt]
  | h :: rest, st => by
    simp only [userFieldsLoop]
    by_cases hk : (h.kind != Kind.header) = true
    · simp only [hk, if_true, cnt_cons_nonhdr _ h rest hk]
      exact userLoop_counts rest st
    · simp only [hk, Bool.false_eq_true, if_false, cnt_cons_hdr _ h rest hk]
      by_cases h1 : (st.filterTE && nameIs h.name sTransferEncoding) = true
      · simp only [h1, if_true]
        rw [Bool.and_eq_true] at h1
        obtain ⟨i1, i2, i3⟩ := userLoop_counts rest { st with filterTE := false }
        simp only [Bool.false_eq_true, if_false] at i1 i2 i3
        refine ⟨?_, ?_, ?_⟩
        · rw [i1, h1.1, h1.2]; simp [b2n]
        · rw [i2, nameIs_excl _ _ _ h1.2 lenNe_TL]; simp [b2n]
        · rw [i3, nameIs_excl _ _ _ h1.2 lenNe_CT.symm]; simp [b2n]
      · simp only [h1, Bool.false_eq_true, if_false]
        by_cases h2 : (st.filterCL && nameIs h.name sContentLength) = true
        · simp only [h2, if_true, Bool.not_false]
          rw [Bool.and_eq_true] at h2
          obtain ⟨i1, i2, i3⟩ := userLoop_counts rest { st with filterCL := true }
          simp only [if_true] at i1 i2 i3
          refine ⟨?_, ?_, ?_⟩
          · rw [i1, nameIs_excl _ _ _ h2.2 lenNe_TL.symm]; simp [b2n]
          · rw [i2, h2.1]; simp
          · rw [i3, nameIs_excl _ _ _ h2.2 lenNe_CL.symm]; simp [b2n]
        · simp only [h2, Bool.false_eq_true, if_false]
          obtain ⟨i1, i2, i3⟩ := userLoop_counts rest { st with addClose := false, addKA := false }
          simp only at i1 i2 i3
          simp only [fcnt_cons]
          refine ⟨?_, ?_, ?_⟩
          · rw [i1]
            by_cases hf : st.filterTE = true
            · have : nameIs h.name sTransferEncoding = false := by
                cases hx : nameIs h.name sTransferEncoding with
                | false => rfl
                | true => exfalso; apply h1; simp [hf, hx]
              simp [hf, this, b2n]
            · simp [hf]
          · rw [i2]
            by_cases hf : st.filterCL = true
            · have : nameIs h.name sContentLength = false := by
                cases hx : nameIs h.name sContentLength with
                | false => rfl
                | true => exfalso; apply h2; simp [hf, hx]
              simp [hf, this, b2n]
            · simp [hf]
          · rw [i3]

/-- once the close / Keep-Alive token has been placed, every emitted field is a stored header, verbatim -/
theorem userLoop_verbatim : ∀ (hs : List Hdr) (st : UH), st.addClose = false → st.addKA = false →
    ∀ f ∈ userFieldsLoop false hs st, ∃ h ∈ hs, h.kind = .header ∧ f = ⟨h.name, h.value⟩
  | [], st, _, _, f, hf => by simp [userFieldsLoop] at hf
  | h :: rest, st, ha, hb, f, hf => by
    simp only [userFieldsLoop] at hf
    by_cases hk : (h.kind != Kind.header) = true
    · simp only [hk, if_true] at hf
      obtain ⟨x, hx, hy⟩ := userLoop_verbatim rest st ha hb f hf
      exact ⟨x, by simp [hx], hy⟩
    · simp only [hk, Bool.false_eq_true, if_false] at hf
      have hkk : h.kind = .header := by cases hx : h.kind <;> simp_all
      split at hf
      · obtain ⟨x, hx, hy⟩ := userLoop_verbatim rest { st with filterTE := false } ha hb f hf
        exact ⟨x, by simp [hx], hy⟩
      · split at hf
        · obtain ⟨x, hx, hy⟩ := userLoop_verbatim rest { st with filterCL := !false } ha hb f hf
          exact ⟨x, by simp [hx], hy⟩
        · simp only [ha, hb, Bool.false_eq_true, if_false, List.nil_append, List.mem_cons] at hf
          rcases hf with rfl | hf
          · exact ⟨h, by simp, hkk, rfl⟩
          · obtain ⟨x, hx, hy⟩ := userLoop_verbatim rest _ rfl rfl f hf
            exact ⟨x, by simp [hx], hy⟩

/-- the leading Connection header takes the close / Keep-Alive token -/
theorem userLoop_connHead (v : Bytes) (rest : List Hdr) (st : UH) :
    userFieldsLoop false (⟨.header, sConnection, v⟩ :: rest) st =
      ⟨sConnection, (if st.addClose then sCloseSep else if st.addKA then sKeepAliveSep else []) ++ v⟩ ::
        userFieldsLoop false rest { st with addClose := false, addKA := false } := by
  simp [userFieldsLoop, nameIs_conn_te, nameIs_conn_cl]
end Mhd.Reply
