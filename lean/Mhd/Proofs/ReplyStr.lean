/- Helper lemmas about the string functions of Mhd.Model.ReplyStr: length of caseless-equal strings and
   "no new bytes": the token editors only copy input bytes or write ',' and ' '. -/
import Mhd.Model.ReplyStr
set_option linter.unusedSimpArgs false
set_option linter.unusedVariables false
namespace Mhd.ReplyStr

theorem strEqCaseless_length : ∀ (a b : Bytes), strEqCaseless a b = true → a.length = b.length
  | [], b, h => by cases b <;> simp_all [strEqCaseless]
  | _ :: _, [], h => by simp [strEqCaseless] at h
  | c1 :: r1, c2 :: r2, h => by
    simp only [strEqCaseless] at h
    split at h
    · simp [strEqCaseless_length r1 r2 h]
    · simp at h

/-- every element satisfies `Q` -/
abbrev AllQ (Q : UInt8 → Prop) (l : Bytes) : Prop := ∀ b ∈ l, Q b

theorem mem_dropWhile (p : UInt8 → Bool) : ∀ (l : Bytes) (b : UInt8), b ∈ l.dropWhile p → b ∈ l
  | [], b, h => by simp at h
  | x :: l, b, h => by
    simp only [List.dropWhile] at h
    split at h
    · exact List.mem_cons_of_mem _ (mem_dropWhile p l b h)
    · exact h

theorem allQ_dropWhile {Q} (p : UInt8 → Bool) (l : Bytes) (h : AllQ Q l) : AllQ Q (l.dropWhile p) :=
  fun b hb => h b (mem_dropWhile p l b hb)
theorem allQ_take {Q} (n : Nat) (l : Bytes) (h : AllQ Q l) : AllQ Q (l.take n) :=
  fun b hb => h b (List.mem_of_mem_take hb)
theorem allQ_drop {Q} (n : Nat) (l : Bytes) (h : AllQ Q l) : AllQ Q (l.drop n) :=
  fun b hb => h b (List.mem_of_mem_drop hb)
theorem allQ_append {Q} (a b : Bytes) (ha : AllQ Q a) (hb : AllQ Q b) : AllQ Q (a ++ b) := by
  intro x hx; rcases List.mem_append.1 hx with h | h
  · exact ha x h
  · exact hb x h
theorem allQ_tail {Q} (c : UInt8) (l : Bytes) (h : AllQ Q (c :: l)) : AllQ Q l :=
  fun b hb => h b (List.mem_cons_of_mem _ hb)
theorem allQ_single {Q} (c : UInt8) (h : Q c) : AllQ Q [c] := by
  intro b hb; simp at hb; subst hb; exact h
theorem allQ_nil {Q} : AllQ Q [] := by intro b hb; cases hb

theorem matchTok_allQ {Q} : ∀ (s tok : Bytes), AllQ Q s → AllQ Q (matchTok s tok).2
  | [], tok, h => by cases tok <;> simpa [matchTok] using h
  | c :: s, [], h => by simpa [matchTok] using h
  | c :: s, t :: ts, h => by
    simp only [matchTok]
    split
    · exact matchTok_allQ s ts (allQ_tail c s h)
    · exact h

theorem copyWord_allQ {Q} (bs : Nat) : ∀ (s out s' out' : Bytes), AllQ Q s → AllQ Q out →
    copyWord bs s out = some (s', out') → AllQ Q s' ∧ AllQ Q out'
  | [], out, s', out', hs, ho, h => by
    simp [copyWord] at h; obtain ⟨rfl, rfl⟩ := h; exact ⟨hs, ho⟩
  | c :: s, out, s', out', hs, ho, h => by
    simp only [copyWord] at h
    split at h
    · simp at h; obtain ⟨rfl, rfl⟩ := h; exact ⟨hs, ho⟩
    · split at h
      · simp at h
      · exact copyWord_allQ bs s (out ++ [c]) s' out' (allQ_tail c s hs)
          (allQ_append _ _ ho (allQ_single c (hs c (by simp)))) h

theorem copyTokenRest_allQ {Q} (bs : Nat) (h32 : Q 32) : ∀ (fuel : Nat) (s out s' out' : Bytes),
    AllQ Q s → AllQ Q out → copyTokenRest bs fuel s out = some (s', out') → AllQ Q s' ∧ AllQ Q out'
  | 0, s, out, s', out', hs, ho, h => by
    simp [copyTokenRest] at h; obtain ⟨rfl, rfl⟩ := h; exact ⟨hs, ho⟩
  | fuel + 1, [], out, s', out', hs, ho, h => by
    simp [copyTokenRest] at h; obtain ⟨rfl, rfl⟩ := h; exact ⟨allQ_nil, ho⟩
  | fuel + 1, c :: t, out, s', out', hs, ho, h => by
    simp only [copyTokenRest] at h
    by_cases hc : (c == 44) = true
    · simp [hc] at h; obtain ⟨rfl, rfl⟩ := h; exact ⟨hs, ho⟩
    · simp only [hc] at h
      cases hcw : copyWord bs (c :: t) out with
      | none => simp [hcw] at h
      | some p =>
        obtain ⟨s1, out1⟩ := p
        have hq := copyWord_allQ bs _ _ _ _ hs ho hcw
        have hd : AllQ Q (s1.dropWhile isWs) := allQ_dropWhile _ _ hq.1
        simp only [hcw] at h
        cases hsw : s1.dropWhile isWs with
        | nil => simp [hsw] at h; obtain ⟨rfl, rfl⟩ := h; exact ⟨allQ_nil, hq.2⟩
        | cons c2 rest =>
          rw [hsw] at hd
          simp only [hsw] at h
          by_cases hc2 : (c2 == 44) = true
          · simp [hc2] at h; obtain ⟨rfl, rfl⟩ := h; exact ⟨hd, hq.2⟩
          · simp only [hc2] at h
            by_cases hsz : bs ≤ out1.length
            · simp [hsz] at h
            · simp only [hsz] at h
              exact copyTokenRest_allQ bs h32 fuel _ _ s' out' hd
                (allQ_append _ _ hq.2 (allQ_single 32 h32)) h

theorem sepBefore_allQ {Q} (bs cs : Nat) (out out1 : Bytes) (h44 : Q 44) (h32 : Q 32) (ho : AllQ Q out)
    (h : sepBefore bs cs out = some out1) : AllQ Q out1 := by
  unfold sepBefore at h
  split at h
  · split at h
    · simp at h
    · simp at h; subst h; exact ho
  · split at h
    · simp at h
    · simp at h; subst h
      exact allQ_append _ _ ho (by intro b hb; simp at hb; rcases hb with rfl | rfl <;> assumption)

theorem copyOneToken_allQ {Q} (bs : Nat) (s1 s' out s'' out2 : Bytes) (h44 : Q 44) (h32 : Q 32)
    (hs1 : AllQ Q s1) (hs' : AllQ Q s') (ho : AllQ Q out)
    (h : copyOneToken bs s1 s' out = some (s'', out2)) : AllQ Q s'' ∧ AllQ Q out2 := by
  unfold copyOneToken at h
  cases hsb : sepBefore bs (s1.length - s'.length) out with
  | none => simp [hsb] at h
  | some out1 =>
    simp only [hsb] at h
    exact copyTokenRest_allQ bs h32 _ _ _ _ _ hs'
      (allQ_append _ _ (sepBefore_allQ _ _ _ _ h44 h32 ho hsb) (allQ_take _ _ hs1)) h

theorem removeTokenLoop_allQ {Q} (bs : Nat) (tok : Bytes) (h44 : Q 44) (h32 : Q 32) :
    ∀ (fuel : Nat) (s out : Bytes) (rem : Bool) (res : RemoveRes),
    AllQ Q s → AllQ Q out → removeTokenLoop bs tok fuel s out rem = some res → AllQ Q res.out
  | 0, s, out, rem, res, hs, ho, h => by
    simp [removeTokenLoop] at h; subst h; exact ho
  | fuel + 1, s, out, rem, res, hs, ho, h => by
    simp only [removeTokenLoop] at h
    have hs1 : AllQ Q (s.dropWhile isWsComma) := allQ_dropWhile _ _ hs
    have hm : AllQ Q (matchTok (s.dropWhile isWsComma) tok).2 := matchTok_allQ _ _ hs1
    have hs3 : AllQ Q ((matchTok (s.dropWhile isWsComma) tok).2.dropWhile isWs) := allQ_dropWhile _ _ hm
    by_cases he : (s.dropWhile isWsComma).isEmpty = true
    · simp [he] at h; subst h; exact ho
    · simp only [he] at h
      by_cases hf : (((matchTok (s.dropWhile isWsComma) tok).1 == tok.length && tok.length != 0) &&
          atEndOrComma ((matchTok (s.dropWhile isWsComma) tok).2.dropWhile isWs)) = true
      · simp only [hf] at h
        exact removeTokenLoop_allQ bs tok h44 h32 fuel _ _ _ res hs3 ho h
      · simp only [hf] at h
        cases hc : copyOneToken bs (s.dropWhile isWsComma) (matchTok (s.dropWhile isWsComma) tok).2 out with
        | none => rw [hc] at h; simp at h
        | some p =>
          obtain ⟨s'', out2⟩ := p
          rw [hc] at h; simp only [] at h
          have hq := copyOneToken_allQ bs _ _ _ _ _ h44 h32 hs1 hm ho hc
          exact removeTokenLoop_allQ bs tok h44 h32 fuel _ _ _ res hq.1 hq.2 h

theorem removeTokenCaseless_allQ {Q} (str tok : Bytes) (bs : Nat) (res : RemoveRes) (h44 : Q 44) (h32 : Q 32)
    (hs : AllQ Q str) (h : removeTokenCaseless str tok bs = some res) : AllQ Q res.out :=
  removeTokenLoop_allQ bs tok h44 h32 _ _ _ _ res hs allQ_nil h

theorem rd_allQ {Q} (s : Bytes) (i : Nat) (c : UInt8) (hs : AllQ Q s) (h : rd s i = some c) : Q c := by
  unfold rd at h
  exact hs c (List.mem_of_getElem? h)

theorem wr_allQ {Q} (s s' : Bytes) (i : Nat) (c : UInt8) (hs : AllQ Q s) (hc : Q c) (h : wr s i c = some s') :
    AllQ Q s' := by
  unfold wr at h
  split at h
  · simp at h; subst h
    intro b hb
    rcases List.mem_or_eq_of_mem_set hb with h1 | h1
    · exact hs b h1
    · subst h1; exact hc
  · simp at h

theorem moveDown_allQ {Q} : ∀ (n : Nat) (s s' : Bytes) (dst src : Nat), AllQ Q s →
    moveDown n s dst src = some s' → AllQ Q s'
  | 0, s, s', dst, src, hs, h => by simp [moveDown] at h; subst h; exact hs
  | n + 1, s, s', dst, src, hs, h => by
    simp only [moveDown, Option.bind_eq_bind, Option.bind_eq_some_iff] at h
    obtain ⟨c, hr, s1, hw, h⟩ := h
    exact moveDown_allQ n s1 s' _ _ (wr_allQ _ _ _ _ hs (rd_allQ _ _ _ hs hr) hw) h

theorem sepWrite_allQ {Q} (s s' : Bytes) (pr pw pw' : Nat) (h44 : Q 44) (h32 : Q 32) (hs : AllQ Q s)
    (h : sepWrite s pr pw = some (s', pw')) : AllQ Q s' := by
  unfold sepWrite at h
  split at h
  · split at h
    · simp only [Option.bind_eq_bind, Option.bind_eq_some_iff] at h
      obtain ⟨s1, hw, s2, hw2, h⟩ := h
      simp at h; obtain ⟨rfl, _⟩ := h
      exact wr_allQ _ _ _ _ (wr_allQ _ _ _ _ hs h44 hw) h32 hw2
    · simp at h; obtain ⟨rfl, _⟩ := h; exact hs
  · simp at h; obtain ⟨rfl, _⟩ := h; exact hs

theorem copyTok_allQ {Q} (len : Nat) : ∀ (fuel : Nat) (s s' : Bytes) (pr pw pr' pw' : Nat), AllQ Q s →
    copyTok len fuel s pr pw = some (s', pr', pw') → AllQ Q s'
  | 0, s, s', pr, pw, pr', pw', hs, h => by simp [copyTok] at h; obtain ⟨rfl, _⟩ := h; exact hs
  | fuel + 1, s, s', pr, pw, pr', pw', hs, h => by
    simp only [copyTok, Option.bind_eq_bind, Option.bind_eq_some_iff] at h
    obtain ⟨s1, h1, h⟩ := h
    have hs1 : AllQ Q s1 := by
      split at h1
      · simp only [Option.bind_eq_some_iff] at h1
        obtain ⟨c, hr, hw⟩ := h1
        exact wr_allQ _ _ _ _ hs (rd_allQ _ _ _ hs hr) hw
      · simp at h1; subst h1; exact hs
    split at h
    · simp only [Option.bind_eq_some_iff] at h
      obtain ⟨d, hr, h⟩ := h
      split at h
      · exact copyTok_allQ len fuel s1 s' _ _ _ _ hs1 h
      · simp at h; obtain ⟨rfl, _⟩ := h; exact hs1
    · simp at h; obtain ⟨rfl, _⟩ := h; exact hs1

theorem passStep_allQ {Q} (tkn : Bytes) (len : Nat) (s s' : Bytes) (pr pw pr' pw' : Nat) (rem rem' : Bool)
    (h44 : Q 44) (h32 : Q 32) (hs : AllQ Q s)
    (h : passStep tkn len s pr pw rem = some (s', pr', pw', rem')) : AllQ Q s' := by
  simp only [passStep, Option.bind_eq_bind, Option.bind_eq_some_iff] at h
  obtain ⟨m, _, h⟩ := h
  split at h
  · simp at h; obtain ⟨rfl, _⟩ := h; exact hs
  · simp only [Option.bind_eq_some_iff] at h
    obtain ⟨⟨sa, pwa⟩, hsw, ⟨sb, prb, pwb⟩, hct, h⟩ := h
    simp at h; obtain ⟨rfl, _⟩ := h
    exact copyTok_allQ _ _ _ _ _ _ _ _ (sepWrite_allQ _ _ _ _ _ h44 h32 hs hsw) hct

theorem passFinish_allQ {Q} (len : Nat) (s s' : Bytes) (pr pw pw' : Nat) (h44 : Q 44) (h32 : Q 32)
    (hs : AllQ Q s) (h : passFinish len s pr pw = some (s', pw')) : AllQ Q s' := by
  unfold passFinish at h
  split at h
  · simp only [Option.bind_eq_bind, Option.bind_eq_some_iff] at h
    obtain ⟨⟨sa, pwa⟩, hsw, sb, hmv, h⟩ := h
    simp at h; obtain ⟨rfl, _⟩ := h
    have hsa := sepWrite_allQ _ _ _ _ _ h44 h32 hs hsw
    split at hmv
    · exact moveDown_allQ _ _ _ _ _ hsa hmv
    · simp at hmv; subst hmv; exact hsa
  · simp at h; obtain ⟨rfl, _⟩ := h; exact hs

theorem removePass_allQ {Q} (tkn : Bytes) (len : Nat) (h44 : Q 44) (h32 : Q 32) :
    ∀ (fuel : Nat) (s s' : Bytes) (pr pw pw' : Nat) (rem rem' : Bool), AllQ Q s →
    removePass tkn len fuel s pr pw rem = some (s', pw', rem') → AllQ Q s'
  | 0, s, s', pr, pw, pw', rem, rem', hs, h => by simp [removePass] at h; obtain ⟨rfl, _⟩ := h; exact hs
  | fuel + 1, s, s', pr, pw, pw', rem, rem', hs, h => by
    simp only [removePass] at h
    cases hp : passStep tkn len s pr pw rem with
    | none => rw [hp] at h; simp at h
    | some q =>
      obtain ⟨s1, pr1, pw1, rem1⟩ := q
      rw [hp] at h; simp only [] at h
      have hs1 := passStep_allQ _ _ _ _ _ _ _ _ _ _ h44 h32 hs hp
      split at h
      · cases hf : passFinish len s1 pr1 pw1 with
        | none => rw [hf] at h; simp at h
        | some q2 =>
          obtain ⟨sb, pwb⟩ := q2
          rw [hf] at h; simp at h; obtain ⟨rfl, _⟩ := h
          exact passFinish_allQ _ _ _ _ _ _ h44 h32 hs1 hf
      · exact removePass_allQ tkn len h44 h32 fuel _ _ _ _ _ _ _ hs1 h

theorem removeTokensLoop_allQ {Q} (h44 : Q 44) (h32 : Q 32) :
    ∀ (fuel : Nat) (st st' : InPlace) (t : Bytes), AllQ Q st.str →
    removeTokensLoop fuel st t = some st' → AllQ Q st'.str
  | 0, st, st', t, hs, h => by simp [removeTokensLoop] at h; subst h; exact hs
  | fuel + 1, st, st', t, hs, h => by
    simp only [removeTokensLoop] at h
    split at h
    · simp at h; subst h; exact hs
    · split at h
      · simp at h; subst h; exact hs
      · split at h
        · split at h
          · simp at h
          · exact removeTokensLoop_allQ h44 h32 fuel ⟨st.str, 0, true⟩ _ _ hs h
          · exact removeTokensLoop_allQ h44 h32 fuel _ _ _ hs h
        · split at h
          · split at h
            · simp at h
            · rename_i s1 pw rem hp
              exact removeTokensLoop_allQ h44 h32 fuel _ _ _
                (removePass_allQ _ _ h44 h32 _ _ _ _ _ _ _ _ hs hp) h
          · exact removeTokensLoop_allQ h44 h32 fuel _ _ _ hs h

theorem removeTokensCaseless_allQ {Q} (str toks : Bytes) (res : RemoveRes) (h44 : Q 44) (h32 : Q 32)
    (hs : AllQ Q str) (h : removeTokensCaseless str toks = some res) : AllQ Q res.out := by
  unfold removeTokensCaseless at h
  split at h
  · simp at h
  · rename_i st hst
    simp at h; subst h
    exact allQ_take _ _ (removeTokensLoop_allQ h44 h32 _ _ _ _ hs hst)
end Mhd.ReplyStr
