/-
  C06 — proofs, part 6: the epoll loop.  The eready list is the daemon's memory of pending
  work; the invariant `EI` ties every connection's IN_EREADY bit to the list and says that a
  connection outside the list is in sync and blocked on the network.  Preservation through
  resume, the event loop body, new connections, the timeout scan and the eready traversal.
-/
import Mhd.Proofs.LoopHist
namespace Mhd.Loop
open Mhd.Gen.Loop
variable {W : Type}

/-! ### epoll: the eready list is the daemon's memory of pending work -/

/-- blocked on the network: nothing to process, and the cached readiness does not match what it waits for -/
def Blocked (l : Local W) : Prop :=
  l.eli.hasProcess = false ∧ ¬ (l.eli.hasRead = true ∧ l.rdReady = true) ∧ ¬ (l.eli.isWrite = true ∧ l.wrReady = true)

def Quiet (needs : Local W → Bool) (c : Conn W) : Prop := Sync needs c ∧ Blocked c.loc

structure LawsEp (ops : Ops W) (needs : Local W → Bool) : Prop extends Laws ops needs where
  /-- "has work that can proceed without network input" does not depend on the cached readiness bits -/
  needs_ready : ∀ (l : Local W) (r w : Bool), needs { l with rdReady := r, wrReady := w } = needs l
  /-- handle_idle on an active connection without pending work that is blocked on the network leaves it
      blocked, or puts it into a PROCESS state, or removes it from the active list -/
  idle_quiet : ∀ id k (l : Local W), needs l = false → Blocked l → (ops.idle id k .active l).2 = .active →
      (ops.idle id k .active l).1.eli.hasProcess = false → Blocked (ops.idle id k .active l).1
  /-- a connection in the cleanup list stays there -/
  idle_cleanup : ∀ id k (l : Local W), (ops.idle id k .cleanup l).2 = .cleanup

/-- the invariant inside an epoll round; `T` = ids whose turn in the eready traversal is still to come -/
structure EI (needs : Local W → Bool) (d : Daemon W) (T : List CId) : Prop where
  nodup : (ids d.conns ++ ids d.susp ++ ids d.cleanup).Nodup
  bitA : ∀ c ∈ d.conns, (c.inEready = true ↔ c.id ∈ d.eready)
  bitS : ∀ c ∈ d.susp, c.inEready = false ∧ c.id ∉ d.eready
  er_nodup : d.eready.Nodup
  er_sub : ∀ id ∈ d.eready, id ∈ ids d.conns ∨ id ∈ ids d.cleanup
  quiet : ∀ c ∈ d.conns, c.inEready = false → Quiet needs c
  sync : ∀ c ∈ d.conns, c.id ∉ T → Sync needs c

/-- EI only looks at the three lists and eready -/
theorem EI.congr {needs : Local W → Bool} {d d' : Daemon W} {T : List CId} (h : EI needs d T)
    (h1 : d'.conns = d.conns) (h2 : d'.susp = d.susp) (h3 : d'.cleanup = d.cleanup) (h4 : d'.eready = d.eready) :
    EI needs d' T := by
  refine ⟨?_, ?_, ?_, ?_, ?_, ?_, ?_⟩
  · rw [h1, h2, h3]; exact h.nodup
  · rw [h1, h4]; exact h.bitA
  · rw [h2, h4]; exact h.bitS
  · rw [h4]; exact h.er_nodup
  · rw [h1, h3, h4]; exact h.er_sub
  · rw [h1]; exact h.quiet
  · rw [h1]; exact h.sync

theorem EI.mono {needs : Local W → Bool} {d : Daemon W} {T T' : List CId} (h : EI needs d T)
    (hT : ∀ c ∈ d.conns, c.id ∉ T' → c.id ∉ T) : EI needs d T' :=
  ⟨h.nodup, h.bitA, h.bitS, h.er_nodup, h.er_sub, h.quiet, fun c hc hn => h.sync c hc (hT c hc hn)⟩


/-! ### the eready list after one connection's IN_EREADY bit changed -/

def erNew (er : List CId) (id : CId) (was now : Bool) : List CId :=
  if now && !was then id :: er else if !now && was then er.erase id else er

theorem syncEready_eready (d : Daemon W) (id : CId) (was now : Bool) :
    (syncEready d id was now).eready = erNew d.eready id was now := by
  unfold syncEready erNew
  split
  · rfl
  · split <;> rfl

theorem syncEready_lists (d : Daemon W) (id : CId) (was now : Bool) :
    (syncEready d id was now).conns = d.conns ∧ (syncEready d id was now).susp = d.susp ∧
    (syncEready d id was now).cleanup = d.cleanup := by
  unfold syncEready
  split
  · exact ⟨rfl, rfl, rfl⟩
  · split <;> exact ⟨rfl, rfl, rfl⟩

theorem mem_erNew_ne {er : List CId} {id x : CId} (was now : Bool) (h : x ≠ id) : x ∈ erNew er id was now ↔ x ∈ er := by
  unfold erNew
  split
  · simp [h]
  · split
    · exact List.mem_erase_of_ne h
    · exact Iff.rfl

theorem mem_erNew_self {er : List CId} {id : CId} {was : Bool} (now : Bool) (hn : er.Nodup) (hw : was = true ↔ id ∈ er) :
    id ∈ erNew er id was now ↔ now = true := by
  unfold erNew
  cases now <;> cases was <;> simp_all [List.Nodup.mem_erase_iff]

theorem nodup_erNew {er : List CId} {id : CId} {was : Bool} (now : Bool) (hn : er.Nodup) (hw : was = true ↔ id ∈ er) :
    (erNew er id was now).Nodup := by
  unfold erNew
  cases now <;> cases was <;> simp_all [List.Nodup.erase]

/-- replace / move one active connection and keep eready in step with its IN_EREADY bit -/
def updA (d : Daemon W) (c c' : Conn W) (wh' : Wh) : Daemon W :=
  syncEready (d.place c' .active wh') c.id c.inEready c'.inEready

theorem place_active {d : Daemon W} {A B : List (Conn W)} {c c' : Conn W} (hc : d.conns = A ++ c :: B)
    (hA : c.id ∉ ids A) (hid : c'.id = c.id) (wh' : Wh) :
    (d.place c' .active wh').conns = (if wh' = .active then A ++ c' :: B else A ++ B) ∧
    (d.place c' .active wh').susp = (if wh' = .susp then c' :: d.susp else d.susp) ∧
    (d.place c' .active wh').cleanup = (if wh' = .cleanup then c' :: d.cleanup else d.cleanup) ∧
    (d.place c' .active wh').eready = d.eready := by
  have e1 : eraseConn (A ++ c :: B) c'.id = A ++ B := by rw [hid]; exact eraseConn_mid hA
  have e2 : setConn (A ++ c :: B) c' = A ++ c' :: B := setConn_mid hA hid
  cases wh' <;> simp [Daemon.place, Daemon.setList, Daemon.listOf, hc, e1, e2]

theorem not_mem_of_nodup_mid {A B : List (Conn W)} {c x : Conn W} (h : (ids (A ++ c :: B)).Nodup) (hx : x ∈ A ++ B) :
    x.id ≠ c.id := by
  intro e
  simp only [ids_append, ids_cons] at h
  have hp : (ids A ++ c.id :: ids B).Perm (c.id :: (ids A ++ ids B)) := List.perm_middle
  have h2 := (hp.nodup_iff).mp h
  have : c.id ∈ ids A ++ ids B := by
    rw [← e, ← ids_append]; exact mem_ids hx
  exact (List.nodup_cons.mp h2).1 this


theorem updA_pres {needs : Local W → Bool} {d : Daemon W} {T T' : List CId} (h : EI needs d T)
    {A B : List (Conn W)} {c c' : Conn W} (hc : d.conns = A ++ c :: B) (hid : c'.id = c.id) (wh' : Wh)
    (hact : wh' = .active → (c'.inEready = false → Quiet needs c') ∧ (c.id ∉ T' → Sync needs c'))
    (hsus : wh' = .susp → c'.inEready = false)
    (hT : ∀ x, x ≠ c.id → x ∉ T' → x ∉ T) :
    EI needs (updA d c c' wh') T' := by
  have hndc : (ids d.conns).Nodup :=
    List.Nodup.sublist (by rw [List.append_assoc]; exact List.sublist_append_left _ _) h.nodup
  have hA : c.id ∉ ids A := by rw [hc] at hndc; exact nodup_mid_notin hndc
  have hcm : c ∈ d.conns := by rw [hc]; simp
  have hbit := h.bitA c hcm
  obtain ⟨p1, p2, p3, p4⟩ := place_active hc hA hid wh'
  obtain ⟨s1, s2, s3⟩ := syncEready_lists (d.place c' .active wh') c.id c.inEready c'.inEready
  have hE : (updA d c c' wh').eready = erNew d.eready c.id c.inEready c'.inEready := by
    unfold updA; rw [syncEready_eready, p4]
  have hC : (updA d c c' wh').conns = (if wh' = .active then A ++ c' :: B else A ++ B) := by unfold updA; rw [s1, p1]
  have hS : (updA d c c' wh').susp = (if wh' = .susp then c' :: d.susp else d.susp) := by unfold updA; rw [s2, p2]
  have hK : (updA d c c' wh').cleanup = (if wh' = .cleanup then c' :: d.cleanup else d.cleanup) := by unfold updA; rw [s3, p3]
  have hother : ∀ x ∈ A ++ B, x.id ≠ c.id := fun x hx => not_mem_of_nodup_mid (by rw [← hc]; exact hndc) hx
  have hAB : ∀ x ∈ A ++ B, x ∈ d.conns := by
    intro x hx; rw [hc]
    rcases List.mem_append.mp hx with h1 | h1
    · exact List.mem_append_left _ h1
    · exact List.mem_append_right _ (List.mem_cons_of_mem _ h1)
  -- ids of the other lists differ from c.id
  have hsd : ∀ x ∈ d.susp, x.id ≠ c.id := by
    intro x hx e
    have h1 : c.id ∈ ids d.conns := mem_ids hcm
    have h2 : c.id ∈ ids d.susp := e ▸ mem_ids hx
    have := h.nodup
    rw [List.append_assoc] at this
    exact (List.nodup_append.mp this).2.2 _ h1 _ (List.mem_append_left _ h2) rfl
  have hself := mem_erNew_self (id := c.id) (was := c.inEready) c'.inEready h.er_nodup hbit
  refine ⟨?_, ?_, ?_, ?_, ?_, ?_, ?_⟩
  · -- nodup
    rw [hC, hS, hK]
    have hp : (ids (if wh' = .active then A ++ c' :: B else A ++ B) ++ ids (if wh' = .susp then c' :: d.susp else d.susp) ++
        ids (if wh' = .cleanup then c' :: d.cleanup else d.cleanup)).Perm (ids d.conns ++ ids d.susp ++ ids d.cleanup) := by
      rw [hc, List.perm_iff_count]
      intro y
      cases wh' <;> simp only [if_true, if_false, reduceCtorEq, ids_append, ids_cons, List.count_append, List.count_cons, hid] <;> omega
    exact hp.nodup_iff.mpr h.nodup
  · -- bitA
    intro x hx
    rw [hC] at hx
    rw [hE]
    by_cases hw : wh' = .active
    · rw [if_pos hw] at hx
      rcases List.mem_append.mp hx with h1 | h1
      · have hne := hother x (List.mem_append_left _ h1)
        rw [mem_erNew_ne _ _ hne]
        exact h.bitA x (hAB x (List.mem_append_left _ h1))
      · rcases List.mem_cons.mp h1 with h2 | h2
        · rw [h2, hid]; exact hself.symm
        · have hne := hother x (List.mem_append_right _ h2)
          rw [mem_erNew_ne _ _ hne]
          exact h.bitA x (hAB x (List.mem_append_right _ h2))
    · rw [if_neg hw] at hx
      have hne := hother x hx
      rw [mem_erNew_ne _ _ hne]
      exact h.bitA x (hAB x hx)
  · -- bitS
    intro x hx
    rw [hS] at hx
    rw [hE]
    by_cases hw : wh' = .susp
    · rw [if_pos hw] at hx
      rcases List.mem_cons.mp hx with h2 | h2
      · rw [h2, hid, hself, hsus hw]; simp
      · rw [mem_erNew_ne _ _ (hsd x h2)]; exact h.bitS x h2
    · rw [if_neg hw] at hx
      rw [mem_erNew_ne _ _ (hsd x hx)]; exact h.bitS x hx
  · rw [hE]; exact nodup_erNew _ h.er_nodup hbit
  · -- er_sub
    intro id hidm
    rw [hE] at hidm
    rw [hC, hK]
    by_cases he : id = c.id
    · subst he
      cases wh' with
      | active => left; simp only [if_true, ids_append, ids_cons, List.mem_append, List.mem_cons]; right; left; exact hid.symm
      | susp =>
        exfalso
        have := hself.mp hidm
        rw [hsus rfl] at this; cases this
      | cleanup => right; simp only [if_true, ids_cons, List.mem_cons]; left; exact hid.symm
    · rw [mem_erNew_ne _ _ he] at hidm
      rcases h.er_sub id hidm with h1 | h1
      · left
        rw [hc] at h1
        simp only [ids_append, ids_cons, List.mem_append, List.mem_cons] at h1
        have h1' : id ∈ ids A ∨ id ∈ ids B := by
          rcases h1 with h1 | h1 | h1
          · exact Or.inl h1
          · exact absurd h1 he
          · exact Or.inr h1
        split <;> simp only [ids_append, ids_cons, List.mem_append, List.mem_cons]
        · rcases h1' with h1' | h1'
          · exact Or.inl h1'
          · exact Or.inr (Or.inr h1')
        · exact h1'
      · right
        split
        · exact List.mem_cons_of_mem _ h1
        · exact h1
  · -- quiet
    intro x hx hq
    rw [hC] at hx
    by_cases hw : wh' = .active
    · rw [if_pos hw] at hx
      rcases List.mem_append.mp hx with h1 | h1
      · exact h.quiet x (hAB x (List.mem_append_left _ h1)) hq
      · rcases List.mem_cons.mp h1 with h2 | h2
        · rw [h2] at hq ⊢; exact (hact hw).1 hq
        · exact h.quiet x (hAB x (List.mem_append_right _ h2)) hq
    · rw [if_neg hw] at hx
      exact h.quiet x (hAB x hx) hq
  · -- sync
    intro x hx hn
    rw [hC] at hx
    by_cases hw : wh' = .active
    · rw [if_pos hw] at hx
      rcases List.mem_append.mp hx with h1 | h1
      · exact h.sync x (hAB x (List.mem_append_left _ h1)) (hT _ (hother x (List.mem_append_left _ h1)) hn)
      · rcases List.mem_cons.mp h1 with h2 | h2
        · rw [h2] at hn ⊢; rw [hid] at hn; exact (hact hw).2 hn
        · exact h.sync x (hAB x (List.mem_append_right _ h2)) (hT _ (hother x (List.mem_append_right _ h2)) hn)
    · rw [if_neg hw] at hx
      exact h.sync x (hAB x hx) (hT _ (hother x hx) hn)


/-! ### handler chains in epoll mode: what happens to the IN_EREADY bit -/

theorem epollUpdate_inEready (c : Conn W) : (epollUpdate c).inEready = (c.inEready || c.loc.eli.hasProcess) := by
  unfold epollUpdate
  cases h1 : c.loc.eli.hasProcess <;> cases h2 : c.inEready <;> simp [h1, h2] <;> split <;> simp [h2]

theorem doIdle_inEready (ops : Ops W) (s : CS W) :
    (doIdle ops true s).c.inEready =
      match (ops.idle s.c.id s.c.k s.wh s.c.loc).2 with
      | .active => s.c.inEready || (ops.idle s.c.id s.c.k s.wh s.c.loc).1.eli.hasProcess
      | .susp => if s.wh = .active then false else s.c.inEready
      | .cleanup => s.c.inEready := by
  unfold doIdle
  cases h : (ops.idle s.c.id s.c.k s.wh s.c.loc).2 <;> simp only [h, Bool.true_and, reduceCtorEq, decide_false, decide_true,
    Bool.false_eq_true, if_false, if_true, Bool.and_false, Bool.and_true]
  · rw [epollUpdate_inEready]
  · cases hw : s.wh <;> simp [epollSuspend]

theorem wh_active_of_idle {ops : Ops W} {needs : Local W → Bool} (L : Laws ops needs) (s : CS W)
    (hw : (doIdle ops true s).wh = .active) : s.wh = .active := by
  rw [doIdle_wh] at hw
  cases hh : s.wh with
  | active => rfl
  | susp => exact absurd hw (L.idle_where _ _ _ _ (by rw [hh]; simp))
  | cleanup => exact absurd hw (L.idle_where _ _ _ _ (by rw [hh]; simp))

/-- while a connection is active its IN_EREADY bit is never cleared by the handlers -/
theorem chain_keeps_eready {ops : Ops W} {needs : Local W → Bool} (L : Laws ops needs) {s0 u : CS W}
    (h : Chain ops true s0 u) (h0 : s0.wh = .active → s0.c.inEready = true) : u.wh = .active → u.c.inEready = true := by
  induction h with
  | refl => exact h0
  | read f _ ih => exact ih
  | write _ ih => exact ih
  | close _ ih => exact ih
  | @idle t _ ih =>
    intro hw
    have hta := wh_active_of_idle L t hw
    rw [doIdle_inEready]
    rw [doIdle_wh] at hw
    simp only [hw, ih hta, Bool.true_or]

/-- a connection that the handlers suspended is not marked IN_EREADY -/
theorem chain_susp_clear {ops : Ops W} {needs : Local W → Bool} (L : LawsEp ops needs) {s0 u : CS W}
    (h : Chain ops true s0 u) (h0 : s0.wh = .active) : u.wh = .susp → u.c.inEready = false := by
  induction h with
  | refl => intro hw; rw [h0] at hw; cases hw
  | read f _ ih => exact ih
  | write _ ih => exact ih
  | close _ ih => exact ih
  | @idle t _ ih =>
    intro hw
    rw [doIdle_inEready]
    rw [doIdle_wh] at hw
    simp only [hw]
    cases ht : t.wh with
    | active => simp
    | susp => simp; exact ih ht
    | cleanup =>
      exfalso
      rw [ht] at hw
      have := L.idle_cleanup t.c.id t.c.k t.c.loc
      rw [this] at hw; cases hw


/-! ### one step of the two epoll traversals on an active connection -/

theorem isRead_cases' (e : Eli) : e.isRead = true ↔ e = .read := by cases e <;> decide
/-- the eready drop test of /repo is the exact one (regenerated; `decide` fails if the source uses the mask test) -/
theorem readWait_exact : ereadyDropExactRead = true := by decide
theorem isRead_cases (e : Eli) : readWait e = true ↔ e = .read := by
  unfold readWait; rw [readWait_exact]; exact isRead_cases' e
theorem isCleanup_cases (e : Eli) : e.isCleanup = true ↔ e = .cleanup := by cases e <;> decide

theorem finishCH_lists (d : Daemon W) (c : Conn W) (r : ChRes W) :
    (finishCH d c r).conns = (updA d c r.c r.wh).conns ∧ (finishCH d c r).susp = (updA d c r.c r.wh).susp ∧
    (finishCH d c r).cleanup = (updA d c r.c r.wh).cleanup ∧ (finishCH d c r).eready = (updA d c r.c r.wh).eready := by
  unfold finishCH updA
  simp only []
  split <;> exact ⟨rfl, rfl, rfl, rfl⟩

/-- call_handlers on an active connection that is in eready -/
theorem callHandlers_ei {ops : Ops W} {needs : Local W → Bool} (L : LawsEp ops needs) {d : Daemon W} {T T' : List CId}
    (h : EI needs d T) (hep : d.epoll = true) {A B : List (Conn W)} {c : Conn W} (hc : d.conns = A ++ c :: B)
    (hin : c.inEready = true) (rr wr fc : Bool) (hT : ∀ x, x ≠ c.id → x ∉ T' → x ∉ T) :
    EI needs (callHandlers ops d c.id rr wr fc) T' := by
  have hndc : (ids d.conns).Nodup :=
    List.Nodup.sublist (by rw [List.append_assoc]; exact List.sublist_append_left _ _) h.nodup
  have hA : c.id ∉ ids A := by rw [hc] at hndc; exact nodup_mid_notin hndc
  rw [callHandlers_active ops hc hA, hep]
  obtain ⟨l1, l2, l3, l4⟩ := finishCH_lists d c (chLocal ops true c .active rr wr fc)
  refine EI.congr ?_ l1 l2 l3 l4
  obtain ⟨⟨u, hu, hcc, hww, _⟩, _⟩ := chLocal_endsIdle ops true c .active rr wr fc
  have hchain : Chain ops true ⟨c, .active, []⟩ (doIdle ops true u) := Chain.idle hu
  apply updA_pres h hc (chLocal_static _ _ _ _ _ _ _).id _ _ _ hT
  · intro hw
    refine ⟨fun hf => ?_, fun _ => chLocal_sync L.toLaws true c .active rr wr fc hw⟩
    exfalso
    have := chain_keeps_eready L.toLaws hchain (fun _ => hin) (by rw [← hww]; exact hw)
    rw [← hcc] at this
    rw [this] at hf; cases hf
  · intro hw
    have := chain_susp_clear L hchain rfl (by rw [← hww]; exact hw)
    rw [← hcc] at this
    exact this

/-- "if the connection waits for an event that is not cached as ready, take it off eready" -/
theorem ereadyAfter_ei {needs : Local W → Bool} {d : Daemon W} {T : List CId}
    (h : EI needs d T) {A B : List (Conn W)} {c : Conn W} (hc : d.conns = A ++ c :: B) (hs : c.id ∉ T) :
    EI needs (ereadyAfter d c.id) T := by
  have hndc : (ids d.conns).Nodup :=
    List.Nodup.sublist (by rw [List.append_assoc]; exact List.sublist_append_left _ _) h.nodup
  have hA : c.id ∉ ids A := by rw [hc] at hndc; exact nodup_mid_notin hndc
  have hcm : c ∈ d.conns := by rw [hc]; simp
  unfold ereadyAfter
  rw [lookup_active hc hA]
  simp only []
  split
  · rename_i hcond
    simp only [Bool.and_eq_true, Bool.or_eq_true, Bool.not_eq_true', Bool.not_eq_eq_eq_not, Bool.not_true] at hcond
    have hin : c.inEready = true := hcond.1.1
    have heq : (fun d1 : Daemon W => { d1 with eready := d1.eready.erase c.id }) (d.place { c with inEready := false } .active .active) =
        updA d c { c with inEready := false } .active := by
      unfold updA syncEready
      simp [hin]
    show EI needs ((fun d1 : Daemon W => { d1 with eready := d1.eready.erase c.id }) (d.place { c with inEready := false } .active .active)) T
    rw [heq]
    apply updA_pres (c' := { c with inEready := false }) h hc rfl .active _ (fun hw => by cases hw) (fun x _ hx => hx)
    intro _
    have hsy : Sync needs c := h.sync c hcm hs
    refine ⟨fun _ => ⟨hsy, ?_⟩, fun _ => hsy⟩
    show Blocked c.loc
    rcases hcond.2 with (⟨h1, h2⟩ | ⟨h1, h2⟩) | h1
    · have e := (isRead_cases _).mp h1
      exact ⟨by rw [e]; decide, ⟨fun hh => (by rw [h2] at hh; cases hh.2), fun hh => (by rw [e] at hh; cases hh.1)⟩⟩
    · have e := (isWrite_cases _).mp h1
      exact ⟨by rw [e]; decide, ⟨fun hh => (by rw [e] at hh; cases hh.1), fun hh => (by rw [h2] at hh; cases hh.2)⟩⟩
    · have e := (isCleanup_cases _).mp h1
      exact ⟨by rw [e]; decide, ⟨fun hh => (by rw [e] at hh; cases hh.1), fun hh => (by rw [e] at hh; cases hh.1)⟩⟩
  · exact h


/-! ### … and on a connection that was closed earlier in the round (it sits in the cleanup list) -/

theorem ids_setConn (l : List (Conn W)) (c' : Conn W) : ids (setConn l c') = ids l := by
  induction l with
  | nil => rfl
  | cons x rest ih =>
    simp only [setConn]
    split
    · rename_i h; simp [ids_cons, h]
    · simp [ids_cons, ih]

theorem EI.frame {needs : Local W → Bool} {d d' : Daemon W} {T : List CId} (h : EI needs d T)
    (h1 : d'.conns = d.conns) (h2 : d'.susp = d.susp) (h3 : ids d'.cleanup = ids d.cleanup) (h4 : d'.eready = d.eready) :
    EI needs d' T := by
  refine ⟨?_, ?_, ?_, ?_, ?_, ?_, ?_⟩
  · rw [h1, h2, h3]; exact h.nodup
  · rw [h1, h4]; exact h.bitA
  · rw [h2, h4]; exact h.bitS
  · rw [h4]; exact h.er_nodup
  · rw [h1, h3, h4]; exact h.er_sub
  · rw [h1]; exact h.quiet
  · rw [h1]; exact h.sync

theorem EI.eraseInactive {needs : Local W → Bool} {d d' : Daemon W} {T : List CId} (h : EI needs d T) (p : CId)
    (hp : p ∉ ids d.conns) (h1 : d'.conns = d.conns) (h2 : d'.susp = d.susp) (h3 : ids d'.cleanup = ids d.cleanup)
    (h4 : d'.eready = d.eready.erase p) : EI needs d' T := by
  have hne : ∀ c ∈ d.conns, c.id ≠ p := fun c hc e => hp (e ▸ mem_ids hc)
  refine ⟨?_, ?_, ?_, ?_, ?_, ?_, ?_⟩
  · rw [h1, h2, h3]; exact h.nodup
  · rw [h1, h4]; intro c hc; rw [List.mem_erase_of_ne (hne c hc)]; exact h.bitA c hc
  · rw [h2, h4]; intro c hc; exact ⟨(h.bitS c hc).1, fun hm => (h.bitS c hc).2 (List.mem_of_mem_erase hm)⟩
  · rw [h4]; exact h.er_nodup.erase p
  · rw [h1, h3, h4]; intro id hm; exact h.er_sub id (List.mem_of_mem_erase hm)
  · rw [h1]; exact h.quiet
  · rw [h1]; exact h.sync

theorem chain_cleanup {ops : Ops W} {needs : Local W → Bool} (L : LawsEp ops needs) {s0 u : CS W}
    (h : Chain ops true s0 u) (h0 : s0.wh = .cleanup) : u.wh = .cleanup ∧ u.c.inEready = s0.c.inEready := by
  induction h with
  | refl => exact ⟨h0, rfl⟩
  | read f _ ih => exact ih
  | write _ ih => exact ih
  | close _ ih => exact ih
  | @idle t _ ih =>
    have hr : (ops.idle t.c.id t.c.k t.wh t.c.loc).2 = .cleanup := by rw [ih.1]; exact L.idle_cleanup _ _ _
    refine ⟨by rw [doIdle_wh]; exact hr, ?_⟩
    rw [doIdle_inEready]
    simp only [hr]
    exact ih.2

theorem findConn_of_mem_ids {l : List (Conn W)} {p : CId} (h : p ∈ ids l) :
    ∃ A c B, l = A ++ c :: B ∧ c.id = p ∧ p ∉ ids A := by
  induction l with
  | nil => simp at h
  | cons x rest ih =>
    by_cases hx : x.id = p
    · exact ⟨[], x, rest, rfl, hx, by simp⟩
    · simp only [ids_cons, List.mem_cons] at h
      rcases h with h | h
      · exact absurd h.symm hx
      · obtain ⟨A, c, B, e, hc, hA⟩ := ih h
        refine ⟨x :: A, c, B, by rw [e]; rfl, hc, ?_⟩
        simp only [ids_cons, List.mem_cons, not_or]
        exact ⟨fun e => hx e.symm, hA⟩

theorem lookup_cleanup {d : Daemon W} {p : CId} (h1 : p ∉ ids d.conns) (h2 : p ∉ ids d.susp) {A B : List (Conn W)} {c : Conn W}
    (hc : d.cleanup = A ++ c :: B) (hA : c.id ∉ ids A) (hp : c.id = p) : d.lookup p = some (c, .cleanup) := by
  unfold Daemon.lookup
  rw [findConn_none h1, findConn_none h2, hc, ← hp, findConn_mid hA]

theorem lookup_susp {d : Daemon W} {p : CId} (h1 : p ∉ ids d.conns) {A B : List (Conn W)} {c : Conn W}
    (hc : d.susp = A ++ c :: B) (hA : c.id ∉ ids A) (hp : c.id = p) : d.lookup p = some (c, .susp) := by
  unfold Daemon.lookup
  rw [findConn_none h1, hc, ← hp, findConn_mid hA]

theorem lookup_none {d : Daemon W} {p : CId} (h1 : p ∉ ids d.conns) (h2 : p ∉ ids d.susp) (h3 : p ∉ ids d.cleanup) :
    d.lookup p = none := by
  unfold Daemon.lookup
  rw [findConn_none h1, findConn_none h2, findConn_none h3]

/-- call_handlers on an eready entry whose connection was closed earlier in the round -/
theorem callHandlers_inactive {ops : Ops W} {needs : Local W → Bool} (L : LawsEp ops needs) {d : Daemon W} {T : List CId}
    (h : EI needs d T) (hep : d.epoll = true) {p : CId} (h1 : p ∉ ids d.conns) (hk : p ∈ ids d.cleanup) (rr wr fc : Bool) :
    EI needs (callHandlers ops d p rr wr fc) T ∧ (callHandlers ops d p rr wr fc).eready = d.eready ∧
    (callHandlers ops d p rr wr fc).conns = d.conns ∧ (callHandlers ops d p rr wr fc).fault = d.fault ∧
    (callHandlers ops d p rr wr fc).newc = d.newc ∧ (callHandlers ops d p rr wr fc).epoll = d.epoll := by
  have h2 : p ∉ ids d.susp := by
    intro hs
    have := h.nodup
    rw [List.nodup_append] at this
    exact this.2.2 p (List.mem_append_right _ hs) p hk rfl
  obtain ⟨A, c, B, hc, hcp, hA⟩ := findConn_of_mem_ids hk
  have hA' : c.id ∉ ids A := by rw [hcp]; exact hA
  have e1 : callHandlers ops d p rr wr fc =
      (let r := chLocal ops true c .cleanup rr wr fc
       let d1 := d.place r.c .cleanup r.wh
       let d2 := syncEready d1 p c.inEready r.c.inEready
       let d3 := if r.dapCheck && !d2.dap && r.c.loc.eli.hasProcess then { d2 with dap := true } else d2
       { d3 with log := r.evs ++ d3.log }) := by
    unfold callHandlers
    rw [lookup_cleanup h1 h2 hc hA' hcp, hep]
  obtain ⟨⟨u, hu, hcc, hww, _⟩, _⟩ := chLocal_endsIdle ops true c .cleanup rr wr fc
  have hch := chain_cleanup L (Chain.idle hu) rfl
  have hwh : (chLocal ops true c .cleanup rr wr fc).wh = .cleanup := by rw [hww]; exact hch.1
  have hbit : (chLocal ops true c .cleanup rr wr fc).c.inEready = c.inEready := by rw [hcc]; exact hch.2
  have hid : (chLocal ops true c .cleanup rr wr fc).c.id = c.id := (chLocal_static _ _ _ _ _ _ _).id
  generalize hr : chLocal ops true c .cleanup rr wr fc = r at e1 hwh hbit hid
  have hsync : syncEready (d.place r.c .cleanup r.wh) p c.inEready r.c.inEready = d.place r.c .cleanup r.wh := by
    unfold syncEready; rw [hbit]; cases c.inEready <;> simp
  have hplace : d.place r.c .cleanup r.wh = { d with cleanup := A ++ r.c :: B } := by
    rw [hwh]
    simp only [Daemon.place, if_true, Daemon.setList, Daemon.listOf, hc]
    rw [setConn_mid hA' hid]
  have f1 : (callHandlers ops d p rr wr fc).conns = d.conns ∧ (callHandlers ops d p rr wr fc).susp = d.susp ∧
      (callHandlers ops d p rr wr fc).cleanup = A ++ r.c :: B ∧ (callHandlers ops d p rr wr fc).eready = d.eready ∧
      (callHandlers ops d p rr wr fc).fault = d.fault ∧ (callHandlers ops d p rr wr fc).newc = d.newc ∧
      (callHandlers ops d p rr wr fc).epoll = d.epoll := by
    rw [e1]
    rw [hplace] at hsync
    simp only [hplace, hsync]
    split <;> exact ⟨rfl, rfl, rfl, rfl, rfl, rfl, rfl⟩
  exact ⟨h.frame f1.1 f1.2.1 (by rw [f1.2.2.1, hc]; simp [hid]) f1.2.2.2.1, f1.2.2.2.1, f1.1, f1.2.2.2.2.1,
    f1.2.2.2.2.2.1, f1.2.2.2.2.2.2⟩

theorem ereadyAfter_frame (d : Daemon W) (p : CId) :
    (ereadyAfter d p).fault = d.fault ∧ (ereadyAfter d p).newc = d.newc ∧ (ereadyAfter d p).epoll = d.epoll ∧
    (ereadyAfter d p).dap = d.dap ∧ (ereadyAfter d p).resuming = d.resuming ∧ (ereadyAfter d p).haveNew = d.haveNew ∧
    (ereadyAfter d p).shutdown = d.shutdown ∧ (ereadyAfter d p).allowSuspend = d.allowSuspend := by
  unfold ereadyAfter
  split
  · exact ⟨rfl, rfl, rfl, rfl, rfl, rfl, rfl, rfl⟩
  · rename_i c wh _
    simp only []
    split
    · cases wh <;> simp [Daemon.place, Daemon.setList]
    · exact ⟨rfl, rfl, rfl, rfl, rfl, rfl, rfl, rfl⟩

/-- the eready post-processing of an entry whose turn has come, wherever its connection is now -/
theorem ereadyAfter_any {needs : Local W → Bool} {d : Daemon W} {T : List CId} (h : EI needs d T) (p : CId) (hs : p ∉ T) :
    EI needs (ereadyAfter d p) T ∧
    ((ereadyAfter d p).eready = d.eready ∨ (ereadyAfter d p).eready = d.eready.erase p) := by
  by_cases hc : p ∈ ids d.conns
  · obtain ⟨A, c, B, e, hcp, hA⟩ := findConn_of_mem_ids hc
    subst hcp
    refine ⟨ereadyAfter_ei h e hs, ?_⟩
    unfold ereadyAfter
    rw [lookup_active e hA]
    simp only []
    split
    · right; simp [Daemon.place, Daemon.setList]
    · left; rfl
  · by_cases hsu : p ∈ ids d.susp
    · obtain ⟨A, c, B, e, hcp, hA⟩ := findConn_of_mem_ids hsu
      have hcm : c ∈ d.susp := by rw [e]; simp
      have hf : c.inEready = false := (h.bitS c hcm).1
      have : ereadyAfter d p = d := by
        unfold ereadyAfter
        rw [lookup_susp hc e (by rw [hcp]; exact hA) hcp]
        simp [hf]
      rw [this]; exact ⟨h, Or.inl rfl⟩
    · by_cases hk : p ∈ ids d.cleanup
      · obtain ⟨A, c, B, e, hcp, hA⟩ := findConn_of_mem_ids hk
        unfold ereadyAfter
        rw [lookup_cleanup hc hsu e (by rw [hcp]; exact hA) hcp]
        simp only []
        split
        · refine ⟨?_, Or.inr ?_⟩
          · apply h.eraseInactive p hc
            · simp [Daemon.place, Daemon.setList]
            · simp [Daemon.place, Daemon.setList]
            · simp only [Daemon.place, if_true, Daemon.setList, Daemon.listOf]
              rw [ids_setConn]
            · simp [Daemon.place, Daemon.setList, hcp]
          · simp [Daemon.place, Daemon.setList, hcp]
        · exact ⟨h, Or.inl rfl⟩
      · have : ereadyAfter d p = d := by
          unfold ereadyAfter; rw [lookup_none hc hsu hk]
        rw [this]; exact ⟨h, Or.inl rfl⟩


/-! ### the eready traversal -/

theorem prevInIds_go_mid {E1 E2 : List CId} {p : CId} (q : CId) (h : p ∉ E1) :
    prevInIds.go q (E1 ++ p :: E2) p = some (some (E1.getLast?.getD q)) := by
  induction E1 generalizing q with
  | nil => simp [prevInIds.go]
  | cons x rest ih =>
    simp only [List.mem_cons, not_or] at h
    simp only [List.cons_append, prevInIds.go]
    rw [if_neg (fun e => h.1 e.symm), ih x h.2]
    cases rest with
    | nil => simp
    | cons y ys =>
      cases hl : (y :: ys).getLast? with
      | none => simp at hl
      | some z => simp [List.getLast?_cons_cons, hl]

theorem prevE_mid {d : Daemon W} {E1 E2 : List CId} {p : CId} (he : d.eready = E1 ++ p :: E2) (h : p ∉ E1) :
    prevE d p = E1.getLast? := by
  unfold prevE
  rw [he]
  cases E1 with
  | nil => simp [prevInIds]
  | cons x rest =>
    simp only [List.mem_cons, not_or] at h
    simp only [List.cons_append, prevInIds]
    rw [if_neg (fun e => h.1 e.symm), prevInIds_go_mid x h.2]
    cases rest with
    | nil => simp
    | cons y ys =>
      cases hl : (y :: ys).getLast? with
      | none => simp at hl
      | some z => simp [List.getLast?_cons_cons, hl]

/-- facts of one daemon step that the epoll round needs besides EI -/
structure Frame (d d' : Daemon W) : Prop where
  fault : d'.fault = d.fault
  newc : d'.newc = d.newc
  epoll : d'.epoll = d.epoll
  resuming : d'.resuming = d.resuming
  haveNew : d'.haveNew = d.haveNew
  shutdown : d'.shutdown = d.shutdown
  allowSuspend : d'.allowSuspend = d.allowSuspend

theorem Frame.refl (d : Daemon W) : Frame d d := ⟨rfl, rfl, rfl, rfl, rfl, rfl, rfl⟩
theorem Frame.trans {a b c : Daemon W} (h1 : Frame a b) (h2 : Frame b c) : Frame a c :=
  ⟨h2.fault.trans h1.fault, h2.newc.trans h1.newc, h2.epoll.trans h1.epoll, h2.resuming.trans h1.resuming,
   h2.haveNew.trans h1.haveNew, h2.shutdown.trans h1.shutdown, h2.allowSuspend.trans h1.allowSuspend⟩

theorem place_frame (d : Daemon W) (c' : Conn W) (w1 w2 : Wh) : Frame d (d.place c' w1 w2) := by
  unfold Daemon.place
  split
  · cases w1 <;> exact ⟨rfl, rfl, rfl, rfl, rfl, rfl, rfl⟩
  · cases w1 <;> cases w2 <;> exact ⟨rfl, rfl, rfl, rfl, rfl, rfl, rfl⟩

theorem syncEready_frame (x : Daemon W) (id : CId) (a b : Bool) : Frame x (syncEready x id a b) := by
  unfold syncEready
  split
  · exact ⟨rfl, rfl, rfl, rfl, rfl, rfl, rfl⟩
  · split <;> exact ⟨rfl, rfl, rfl, rfl, rfl, rfl, rfl⟩

theorem callHandlers_frame (ops : Ops W) (d : Daemon W) (p : CId) (rr wr fc : Bool) (hl : (d.lookup p).isSome) :
    Frame d (callHandlers ops d p rr wr fc) := by
  unfold callHandlers
  cases h : d.lookup p with
  | none => rw [h] at hl; cases hl
  | some cw =>
    obtain ⟨c, wh⟩ := cw
    simp only []
    generalize chLocal ops d.epoll c wh rr wr fc = r
    have f1 := place_frame d r.c wh r.wh
    have f2 := syncEready_frame (d.place r.c wh r.wh) p c.inEready r.c.inEready
    have f12 := f1.trans f2
    generalize syncEready (d.place r.c wh r.wh) p c.inEready r.c.inEready = d2 at f12
    split
    · exact ⟨f12.fault, f12.newc, f12.epoll, f12.resuming, f12.haveNew, f12.shutdown, f12.allowSuspend⟩
    · exact ⟨f12.fault, f12.newc, f12.epoll, f12.resuming, f12.haveNew, f12.shutdown, f12.allowSuspend⟩

/-- one eready entry: call_handlers and the post-processing -/
theorem visitE {ops : Ops W} {needs : Local W → Bool} (L : LawsEp ops needs) {d : Daemon W} {E1 E2 : List CId} {p : CId}
    (h : EI needs d (E1 ++ [p])) (hep : d.epoll = true) (he : d.eready = E1 ++ p :: E2) :
    ∃ c wh, d.lookup p = some (c, wh) ∧
      let d2 := ereadyAfter (callHandlers ops d p c.loc.rdReady c.loc.wrReady c.epError) p
      EI needs d2 E1 ∧ Frame d d2 ∧ (d2.eready = E1 ++ p :: E2 ∨ d2.eready = E1 ++ E2) := by
  have hnd := h.er_nodup
  rw [he] at hnd
  have hpE1 : p ∉ E1 := by
    intro hm
    have := (List.nodup_append.mp hnd).2.2 p hm p List.mem_cons_self
    exact this rfl
  have hpe : p ∈ d.eready := by rw [he]; simp
  have herase : d.eready.erase p = E1 ++ E2 := by
    rw [he, List.erase_append_right _ hpE1, List.erase_cons_head]
  have fin : ∀ (d1 : Daemon W), EI needs d1 E1 → Frame d d1 → (d1.eready = d.eready ∨ d1.eready = d.eready.erase p) →
      EI needs (ereadyAfter d1 p) E1 ∧ Frame d (ereadyAfter d1 p) ∧
      ((ereadyAfter d1 p).eready = E1 ++ p :: E2 ∨ (ereadyAfter d1 p).eready = E1 ++ E2) := by
    intro d1 h1 f1 e1
    obtain ⟨h2, e2⟩ := ereadyAfter_any h1 p hpE1
    obtain ⟨a1, a2, a3, _, a5, a6, a7, a8⟩ := ereadyAfter_frame d1 p
    refine ⟨h2, f1.trans ⟨a1, a2, a3, a5, a6, a7, a8⟩, ?_⟩
    rcases e1 with e1 | e1 <;> rcases e2 with e2 | e2
    · left; rw [e2, e1, he]
    · right; rw [e2, e1, herase]
    · right; rw [e2, e1, herase]
    · right
      rw [e2, e1, herase]
      have : p ∉ E1 ++ E2 := by
        intro hm
        rcases List.mem_append.mp hm with hm | hm
        · exact hpE1 hm
        · have := (List.nodup_append.mp hnd).2.1
          exact (List.nodup_cons.mp this).1 hm
      exact List.erase_of_not_mem this
  rcases h.er_sub p hpe with hc | hk
  · -- the connection is active
    obtain ⟨A, c, B, e, hcp, hA⟩ := findConn_of_mem_ids hc
    subst hcp
    have hcm : c ∈ d.conns := by rw [e]; simp
    have hin : c.inEready = true := (h.bitA c hcm).mpr hpe
    refine ⟨c, .active, lookup_active e hA, ?_⟩
    have h1 := callHandlers_ei L h hep e hin c.loc.rdReady c.loc.wrReady c.epError (T' := E1)
      (fun x hx hn hm => by
        rcases List.mem_append.mp hm with hm | hm
        · exact hn hm
        · simp at hm; exact hx hm)
    have f1 := callHandlers_frame ops d c.id c.loc.rdReady c.loc.wrReady c.epError (by rw [lookup_active e hA]; rfl)
    have e1 : (callHandlers ops d c.id c.loc.rdReady c.loc.wrReady c.epError).eready = d.eready ∨
        (callHandlers ops d c.id c.loc.rdReady c.loc.wrReady c.epError).eready = d.eready.erase c.id := by
      rw [callHandlers_active ops e hA]
      have F := finishCH_fields (d := d) (chLocal ops d.epoll c .active c.loc.rdReady c.loc.wrReady c.epError) e hA
        (chLocal_static _ _ _ _ _ _ _).id
      rw [F.eready, hin]
      cases (chLocal ops d.epoll c .active c.loc.rdReady c.loc.wrReady c.epError).c.inEready <;> simp
    exact fin _ h1 f1 e1
  · -- it was closed earlier in this round
    have hc : p ∉ ids d.conns := by
      intro hc
      have := h.nodup
      rw [List.nodup_append] at this
      exact this.2.2 p (List.mem_append_left _ hc) p hk rfl
    have hsu : p ∉ ids d.susp := by
      intro hs
      have := h.nodup
      rw [List.nodup_append] at this
      exact this.2.2 p (List.mem_append_right _ hs) p hk rfl
    obtain ⟨A, c, B, e, hcp, hA⟩ := findConn_of_mem_ids hk
    have hl := lookup_cleanup hc hsu e (by rw [hcp]; exact hA) hcp
    refine ⟨c, .cleanup, hl, ?_⟩
    obtain ⟨h1, e1, _, _, _, _⟩ := callHandlers_inactive L h hep hc hk c.loc.rdReady c.loc.wrReady c.epError
    have f1 := callHandlers_frame ops d p c.loc.rdReady c.loc.wrReady c.epError (by rw [hl]; rfl)
    have h1' : EI needs (callHandlers ops d p c.loc.rdReady c.loc.wrReady c.epError) E1 := by
      apply h1.mono
      intro x hx hn hm
      rcases List.mem_append.mp hm with hm | hm
      · exact hn hm
      · simp at hm
        have hx' : x ∈ d.conns := by
          have := (callHandlers_inactive L h hep hc hk c.loc.rdReady c.loc.wrReady c.epError).2.2.1
          rw [this] at hx; exact hx
        exact hc (hm ▸ mem_ids hx')
    exact fin _ h1' f1 (Or.inl e1)


theorem ereadyTrav_spec {ops : Ops W} {needs : Local W → Bool} (L : LawsEp ops needs) :
    ∀ (n : Nat) (E1 : List CId), E1.length = n → ∀ (p : CId) (E2 : List CId) (d : Daemon W) (fuel : Nat),
      d.eready = E1 ++ p :: E2 → n + 1 ≤ fuel → EI needs d (E1 ++ [p]) → d.epoll = true →
      EI needs (ereadyTrav ops true fuel (some p) d) [] ∧ Frame d (ereadyTrav ops true fuel (some p) d) := by
  intro n
  induction n with
  | zero =>
    intro E1 hE1 p E2 d fuel he hf h hep
    have : E1 = [] := List.eq_nil_of_length_eq_zero hE1
    subst this
    obtain ⟨f, rfl⟩ : ∃ f, fuel = f + 1 := ⟨fuel - 1, by omega⟩
    obtain ⟨c, wh, hl, h2, f2, _⟩ := visitE L h hep he
    rw [ereadyTrav, hl]
    simp only [if_true]
    rw [prevE_mid he (by simp)]
    simp only [List.getLast?_nil]
    rw [ereadyTrav]
    exact ⟨h2, f2⟩
  | succ n ih =>
    intro E1 hE1 p E2 d fuel he hf h hep
    obtain ⟨f, rfl⟩ : ∃ f, fuel = f + 1 := ⟨fuel - 1, by omega⟩
    rcases List.eq_nil_or_concat E1 with h0 | ⟨E1', q, hq⟩
    · subst h0; simp at hE1
    · rw [List.concat_eq_append] at hq
      subst hq
      have hnd := h.er_nodup
      rw [he] at hnd
      have hpE1 : p ∉ E1' ++ [q] := by
        intro hm
        exact (List.nodup_append.mp hnd).2.2 p hm p List.mem_cons_self rfl
      obtain ⟨c, wh, hl, h2, f2, e2⟩ := visitE L h hep he
      rw [ereadyTrav, hl]
      simp only [if_true]
      rw [prevE_mid he hpE1, List.getLast?_concat]
      have hlen : E1'.length = n := by simpa using hE1
      have hep2 : (ereadyAfter (callHandlers ops d p c.loc.rdReady c.loc.wrReady c.epError) p).epoll = true := by
        rw [f2.epoll]; exact hep
      rcases e2 with e2 | e2
      · have := ih E1' hlen q (p :: E2) _ f (by rw [e2]; simp [List.append_assoc]) (by omega) h2 hep2
        exact ⟨this.1, f2.trans this.2⟩
      · have := ih E1' hlen q E2 _ f (by rw [e2]; simp [List.append_assoc]) (by omega) h2 hep2
        exact ⟨this.1, f2.trans this.2⟩


/-! ### the timeout scan -/

theorem findConn_isSome {l : List (Conn W)} {p : CId} (h : p ∈ ids l) : (findConn l p).isSome := by
  obtain ⟨A, c, B, e, hcp, hA⟩ := findConn_of_mem_ids h
  rw [e, ← hcp, findConn_mid (by rw [hcp]; exact hA)]; rfl

theorem lookup_isSome {d : Daemon W} {p : CId} (h : p ∈ ids d.conns ++ ids d.susp ++ ids d.cleanup) : (d.lookup p).isSome := by
  unfold Daemon.lookup
  cases h1 : findConn d.conns p with
  | some c => rfl
  | none =>
    simp only []
    cases h2 : findConn d.susp p with
    | some c => rfl
    | none =>
      simp only []
      cases h3 : findConn d.cleanup p with
      | some c => rfl
      | none =>
        exfalso
        simp only [List.mem_append] at h
        rcases h with (h | h) | h
        · have := findConn_isSome h; rw [h1] at this; cases this
        · have := findConn_isSome h; rw [h2] at this; cases this
        · have := findConn_isSome h; rw [h3] at this; cases this

theorem needs_false_of_quiet {needs : Local W → Bool} {c : Conn W} (h : Quiet needs c) : needs c.loc = false := by
  cases hn : needs c.loc with
  | false => rfl
  | true => have := h.1 hn; rw [h.2.1] at this; cases this

/-- a lone MHD_connection_handle_idle on an active connection (timeout scan of MHD_epoll) -/
theorem idleAt_ei {ops : Ops W} {needs : Local W → Bool} (L : LawsEp ops needs) {d : Daemon W} {T : List CId}
    (h : EI needs d T) (hep : d.epoll = true) {A B : List (Conn W)} {c : Conn W} (hc : d.conns = A ++ c :: B) :
    EI needs (idleAt ops d c.id) T ∧ Frame d (idleAt ops d c.id) ∧
    (∃ c', c'.id = c.id ∧ ((idleAt ops d c.id).conns = A ++ c' :: B ∨ (idleAt ops d c.id).conns = A ++ B)) ∧
    (ids (idleAt ops d c.id).conns ++ ids (idleAt ops d c.id).susp ++ ids (idleAt ops d c.id).cleanup).Perm
      (ids d.conns ++ ids d.susp ++ ids d.cleanup) := by
  have hndc : (ids d.conns).Nodup :=
    List.Nodup.sublist (by rw [List.append_assoc]; exact List.sublist_append_left _ _) h.nodup
  have hA : c.id ∉ ids A := by rw [hc] at hndc; exact nodup_mid_notin hndc
  have hcm : c ∈ d.conns := by rw [hc]; simp
  have e1 : idleAt ops d c.id =
      (let s := doIdle ops true { c := c, wh := .active, evs := [] }
       let d2 := updA d c s.c s.wh
       { d2 with log := s.evs ++ d2.log }) := by
    unfold idleAt updA
    rw [lookup_active hc hA, hep]
  generalize hs : doIdle ops true { c := c, wh := .active, evs := [] } = s at e1
  have hsid : s.c.id = c.id := by rw [← hs]; exact (doIdle_static ops true _).id
  have hwh : s.wh = (ops.idle c.id c.k .active c.loc).2 := by rw [← hs]; rfl
  have hloc : s.c.loc = (ops.idle c.id c.k .active c.loc).1 := by rw [← hs, doIdle_loc]
  have hbit : s.c.inEready = match (ops.idle c.id c.k .active c.loc).2 with
      | .active => c.inEready || (ops.idle c.id c.k .active c.loc).1.eli.hasProcess
      | .susp => false
      | .cleanup => c.inEready := by
    rw [← hs, doIdle_inEready]
    cases (ops.idle c.id c.k .active c.loc).2 <;> simp
  have hE : EI needs (updA d c s.c s.wh) T := by
    apply updA_pres h hc hsid s.wh _ _ (fun x _ hx => hx)
    · intro hw
      rw [hwh] at hw
      have hsync : Sync needs s.c := by
        intro hn; rw [hloc] at hn ⊢; exact L.idle_sync _ _ _ _ hw hn
      refine ⟨fun hf => ⟨hsync, ?_⟩, fun _ => hsync⟩
      rw [hbit] at hf
      simp only [hw, Bool.or_eq_false_iff] at hf
      have hq := h.quiet c hcm hf.1
      rw [hloc]
      exact L.idle_quiet c.id c.k c.loc (needs_false_of_quiet hq) hq.2 hw hf.2
    · intro hw
      rw [hwh] at hw
      rw [hbit]; simp only [hw]
  have hndc' : (ids d.conns).Nodup := hndc
  obtain ⟨p1, p2, p3, p4⟩ := place_active hc hA hsid s.wh
  obtain ⟨s1, s2, s3⟩ := syncEready_lists (d.place s.c .active s.wh) c.id c.inEready s.c.inEready
  rw [e1]
  refine ⟨hE.congr rfl rfl rfl rfl, ?_, ⟨s.c, hsid, ?_⟩, ?_⟩
  · have f := (place_frame d s.c .active s.wh).trans (syncEready_frame (d.place s.c .active s.wh) c.id c.inEready s.c.inEready)
    exact ⟨f.fault, f.newc, f.epoll, f.resuming, f.haveNew, f.shutdown, f.allowSuspend⟩
  · show (updA d c s.c s.wh).conns = _ ∨ (updA d c s.c s.wh).conns = _
    unfold updA
    rw [s1, p1]
    split
    · exact Or.inl rfl
    · exact Or.inr rfl
  · show (ids (updA d c s.c s.wh).conns ++ ids (updA d c s.c s.wh).susp ++ ids (updA d c s.c s.wh).cleanup).Perm _
    unfold updA
    rw [s1, s2, s3, p1, p2, p3, hc, List.perm_iff_count]
    intro y
    cases s.wh <;> simp only [if_true, if_false, reduceCtorEq, ids_append, ids_cons, List.count_append, List.count_cons, hsid] <;> omega


theorem timeoutScan_spec {ops : Ops W} {needs : Local W → Bool} (L : LawsEp ops needs) (T : List CId) :
    ∀ (n : Nat) (A : List (Conn W)), A.length = n → ∀ (c : Conn W) (B : List (Conn W)) (d : Daemon W) (fuel : Nat),
      d.conns = A ++ c :: B → n + 1 ≤ fuel → EI needs d T → d.epoll = true →
      EI needs (timeoutScan ops fuel (some c.id) d) T ∧ Frame d (timeoutScan ops fuel (some c.id) d) := by
  intro n
  induction n with
  | zero =>
    intro A hA c B d fuel hc hf h hep
    have : A = [] := List.eq_nil_of_length_eq_zero hA
    subst this
    obtain ⟨f, rfl⟩ : ∃ f, fuel = f + 1 := ⟨fuel - 1, by omega⟩
    have hndc : (ids d.conns).Nodup :=
      List.Nodup.sublist (by rw [List.append_assoc]; exact List.sublist_append_left _ _) h.nodup
    have hA' : c.id ∉ ids ([] : List (Conn W)) := by simp
    obtain ⟨h1, f1, _, hperm⟩ := idleAt_ei L h hep hc
    rw [timeoutScan]
    have hp : prevIn d.conns c.id = some (tailId ([] : List (Conn W))) := by rw [hc]; exact prevIn_mid hA'
    rw [hp]
    simp only []
    have hin : c.id ∈ ids (idleAt ops d c.id).conns ++ ids (idleAt ops d c.id).susp ++ ids (idleAt ops d c.id).cleanup := by
      rw [hperm.mem_iff, hc]; simp
    cases hl : (idleAt ops d c.id).lookup c.id with
    | none => have := lookup_isSome hin; rw [hl] at this; cases this
    | some cw =>
      simp only []
      split
      · exact ⟨h1, f1⟩
      · rw [tailId_nil, timeoutScan]; exact ⟨h1, f1⟩
  | succ n ih =>
    intro A hA c B d fuel hc hf h hep
    obtain ⟨f, rfl⟩ : ∃ f, fuel = f + 1 := ⟨fuel - 1, by omega⟩
    rcases List.eq_nil_or_concat A with h0 | ⟨A', a, ha⟩
    · subst h0; simp at hA
    · rw [List.concat_eq_append] at ha
      subst ha
      have hndc : (ids d.conns).Nodup :=
        List.Nodup.sublist (by rw [List.append_assoc]; exact List.sublist_append_left _ _) h.nodup
      have hA' : c.id ∉ ids (A' ++ [a]) := by rw [hc] at hndc; exact nodup_mid_notin hndc
      obtain ⟨h1, f1, ⟨c', hc'id, hconns⟩, hperm⟩ := idleAt_ei L h hep hc
      rw [timeoutScan]
      have hp : prevIn d.conns c.id = some (tailId (A' ++ [a])) := by rw [hc]; exact prevIn_mid hA'
      rw [hp]
      simp only []
      have hin : c.id ∈ ids (idleAt ops d c.id).conns ++ ids (idleAt ops d c.id).susp ++ ids (idleAt ops d c.id).cleanup := by
        rw [hperm.mem_iff, hc]; simp
      cases hl : (idleAt ops d c.id).lookup c.id with
      | none => have := lookup_isSome hin; rw [hl] at this; cases this
      | some cw =>
        simp only []
        split
        · exact ⟨h1, f1⟩
        · rw [tailId_concat]
          have hlen : A'.length = n := by simpa using hA
          have hep1 : (idleAt ops d c.id).epoll = true := by rw [f1.epoll]; exact hep
          rcases hconns with e | e
          · have := ih A' hlen a (c' :: B) _ f (by rw [e]; simp [List.append_assoc]) (by omega) h1 hep1
            exact ⟨this.1, f1.trans this.2⟩
          · have := ih A' hlen a B _ f (by rw [e]; simp [List.append_assoc]) (by omega) h1 hep1
            exact ⟨this.1, f1.trans this.2⟩


/-! ### the stages of MHD_epoll before the traversals -/

theorem EI.retarget {needs : Local W → Bool} {d : Daemon W} {T : List CId} (h : EI needs d T) : EI needs d d.eready :=
  ⟨h.nodup, h.bitA, h.bitS, h.er_nodup, h.er_sub, h.quiet, fun c hc hn => by
    have hb : c.inEready = false := by
      cases hh : c.inEready with
      | false => rfl
      | true => exact absurd ((h.bitA c hc).mp hh) hn
    exact (h.quiet c hc hb).1⟩

/-- the stage invariant: EI with respect to the current eready list, ids of `newc` still fresh -/
structure ES (needs : Local W → Bool) (d : Daemon W) : Prop where
  ei : EI needs d d.eready
  nodup4 : (ids d.conns ++ ids d.susp ++ ids d.cleanup ++ ids d.newc).Nodup
  ep : d.epoll = true

theorem eraseConn_ne_of_nodup {l : List (Conn W)} {id : CId} (hn : (ids l).Nodup) {x : Conn W} (hx : x ∈ eraseConn l id) :
    x.id ≠ id := by
  induction l with
  | nil => simp [eraseConn] at hx
  | cons y rest ih =>
    simp only [ids_cons, List.nodup_cons] at hn
    simp only [eraseConn] at hx
    by_cases hy : y.id = id
    · rw [if_pos hy] at hx
      intro e
      exact hn.1 (hy ▸ e ▸ mem_ids hx)
    · rw [if_neg hy] at hx
      rcases List.mem_cons.mp hx with h1 | h1
      · rw [h1]; exact hy
      · exact ih hn.2 h1

theorem resumeOne_es {needs : Local W → Bool} {d : Daemon W} (h : ES needs d) {c : Conn W} (hc : c ∈ d.susp) :
    ES needs (resumeOne d c) ∧ Frame d (resumeOne d c) ∧ (resumeOne d c).dap = d.dap ∧
    (∀ x ∈ (resumeOne d c).susp, x ∈ d.susp) ∧ (∀ x ∈ d.susp, x.id ≠ c.id → x ∈ (resumeOne d c).susp) := by
  unfold resumeOne
  cases hr : c.resuming
  · simp only [Bool.not_false, if_true]
    exact ⟨h, Frame.refl d, trivial, fun _ hx => hx, fun _ hx _ => hx⟩
  · simp only [Bool.not_true, Bool.false_eq_true, if_false]
    rw [if_pos h.ep, if_pos h.ep]
    have hbs := h.ei.bitS c hc
    have hsn : (ids d.susp).Nodup := by
      have := h.ei.nodup
      rw [List.append_assoc] at this
      exact (List.nodup_append.mp (List.nodup_append.mp this).2.1).1
    have hcs : ∀ x ∈ d.conns, x.id ≠ c.id := by
      intro x hx e
      have := h.ei.nodup
      rw [List.append_assoc] at this
      exact (List.nodup_append.mp this).2.2 _ (mem_ids hx) _ (List.mem_append_left _ (e ▸ mem_ids hc)) rfl
    have hperm3 : (c.id :: ids d.conns ++ ids (eraseConn d.susp c.id) ++ ids d.cleanup).Perm
        (ids d.conns ++ ids d.susp ++ ids d.cleanup) := by
      have := eraseConn_perm (mem_ids hc)
      rw [List.perm_iff_count] at this ⊢
      intro y
      have := this y
      simp only [List.count_append, List.count_cons] at this ⊢
      omega
    refine ⟨⟨⟨?_, ?_, ?_, ?_, ?_, ?_, ?_⟩, ?_, h.ep⟩, ⟨rfl, rfl, rfl, rfl, rfl, rfl, rfl⟩, trivial,
      fun x hx => eraseConn_subset hx, fun x hx hne => eraseConn_keep hx hne⟩
    · exact hperm3.nodup_iff.mpr h.ei.nodup
    · intro x hx
      rcases List.mem_cons.mp hx with e | e
      · rw [e]; simp
      · have hne := hcs x e
        simp only [List.mem_cons, hne, false_or]
        exact h.ei.bitA x e
    · intro x hx
      have hxs := eraseConn_subset hx
      have hne := eraseConn_ne_of_nodup hsn hx
      refine ⟨(h.ei.bitS x hxs).1, ?_⟩
      simp only [List.mem_cons, hne, false_or]
      exact (h.ei.bitS x hxs).2
    · exact List.nodup_cons.mpr ⟨hbs.2, h.ei.er_nodup⟩
    · intro id hm
      rcases List.mem_cons.mp hm with e | e
      · left; rw [e]; simp
      · rcases h.ei.er_sub id e with h1 | h1
        · left; simp only [ids_cons, List.mem_cons]; exact Or.inr h1
        · exact Or.inr h1
    · intro x hx hq
      rcases List.mem_cons.mp hx with e | e
      · rw [e] at hq; simp at hq
      · exact h.ei.quiet x e hq
    · intro x hx hn
      rcases List.mem_cons.mp hx with e | e
      · rw [e] at hn; simp at hn
      · exact h.ei.sync x e (fun hm => hn (List.mem_cons_of_mem _ hm))
    · have hp4 : (c.id :: ids d.conns ++ ids (eraseConn d.susp c.id) ++ ids d.cleanup ++ ids d.newc).Perm
          (ids d.conns ++ ids d.susp ++ ids d.cleanup ++ ids d.newc) := List.Perm.append_right _ hperm3
      exact hp4.nodup_iff.mpr h.nodup4


theorem resumeFold_es {needs : Local W → Bool} : ∀ (work : List (Conn W)) (d : Daemon W), ES needs d → (ids work).Nodup →
    (∀ c ∈ work, c ∈ d.susp) →
    ES needs (work.foldl resumeOne d) ∧ Frame d (work.foldl resumeOne d) ∧ (work.foldl resumeOne d).dap = d.dap := by
  intro work
  induction work with
  | nil => intro d h _ _; exact ⟨h, Frame.refl d, rfl⟩
  | cons c rest ih =>
    intro d h hnd hmem
    simp only [List.foldl_cons]
    simp only [ids_cons, List.nodup_cons] at hnd
    obtain ⟨h1, f1, d1, _, hkeep⟩ := resumeOne_es h (hmem c List.mem_cons_self)
    have hne : ∀ x ∈ rest, x.id ≠ c.id := fun x hx e => hnd.1 (e ▸ mem_ids hx)
    obtain ⟨h2, f2, d2⟩ := ih _ h1 hnd.2 (fun x hx => hkeep x (hmem x (List.mem_cons_of_mem _ hx)) (hne x hx))
    exact ⟨h2, f1.trans f2, d2.trans d1⟩

theorem resumeSuspended_es {needs : Local W → Bool} {d : Daemon W} (h : ES needs d) :
    ES needs (resumeSuspended d) ∧ (resumeSuspended d).fault = d.fault ∧ (resumeSuspended d).newc = d.newc ∧
    (resumeSuspended d).haveNew = d.haveNew ∧ (resumeSuspended d).allowSuspend = d.allowSuspend := by
  have hsn : (ids d.susp).Nodup := by
    have := h.ei.nodup
    rw [List.append_assoc] at this
    exact (List.nodup_append.mp (List.nodup_append.mp this).2.1).1
  have h0 : ES needs { d with resuming := false } := ⟨h.ei.congr rfl rfl rfl rfl, h.nodup4, h.ep⟩
  unfold resumeSuspended
  simp only []
  have := resumeFold_es (needs := needs) (if d.resuming then d.susp.reverse else []) { d with resuming := false } h0
    (by
      split
      · rw [show ids d.susp.reverse = (ids d.susp).reverse by simp [ids, List.map_reverse]]
        exact (List.reverse_perm _).nodup_iff.mpr hsn
      · simp)
    (by
      intro c hc
      split at hc
      · exact List.mem_reverse.mp hc
      · simp at hc)
  exact ⟨this.1, this.2.1.fault, this.2.1.newc, this.2.1.haveNew, this.2.1.allowSuspend⟩

/-! events -/

theorem findConn_none_of {l : List (Conn W)} {p : CId} (h : findConn l p = none) : p ∉ ids l := by
  intro hm
  have := findConn_isSome hm
  rw [h] at this; cases this

theorem ite_inEready_loc (b : Bool) (x : Conn W) : (if b then { x with inEready := true } else x).loc = x.loc := by
  cases b <;> rfl
theorem ite_inEready_id (b : Bool) (x : Conn W) : (if b then { x with inEready := true } else x).id = x.id := by
  cases b <;> rfl

theorem eli_tests :
    Eli.read.hasRead = true ∧ Eli.write.hasRead = false ∧ Eli.process.hasRead = false ∧ Eli.processRead.hasRead = true ∧
    Eli.cleanup.hasRead = false ∧ Eli.read.isWrite = false ∧ Eli.write.isWrite = true ∧ Eli.process.isWrite = false ∧
    Eli.processRead.isWrite = false ∧ Eli.cleanup.isWrite = false := by decide

theorem evConn_loc (c : Conn W) (ev : EpEv) :
    (evConn c ev).loc = { c.loc with rdReady := c.loc.rdReady || (!ev.err && ev.inp), wrReady := c.loc.wrReady || (!ev.err && ev.out) } := by
  obtain ⟨id, k, ⟨st, eli, rd, wr, bs, w⟩, nb, rs, sv, ie, ies, es, ee, tmo⟩ := c
  obtain ⟨t1, t2, t3, t4, t5, t6, t7, t8, t9, t10⟩ := eli_tests
  unfold evConn
  cases ev.err <;> cases ev.inp <;> cases ev.out <;> cases bs <;> cases eli <;> simp [t1, t2, t3, t4, t5, t6, t7, t8, t9, t10]

theorem evConn_id (c : Conn W) (ev : EpEv) : (evConn c ev).id = c.id := by
  obtain ⟨id, k, ⟨st, eli, rd, wr, bs, w⟩, nb, rs, sv, ie, ies, es, ee, tmo⟩ := c
  obtain ⟨t1, t2, t3, t4, t5, t6, t7, t8, t9, t10⟩ := eli_tests
  unfold evConn
  cases ev.err <;> cases ev.inp <;> cases ev.out <;> cases bs <;> cases eli <;> simp [t1, t2, t3, t4, t5, t6, t7, t8, t9, t10]

theorem evConn_props (needs : Local W → Bool) (hnr : ∀ (l : Local W) (r w : Bool), needs { l with rdReady := r, wrReady := w } = needs l)
    (c : Conn W) (ev : EpEv) :
    (evConn c ev).id = c.id ∧ (evConn c ev).loc.eli = c.loc.eli ∧ (c.inEready = true → (evConn c ev).inEready = true) ∧
    needs (evConn c ev).loc = needs c.loc ∧
    ((evConn c ev).inEready = false → Blocked c.loc → Blocked (evConn c ev).loc) := by
  refine ⟨?_, by rw [evConn_loc], ?_, by rw [evConn_loc]; exact hnr _ _ _, ?_⟩
  · exact evConn_id c ev
  · intro h
    unfold evConn
    cases ev.err <;> cases ev.inp <;> cases ev.out <;> cases c.loc.eli.hasRead <;> cases c.loc.bufSpace <;>
      cases c.loc.eli.isWrite <;> simp [h]
  · intro hf hb
    unfold Blocked at hb ⊢
    rw [evConn_loc]
    unfold evConn at hf
    cases he : ev.err <;> cases hi : ev.inp <;> cases ho : ev.out <;> cases h1 : c.loc.eli.hasRead <;>
      cases h2 : c.loc.bufSpace <;> cases h3 : c.loc.eli.isWrite <;> simp [he, hi, ho, h1, h2, h3] at hf hb ⊢ <;> simp [hb]

/-- one epoll event, as an update of that connection -/
theorem applyEvent_es {ops : Ops W} {needs : Local W → Bool} (L : LawsEp ops needs) {d : Daemon W} (h : ES needs d) (ev : EpEv) :
    ES needs (applyEvent d ev) ∧ Frame d (applyEvent d ev) ∧ (applyEvent d ev).dap = d.dap := by
  unfold applyEvent
  cases hf : findConn d.conns ev.id with
  | none => exact ⟨h, Frame.refl d, rfl⟩
  | some c =>
    simp only []
    have hcm := (findConn_mem hf).1
    have hcid := (findConn_mem hf).2
    obtain ⟨A, c0, B, e, hcp, hA⟩ := findConn_of_mem_ids (mem_ids hcm)
    have hc0 : c0 = c := by
      have : findConn d.conns c.id = some c0 := by rw [e, ← hcp]; exact findConn_mid (by rw [hcp]; exact hA)
      rw [hcid, hf] at this
      exact (Option.some.inj this).symm
    subst hc0
    -- every branch is `updA d c c' .active` for a connection c' that differs from c in the bits only
    have key : ∀ (c' : Conn W), c'.id = c0.id → c'.loc.eli = c0.loc.eli → (c0.inEready = true → c'.inEready = true) →
        needs c'.loc = needs c0.loc →
        (c'.inEready = false → Blocked c0.loc → Blocked c'.loc) →
        ES needs (updA d c0 c' .active) := by
      intro c' hid heli hmono hneeds hblk
      have hE : EI needs (updA d c0 c' .active) (erNew d.eready c0.id c0.inEready c'.inEready) := by
        apply updA_pres h.ei e hid .active _ (fun hw => by cases hw)
          (fun x hx hn hm => hn ((mem_erNew_ne _ _ hx).mpr hm))
        intro _
        have hq : c'.inEready = false → Quiet needs c' := by
          intro hf'
          have hc0f : c0.inEready = false := by
            cases hh : c0.inEready with
            | false => rfl
            | true => rw [hmono hh] at hf'; cases hf'
          have q0 := h.ei.quiet c0 hcm hc0f
          refine ⟨fun hn => ?_, ?_⟩
          · rw [hneeds] at hn; rw [heli]; exact q0.1 hn
          · exact hblk hf' q0.2
        refine ⟨hq, fun hn => ?_⟩
        cases hh : c'.inEready with
        | false => exact (hq hh).1
        | true =>
          exfalso
          exact hn ((mem_erNew_self (id := c0.id) (was := c0.inEready) c'.inEready h.ei.er_nodup (h.ei.bitA c0 hcm)).mpr hh)
      obtain ⟨p1, p2, p3, p4⟩ := place_active e hA hid .active
      obtain ⟨s1, s2, s3⟩ := syncEready_lists (d.place c' .active .active) c0.id c0.inEready c'.inEready
      have hEr : (updA d c0 c' .active).eready = erNew d.eready c0.id c0.inEready c'.inEready := by
        unfold updA; rw [syncEready_eready, p4]
      refine ⟨by rw [hEr]; exact hE, ?_, ?_⟩
      · have hids : ids (updA d c0 c' .active).conns = ids d.conns := by
          unfold updA; rw [s1, p1, e]; simp [hid]
        unfold updA at hids ⊢
        rw [hids, s2, s3, p2, p3]
        simp only [reduceCtorEq, if_false]
        have hnc : (syncEready (d.place c' .active .active) c0.id c0.inEready c'.inEready).newc = d.newc :=
          ((place_frame d c' .active .active).trans (syncEready_frame _ _ _ _)).newc
        rw [hnc]; exact h.nodup4
      · unfold updA
        rw [((place_frame d c' .active .active).trans (syncEready_frame _ _ _ _)).epoll]; exact h.ep
    obtain ⟨q1, q2, q3, q4, q5⟩ := evConn_props needs L.needs_ready c0 ev
    have K := key (evConn c0 ev) q1 q2 q3 q4 q5
    have f := (place_frame d (evConn c0 ev) .active .active).trans
      (syncEready_frame (d.place (evConn c0 ev) .active .active) c0.id c0.inEready (evConn c0 ev).inEready)
    refine ⟨K, f, ?_⟩
    show (syncEready (d.place (evConn c0 ev) .active .active) c0.id c0.inEready (evConn c0 ev).inEready).dap = d.dap
    unfold syncEready Daemon.place
    simp only [if_true, Daemon.setList]
    split
    · rfl
    · split <;> rfl


theorem eventsFold_es {ops : Ops W} {needs : Local W → Bool} (L : LawsEp ops needs) : ∀ (evs : List EpEv) (d : Daemon W),
    ES needs d → ES needs (evs.foldl applyEvent d) ∧ Frame d (evs.foldl applyEvent d) ∧ (evs.foldl applyEvent d).dap = d.dap := by
  intro evs
  induction evs with
  | nil => intro d h; exact ⟨h, Frame.refl d, rfl⟩
  | cons ev rest ih =>
    intro d h
    simp only [List.foldl_cons]
    obtain ⟨h1, f1, d1⟩ := applyEvent_es L h ev
    obtain ⟨h2, f2, d2⟩ := ih _ h1
    exact ⟨h2, f1.trans f2, d2.trans d1⟩

/-! ### the invariant of an epoll daemon between rounds -/

structure InvEP (needs : Local W → Bool) (d : Daemon W) : Prop where
  ep : d.epoll = true
  ei : EI needs d []
  nodup4 : (ids d.conns ++ ids d.susp ++ ids d.cleanup ++ ids d.newc).Nodup
  fresh : ∀ c ∈ d.newc, c.loc.eli = .read ∧ needs c.loc = false ∧ c.loc.rdReady = false ∧ c.loc.wrReady = false ∧
    c.inEready = false
  newcFlag : d.haveNew = false → d.newc = []
  nocleanup : d.cleanup = []
  fault : d.fault = none

/-- new_connections_list_process_ in epoll mode -/
theorem newConns_es {needs : Local W → Bool} {d : Daemon W} (h : ES needs d)
    (hfresh : ∀ c ∈ d.newc, c.loc.eli = .read ∧ needs c.loc = false ∧ c.loc.rdReady = false ∧ c.loc.wrReady = false ∧
      c.inEready = false) :
    EI needs (newConnsProcess d) (newConnsProcess d).eready ∧ (newConnsProcess d).newc = [] ∧
    (newConnsProcess d).epoll = true ∧ (newConnsProcess d).fault = d.fault ∧ (newConnsProcess d).cleanup = d.cleanup := by
  rw [newConnsProcess_eq]
  refine ⟨?_, rfl, h.ep, rfl, rfl⟩
  have hnew : ∀ x ∈ d.newc.map (newConnF d.epoll), ∃ y ∈ d.newc, x = newConnF d.epoll y := by
    intro x hx; obtain ⟨y, hy, rfl⟩ := List.mem_map.mp hx; exact ⟨y, hy, rfl⟩
  have hloc : ∀ y ∈ d.newc, (newConnF d.epoll y).loc = y.loc := by
    intro y hy
    have hf := hfresh y hy
    unfold newConnF
    cases hl : y.loc with
    | mk st eli rd wr bs w => rw [hl] at hf; simp only at hf; simp [hf.1]
  have hnid : ∀ y ∈ d.newc, y.id ∉ d.eready := by
    intro y hy hm
    have hnd := h.nodup4
    rcases h.ei.er_sub _ hm with h1 | h1
    · exact (List.nodup_append.mp hnd).2.2 _ (List.mem_append_left _ (List.mem_append_left _ h1)) _ (mem_ids hy) rfl
    · exact (List.nodup_append.mp hnd).2.2 _ (List.mem_append_right _ h1) _ (mem_ids hy) rfl
  refine ⟨?_, ?_, h.ei.bitS, h.ei.er_nodup, ?_, ?_, ?_⟩
  · show (ids (d.newc.map (newConnF d.epoll) ++ d.conns) ++ ids d.susp ++ ids d.cleanup).Nodup
    rw [ids_append, ids_map_newConnF]
    have hp : (ids d.newc ++ ids d.conns ++ ids d.susp ++ ids d.cleanup).Perm
        (ids d.conns ++ ids d.susp ++ ids d.cleanup ++ ids d.newc) := by
      rw [List.perm_iff_count]; intro y; simp only [List.count_append]; omega
    exact hp.nodup_iff.mpr h.nodup4
  · intro x hx
    show x.inEready = true ↔ x.id ∈ d.eready
    rcases List.mem_append.mp hx with h1 | h1
    · obtain ⟨y, hy, rfl⟩ := hnew x h1
      have : (newConnF d.epoll y).inEready = false := (hfresh y hy).2.2.2.2
      rw [this]
      have hid : (newConnF d.epoll y).id = y.id := rfl
      rw [hid]
      simp [hnid y hy]
    · exact h.ei.bitA x h1
  · intro id hm
    rcases h.ei.er_sub id hm with h1 | h1
    · left; show id ∈ ids (d.newc.map (newConnF d.epoll) ++ d.conns); rw [ids_append]; exact List.mem_append_right _ h1
    · exact Or.inr h1
  · intro x hx hq
    rcases List.mem_append.mp hx with h1 | h1
    · obtain ⟨y, hy, rfl⟩ := hnew x h1
      have hf := hfresh y hy
      refine ⟨fun hn => ?_, ?_⟩
      · rw [hloc y hy, hf.2.1] at hn; cases hn
      · unfold Blocked
        rw [hloc y hy, hf.1, hf.2.2.1, hf.2.2.2.1]
        decide
    · exact h.ei.quiet x h1 hq
  · intro x hx hn
    rcases List.mem_append.mp hx with h1 | h1
    · obtain ⟨y, hy, rfl⟩ := hnew x h1
      intro hnd
      rw [hloc y hy, (hfresh y hy).2.1] at hnd; cases hnd
    · exact h.ei.sync x h1 hn


theorem cleanup_ei {needs : Local W → Bool} {d : Daemon W} (h : EI needs d []) : EI needs (cleanupConns d) [] := by
  have hnc : ∀ c ∈ d.conns, (findConn d.cleanup c.id).isNone = true := by
    intro c hc
    have : c.id ∉ ids d.cleanup := by
      intro hm
      have := h.nodup
      rw [List.nodup_append] at this
      exact this.2.2 _ (List.mem_append_left _ (mem_ids hc)) _ hm rfl
    rw [findConn_none this]; rfl
  refine ⟨?_, ?_, ?_, ?_, ?_, h.quiet, h.sync⟩
  · show (ids d.conns ++ ids d.susp ++ ids ([] : List (Conn W))).Nodup
    simp only [ids_nil, List.append_nil]
    exact List.Nodup.sublist (List.sublist_append_left _ _) h.nodup
  · intro c hc
    show c.inEready = true ↔ c.id ∈ d.eready.filter _
    rw [List.mem_filter]
    constructor
    · intro hh; exact ⟨(h.bitA c hc).mp hh, hnc c hc⟩
    · intro hh; exact (h.bitA c hc).mpr hh.1
  · intro c hc
    refine ⟨(h.bitS c hc).1, fun hm => ?_⟩
    have hm' : c.id ∈ d.eready.filter _ := hm
    exact (h.bitS c hc).2 (List.mem_filter.mp hm').1
  · exact List.Nodup.sublist List.filter_sublist h.er_nodup
  · intro id hm
    have hm' : id ∈ d.eready.filter _ := hm
    obtain ⟨h1, h2⟩ := List.mem_filter.mp hm'
    rcases h.er_sub id h1 with hc | hk
    · exact Or.inl hc
    · exfalso
      have := findConn_isSome hk
      cases hf : findConn d.cleanup id with
      | none => rw [hf] at this; cases this
      | some x => rw [hf] at h2; cases h2

theorem resumeOne_cleanup (d : Daemon W) (c : Conn W) : (resumeOne d c).cleanup = d.cleanup := by
  unfold resumeOne; split <;> rfl

theorem resumeFold_cleanup : ∀ (work : List (Conn W)) (d : Daemon W), (work.foldl resumeOne d).cleanup = d.cleanup := by
  intro work
  induction work with
  | nil => intro d; rfl
  | cons c rest ih => intro d; simp only [List.foldl_cons]; rw [ih, resumeOne_cleanup]

theorem resumeSuspended_cleanup (d : Daemon W) : (resumeSuspended d).cleanup = d.cleanup := by
  unfold resumeSuspended; simp only []; rw [resumeFold_cleanup]

theorem applyEvent_cleanup (d : Daemon W) (ev : EpEv) : (applyEvent d ev).cleanup = d.cleanup := by
  unfold applyEvent
  split
  · rfl
  · simp only []
    rw [(syncEready_lists _ _ _ _).2.2]
    simp [Daemon.place, Daemon.setList]

theorem eventsFold_cleanup : ∀ (evs : List EpEv) (d : Daemon W), (evs.foldl applyEvent d).cleanup = d.cleanup := by
  intro evs
  induction evs with
  | nil => intro d; rfl
  | cons ev rest ih => intro d; simp only [List.foldl_cons]; rw [ih, applyEvent_cleanup]

def epollPre (d : Daemon W) (evs : List EpEv) : Daemon W :=
  let d1 := if d.allowSuspend then resumeSuspended d else d
  let d2 := { d1 with dap := false }
  let d3 := evs.foldl applyEvent d2
  if d3.haveNew then newConnsProcess d3 else d3

theorem epollRoundWith_eq (ops : Ops W) (d : Daemon W) (evs : List EpEv) :
    epollRoundWith ops true d evs =
      cleanupConns (ereadyTrav ops true
        ((timeoutScan ops ((epollPre d evs).conns.length + 1) (tailId (epollPre d evs).conns) (epollPre d evs)).eready.length + 1)
        (timeoutScan ops ((epollPre d evs).conns.length + 1) (tailId (epollPre d evs).conns) (epollPre d evs)).eready.getLast?
        (timeoutScan ops ((epollPre d evs).conns.length + 1) (tailId (epollPre d evs).conns) (epollPre d evs))) := rfl

theorem epollPre_spec {ops : Ops W} {needs : Local W → Bool} (L : LawsEp ops needs) {d : Daemon W} (h : InvEP needs d)
    (evs : List EpEv) :
    EI needs (epollPre d evs) (epollPre d evs).eready ∧ (epollPre d evs).epoll = true ∧ (epollPre d evs).fault = none ∧
    (epollPre d evs).newc = [] ∧ (epollPre d evs).cleanup = [] := by
  have h0 : ES needs d := ⟨h.ei.mono (fun _ _ _ hm => by simp at hm), h.nodup4, h.ep⟩
  have h1 : ES needs (if d.allowSuspend then resumeSuspended d else d) ∧
      (if d.allowSuspend then resumeSuspended d else d).fault = d.fault ∧
      (if d.allowSuspend then resumeSuspended d else d).newc = d.newc ∧
      (if d.allowSuspend then resumeSuspended d else d).haveNew = d.haveNew ∧
      (if d.allowSuspend then resumeSuspended d else d).cleanup = d.cleanup := by
    split
    · obtain ⟨a, b, c, e, _⟩ := resumeSuspended_es h0; exact ⟨a, b, c, e, resumeSuspended_cleanup d⟩
    · exact ⟨h0, rfl, rfl, rfl, rfl⟩
  unfold epollPre
  generalize (if d.allowSuspend then resumeSuspended d else d) = d1 at h1
  obtain ⟨e1, f1, n1, hn1, hk1⟩ := h1
  have h2 : ES needs { d1 with dap := false } := ⟨e1.ei.congr rfl rfl rfl rfl, e1.nodup4, e1.ep⟩
  obtain ⟨e3, f3, _⟩ := eventsFold_es L evs { d1 with dap := false } h2
  have hcl3' : (evs.foldl applyEvent { d1 with dap := false }).cleanup = [] := by
    rw [eventsFold_cleanup]; show d1.cleanup = []; rw [hk1]; exact h.nocleanup
  simp only []
  generalize evs.foldl applyEvent { d1 with dap := false } = d3 at e3 f3 hcl3'
  have hcl3 : d3.cleanup = [] := hcl3'
  have hfresh3 : ∀ c ∈ d3.newc, c.loc.eli = .read ∧ needs c.loc = false ∧ c.loc.rdReady = false ∧ c.loc.wrReady = false ∧
      c.inEready = false := by
    intro c hc
    have : d3.newc = d.newc := by rw [f3.newc]; exact n1
    rw [this] at hc; exact h.fresh c hc
  have hflt3 : d3.fault = none := by rw [f3.fault]; show d1.fault = none; rw [f1]; exact h.fault
  cases hn : d3.haveNew
  · simp only [Bool.false_eq_true, if_false]
    have hnew : d3.newc = [] := by
      have e : d3.newc = d.newc := by rw [f3.newc]; exact n1
      rw [e]; apply h.newcFlag
      rw [← hn1, ← (show d3.haveNew = d1.haveNew from f3.haveNew)]; exact hn
    exact ⟨e3.ei, e3.ep, hflt3, hnew, hcl3⟩
  · simp only [if_true]
    obtain ⟨a, b, c, e, g⟩ := newConns_es e3 hfresh3
    exact ⟨a, c, by rw [e]; exact hflt3, b, by rw [g]; exact hcl3⟩


/-- **Round post-condition, epoll loop.**  MHD_epoll does not pass every connection through
    handle_idle; what it keeps is: every active connection is in sync, and every active connection
    that has something to do — a PROCESS state, or the event it waits for is cached as ready — is
    in the eready list (which makes MHD_get_timeout64 answer 0). -/
theorem epoll_round {ops : Ops W} {needs : Local W → Bool} (L : LawsEp ops needs) {d : Daemon W} (h : InvEP needs d)
    (evs : List EpEv) : InvEP needs (epollRoundWith ops true d evs) := by
  rw [epollRoundWith_eq]
  obtain ⟨h4, ep4, flt4, nc4, cl4⟩ := epollPre_spec L h evs
  generalize epollPre d evs = d4 at h4 ep4 flt4 nc4 cl4
  -- timeout scan
  have h5 : EI needs (timeoutScan ops (d4.conns.length + 1) (tailId d4.conns) d4) d4.eready ∧
      Frame d4 (timeoutScan ops (d4.conns.length + 1) (tailId d4.conns) d4) := by
    rcases List.eq_nil_or_concat d4.conns with h0 | ⟨A, c, hA⟩
    · rw [h0, tailId_nil, timeoutScan]; exact ⟨h4, Frame.refl d4⟩
    · rw [List.concat_eq_append] at hA
      rw [hA, tailId_concat]
      exact timeoutScan_spec L d4.eready A.length A rfl c [] d4 ((A ++ [c]).length + 1) (by simpa using hA) (by simp) h4 ep4
  generalize timeoutScan ops (d4.conns.length + 1) (tailId d4.conns) d4 = d5 at h5
  obtain ⟨e5, f5⟩ := h5
  have e5' : EI needs d5 d5.eready := e5.retarget
  have ep5 : d5.epoll = true := by rw [f5.epoll]; exact ep4
  -- eready traversal
  have h6 : EI needs (ereadyTrav ops true (d5.eready.length + 1) d5.eready.getLast? d5) [] ∧
      Frame d5 (ereadyTrav ops true (d5.eready.length + 1) d5.eready.getLast? d5) := by
    rcases List.eq_nil_or_concat d5.eready with h0 | ⟨E1, p, hE⟩
    · rw [h0]
      simp only [List.getLast?_nil]
      rw [ereadyTrav]
      rw [h0] at e5'
      exact ⟨e5', Frame.refl d5⟩
    · rw [List.concat_eq_append] at hE
      have hg : d5.eready.getLast? = some p := by rw [hE]; exact List.getLast?_concat
      rw [hg]
      have := ereadyTrav_spec L E1.length E1 rfl p [] d5 (d5.eready.length + 1) (by simpa using hE) (by rw [hE]; simp)
        (by rw [hE] at e5'; exact e5') ep5
      exact this
  generalize ereadyTrav ops true (d5.eready.length + 1) d5.eready.getLast? d5 = d6 at h6
  obtain ⟨e6, f6⟩ := h6
  have f46 := f5.trans f6
  refine ⟨?_, cleanup_ei e6, ?_, ?_, ?_, rfl, ?_⟩
  · show d6.epoll = true; rw [f46.epoll]; exact ep4
  · show (ids d6.conns ++ ids d6.susp ++ ids ([] : List (Conn W)) ++ ids d6.newc).Nodup
    rw [f46.newc, nc4]
    simp only [ids_nil, List.append_nil]
    exact List.Nodup.sublist (List.sublist_append_left _ _) e6.nodup
  · intro c hc
    have : c ∈ d6.newc := hc
    rw [f46.newc, nc4] at this; simp at this
  · intro _; show d6.newc = []; rw [f46.newc, nc4]
  · show d6.fault = none; rw [f46.fault]; exact flt4

/-- **No lost wake-up (epoll daemon).**  If MHD_get_timeout64 answers "no timeout", no active connection
    needs processing, and none waits for an event that the daemon has already been told about. -/
theorem no_lost_wakeup_ep {needs : Local W → Bool} {d : Daemon W} (h : InvEP needs d) (q : getTimeout d = .none) :
    ∀ c ∈ d.conns, needs c.loc = false ∧ ¬ (c.loc.eli.hasRead = true ∧ c.loc.rdReady = true) ∧
      ¬ (c.loc.eli.isWrite = true ∧ c.loc.wrReady = true) := by
  obtain ⟨_, _, _, _, _, he⟩ := getTimeout_none q
  have her := he h.ep
  intro c hc
  have hb : c.inEready = false := by
    cases hh : c.inEready with
    | false => rfl
    | true => have := (h.ei.bitA c hc).mp hh; rw [her] at this; simp at this
  have hq := h.ei.quiet c hc hb
  exact ⟨needs_false_of_quiet hq, hq.2.2.1, hq.2.2.2⟩

/-- a connection handed to MHD_add_connection of an epoll daemon -/
def FreshConnEp (needs : Local W → Bool) (d : Daemon W) (c : Conn W) : Prop :=
  c.id ∉ ids d.conns ∧ c.id ∉ ids d.susp ∧ c.id ∉ ids d.cleanup ∧ c.id ∉ ids d.newc ∧
  c.loc.eli = .read ∧ needs c.loc = false ∧ c.loc.rdReady = false ∧ c.loc.wrReady = false ∧ c.inEready = false

theorem addConn_invEp {needs : Local W → Bool} {d : Daemon W} (h : InvEP needs d) {c : Conn W}
    (hc : FreshConnEp needs d c) : InvEP needs (addConn d c) := by
  obtain ⟨h1, h2, h3, h4, h5⟩ := hc
  refine ⟨h.ep, h.ei.congr rfl rfl rfl rfl, ?_, ?_, ?_, h.nocleanup, h.fault⟩
  · show (ids d.conns ++ ids d.susp ++ ids d.cleanup ++ ids (c :: d.newc)).Nodup
    have hp : (ids d.conns ++ ids d.susp ++ ids d.cleanup ++ ids (c :: d.newc)).Perm
        (c.id :: (ids d.conns ++ ids d.susp ++ ids d.cleanup ++ ids d.newc)) := by
      rw [List.perm_iff_count]; intro y
      simp only [ids_cons, List.count_append, List.count_cons]; omega
    rw [hp.nodup_iff, List.nodup_cons]
    refine ⟨?_, h.nodup4⟩
    simp only [List.mem_append, not_or]
    exact ⟨⟨⟨h1, h2⟩, h3⟩, h4⟩
  · intro x hx
    have hx' : x ∈ c :: d.newc := hx
    rcases List.mem_cons.mp hx' with e | e
    · rw [e]; exact h5
    · exact h.fresh x e
  · intro hn
    have : (addConn d c).haveNew = true := rfl
    rw [this] at hn; cases hn

theorem resumeReq_invEp {needs : Local W → Bool} {d : Daemon W} (h : InvEP needs d) (id : CId) :
    InvEP needs (resumeReq d id) := by
  have hids : ids (d.susp.map (fun c => if c.id = id then { c with resuming := true } else c)) = ids d.susp := by
    simp only [ids, List.map_map]
    apply List.map_congr_left
    intro c _
    simp only [Function.comp]
    split <;> rfl
  refine ⟨h.ep, ⟨?_, h.ei.bitA, ?_, h.ei.er_nodup, h.ei.er_sub, h.ei.quiet, h.ei.sync⟩, ?_, h.fresh, h.newcFlag,
    h.nocleanup, h.fault⟩
  · show (ids d.conns ++ ids (d.susp.map _) ++ ids d.cleanup).Nodup
    rw [hids]; exact h.ei.nodup
  · intro x hx
    have hx' : x ∈ d.susp.map (fun c => if c.id = id then { c with resuming := true } else c) := hx
    obtain ⟨y, hy, rfl⟩ := List.mem_map.mp hx'
    have := h.ei.bitS y hy
    split <;> exact this
  · show (ids d.conns ++ ids (d.susp.map _) ++ ids d.cleanup ++ ids d.newc).Nodup
    rw [hids]; exact h.nodup4

/-- reachable states of an epoll daemon -/
inductive ReachEp (ops : Ops W) (needs : Local W → Bool) : Daemon W → Prop where
  | init (allowSuspend : Bool) : ReachEp ops needs { epoll := true, allowSuspend := allowSuspend }
  | add {d : Daemon W} (c : Conn W) : ReachEp ops needs d → FreshConnEp needs d c → ReachEp ops needs (addConn d c)
  | resume {d : Daemon W} (id : CId) : ReachEp ops needs d → ReachEp ops needs (resumeReq d id)
  | round {d : Daemon W} (evs : List EpEv) : ReachEp ops needs d → ReachEp ops needs (epollRoundWith ops true d evs)

theorem init_invEp (needs : Local W → Bool) (a : Bool) : InvEP needs ({ epoll := true, allowSuspend := a } : Daemon W) :=
  ⟨rfl, ⟨by simp, by intro c h; simp at h, by intro c h; simp at h, by simp, by intro c h; simp at h,
    by intro c h; simp at h, by intro c h; simp at h⟩, by simp, by intro c h; simp at h, fun _ => rfl, rfl, rfl⟩

theorem reachEp_inv {ops : Ops W} {needs : Local W → Bool} (L : LawsEp ops needs) {d : Daemon W}
    (h : ReachEp ops needs d) : InvEP needs d := by
  induction h with
  | init a => exact init_invEp needs a
  | add c _ hc ih => exact addConn_invEp ih hc
  | resume id _ ih => exact resumeReq_invEp ih id
  | round evs _ ih => exact epoll_round L ih evs

end Mhd.Loop
