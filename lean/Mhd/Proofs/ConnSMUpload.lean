/-
  C05 — upload accounting: an invariant of the connection record over every event sequence (independent of
  the refinement relation): bytes taken by the application + bytes still to come = Content-Length, for every
  request whose upload has not been discarded; nothing remains from BODY_RECEIVED on.
-/
import Mhd.Proofs.ConnSMFuel
namespace Mhd.ConnSM
open Mhd.Gen.ConnState Mhd.Protocol

/-- declared length of the request body (Content-Length); 0 without body -/
def frameLen : Framing → Nat
  | .length n => n
  | _ => 0

/-- upload accounting of the request in progress:
    * before the handler has been called nothing has been taken;
    * from HEADERS_PROCESSED to FULL_REPLY_SENT, for a request with Content-Length whose upload has not been
      discarded (early response, error): bytes taken by the application + bytes still to come = Content-Length;
    * from BODY_RECEIVED on nothing remains, unless the upload has been discarded -/
def UInv {σ} (c : Conn σ) : Prop :=
  (c.state.toNat ≤ 4 → c.upOff = 0) ∧
  (5 ≤ c.state.toNat → c.state.toNat ≤ 21 → c.haveChunked = false → c.discard = false →
     c.upOff + c.remaining = frameLen c.framing) ∧
  (8 ≤ c.state.toNat → c.state.toNat ≤ 21 → c.discard = false → c.remaining = 0)

/-- out of the scope of the accounting: closed / upgraded, or the rest of the upload is discarded -/
def Safe {σ} (c : Conn σ) : Prop := 22 ≤ c.state.toNat ∨ (c.discard = true ∧ 5 ≤ c.state.toNat)

theorem Safe.uinv {σ} {c : Conn σ} (h : Safe c) : UInv c := by
  unfold UInv
  rcases h with h | ⟨h1, h2⟩
  · refine ⟨fun _ => ?_, fun _ _ => ?_, fun _ _ => ?_⟩ <;> omega
  · refine ⟨fun _ => ?_, fun _ _ _ hd => ?_, fun _ _ hd => ?_⟩
    · omega
    · rw [h1] at hd; cases hd
    · rw [h1] at hd; cases hd

theorem UInv.congr {σ} {c c2 : Conn σ} (h : UInv c) (e1 : c2.state = c.state) (e2 : c2.upOff = c.upOff)
    (e3 : c2.remaining = c.remaining) (e4 : c2.framing = c.framing) (e5 : c2.haveChunked = c.haveChunked)
    (e6 : c2.discard = c.discard) : UInv c2 := by
  unfold UInv at h ⊢
  rw [e1, e2, e3, e4, e5, e6]; exact h

theorem closeConn_safe {σ} (c : Conn σ) (code : Nat) : Safe (closeConn c code).1 := by
  left; simp [closeConn]

theorem closeError_safe {σ} (c : Conn σ) : Safe (closeError c).1 := by
  left; simp [closeError, closeConn]

theorem dropResp_frame {σ} (c : Conn σ) : (dropResp c).1.state = c.state ∧ (dropResp c).1.upOff = c.upOff ∧
    (dropResp c).1.remaining = c.remaining ∧ (dropResp c).1.framing = c.framing ∧
    (dropResp c).1.haveChunked = c.haveChunked ∧ (dropResp c).1.discard = c.discard := by
  unfold dropResp; split <;> simp

theorem releaseEverything_frame {σ} (cfg : Cfg) (c : Conn σ) :
    (releaseEverything cfg c).1.state = c.state ∧ (releaseEverything cfg c).1.discard = c.discard := by
  unfold releaseEverything notify
  by_cases h1 : cfg.f14Fixed = true <;> by_cases h2 : c.clientAware = true <;> simp [h1, h2]

theorem transmitError_safe {σ} (cfg : Cfg) (env : IdleEnv) (c : Conn σ) : Safe (transmitError cfg env c).1 := by
  unfold transmitError
  split
  · left
    simp only
    by_cases hl : c.state.toNat < 22
    · have : lt c.state .closed = true := by simp only [lt, CState.toNat_closed]; exact decide_eq_true hl
      simp [this]
    · have : lt c.state .closed = false := by simp only [lt, CState.toNat_closed]; exact decide_eq_false hl
      simp [this]; omega
  · simp only
    split
    · exact closeError_safe _
    · split
      · split
        · exact closeError_safe _
        · left; simp
      · split
        · exact closeError_safe _
        · split
          · split
            · exact closeError_safe _
            · right; simp [releaseEverything_frame, dropResp_frame]
          · right; simp [dropResp_frame]

theorem queueResponse_uinv {σ} (env : IdleEnv) (c : Conn σ) (r : Resp) (h : UInv c) : UInv (queueResponse env c r).1 := by
  unfold queueResponse
  split
  · exact h
  · split
    · exact h
    · rename_i hst
      split
      · exact h
      · split
        · exact h
        · by_cases h5 : c.state = .headersProcessed
          · apply Safe.uinv; right; simp [h5]
          · simp only [h5, if_false]
            exact h.congr rfl rfl rfl rfl rfl rfl

theorem suspendConn_frame {σ} (cfg : Cfg) (c : Conn σ) : (suspendConn cfg c).state = c.state ∧ (suspendConn cfg c).upOff = c.upOff ∧
    (suspendConn cfg c).remaining = c.remaining ∧ (suspendConn cfg c).framing = c.framing ∧
    (suspendConn cfg c).haveChunked = c.haveChunked ∧ (suspendConn cfg c).discard = c.discard := by
  unfold suspendConn; split <;> simp

/-- a call without upload data (first / final call site) does not move the accounting -/
theorem callApp_uinv0 {σ} (cfg : Cfg) (app : App σ) (env : IdleEnv) (c : Conn σ) (site : Site) (h : UInv c) :
    UInv (callApp cfg app env c site 0).1 := by
  unfold callApp
  simp only [Nat.min_zero, Nat.add_zero]
  split
  · exact h.congr rfl rfl rfl rfl rfl rfl
  · exact h.congr rfl rfl rfl rfl rfl rfl
  · refine h.congr ?_ ?_ ?_ ?_ ?_ ?_ <;> simp [suspendConn_frame]
  · exact queueResponse_uinv env _ _ (h.congr rfl rfl rfl rfl rfl rfl)

theorem callConnectionHandler_uinv {σ} (cfg : Cfg) (app : App σ) (env : IdleEnv) (c : Conn σ) (site : Site) (h : UInv c) :
    UInv (callConnectionHandler cfg app env c site).1 := by
  unfold callConnectionHandler
  split
  · exact h
  · have := callApp_uinv0 cfg app env c site h
    generalize callApp cfg app env c site 0 = r at this
    obtain ⟨c1, l, ret, tk⟩ := r
    simp only at this ⊢
    split
    · exact (closeError_safe _).uinv
    · exact this

/-- an upload call: the bytes taken (at most the bytes offered) are added to `upOff`, nothing else of the accounting moves -/
theorem callApp_upload_frame {σ} (cfg : Cfg) (app : App σ) (env : IdleEnv) (c : Conn σ) (off : Nat)
    (hst : c.state = .bodyReceiving) :
    (callApp cfg app env c .upload off).1.state = .bodyReceiving ∧
    (callApp cfg app env c .upload off).1.upOff = c.upOff + (callApp cfg app env c .upload off).2.2.2 ∧
    (callApp cfg app env c .upload off).2.2.2 ≤ off ∧
    (callApp cfg app env c .upload off).1.remaining = c.remaining ∧
    (callApp cfg app env c .upload off).1.framing = c.framing ∧
    (callApp cfg app env c .upload off).1.haveChunked = c.haveChunked ∧
    (callApp cfg app env c .upload off).1.discard = c.discard := by
  have hm : min (app.handle c.app { site := .upload, offered := off, ctxIn := c.ctx }).2.take off ≤ off := Nat.min_le_right _ _
  unfold callApp
  simp only
  split
  · exact ⟨hst, rfl, hm, rfl, rfl, rfl, rfl⟩
  · exact ⟨hst, rfl, hm, rfl, rfl, rfl, rfl⟩
  · exact ⟨by simp [suspendConn_frame, hst], by simp [suspendConn_frame], hm, by simp [suspendConn_frame],
      by simp [suspendConn_frame], by simp [suspendConn_frame], by simp [suspendConn_frame]⟩
  · have hq : ∀ (c0 : Conn σ) (r : Resp), c0.state = .bodyReceiving → (queueResponse env c0 r).1 = c0 := by
      intro c0 r h0
      unfold queueResponse
      split
      · rfl
      · simp [h0]
    rw [hq _ _ (by simpa using hst)]
    exact ⟨hst, rfl, hm, rfl, rfl, rfl, rfl⟩

theorem processBody_uinv {σ} (cfg : Cfg) (app : App σ) (env : IdleEnv) :
    ∀ (n : Nat) (buf : List Tok) (c : Conn σ), c.state = .bodyReceiving → UInv c →
      UInv (processBody cfg app env n buf c).1 := by
  intro n
  induction n with
  | zero => intro buf c hst h; simp only [processBody]; exact h.congr rfl rfl rfl rfl rfl rfl
  | succ n ih =>
    intro buf c hst h
    have hte : ∀ (b : List Tok), UInv (transmitError cfg env { c with buf := b }).1 := fun b => (transmitError_safe _ _ _).uinv
    cases buf with
    | nil => simp only [processBody]; exact h.congr rfl rfl rfl rfl rfl rfl
    | cons tok t =>
      cases tok with
      | junk =>
        simp only [processBody]
        split
        · exact h.congr rfl rfl rfl rfl rfl rfl
        · exact ih _ c hst h
      | data k =>
        simp only [processBody]
        split
        · exact ih _ c hst h
        · split
          · exact hte _
          · split
            · split
              · exact hte _
              · exact h.congr rfl rfl rfl rfl rfl rfl
            · obtain ⟨f1, f2, f3, f4, f5, f6, f7⟩ := callApp_upload_frame cfg app env c (bodyOffer c k) hst
              have hau : UInv (afterUpload (callApp cfg app env c .upload (bodyOffer c k)).1
                  (callApp cfg app env c .upload (bodyOffer c k)).2.2.2) := by
                unfold UInv at h ⊢
                unfold afterUpload
                by_cases hch : c.haveChunked = true
                · rw [if_pos (by rw [f6]; exact hch)]
                  simp only [f1, f6, hch]
                  simp
                · have hch' : c.haveChunked = false := by cases hh : c.haveChunked <;> simp_all
                  rw [if_neg (by rw [f6]; exact hch)]
                  simp only [f1, f2, f4, f5, f6, f7, hch']
                  have hoff : bodyOffer c k ≤ c.remaining := by unfold bodyOffer; simp [hch']; exact Nat.min_le_left _ _
                  refine ⟨by simp, fun _ _ _ hd => ?_, by simp⟩
                  have := h.2.1 (by simp [hst]) (by simp [hst]) hch' hd
                  omega
              split
              · exact (closeError_safe _).uinv
              · split
                · exact ih _ _ (by rw [(afterUpload_frame _ _).1]; exact f1) hau
                · exact hau.congr rfl rfl rfl rfl rfl rfl
      | chunkEnd =>
        simp only [processBody]
        split
        · split
          · exact h.congr rfl rfl rfl rfl rfl rfl
          · exact ih _ _ hst (h.congr rfl rfl rfl rfl rfl rfl)
        · exact hte _
      | chunkHdr k =>
        simp only [processBody]
        split
        · rename_i hc
          split
          · unfold UInv at h ⊢
            simp only [hst, hc.1]
            simp
          · split
            · exact h.congr rfl rfl rfl rfl rfl rfl
            · exact ih _ _ hst (h.congr rfl rfl rfl rfl rfl rfl)
        · exact hte _
      | line k => simp only [processBody]; exact hte _
      | headers f ka e => simp only [processBody]; exact hte _
      | hdrBad => simp only [processBody]; exact hte _
      | chunkBad => simp only [processBody]; exact hte _
      | footers ok => simp only [processBody]; exact hte _

theorem connectionReset_uinv {σ} (c : Conn σ) (reuse : Bool) : UInv (connectionReset c reuse).1 := by
  unfold connectionReset
  cases reuse
  · apply Safe.uinv; left; simp [closeConn]
  · simp [UInv, clearRq, frameLen]

theorem cleanupConnection_uinv {σ} (c : Conn σ) (h : UInv c) : UInv (cleanupConnection c).1 := by
  unfold cleanupConnection
  split
  · exact h
  · refine h.congr ?_ ?_ ?_ ?_ ?_ ?_ <;> simp [dropResp_frame]

set_option hygiene false in
macro "uleaf" : tactic => `(tactic| first
  | (exact h; done)
  | (exact h.congr rfl rfl rfl rfl rfl rfl; done)
  | (simp [UInv, hst, frameLen] at h ⊢; done)
  | (simp [UInv, hst, frameLen] at h ⊢; omega)
  | (simp_all [UInv, frameLen]; done)
  | (simp_all [UInv, frameLen]; omega))

set_option maxHeartbeats 4000000 in
theorem idleCase_uinv {σ} (cfg : Cfg) (app : App σ) (env : IdleEnv) (c c1 : Conn σ) (l : List LEv) (f : Flow) (h : UInv c)
    (hq : idleCase cfg app env c = (c1, l, f)) : UInv c1 := by
  have hte : ∀ (c0 c2 : Conn σ) (l2 : List LEv), transmitError cfg env c0 = (c2, l2) → UInv c2 := by
    intro c0 c2 l2 e; have := (transmitError_safe cfg env c0).uinv; rw [e] at this; exact this
  have hce : ∀ (c0 c2 : Conn σ) (l2 : List LEv), closeError c0 = (c2, l2) → UInv c2 := by
    intro c0 c2 l2 e; have := (closeError_safe c0).uinv; rw [e] at this; exact this
  unfold idleCase at hq
  split at hq
  all_goals rename_i hst
  all_goals repeat' (split at hq)
  all_goals (simp only [Prod.mk.injEq] at hq; obtain ⟨rfl, -, -⟩ := hq)
  all_goals try uleaf
  all_goals try (exact hte _ _ _ ‹transmitError cfg env _ = _›; done)
  all_goals try (exact hce _ _ _ ‹closeError _ = _›; done)
  all_goals try (
    have hu := callConnectionHandler_uinv cfg app env c .first h
    rw [‹callConnectionHandler cfg app env c .first = _›] at hu
    first
    | (exact hu; done)
    | (have e := Decidable.not_not.mp ‹¬ _ ≠ _›
       clear h
       simp [UInv, e, frameLen] at hu ⊢
       first | done | omega | (simp_all; done) | (simp_all; omega) | (split <;> simp_all <;> omega)))
  all_goals try (
    have hu := callConnectionHandler_uinv cfg app env c .final h
    rw [‹callConnectionHandler cfg app env c .final = _›] at hu
    first
    | (exact hu; done)
    | (have e := Decidable.not_not.mp ‹¬ _ ≠ _›
       clear h
       simp [UInv, e, frameLen] at hu ⊢
       first | done | omega | (simp_all; done) | (simp_all; omega)))
  all_goals try (
    have hu := processBody_uinv cfg app env (bodyFuel c.buf) c.buf c hst h
    rw [‹processBody cfg app env _ _ _ = _›] at hu
    first
    | (exact hu; done)
    | (have e := Decidable.not_not.mp ‹¬ _ ≠ _›
       clear h
       simp [UInv, e, frameLen] at hu ⊢
       first | done | omega | (simp_all; done) | (simp_all; omega)))
  all_goals try (
    have hu := connectionReset_uinv c (decide (c.keepalive = KA.use ∧ ¬c.readClosed = true ∧ ¬c.discard = true))
    rw [‹connectionReset c _ = _›] at hu
    exact hu)
  all_goals try (
    have hu := cleanupConnection_uinv c h
    rw [‹cleanupConnection c = _›] at hu
    exact hu)
  · rename_i hdq
    have e := dropResp_frame { c with state := .upgrade, suspended := true, inEpollSet := false }
    rw [hdq] at e
    apply Safe.uinv; left; rw [e.1]; simp
  · rename_i hdq
    have e := dropResp_frame { c with state := .headersProcessed }
    rw [hdq] at e
    obtain ⟨e1, e2, e3, e4, e5, e6⟩ := e
    unfold UInv at h ⊢
    rw [e1, e2, e3, e4, e5, e6]
    simp [hst] at h ⊢
    first | exact h.1 | (intro a b; exact h.1 a b) | (simp_all; done)

theorem idleLoop_uinv {σ} (cfg : Cfg) (app : App σ) (env : IdleEnv) :
    ∀ (n : Nat) (c : Conn σ), UInv c → UInv (idleLoop cfg app env n c).1 := by
  intro n
  induction n with
  | zero => intro c h; simp only [idleLoop]; exact h.congr rfl rfl rfl rfl rfl rfl
  | succ n ih =>
    intro c h
    simp only [idleLoop]
    split
    · exact h
    · generalize hce : idleCase cfg app env c = rr
      obtain ⟨c1, l1, f⟩ := rr
      have h1 := idleCase_uinv cfg app env c c1 l1 f h hce
      cases f <;> simp only
      · exact ih c1 h1
      all_goals exact h1

theorem chunkSizeLineNoSpace_uinv {σ} (cfg : Cfg) (env : IdleEnv) (c : Conn σ) : UInv (chunkSizeLineNoSpace cfg env c).1 := by
  unfold chunkSizeLineNoSpace
  split
  · have h1 := (transmitError_safe cfg env c).uinv
    generalize transmitError cfg env c = r at h1 ⊢
    obtain ⟨c1, l1⟩ := r
    simp only
    split
    · exact h1
    · have h2 := (transmitError_safe cfg env c1).uinv
      generalize transmitError cfg env c1 = r2 at h2 ⊢
      obtain ⟨c2, l2⟩ := r2
      exact h2
  · exact (transmitError_safe _ _ _).uinv

theorem recvNoSpace_uinv {σ} (cfg : Cfg) (env : IdleEnv) (c : Conn σ) (h : UInv c) : UInv (recvNoSpace cfg env c).1 := by
  unfold recvNoSpace
  repeat' split
  all_goals first
    | exact h
    | exact (closeError_safe _).uinv
    | exact (transmitError_safe _ _ _).uinv
    | exact chunkSizeLineNoSpace_uinv _ _ _

theorem handleIdleWith_uinv {σ} (n : Nat) (cfg : Cfg) (app : App σ) (env : IdleEnv) (c : Conn σ) (h : UInv c) :
    UInv (handleIdleWith n cfg app env c).1 := by
  unfold handleIdleWith
  have h0 := idleLoop_uinv cfg app env n { c with touched := false } (h.congr rfl rfl rfl rfl rfl rfl)
  generalize idleLoop cfg app env n { c with touched := false } = rr at h0
  obtain ⟨c1, l1, f⟩ := rr
  simp only at h0 ⊢
  have hu : UInv (updateEventLoopInfo cfg env c1).1 := by
    unfold updateEventLoopInfo
    split
    · exact h0
    · split
      · exact recvNoSpace_uinv cfg env c1 h0
      · exact h0
  have hrest : UInv (if env.timedOut = true ∧ ¬ c1.touched = true ∧ ¬ c1.suspended = true then
        ((closeConn c1 terminatedTimeoutReached).1, l1 ++ (closeConn c1 terminatedTimeoutReached).2)
       else
        if (updateEventLoopInfo cfg env c1).1.state = .closed then
          ((cleanupConnection (updateEventLoopInfo cfg env c1).1).1,
            l1 ++ (updateEventLoopInfo cfg env c1).2 ++ (cleanupConnection (updateEventLoopInfo cfg env c1).1).2)
        else
        if ¬ (updateEventLoopInfo cfg env c1).1.suspended = true ∧ cfg.epoll = true then
          ((epollUpdate cfg env (updateEventLoopInfo cfg env c1).1).1,
            l1 ++ (updateEventLoopInfo cfg env c1).2 ++ (epollUpdate cfg env (updateEventLoopInfo cfg env c1).1).2)
        else ((updateEventLoopInfo cfg env c1).1, l1 ++ (updateEventLoopInfo cfg env c1).2) : Out σ).1 := by
    split
    · exact (closeConn_safe _ _).uinv
    · split
      · exact cleanupConnection_uinv _ hu
      · split
        · unfold epollUpdate
          split
          · exact hu
          · split
            · exact hu
            · exact hu.congr rfl rfl rfl rfl rfl rfl
            · split
              · exact cleanupConnection_uinv _ (closeConn_safe _ _).uinv
              · apply cleanupConnection_uinv; apply Safe.uinv; left; simp
        · exact hu
  cases f
  · simpa using hrest
  · simpa using hrest
  · exact h0
  · exact h0

theorem handleRead_uinv {σ} (c : Conn σ) (e : Ev) (h : UInv c) : UInv (handleRead c e).1 := by
  unfold handleRead
  cases e <;> simp only
  all_goals repeat' split
  all_goals first
    | exact h
    | exact h.congr rfl rfl rfl rfl rfl rfl
    | exact (closeConn_safe _ _).uinv
    | exact (closeError_safe _).uinv

theorem handleWrite_uinv {σ} (c : Conn σ) (r : WriteRes) (h : UInv c) : UInv (handleWrite c r).1 := by
  unfold handleWrite
  split
  · exact h
  · split
    all_goals rename_i hst
    all_goals (cases r <;> simp only)
    all_goals first
      | exact h
      | exact h.congr rfl rfl rfl rfl rfl rfl
      | exact (closeError_safe _).uinv
      | (simp [UInv, hst, frameLen] at h ⊢; done)
      | (simp [UInv, hst, frameLen] at h ⊢; exact h)
      | (simp_all [UInv, frameLen]; done)

theorem notify_frame {σ} (c : Conn σ) (code : Nat) : (notify c code).1.state = c.state ∧ (notify c code).1.upOff = c.upOff ∧
    (notify c code).1.remaining = c.remaining ∧ (notify c code).1.framing = c.framing ∧
    (notify c code).1.haveChunked = c.haveChunked ∧ (notify c code).1.discard = c.discard := by
  unfold notify; split <;> simp

theorem step_uinv {σ} (cfg : Cfg) (app : App σ) (c : Conn σ) (e : Ev) (h : UInv c) : UInv (step cfg app c e).1 := by
  unfold step
  split
  · exact h
  · cases e with
    | start => simp only; split; exact h; exact h.congr rfl rfl rfl rfl rfl rfl
    | startFailed => simp only; split; exact h; apply Safe.uinv; left; simp
    | recv toks => simp only; split; exact h; split; exact h; exact handleRead_uinv c _ h
    | recvEof => simp only; split; exact h; split; exact h; exact handleRead_uinv c _ h
    | recvErr r => simp only; split; exact h; split; exact h; exact handleRead_uinv c _ h
    | idle env => simp only; split; exact h; split; exact h; exact handleIdleWith_uinv _ cfg app env c h
    | write r => simp only; split; exact h; split; exact h; exact handleWrite_uinv c r h
    | forceClose => simp only; split; exact h; split; exact h; exact (closeConn_safe _ _).uinv
    | resume => simp only; split; exact h; split; exact h; exact h.congr rfl rfl rfl rfl rfl rfl
    | shutdownClose =>
      simp only; split; exact h; split; exact h
      exact ((closeConn_safe c terminatedDaemonShutdown).uinv).congr rfl rfl rfl rfl rfl rfl
    | appQueue r env =>
      simp only; split; exact h; split; exact h
      have hq := queueResponse_uinv env c r h
      split
      · exact handleIdleWith_uinv _ cfg app env _ hq
      · exact hq
    | upgradeDone =>
      simp only; split; exact h; split; exact h
      refine h.congr ?_ ?_ ?_ ?_ ?_ ?_ <;> simp [notify_frame]
    | cleanup =>
      simp only; split; exact h
      split
      · refine h.congr ?_ ?_ ?_ ?_ ?_ ?_ <;> simp [dropResp_frame]
      · exact h

theorem run_uinv {σ} (cfg : Cfg) (app : App σ) : ∀ (evs : List Ev) (c : Conn σ), UInv c → UInv (run cfg app c evs).1 := by
  intro evs
  induction evs with
  | nil => intro c h; exact h
  | cons e es ih =>
    intro c h
    simp only [run]
    exact ih _ (step_uinv cfg app c e h)

theorem init_uinv {σ} (s : σ) : UInv (Conn.init s) := by
  simp [UInv, Conn.init, frameLen]

end Mhd.ConnSM
