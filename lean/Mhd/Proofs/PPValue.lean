/-
  `process_value`: for well-formed (token) input the staging loop delivers exactly the
  decoded bytes of the whole tokens it was given, in contiguous pieces, and keeps the
  beginning of an incomplete escape in `pp->xbuf`.
-/
import Mhd.Proofs.PPTok
import Mhd.Proofs.PPSpec
namespace Mhd.PP

theorem xbuf_ge : 3 ≤ XBUF := by decide

def urlMeta (k : Bytes) : Meta := { key := some k }

theorem rawOf_eq_nil {ts : List Tok} (h : rawOf ts = []) : ts = [] := by
  cases ts with
  | nil => rfl
  | cons t ts => cases t <;> simp [Tok.raw] at h

theorem carry_whole {p : Bytes} {ts : List Tok} (hc : Carry p ts) (hr : rawOf ts = p) : p = [] ∧ ts = [] := by
  rcases hc with h | ⟨t, rest, q, rfl, hq, hne⟩
  · subst h; exact ⟨rfl, rawOf_eq_nil hr⟩
  · rw [rawOf_cons, hq, List.append_assoc] at hr
    have : q ++ rawOf rest = [] := by
      have := List.append_cancel_left (as := p) (bs := q ++ rawOf rest) (cs := []) (by simpa using hr)
      exact this
    simp at this
    exact absurd this.1 hne

theorem slice_eq_take_drop (d : Bytes) (s e : Nat) : slice d s e = (d.drop s).take (e - s) := rfl

theorem slice_split (d : Bytes) (s m e : Nat) (h1 : s ≤ m) (h2 : m ≤ e) :
    slice d s e = slice d s m ++ slice d m e := by
  simp only [slice]
  have : e - s = (m - s) + (e - m) := by omega
  rw [this, List.take_add]
  congr 1
  rw [List.drop_drop]
  congr 2
  omega

theorem slice_length (d : Bytes) (s e : Nat) (h : e ≤ d.length) : (slice d s e).length = e - s := by
  simp [slice]; omega

theorem pvLoop_stop (fuel : Nat) (d : Bytes) (pp : PP) (v : Nat) (last : Bool) (hf : 1 ≤ fuel) (hm : pp.mustIkvi = false) :
    pvLoop fuel d pp [] v v last = pp := by
  cases fuel with
  | zero => omega
  | succ n => simp [pvLoop, hm]



/-- the state after one round of the `process_value` loop (before the `cut`/continue decision) -/
def roundEvs (pp : PP) (dec : Bytes) : List Event :=
  if pp.mustIkvi = true ∨ dec.length ≠ 0 then
    [{ key := some pp.keyStr, filename := none, ctype := none, enc := none, off := pp.valueOffset, data := dec }]
  else []

def roundPP (pp : PP) (newXbuf : Option Bytes) (dec : Bytes) : PP :=
  { pp with xbuf := newXbuf.getD pp.xbuf, valueOffset := pp.valueOffset + dec.length, mustIkvi := false,
            evs := pp.evs ++ roundEvs pp dec }

theorem round_eq (pp : PP) (cut : Bool) (nx : Bytes) (dec : Bytes) :
    (let pp1 := if cut then { pp with xbuf := nx } else pp
     let pp2 := if pp1.mustIkvi ∨ dec.length ≠ 0 then emitUrl { pp1 with mustIkvi := false } dec else pp1
     { pp2 with valueOffset := pp2.valueOffset + dec.length }) = roundPP pp (if cut then some nx else none) dec := by
  cases pp with
  | mk a1 a2 a3 a4 a5 a6 a7 a8 a9 a10 a11 a12 mi a14 a15 a16 a17 a18 a19 a20 a21 a22 a23 =>
  cases cut <;> cases mi <;> by_cases hd : dec.length = 0 <;> simp [roundPP, roundEvs, emitUrl, PP.keyStr, hd]

theorem pvLoop_round (fuel : Nat) (d : Bytes) (pp : PP) (xb : Bytes) (vs ve : Nat) (last : Bool)
    (hc : vs ≠ ve ∨ pp.mustIkvi = true ∨ xb.length > 0)
    (hg1 : xb.length ≤ XBUF) (hg2 : vs ≤ ve) (hg3 : ve ≤ d.length)
    (xoff2 : Nat) (cut : Bool) (clen : Nat)
    (he : (if last = true ∧ vs + min (ve - vs) (XBUF - xb.length) = ve
            then ((xb ++ slice d vs (vs + min (ve - vs) (XBUF - xb.length))).length, false, 0)
            else escTail (xb ++ slice d vs (vs + min (ve - vs) (XBUF - xb.length)))) = (xoff2, cut, clen)) :
    pvLoop (fuel + 1) d pp xb vs ve last =
      if cut then roundPP pp (some ((xb ++ slice d vs (vs + min (ve - vs) (XBUF - xb.length))).drop xoff2))
          (if xoff2 ≠ 0 then unescape ((xb ++ slice d vs (vs + min (ve - vs) (XBUF - xb.length))).take xoff2) else [])
      else pvLoop fuel d (roundPP pp none
          (if xoff2 ≠ 0 then unescape ((xb ++ slice d vs (vs + min (ve - vs) (XBUF - xb.length))).take xoff2) else []))
          (if clen ≠ 0 then (xb ++ slice d vs (vs + min (ve - vs) (XBUF - xb.length))).drop xoff2 else [])
             (vs + min (ve - vs) (XBUF - xb.length)) ve last := by
  have hg : ¬ (xb.length > XBUF ∨ ve < vs ∨ ve > d.length) := by omega
  rw [pvLoop]
  simp only [hc, not_true_eq_false, if_false, hg, he]
  have := round_eq pp cut ((xb ++ slice d vs (vs + min (ve - vs) (XBUF - xb.length))).drop xoff2)
    (if xoff2 ≠ 0 then unescape ((xb ++ slice d vs (vs + min (ve - vs) (XBUF - xb.length))).take xoff2) else [])
  simp only at this
  rw [this]
  cases cut <;> simp



theorem escTail_tok (t1 : List Tok) (p1 : Bytes) (hok : AllOk t1)
    (hf : p1 = [] ∨ p1 = [cPct] ∨ ∃ a, isHex a = true ∧ p1 = [cPct, a]) :
    escTail (rawOf t1 ++ p1) =
      ((rawOf t1).length, (decide (p1 ≠ []) && ((rawOf t1 ++ p1).length != XBUF)),
       if p1 ≠ [] ∧ (rawOf t1 ++ p1).length = XBUF then p1.length else 0) := by
  rcases hf with hp | hp | ⟨a, ha, hp⟩
  · subst hp
    simp only [List.append_nil]
    rw [escTail_none _ (fun A c h => raw_last_ne_pct t1 hok A c h) (fun A b c h => raw_last2_ne_pct t1 hok A b c h)]
    simp
  · subst hp
    rw [escTail_pct]
    by_cases h : (rawOf t1).length + 1 = XBUF <;> simp [h]
  · subst hp
    rw [escTail_pct2 _ _ (hex_ne_pct ha)]
    by_cases h : (rawOf t1).length + 2 = XBUF <;> simp [h]

theorem pp_eta_stop (pp : PP) (h : pp.mustIkvi = false) :
    pp = { pp with xbuf := pp.xbuf, valueOffset := pp.valueOffset + 0, mustIkvi := false, evs := pp.evs ++ [] } := by
  cases pp; simp_all

theorem dec_take_raw (t1 : List Tok) (p1 : Bytes) (hok : AllOk t1) :
    (if (rawOf t1).length ≠ 0 then unescape ((rawOf t1 ++ p1).take (rawOf t1).length) else []) = decOf t1 := by
  by_cases h : (rawOf t1).length = 0
  · have : t1 = [] := rawOf_eq_nil (List.length_eq_zero_iff.mp h)
    subst this; simp
  · simp [h, unescape_raw t1 hok]

theorem pieces_round (pp : PP) (dec : Bytes) :
    Pieces (urlMeta pp.keyStr) pp.valueOffset dec (roundEvs pp dec) := by
  unfold roundEvs
  by_cases he : pp.mustIkvi = true ∨ dec.length ≠ 0
  · simp only [he, if_true]
    exact ⟨rfl, rfl, [], by simp, rfl⟩
  · simp only [he, if_false]
    have : dec = [] := by
      cases dec with
      | nil => rfl
      | cons a l => exact absurd (Or.inr (by simp)) he
    simp [Pieces, this]

theorem pvLoop_spec : ∀ (fuel : Nat) (d : Bytes) (pp : PP) (xb : Bytes) (vs ve : Nat) (ts : List Tok) (W : Bytes)
    (last : Bool),
    AllOk ts → rawOf ts = xb ++ slice d vs ve ++ W → xb.length ≤ 2 → vs ≤ ve → ve ≤ d.length →
    (ve - vs) + 2 ≤ fuel → (last = true → W = []) →
    ∃ ts1 ts2 p es, ts = ts1 ++ ts2 ∧ xb ++ slice d vs ve = rawOf ts1 ++ p ∧ Carry p ts2 ∧ rawOf ts2 = p ++ W ∧
      Pieces (urlMeta pp.keyStr) pp.valueOffset (decOf ts1) es ∧ (pp.mustIkvi = true → es ≠ []) ∧
      pvLoop fuel d pp xb vs ve last =
        { pp with xbuf := if p = [] then pp.xbuf else p, valueOffset := pp.valueOffset + (decOf ts1).length,
                  mustIkvi := false, evs := pp.evs ++ es } := by
  intro fuel
  induction fuel with
  | zero => intro d pp xb vs ve ts W last _ _ _ _ _ hf; omega
  | succ n ih =>
    intro d pp xb vs ve ts W last hok hraw hxb hle hve hfuel hlast
    have hX := xbuf_ge
    by_cases hc : vs ≠ ve ∨ pp.mustIkvi = true ∨ xb.length > 0
    · -- one round
      have hsplit : slice d vs ve = slice d vs (vs + min (ve - vs) (XBUF - xb.length))
          ++ slice d (vs + min (ve - vs) (XBUF - xb.length)) ve :=
        slice_split d vs _ ve (by omega) (by omega)
      generalize hdelta : min (ve - vs) (XBUF - xb.length) = delta at hsplit
      have hraw1 : rawOf ts = (xb ++ slice d vs (vs + delta)) ++ (slice d (vs + delta) ve ++ W) := by
        rw [hraw, hsplit]; simp
      obtain ⟨t1, t2, p1, e1, e2, e3, e4⟩ := cut ts _ _ hraw1
      subst e1
      have hok1 := hok.append_left
      have hok2 := hok.append_right
      have hforms := carry_forms e3 hok2
      have hlen1 : (xb ++ slice d vs (vs + delta)).length = xb.length + delta := by
        rw [List.length_append, slice_length d vs (vs + delta) (by omega)]; omega
      have hesc0 := escTail_tok t1 p1 hok1 hforms
      rw [← e2] at hesc0
      have hesc : (if last = true ∧ vs + delta = ve
            then ((xb ++ slice d vs (vs + delta)).length, false, 0)
            else escTail (xb ++ slice d vs (vs + delta))) =
          ((rawOf t1).length, (decide (p1 ≠ []) && ((xb ++ slice d vs (vs + delta)).length != XBUF)),
            if p1 ≠ [] ∧ (xb ++ slice d vs (vs + delta)).length = XBUF then p1.length else 0) := by
        by_cases hl : last = true ∧ vs + delta = ve
        · have hnil : slice d (vs + delta) ve = [] := by rw [hl.2]; simp [slice]
          have hp1 : p1 = [] := (carry_whole e3 (by rw [e4, hnil, hlast hl.1]; simp)).1
          rw [if_pos hl, e2, hp1]
          simp
        · rw [if_neg hl]; exact hesc0
      have hround := pvLoop_round n d pp xb vs ve last hc (by omega) hle hve (rawOf t1).length
        (decide (p1 ≠ []) && ((xb ++ slice d vs (vs + delta)).length != XBUF))
        (if p1 ≠ [] ∧ (xb ++ slice d vs (vs + delta)).length = XBUF then p1.length else 0)
        (by rw [hdelta]; exact hesc)
      rw [hdelta] at hround
      rw [e2, dec_take_raw t1 p1 hok1, List.drop_left' rfl] at hround
      by_cases hcut : p1 ≠ [] ∧ xb.length + delta ≠ XBUF
      · -- cut: everything was consumed
        have hd : delta = ve - vs := by omega
        have hcutb : (decide (p1 ≠ []) && ((rawOf t1 ++ p1).length != XBUF)) = true := by
          rw [← e2, hlen1]; simp [hcut.1, hcut.2]
        rw [hcutb] at hround
        simp only [if_true] at hround
        have hve' : vs + delta = ve := by omega
        have hnil : slice d (vs + delta) ve = [] := by rw [hve']; simp [slice]
        refine ⟨t1, t2, p1, roundEvs pp (decOf t1), rfl, ?_, e3, ?_, ?_, ?_, ?_⟩
        · rw [hsplit, hnil, List.append_nil]; exact e2
        · rw [e4, hnil]; simp
        · exact pieces_round pp (decOf t1)
        · intro hm; simp [roundEvs, hm]
        · rw [hround]; simp [roundPP, hcut.1]
      · -- no cut: go round again with the partial escape (if any) in front
        have hcutb : (decide (p1 ≠ []) && ((rawOf t1 ++ p1).length != XBUF)) = false := by
          rw [← e2, hlen1]
          by_cases h1 : p1 = []
          · simp [h1]
          · have : xb.length + delta = XBUF := by
              by_cases h2 : xb.length + delta = XBUF
              · exact h2
              · exact absurd ⟨h1, h2⟩ hcut
            simp [this]
        rw [hcutb] at hround
        simp only [Bool.false_eq_true, if_false] at hround
        have hxb' : (if (if p1 ≠ [] ∧ (rawOf t1 ++ p1).length = XBUF then p1.length else 0) ≠ 0 then p1 else []) = p1 := by
          by_cases h1 : p1 = []
          · simp [h1]
          · have : (rawOf t1 ++ p1).length = XBUF := by
              rw [← e2, hlen1]
              by_cases h2 : xb.length + delta = XBUF
              · exact h2
              · exact absurd ⟨h1, h2⟩ hcut
            have hl : p1.length ≠ 0 := by
              intro h; exact h1 (List.length_eq_zero_iff.mp h)
            simp [h1, this, hl]
        rw [hxb'] at hround
        have hp1len : p1.length ≤ 2 := by
          rcases hforms with h | h | ⟨a, _, h⟩ <;> simp [h]
        by_cases hvv : vs = ve
        · -- nothing left to read: the loop stops
          have hd0 : delta = 0 := by omega
          have hp1 : p1 = [] := by
            by_cases h1 : p1 = []
            · exact h1
            · have : xb.length + delta = XBUF := by
                by_cases h2 : xb.length + delta = XBUF
                · exact h2
                · exact absurd ⟨h1, h2⟩ hcut
              omega
          subst hp1
          have hvd : vs + delta = ve := by omega
          rw [hvd, pvLoop_stop n d _ _ last (by omega) (by simp [roundPP])] at hround
          subst hvv
          have hnil : slice d (vs + delta) vs = [] := by simp [slice]
          refine ⟨t1, t2, [], roundEvs pp (decOf t1), rfl, ?_, e3, ?_, ?_, ?_, ?_⟩
          · rw [hsplit, hnil, List.append_nil]; exact e2
          · rw [e4, hnil]; simp
          · exact pieces_round pp (decOf t1)
          · intro hm; simp [roundEvs, hm]
          · rw [hround]; simp [roundPP]
        · -- more input: induction hypothesis on the rest
          have hd1 : 1 ≤ delta := by omega
          obtain ⟨t1', t2', p', es', f1, f2, f3, f4, f5, f6, f7⟩ :=
            ih d (roundPP pp none (decOf t1)) p1 (vs + delta) ve t2 W last hok2 (by rw [e4]; simp) hp1len
              (by omega) hve (by omega) hlast
          subst f1
          refine ⟨t1 ++ t1', t2', p', roundEvs pp (decOf t1) ++ es', by simp, ?_, f3, f4, ?_, ?_, ?_⟩
          · rw [hsplit, ← List.append_assoc, e2, List.append_assoc, f2]; simp
          · rw [decOf_append]
            apply Pieces.append
            · exact pieces_round pp (decOf t1)
            · simpa [roundPP, PP.keyStr] using f5
          · intro hm; simp [roundEvs, hm]
          · rw [hround, f7]; simp [roundPP, Nat.add_assoc]
    · -- the loop body is not entered
      have h1 : vs = ve := by
        by_cases h : vs = ve
        · exact h
        · exact absurd (Or.inl h) hc
      have h2 : pp.mustIkvi = false := by
        cases hm : pp.mustIkvi with
        | false => rfl
        | true => exact absurd (Or.inr (Or.inl hm)) hc
      have h3 : xb = [] := by
        cases xb with
        | nil => rfl
        | cons a l => exact absurd (Or.inr (Or.inr (by simp))) hc
      subst h1 h3
      refine ⟨[], ts, [], [], by simp, by simp [slice], Or.inl rfl, by simpa [slice] using hraw, by simp [Pieces], by simp [h2], ?_⟩
      rw [pvLoop]
      simp only [hc, not_false_eq_true, if_true]
      simpa using pp_eta_stop pp h2



theorem ppXbufLen_eq : Mhd.Gen.PP.ppXbufLen = 2 := by decide

/-- a carried partial escape followed by '%' is impossible -/
theorem carry_then_pct {p : Bytes} {ts : List Tok} {W : Bytes} (hc : Carry p ts) (hok : AllOk ts)
    (hr : rawOf ts = p ++ cPct :: W) : p = [] := by
  rcases hc with h | ⟨t, rest, q, rfl, hq, hne⟩
  · exact h
  · have ht := hok.head
    rw [rawOf_cons, hq, List.append_assoc] at hr
    have hr' := List.append_cancel_left hr
    cases t with
    | lit c =>
      simp [Tok.raw] at hq
      rcases List.singleton_eq_append_iff.mp hq with ⟨h1, _⟩ | ⟨_, h2⟩
      · exact h1
      · exact absurd h2 hne
    | esc a b =>
      simp [Tok.ok] at ht
      simp only [Tok.raw] at hq
      match p, hq with
      | [], _ => rfl
      | [x], hq =>
        simp at hq; rw [← hq.2] at hr'; simp at hr'
        exact absurd hr'.1 (hex_ne_pct ht.1)
      | [x, y], hq =>
        simp at hq; rw [← hq.2.2] at hr'; simp at hr'
        exact absurd hr'.1 (hex_ne_pct ht.2)
      | [x, y, z], hq => simp at hq; exact absurd hq.2.2.2 hne
      | x :: y :: z :: w :: r, hq => simp at hq

/-- text that starts with '%' starts with an escape token -/
theorem carry_pct {ts : List Tok} {W : Bytes} (hok : AllOk ts) (hr : rawOf ts = cPct :: W) :
    Carry [cPct] ts := by
  cases ts with
  | nil => simp at hr
  | cons t rest =>
    have ht := hok.head
    cases t with
    | lit c =>
      simp [Tok.raw] at hr
      simp [Tok.ok, litOk] at ht
      exact absurd hr.1 ht.1.1.1.1.2
    | esc a b => exact Or.inr ⟨.esc a b, rest, [a, b], rfl, by simp [Tok.raw], by simp⟩

theorem slice_one (d : Bytes) (x : Nat) (c : UInt8) (h : d[x]? = some c) : slice d x (x + 1) = [c] := by
  unfold slice
  have : x + 1 - x = 1 := by omega
  rw [this]
  have hx : x < d.length := by
    rcases Nat.lt_or_ge x d.length with h' | h'
    · exact h'
    · rw [List.getElem?_eq_none h'] at h; cases h
  rw [List.getElem?_eq_getElem hx] at h
  rw [List.drop_eq_getElem_cons hx, Option.some.inj h]
  rfl

/-- `process_value` on well-formed input -/
theorem processValue_spec (d : Bytes) (pp : PP) (s e : Nat) (le : Option Nat) (ts : List Tok) (W : Bytes) (last : Bool)
    (hok : AllOk ts) (hraw : rawOf ts = pp.xbuf ++ slice d s e ++ W) (hxb : pp.xbuf.length ≤ 2)
    (hse : s ≤ e) (hed : e ≤ d.length) (hlast : last = true → W = []) :
    ∃ ts1 ts2 p es, ts = ts1 ++ ts2 ∧ pp.xbuf ++ slice d s e = rawOf ts1 ++ p ∧ Carry p ts2 ∧ rawOf ts2 = p ++ W ∧
      Pieces (urlMeta pp.keyStr) pp.valueOffset (decOf ts1) es ∧ (pp.mustIkvi = true → es ≠ []) ∧
      processValue d pp (some s) (some e) le last =
        { pp with xbuf := p, valueOffset := pp.valueOffset + (decOf ts1).length,
                  mustIkvi := false, evs := pp.evs ++ es } := by
  have hg1 : ¬ pp.xbuf.length > Mhd.Gen.PP.ppXbufLen := by rw [ppXbufLen_eq]; omega
  have hg2 : ¬ (e < s ∨ e > d.length) := by omega
  obtain ⟨ts1, ts2, p, es, f1, f2, f3, f4, f5, f6, f7⟩ :=
    pvLoop_spec (e - s + 3) d { pp with xbuf := [] } pp.xbuf s e ts W last hok hraw hxb hse hed (by omega) hlast
  refine ⟨ts1, ts2, p, es, f1, f2, f3, f4, f5, f6, ?_⟩
  have hfin : pvLoop (e - s + 3) d { pp with xbuf := [] } pp.xbuf s e last =
      { pp with xbuf := p, valueOffset := pp.valueOffset + (decOf ts1).length, mustIkvi := false, evs := pp.evs ++ es } := by
    rw [f7]
    by_cases hp : p = [] <;> simp [hp]
  simp only [processValue, hg1, if_false, hg2]
  exact hfin

end Mhd.PP
