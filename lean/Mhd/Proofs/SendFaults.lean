/-
  C07 — what faults do: final states are final, a hard socket error closes without sending,
  a failing allocation closes the connection or was not needed.
-/
import Mhd.Proofs.SendIdle
namespace Mhd.Send
open Mhd.Gen.Send

theorem idleClosed_st (c : Conn) : (idleClosed c).st = c.st := by
  unfold idleClosed; split <;> rfl

theorem idleClosed_out (c : Conn) : (idleClosed c).out = c.out := by
  unfold idleClosed; split <;> rfl

theorem Bk.cleanup_idem (b : Bk) : b.cleanup.cleanup = b.cleanup := by
  unfold Bk.cleanup
  by_cases h : b.inCleanup = true
  · simp [h]
  · simp [h]

theorem Bk.cleanup_cst (b : Bk) : b.cleanup.cstClosed = b.cstClosed := by
  unfold Bk.cleanup; split <;> rfl

/-- `cleanup_connection` is guarded: a second pass through the CLOSED case changes nothing -/
theorem idleClosed_idem (c : Conn) : idleClosed (idleClosed c) = idleClosed c := by
  by_cases h : c.bk.cstClosed = true
  · have e : idleClosed c = { c with bk := c.bk.cleanup } := by unfold idleClosed; rw [if_pos h]
    rw [e]; unfold idleClosed
    have h2 : ({ c with bk := c.bk.cleanup } : Conn).bk.cstClosed = true := by
      show c.bk.cleanup.cstClosed = true
      rw [Bk.cleanup_cst]; exact h
    rw [if_pos h2]
    show ({ c with bk := c.bk.cleanup.cleanup } : Conn) = _
    rw [Bk.cleanup_idem]
  · have e : idleClosed c = c := by unfold idleClosed; rw [if_neg h]
    rw [e, e]

/-- `closed` and `done` are final: nothing is sent; the only thing that still happens is the
    (guarded) `cleanup_connection` of a connection whose C state is CLOSED -/
theorem round_final {r : Resp} {c : Conn} (x : Round) (h : c.st = .closed ∨ c.st = .done) :
    round r c x = idleClosed c := by
  rcases h with h | h <;>
    simp [round, handleWrite, handleIdle, idleStep, h]

theorem run_final {r : Resp} : ∀ (xs : List Round) (c : Conn), (c.st = .closed ∨ c.st = .done) →
    run r c xs = c ∨ run r c xs = idleClosed c
  | [], _, _ => Or.inl rfl
  | x :: xs, c, h => by
    unfold run
    simp only [List.foldl_cons]
    rw [round_final x h]
    have hst : (idleClosed c).st = .closed ∨ (idleClosed c).st = .done := by rw [idleClosed_st]; exact h
    rcases run_final xs (idleClosed c) hst with e | e
    · right; exact e
    · right; unfold run at e; rw [e, idleClosed_idem]

/-- … and once that clean-up has run (or is not due), nothing changes at all -/
theorem run_settled {r : Resp} (xs : List Round) (c : Conn) (h : c.st = .closed ∨ c.st = .done)
    (hs : idleClosed c = c) : run r c xs = c := by
  rcases run_final (r := r) xs c h with e | e
  · exact e
  · rw [e, hs]

/-- an errno that the senders do not map to "try again" -/
def Errno.isHard (e : Errno) : Prop := mapSendErr e ≠ .again

instance : DecidablePred Errno.isHard := fun e => inferInstanceAs (Decidable (mapSendErr e ≠ .again))

theorem handleIdle_closed {r : Resp} {c : Conn} (app : AppAns) (alloc : Bool) (h : c.st = .closed) :
    handleIdle r c app alloc = idleClosed c := by
  simp [handleIdle, idleStep, h]

theorem sysSend_err (req : Bytes) (e : Errno) : sysSend req (.err e) = .fail (mapSendErr e) := rfl

theorem sendData_err (buf : Bytes) (e : Errno) : sendData false buf (.err e) = .fail (mapSendErr e) := by
  simp [sendData, sysSend_err]

theorem sendHdrAndBody_err (noVec nonblk : Bool) (hdr body : Bytes) (e : Errno) (s2 : SockRes) :
    sendHdrAndBody false noVec nonblk hdr body (.err e) s2 = .fail (mapSendErr e) := by
  unfold sendHdrAndBody
  simp only [Bool.false_eq_true, if_false]
  split
  · rw [sendData_err]; rfl
  · rw [sysSend_err]

theorem wbAccount_hard (c : Conn) (e : Errno) (he : Errno.isHard e) (next : St) :
    wbAccount c (.fail (mapSendErr e)) next = closeErr { c with out := c.out ++ [] } := by
  unfold wbAccount
  simp only [SendOut.fail]
  unfold Errno.isHard at he
  cases hm : mapSendErr e <;> first | (exact absurd hm he) | rfl

theorem tryReady_sf (r : Resp) (c : Conn) (app : AppAns) (alloc : Bool) :
    (tryReadyNormalBody r c app alloc).1.sf = c.sf := by
  unfold tryReadyNormalBody
  repeat' split
  all_goals rfl

theorem tryReady_out (r : Resp) (c : Conn) (app : AppAns) (alloc : Bool) :
    (tryReadyNormalBody r c app alloc).1.out = c.out := by
  unfold tryReadyNormalBody
  repeat' split
  all_goals rfl

/-- A hard error answer to the system call of `MHD_connection_handle_write` closes the
    connection without sending anything — or the call was not made at all in this round
    (then the answer does not matter).  Standard senders (`sf = false`). -/
theorem hard_error_closes_aux {r : Resp} {c : Conn} (e : Errno) (he : Errno.isHard e)
    (hsf : c.st = .normalBodyReady → c.sf = false)
    (x : Round) (hwr : x.wr = true) (hs1 : x.s1 = .err e) :
    ((round r c x).st = .closed ∧ (round r c x).out = c.out) ∨ round r c x = round r c { x with s1 := .full } := by
  have hclosed : ∀ c1 : Conn, handleWrite r c x.s1 x.s2 x.appW x.allocW = closeErr c1 → c1.out = c.out →
      ((round r c x).st = .closed ∧ (round r c x).out = c.out) := by
    intro c1 h1 h2
    unfold round
    rw [if_pos hwr, h1, handleIdle_closed _ _ rfl, idleClosed_st, idleClosed_out]
    exact ⟨rfl, h2⟩
  have hsame : handleWrite r c x.s1 x.s2 x.appW x.allocW = handleWrite r c .full x.s2 x.appW x.allocW →
      round r c x = round r c { x with s1 := .full } := by
    intro h; unfold round; simp only [hwr, if_true]; rw [h]
  cases hs : c.st with
  | headersSending =>
    unfold handleWrite at hclosed hsame
    rw [hs] at hclosed hsame
    simp only [] at hclosed hsame
    unfold hwHeaders at hclosed hsame
    cases hp : wbPending c with
    | none => right; apply hsame; simp only [hp]
    | some part =>
      left
      simp only [hp] at hclosed
      rw [hs1] at hclosed
      simp only [sendHdrAndBody_err, ite_self] at hclosed
      unfold Errno.isHard at he
      cases hm : mapSendErr e
      all_goals first
        | exact absurd hm he
        | (apply hclosed { c with out := c.out ++ [] }
           · simp only [SendOut.fail, hm]
           · simp)
  | chunkedBodyReady =>
    unfold handleWrite at hclosed hsame
    rw [hs] at hclosed hsame
    simp only [] at hclosed hsame
    cases hp : wbPending c with
    | none => right; apply hsame; simp only [hp]
    | some part =>
      left
      simp only [hp] at hclosed
      rw [hs1, sendData_err] at hclosed
      apply hclosed { c with out := c.out ++ [] }
      · exact wbAccount_hard c e he _
      · simp
  | footersSending =>
    unfold handleWrite at hclosed hsame
    rw [hs] at hclosed hsame
    simp only [] at hclosed hsame
    cases hp : wbPending c with
    | none => right; apply hsame; simp only [hp]
    | some part =>
      left
      simp only [hp] at hclosed
      rw [hs1, sendData_err] at hclosed
      apply hclosed { c with out := c.out ++ [] }
      · exact wbAccount_hard c e he _
      · simp
  | normalBodyReady =>
    have hsf := hsf hs
    unfold handleWrite at hclosed hsame
    rw [hs] at hclosed hsame
    simp only [] at hclosed hsame
    unfold hwNormalBody at hclosed hsame
    simp only [] at hclosed hsame
    by_cases hlt : c.rp < c.tot
    · rw [if_pos hlt] at hclosed
      rw [if_pos hlt, if_pos hlt] at hsame
      have hsf' := tryReady_sf r c x.appW x.allocW
      have hout' := tryReady_out r c x.appW x.allocW
      cases hres : tryReadyNormalBody r c x.appW x.allocW with
      | mk c' ok =>
        rw [hres] at hsf' hout'
        simp only [] at hsf' hout'
        cases ok with
        | false => right; apply hsame; simp only [hres]
        | true =>
          simp only [hres] at hclosed hsame
          have hsfF : ¬ c'.sf = true := by rw [hsf', hsf]; decide
          rw [if_neg hsfF] at hclosed
          rw [if_neg hsfF, if_neg hsfF] at hsame
          by_cases hk : r.kind = .iovec
          · left
            simp only [hk, if_true] at hclosed
            rw [hs1] at hclosed
            have hio : sendIovec false c'.isent c'.irest (.err e) =
                ⟨.fail (mapSendErr e), c'.isent, c'.irest, false⟩ := by
              unfold sendIovec
              simp only [Bool.false_eq_true, if_false]
              rw [if_neg (fun x => iovMax_ne_zero x.2), sysSend_err]
              rfl
            rw [hio] at hclosed
            simp only [Bool.false_eq_true, if_false, SendOut.fail] at hclosed
            unfold Errno.isHard at he
            cases hm : mapSendErr e
            all_goals first
              | exact absurd hm he
              | (apply hclosed { c' with out := c'.out ++ [], isent := c'.isent, irest := c'.irest }
                 · simp only [hm]
                 · simp [hout'])
          · simp only [hk, if_false] at hclosed hsame
            by_cases hf : c'.rp < c'.ds ∨ c'.dz < c'.rp - c'.ds ∨ r.body.length < c'.ds + c'.dz
            · right; apply hsame; simp only [hf, if_true]
            · left
              simp only [hf, if_false] at hclosed
              rw [hs1, sendData_err] at hclosed
              simp only [SendOut.fail] at hclosed
              unfold Errno.isHard at he
              cases hm : mapSendErr e
              all_goals first
                | exact absurd hm he
                | (apply hclosed { c' with out := c'.out ++ [] }
                   · simp only [hm]
                   · simp [hout'])
    · right; apply hsame; rw [if_neg hlt, if_neg hlt]
  | headersSent => right; apply hsame; unfold handleWrite; rw [hs]
  | normalBodyUnready => right; apply hsame; unfold handleWrite; rw [hs]
  | chunkedBodyUnready => right; apply hsame; unfold handleWrite; rw [hs]
  | chunkedBodySent => right; apply hsame; unfold handleWrite; rw [hs]
  | fullReplySent => right; apply hsame; unfold handleWrite; rw [hs]
  | done => right; apply hsame; unfold handleWrite; rw [hs]
  | closed => right; apply hsame; unfold handleWrite; rw [hs]



/-- sendfile(): EBADF is the one errno `MHD_send_sendfile_` treats as permanent -/
def Errno.isHardSendfile (e : Errno) : Prop := e.isEbadf = true ∧ e.isEagain = false ∧ e.isEintr = false

instance : DecidablePred Errno.isHardSendfile := fun e =>
  inferInstanceAs (Decidable (e.isEbadf = true ∧ e.isEagain = false ∧ e.isEintr = false))

/-- The same for the sendfile sender: EBADF closes the connection without sending anything — or
    no sendfile() call was made in this round. -/
theorem sendfile_hard_closes_aux {r : Resp} {c : Conn} (e : Errno) (he : Errno.isHardSendfile e)
    (hs : c.st = .normalBodyReady) (hsf : c.sf = true)
    (x : Round) (hwr : x.wr = true) (hs1 : x.s1 = .err e) :
    ((round r c x).st = .closed ∧ (round r c x).out = c.out) ∨ round r c x = round r c { x with s1 := .full } := by
  obtain ⟨hb, h1, h2⟩ := he
  have hclosed : ∀ c1 : Conn, handleWrite r c x.s1 x.s2 x.appW x.allocW = closeErr c1 → c1.out = c.out →
      ((round r c x).st = .closed ∧ (round r c x).out = c.out) := by
    intro c1 h1 h2
    unfold round
    rw [if_pos hwr, h1, handleIdle_closed _ _ rfl, idleClosed_st, idleClosed_out]
    exact ⟨rfl, h2⟩
  have hsame : handleWrite r c x.s1 x.s2 x.appW x.allocW = handleWrite r c .full x.s2 x.appW x.allocW →
      round r c x = round r c { x with s1 := .full } := by
    intro h; unfold round; simp only [hwr, if_true]; rw [h]
  unfold handleWrite at hclosed hsame
  rw [hs] at hclosed hsame
  simp only [] at hclosed hsame
  unfold hwNormalBody at hclosed hsame
  simp only [] at hclosed hsame
  by_cases hlt : c.rp < c.tot
  · rw [if_pos hlt] at hclosed
    rw [if_pos hlt, if_pos hlt] at hsame
    have hsf' := tryReady_sf r c x.appW x.allocW
    have hout' := tryReady_out r c x.appW x.allocW
    cases hres : tryReadyNormalBody r c x.appW x.allocW with
    | mk c' ok =>
      rw [hres] at hsf' hout'
      simp only [] at hsf' hout'
      cases ok with
      | false => right; apply hsame; simp only [hres]
      | true =>
        simp only [hres] at hclosed hsame
        have hsfT : c'.sf = true := by rw [hsf']; exact hsf
        rw [if_pos hsfT] at hclosed
        rw [if_pos hsfT, if_pos hsfT] at hsame
        by_cases hov : off64Max < c'.rp + r.fdOff
        · right; apply hsame
          simp only [sendSendfile, hov, if_true]
        · left
          rw [hs1] at hclosed
          have hx : sendSendfile r.thrPerConn r.body r.fdOff c'.rp c'.tot (.err e) = ⟨.fail .badf, true⟩ := by
            simp only [sendSendfile, hov, if_false, h1, h2, hb, Bool.false_eq_true, if_true]
          rw [hx] at hclosed
          apply hclosed { c' with out := c'.out ++ [], sf := true }
          · simp only [SendOut.fail]
          · simp [hout']
  · right; apply hsame; rw [if_neg hlt, if_neg hlt]

/-- "permanent failure" as the code classifies it: for the sendfile sender only EBADF, for the
    standard senders every errno that is not mapped to "try again" -/
def Permanent (c : Conn) (e : Errno) : Prop :=
  if c.st = .normalBodyReady ∧ c.sf = true then Errno.isHardSendfile e else Errno.isHard e

instance (c : Conn) (e : Errno) : Decidable (Permanent c e) := by unfold Permanent; exact inferInstance

theorem permanent_closes_aux {r : Resp} {c : Conn} (e : Errno) (he : Permanent c e)
    (x : Round) (hwr : x.wr = true) (hs1 : x.s1 = .err e) :
    ((round r c x).st = .closed ∧ (round r c x).out = c.out) ∨ round r c x = round r c { x with s1 := .full } := by
  unfold Permanent at he
  by_cases h : c.st = .normalBodyReady ∧ c.sf = true
  · rw [if_pos h] at he
    exact sendfile_hard_closes_aux e he h.1 h.2 x hwr hs1
  · rw [if_neg h] at he
    refine hard_error_closes_aux e he (fun hs => ?_) x hwr hs1
    cases hsf : c.sf
    · rfl
    · exact absurd ⟨hs, hsf⟩ h

theorem tryReady_alloc (r : Resp) (c : Conn) (app : AppAns) :
    tryReadyNormalBody r c app false = (closeErr c, false) ∨
    tryReadyNormalBody r c app false = tryReadyNormalBody r c app true := by
  unfold tryReadyNormalBody
  by_cases h0 : c.tot = 0 ∨ c.rp = c.tot
  · right; rw [if_pos h0, if_pos h0]
  · rw [if_neg h0, if_neg h0]
    by_cases hk : r.kind = .iovec
    · rw [if_pos hk, if_pos hk]
      by_cases hset : c.iovSet = true
      · right; rw [if_pos hset, if_pos hset]
      · left; rw [if_neg hset]; simp
    · right; rw [if_neg hk, if_neg hk]

theorem idleStep_closed (r : Resp) (c : Conn) (app : AppAns) (alloc : Bool) (h : c.st = .closed) :
    idleStep r c app alloc = c := by
  simp [idleStep, h]

theorem idleStep_alloc (r : Resp) (c : Conn) (app : AppAns) :
    (idleStep r c app false).st = .closed ∨ idleStep r c app false = idleStep r c app true := by
  cases hs : c.st with
  | normalBodyUnready =>
    unfold idleStep; rw [hs]; simp only []
    by_cases h0 : c.tot = 0
    · right; rw [if_pos h0, if_pos h0]
    · rw [if_neg h0, if_neg h0]
      rcases tryReady_alloc r c app with h | h
      · left; rw [h]; rfl
      · right; rw [h]
  | chunkedBodySent => left; unfold idleStep; rw [hs]; rfl
  | headersSending => right; unfold idleStep; rw [hs]
  | headersSent => right; unfold idleStep; rw [hs]
  | normalBodyReady => right; unfold idleStep; rw [hs]
  | chunkedBodyUnready => right; unfold idleStep; rw [hs]
  | chunkedBodyReady => right; unfold idleStep; rw [hs]
  | footersSending => right; unfold idleStep; rw [hs]
  | fullReplySent => right; unfold idleStep; rw [hs]
  | done => right; unfold idleStep; rw [hs]
  | closed => right; unfold idleStep; rw [hs]

theorem handleIdle_alloc (r : Resp) (c : Conn) (app : AppAns) :
    (handleIdle r c app false).st = .closed ∨ handleIdle r c app false = handleIdle r c app true := by
  unfold handleIdle
  rcases idleStep_alloc r c app with h1 | h1
  · left
    rw [idleClosed_st, idleStep_closed r _ app false h1, idleStep_closed r _ app false h1, idleStep_closed r _ app false h1]; exact h1
  · rw [h1]
    rcases idleStep_alloc r (idleStep r c app true) app with h2 | h2
    · left
      rw [idleClosed_st, idleStep_closed r _ app false h2, idleStep_closed r _ app false h2]; exact h2
    · rw [h2]
      rcases idleStep_alloc r (idleStep r (idleStep r c app true) app true) app with h3 | h3
      · left
        rw [idleClosed_st, idleStep_closed r _ app false h3]; exact h3
      · rw [h3]
        rcases idleStep_alloc r (idleStep r (idleStep r (idleStep r c app true) app true) app true) app with h4 | h4
        · left; rw [idleClosed_st]; exact h4
        · right; rw [h4]

theorem handleWrite_alloc (r : Resp) (c : Conn) (s1 s2 : SockRes) (app : AppAns) :
    (handleWrite r c s1 s2 app false).st = .closed ∨
    handleWrite r c s1 s2 app false = handleWrite r c s1 s2 app true := by
  cases hs : c.st with
  | normalBodyReady =>
    unfold handleWrite; rw [hs]; simp only []
    unfold hwNormalBody
    simp only []
    by_cases hlt : c.rp < c.tot
    · rw [if_pos hlt, if_pos hlt]
      rcases tryReady_alloc r c app with h | h
      · left; rw [h]; rfl
      · right; rw [h]
    · right; rw [if_neg hlt, if_neg hlt]
  | headersSending => right; unfold handleWrite; rw [hs]
  | headersSent => right; unfold handleWrite; rw [hs]
  | normalBodyUnready => right; unfold handleWrite; rw [hs]
  | chunkedBodyUnready => right; unfold handleWrite; rw [hs]
  | chunkedBodyReady => right; unfold handleWrite; rw [hs]
  | chunkedBodySent => right; unfold handleWrite; rw [hs]
  | footersSending => right; unfold handleWrite; rw [hs]
  | fullReplySent => right; unfold handleWrite; rw [hs]
  | done => right; unfold handleWrite; rw [hs]
  | closed => right; unfold handleWrite; rw [hs]

/-- A failing allocation inside a round either closes the connection or was not needed
    (the round ends exactly as with a successful allocation). -/
theorem round_alloc (r : Resp) (c : Conn) (x : Round) :
    (round r c { x with allocW := false, allocI := false }).st = .closed ∨
    round r c { x with allocW := false, allocI := false } = round r c { x with allocW := true, allocI := true } := by
  unfold round
  simp only []
  cases hwr : x.wr with
  | false =>
    simp only [Bool.false_eq_true, if_false]
    exact handleIdle_alloc r c x.appI
  | true =>
    simp only [if_true]
    rcases handleWrite_alloc r c x.s1 x.s2 x.appW with h | h
    · left
      rw [handleIdle_closed _ _ h, idleClosed_st]; exact h
    · rw [h]
      exact handleIdle_alloc r _ x.appI


/-- the write buffer cannot be made large enough for a chunk: the connection is closed -/
theorem chunk_buffer_failure_closes (r : Resp) (c : Conn) (app : AppAns) (alloc : Bool)
    (hs : c.st = .chunkedBodyUnready) (h0 : ¬ (c.tot = 0 ∨ c.rp = c.tot)) (hb : r.wbSize < minChunkBuf) :
    (idleStep r c app alloc).st = .closed ∧ (idleStep r c app alloc).out = c.out := by
  unfold idleStep; rw [hs]; simp only []
  rw [if_neg h0]
  unfold tryReadyChunkedBody
  rw [if_pos hb]
  exact ⟨rfl, rfl⟩

end Mhd.Send
