/-
  C07 — the close path's bookkeeping: whatever the socket, the content reader and the
  allocator answer, the connection gives back what it holds for a reply exactly once
  (completion notification, response reference, memory pool, clean-up list).
-/
import Mhd.Proofs.SendProgress
import Mhd.Proofs.SendUp
namespace Mhd.Send
open Mhd.Gen.Send

/-- the reply is over: closed by an error, or completed -/
def Final (s : St) : Prop := s = .closed ∨ s = .done

instance : DecidablePred Final := fun s => inferInstanceAs (Decidable (s = .closed ∨ s = .done))

/-- What a step of the reply path may do with the bookkeeping `b` it found: leave it alone
    (and stay in a non-final state), or end the reply through exactly one of
    CONNECTION_CLOSE_ERROR, MHD_connection_close_ (COMPLETED_OK), connection_reset. -/
def BookT (r : Resp) (b : Bk) (c' : Conn) : Prop :=
  (¬ Final c'.st ∧ c'.bk = b) ∨
  (c'.st = .closed ∧ ∃ t, (t = Term.withError ∨ t = readerTerm r) ∧ c'.bk = b.close t) ∨
  (c'.st = .done ∧ c'.bk = b.close .completedOk) ∨
  (c'.st = .done ∧ c'.bk = b.reset r.reuse r.stopErr)

theorem BookT.trans {r : Resp} {b : Bk} {x c' : Conn} (h1 : BookT r b x)
    (h2 : ¬ Final x.st → BookT r x.bk c') (h3 : Final x.st → c' = x) : BookT r b c' := by
  rcases h1 with ⟨hn, hb⟩ | hf
  · have := h2 hn; rw [hb] at this; exact this
  · have hfin : Final x.st := by
      rcases hf with ⟨h, _⟩ | ⟨h, _⟩ | ⟨h, _⟩ <;> simp [Final, h]
    rw [h3 hfin]; exact Or.inr hf

theorem checkWriteDone_bk (c : Conn) (next : St) : (checkWriteDone c next).bk = c.bk := by
  unfold checkWriteDone; split <;> rfl

theorem checkWriteDone_book {r : Resp} {c : Conn} {next : St} (hc : ¬ Final c.st) (hn : ¬ Final next) :
    BookT r c.bk (checkWriteDone c next) := by
  refine Or.inl ⟨?_, checkWriteDone_bk c next⟩
  rcases checkWriteDone_st c next with e | e <;> rw [e] <;> assumption

theorem wbAccount_book {r : Resp} (c : Conn) (o : SendOut) (next : St) (hc : ¬ Final c.st) (hn : ¬ Final next) :
    BookT r c.bk (wbAccount c o next) := by
  unfold wbAccount
  simp only []
  split
  · exact Or.inl ⟨hc, rfl⟩
  · exact Or.inr (Or.inl ⟨rfl, Term.withError, Or.inl rfl, rfl⟩)
  · exact checkWriteDone_book (c := { c with out := c.out ++ o.wire, so := c.so + _ }) hc hn

theorem hwHeaders_book {r : Resp} (c : Conn) (s1 s2 : SockRes) (hc : ¬ Final c.st) :
    BookT r c.bk (hwHeaders r c s1 s2) := by
  unfold hwHeaders
  split
  · exact Or.inr (Or.inl ⟨rfl, Term.withError, Or.inl rfl, rfl⟩)
  · simp only []
    split
    · exact Or.inl ⟨hc, rfl⟩
    · exact Or.inr (Or.inl ⟨rfl, Term.withError, Or.inl rfl, rfl⟩)
    · split
      · exact checkWriteDone_book (c := { c with out := _, so := _, rp := _ }) hc (by decide)
      · exact checkWriteDone_book (c := { c with out := _, so := _ }) hc (by decide)

theorem tryReady_book {r : Resp} (c : Conn) (app : AppAns) (alloc : Bool) (hc : ¬ Final c.st) :
    BookT r c.bk (tryReadyNormalBody r c app alloc).1 ∧
    ((tryReadyNormalBody r c app alloc).2 = true → (tryReadyNormalBody r c app alloc).1.st = c.st) := by
  unfold tryReadyNormalBody
  repeat' split
  all_goals first
    | exact ⟨Or.inl ⟨hc, rfl⟩, fun _ => rfl⟩
    | exact ⟨Or.inr (Or.inl ⟨rfl, Term.withError, Or.inl rfl, rfl⟩), fun h => by cases h⟩
    | exact ⟨Or.inr (Or.inl ⟨rfl, readerTerm r, Or.inr rfl, rfl⟩), fun h => by cases h⟩
    | exact ⟨Or.inr (Or.inr (Or.inl ⟨rfl, rfl⟩)), fun h => by cases h⟩
    | exact ⟨Or.inl ⟨by simp [Final], rfl⟩, fun h => by cases h⟩

theorem bk_of_stay {r : Resp} {b : Bk} {c' : Conn} (h : BookT r b c') (hn : ¬ Final c'.st) : c'.bk = b := by
  rcases h with ⟨_, e⟩ | ⟨e, _⟩ | ⟨e, _⟩ | ⟨e, _⟩
  · exact e
  all_goals (exfalso; apply hn; simp [Final, e])

theorem hwNormalBody_book {r : Resp} (c : Conn) (s : SockRes) (app : AppAns) (alloc : Bool) (hc : ¬ Final c.st) :
    BookT r c.bk (hwNormalBody r c s app alloc) := by
  unfold hwNormalBody
  simp only []
  split
  · obtain ⟨hb, hst⟩ := tryReady_book (r := r) c app alloc hc
    generalize tryReadyNormalBody r c app alloc = p at hb hst
    obtain ⟨c', ok⟩ := p
    cases ok
    · exact hb
    · have hst' : c'.st = c.st := hst rfl
      have hc' : ¬ Final c'.st := by rw [hst']; exact hc
      have hbk : c'.bk = c.bk := bk_of_stay hb hc'
      rw [← hbk]
      simp only []
      generalize sendSendfile r.thrPerConn r.body r.fdOff c'.rp c'.tot s = xs
      generalize sendIovec false c'.isent c'.irest s = xi
      generalize sendData false (slice r.body (c'.ds + (c'.rp - c'.ds)) (c'.dz - (c'.rp - c'.ds))) s = xd
      repeat' split
      all_goals first
        | exact Or.inl ⟨hc', rfl⟩
        | exact Or.inr (Or.inl ⟨rfl, Term.withError, Or.inl rfl, rfl⟩)
        | exact Or.inl ⟨by simp [Final], rfl⟩
  · split
    · exact Or.inl ⟨by simp [Final], rfl⟩
    · exact Or.inl ⟨hc, rfl⟩

theorem handleWrite_final {r : Resp} {c : Conn} (s1 s2 : SockRes) (app : AppAns) (alloc : Bool) (h : Final c.st) :
    handleWrite r c s1 s2 app alloc = c := by
  rcases h with h | h <;> simp [handleWrite, h]

theorem handleWrite_book {r : Resp} (c : Conn) (s1 s2 : SockRes) (app : AppAns) (alloc : Bool) (hc : ¬ Final c.st) :
    BookT r c.bk (handleWrite r c s1 s2 app alloc) := by
  unfold handleWrite
  split
  · exact hwHeaders_book c s1 s2 hc
  · exact hwNormalBody_book c s1 app alloc hc
  · split
    · exact Or.inr (Or.inl ⟨rfl, Term.withError, Or.inl rfl, rfl⟩)
    · exact wbAccount_book c _ _ hc (by split <;> simp [Final])
  · split
    · exact Or.inr (Or.inl ⟨rfl, Term.withError, Or.inl rfl, rfl⟩)
    · exact wbAccount_book c _ _ hc (by simp [Final])
  · exact Or.inl ⟨hc, rfl⟩

theorem tryChunk_book {r : Resp} (c : Conn) (app : AppAns) (hc : ¬ Final c.st) :
    BookT r c.bk (tryReadyChunkedBody r c app).1 ∧
    ((tryReadyChunkedBody r c app).2 ≠ none → (tryReadyChunkedBody r c app).1.st = c.st) := by
  unfold tryReadyChunkedBody
  simp only []
  generalize (if (if c.tot = sizeUnknown then sizeUnknown else c.tot - c.rp) = 0 then some CbRes.eos
      else if c.ds ≤ c.rp ∧ c.rp < c.ds + c.dz then _ else if r.kind = .buffer ∨ r.kind = .iovec then none else _) = res
  repeat' split
  all_goals first
    | exact ⟨Or.inl ⟨hc, rfl⟩, fun _ => rfl⟩
    | exact ⟨Or.inr (Or.inl ⟨rfl, Term.withError, Or.inl rfl, rfl⟩), fun h => absurd rfl h⟩
    | exact ⟨Or.inl ⟨by simp [Final], rfl⟩, fun h => absurd rfl h⟩

theorem idleStep_final {r : Resp} {c : Conn} (app : AppAns) (alloc : Bool) (h : Final c.st) :
    idleStep r c app alloc = c := by
  rcases h with h | h <;> simp [idleStep, h]

theorem idleStep_book {r : Resp} (c : Conn) (app : AppAns) (alloc : Bool) (hc : ¬ Final c.st) :
    BookT r c.bk (idleStep r c app alloc) := by
  unfold idleStep
  split
  · -- HEADERS_SENT
    repeat' split
    all_goals exact Or.inl ⟨by simp [Final], rfl⟩
  · -- NORMAL_BODY_UNREADY
    split
    · exact Or.inl ⟨by split <;> simp [Final], rfl⟩
    · obtain ⟨hb, hst⟩ := tryReady_book (r := r) c app alloc hc
      generalize tryReadyNormalBody r c app alloc = p at hb hst
      obtain ⟨c', ok⟩ := p
      cases ok
      · exact hb
      · have hc' : ¬ Final c'.st := by rw [hst rfl]; exact hc
        show BookT r c.bk { c' with st := .normalBodyReady }
        exact Or.inl ⟨by simp [Final], (bk_of_stay hb hc' : c'.bk = c.bk)⟩
  · -- CHUNKED_BODY_UNREADY
    split
    · exact Or.inl ⟨by simp [Final], rfl⟩
    · obtain ⟨hb, hst⟩ := tryChunk_book (r := r) c app hc
      generalize tryReadyChunkedBody r c app = p at hb hst
      obtain ⟨c', res⟩ := p
      cases res with
      | none => exact hb
      | some fin =>
        have hc' : ¬ Final c'.st := by rw [hst (by simp)]; exact hc
        show BookT r c.bk { c' with st := if fin = true then St.chunkedBodySent else St.chunkedBodyReady }
        exact Or.inl ⟨by show ¬ Final (if fin = true then St.chunkedBodySent else St.chunkedBodyReady); split <;> simp [Final],
                      (bk_of_stay hb hc' : c'.bk = c.bk)⟩
  · -- CHUNKED_BODY_SENT
    split
    · exact Or.inl ⟨by simp [Final], rfl⟩
    · exact Or.inr (Or.inl ⟨rfl, Term.withError, Or.inl rfl, rfl⟩)
  · -- FULL_REPLY_SENT: connection_reset
    exact Or.inr (Or.inr (Or.inr ⟨rfl, rfl⟩))
  · exact Or.inl ⟨hc, rfl⟩

/-- four transitions of the idle loop -/
theorem idleSteps_book {r : Resp} (c : Conn) (app : AppAns) (alloc : Bool) (hc : ¬ Final c.st) :
    BookT r c.bk (idleStep r (idleStep r (idleStep r (idleStep r c app alloc) app alloc) app alloc) app alloc) := by
  have step : ∀ x : Conn, BookT r c.bk x → BookT r c.bk (idleStep r x app alloc) := fun x hx =>
    hx.trans (fun hn => idleStep_book x app alloc hn) (fun hf => idleStep_final app alloc hf)
  exact step _ (step _ (step _ (idleStep_book c app alloc hc)))

/-- `BookT` followed by the CLOSED case of the idle loop -/
def Bk.fin (b : Bk) : Bk := if b.cstClosed then b.cleanup else b

theorem idleClosed_bk (c : Conn) : (idleClosed c).bk = c.bk.fin := by
  unfold idleClosed Bk.fin; split <;> rfl

theorem Bk.fin_idem (b : Bk) : b.fin.fin = b.fin := by
  unfold Bk.fin
  by_cases h : b.cstClosed = true
  · simp only [h, if_true, Bk.cleanup_cst, Bk.cleanup_idem]
  · have h' : b.cstClosed = false := by simpa using h
    simp [h']

/-- the bookkeeping at the end of a round (after `MHD_connection_handle_idle`) -/
def BookR (r : Resp) (b : Bk) (c' : Conn) : Prop :=
  (¬ Final c'.st ∧ c'.bk = b) ∨
  (c'.st = .closed ∧ ∃ t, (t = Term.withError ∨ t = readerTerm r) ∧ c'.bk = (b.close t).fin) ∨
  (c'.st = .done ∧ c'.bk = (b.close .completedOk).fin) ∨
  (c'.st = .done ∧ c'.bk = (b.reset r.reuse r.stopErr).fin)

theorem Bk.init_fin (a : Bool) : (Bk.init a).fin = Bk.init a := rfl

theorem BookT.closed {r : Resp} {b : Bk} {c' : Conn} (h : BookT r b c') (hb : b.cstClosed = false) :
    BookR r b (idleClosed c') := by
  unfold BookR
  rw [idleClosed_st, idleClosed_bk]
  rcases h with ⟨h1, h2⟩ | ⟨h1, h2⟩ | ⟨h1, h2⟩ | ⟨h1, h2⟩
  · left; refine ⟨h1, ?_⟩; rw [h2]; unfold Bk.fin; rw [hb]; rfl
  · obtain ⟨t, ht, h2⟩ := h2
    right; left; exact ⟨h1, t, ht, by rw [h2]⟩
  · right; right; left; exact ⟨h1, by rw [h2]⟩
  · right; right; right; exact ⟨h1, by rw [h2]⟩

theorem handleIdle_book {r : Resp} (c : Conn) (app : AppAns) (alloc : Bool) (hc : ¬ Final c.st)
    (hb : c.bk.cstClosed = false) : BookR r c.bk (handleIdle r c app alloc) := by
  unfold handleIdle
  exact (idleSteps_book c app alloc hc).closed hb

theorem handleIdle_final {r : Resp} {c : Conn} (app : AppAns) (alloc : Bool) (h : Final c.st) :
    handleIdle r c app alloc = idleClosed c := by
  unfold handleIdle
  rw [idleStep_final app alloc h, idleStep_final app alloc h, idleStep_final app alloc h, idleStep_final app alloc h]

theorem round_book {r : Resp} (c : Conn) (x : Round) (hc : ¬ Final c.st) (hb : c.bk.cstClosed = false) :
    BookR r c.bk (round r c x) := by
  unfold round
  split
  · have hw := handleWrite_book (r := r) c x.s1 x.s2 x.appW x.allocW hc
    by_cases hf : Final (handleWrite r c x.s1 x.s2 x.appW x.allocW).st
    · rw [handleIdle_final _ _ hf]
      exact hw.closed hb
    · have e := bk_of_stay hw hf
      have := handleIdle_book (r := r) _ x.appI x.allocI hf (by rw [e]; exact hb)
      rw [e] at this; exact this
  · exact handleIdle_book c x.appI x.allocI hc hb

/-- The bookkeeping of a connection as a function of how its reply ended (`B.fin` = after the
    CLOSED case of the idle loop has run, which every round ends with). -/
structure Book (r : Resp) (c : Conn) : Prop where
  live : ¬ Final c.st → c.bk = Bk.init r.aware
  closed : c.st = .closed → ∃ t, (t = Term.withError ∨ t = readerTerm r) ∧
    (c.bk = (Bk.init r.aware).close t ∨ c.bk = ((Bk.init r.aware).close t).fin)
  done : c.st = .done →
    c.bk = ((Bk.init r.aware).close .completedOk).fin ∨ c.bk = ((Bk.init r.aware).reset r.reuse r.stopErr).fin

theorem start_book (r : Resp) (a : Bool) : Book r (startReply r a) := by
  cases a
  · exact ⟨fun h => absurd (Or.inl rfl) h, fun _ => ⟨_, Or.inl rfl, Or.inl rfl⟩, fun h => (by cases h)⟩
  · exact ⟨fun _ => rfl, fun h => (by cases h), fun h => (by cases h)⟩

/-- after a round that ends in `closed`, the close and the clean-up have both run, once -/
theorem round_closed_bk {r : Resp} {c : Conn} (h : Book r c) (x : Round) (hcl : (round r c x).st = .closed) :
    ∃ t, (t = Term.withError ∨ t = readerTerm r) ∧ (round r c x).bk = ((Bk.init r.aware).close t).fin := by
  by_cases hf : Final c.st
  · rw [round_final x hf] at hcl ⊢
    rw [idleClosed_st] at hcl
    rw [idleClosed_bk]
    obtain ⟨t, ht, e⟩ := h.closed hcl
    refine ⟨t, ht, ?_⟩
    rcases e with e | e <;> rw [e]
    exact Bk.fin_idem _
  · have hb := h.live hf
    have := round_book (r := r) c x hf (by rw [hb]; rfl)
    rw [hb] at this
    rcases this with ⟨h1, _⟩ | ⟨_, h2⟩ | ⟨h1, _⟩ | ⟨h1, _⟩
    · exact absurd (Or.inl hcl) h1
    · exact h2
    · rw [hcl] at h1; cases h1
    · rw [hcl] at h1; cases h1

theorem round_book_inv {r : Resp} {c : Conn} (h : Book r c) (x : Round) : Book r (round r c x) := by
  by_cases hf : Final c.st
  · rw [round_final x hf]
    refine ⟨fun hn => ?_, fun hc => ?_, fun hd => ?_⟩
    · rw [idleClosed_st] at hn; exact absurd hf hn
    · rw [idleClosed_st] at hc; rw [idleClosed_bk]
      obtain ⟨t, ht, e⟩ := h.closed hc
      refine ⟨t, ht, ?_⟩
      rcases e with e | e <;> rw [e]
      · exact Or.inr rfl
      · exact Or.inr (Bk.fin_idem _)
    · rw [idleClosed_st] at hd; rw [idleClosed_bk]
      rcases h.done hd with e | e <;> rw [e]
      · exact Or.inl (Bk.fin_idem _)
      · exact Or.inr (Bk.fin_idem _)
  · have hb := h.live hf
    have := round_book (r := r) c x hf (by rw [hb]; rfl)
    rw [hb] at this
    rcases this with ⟨h1, h2⟩ | ⟨h1, h2⟩ | ⟨h1, h2⟩ | ⟨h1, h2⟩
    · exact ⟨fun _ => h2, fun hc => absurd (Or.inl hc) h1, fun hd => absurd (Or.inr hd) h1⟩
    · obtain ⟨t, ht, h2⟩ := h2
      exact ⟨fun hn => absurd (Or.inl h1) hn, fun _ => ⟨t, ht, Or.inr h2⟩, fun hd => (by rw [h1] at hd; cases hd)⟩
    · exact ⟨fun hn => absurd (Or.inr h1) hn, fun hc => (by rw [h1] at hc; cases hc), fun _ => Or.inl h2⟩
    · exact ⟨fun hn => absurd (Or.inr h1) hn, fun hc => (by rw [h1] at hc; cases hc), fun _ => Or.inr h2⟩

theorem run_book_inv {r : Resp} : ∀ (xs : List Round) (c : Conn), Book r c → Book r (run r c xs)
  | [], _, h => h
  | x :: xs, c, h => by
    have : run r c (x :: xs) = run r (round r c x) xs := by simp [run]
    rw [this]
    exact run_book_inv xs _ (round_book_inv h x)

/-- what the record says after a close: one notification (iff the application knew the request)
    — with the error code, or COMPLETED_OK when the content reader ended the body early by
    END_OF_STREAM —, the response reference dropped once, the pool destroyed once (the connection
    is never kept), at most one insertion into the clean-up list -/
theorem Book.closed_counts {r : Resp} {c : Conn} (h : Book r c) (hc : c.st = .closed) :
    ∃ t, (t = Term.withError ∨ (r.failEos = true ∧ t = Term.completedOk)) ∧
    c.bk.notes = (if r.aware then [t] else []) ∧ c.bk.aware = false ∧
    c.bk.respHeld = false ∧ c.bk.respDrops = 1 ∧ c.bk.poolLive = false ∧ c.bk.poolDestroys = 1 ∧
    c.bk.poolResets = 0 ∧ c.bk.cstClosed = true ∧ c.bk.cleanups = (if c.bk.inCleanup then 1 else 0) := by
  obtain ⟨t, ht, e⟩ := h.closed hc
  refine ⟨t, ?_, ?_⟩
  · rcases ht with ht | ht
    · exact Or.inl ht
    · unfold readerTerm at ht
      cases hf : r.failEos
      · left; rw [ht, hf]; rfl
      · right; exact ⟨rfl, by rw [ht, hf]; rfl⟩
  · rcases e with e | e <;> rw [e] <;> cases r.aware <;> cases t <;> decide

/-- … after a completed reply: one notification (iff the application knew the request), never
    more; the response reference dropped once; the pool either reset (keep-alive) or destroyed,
    once -/
theorem Book.done_counts {r : Resp} {c : Conn} (h : Book r c) (hd : c.st = .done) :
    c.bk.notes.length = (if r.aware then 1 else 0) ∧
    (∀ t ∈ c.bk.notes, t = Term.completedOk ∨ (t = Term.withError ∧ r.stopErr = true ∧ r.reuse = false)) ∧
    c.bk.aware = false ∧ c.bk.respHeld = false ∧ c.bk.respDrops = 1 ∧
    c.bk.poolDestroys + c.bk.poolResets = 1 ∧ c.bk.poolLive = decide (c.bk.poolResets = 1) ∧
    c.bk.cstClosed = decide (c.bk.poolDestroys = 1) ∧
    c.bk.cleanups = (if c.bk.inCleanup then 1 else 0) ∧ (c.bk.inCleanup = true → c.bk.cstClosed = true) := by
  rcases h.done hd with e | e <;> rw [e] <;> cases r.aware <;> cases r.reuse <;> cases r.stopErr <;> decide

/-- … while the reply is in progress: nothing has been notified or released -/
theorem Book.live_counts {r : Resp} {c : Conn} (h : Book r c) (hn : ¬ Final c.st) :
    c.bk.notes = [] ∧ c.bk.aware = r.aware ∧ c.bk.respHeld = true ∧ c.bk.respDrops = 0 ∧ c.bk.poolLive = true ∧
    c.bk.poolDestroys = 0 ∧ c.bk.poolResets = 0 ∧ c.bk.cstClosed = false ∧ c.bk.cleanups = 0 ∧ c.bk.inCleanup = false := by
  rw [h.live hn]; exact ⟨rfl, rfl, rfl, rfl, rfl, rfl, rfl, rfl, rfl, rfl⟩

/-- a closed connection whose clean-up has run does not change any more -/
theorem settled_of_fin {c : Conn} (h : c.bk.fin = c.bk) : idleClosed c = c := by
  have := idleClosed_bk c
  unfold idleClosed at this ⊢
  split
  · rename_i hc
    rw [if_pos hc] at this
    have e : c.bk.cleanup = c.bk := by
      have : c.bk.fin = c.bk.cleanup := by unfold Bk.fin; rw [if_pos hc]
      rw [← this]; exact h
    rw [e]
  · rfl

/-! ### Several replies on one connection (keep-alive, pipelining) -/

/-- A connection serves the requests one after the other: reply `k+1` is started (by
    `connection_reset` with `reuse`) only when reply `k` is complete and the connection is kept;
    every reply has its own fault script.  Result: all bytes the socket took, in order. -/
def session : List (Resp × Bool × List Round) → Bytes
  | [] => []
  | (r, a, xs) :: rest =>
    let c := run r (startReply r a) xs
    c.out ++ (if c.st = .done ∧ r.reuse = true then session rest else [])

theorem session_prefix_aux : ∀ (ss : List (Resp × Bool × List Round)), (∀ s ∈ ss, WF s.1) →
    (∀ s ∈ ss, ∀ x ∈ s.2.2, x.Legal) → session ss <+: (ss.map (fun s => stream s.1)).flatten
  | [], _, _ => List.prefix_refl _
  | (r, a, xs) :: rest, hw, hx => by
    have hwr : WF r := hw (r, a, xs) List.mem_cons_self
    have hinv := run_inv hwr xs (startReply r a) (start_inv hwr a) (hx (r, a, xs) List.mem_cons_self)
    have ih := session_prefix_aux rest (fun s hs => hw s (List.mem_cons_of_mem _ hs))
      (fun s hs => hx s (List.mem_cons_of_mem _ hs))
    simp only [session, List.map_cons, List.flatten_cons]
    split
    · rename_i hd
      have hout : (run r (startReply r a) xs).out = stream r := by
        have := hinv.eqn (by rw [hd.1]; decide)
        simpa [pending, hd.1] using this
      rw [hout]
      exact (List.prefix_append_right_inj _).mpr ih
    · rw [List.append_nil]
      exact List.IsPrefix.trans hinv.pfx (List.prefix_append _ _)

/-! ### Fair schedules -/

theorem countGood_append (xs ys : List Round) : countGood (xs ++ ys) = countGood xs + countGood ys := by
  unfold countGood; exact List.countP_append

theorem range_map_succ (f : Nat → Round) (n : Nat) :
    (List.range (n + 1)).map f = (List.range n).map f ++ [f n] := by
  rw [List.range_succ, List.map_append]; rfl

theorem countGood_mono (f : Nat → Round) : ∀ (n m : Nat), n ≤ m →
    countGood ((List.range n).map f) ≤ countGood ((List.range m).map f) := by
  intro n m h
  induction m with
  | zero => have : n = 0 := by omega
            rw [this]; exact Nat.le_refl _
  | succ k ih =>
    by_cases hk : n ≤ k
    · rw [range_map_succ, countGood_append]; have := ih hk; omega
    · have : n = k + 1 := by omega
      rw [this]; exact Nat.le_refl _

/-- in a fair schedule (productive rounds keep coming) every number of productive rounds is reached -/
theorem fair_reaches (f : Nat → Round) (fair : ∀ n, ∃ m, n ≤ m ∧ (f m).good) :
    ∀ k, ∃ N, k ≤ countGood ((List.range N).map f) := by
  intro k
  induction k with
  | zero => exact ⟨0, Nat.zero_le _⟩
  | succ k ih =>
    obtain ⟨N, hN⟩ := ih
    obtain ⟨m, hm, hg⟩ := fair N
    refine ⟨m + 1, ?_⟩
    rw [range_map_succ, countGood_append]
    have h1 := countGood_mono f N m hm
    have h2 : countGood [f m] = 1 := by simp [countGood, hg]
    omega

/-! ### Upload side: completion, hard errors, the closed state -/

theorem upRun_closed : ∀ (ops : List UpOp) (u : Up), u.closed = true → upRun u ops = u
  | [], _, _ => rfl
  | op :: ops, u, h => by
    have e : upStep u op = u := by
      cases op with
      | read r => simp [upStep, upRead, h]
      | process t => simp [upStep, upProcess, h]
    unfold upRun
    simp only [List.foldl_cons]
    rw [e]
    exact upRun_closed ops u h

theorem UpInv.complete {body rest : Bytes} {u : Up} (h : UpInv body rest u) (h0 : u.remaining = 0) :
    u.handed = body := by
  have hp := h.handed_prefix
  have hc := h.count
  obtain ⟨t, ht⟩ := hp
  have : t.length = 0 := by
    have := congrArg List.length ht
    simp only [List.length_append] at this
    omega
  have ht0 : t = [] := List.eq_nil_of_length_eq_zero this
  rw [ht0, List.append_nil] at ht
  exact ht

end Mhd.Send
