/-
  C11 — helper lemmas for the per-connection machine (Mhd.Model.SuspConn):

  * a small framework for properties of a *turn* that compose (`TurnRel`, `Sat`) and its
    instances for the loops of the model (`idleLoop`, `chunkLoop`, `callHandlers`);
  * the quietness monitor `quietFrom` ("no handler / reader / socket event between an
    effective suspend and the move back") and the proof that every turn function obeys it
    when the guards of the source are present (`Guards.Sound`);
  * the frame `FrS`: constant fields, and "a suspended connection with a pending resume
    request has told the daemon";
  * the entry points return first thing for a suspended connection.
-/
import Mhd.Model.SuspDaemon
namespace Mhd.Susp

/-- a property of a turn (start state, events, end state) that composes -/
structure TurnRel (R : Conn → List CEv → Conn → Prop) : Prop where
  refl : ∀ k, R k [] k
  trans : ∀ k e1 k1 e2 k2, R k e1 k1 → R k1 e2 k2 → R k (e1 ++ e2) k2

/-- `f` satisfies `R` on every start state -/
def Sat (R : Conn → List CEv → Conn → Prop) (f : Conn → Conn × List CEv) : Prop :=
  ∀ k, R k (f k).2 (f k).1

theorem sat_seq2 {R} (hR : TurnRel R) {f h} (hf : Sat R f) (hh : Sat R h) : Sat R (seq2 f h) := by
  intro k
  simp only [seq2]
  exact hR.trans _ _ _ _ _ (hf k) (hh _)

theorem sat_stepIf {R} (hR : TurnRel R) {g ep c f} (hf : Sat R f) (hi : Sat R (handleIdle g ep)) :
    Sat R (stepIf g ep c f) := by
  intro k
  unfold stepIf
  split
  · exact sat_seq2 hR hf hi k
  · exact hR.refl k

theorem sat_callHandlers {R} (hR : TurnRel R) {g ep} (hr : Sat R (handleRead g)) (hw : Sat R (handleWrite g))
    (hi : Sat R (handleIdle g ep)) (rr wr : Bool) : Sat R (fun k => callHandlers g ep k rr wr) := by
  intro k
  simp only [callHandlers]
  have A := sat_stepIf (c := k.eli.hasRead && rr) hR hr hi k
  generalize stepIf g ep (k.eli.hasRead && rr) (handleRead g) k = a at A
  have B := sat_stepIf (c := a.1.eli == .write && wr) hR hw hi a.1
  generalize stepIf g ep (a.1.eli == .write && wr) (handleWrite g) a.1 = b at B
  have AB := hR.trans _ _ _ _ _ A B
  split
  · exact hR.trans _ _ _ _ _ AB (hi b.1)
  · split
    · have C := sat_stepIf (c := b.1.st == .hdrSending) hR hw hi b.1
      generalize stepIf g ep (b.1.st == .hdrSending) (handleWrite g) b.1 = c at C
      have E := sat_stepIf (c := c.1.st == .bodyReady) hR hw hi c.1
      generalize stepIf g ep (c.1.st == .bodyReady) (handleWrite g) c.1 = e at E
      exact hR.trans _ _ _ _ _ (hR.trans _ _ _ _ _ AB C) E
    · exact AB
end Mhd.Susp

namespace Mhd.Susp

theorem sat_idleLoop {R} (hR : TurnRel R) {g} (hfault : ∀ k w, R k [.fault w] (k.setFault w).1)
    (hstep : ∀ k, ((g.idleLoop && k.suspended) || k.fault.isSome) = false → R k (idleStep g k).2.1 (idleStep g k).1) :
    ∀ n, Sat R (idleLoop g n) := by
  intro n
  induction n with
  | zero => intro k; simp only [idleLoop, Conn.setFault]; exact hfault k _
  | succ n ih =>
    intro k
    simp only [idleLoop]
    by_cases hc : ((g.idleLoop && k.suspended) || k.fault.isSome) = true
    · rw [if_pos hc]; exact hR.refl k
    · rw [if_neg hc]
      have hs := hstep k (by simpa using hc)
      split
      · exact hR.trans _ _ _ _ _ hs (ih _)
      · exact hs

theorem sat_handleIdle {R} (hR : TurnRel R) {g ep} (hl : Sat R (idleLoop g idleFuel))
    (he : Sat R (fun k => (updateEli g k, []))) (hp : Sat R (fun k => (epollUpdate k, []))) :
    Sat R (handleIdle g ep) := by
  intro k
  simp only [handleIdle]
  have A := hl k
  have B := he (idleLoop g idleFuel k).1
  have AB := hR.trans _ _ _ _ _ A B
  simp only [List.append_nil] at AB
  split
  · have C := hp (updateEli g (idleLoop g idleFuel k).1)
    have := hR.trans _ _ _ _ _ AB C
    simpa using this
  · exact AB

theorem sat_chunkLoop {R} (hR : TurnRel R) {g} (hfault : ∀ k w, R k [.fault w] (k.setFault w).1)
    (hit : ∀ k, R k (chunkIter g k).2.1 (chunkIter g k).1) : ∀ n, Sat R (chunkLoop g n) := by
  intro n
  induction n with
  | zero => intro k; simp only [chunkLoop, Conn.setFault]; exact hfault k _
  | succ n ih =>
    intro k
    simp only [chunkLoop]
    split
    · exact hR.trans _ _ _ _ _ (hit k) (ih _)
    · exact hit k

end Mhd.Susp

namespace Mhd.Susp

theorem sat_chunkLoop_pre {R} (hR : TurnRel R) {g} (P : Conn → Prop)
    (hfault : ∀ k w, R k [.fault w] (k.setFault w).1)
    (hit : ∀ k, P k → R k (chunkIter g k).2.1 (chunkIter g k).1)
    (hnext : ∀ k, P k → ((chunkIter g k).2.2 && !(g.bodyRetry && (chunkIter g k).1.suspended)
                          && (chunkIter g k).1.fault.isNone) = true → P (chunkIter g k).1) :
    ∀ n k, P k → R k (chunkLoop g n k).2 (chunkLoop g n k).1 := by
  intro n
  induction n with
  | zero => intro k _; simp only [chunkLoop, Conn.setFault]; exact hfault k _
  | succ n ih =>
    intro k hk
    simp only [chunkLoop]
    split
    · next h => exact hR.trans _ _ _ _ _ (hit k hk) (ih _ (hnext k hk h))
    · exact hit k hk

/-! ### quietness monitor -/

def CEv.active : CEv → Bool
  | .suspend _ | .resumeReq | .resumed | .fault _ | .connStart => false
  | _ => true

def qstep (s : Bool) (e : CEv) : Option Bool :=
  match e with
  | .suspend true => if s then none else some true
  | .resumed => some false
  | e => if e.active && s then none else some s

def quietFrom (s : Bool) : List CEv → Option Bool
  | [] => some s
  | e :: r => (qstep s e).bind (fun s' => quietFrom s' r)

theorem quietFrom_append (s : Bool) (a b : List CEv) :
    quietFrom s (a ++ b) = (quietFrom s a).bind (fun s' => quietFrom s' b) := by
  induction a generalizing s with
  | nil => simp [quietFrom]
  | cons e r ih =>
    simp only [List.cons_append, quietFrom]
    cases h : qstep s e with
    | none => simp
    | some s' => simp [ih]

def QR (k : Conn) (evs : List CEv) (k' : Conn) : Prop := quietFrom k.suspended evs = some k'.suspended

theorem QR_rel : TurnRel QR where
  refl := by intro k; simp [QR, quietFrom]
  trans := by
    intro k e1 k1 e2 k2 h1 h2
    simp only [QR] at *
    rw [quietFrom_append, h1]; simpa using h2

end Mhd.Susp

namespace Mhd.Susp

@[simp] theorem qstep_resumeReq (s) : qstep s .resumeReq = some s := by simp [qstep, CEv.active]
@[simp] theorem qstep_fault (s w) : qstep s (.fault w) = some s := by simp [qstep, CEv.active]
@[simp] theorem qstep_connStart (s) : qstep s .connStart = some s := by simp [qstep, CEv.active]
@[simp] theorem qstep_resumed (s) : qstep s .resumed = some false := by simp [qstep]
@[simp] theorem qstep_suspF (s) : qstep s (.suspend false) = some s := by simp [qstep, CEv.active]
@[simp] theorem qstep_suspT : qstep false (.suspend true) = some true := by simp [qstep]
@[simp] theorem qstep_active (e : CEv) (h : e.active = true) : qstep false e = some false := by
  cases e <;> simp_all [qstep, CEv.active]

@[simp] theorem qstep_handler (p o t) : qstep false (.handler p o t) = some false := rfl
@[simp] theorem qstep_queued : qstep false .queued = some false := rfl
@[simp] theorem qstep_reader (j p r) : qstep false (.reader j p r) = some false := rfl
@[simp] theorem qstep_recv (n) : qstep false (.recv n) = some false := rfl
@[simp] theorem qstep_sendHdr : qstep false .sendHdr = some false := rfl
@[simp] theorem qstep_sendBody (b) : qstep false (.sendBody b) = some false := rfl
@[simp] theorem qstep_sendEnd : qstep false .sendEnd = some false := rfl
@[simp] theorem qstep_completed : qstep false .completed = some false := rfl

theorem doSuspend_susp (g : Guards) (k : Conn) :
    (k.doSuspend g).1.suspended = ((k.doSuspend g).2 || k.suspended) := by
  unfold Conn.doSuspend; split <;> simp

@[simp] theorem doResumeReq_susp (k : Conn) : k.doResumeReq.suspended = k.suspended := rfl

@[simp] theorem qstep_susp (e : Bool) : qstep false (.suspend e) = some e := by cases e <;> simp

theorem QR_suspendAct (g : Guards) (a : ActK) : Sat QR (fun k => suspendAct g k a) := by
  intro k
  simp only [QR, suspendAct]
  by_cases hs : k.suspended = true
  · simp [hs, Conn.setFault, quietFrom]
  · have hs' : k.suspended = false := by simpa using hs
    rw [if_neg hs]
    cases a with
    | pre => simp [quietFrom, hs', doSuspend_susp]
    | imm => simp [quietFrom, hs', doSuspend_susp]
    | manual => simp [quietFrom, hs', doSuspend_susp]
    | delay n =>
      simp only [quietFrom, hs', qstep_susp, Option.bind_some]
      split <;> simp_all [doSuspend_susp]

theorem QR_optAct (g : Guards) (a : Option ActK) : Sat QR (fun k => optAct g k a) := by
  intro k
  cases a with
  | none => simp [optAct, QR, quietFrom]
  | some a => exact QR_suspendAct g a k

/-- `f` satisfies `R` from every non-suspended start state -/
def SatU (R : Conn → List CEv → Conn → Prop) (f : Conn → Conn × List CEv) : Prop :=
  ∀ k, k.suspended = false → R k (f k).2 (f k).1

theorem QR_cons_active {k k' : Conn} {e : CEv} {evs} (hk : k.suspended = false) (he : e.active = true)
    (k1 : Conn) (h1 : k1.suspended = false) (h : QR k1 evs k') : QR k (e :: evs) k' := by
  simp only [QR, quietFrom, hk, qstep_active e he] at *
  simpa [h1] using h

theorem QR_callFirst (g : Guards) : SatU QR (callFirst g) := by
  intro k hk
  simp only [callFirst]
  exact QR_cons_active hk (by simp [CEv.active]) _ (by simpa using hk) (QR_optAct g _ _)

theorem QR_callFinal (g : Guards) : SatU QR (callFinal g) := by
  intro k hk
  simp only [callFinal]
  split
  · simp [QR, quietFrom, hk]
  · split
    · exact QR_cons_active hk (by simp [CEv.active]) _ (by simpa using hk) (QR_suspendAct g _ _)
    · simp [QR, quietFrom, hk]

end Mhd.Susp

namespace Mhd.Susp

theorem QR_frame {k k1 k2 : Conn} {evs} (h : QR k evs k1) (e : k2.suspended = k1.suspended) : QR k evs k2 := by
  simp only [QR] at *; rw [e]; exact h

theorem QR_start {k k0 k1 : Conn} {evs} (h : QR k0 evs k1) (e : k.suspended = k0.suspended) : QR k evs k1 := by
  simp only [QR] at *; rw [e]; exact h

theorem QR_nil {k k1 : Conn} (e : k1.suspended = k.suspended) : QR k [] k1 := by
  simp [QR, quietFrom, e]

theorem QR_callUpload (g : Guards) (off : List UInt8) (k : Conn) (hk : k.suspended = false) :
    QR k (callUpload g k off).2.1 (callUpload g k off).1 := by
  simp only [callUpload]
  exact QR_cons_active hk (by simp [CEv.active]) _ (by simpa using hk) (QR_optAct g _ _)

theorem QR_callReader (g : Guards) (mx : Nat) (k : Conn) (hk : k.suspended = false) :
    QR k (callReader g k mx).2.1 (callReader g k mx).1 := by
  simp only [callReader]
  split
  · exact QR_cons_active hk (by simp [CEv.active]) _ (by simpa using hk) (QR_optAct g _ _)
  · split
    · simp [QR, quietFrom, hk]
    · exact QR_cons_active hk (by simp [CEv.active]) _ (by simpa using hk) (QR_optAct g _ _)

theorem QR_procBodyCL (g : Guards) : SatU QR (procBodyCL g) := by
  intro k hk
  simp only [procBodyCL]
  split
  · exact QR_nil rfl
  · exact QR_frame (QR_callUpload g _ k hk) rfl

theorem QR_setFault (k : Conn) (w : String) : QR k [.fault w] (k.setFault w).1 := by
  simp [QR, quietFrom, Conn.setFault]

theorem QR_faultIter (k : Conn) (w : String) : QR k (faultIter k w).2.1 (faultIter k w).1 := QR_setFault k w

theorem QR_chunkSizeLine (k : Conn) : QR k (chunkSizeLine k).2.1 (chunkSizeLine k).1 := by
  unfold chunkSizeLine
  split
  · exact QR_nil rfl
  · exact QR_nil rfl
  · exact QR_nil rfl
  · exact QR_faultIter _ _

theorem QR_chunkEnd (k : Conn) : QR k (chunkEnd k).2.1 (chunkEnd k).1 := by
  unfold chunkEnd
  split
  · simp only []
    split
    · exact QR_nil rfl
    · exact QR_start (QR_chunkSizeLine _) rfl
  · exact QR_nil rfl
  · exact QR_faultIter _ _

theorem QR_chunkMid (g : Guards) (k : Conn) (hk : k.suspended = false) : QR k (chunkMid g k).2.1 (chunkMid g k).1 := by
  unfold chunkMid
  simp only []
  split
  · split
    · exact QR_nil rfl
    · exact QR_faultIter _ _
  · exact QR_frame (QR_callUpload g _ k hk) rfl

theorem QR_chunkIter (g : Guards) (k : Conn) (hk : k.suspended = false) :
    QR k (chunkIter g k).2.1 (chunkIter g k).1 := by
  unfold chunkIter
  split
  · exact QR_chunkEnd k
  · split
    · exact QR_chunkMid g k hk
    · exact QR_chunkSizeLine k

theorem QR_procBody (g : Guards) (hg : g.bodyRetry = true) : SatU QR (procBody g) := by
  intro k hk
  unfold procBody
  split
  · refine sat_chunkLoop_pre QR_rel (fun k => k.suspended = false) QR_setFault (QR_chunkIter g) ?_ _ k hk
    intro k _ h
    simp only [hg, Bool.true_and, Bool.and_eq_true, Bool.not_eq_true'] at h
    exact h.1.2
  · exact QR_procBodyCL g k hk

end Mhd.Susp

namespace Mhd.Susp

/-- the reader never suspends and returns data at the same time, or the write path is guarded -/
def RdOK (g : Guards) (k : Conn) : Prop :=
  g.writeReader = true ∨ ∀ p ∈ k.script, p.rd = false ∨ p.rkind = .cbUnknown

theorem plan_mem_script (k : Conn) : k.plan ∈ k.script := by
  unfold Conn.script; exact List.mem_append_right _ List.mem_cons_self

/-- … in particular for the request being processed -/
theorem RdOK.cur {g : Guards} {k : Conn} (h : RdOK g k) :
    g.writeReader = true ∨ k.plan.rd = false ∨ k.chunkedReply = true := by
  rcases h with h | h
  · exact Or.inl h
  · rcases h k.plan (plan_mem_script k) with h | h
    · exact Or.inr (Or.inl h)
    · exact Or.inr (Or.inr (by simp [Conn.chunkedReply, h]))

theorem optAct_none_susp (g : Guards) (k : Conn) : (optAct g k none).1 = k := rfl

theorem callReader_data_unsusp (g : Guards) (mx : Nat) (k : Conn) (hk : k.suspended = false) (hrd : k.plan.rd = false) :
    (callReader g k mx).2.2 ≠ some 0 → (callReader g k mx).1.suspended = false := by
  simp only [callReader, hrd, Bool.not_false, Bool.and_true]
  split
  · simp
  · next h =>
    have hn : lookupAct k.nreader k.plan.rs = none := by
      cases hh : lookupAct k.nreader k.plan.rs <;> simp_all
    split
    · simp [hk]
    · simp [hn, optAct, hk]

theorem QR_readyChunked (g : Guards) (k : Conn) (hk : k.suspended = false) :
    QR k (readyChunked g k).2.1 (readyChunked g k).1 := by
  unfold readyChunked
  split
  · exact QR_nil rfl
  · simp only []
    split
    · exact QR_frame (QR_callReader g _ k hk) rfl
    · exact QR_callReader g _ k hk
    · exact QR_frame (QR_callReader g _ k hk) rfl

theorem QR_tryReadyNormal (g : Guards) (k : Conn) (hk : k.suspended = false) :
    QR k (tryReadyNormal g k).2.1 (tryReadyNormal g k).1 := by
  unfold tryReadyNormal
  split
  · exact QR_nil rfl
  · split
    · exact QR_nil rfl
    · simp only []
      split
      · exact QR_rel.trans _ _ _ _ _ (QR_callReader g _ k hk) (QR_setFault _ _)
      · exact QR_frame (QR_callReader g _ k hk) rfl
      · exact QR_frame (QR_callReader g _ k hk) rfl

theorem tryReadyNormal_ready_unsusp (g : Guards) (k : Conn) (hk : k.suspended = false) (hrd : k.plan.rd = false) :
    (tryReadyNormal g k).2.2 = true → (tryReadyNormal g k).1.suspended = false := by
  unfold tryReadyNormal
  split
  · intro _; exact hk
  · split
    · intro _; exact hk
    · simp only []
      split
      · simp [Conn.setFault]
      · simp
      · next n hn h =>
        intro _
        have := callReader_data_unsusp g (min 1024 (k.plan.size - k.rwp)) k hk hrd (by rw [h]; simpa using hn)
        simpa using this

end Mhd.Susp

namespace Mhd.Susp

theorem QR_snoc_active {k k1 : Conn} {evs} {e : CEv} (h : QR k evs k1) (h1 : k1.suspended = false)
    (he : e.active = true) (k2 : Conn) (h2 : k2.suspended = false) : QR k (evs ++ [e]) k2 := by
  simp only [QR] at *
  rw [quietFrom_append, h]
  simp [quietFrom, h1, h2, qstep_active e he]

theorem QR_writeBodyKnown (g : Guards) (k : Conn) (hk : k.suspended = false) (hok : g.writeReader = true ∨ k.plan.rd = false) :
    QR k (writeBodyKnown g k).2 (writeBodyKnown g k).1 := by
  unfold writeBodyKnown
  split
  · simp only []
    split
    · exact QR_tryReadyNormal g k hk
    · next hready =>
      split
      · exact QR_tryReadyNormal g k hk
      · next hns =>
        have hu : (tryReadyNormal g k).1.suspended = false := by
          rcases hok with h | h
          · simpa [h] using hns
          · exact tryReadyNormal_ready_unsusp g k hk h (by simpa using hready)
        exact QR_snoc_active (QR_tryReadyNormal g k hk) hu (by simp [CEv.active]) _ (by simpa using hu)
  · exact QR_nil rfl

theorem QR_handleWrite (g : Guards) (hg : g.write = true) (k : Conn)
    (hok : g.writeReader = true ∨ k.plan.rd = false ∨ k.chunkedReply = true) :
    QR k (handleWrite g k).2 (handleWrite g k).1 := by
  unfold handleWrite
  by_cases hs : k.suspended = true
  · simp [hg, hs, QR, quietFrom]
  · have hk : k.suspended = false := by simpa using hs
    simp only [hg, hk, Bool.and_false, Bool.false_eq_true, if_false]
    split
    · simp [QR, quietFrom, hk]
    · split
      · simp [QR, quietFrom, hk]
      · next hc =>
        refine QR_writeBodyKnown g k hk ?_
        rcases hok with h | h | h
        · exact Or.inl h
        · exact Or.inr h
        · exact absurd h hc
    · simp [QR, quietFrom, hk]
    · exact QR_nil rfl

theorem QR_handleRead (g : Guards) (hg : g.read = true) : Sat QR (handleRead g) := by
  intro k
  unfold handleRead
  by_cases hs : k.suspended = true
  · simp [hg, hs, QR, quietFrom]
  · have hk : k.suspended = false := by simpa using hs
    simp only [hg, hk, Bool.and_false, Bool.false_eq_true, if_false]
    split <;> simp [QR, quietFrom, hk]

end Mhd.Susp

namespace Mhd.Susp

/-- what every turn preserves: the constant fields, and "a suspended connection with a pending
    resume request has told the daemon" -/
def FrS (k k' : Conn) : Prop :=
  k'.script = k.script ∧ k'.sent = k.sent ∧
  (k'.suspended = true → k'.resuming = true → (k.suspended = true ∧ k.resuming = true) ∨ k'.dres = true) ∧
  (k.dres = true → k'.dres = true)
def Fr (k : Conn) (_ : List CEv) (k' : Conn) : Prop := FrS k k'

theorem FrS.refl (k : Conn) : FrS k k := ⟨rfl, rfl, fun a b => Or.inl ⟨a, b⟩, id⟩
theorem FrS.trans {a b c : Conn} (h1 : FrS a b) (h2 : FrS b c) : FrS a c := by
  refine ⟨h2.1.trans h1.1, h2.2.1.trans h1.2.1, ?_, fun h => h2.2.2.2 (h1.2.2.2 h)⟩
  intro hs hr
  rcases h2.2.2.1 hs hr with ⟨hs1, hr1⟩ | hd
  · rcases h1.2.2.1 hs1 hr1 with h | hd
    · exact Or.inl h
    · exact Or.inr (h2.2.2.2 hd)
  · exact Or.inr hd
/-- the end state may be replaced by one that agrees on the five fields -/
theorem FrS.to {a b b' : Conn} (h : FrS a b) (h1 : b'.script = b.script) (h2 : b'.sent = b.sent)
    (h3 : b'.suspended = b.suspended) (h4 : b'.resuming = b.resuming) (h5 : b'.dres = b.dres) : FrS a b' := by
  refine ⟨h1.trans h.1, h2.trans h.2.1, ?_, ?_⟩
  · rw [h3, h4, h5]; exact h.2.2.1
  · rw [h5]; exact h.2.2.2
theorem FrS.from {a a' b : Conn} (h : FrS a' b) (h1 : a'.script = a.script) (h2 : a'.sent = a.sent)
    (h3 : a'.suspended = a.suspended) (h4 : a'.resuming = a.resuming) (h5 : a'.dres = a.dres) : FrS a b := by
  refine ⟨h.1.trans h1, h.2.1.trans h2, ?_, ?_⟩
  · rw [← h3, ← h4]; exact h.2.2.1
  · rw [← h5]; exact h.2.2.2
theorem FrS.of_eq {a b : Conn} (h1 : b.script = a.script) (h2 : b.sent = a.sent)
    (h3 : b.suspended = a.suspended) (h4 : b.resuming = a.resuming) (h5 : b.dres = a.dres) : FrS a b :=
  (FrS.refl a).to h1 h2 h3 h4 h5

theorem Fr_rel : TurnRel Fr where
  refl := by intro k; exact FrS.refl k
  trans := by intro k e1 k1 e2 k2 h1 h2; exact FrS.trans h1 h2

theorem FrS_doSuspend (g : Guards) (hg : g.shortcut = true) (k : Conn) : FrS k (k.doSuspend g).1 := by
  unfold Conn.doSuspend FrS
  by_cases h : k.resuming = true <;> simp [h, hg, Conn.script]

theorem FrS_doResumeReq (k : Conn) : FrS k k.doResumeReq := by
  unfold Conn.doResumeReq FrS; simp [Conn.script]

theorem FrS_suspendAct (g : Guards) (hg : g.shortcut = true) (a : ActK) (k : Conn) : FrS k (suspendAct g k a).1 := by
  simp only [suspendAct]
  split
  · exact FrS.of_eq rfl rfl rfl rfl rfl
  · cases a with
    | pre => exact (FrS_doResumeReq k).trans (FrS_doSuspend g hg _)
    | imm => exact (FrS_doSuspend g hg k).trans (FrS_doResumeReq _)
    | manual => exact FrS_doSuspend g hg k
    | delay n =>
      simp only []
      split
      · exact (FrS_doSuspend g hg k).to rfl rfl rfl rfl rfl
      · exact FrS_doSuspend g hg k

theorem FrS_optAct (g : Guards) (hg : g.shortcut = true) (a : Option ActK) (k : Conn) : FrS k (optAct g k a).1 := by
  cases a with
  | none => exact FrS.refl k
  | some a => exact FrS_suspendAct g hg a k

theorem FrS_callFirst (g : Guards) (hg : g.shortcut = true) (k : Conn) : FrS k (callFirst g k).1 := by
  simp only [callFirst]; exact (FrS_optAct g hg _ _).from rfl rfl rfl rfl rfl

theorem FrS_callUpload (g : Guards) (hg : g.shortcut = true) (off) (k : Conn) : FrS k (callUpload g k off).1 := by
  simp only [callUpload]; exact (FrS_optAct g hg _ _).from rfl rfl rfl rfl rfl

theorem FrS_callFinal (g : Guards) (hg : g.shortcut = true) (k : Conn) : FrS k (callFinal g k).1 := by
  simp only [callFinal]
  split
  · exact FrS.refl k
  · split
    · exact (FrS_suspendAct g hg _ _).from rfl rfl rfl rfl rfl
    · exact FrS.of_eq rfl rfl rfl rfl rfl

theorem FrS_callReader (g : Guards) (hg : g.shortcut = true) (mx) (k : Conn) : FrS k (callReader g k mx).1 := by
  simp only [callReader]
  split
  · exact (FrS_optAct g hg _ _).from rfl rfl rfl rfl rfl
  · split
    · exact FrS.of_eq rfl rfl rfl rfl rfl
    · exact (FrS_optAct g hg _ _).from rfl rfl rfl rfl rfl

theorem FrS_procBodyCL (g : Guards) (hg : g.shortcut = true) (k : Conn) : FrS k (procBodyCL g k).1 := by
  simp only [procBodyCL]
  split
  · exact FrS.refl k
  · exact (FrS_callUpload g hg _ k).to rfl rfl rfl rfl rfl

theorem FrS_chunkSizeLine (k : Conn) : FrS k (chunkSizeLine k).1 := by
  unfold chunkSizeLine
  split <;> exact FrS.of_eq rfl rfl rfl rfl rfl

theorem FrS_chunkEnd (k : Conn) : FrS k (chunkEnd k).1 := by
  unfold chunkEnd
  split
  · simp only []
    split
    · exact FrS.of_eq rfl rfl rfl rfl rfl
    · exact (FrS_chunkSizeLine _).from rfl rfl rfl rfl rfl
  · exact FrS.refl k
  · exact FrS.of_eq rfl rfl rfl rfl rfl

theorem FrS_chunkMid (g : Guards) (hg : g.shortcut = true) (k : Conn) : FrS k (chunkMid g k).1 := by
  unfold chunkMid
  simp only []
  split
  · split <;> exact FrS.of_eq rfl rfl rfl rfl rfl
  · exact (FrS_callUpload g hg _ k).to rfl rfl rfl rfl rfl

theorem FrS_chunkIter (g : Guards) (hg : g.shortcut = true) (k : Conn) : FrS k (chunkIter g k).1 := by
  unfold chunkIter
  split
  · exact FrS_chunkEnd k
  · split
    · exact FrS_chunkMid g hg k
    · exact FrS_chunkSizeLine k

theorem Fr_procBody (g : Guards) (hg : g.shortcut = true) : Sat Fr (procBody g) := by
  intro k
  unfold procBody
  split
  · exact sat_chunkLoop Fr_rel (fun k w => FrS.of_eq rfl rfl rfl rfl rfl) (FrS_chunkIter g hg) _ k
  · exact FrS_procBodyCL g hg k

theorem FrS_readyChunked (g : Guards) (hg : g.shortcut = true) (k : Conn) : FrS k (readyChunked g k).1 := by
  unfold readyChunked
  split
  · exact FrS.of_eq rfl rfl rfl rfl rfl
  · simp only []
    split
    · exact (FrS_callReader g hg _ k).to rfl rfl rfl rfl rfl
    · exact FrS_callReader g hg _ k
    · exact (FrS_callReader g hg _ k).to rfl rfl rfl rfl rfl

theorem FrS_tryReadyNormal (g : Guards) (hg : g.shortcut = true) (k : Conn) : FrS k (tryReadyNormal g k).1 := by
  unfold tryReadyNormal
  split
  · exact FrS.refl k
  · split
    · exact FrS.refl k
    · simp only []
      split
      · exact (FrS_callReader g hg _ k).to rfl rfl rfl rfl rfl
      · exact (FrS_callReader g hg _ k).to rfl rfl rfl rfl rfl
      · exact (FrS_callReader g hg _ k).to rfl rfl rfl rfl rfl

end Mhd.Susp

namespace Mhd.Susp

/-! ### idleStep -/

theorem FrS_nextRequest (k : Conn) : FrS k (nextRequest k).1 := by
  unfold nextRequest
  split
  · exact FrS.of_eq rfl rfl rfl rfl rfl
  · next p ps h =>
    refine FrS.of_eq ?_ rfl rfl rfl rfl
    simp [Conn.script, h]

theorem QR_nextRequest (k : Conn) (hk : k.suspended = false) : QR k (nextRequest k).2.1 (nextRequest k).1 := by
  unfold nextRequest
  split <;> simp [QR, quietFrom, hk]

theorem FrS_idleStep (g : Guards) (hg : g.shortcut = true) (k : Conn) : FrS k (idleStep g k).1 := by
  unfold idleStep
  split
  · unfold stRecvHead; split <;> exact FrS.of_eq rfl rfl rfl rfl rfl
  · unfold stHdrProcessed; simp only []; split
    · exact FrS_callFirst g hg k
    · exact (FrS_callFirst g hg k).to rfl rfl rfl rfl rfl
  · unfold stBodyRecv; simp only []
    have h : FrS k (if k.rbuf.isEmpty = true then (k, []) else procBody g k).1 := by
      split
      · exact FrS.refl k
      · exact Fr_procBody g hg k
    generalize (if k.rbuf.isEmpty = true then (k, []) else procBody g k) = r at h ⊢
    split
    · exact h.to rfl rfl rfl rfl rfl
    · exact h
  · exact FrS.of_eq rfl rfl rfl rfl rfl
  · unfold stFootersRecv; split <;> exact FrS.of_eq rfl rfl rfl rfl rfl
  · unfold stFullReq; simp only []; split
    · exact (FrS_callFinal g hg k).to rfl rfl rfl rfl rfl
    · exact FrS_callFinal g hg k
  · exact FrS.refl k
  · exact FrS.of_eq rfl rfl rfl rfl rfl
  · unfold stBodyUnready; split
    · exact FrS_readyChunked g hg k
    · split
      · exact FrS.of_eq rfl rfl rfl rfl rfl
      · simp only []; split
        · exact (FrS_tryReadyNormal g hg k).to rfl rfl rfl rfl rfl
        · exact FrS_tryReadyNormal g hg k
  · exact FrS.refl k
  · exact FrS.of_eq rfl rfl rfl rfl rfl
  · exact FrS.refl k
  · exact FrS_nextRequest k
  · exact FrS.refl k

theorem QR_idleStep (g : Guards) (hg : g.bodyRetry = true) (k : Conn) (hk : k.suspended = false) :
    QR k (idleStep g k).2.1 (idleStep g k).1 := by
  unfold idleStep
  split
  · unfold stRecvHead; split <;> exact QR_nil rfl
  · unfold stHdrProcessed; simp only []; split
    · exact QR_callFirst g k hk
    · exact QR_frame (QR_callFirst g k hk) rfl
  · unfold stBodyRecv; simp only []
    have h : QR k (if k.rbuf.isEmpty = true then (k, []) else procBody g k).2
                  (if k.rbuf.isEmpty = true then (k, []) else procBody g k).1 := by
      split
      · exact QR_nil rfl
      · exact QR_procBody g hg k hk
    generalize (if k.rbuf.isEmpty = true then (k, []) else procBody g k) = r at h ⊢
    split
    · exact QR_frame h rfl
    · exact h
  · exact QR_nil rfl
  · unfold stFootersRecv; split <;> exact QR_nil rfl
  · unfold stFullReq; simp only []; split
    · exact QR_frame (QR_callFinal g k hk) rfl
    · exact QR_callFinal g k hk
  · exact QR_nil rfl
  · exact QR_nil rfl
  · unfold stBodyUnready; split
    · exact QR_readyChunked g k hk
    · split
      · exact QR_nil rfl
      · simp only []; split
        · exact QR_frame (QR_tryReadyNormal g k hk) rfl
        · exact QR_tryReadyNormal g k hk
  · exact QR_nil rfl
  · exact QR_nil rfl
  · exact QR_nil rfl
  · exact QR_nextRequest k hk
  · exact QR_nil rfl

theorem updateEli_susp (g : Guards) (k : Conn) : (updateEli g k).suspended = k.suspended := by
  unfold updateEli; split <;> rfl
theorem updateEli_FrS (g : Guards) (k : Conn) : FrS k (updateEli g k) := by
  unfold updateEli; split <;> exact FrS.of_eq rfl rfl rfl rfl rfl
theorem epollUpdate_susp (k : Conn) : (epollUpdate k).suspended = k.suspended := by
  unfold epollUpdate; simp only []; split <;> split <;> rfl
theorem epollUpdate_FrS (k : Conn) : FrS k (epollUpdate k) := by
  unfold epollUpdate; simp only []; split <;> split <;> exact FrS.of_eq rfl rfl rfl rfl rfl

theorem QR_handleIdle (g : Guards) (hl : g.idleLoop = true) (hb : g.bodyRetry = true) (ep : Bool) :
    Sat QR (handleIdle g ep) := by
  apply sat_handleIdle QR_rel
  · apply sat_idleLoop QR_rel QR_setFault
    intro k hc
    simp only [hl, Bool.true_and, Bool.or_eq_false_iff] at hc
    exact QR_idleStep g hb k hc.1
  · intro k; exact QR_nil (updateEli_susp g k)
  · intro k; exact QR_nil (epollUpdate_susp k)

theorem Fr_handleIdle (g : Guards) (hg : g.shortcut = true) (ep : Bool) : Sat Fr (handleIdle g ep) := by
  apply sat_handleIdle Fr_rel
  · apply sat_idleLoop Fr_rel (fun k w => FrS.of_eq rfl rfl rfl rfl rfl)
    intro k _
    exact FrS_idleStep g hg k
  · intro k; exact updateEli_FrS g k
  · intro k; exact epollUpdate_FrS k

theorem Fr_handleRead (g : Guards) : Sat Fr (handleRead g) := by
  intro k; unfold handleRead; split
  · exact FrS.refl k
  · split <;> exact FrS.of_eq rfl rfl rfl rfl rfl

theorem FrS_writeBodyKnown (g : Guards) (hg : g.shortcut = true) (k : Conn) : FrS k (writeBodyKnown g k).1 := by
  unfold writeBodyKnown
  split
  · simp only []; split
    · exact FrS_tryReadyNormal g hg k
    · split
      · exact FrS_tryReadyNormal g hg k
      · exact (FrS_tryReadyNormal g hg k).to rfl rfl rfl rfl rfl
  · exact FrS.of_eq rfl rfl rfl rfl rfl

theorem Fr_handleWrite (g : Guards) (hg : g.shortcut = true) : Sat Fr (handleWrite g) := by
  intro k; unfold handleWrite; split
  · exact FrS.refl k
  · split
    · exact FrS.of_eq rfl rfl rfl rfl rfl
    · split
      · exact FrS.of_eq rfl rfl rfl rfl rfl
      · exact FrS_writeBodyKnown g hg k
    · exact FrS.of_eq rfl rfl rfl rfl rfl
    · exact FrS.refl k

theorem Fr_callHandlers (g : Guards) (hg : g.shortcut = true) (ep rr wr : Bool) : Sat Fr (fun k => callHandlers g ep k rr wr) :=
  sat_callHandlers Fr_rel (Fr_handleRead g) (Fr_handleWrite g hg) (Fr_handleIdle g hg ep) rr wr

end Mhd.Susp

namespace Mhd.Susp

/-- all the `suspended` guards the property rests on are present -/
def Guards.Sound (g : Guards) : Prop :=
  g.idleLoop = true ∧ g.idleFirstCall = true ∧ g.idleEpoll = true ∧ g.read = true ∧ g.write = true ∧
  g.eli = true ∧ g.bodyRetry = true ∧ g.shortcut = true

instance (g : Guards) : Decidable g.Sound := by unfold Guards.Sound; infer_instance

/-- quietness together with the frame, under the reader assumption -/
def QRP (g : Guards) (k : Conn) (evs : List CEv) (k' : Conn) : Prop :=
  RdOK g k → QR k evs k' ∧ FrS k k'

theorem RdOK_of_FrS {g : Guards} {k k' : Conn} (h : FrS k k') (hk : RdOK g k) : RdOK g k' := by
  unfold RdOK at *
  rw [h.1]; exact hk

theorem QRP_rel (g : Guards) : TurnRel (QRP g) where
  refl := by intro k _; exact ⟨QR_rel.refl k, FrS.refl k⟩
  trans := by
    intro k e1 k1 e2 k2 h1 h2 hk
    have a := h1 hk
    have b := h2 (RdOK_of_FrS a.2 hk)
    exact ⟨QR_rel.trans _ _ _ _ _ a.1 b.1, a.2.trans b.2⟩

theorem QR_callHandlers (g : Guards) (hg : g.Sound) (ep rr wr : Bool) (k : Conn) (hk : RdOK g k) :
    QR k (callHandlers g ep k rr wr).2 (callHandlers g ep k rr wr).1 := by
  obtain ⟨h1, _, _, h4, h5, _, h7, h8⟩ := hg
  have := sat_callHandlers (QRP_rel g) (g := g) (ep := ep)
    (fun k _ => ⟨QR_handleRead g h4 k, Fr_handleRead g k⟩)
    (fun k hk => ⟨QR_handleWrite g h5 k hk.cur, Fr_handleWrite g h8 k⟩)
    (fun k _ => ⟨QR_handleIdle g h1 h7 ep k, Fr_handleIdle g h8 ep k⟩) rr wr k hk
  exact this.1

/-- the entry points return first thing: a turn of a suspended connection does nothing -/
theorem handleRead_suspended (g : Guards) (hg : g.read = true) (k : Conn) (hk : k.suspended = true) :
    handleRead g k = (k, []) := by simp [handleRead, hg, hk]

theorem handleWrite_suspended (g : Guards) (hg : g.write = true) (k : Conn) (hk : k.suspended = true) :
    handleWrite g k = (k, []) := by simp [handleWrite, hg, hk]

theorem idleLoop_suspended (g : Guards) (hg : g.idleLoop = true) (n : Nat) (k : Conn) (hk : k.suspended = true) :
    idleLoop g (n + 1) k = (k, []) := by simp [idleLoop, hg, hk]

theorem handleIdle_suspended (g : Guards) (hg : g.Sound) (ep : Bool) (k : Conn) (hk : k.suspended = true) :
    handleIdle g ep k = (k, []) := by
  obtain ⟨h1, _, h3, _, _, h6, _, _⟩ := hg
  simp [handleIdle, idleFuel, idleLoop, updateEli, h1, h3, h6, hk]

theorem callHandlers_suspended (g : Guards) (hg : g.Sound) (ep rr wr : Bool) (k : Conn) (hk : k.suspended = true) :
    callHandlers g ep k rr wr = (k, []) := by
  have hr := handleRead_suspended g hg.2.2.2.1 k hk
  have hw := handleWrite_suspended g hg.2.2.2.2.1 k hk
  have hi := handleIdle_suspended g hg ep k hk
  simp only [callHandlers, stepIf, seq2]
  by_cases c1 : (k.eli.hasRead && rr) = true <;> by_cases c2 : (k.eli == Eli.write && wr) = true <;>
    by_cases c3 : (k.st == St.recvHead && k.rbuf.isEmpty) = true <;>
    by_cases c4 : (k.st == St.hdrSending) = true <;> by_cases c5 : (k.st == St.bodyReady) = true <;>
    simp [c1, c2, c3, c4, c5, hr, hw, hi]

end Mhd.Susp
