/-
  C17 proofs: `MHD_base64_to_bin_n` = RFC 4648 section 4 decoder with mandatory,
  canonical padding.
-/
import Mhd.Proofs.StrQuote

namespace Mhd.Str

/-! ### reference -/

/-- RFC 4648 table 1 -/
def b64val (c : UInt8) : Option Nat :=
  if 0x41 ≤ c ∧ c ≤ 0x5a then some (c.toNat - 0x41)
  else if 0x61 ≤ c ∧ c ≤ 0x7a then some (c.toNat - 0x61 + 26)
  else if 0x30 ≤ c ∧ c ≤ 0x39 then some (c.toNat - 0x30 + 52)
  else if c = 0x2b then some 62
  else if c = 0x2f then some 63
  else none

def B1 (v1 v2 : Nat) : UInt8 := UInt8.ofNat (v1 * 4 + v2 / 16)
def B2 (v2 v3 : Nat) : UInt8 := UInt8.ofNat (v2 % 16 * 16 + v3 / 4)
def B3 (v3 v4 : Nat) : UInt8 := UInt8.ofNat (v3 % 4 * 64 + v4)

/-- a full group: four alphabet characters, three bytes -/
def b64Full (a b c d : UInt8) : Option Bytes :=
  match b64val a, b64val b, b64val c, b64val d with
  | some v1, some v2, some v3, some v4 => some [B1 v1 v2, B2 v2 v3, B3 v3 v4]
  | _, _, _, _ => none

/-- the final group: may end in "=" or "=="; the unused low bits of the last
    alphabet character must be zero (canonical encoding) -/
def b64Final (a b c d : UInt8) : Option Bytes :=
  match b64val a, b64val b with
  | some v1, some v2 =>
    match b64val c with
    | none => if c = 0x3d ∧ d = 0x3d ∧ v2 % 16 = 0 then some [B1 v1 v2] else none
    | some v3 =>
      match b64val d with
      | none => if d = 0x3d ∧ v3 % 4 = 0 then some [B1 v1 v2, B2 v2 v3] else none
      | some v4 => some [B1 v1 v2, B2 v2 v3, B3 v3 v4]
  | _, _ => none

def b64Spec : Bytes → Option Bytes
  | [] => some []
  | a :: b :: c :: d :: rest =>
    if rest = [] then b64Final a b c d
    else
      match b64Full a b c d with
      | some x => (b64Spec rest).map (x ++ ·)
      | none => none
  | _ => none

/-! ### the compiled table agrees with RFC 4648 -/

theorem b64Value_table : ∀ n : Fin 256,
    b64Value (UInt8.ofNat n.val) =
      match b64val (UInt8.ofNat n.val) with
      | some v => (v : Int)
      | none => if n.val = 0x3d then -2 else -1 := by
  decide +kernel

theorem b64val_table : ∀ n : Fin 256, ∀ v, b64val (UInt8.ofNat n.val) = some v → v < 64 := by
  decide +kernel

theorem b64_cases (c : UInt8) :
    (∃ v, b64val c = some v ∧ v < 64 ∧ b64Value c = (v : Int)) ∨
    (c = 0x3d ∧ b64val c = none ∧ b64Value c = -2) ∨
    (c ≠ 0x3d ∧ b64val c = none ∧ b64Value c = -1) := by
  have h := b64Value_table ⟨c.toNat, c.toNat_lt⟩
  have h2 := b64val_table ⟨c.toNat, c.toNat_lt⟩
  simp only [ofNat_toNat_u8] at h h2
  cases hx : b64val c with
  | some v => left; simp [hx] at h; exact ⟨v, rfl, h2 v hx, h⟩
  | none =>
    right
    simp only [hx] at h
    by_cases hc : c = 0x3d
    · left; subst hc; exact ⟨rfl, rfl, by simpa using h⟩
    · right
      have : c.toNat ≠ 0x3d := by
        intro h'; apply hc; rw [← ofNat_toNat_u8 c, h']; rfl
      simp only [this, if_false] at h
      exact ⟨hc, rfl, h⟩

theorem b64_bytes_table : ∀ x y : Fin 64,
    ((u8 (x.val : Int) <<< 2) ||| (u8 (y.val : Int) >>> 4)) = B1 x.val y.val ∧
    ((u8 (x.val : Int) <<< 4) ||| (u8 (y.val : Int) >>> 2)) = B2 x.val y.val ∧
    ((u8 (x.val : Int) <<< 6) ||| u8 (y.val : Int)) = B3 x.val y.val ∧
    ((u8 (x.val : Int) <<< 4) = 0 ↔ x.val % 16 = 0) ∧
    ((u8 (x.val : Int) <<< 6) = 0 ↔ x.val % 4 = 0) := by
  decide +kernel

theorem b64_bytes (x y : Nat) (hx : x < 64) (hy : y < 64) :
    ((u8 (x : Int) <<< 2) ||| (u8 (y : Int) >>> 4)) = B1 x y ∧
    ((u8 (x : Int) <<< 4) ||| (u8 (y : Int) >>> 2)) = B2 x y ∧
    ((u8 (x : Int) <<< 6) ||| u8 (y : Int)) = B3 x y ∧
    ((u8 (x : Int) <<< 4) = 0 ↔ x % 16 = 0) ∧
    ((u8 (x : Int) <<< 6) = 0 ↔ x % 4 = 0) := b64_bytes_table ⟨x, hx⟩ ⟨y, hy⟩

theorem b64val_pad : b64val 0x3d = none := by decide

/-! ### facts about the reference -/

theorem b64Spec_nil : b64Spec [] = some [] := by rw [b64Spec.eq_def]

theorem b64Spec_last (a b c d : UInt8) : b64Spec [a, b, c, d] = b64Final a b c d := by
  rw [b64Spec.eq_def]; simp

theorem b64Spec_full (a b c d : UInt8) (rest : Bytes) (h : rest ≠ []) :
    b64Spec (a :: b :: c :: d :: rest) =
      match b64Full a b c d with
      | some x => (b64Spec rest).map (x ++ ·)
      | none => none := by
  rw [b64Spec.eq_def]; simp [h]

theorem b64Spec_short (s : Bytes) (h : 0 < s.length ∧ s.length < 4) : b64Spec s = none := by
  rw [b64Spec.eq_def]
  match s, h with
  | [_], _ => rfl
  | [_, _], _ => rfl
  | [_, _, _], _ => rfl

theorem b64Full_length {a b c d : UInt8} {x : Bytes} (h : b64Full a b c d = some x) : x.length = 3 := by
  unfold b64Full at h
  split at h
  · injection h with h; subst h; rfl
  · simp at h

theorem b64Final_length {a b c d : UInt8} {x : Bytes} (h : b64Final a b c d = some x) : 1 ≤ x.length ∧ x.length ≤ 3 := by
  unfold b64Final at h
  split at h
  · split at h
    · split at h
      · injection h with h; subst h; simp
      · simp at h
    · split at h
      · split at h
        · injection h with h; subst h; simp
        · simp at h
      · injection h with h; subst h; simp
  · simp at h

/-- a valid encoding has a length divisible by 4 and decodes to between
    `len/4*3 - 2` and `len/4*3` bytes -/
theorem b64Spec_length : ∀ (n : Nat) (s d : Bytes), s.length ≤ n → b64Spec s = some d →
    s.length % 4 = 0 ∧ d.length ≤ s.length / 4 * 3 ∧ (s ≠ [] → s.length / 4 * 3 ≤ d.length + 2) := by
  intro n
  induction n with
  | zero =>
    intro s d hn h
    have : s = [] := List.eq_nil_of_length_eq_zero (by omega)
    subst this; rw [b64Spec_nil] at h; injection h with h; subst h; simp
  | succ n ih =>
    intro s d hn h
    match s with
    | [] => rw [b64Spec_nil] at h; injection h with h; subst h; simp
    | [_] => rw [b64Spec_short _ (by simp)] at h; simp at h
    | [_, _] => rw [b64Spec_short _ (by simp)] at h; simp at h
    | [_, _, _] => rw [b64Spec_short _ (by simp)] at h; simp at h
    | a :: b :: c :: e :: rest =>
      by_cases hr : rest = []
      · subst hr
        rw [b64Spec_last] at h
        have := b64Final_length h
        simp; omega
      · rw [b64Spec_full _ _ _ _ _ hr] at h
        cases hf : b64Full a b c e with
        | none => rw [hf] at h; simp at h
        | some x =>
          rw [hf] at h
          simp only [Option.map_eq_some_iff] at h
          obtain ⟨d', hd', rfl⟩ := h
          have hx := b64Full_length hf
          have := ih rest d' (by simp at hn; omega) hd'
          have h3 := this.2.2 hr
          simp only [List.length_cons, List.length_append, hx]
          omega

/-! ### the main loop -/

def B64Inv (s out : Bytes) (st : B64St) : Prop :=
  st.i % 4 = 0 ∧ st.i + 4 ≤ s.length ∧ st.j = st.i / 4 * 3 ∧ st.out.length = out.length ∧
  b64Spec s = (b64Spec (s.drop st.i)).map (st.out.take st.j ++ ·)

theorem take_set_three (o : Bytes) (w : Nat) (a b c : UInt8) (h : w + 2 < o.length) :
    (((o.set w a).set (w + 1) b).set (w + 2) c).take (w + 3) = o.take w ++ [a, b, c] := by
  have h2 : w + 2 < ((o.set w a).set (w + 1) b).length := by simpa using h
  have h1 : w + 1 < (o.set w a).length := by simp; omega
  rw [take_set_succ _ _ _ h2, take_set_succ _ _ _ h1, take_set_succ _ _ _ (by omega)]; simp

theorem drop_four (s : Bytes) (i : Nat) (h : i + 4 ≤ s.length) :
    s.drop i = s[i] :: s[i + 1] :: s[i + 2] :: s[i + 3] :: s.drop (i + 4) := by
  rw [List.drop_eq_getElem_cons (by omega : i < s.length), List.drop_eq_getElem_cons (by omega : i + 1 < s.length),
    List.drop_eq_getElem_cons (by omega : i + 2 < s.length), List.drop_eq_getElem_cons (by omega : i + 3 < s.length)]

theorem b64Loop_step (s out : Bytes) (hlen4 : s.length % 4 = 0) (hsz : s.length / 4 * 3 - 2 ≤ out.length)
    (st : B64St) (hi : B64Inv s out st) :
    (∃ s', b64LoopStep s st = .ok (.inl s') ∧ B64Inv s out s' ∧ s.length - s'.i < s.length - st.i) ∨
    (∃ r, b64LoopStep s st = .ok (.inr r) ∧
      ((r.1 = true ∧ B64Inv s out r.2 ∧ r.2.i + 4 = s.length) ∨
       (r.1 = false ∧ r.2.out.length = out.length ∧ b64Spec s = none))) := by
  obtain ⟨hi4, hile, hj, hlen, hg⟩ := hi
  unfold b64LoopStep
  by_cases hlt : st.i < s.length - 4
  · have h4 := drop_four s st.i hile
    have hrest : s.drop (st.i + 4) ≠ [] := by
      intro h
      have : (s.drop (st.i + 4)).length = s.length - (st.i + 4) := List.length_drop
      rw [h] at this; simp at this; omega
    have hsp : b64Spec (s.drop st.i) =
        match b64Full s[st.i] s[st.i + 1] s[st.i + 2] s[st.i + 3] with
        | some x => (b64Spec (s.drop (st.i + 4))).map (x ++ ·)
        | none => none := by
      rw [h4]; exact b64Spec_full _ _ _ _ _ hrest
    simp only [hlt, if_true, rd_lt (by omega : st.i < s.length), rd_lt (by omega : st.i + 1 < s.length),
      rd_lt (by omega : st.i + 2 < s.length), rd_lt (by omega : st.i + 3 < s.length), bind_ok']
    have hfail : b64Full s[st.i] s[st.i + 1] s[st.i + 2] s[st.i + 3] = none →
        ∃ r, (Except.ok (Sum.inr (false, st)) : M (B64St ⊕ (Bool × B64St))) = .ok (.inr r) ∧
          ((r.1 = true ∧ B64Inv s out r.2 ∧ r.2.i + 4 = s.length) ∨
           (r.1 = false ∧ r.2.out.length = out.length ∧ b64Spec s = none)) := by
      intro hf
      exact ⟨(false, st), rfl, Or.inr ⟨rfl, hlen, by rw [hg, hsp, hf]; rfl⟩⟩
    rcases b64_cases s[st.i] with ⟨v1, hx1, hv1, ht1⟩ | ⟨_, hx1, ht1⟩ | ⟨_, hx1, ht1⟩
    · rcases b64_cases s[st.i + 1] with ⟨v2, hx2, hv2, ht2⟩ | ⟨_, hx2, ht2⟩ | ⟨_, hx2, ht2⟩
      · rcases b64_cases s[st.i + 2] with ⟨v3, hx3, hv3, ht3⟩ | ⟨_, hx3, ht3⟩ | ⟨_, hx3, ht3⟩
        · rcases b64_cases s[st.i + 3] with ⟨v4, hx4, hv4, ht4⟩ | ⟨_, hx4, ht4⟩ | ⟨_, hx4, ht4⟩
          · left
            have hneg : ¬ ((v1 : Int) < 0 ∨ (v2 : Int) < 0 ∨ (v3 : Int) < 0 ∨ (v4 : Int) < 0) := by omega
            have hw : st.j + 2 < st.out.length := by omega
            have hw0 : st.j < st.out.length := by omega
            simp only [ht1, ht2, ht3, ht4, hneg, if_false, pure_eq_ok]
            rw [wr_ok _ hw0]
            simp only [bind_ok']
            rw [wr_ok _ (by simp; omega)]
            simp only [bind_ok']
            rw [wr_ok _ (by simp; omega)]
            simp only [bind_ok']
            refine ⟨_, rfl, ⟨by simp; omega, by simp; omega, by simp; omega, by simp [hlen], ?_⟩, by simp; omega⟩
            simp only [take_set_three _ _ _ _ _ hw]
            have hf : b64Full s[st.i] s[st.i + 1] s[st.i + 2] s[st.i + 3] = some [B1 v1 v2, B2 v2 v3, B3 v3 v4] := by
              simp [b64Full, hx1, hx2, hx3, hx4]
            rw [hg, hsp, hf, (b64_bytes v1 v2 hv1 hv2).1, (b64_bytes v2 v3 hv2 hv3).2.1, (b64_bytes v3 v4 hv3 hv4).2.2.1]
            simp [Option.map_map, Function.comp_def]
          all_goals
            right
            have hneg : ((v1 : Int) < 0 ∨ (v2 : Int) < 0 ∨ (v3 : Int) < 0 ∨ b64Value s[st.i + 3] < 0) := by
              rw [ht4]; omega
            simp only [ht1, ht2, ht3, hneg, if_true, pure_eq_ok]
            exact hfail (by simp [b64Full, hx1, hx2, hx3, hx4])
        all_goals
          right
          have hneg : ((v1 : Int) < 0 ∨ (v2 : Int) < 0 ∨ b64Value s[st.i + 2] < 0 ∨ b64Value s[st.i + 3] < 0) := by
            rw [ht3]; omega
          simp only [ht1, ht2, hneg, if_true, pure_eq_ok]
          exact hfail (by simp [b64Full, hx1, hx2, hx3])
      all_goals
        right
        have hneg : ((v1 : Int) < 0 ∨ b64Value s[st.i + 1] < 0 ∨ b64Value s[st.i + 2] < 0 ∨ b64Value s[st.i + 3] < 0) := by
          rw [ht2]; omega
        simp only [ht1, hneg, if_true, pure_eq_ok]
        exact hfail (by simp [b64Full, hx1, hx2])
    all_goals
      right
      have hneg : (b64Value s[st.i] < 0 ∨ b64Value s[st.i + 1] < 0 ∨ b64Value s[st.i + 2] < 0 ∨ b64Value s[st.i + 3] < 0) := by
        rw [ht1]; omega
      simp only [hneg, if_true, pure_eq_ok]
      exact hfail (by simp [b64Full, hx1])
  · right
    simp only [hlt, if_false, pure_eq_ok]
    exact ⟨(true, st), rfl, Or.inl ⟨rfl, ⟨hi4, hile, hj, hlen, hg⟩, by show st.i + 4 = s.length; omega⟩⟩

/-! ### the last block -/

def B64Post (out : Bytes) (target : Option Bytes) (r : Nat × Bytes) : Prop :=
  r.2.length = out.length ∧
    match target.filter (fitsIn out.length) with
    | some d => r.1 = d.length ∧ r.2.take r.1 = d
    | none => r.1 = 0

theorem filter_append_fits (pre x : Bytes) (n : Nat) :
    (Option.map (pre ++ ·) (some x)).filter (fitsIn n) = if pre.length + x.length ≤ n then some (pre ++ x) else none := by
  simp [Option.filter, fitsIn]

theorem b64Last_spec (s out : Bytes) (hsz : s.length / 4 * 3 - 2 ≤ out.length) (st : B64St)
    (hi : B64Inv s out st) (hend : st.i + 4 = s.length) :
    ∃ r, b64Last s st = .ok r ∧ B64Post out (b64Spec s) r := by
  obtain ⟨hi4, hile, hj, hlen, hg⟩ := hi
  have h4 := drop_four s st.i hile
  have hnil : s.drop (st.i + 4) = [] := List.drop_eq_nil_of_le (by omega)
  have hsp : b64Spec s = (b64Final s[st.i] s[st.i + 1] s[st.i + 2] s[st.i + 3]).map (st.out.take st.j ++ ·) := by
    rw [hg, h4, hnil, b64Spec_last]
  have hw0 : st.j < st.out.length := by omega
  have hl : (st.out.take st.j).length = st.j := take_len _ _ (by omega)
  unfold b64Last
  simp only [rd_lt (by omega : st.i < s.length), rd_lt (by omega : st.i + 1 < s.length),
    rd_lt (by omega : st.i + 2 < s.length), rd_lt (by omega : st.i + 3 < s.length), bind_ok']
  -- failure exits: the reference rejects the last group
  have hnone : ∀ o : Bytes, o.length = out.length →
      b64Final s[st.i] s[st.i + 1] s[st.i + 2] s[st.i + 3] = none → B64Post out (b64Spec s) (0, o) := by
    intro o ho hn
    refine ⟨ho, ?_⟩
    rw [hsp, hn]; simp
  rcases b64_cases s[st.i] with ⟨v1, hx1, hv1, ht1⟩ | ⟨_, hx1, ht1⟩ | ⟨_, hx1, ht1⟩
  rotate_left
  · have hneg : ((-2 : Int) < 0 ∨ b64Value s[st.i + 1] < 0) := by omega
    simp only [ht1, hneg, if_true, pure_eq_ok]
    exact ⟨_, rfl, hnone _ hlen (by simp [b64Final, hx1])⟩
  · have hneg : ((-1 : Int) < 0 ∨ b64Value s[st.i + 1] < 0) := by omega
    simp only [ht1, hneg, if_true, pure_eq_ok]
    exact ⟨_, rfl, hnone _ hlen (by simp [b64Final, hx1])⟩
  rcases b64_cases s[st.i + 1] with ⟨v2, hx2, hv2, ht2⟩ | ⟨_, hx2, ht2⟩ | ⟨_, hx2, ht2⟩
  rotate_left
  · have hneg : ((v1 : Int) < 0 ∨ (-2 : Int) < 0) := by omega
    simp only [ht1, ht2, hneg, if_true, pure_eq_ok]
    exact ⟨_, rfl, hnone _ hlen (by simp [b64Final, hx1, hx2])⟩
  · have hneg : ((v1 : Int) < 0 ∨ (-1 : Int) < 0) := by omega
    simp only [ht1, ht2, hneg, if_true, pure_eq_ok]
    exact ⟨_, rfl, hnone _ hlen (by simp [b64Final, hx1, hx2])⟩
  have hneg12 : ¬ ((v1 : Int) < 0 ∨ (v2 : Int) < 0) := by omega
  simp only [ht1, ht2, hneg12, if_false, wr_ok _ hw0, bind_ok', (b64_bytes v1 v2 hv1 hv2).1]
  have ho1 : (st.out.set st.j (B1 v1 v2)).length = out.length := by simp [hlen]
  have ht1' : (st.out.set st.j (B1 v1 v2)).take (st.j + 1) = st.out.take st.j ++ [B1 v1 v2] := take_set_succ _ _ _ hw0
  rcases b64_cases s[st.i + 2] with ⟨v3, hx3, hv3, ht3⟩ | ⟨hc3, hx3, ht3⟩ | ⟨hc3, hx3, ht3⟩
  · -- third character valid
    have hneg3 : ¬ ((v3 : Int) < 0) := by omega
    simp only [ht3, hneg3, if_false]
    by_cases hfull1 : st.j + 1 ≥ (st.out.set st.j (B1 v1 v2)).length
    · -- no room for the second byte: the reference output has at least two bytes
      simp only [hfull1, if_true, pure_eq_ok]
      refine ⟨_, rfl, ho1, ?_⟩
      rw [hsp]
      cases hb : b64Final s[st.i] s[st.i + 1] s[st.i + 2] s[st.i + 3] with
      | none => simp
      | some x =>
        have hx2' : 2 ≤ x.length := by
          simp only [b64Final, hx1, hx2, hx3] at hb
          split at hb
          · split at hb
            · injection hb with hb; subst hb; simp
            · simp at hb
          · injection hb with hb; subst hb; simp
        have : ¬ (st.j + x.length ≤ out.length) := by simp at hfull1; omega
        rw [filter_append_fits, hl]; simp [this]
    · simp only [hfull1, if_false]
      have hw1 : st.j + 1 < (st.out.set st.j (B1 v1 v2)).length := by omega
      simp only [wr_ok _ hw1, bind_ok', (b64_bytes v2 v3 hv2 hv3).2.1]
      have hw1' : st.j + 1 < st.out.length := by simpa using hw1
      have ho2 : ((st.out.set st.j (B1 v1 v2)).set (st.j + 1) (B2 v2 v3)).length = out.length := by simp [hlen]
      have ht2' : ((st.out.set st.j (B1 v1 v2)).set (st.j + 1) (B2 v2 v3)).take (st.j + 1 + 1) = st.out.take st.j ++ [B1 v1 v2, B2 v2 v3] :=
        take_set_two _ _ _ _ hw1'
      rcases b64_cases s[st.i + 3] with ⟨v4, hx4, hv4, ht4⟩ | ⟨hc4, hx4, ht4⟩ | ⟨hc4, hx4, ht4⟩
      · have hneg4 : ¬ ((v4 : Int) < 0) := by omega
        simp only [ht4, hneg4, if_false]
        have hb : b64Final s[st.i] s[st.i + 1] s[st.i + 2] s[st.i + 3] = some [B1 v1 v2, B2 v2 v3, B3 v3 v4] := by
          simp [b64Final, hx1, hx2, hx3, hx4]
        by_cases hfull2 : st.j + 1 + 1 ≥ ((st.out.set st.j (B1 v1 v2)).set (st.j + 1) (B2 v2 v3)).length
        · simp only [hfull2, if_true, pure_eq_ok]
          refine ⟨_, rfl, ho2, ?_⟩
          have : ¬ (st.j + 3 ≤ out.length) := by simp at hfull2; omega
          rw [hsp, hb, filter_append_fits, hl]; simp [this]
        · simp only [hfull2, if_false]
          have hw2 : st.j + 1 + 1 < ((st.out.set st.j (B1 v1 v2)).set (st.j + 1) (B2 v2 v3)).length := by omega
          simp only [wr_ok _ hw2, bind_ok', pure_eq_ok, (b64_bytes v3 v4 hv3 hv4).2.2.1]
          have hw2' : st.j + 2 < st.out.length := by simpa using hw2
          refine ⟨_, rfl, by simp [hlen], ?_⟩
          have hfit : st.j + 3 ≤ out.length := by omega
          rw [hsp, hb, filter_append_fits, hl]
          simp only [List.length_cons, List.length_nil, hfit, if_true]
          refine ⟨by simp [hl], ?_⟩
          have := take_set_three st.out st.j (B1 v1 v2) (B2 v2 v3) (B3 v3 v4) hw2'
          simpa using this
      · -- "=" in fourth position
        have hneg4 : ((-2 : Int) < 0) := by omega
        have hne : ¬ ((-2 : Int) ≠ -2) := by simp
        simp only [ht4, hneg4, if_true, hne, if_false]
        by_cases hz : (u8 (v3 : Int) <<< 6) ≠ 0
        · rw [if_pos hz]
          have : ¬ v3 % 4 = 0 := fun h => hz ((b64_bytes v3 v3 hv3 hv3).2.2.2.2.mpr h)
          exact ⟨_, rfl, hnone _ ho2 (by simp [b64Final, hx1, hx2, hx3, hx4, this])⟩
        · rw [if_neg hz]
          have h0 : v3 % 4 = 0 := (b64_bytes v3 v3 hv3 hv3).2.2.2.2.mp (by simpa using hz)
          have hb : b64Final s[st.i] s[st.i + 1] s[st.i + 2] s[st.i + 3] = some [B1 v1 v2, B2 v2 v3] := by
            simp [b64Final, hx1, hx2, hx3, hc4, b64val_pad, h0]
          refine ⟨_, rfl, ho2, ?_⟩
          have hfit : st.j + 2 ≤ out.length := by omega
          rw [hsp, hb, filter_append_fits, hl]
          simp only [List.length_cons, List.length_nil, hfit, if_true]
          exact ⟨by simp [hl], ht2'⟩
      · have hneg4 : ((-1 : Int) < 0) := by omega
        have hne : ((-1 : Int) ≠ -2) := by decide
        simp only [ht4, hneg4, if_true, hne, pure_eq_ok]
        exact ⟨_, rfl, hnone _ ho2 (by simp [b64Final, hx1, hx2, hx3, hx4, hc4])⟩
  · -- "=" in third position
    have hneg3 : ((-2 : Int) < 0) := by omega
    simp only [ht3, hneg3, if_true]
    rcases b64_cases s[st.i + 3] with ⟨v4, hx4, hv4, ht4⟩ | ⟨hc4, hx4, ht4⟩ | ⟨hc4, hx4, ht4⟩
    · have hne : ((-2 : Int) ≠ -2 ∨ (v4 : Int) ≠ -2) := by omega
      simp only [ht4, hne, if_true, pure_eq_ok]
      have hd : s[st.i + 3] ≠ 0x3d := by
        intro h; rw [h, b64val_pad] at hx4; simp at hx4
      exact ⟨_, rfl, hnone _ ho1 (by simp [b64Final, hx1, hx2, hx3, hd])⟩
    · have hne : ¬ ((-2 : Int) ≠ -2 ∨ (-2 : Int) ≠ -2) := by simp
      simp only [ht4, hne, if_false]
      by_cases hz : (u8 (v2 : Int) <<< 4) ≠ 0
      · rw [if_pos hz]
        have : ¬ v2 % 16 = 0 := fun h => hz ((b64_bytes v2 v2 hv2 hv2).2.2.2.1.mpr h)
        exact ⟨_, rfl, hnone _ ho1 (by simp [b64Final, hx1, hx2, hx3, this])⟩
      · rw [if_neg hz]
        have h0 : v2 % 16 = 0 := (b64_bytes v2 v2 hv2 hv2).2.2.2.1.mp (by simpa using hz)
        have hb : b64Final s[st.i] s[st.i + 1] s[st.i + 2] s[st.i + 3] = some [B1 v1 v2] := by
          simp [b64Final, hx1, hx2, hc3, hc4, b64val_pad, h0]
        refine ⟨_, rfl, ho1, ?_⟩
        have hfit : st.j + 1 ≤ out.length := by omega
        rw [hsp, hb, filter_append_fits, hl]
        simp only [List.length_cons, List.length_nil, hfit, if_true]
        exact ⟨by simp [hl], ht1'⟩
    · have hne : ((-2 : Int) ≠ -2 ∨ (-1 : Int) ≠ -2) := by omega
      simp only [ht4, hne, if_true, pure_eq_ok]
      exact ⟨_, rfl, hnone _ ho1 (by simp [b64Final, hx1, hx2, hx3, hc4])⟩
  · -- invalid third character
    have hneg3 : ((-1 : Int) < 0) := by omega
    have hne : ∀ y : Int, ((-1 : Int) ≠ -2 ∨ y ≠ -2) := by intro y; omega
    simp only [ht3, hneg3, if_true, hne, pure_eq_ok]
    exact ⟨_, rfl, hnone _ ho1 (by simp [b64Final, hx1, hx2, hx3, hc3])⟩

/-- `MHD_base64_to_bin_n` = the RFC 4648 reference decoder (alphabet of table 1,
    mandatory padding, canonical trailing bits) whenever the decoded data fits
    into `bin_size`; 0 for invalid or empty input or a too small buffer. -/
theorem base64ToBinN_spec (s out : Bytes) :
    Wrote (base64ToBinN s out) out ((b64Spec s).filter (fitsIn out.length)) := by
  unfold base64ToBinN
  by_cases h0 : s.length = 0
  · have : s = [] := List.eq_nil_of_length_eq_zero h0
    subst this
    exact ⟨0, out, by simp, rfl, by simp [b64Spec_nil, Option.filter, fitsIn]⟩
  · simp only [h0, if_false, pure_eq_ok, bind_ok']
    by_cases h4 : s.length % 4 ≠ 0
    · simp only [h4, if_true, ne_eq, not_false_eq_true]
      refine ⟨0, out, rfl, rfl, ?_⟩
      cases hs : b64Spec s with
      | none => simp
      | some d => exact absurd (b64Spec_length _ s d (Nat.le_refl _) hs).1 h4
    · simp only [h4, if_false]
      have hlen4 : s.length % 4 = 0 := by omega
      by_cases hsz : s.length / 4 * 3 - 2 > out.length
      · simp only [hsz, if_true]
        refine ⟨0, out, rfl, rfl, ?_⟩
        cases hs : b64Spec s with
        | none => simp
        | some d =>
          have := (b64Spec_length _ s d (Nat.le_refl _) hs).2.2 (by intro h; rw [h] at h0; simp at h0)
          have : ¬ d.length ≤ out.length := by omega
          simp [Option.filter, fitsIn, this]
      · simp only [hsz, if_false]
        have hsz' : s.length / 4 * 3 - 2 ≤ out.length := by omega
        obtain ⟨⟨ok, st⟩, hr, hp⟩ := iter_spec (b64LoopStep s) (B64Inv s out) (fun st => s.length - st.i) _
          (b64Loop_step s out hlen4 hsz') (s.length + 1) ⟨0, 0, out⟩
          ⟨by simp, by simp; omega, by simp, rfl, by simp⟩ (by simp)
        simp only [hr, bind_ok']
        rcases hp with ⟨hok, hinv, hend⟩ | ⟨hok, hlen, hnone⟩
        · simp only at hok hinv hend
          subst hok
          simp only [if_true]
          obtain ⟨⟨n, o⟩, hr2, hl2, hp2⟩ := b64Last_spec s out hsz' st hinv hend
          exact ⟨n, o, hr2, hl2, hp2⟩
        · simp only at hok hlen hnone
          subst hok
          simp only [Bool.false_eq_true, if_false, pure_eq_ok]
          exact ⟨0, st.out, rfl, hlen, by rw [hnone]; simp⟩

end Mhd.Str
