/-
  C17 proofs, base layer: the Hoare rule for `iter`, facts about the checked
  accessors, list facts, and the byte tables (`toxdigitvalue`, base64 map)
  characterised by range predicates — each table lemma is a `decide` over the
  whole 256-entry table regenerated from the source.
-/
import Mhd.Model.Str
import Mhd.Model.StrCodec
import Mhd.Model.StrToken

namespace Mhd.Str

/-- Hoare-style rule for `iter`: an invariant, a measure that strictly decreases on
    every `.inl`, and a postcondition established by every `.inr`. -/
theorem iter_spec {σ ρ : Type} (step : σ → M (σ ⊕ ρ)) (Inv : σ → Prop) (m : σ → Nat) (Post : ρ → Prop)
    (h : ∀ s, Inv s → (∃ s', step s = .ok (.inl s') ∧ Inv s' ∧ m s' < m s) ∨ (∃ r, step s = .ok (.inr r) ∧ Post r)) :
    ∀ n s, Inv s → m s < n → ∃ r, iter step n s = .ok r ∧ Post r := by
  intro n
  induction n with
  | zero => intro s _ hm; omega
  | succ n ih =>
    intro s hi hm
    rcases h s hi with ⟨s', hs, hi', hlt⟩ | ⟨r, hs, hp⟩
    · have := ih s' hi' (by omega)
      simpa [iter, hs] using this
    · exact ⟨r, by simp [iter, hs], hp⟩

theorem rd_lt {s : Bytes} {i : Nat} (h : i < s.length) : rd s i = .ok s[i] := by
  simp [rd, List.getElem?_eq_getElem h]

theorem rd_some {s : Bytes} {i : Nat} {c : UInt8} (h : s[i]? = some c) : rd s i = .ok c := by
  simp [rd, h]

theorem wr_ok {o : Bytes} {i : Nat} (c : UInt8) (h : i < o.length) : wr o i c = .ok (o.set i c) := by
  simp [wr, h]

@[simp] theorem bind_ok' {α β} (a : α) (f : α → M β) : (Except.ok a >>= f) = f a := rfl
@[simp] theorem pure_eq_ok {α} (a : α) : (pure a : M α) = .ok a := rfl

theorem take_set_succ (o : Bytes) (w : Nat) (c : UInt8) (h : w < o.length) :
    (o.set w c).take (w + 1) = o.take w ++ [c] := by
  induction o generalizing w with
  | nil => simp at h
  | cons a t ih =>
    cases w with
    | zero => simp
    | succ w => simp at h; simp [List.set, ih w h]

theorem take_set_ge (o : Bytes) (w n : Nat) (c : UInt8) (h : n ≤ w) : (o.set w c).take n = o.take n := by
  induction o generalizing w n with
  | nil => simp
  | cons a t ih =>
    cases n with
    | zero => simp
    | succ n =>
      cases w with
      | zero => omega
      | succ w => simp [List.set, ih w n (by omega)]

theorem drop_set_lt (o : Bytes) (w n : Nat) (c : UInt8) (h : w < n) : (o.set w c).drop n = o.drop n := by
  induction o generalizing w n with
  | nil => simp
  | cons a t ih =>
    cases n with
    | zero => omega
    | succ n =>
      cases w with
      | zero => simp
      | succ w => simp [List.set, ih w n (by omega)]

theorem getElem?_of_drop_eq_cons {l : Bytes} {i : Nat} {x : UInt8} {t : Bytes} (h : l.drop i = x :: t) :
    l[i]? = some x ∧ l.drop (i + 1) = t ∧ i < l.length := by
  have hlt : i < l.length := by
    by_cases hl : i < l.length
    · exact hl
    · rw [List.drop_eq_nil_of_le (by omega)] at h; simp at h
  rw [List.drop_eq_getElem_cons hlt] at h
  injection h with h1 h2
  exact ⟨by simp [List.getElem?_eq_getElem hlt, h1], h2, hlt⟩

/-- the normal-return shape of a function that fills an output buffer: the buffer
    keeps its size; on success the return value is the length of `d` and the
    first bytes are `d`; otherwise the return value is 0 -/
def Wrote (res : M (Nat × Bytes)) (out : Bytes) (expected : Option Bytes) : Prop :=
  ∃ n out', res = .ok (n, out') ∧ out'.length = out.length ∧
    match expected with
    | some d => n = d.length ∧ out'.take n = d
    | none => n = 0

def fitsIn (n : Nat) (d : Bytes) : Bool := decide (d.length ≤ n)

/-- a model computation returns normally (no read/write fault, no fuel fault) -/
def NoFault {α : Type} (x : M α) : Prop := ∃ r, x = .ok r

theorem Wrote.noFault {res out e} (h : Wrote res out e) : NoFault res := by
  obtain ⟨n, o, h, _⟩ := h; exact ⟨_, h⟩

/-! ### the hexadecimal digit table -/

/-- reference value of a hexadecimal digit -/
def xval (c : UInt8) : Option Nat :=
  if 0x30 ≤ c ∧ c ≤ 0x39 then some (c.toNat - 0x30)
  else if 0x41 ≤ c ∧ c ≤ 0x46 then some (c.toNat - 0x41 + 10)
  else if 0x61 ≤ c ∧ c ≤ 0x66 then some (c.toNat - 0x61 + 10)
  else none

theorem toxdigit_table : ∀ n : Fin 256,
    toxdigitvalue (UInt8.ofNat n.val) = match xval (UInt8.ofNat n.val) with | some v => (v : Int) | none => -1 := by
  decide +kernel

theorem xval_table : ∀ n : Fin 256, ∀ v, xval (UInt8.ofNat n.val) = some v → v < 16 := by
  decide +kernel

theorem hexByte_table : ∀ h l : Fin 16, hexByte (h.val : Int) (l.val : Int) = UInt8.ofNat (h.val * 16 + l.val) := by
  decide +kernel

theorem ofNat_toNat_u8 (c : UInt8) : UInt8.ofNat c.toNat = c := by simp

theorem toxdigit_cases (c : UInt8) :
    (∃ v, xval c = some v ∧ v < 16 ∧ toxdigitvalue c = (v : Int)) ∨ (xval c = none ∧ toxdigitvalue c = -1) := by
  have h := toxdigit_table ⟨c.toNat, c.toNat_lt⟩
  have h2 := xval_table ⟨c.toNat, c.toNat_lt⟩
  simp only [ofNat_toNat_u8] at h h2
  cases hx : xval c with
  | none => right; simp [hx] at h; exact ⟨rfl, h⟩
  | some v => left; simp [hx] at h; exact ⟨v, rfl, h2 v hx, h⟩

theorem hexByte_eq (h l : Nat) (hh : h < 16) (hl : l < 16) : hexByte (h : Int) (l : Int) = UInt8.ofNat (h * 16 + l) :=
  hexByte_table ⟨h, hh⟩ ⟨l, hl⟩

end Mhd.Str
