/-
  Send progress is activity: what one `call_handlers` of the select loop does with a replying
  connection, depending on whether its socket took more bytes in this round.
-/
import Mhd.Proofs.TmoPend
namespace Mhd.Tmo
open Mhd.Gen.Tmo

theorem sub64_self (a : Nat) : sub64 a a = 0 := by
  simp only [sub64, W]; omega

/-- a connection stamped at the current clock value is not timed out -/
theorem checkTimedOut_fresh (now : Nat) (c : Conn) (h : c.la = now) : checkTimedOut now c = false := by
  unfold checkTimedOut
  rw [h, sub64_self]
  cases c.suspended <;> simp

theorem callHandlersSel0_replying (v : Variant) (d : Daemon) (i : Id) (r : Bool)
    (hc : (d.c i).closed = false) (hr : (d.c i).replying = true) :
    callHandlersSel0 v d i r = seq2 (writeStep v d i) (fun d => handleIdle d i) := by
  unfold callHandlersSel0
  simp [hc, hr]

/-- **A send with progress — partial or complete — restarts the timer and the connection is not closed
    for timeout in that round**, however long it had been idle before. -/
theorem send_progress_is_activity (v : Variant) (d : Daemon) (i : Id) (r : Bool)
    (hi : i ∈ d.normal ∨ (d.c i).tmo ≠ d.cfg.dtmo) (hc : (d.c i).closed = false) (hr : (d.c i).replying = true)
    (hs : (d.c i).suspended = false) (h0 : (d.c i).tmo ≠ 0) (hw : i ∈ d.wset) :
    ((writeStep v d i).1.c i).la = d.now ∧ ∀ a, Event.tmoClose i a ∉ (callHandlersSel0 v d i r).2 := by
  have hla : ((updateLastActivity v d i).c i).la = d.now := by
    unfold updateLastActivity Daemon.remNormal
    simp only [h0, hs, if_false, Bool.false_eq_true]
    by_cases ht : (d.c i).tmo = d.cfg.dtmo
    · have hin : i ∈ d.normal := by rcases hi with x | x; exact x; exact absurd ht x
      simp [ht, hin]
    · simp [ht]
  have hnow : (updateLastActivity v d i).now = d.now := (others_updateLastActivity v d i).2.2.2.1.1
  have hclosed : ((updateLastActivity v d i).c i).closed = false := by
    rw [updateLastActivity_closed]; exact hc
  -- the state after the write step
  have key : ((writeStep v d i).1.c i).la = d.now ∧ ((writeStep v d i).1.c i).closed = false ∧
      (writeStep v d i).1.now = d.now := by
    unfold writeStep
    simp only [hw, if_true]
    split
    · simp [finishRec, hla, hclosed, hnow]
    · exact ⟨hla, hclosed, hnow⟩
  refine ⟨key.1, fun a hm => ?_⟩
  rw [callHandlersSel0_replying v d i r hc hr] at hm
  unfold seq2 at hm
  rcases List.mem_append.1 hm with x | x
  · have := writeStep_events v d i _ x; cases this
  · unfold handleIdle idleCheck at x
    have hf := checkTimedOut_fresh (writeStep v d i).1.now ((writeStep v d i).1.c i) (by rw [key.1, key.2.2])
    simp [key.2.1, hf] at x

/-- A replying connection whose socket takes nothing in the round, and whose reply is not complete, is
    treated like an idle one: closed for timeout iff the close decision holds for its stamp. -/
theorem no_progress_times_out (v : Variant) (d : Daemon) (i : Id) (r : Bool)
    (hc : (d.c i).closed = false) (hr : (d.c i).replying = true) (hw : i ∉ d.wset) (hf : i ∉ d.fset)
    (ht : checkTimedOut d.now (d.c i) = true) :
    Event.tmoClose i (d.c i).aware ∈ (callHandlersSel0 v d i r).2 := by
  rw [callHandlersSel0_replying v d i r hc hr]
  have e : writeStep v d i = (d, []) := by
    unfold writeStep; simp [hw, hf]
  unfold seq2
  rw [e]
  exact List.mem_append_right _ (handleIdle_closes hc ht)

end Mhd.Tmo
