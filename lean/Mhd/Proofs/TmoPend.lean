/-
  The daemon-wide flag `data_already_pending` is an accumulation over the connections handled in a
  round: `call_handlers` raises it for a connection that ends in a PROCESS wait state and nothing
  inside the traversal clears it.  Hence after the traversal of the select loop the flag is set
  whenever a visited connection has work pending, whatever the order of the connections.
-/
import Mhd.Proofs.TmoClock
namespace Mhd.Tmo
open Mhd.Gen.Tmo

/-- nothing but the end of `call_handlers` touches the flag -/
def SameDp (d d' : Daemon) : Prop := d'.dataPending = d.dataPending

theorem dp_set (d : Daemon) (i : Id) (x : Conn) : SameDp d (d.set i x) := rfl

theorem dp_updateLastActivity (v : Variant) (d : Daemon) (i : Id) : SameDp d (updateLastActivity v d i) := by
  unfold SameDp updateLastActivity Daemon.remNormal
  dsimp only
  repeat' split
  all_goals rfl

theorem dp_internalSuspend (d : Daemon) (i : Id) : SameDp d (internalSuspend d i) := by
  unfold SameDp internalSuspend Daemon.remTimeout Daemon.remNormal Daemon.remManual Daemon.remConns
  dsimp only
  repeat' split
  all_goals rfl

theorem dp_cleanupConnection (d : Daemon) (i : Id) : SameDp d (cleanupConnection d i) := by
  unfold SameDp cleanupConnection Daemon.remTimeout Daemon.remNormal Daemon.remManual Daemon.remConns Daemon.remSusp
  dsimp only
  repeat' split
  all_goals rfl

theorem dp_idleCheck (d : Daemon) (i : Id) : SameDp d (idleCheck d i).1 := by
  unfold SameDp idleCheck epollUpdate epollArm epollQueue
  dsimp only
  repeat' split
  all_goals rfl

theorem dp_handleIdle (d : Daemon) (i : Id) : SameDp d (handleIdle d i).1 := by
  unfold handleIdle
  split
  · exact dp_cleanupConnection d i
  · exact dp_idleCheck d i

theorem dp_procBuf (d : Daemon) (i : Id) : SameDp d (procBuf d i) := by
  rcases procBuf_cases d i with e | e <;> rw [e] <;> rfl

theorem SameDp.trans {a b c : Daemon} (h1 : SameDp a b) (h2 : SameDp b c) : SameDp a c := by
  unfold SameDp at *; rw [h2, h1]

theorem dp_handleIdleP (d : Daemon) (i : Id) : SameDp d (handleIdleP d i).1 :=
  (dp_procBuf d i).trans (dp_handleIdle _ i)

theorem dp_readData (v : Variant) (d : Daemon) (i : Id) : SameDp d (readData v d i).1 := by
  unfold readData
  dsimp only
  have s2 : SameDp d (updateLastActivity v (d.set i (readRec (d.c i))) i) :=
    (dp_set d i _).trans (dp_updateLastActivity v _ i)
  split
  · split
    · exact (s2.trans (dp_set _ i _)).trans (dp_internalSuspend _ i)
    · exact s2.trans (dp_set _ i _)
  · split
    · exact s2.trans (dp_set _ i _)
    · exact s2

theorem dp_writeStep (v : Variant) (d : Daemon) (i : Id) : SameDp d (writeStep v d i).1 := by
  obtain ⟨d1, h1, h2⟩ := writeStep_cases v d i
  have s1 : SameDp d d1 := by
    rcases h1 with e | e <;> rw [e]
    · rfl
    · exact dp_updateLastActivity v d i
  rcases h2 with e | e <;> rw [e]
  · exact s1
  · exact s1.trans (dp_set d1 i _)

theorem dp_callHandlersSel0 (v : Variant) (d : Daemon) (i : Id) (r : Bool) : SameDp d (callHandlersSel0 v d i r).1 := by
  unfold callHandlersSel0 seq2 closeOther
  dsimp only
  split
  · exact dp_handleIdle d i
  · split
    · exact (dp_writeStep v d i).trans (dp_handleIdle _ i)
    · split
      · refine (dp_readData v d i).trans ?_
        unfold fastTrack
        split
        · unfold seq2; dsimp only
          exact (dp_writeStep v _ i).trans (dp_handleIdle _ i)
        · exact dp_handleIdle _ i
      · split
        · exact (dp_set d i _).trans (dp_handleIdle _ i)
        · exact dp_handleIdleP d i

/-- the end of `call_handlers` (accumulating form): raised for a connection in a PROCESS wait state,
    never cleared, no connection record touched -/
theorem notePending_spec {v : Variant} (hacc : v.pendAccum = true) (d : Daemon) (i : Id) :
    (notePending v d i).c = d.c ∧
    (procWait (d.c i) = true → (notePending v d i).dataPending = true) ∧
    (d.dataPending = true → (notePending v d i).dataPending = true) := by
  unfold notePending
  simp only [hacc, if_true]
  by_cases h1 : d.dataPending = false ∧ procWait (d.c i) = true
  · rw [if_pos h1]; exact ⟨rfl, fun _ => rfl, fun _ => rfl⟩
  · rw [if_neg h1]
    refine ⟨rfl, fun hp => ?_, fun h => h⟩
    cases hd : d.dataPending with
    | true => rfl
    | false => exact absurd ⟨hd, hp⟩ h1

/-- one `call_handlers` of the select loop: the flag never falls, and it is up when the connection
    handled ends with work pending -/
theorem callHandlersSel_pending {v : Variant} (hacc : v.pendAccum = true) (d : Daemon) (i : Id) (r : Bool) :
    (d.dataPending = true → (callHandlersSel v d i r).1.dataPending = true) ∧
    (procWait ((callHandlersSel v d i r).1.c i) = true → (callHandlersSel v d i r).1.dataPending = true) := by
  unfold callHandlersSel
  dsimp only
  have s := notePending_spec hacc (callHandlersSel0 v d i r).1 i
  have e := dp_callHandlersSel0 v d i r
  unfold SameDp at e
  refine ⟨fun h => s.2.2 (by rw [e]; exact h), fun h => ?_⟩
  rw [s.1] at h
  exact s.2.1 h

/-- **The flag is an OR over the traversal.**  For a select loop that visits every connection
    (`savePrev`) and a `call_handlers` that only raises the flag: after the traversal the flag is set
    if it was set before or if any connection of the traversed list has work pending — in whatever
    position of the list that connection is. -/
theorem travSel_pending {v : Variant} (hacc : v.pendAccum = true) (hsp : v.savePrev = true) (rs : List Id) :
    ∀ (l : List Id) (d : Daemon), l.Nodup →
      (d.dataPending = true → (travSel v rs l d).1.dataPending = true) ∧
      ∀ i, i ∈ l → procWait ((travSel v rs l d).1.c i) = true → (travSel v rs l d).1.dataPending = true
  | [], d, _ => ⟨fun h => h, fun i hi => absurd hi List.not_mem_nil⟩
  | j :: rest, d, hnd => by
    unfold travSel
    dsimp only
    have hstay : ¬ (v.savePrev = false ∧ j ∉ (callHandlersSel v d j (rs.contains j)).1.conns) := by
      intro x; rw [hsp] at x; cases x.1
    simp only [hstay, if_false]
    unfold seq2
    dsimp only
    have hnd' := List.nodup_cons.1 hnd
    have c1 := callHandlersSel_pending hacc d j (rs.contains j)
    have ih := travSel_pending hacc hsp rs rest (callHandlersSel v d j (rs.contains j)).1 hnd'.2
    refine ⟨fun h => ih.1 (c1.1 h), fun i hi hp => ?_⟩
    rcases List.mem_cons.1 hi with e | e
    · subst e
      -- the rest of the traversal does not touch the record of `i`
      have hrec : ∀ (l : List Id) (d' : Daemon), i ∉ l → (travSel v rs l d').1.c i = d'.c i := by
        intro l
        induction l with
        | nil => intro d' _; rfl
        | cons k t iht =>
          intro d' hk
          unfold travSel
          dsimp only
          have hik : i ≠ k := fun x => hk (x ▸ List.mem_cons_self ..)
          have o := (others_callHandlersSel v d' k (rs.contains k)).2.2.2.2 i hik
          split
          · exact o.2.2.2
          · unfold seq2; dsimp only
            rw [iht _ (fun x => hk (List.mem_cons_of_mem _ x))]; exact o.2.2.2
      rw [hrec rest _ hnd'.1] at hp
      exact ih.1 (c1.2 hp)
    · exact ih.2 i e hp

end Mhd.Tmo
