/-
  C11 — the epoll ready list (`eready`) through suspend / resume.

  resume_suspended_connections queues a resumed connection in the eready list and marks it
  read- and write-ready ("we might have missed the edge poll event during suspension").  This
  file proves that this is enough: in the very MHD_epoll call that moves the connection back —
  whatever epoll_wait reports, in particular when it reports nothing — the connection gets a
  turn (MHD_connection_handle_idle from the timeout scan, or call_handlers with read_ready and
  write_ready set from the eready traversal), starting from the record it was frozen with.
-/
import Mhd.Proofs.SuspLossless
namespace Mhd.Susp

/-- queued in the eready list, marked read- and write-ready, not suspended -/
def ReadyQ (d : Daemon) (c : Nat) : Prop :=
  c ∈ d.eready ∧ c ∈ d.active ∧ (d.conn c).inEready = true ∧ (d.conn c).readReady = true ∧
  (d.conn c).writeReady = true ∧ (d.conn c).suspended = false

theorem sync_other (d : Daemon) {a c : Nat} (h : c ≠ a) :
    (c ∈ (sync d a).eready ↔ c ∈ d.eready) ∧ (c ∈ (sync d a).active ↔ c ∈ d.active) := by
  unfold sync
  simp only []
  split <;> split <;> (try split) <;> simp [List.mem_erase_of_ne h, h]

theorem sync_ready {d : Daemon} {c : Nat} (h : ReadyQ d c) : sync d c = d := by
  obtain ⟨h1, h2, h3, _, _, h6⟩ := h
  simp [sync, h6, h3, h1]

theorem epollMark_ready (k : Conn) (i o : Bool) (h1 : k.inEready = true) (h2 : k.readReady = true)
    (h3 : k.writeReady = true) : epollMark k i o = k := by
  cases k
  simp only at h1 h2 h3
  subst h1 h2 h3
  cases i <;> cases o <;> simp [epollMark]

/-- a step that leaves the queued connection `c` alone -/
def Leaves (c : Nat) (d : Daemon) (evs : List Ev) (d' : Daemon) : Prop :=
  ReadyQ d c → ReadyQ d' c ∧ d'.conn c = d.conn c ∧ proj c evs = []

theorem Leaves_rel (c : Nat) : DRel (Leaves c) where
  refl := fun _ h => ⟨h, rfl, rfl⟩
  trans := by
    intro d e1 d1 e2 d2 h1 h2 h
    have a := h1 h
    have b := h2 a.1
    exact ⟨b.1, b.2.1.trans a.2.1, by rw [proj_append, a.2.2, b.2.2]; rfl⟩

/-- the record of another connection is replaced, then `sync` for that connection -/
theorem Leaves_setSync (c a : Nat) (h : c ≠ a) (d : Daemon) (k : Conn) (evs : List CEv) :
    Leaves c d (tag a evs) (sync { d with conn := setConn d.conn a k } a) := by
  intro hq
  have so := sync_other { d with conn := setConn d.conn a k } h
  have hc : (sync { d with conn := setConn d.conn a k } a).conn c = d.conn c := by
    rw [sync_conn]; exact setConn_ne _ _ h
  obtain ⟨h1, h2, h3, h4, h5, h6⟩ := hq
  refine ⟨⟨so.1.2 h1, so.2.2 h2, ?_, ?_, ?_, ?_⟩, hc, proj_tag_ne (Ne.symm h) _⟩ <;> rw [hc] <;> assumption

theorem Leaves_turnWith (c a : Nat) (h : c ≠ a) (f : Conn → Conn × List CEv) (d : Daemon) :
    Leaves c d (turnWith f d a).2 (turnWith f d a).1 := by
  intro hq
  have := Leaves_setSync c a h
    { d with resuming := d.resuming || (f { (d.conn a) with dres := false }).1.dres,
             pending := d.pending || (f { (d.conn a) with dres := false }).1.eli.hasProcess }
    (f { (d.conn a) with dres := false }).1 (f { (d.conn a) with dres := false }).2 hq
  simpa [turnWith] using this

theorem Leaves_ereadyPost (c a : Nat) (h : c ≠ a) (d : Daemon) : Leaves c d [] (ereadyPost d a) := by
  simp only [ereadyPost]
  split
  · have := Leaves_setSync c a h d { (d.conn a) with inEready := false } []
    simpa [tag] using this
  · exact (Leaves_rel c).refl d

theorem Leaves_epollEvents (c : Nat) : ∀ (l : List (Nat × Bool × Bool)) (d : Daemon), Leaves c d [] (epollEvents l d) := by
  intro l
  induction l with
  | nil => intro d; exact (Leaves_rel c).refl d
  | cons e rest ih =>
    intro d
    obtain ⟨a, i, o⟩ := e
    simp only [epollEvents]
    split
    · exact ih d
    · by_cases hac : c = a
      · subst hac
        intro hq
        have hm : epollMark (d.conn c) i o = d.conn c := epollMark_ready _ i o hq.2.2.1 hq.2.2.2.1 hq.2.2.2.2.1
        have hd : ({ d with conn := setConn d.conn c (epollMark (d.conn c) i o) } : Daemon) = d := by
          rw [hm]
          have : setConn d.conn c (d.conn c) = d.conn := by
            funext x; unfold setConn; split
            · next e => rw [e]
            · rfl
          rw [this]
        rw [hd, sync_ready hq]
        exact ih d hq
      · have h1 := Leaves_setSync c a hac d (epollMark (d.conn a) i o) []
        have := (Leaves_rel c).trans _ _ _ _ _ h1 (ih _)
        simpa [tag] using this

theorem Leaves_processNew (c : Nat) : ∀ (l : List Nat) (d : Daemon), c ∉ l → Leaves c d (processNew l d).2 (processNew l d).1 := by
  intro l
  induction l with
  | nil => intro d _ hq; exact ⟨hq, rfl, rfl⟩
  | cons a rest ih =>
    intro d hc hq
    have hac : c ≠ a := fun e => hc (e ▸ List.mem_cons_self)
    simp only [processNew]
    have hq1 : ReadyQ { d with conn := setConn d.conn a { (d.conn a) with eli := .read, inSet := d.isEpoll },
                               active := a :: d.active, normalTO := a :: d.normalTO } c := by
      obtain ⟨h1, h2, h3, h4, h5, h6⟩ := hq
      have hcc : ∀ k, setConn d.conn a k c = d.conn c := fun k => setConn_ne _ _ hac
      exact ⟨h1, List.mem_cons_of_mem _ h2, by show (setConn d.conn a _ c).inEready = true; rw [hcc]; exact h3,
        by show (setConn d.conn a _ c).readReady = true; rw [hcc]; exact h4,
        by show (setConn d.conn a _ c).writeReady = true; rw [hcc]; exact h5,
        by show (setConn d.conn a _ c).suspended = false; rw [hcc]; exact h6⟩
    have r := ih _ (fun hm => hc (List.mem_cons_of_mem _ hm)) hq1
    refine ⟨r.1, r.2.1.trans (setConn_ne _ _ hac), ?_⟩
    rw [proj_cons_ne (Ne.symm hac)]; exact r.2.2

@[simp] theorem sync_mode (d : Daemon) (c : Nat) : (sync d c).mode = d.mode := by
  unfold sync; simp only []; split <;> split <;> (try split) <;> rfl

@[simp] theorem turnWith_mode (f : Conn → Conn × List CEv) (d : Daemon) (a : Nat) : (turnWith f d a).1.mode = d.mode := by
  simp [turnWith]

@[simp] theorem ereadyPost_mode (d : Daemon) (a : Nat) : (ereadyPost d a).mode = d.mode := by
  simp only [ereadyPost]; split
  · simp
  · rfl

/-- THE EREADY TRAVERSAL REACHES EVERY QUEUED CONNECTION: call_handlers runs on `c` with read_ready and
    write_ready set, from the record `c` had when the traversal started (the turns of the
    connections visited before do not touch it). -/
theorem travEready_visits (g : Guards) (c : Nat) : ∀ (l : List Nat) (d : Daemon), c ∈ l → ReadyQ d c →
    ∃ pre post, (travEready g l d).2 = pre ++ tag c (callHandlers g d.isEpoll (clearDres (d.conn c)) true true).2 ++ post ∧
      proj c pre = [] := by
  intro l
  induction l with
  | nil => intro d h; exact absurd h List.not_mem_nil
  | cons a rest ih =>
    intro d hc hq
    simp only [travEready]
    by_cases hac : c = a
    · subst hac
      refine ⟨[], (travEready g rest (ereadyPost (turn g d c (d.conn c).readReady (d.conn c).writeReady).1 c)).2, ?_, rfl⟩
      rw [hq.2.2.2.1, hq.2.2.2.2.1]
      simp only [turn, turnWith_evs, List.nil_append]
    · have hcr : c ∈ rest := by
        rcases List.mem_cons.1 hc with e | e
        · exact absurd e hac
        · exact e
      have h1 := Leaves_turnWith c a hac (fun k => callHandlers g d.isEpoll k (d.conn a).readReady (d.conn a).writeReady) d hq
      have h2 := Leaves_ereadyPost c a hac (turn g d a (d.conn a).readReady (d.conn a).writeReady).1 h1.1
      obtain ⟨pre, post, he, hp⟩ := ih _ hcr h2.1
      have hm : (ereadyPost (turn g d a (d.conn a).readReady (d.conn a).writeReady).1 a).isEpoll = d.isEpoll := by
        simp [Daemon.isEpoll, turn]
      have hcc : (ereadyPost (turn g d a (d.conn a).readReady (d.conn a).writeReady).1 a).conn c = d.conn c :=
        h2.2.1.trans h1.2.1
      rw [hm, hcc] at he
      refine ⟨(turn g d a (d.conn a).readReady (d.conn a).writeReady).2 ++ pre, post, ?_, ?_⟩
      · rw [he]; simp [List.append_assoc]
      · rw [proj_append, hp]
        have := h1.2.2
        simp only [turn] at this ⊢
        rw [this]; rfl

/-- what is left of MHD_epoll after resume_suspended_connections -/
def epollTail (g : Guards) (evs : List (Nat × Bool × Bool)) (d : Daemon) : Daemon × List Ev :=
  bindD (fun d => travEready g d.eready.reverse d)
    (bindD (timeoutScan g) (bindD newPhase (pureD (fun d => epollEvents evs { d with pending := false }) d)))

theorem roundEpoll_tail (g : Guards) (d : Daemon) (ids : List Nat) (evs : List (Nat × Bool × Bool)) :
    roundEpoll g d ids evs =
      ((epollTail g evs (bindD (resumeSuspended g) (timers d ids)).1).1,
       (bindD (resumeSuspended g) (timers d ids)).2 ++ (epollTail g evs (bindD (resumeSuspended g) (timers d ids)).1).2) := by
  simp [roundEpoll, epollTail, bindD, pureD, List.append_assoc]

/-- NO LOST WAKE-UP (edge-triggered epoll).  A connection that is queued in the eready list and
    marked ready — the state resume_suspended_connections leaves a resumed connection in — gets its
    turn in this very MHD_epoll call, *whatever* epoll_wait returns (`evs`, possibly nothing):
    either MHD_connection_handle_idle from the timeout scan or call_handlers with read_ready and
    write_ready set, and until then nothing has touched its record (`k`).  So bytes that were in
    the read buffer before the suspension, or that arrived on the socket while it was suspended
    (the edge the daemon did not see), are processed without waiting for a new event. -/
theorem epollTail_turn (g : Guards) (evs : List (Nat × Bool × Bool)) (d : Daemon) (hw : WF d) (hm : d.isEpoll = true)
    (c : Nat) (hq : ReadyQ d c) :
    ∃ pre post f, (epollTail g evs d).2 = pre ++ tag c (f (clearDres (d.conn c))).2 ++ post ∧ proj c pre = [] ∧
      (f = handleIdle g true ∨ f = fun k => callHandlers g true k true true) := by
  -- epoll_wait results
  have e1 := Leaves_epollEvents c evs { d with pending := false } hq
  have w1 : WF (epollEvents evs { d with pending := false }) :=
    (WK_epollEvents evs { d with pending := false } (by exact { hw with })).1
  generalize hd1 : epollEvents evs { d with pending := false } = d1 at e1 w1
  have hm1 : d1.isEpoll = true := by
    rw [← hd1]
    have : ∀ (l : List (Nat × Bool × Bool)) (x : Daemon), (epollEvents l x).mode = x.mode := by
      intro l; induction l with
      | nil => intro x; rfl
      | cons e r ih => intro x; obtain ⟨a, i, o⟩ := e; simp only [epollEvents]; split
                       · exact ih x
                       · rw [ih]; simp
    simp only [Daemon.isEpoll, this] ; exact hm
  have hc1 : d1.conn c = d.conn c := e1.2.1
  -- new connections
  have hnew : c ∉ d1.newConns := fun hmem => (w1.new_fresh c hmem).1 e1.1.2.1
  have e2 : Leaves c d1 (newPhase d1).2 (newPhase d1).1 := by
    intro h
    have := Leaves_processNew c d1.newConns { d1 with pending := false } hnew h
    simpa [newPhase] using this
  have a2 := e2 e1.1
  have w2 : WF (newPhase d1).1 := (WK_newPhase d1 w1).1
  generalize hd2 : newPhase d1 = r2 at a2 w2
  have hm2 : r2.1.isEpoll = true := by
    rw [← hd2]
    have : ∀ (l : List Nat) (x : Daemon), (processNew l x).1.isEpoll = x.isEpoll := by
      intro l; induction l with
      | nil => intro x; rfl
      | cons a r ih => intro x; simp only [processNew]; rw [ih]; rfl
    simp only [newPhase, this]; exact hm1
  have hc2 : r2.1.conn c = d.conn c := a2.2.1.trans hc1
  -- shape of the result
  have hshape : (epollTail g evs d).2 = r2.2 ++ (timeoutScan g r2.1).2 ++
      (travEready g (timeoutScan g r2.1).1.eready.reverse (timeoutScan g r2.1).1).2 := by
    simp only [epollTail, bindD, pureD, hd1, hd2, List.nil_append, List.append_assoc]
  rw [hshape]
  -- the timeout scan
  simp only [timeoutScan]
  cases hl : r2.1.normalTO.getLast? with
  | none =>
    simp only []
    obtain ⟨pre, post, he, hp⟩ := travEready_visits g c r2.1.eready.reverse r2.1 (List.mem_reverse.2 a2.1.1) a2.1
    rw [hm2, hc2] at he
    refine ⟨r2.2 ++ pre, post, fun k => callHandlers g true k true true, ?_, ?_, Or.inr rfl⟩
    · rw [he]; simp [List.append_assoc]
    · rw [proj_append, a2.2.2, hp]; rfl
  | some a =>
    simp only []
    by_cases hac : c = a
    · subst hac
      refine ⟨r2.2, (travEready g (idleTurn g r2.1 c).1.eready.reverse (idleTurn g r2.1 c).1).2, handleIdle g true, ?_, a2.2.2, Or.inl rfl⟩
      simp only [idleTurn, turnWith_evs, hm2, hc2]
    · have h3 := Leaves_turnWith c a hac (handleIdle g r2.1.isEpoll) r2.1 a2.1
      have hm3 : (idleTurn g r2.1 a).1.isEpoll = true := by
        have : (idleTurn g r2.1 a).1.mode = r2.1.mode := by simp [idleTurn]
        unfold Daemon.isEpoll at *; rw [this]; exact hm2
      obtain ⟨pre, post, he, hp⟩ := travEready_visits g c (idleTurn g r2.1 a).1.eready.reverse (idleTurn g r2.1 a).1
        (List.mem_reverse.2 h3.1.1) h3.1
      have hc3 : (idleTurn g r2.1 a).1.conn c = d.conn c := h3.2.1.trans hc2
      rw [hm3, hc3] at he
      refine ⟨r2.2 ++ (idleTurn g r2.1 a).2 ++ pre, post, fun k => callHandlers g true k true true, ?_, ?_, Or.inr rfl⟩
      · rw [he]; simp [List.append_assoc]
      · rw [proj_append, proj_append, a2.2.2, hp]
        have := h3.2.2
        simp only [idleTurn] at this ⊢
        rw [this]; rfl

theorem timerScan_mode : ∀ (l : List Nat) (d : Daemon), (timerScan l d).1.mode = d.mode := by
  intro l; induction l with
  | nil => intro d; rfl
  | cons a r ih => intro d; simp only [timerScan]; split <;> simp [ih, resumeReq]

theorem resumeScan_mode (g : Guards) : ∀ (l : List Nat) (d : Daemon), (resumeScan g l d).1.mode = d.mode := by
  intro l; induction l with
  | nil => intro d; rfl
  | cons a r ih => intro d; simp only [resumeScan]; split
                   · rw [ih]; rfl
                   · exact ih d

theorem resumeSuspended_mode (g : Guards) (d : Daemon) : (resumeSuspended g d).1.mode = d.mode := by
  simp only [resumeSuspended]; split
  · rw [resumeScan_mode]
  · rfl

theorem epollEvents_mode : ∀ (l : List (Nat × Bool × Bool)) (x : Daemon), (epollEvents l x).mode = x.mode := by
  intro l; induction l with
  | nil => intro x; rfl
  | cons e r ih =>
    intro x; obtain ⟨a, i, o⟩ := e; simp only [epollEvents]; split
    · exact ih x
    · rw [ih]; simp

theorem processNew_mode : ∀ (l : List Nat) (x : Daemon), (processNew l x).1.mode = x.mode := by
  intro l; induction l with
  | nil => intro x; rfl
  | cons a r ih => intro x; simp only [processNew]; rw [ih]

theorem travSelect_mode (g : Guards) (fr fw rd wr : Nat → Bool) :
    ∀ (l : List Nat) (x : Daemon), (travSelect g fr fw rd wr l x).1.mode = x.mode := by
  intro l; induction l with
  | nil => intro x; rfl
  | cons a r ih => intro x; simp only [travSelect]; split
                   · simp [turn]
                   · simp [ih, turn]

theorem travAll_mode (g : Guards) (fr fw rd wr : Nat → Bool) :
    ∀ (l : List Nat) (x : Daemon), (travAll g fr fw rd wr l x).1.mode = x.mode := by
  intro l; induction l with
  | nil => intro x; rfl
  | cons a r ih => intro x; simp [travAll, ih, turn]

theorem travEready_mode (g : Guards) : ∀ (l : List Nat) (x : Daemon), (travEready g l x).1.mode = x.mode := by
  intro l; induction l with
  | nil => intro x; rfl
  | cons a r ih => intro x; simp [travEready, ih, turn]

theorem step_mode (g : Guards) (d : Daemon) (op : Op) : (step g d op).1.mode = d.mode := by
  cases op with
  | arrive c => simp only [step]; split <;> rfl
  | send c syms => rfl
  | resume c => rfl
  | round ids rd wr =>
    simp only [step]; split
    · simp [roundSelect, bindD, travSelect_mode, newPhase, processNew_mode, resumeSuspended_mode, timers, timerScan_mode]
    · simp [roundPoll, pollPhase, bindD, travAll_mode, newPhase, processNew_mode, resumeSuspended_mode, timers, timerScan_mode]
    · rfl
  | eround ids evs =>
    simp only [step]; split
    · simp only [roundEpoll, bindD, pureD, travEready_mode, timeoutScan]
      split
      · simp [idleTurn, newPhase, processNew_mode, epollEvents_mode, resumeSuspended_mode, timers, timerScan_mode]
      · simp [newPhase, processNew_mode, epollEvents_mode, resumeSuspended_mode, timers, timerScan_mode]
    · rfl

theorem run_mode (g : Guards) : ∀ (ops : List Op) (d : Daemon), (run g d ops).1.mode = d.mode := by
  intro ops; induction ops with
  | nil => intro d; rfl
  | cons op rest ih => intro d; simp only [run]; rw [ih, step_mode]

/-- NO LOST WAKE-UP, whole round.  `d`: any consistent state of an epoll daemon; the script thread's
    timers have run (`timers d ids`) and connection `c` is suspended with a resume request pending.
    Then this MHD_epoll call — for *every* answer `evs` of epoll_wait, the empty one included — moves
    `c` back (`resumed` marker) and afterwards gives it a turn from exactly the record it was
    frozen with (`resumedConn`: flags cleared, read- and write-ready set): handle_idle from the
    timeout scan or call_handlers(read_ready, write_ready) from the eready traversal. -/
theorem epoll_resume_round (g : Guards) (hg : g.Sound) (hrr : g.resumeReady = true) (d : Daemon) (hw : WF d)
    (hm : d.isEpoll = true) (c : Nat) (ids : List Nat) (evs : List (Nat × Bool × Bool))
    (hs : c ∈ (timers d ids).1.susp) (hr : ((timers d ids).1.conn c).resuming = true) :
    ∃ pre post f,
      (roundEpoll g d ids evs).2
        = pre ++ tag c (f (clearDres (resumedConn g true ((timers d ids).1.conn c)))).2 ++ post ∧
      (c, CEv.resumed) ∈ pre ∧
      (f = handleIdle g true ∨ f = fun k => callHandlers g true k true true) := by
  have wt : WF (timers d ids).1 := (WK_timerScan ids d hw).1
  have mt : (timers d ids).1.isEpoll = true := by
    unfold Daemon.isEpoll at *; rw [show (timers d ids).1.mode = d.mode from timerScan_mode ids d]; exact hm
  have rm := resume_moves_back g (timers d ids).1 wt c hs hr
  have wr : WF (resumeSuspended g (timers d ids).1).1 := (WK_resumeSuspended g (timers d ids).1 wt).1
  have mr : (resumeSuspended g (timers d ids).1).1.isEpoll = true := by
    unfold Daemon.isEpoll at *; rw [resumeSuspended_mode]; exact mt
  rw [mt] at rm
  have hq : ReadyQ (resumeSuspended g (timers d ids).1).1 c := by
    refine ⟨rm.2.2.2.2 rfl, rm.2.1, ?_, ?_, ?_, ?_⟩ <;> rw [rm.2.2.2.1] <;> simp [resumedConn, hrr]
  obtain ⟨pre, post, f, he, _, hf⟩ := epollTail_turn g evs _ wr mr c hq
  rw [rm.2.2.2.1] at he
  refine ⟨(bindD (resumeSuspended g) (timers d ids)).2 ++ pre, post, f, ?_, ?_, hf⟩
  · rw [roundEpoll_tail]
    show (bindD (resumeSuspended g) (timers d ids)).2 ++ (epollTail g evs (resumeSuspended g (timers d ids).1).1).2 = _
    rw [he]; simp [List.append_assoc]
  · apply List.mem_append_left
    simp only [bindD]
    exact List.mem_append_right _ rm.1

/-- … and until that round runs, the event loop is told not to block: MHD_get_timeout answers 0
    while a resume request is pending (`daemon->resuming`) and while the eready list is not empty. -/
theorem resume_pending_hint (d : Daemon) (hw : WF d) (c : Nat) (hs : c ∈ d.susp) (hr : (d.conn c).resuming = true) :
    d.hintZero = true := by
  have := hw.no_lost c ((hw.susp_iff c).2 hs) hr
  simp [Daemon.hintZero, this]

theorem readyq_hint (d : Daemon) (hm : d.isEpoll = true) (c : Nat) (hq : c ∈ d.eready) : d.hintZero = true := by
  have : d.eready.isEmpty = false := by
    cases h : d.eready with
    | nil => rw [h] at hq; exact absurd hq List.not_mem_nil
    | cons _ _ => rfl
  simp [Daemon.hintZero, hm, this]

end Mhd.Susp
