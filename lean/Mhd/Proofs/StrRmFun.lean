/-
  C17 proofs: functional characterisation of the sub-loops of
  `MHD_str_remove_token_caseless_` in list terms.
-/
import Mhd.Proofs.StrRm
import Mhd.Proofs.StrRmSpec
import Mhd.Proofs.StrTok

namespace Mhd.Str

/-! ### skipN, exactly -/

theorem skipN_go (s : Bytes) (p : UInt8 → Bool) :
    ∀ (r : Bytes) (i n : Nat), i ≤ s.length → s.drop i = r → r.length < n →
      iter (skipNStep s p) n i = .ok (i + (r.takeWhile p).length) := by
  intro r
  induction r with
  | nil =>
    intro i n hi hr hn
    obtain ⟨n', rfl⟩ : ∃ n', n = n' + 1 := ⟨n - 1, by omega⟩
    have : ¬ i < s.length := by
      intro h; have := congrArg List.length hr; simp at this; omega
    simp [iter, skipNStep, this]
  | cons x t ih =>
    intro i n hi hr hn
    obtain ⟨n', rfl⟩ : ∃ n', n = n' + 1 := ⟨n - 1, by omega⟩
    have hil : i < s.length := by
      by_cases h : i < s.length
      · exact h
      · rw [List.drop_eq_nil_of_le (by omega)] at hr; simp at hr
    have hx : s[i] = x ∧ s.drop (i + 1) = t := by
      rw [List.drop_eq_getElem_cons hil] at hr; injection hr with h1 h2; exact ⟨h1, h2⟩
    by_cases hp : p x = true
    · have := ih (i + 1) n' (by omega) hx.2 (by simp at hn; omega)
      simp only [iter, skipNStep, hil, if_true, rd_lt hil, bind_ok', hx.1, hp, pure_eq_ok]
      rw [this]; simp [List.takeWhile, hp]; omega
    · simp only [Bool.not_eq_true] at hp
      simp [iter, skipNStep, hil, rd_lt hil, hx.1, hp, List.takeWhile]

theorem skipN_exact (s : Bytes) (p : UInt8 → Bool) (i : Nat) (hi : i ≤ s.length) :
    skipN s p i = .ok (i + ((s.drop i).takeWhile p).length) ∧
    s.drop (i + ((s.drop i).takeWhile p).length) = (s.drop i).dropWhile p ∧
    i + ((s.drop i).takeWhile p).length ≤ s.length := by
  refine ⟨?_, ?_, ?_⟩
  · rw [skipN_unfold]
    exact skipN_go s p (s.drop i) i _ hi rfl (by simp; omega)
  · rw [← List.drop_drop]; exact drop_takeWhile_length p _
  · have h1 := takeWhile_length_le p (s.drop i)
    simp at h1; omega

/-! ### the prefix-matching loop, exactly -/

/-- length of the longest common caseless prefix -/
def matchLen : Bytes → Bytes → Nat
  | x :: r, y :: t => if charsEqualCaseless x y then matchLen r t + 1 else 0
  | _, _ => 0

theorem rmMatch_go (str tok : Bytes) :
    ∀ (r t : Bytes) (a b n : Nat), str.drop a = r → tok.drop b = t → r.length < n →
      iter (rmMatchStep str tok) n (a, b) = .ok (a + matchLen r t, b + matchLen r t) := by
  intro r
  induction r with
  | nil =>
    intro t a b n hr ht hn
    obtain ⟨n', rfl⟩ : ∃ n', n = n' + 1 := ⟨n - 1, by omega⟩
    have : ¬ a < str.length := by
      intro h; have := congrArg List.length hr; simp at this; omega
    simp [iter, rmMatchStep, this, matchLen]
  | cons x r' ih =>
    intro t a b n hr ht hn
    obtain ⟨n', rfl⟩ : ∃ n', n = n' + 1 := ⟨n - 1, by omega⟩
    have hal : a < str.length := by
      by_cases h : a < str.length
      · exact h
      · rw [List.drop_eq_nil_of_le (by omega)] at hr; simp at hr
    have hx : str[a] = x ∧ str.drop (a + 1) = r' := by
      rw [List.drop_eq_getElem_cons hal] at hr; injection hr with h1 h2; exact ⟨h1, h2⟩
    cases t with
    | nil =>
      have : ¬ tok.length > b := by
        intro h; have := congrArg List.length ht; simp at this; omega
      simp [iter, rmMatchStep, this, matchLen]
    | cons y t' =>
      have hbl : b < tok.length := by
        by_cases h : b < tok.length
        · exact h
        · rw [List.drop_eq_nil_of_le (by omega)] at ht; simp at ht
      have hy : tok[b] = y ∧ tok.drop (b + 1) = t' := by
        rw [List.drop_eq_getElem_cons hbl] at ht; injection ht with h1 h2; exact ⟨h1, h2⟩
      by_cases he : charsEqualCaseless x y = true
      · have := ih t' (a + 1) (b + 1) n' hx.2 hy.2 (by simp at hn; omega)
        simp only [iter, rmMatchStep, hal, hbl, gt_iff_lt, and_self, if_true, rd_lt hal, rd_lt hbl, bind_ok',
          hx.1, hy.1, he, pure_eq_ok]
        rw [this]; simp [matchLen, he]; omega
      · simp only [Bool.not_eq_true] at he
        simp [iter, rmMatchStep, hal, hbl, rd_lt hal, rd_lt hbl, hx.1, hy.1, he, matchLen]

theorem rmMatch_exact (str tok : Bytes) (s : Nat) :
    iter (rmMatchStep str tok) (str.length + 1) (s, 0) =
      .ok (s + matchLen (str.drop s) tok, matchLen (str.drop s) tok) := by
  have := rmMatch_go str tok (str.drop s) tok s 0 (str.length + 1) rfl rfl (by simp; omega)
  simpa using this

theorem matchLen_le (r t : Bytes) : matchLen r t ≤ r.length ∧ matchLen r t ≤ t.length := by
  induction r generalizing t with
  | nil => simp [matchLen]
  | cons x r' ih =>
    cases t with
    | nil => simp [matchLen]
    | cons y t' =>
      by_cases he : charsEqualCaseless x y = true
      · have := ih t'; simp [matchLen, he]; omega
      · simp only [Bool.not_eq_true] at he
        simp [matchLen, he]

/-! ### memcpy, exactly -/

theorem copyBytes_exact (src : Bytes) (r : Nat) (dst : Bytes) (w n : Nat)
    (hr : r + n ≤ src.length) (hw : w + n ≤ dst.length) :
    ∃ d, copyBytes src r dst w n = .ok d ∧ d.length = dst.length ∧
      d.take (w + n) = dst.take w ++ (src.drop r).take n := by
  induction n with
  | zero => exact ⟨dst, by simp [copyBytes], rfl, by simp⟩
  | succ n ih =>
    obtain ⟨d, hd, hl, ht⟩ := ih (by omega) (by omega)
    have h1 : r + n < src.length := by omega
    have h2 : w + n < d.length := by omega
    refine ⟨d.set (w + n) src[r + n], ?_, by simp [hl], ?_⟩
    · unfold copyBytes at hd ⊢
      rw [List.range_succ, List.foldlM_append, hd]
      simp [List.foldlM, rd_lt h1, wr_ok _ h2]
    · have : w + (n + 1) = (w + n) + 1 := by omega
      rw [this, take_set_succ _ _ _ h2, ht, List.append_assoc]
      congr 1
      have hn : n < (src.drop r).length := by simp; omega
      rw [List.take_add_one]
      simp [List.getElem?_eq_getElem hn]

/-! ### the word-copy loop, exactly -/

def isWordB (c : UInt8) : Bool := c != 0x2c && c != 0x20 && c != 0x09

/-- write the bytes `d` into `o` starting at `w` -/
def putBytes : Bytes → Nat → Bytes → Bytes
  | o, _, [] => o
  | o, w, c :: d => putBytes (o.set w c) (w + 1) d

theorem putBytes_length (o : Bytes) (w : Nat) (d : Bytes) : (putBytes o w d).length = o.length := by
  induction d generalizing o w with
  | nil => rfl
  | cons c t ih => simp [putBytes, ih]

theorem putBytes_take (o : Bytes) (w : Nat) (d : Bytes) (h : w + d.length ≤ o.length) :
    (putBytes o w d).take (w + d.length) = o.take w ++ d := by
  induction d generalizing o w with
  | nil => simp [putBytes]
  | cons c t ih =>
    simp only [List.length_cons] at h
    have hw : w < o.length := by omega
    have := ih (o.set w c) (w + 1) (by simp; omega)
    simp only [putBytes, List.length_cons]
    have e : w + (t.length + 1) = w + 1 + t.length := by omega
    rw [e, this, take_set_succ _ _ _ hw]; simp

theorem isWordB_iff (c : UInt8) : isWordB c = true ↔ (c ≠ 0x2c ∧ c ≠ 0x20 ∧ c ≠ 0x09) := by
  simp [isWordB, and_assoc]

/-- result of the word-copy loop from state `st` whose remaining input is `r` -/
def WordRes (L : Nat) (st : RmSt) (wd : Bytes) (res : Option RmSt) : Prop :=
  if st.w + wd.length ≤ L then
    ∃ st', res = some st' ∧ st'.s1 = st.s1 + wd.length ∧ st'.w = st.w + wd.length ∧
      st'.out = putBytes st.out st.w wd ∧ st'.removed = st.removed
  else res = none

theorem rmCopyWord_go (str : Bytes) (L : Nat) :
    ∀ (r : Bytes) (st : RmSt) (n : Nat), str.drop st.s1 = r → r.length < n → st.w ≤ L → st.out.length = L →
      ∃ res, iter (rmCopyWordStep str) n st = .ok res ∧ WordRes L st (r.takeWhile isWordB) res := by
  intro r
  induction r with
  | nil =>
    intro st n hr hn hw hl
    obtain ⟨n', rfl⟩ : ∃ n', n = n' + 1 := ⟨n - 1, by omega⟩
    have : ¬ st.s1 < str.length := by
      intro h; have := congrArg List.length hr; simp at this; omega
    refine ⟨some st, by simp [iter, rmCopyWordStep, this], ?_⟩
    simp only [WordRes, List.takeWhile_nil, List.length_nil, Nat.add_zero, hw, if_true]
    exact ⟨st, rfl, rfl, rfl, rfl, rfl⟩
  | cons x t ih =>
    intro st n hr hn hw hl
    obtain ⟨n', rfl⟩ : ∃ n', n = n' + 1 := ⟨n - 1, by omega⟩
    have hsl : st.s1 < str.length := by
      by_cases h : st.s1 < str.length
      · exact h
      · rw [List.drop_eq_nil_of_le (by omega)] at hr; simp at hr
    have hx : str[st.s1] = x ∧ str.drop (st.s1 + 1) = t := by
      rw [List.drop_eq_getElem_cons hsl] at hr; injection hr with h1 h2; exact ⟨h1, h2⟩
    by_cases hword : isWordB x = true
    · have hc := (isWordB_iff x).mp hword
      have htw : (x :: t).takeWhile isWordB = x :: t.takeWhile isWordB := by simp [List.takeWhile, hword]
      by_cases hfull : st.out.length ≤ st.w
      · refine ⟨none, ?_, ?_⟩
        · simp [iter, rmCopyWordStep, hsl, rd_lt hsl, hx.1, hc, hfull]
        · have : ¬ st.w + ((x :: t).takeWhile isWordB).length ≤ L := by rw [htw]; simp; omega
          simp only [WordRes, this, if_false]
      · have hwl : st.w < st.out.length := by omega
        obtain ⟨res, hres, hpost⟩ := ih ⟨st.s1 + 1, st.w + 1, st.out.set st.w x, st.removed⟩ n' hx.2
          (by simp at hn; omega) (by simp; omega) (by simp [hl])
        refine ⟨res, ?_, ?_⟩
        · simp only [iter, rmCopyWordStep, hsl, if_true, rd_lt hsl, bind_ok', hx.1, hc, ne_eq, not_false_eq_true,
            and_self, hfull, if_false, wr_ok _ hwl, pure_eq_ok]
          exact hres
        · unfold WordRes at hpost ⊢
          rw [htw]
          simp only [List.length_cons] at hpost ⊢
          by_cases hfit : st.w + ((t.takeWhile isWordB).length + 1) ≤ L
          · have hfit' : st.w + 1 + (t.takeWhile isWordB).length ≤ L := by omega
            simp only [hfit, hfit', if_true] at hpost ⊢
            obtain ⟨st', h1, h2, h3, h4, h5⟩ := hpost
            exact ⟨st', h1, by rw [h2]; omega, by rw [h3]; omega, by rw [h4]; rfl, h5⟩
          · have hfit' : ¬ st.w + 1 + (t.takeWhile isWordB).length ≤ L := by omega
            simp only [hfit, hfit', if_false] at hpost ⊢
            exact hpost
    · simp only [Bool.not_eq_true] at hword
      have hnc : ¬ (x ≠ 0x2c ∧ x ≠ 0x20 ∧ x ≠ 0x09) := by
        intro h; have := (isWordB_iff x).mpr h; rw [hword] at this; simp at this
      refine ⟨some st, ?_, ?_⟩
      · simp [iter, rmCopyWordStep, hsl, rd_lt hsl, hx.1, hnc]
      · have htw : (x :: t).takeWhile isWordB = [] := by simp [List.takeWhile, hword]
        simp only [WordRes, htw, List.length_nil, Nat.add_zero, hw, if_true]
        exact ⟨st, rfl, rfl, rfl, rfl, rfl⟩

/-! ### list facts about word / whitespace / comma boundaries -/

theorem isWordB_eq (c : UInt8) : isWordB c = (notComma c && notWsB c) := by
  unfold isWordB notComma notWsB isWs
  rw [Bool.not_or, Bool.and_assoc]; rfl

theorem takeWhile_and (p q : UInt8 → Bool) (l : Bytes) :
    l.takeWhile (fun c => p c && q c) = (l.takeWhile p).takeWhile q := by
  induction l with
  | nil => rfl
  | cons x t ih =>
    by_cases hp : p x = true
    · by_cases hq : q x = true
      · simp [List.takeWhile, hp, hq, ih]
      · simp only [Bool.not_eq_true] at hq; simp [List.takeWhile, hp, hq]
    · simp only [Bool.not_eq_true] at hp; simp [List.takeWhile, hp]

theorem dropWhile_and (p q : UInt8 → Bool) (l : Bytes) :
    l.dropWhile (fun c => p c && q c) = (l.takeWhile p).dropWhile q ++ l.dropWhile p := by
  induction l with
  | nil => rfl
  | cons x t ih =>
    by_cases hp : p x = true
    · by_cases hq : q x = true
      · simp [List.takeWhile, List.dropWhile, hp, hq, ih]
      · simp only [Bool.not_eq_true] at hq
        simp [List.takeWhile, List.dropWhile, hp, hq]
    · simp only [Bool.not_eq_true] at hp; simp [List.takeWhile, List.dropWhile, hp]

theorem isWordB_fun : isWordB = fun c => notComma c && notWsB c := by
  funext c; exact isWordB_eq c

/-- `b` is empty or starts with a character not satisfying `p` -/
def StopsAt (p : UInt8 → Bool) (b : Bytes) : Prop := b = [] ∨ ∃ z b', b = z :: b' ∧ p z = false

theorem dropWhile_append_stop (p : UInt8 → Bool) (a b : Bytes) (hb : StopsAt p b) :
    (a ++ b).dropWhile p = a.dropWhile p ++ b := by
  induction a with
  | nil =>
    rcases hb with rfl | ⟨z, b', rfl, hz⟩
    · rfl
    · simp [List.dropWhile, hz]
  | cons x t ih =>
    by_cases hx : p x = true
    · simp [List.dropWhile, hx, ih]
    · simp only [Bool.not_eq_true] at hx; simp [List.dropWhile, hx]

theorem takeWhile_append_stop (p : UInt8 → Bool) (a b : Bytes) (hb : StopsAt p b) :
    (a ++ b).takeWhile p = a.takeWhile p := by
  induction a with
  | nil =>
    rcases hb with rfl | ⟨z, b', rfl, hz⟩
    · rfl
    · simp [List.takeWhile, hz]
  | cons x t ih =>
    by_cases hx : p x = true
    · simp [List.takeWhile, hx, ih]
    · simp only [Bool.not_eq_true] at hx; simp [List.takeWhile, hx]

theorem restElems_stops (p : UInt8 → Bool) (hp : p 0x2c = false) (u : Bytes) : StopsAt p (restElems u) := by
  rcases restElems_eq u with h | ⟨r', h⟩
  · left; exact h
  · right; exact ⟨0x2c, r', h, hp⟩

theorem headElem_notComma (u : Bytes) : ∀ x ∈ headElem u, notComma x = true := takeWhile_mem notComma u

theorem mem_dropWhile (p : UInt8 → Bool) (l : Bytes) : ∀ x ∈ l.dropWhile p, x ∈ l :=
  fun x hx => (List.dropWhile_sublist p).subset hx

/-- decomposition of the remaining input `u` at the current element `E = headElem u`:
    first word, whitespace, and what follows -/
theorem elem_split (u : Bytes) :
    u.takeWhile isWordB = (headElem u).takeWhile notWsB ∧
    (u.dropWhile isWordB).takeWhile isWs = ((headElem u).dropWhile notWsB).takeWhile isWs ∧
    (u.dropWhile isWordB).dropWhile isWs = ((headElem u).dropWhile notWsB).dropWhile isWs ++ restElems u ∧
    headElem ((u.dropWhile isWordB).dropWhile isWs) = ((headElem u).dropWhile notWsB).dropWhile isWs := by
  have hstopW : StopsAt isWs (restElems u) := restElems_stops isWs (by decide) u
  have hd : u.dropWhile isWordB = (headElem u).dropWhile notWsB ++ restElems u := by
    rw [isWordB_fun, dropWhile_and]; rfl
  refine ⟨by rw [isWordB_fun, takeWhile_and]; rfl, ?_, ?_, ?_⟩
  · rw [hd, takeWhile_append_stop _ _ _ hstopW]
  · rw [hd, dropWhile_append_stop _ _ _ hstopW]
  · rw [hd, dropWhile_append_stop _ _ _ hstopW]
    unfold headElem
    apply takeWhile_append_all
    · intro x hx
      exact headElem_notComma u x (mem_dropWhile _ _ x (mem_dropWhile _ _ x hx))
    · rcases restElems_eq u with h | ⟨r', h⟩
      · left; exact h
      · right; exact ⟨0x2c, r', h, by decide⟩

/-- "is there more of the current element?" -/
theorem peek_notComma (str : Bytes) (j : Nat) :
    (if j < str.length then do
        let c ← rd str j
        pure (c != 0x2c)
      else pure false : M Bool) = .ok (!(headElem (str.drop j)).isEmpty) := by
  by_cases hj : j < str.length
  · simp only [hj, if_true, rd_lt hj, bind_ok', pure_eq_ok]
    rw [List.drop_eq_getElem_cons hj]
    by_cases hc : str[j] = 0x2c
    · simp [hc, headElem, notComma]
    · rw [headElem_cons _ _ hc]; simp [hc]
  · simp only [hj, if_false, pure_eq_ok]
    rw [List.drop_eq_nil_of_le (by omega)]; rfl

/-! ### the "copy the rest of the element" loop, exactly -/

def RestRes (L : Nat) (st : RmSt) (E : Bytes) (res : Option RmSt) : Prop :=
  if st.w + (restOutput E).length ≤ L then
    ∃ st', res = some st' ∧ st'.s1 = st.s1 + E.length ∧ st'.w = st.w + (restOutput E).length ∧
      st'.out.length = L ∧ st'.out.take st'.w = st.out.take st.w ++ restOutput E ∧ st'.removed = st.removed
  else res = none

theorem restOutput_nil : restOutput [] = [] := by
  simp [restOutput, wordsOf, wordsAux]

theorem rmCopyRest_go (str : Bytes) (L : Nat) :
    ∀ (m : Nat) (st : RmSt) (n : Nat), (headElem (str.drop st.s1)).length < m → m ≤ n →
      st.s1 ≤ str.length → st.w ≤ L → st.out.length = L →
      ∃ res, iter (rmCopyRestStep str) n st = .ok res ∧ RestRes L st (headElem (str.drop st.s1)) res := by
  intro m
  induction m with
  | zero => intro st n h; omega
  | succ m ih =>
    intro st n hE hn hs hw hl
    obtain ⟨n', rfl⟩ : ∃ n', n = n' + 1 := ⟨n - 1, by omega⟩
    simp only [iter]
    unfold rmCopyRestStep
    rw [peek_notComma str st.s1]
    simp only [bind_ok']
    cases hEe : headElem (str.drop st.s1) with
    | nil =>
      -- end of the element
      refine ⟨some st, by simp, ?_⟩
      simp only [RestRes, restOutput_nil, List.length_nil, Nat.add_zero, hw, if_true]
      exact ⟨st, rfl, rfl, rfl, hl, by simp, rfl⟩
    | cons x E1 =>
      rw [← hEe]
      have hne : (headElem (str.drop st.s1)).isEmpty = false := by rw [hEe]; rfl
      simp only [hne, Bool.not_false, if_true]
      -- names
      generalize hu : str.drop st.s1 = u at *
      obtain ⟨hs1, hs2, hs3, hs4⟩ := elem_split u
      generalize hE0 : headElem u = E at *
      have hElen : E.length = (E.takeWhile notWsB).length + ((E.dropWhile notWsB).takeWhile isWs).length +
          ((E.dropWhile notWsB).dropWhile isWs).length := by
        have := congrArg List.length (split_word_ws E)
        simp only [List.length_append] at this; omega
      have hprog : 1 ≤ (E.takeWhile notWsB).length + ((E.dropWhile notWsB).takeWhile isWs).length := by
        rw [hEe]
        by_cases hxw : notWsB x = true
        · simp [List.takeWhile, hxw]; omega
        · simp only [Bool.not_eq_true] at hxw
          have : isWs x = true := (notWsB_false_iff x).mp hxw
          simp [List.takeWhile, List.dropWhile, hxw, this]
      -- the word
      obtain ⟨res1, hres1, hw1⟩ := rmCopyWord_go str L u st (str.length + 1) hu
        (by have := congrArg List.length hu; simp at this; omega) hw hl
      rw [hres1]
      unfold WordRes at hw1
      rw [hs1] at hw1
      have hro : restOutput E = E.takeWhile notWsB ++
          (if wordsOf ((E.dropWhile notWsB).dropWhile isWs) = [] then []
           else 0x20 :: joinWith [0x20] (wordsOf ((E.dropWhile notWsB).dropWhile isWs))) := rfl
      by_cases hfit1 : st.w + (E.takeWhile notWsB).length ≤ L
      · simp only [hfit1, if_true] at hw1
        obtain ⟨st1, rfl, h11, h12, h13, h14⟩ := hw1
        simp only [bind_ok']
        have hst1s : st1.s1 ≤ str.length := by
          have := congrArg List.length hu
          have h2 := takeWhile_length_le isWordB u
          rw [hs1] at h2
          simp at this; omega
        have hdrop1 : str.drop st1.s1 = u.dropWhile isWordB := by
          rw [h11, ← List.drop_drop, hu, ← hs1]; exact drop_takeWhile_length isWordB u
        obtain ⟨hk1, hk2, hk3⟩ := skipN_exact str isWs st1.s1 hst1s
        rw [hdrop1, hs2] at hk1 hk2 hk3
        rw [hs3] at hk2
        simp only [hk1, bind_ok']
        rw [peek_notComma str _, hk2]
        have hhe : headElem ((E.dropWhile notWsB).dropWhile isWs ++ restElems u) = (E.dropWhile notWsB).dropWhile isWs := by
          rw [← hs3]; exact hs4
        rw [hhe]
        simp only [bind_ok']
        have hout1 : st1.out.length = L := by rw [h13, putBytes_length]; exact hl
        have htake1 : st1.out.take st1.w = st.out.take st.w ++ E.takeWhile notWsB := by
          rw [h13, h12]; exact putBytes_take _ _ _ (by omega)
        cases hE2 : (E.dropWhile notWsB).dropWhile isWs with
        | nil =>
          -- nothing but (maybe) whitespace follows: one more round, which stops
          simp only [List.isEmpty_nil, Bool.not_true, Bool.false_eq_true, if_false, pure_eq_ok]
          have hhead2 : headElem (str.drop (st1.s1 + ((E.dropWhile notWsB).takeWhile isWs).length)) = [] := by
            rw [hk2, hE2, List.nil_append]
            rcases restElems_eq u with h | ⟨r', h⟩
            · rw [h]; rfl
            · rw [h]; simp [headElem, notComma]
          obtain ⟨res2, hres2, hpost2⟩ := ih { st1 with s1 := st1.s1 + ((E.dropWhile notWsB).takeWhile isWs).length } n'
            (by show (headElem (str.drop (st1.s1 + ((E.dropWhile notWsB).takeWhile isWs).length))).length < m
                rw [hhead2]; have h' := hE; rw [hEe] at h'; simp at h' ⊢; omega)
            (by omega) hk3 (by show st1.w ≤ L; omega) hout1
          refine ⟨res2, hres2, ?_⟩
          simp only [] at hpost2
          rw [hhead2] at hpost2
          unfold RestRes at hpost2 ⊢
          have hro' : restOutput E = E.takeWhile notWsB := by
            rw [hro, hE2]; simp [wordsOf, wordsAux]
          simp only [restOutput_nil, List.length_nil, Nat.add_zero] at hpost2
          rw [hro']
          have : st1.w ≤ L := by omega
          simp only [this, if_true, hfit1] at hpost2 ⊢
          obtain ⟨st', h1, h2, h3, h4, h5, h6⟩ := hpost2
          refine ⟨st', h1, ?_, by rw [h3, h12], h4, ?_, by rw [h6, h14]⟩
          · rw [h2, h11, hElen, hE2]; simp; omega
          · rw [h5]; simp only [List.append_nil]; exact htake1
        | cons z E3 =>
          simp only [List.isEmpty_cons, Bool.not_false, if_true]
          -- E'' starts with a non-space character
          have hz : isWs z = false := by
            rcases dropWhile_head_not isWs (E.dropWhile notWsB) with h | ⟨z', b', h, hz'⟩
            · rw [h] at hE2; simp at hE2
            · rw [h] at hE2; injection hE2 with e1 e2; rw [← e1]; exact hz'
          have hwne : wordsOf (z :: E3) ≠ [] := wordsOf_ne_nil_of_head _ z E3 rfl hz
          have hro' : restOutput E = E.takeWhile notWsB ++ 0x20 :: restOutput (z :: E3) := by
            rw [hro, hE2]
            simp only [hwne, if_false]
            rw [restOutput_eq_norm (z :: E3) (Or.inr ⟨z, E3, rfl, hz⟩)]
          by_cases hfull : st1.out.length ≤ st1.w
          · refine ⟨none, by simp [hfull], ?_⟩
            unfold RestRes
            have : ¬ st.w + (restOutput E).length ≤ L := by
              rw [hro']; simp; omega
            simp only [this, if_false]
          · have hwl : st1.w < st1.out.length := by omega
            simp only [hfull, if_false, wr_ok _ hwl, bind_ok', pure_eq_ok]
            have hhead2 : headElem (str.drop (st1.s1 + ((E.dropWhile notWsB).takeWhile isWs).length)) = z :: E3 := by
              rw [hk2, ← hE2]; exact hhe
            obtain ⟨res2, hres2, hpost2⟩ := ih
              { st1 with s1 := st1.s1 + ((E.dropWhile notWsB).takeWhile isWs).length, w := st1.w + 1,
                         out := st1.out.set st1.w 0x20 } n'
              (by show (headElem (str.drop (st1.s1 + ((E.dropWhile notWsB).takeWhile isWs).length))).length < m
                  rw [hhead2]; have h' := hElen; rw [hE2] at h'; simp at h' ⊢; omega)
              (by omega) hk3 (by show st1.w + 1 ≤ L; omega) (by simp [hout1])
            refine ⟨res2, hres2, ?_⟩
            simp only [] at hpost2
            rw [hhead2] at hpost2
            unfold RestRes at hpost2 ⊢
            rw [hro']
            simp only [List.length_append, List.length_cons] at hpost2 ⊢
            by_cases hfit : st.w + ((E.takeWhile notWsB).length + ((restOutput (z :: E3)).length + 1)) ≤ L
            · have hfit' : st1.w + 1 + (restOutput (z :: E3)).length ≤ L := by omega
              simp only [hfit, hfit', if_true] at hpost2 ⊢
              obtain ⟨st', h1, h2, h3, h4, h5, h6⟩ := hpost2
              refine ⟨st', h1, ?_, by rw [h3, h12]; omega, h4, ?_, by rw [h6, h14]⟩
              · rw [h2, h11, hElen, hE2]; simp; omega
              · rw [h5, take_set_succ _ _ _ hwl, htake1]; simp
            · have hfit' : ¬ st1.w + 1 + (restOutput (z :: E3)).length ≤ L := by omega
              simp only [hfit, hfit', if_false] at hpost2 ⊢
              exact hpost2
      · -- the word itself does not fit
        simp only [hfit1, if_false] at hw1
        subst hw1
        refine ⟨none, by simp, ?_⟩
        unfold RestRes
        have : ¬ st.w + (restOutput E).length ≤ L := by
          rw [hro]; simp only [List.length_append]; omega
        simp only [this, if_false]

/-! ### the code's "full match" test is `elemIs` -/

theorem matchLen_nil_right (r : Bytes) : matchLen r [] = 0 := by
  cases r <;> simp [matchLen]

theorem all_ws_headElem_iff (r : Bytes) :
    (headElem r).all isWs = true ↔ headElem (r.dropWhile isWs) = [] := by
  induction r with
  | nil => simp [headElem]
  | cons x t ih =>
    by_cases hx : isWs x = true
    · have hc := isWs_ne_comma hx
      rw [headElem_cons _ _ hc]
      simp only [List.all_cons, hx, Bool.true_and, List.dropWhile]
      exact ih
    · simp only [Bool.not_eq_true] at hx
      simp only [List.dropWhile, hx]
      by_cases hc : x = 0x2c
      · subst hc; simp [headElem, notComma]
      · rw [headElem_cons _ _ hc]; simp [hx]

theorem ceq_sp_left : ∀ n : Fin 256, charsEqualCaseless 0x20 (UInt8.ofNat n.val) = true → UInt8.ofNat n.val = 0x20 := by
  decide +kernel
theorem ceq_ht_left : ∀ n : Fin 256, charsEqualCaseless 0x09 (UInt8.ofNat n.val) = true → UInt8.ofNat n.val = 0x09 := by
  decide +kernel

theorem ceq_word (x y : UInt8) (h : charsEqualCaseless x y = true) (hy : y ≠ 0x20 ∧ y ≠ 0x09 ∧ y ≠ 0x2c) :
    isWordB x = true := by
  rw [isWordB_iff]
  refine ⟨?_, ?_, ?_⟩
  · intro hx; subst hx; exact hy.2.2 (ceq_comma y h)
  · intro hx; subst hx
    have := ceq_sp_left ⟨y.toNat, y.toNat_lt⟩
    simp only [ofNat_toNat_u8] at this
    exact hy.1 (this h)
  · intro hx; subst hx
    have := ceq_ht_left ⟨y.toNat, y.toNat_lt⟩
    simp only [ofNat_toNat_u8] at this
    exact hy.2.1 (this h)

theorem elemIs_iff_match (t : Bytes) (ht : ∀ x ∈ t, x ≠ 0x20 ∧ x ≠ 0x09 ∧ x ≠ 0x2c) (r : Bytes) :
    elemIs r t = true ↔ (matchLen r t = t.length ∧ headElem ((r.drop t.length).dropWhile isWs) = []) := by
  induction t generalizing r with
  | nil =>
    have h1 : elemIs r [] = (headElem r).all isWs := by rw [elemIs.eq_def]
    rw [h1, matchLen_nil_right]
    simp only [List.length_nil, List.drop_zero, true_and]
    exact all_ws_headElem_iff r
  | cons y t' ih =>
    have hy := ht y List.mem_cons_self
    have ht' : ∀ x ∈ t', x ≠ 0x20 ∧ x ≠ 0x09 ∧ x ≠ 0x2c := fun x hx => ht x (List.mem_cons_of_mem _ hx)
    cases r with
    | nil => simp [elemIs, matchLen]
    | cons x r' =>
      have h1 : elemIs (x :: r') (y :: t') = (x != 0x2c && charsEqualCaseless x y && elemIs r' t') := by
        rw [elemIs.eq_def]
      rw [h1]
      by_cases he : charsEqualCaseless x y = true
      · have hxw := (isWordB_iff x).mp (ceq_word x y he hy)
        have hxc : (x != 0x2c) = true := by simp [hxw.1]
        simp only [hxc, he, Bool.true_and, matchLen, if_true, List.length_cons, List.drop_succ_cons]
        rw [ih ht' r']
        constructor
        · intro ⟨a, b⟩; exact ⟨by omega, b⟩
        · intro ⟨a, b⟩; exact ⟨by omega, b⟩
      · simp only [Bool.not_eq_true] at he
        simp [he, matchLen]

theorem matchLen_prefix_word (t : Bytes) (ht : ∀ x ∈ t, x ≠ 0x20 ∧ x ≠ 0x09 ∧ x ≠ 0x2c) (r : Bytes) :
    ∀ x ∈ r.take (matchLen r t), isWordB x = true := by
  induction t generalizing r with
  | nil => rw [matchLen_nil_right]; intro x hx; simp at hx
  | cons y t' ih =>
    cases r with
    | nil => intro x hx; simp [matchLen] at hx
    | cons x0 r' =>
      by_cases he : charsEqualCaseless x0 y = true
      · simp only [matchLen, he, if_true, List.take_succ_cons]
        intro x hx
        rcases List.mem_cons.mp hx with h | h
        · rw [h]; exact ceq_word x0 y he (ht y List.mem_cons_self)
        · exact ih (fun z hz => ht z (List.mem_cons_of_mem _ hz)) r' x h
      · simp only [Bool.not_eq_true] at he
        intro x hx; simp [matchLen, he] at hx

/-- a prefix free of commas lies inside the head element -/
theorem headElem_prefix (r : Bytes) (k : Nat) (hk : k ≤ r.length) (hp : ∀ x ∈ r.take k, notComma x = true) :
    headElem r = r.take k ++ headElem (r.drop k) := by
  induction k generalizing r with
  | zero => simp
  | succ k ih =>
    cases r with
    | nil => simp at hk
    | cons x t =>
      have hx : notComma x = true := hp x (by simp)
      have hxc : x ≠ 0x2c := by simpa [notComma] using hx
      rw [headElem_cons _ _ hxc]
      simp only [List.take_succ_cons, List.drop_succ_cons, List.cons_append]
      rw [ih t (by simp at hk; omega) (fun y hy => hp y (by simp [hy]))]

theorem isWordB_notComma {x : UInt8} (h : isWordB x = true) : notComma x = true := by
  rw [isWordB_eq] at h; simp only [Bool.and_eq_true] at h; exact h.1

theorem isWordB_notWs {x : UInt8} (h : isWordB x = true) : isWs x = false := by
  rw [isWordB_eq] at h; simp only [Bool.and_eq_true] at h
  exact (notWsB_true_iff x).mp h.2

end Mhd.Str
