/-
  Round trip of the multipart machine, one loop iteration: `act_spec` — on a window that is a prefix
  of the rest of a well-formed stream, the `skip_rn` machine, the main switch and `AGAIN:` keep the
  invariant `MInv` (top level and nested multipart/mixed), never return an error, and make progress unless the window is too short.
-/
import Mhd.Proofs.PPMxInv
namespace Mhd.PP

/-- everything after the copy and the out-of-memory test in one iteration of the loop -/
def act (pp1 : PP) (l2 : ML) : PP × ML × Flow :=
  match rnMachine pp1 l2 with
  | (pp2, l3, some .again) => let (pp3, l4) := again pp2 l3; (pp3, l4, if pp3.fault.isSome then .ret else .again)
  | (pp2, l3, some f) => (pp2, l3, f)
  | (pp2, l3, none) =>
    match mainSwitch pp2 l3 with
    | (pp3, l4, .again) => let (pp4, l5) := again pp3 l4; (pp4, l5, if pp4.fault.isSome then .ret else .again)
    | r => r

theorem mpIter_eq (d : Bytes) (pp : PP) (l : ML) :
    mpIter d pp l =
      if pp.buf.length > pp.bufferSize then (pp.setFault "buffer-pos-oob", l, .ret) else
      let max := min (pp.bufferSize - pp.buf.length) (d.length - l.poff)
      let pp1 := { pp with buf := pp.buf ++ slice d l.poff (l.poff + max) }
      let l1 := { l with poff := l.poff + max }
      if max = 0 ∧ l1.stateChanged = false ∧ l1.poff < d.length then ({ pp1 with state := .error }, l1, .ret)
      else act pp1 { l1 with stateChanged := false } := rfl

theorem rn_step (pp : PP) (l : ML) (pend X : Bytes) (hr : RnOk pp.skipRn (pp.buf ++ pend) X)
    (hrn : pp.skipRn ≠ .inactive) (hne : pp.buf ≠ []) (hio : l.ioff = 0) (hf : pp.fault = none) :
    ∃ k rn', 0 < k ∧ k ≤ pp.buf.length ∧
      act pp l = ({ pp with skipRn := rn', buf := pp.buf.drop k }, { l with ioff := 0, stateChanged := true }, .again) ∧
      RnOk rn' (pp.buf.drop k ++ pend) X := by
  obtain ⟨c0, b', hb⟩ : ∃ c0 b', pp.buf = c0 :: b' := by
    cases h : pp.buf with
    | nil => exact absurd h hne
    | cons a t => exact ⟨a, t, rfl⟩
  rcases hr with ⟨h, _⟩ | ⟨h, hR⟩ | ⟨h, hR⟩
  · exact absurd h hrn
  · rw [hb] at hR
    simp only [List.cons_append, List.cons.injEq] at hR
    obtain ⟨rfl, hR⟩ := hR
    refine ⟨1, .inactive, by omega, by simp [hb], ?_, ?_⟩
    · simp [act, rnMachine, h, rnOptN, hb, again, hf, hio]
    · simp [hb, RnOk, hR]
  · rw [hb] at hR
    simp only [List.cons_append, List.cons.injEq] at hR
    obtain ⟨rfl, hR⟩ := hR
    cases b' with
    | nil =>
      refine ⟨1, .optN, by omega, by simp [hb], ?_, ?_⟩
      · rcases h with h | h <;> simp [act, rnMachine, h, rnDash, rnFull, hb, again, hf, hio, cCR, cDash]
      · simp only [List.nil_append] at hR
        simp [hb, RnOk, hR]
    | cons c1 b'' =>
      simp only [List.cons_append, List.cons.injEq] at hR
      obtain ⟨rfl, hR⟩ := hR
      have hlt : ¬ (b''.length + 1 + 1 < 2) := by omega
      refine ⟨2, .inactive, by omega, by simp [hb], ?_, ?_⟩
      · rcases h with h | h <;> simp [act, rnMachine, h, rnDash, rnFull, hb, again, hf, hio, cCR, cDash, hlt]
      · simp [hb, RnOk, hR]

theorem findBoundary_short (pp : PP) (B : Bytes) (ioff : Nat) (next nd : St) (h : pp.buf.length < 2 + B.length)
    (h2 : pp.buf.length ≠ pp.bufferSize) : findBoundary pp B ioff next nd = (pp, ioff, false) := by
  simp [findBoundary, h, h2]

theorem findBoundary_hit (pp : PP) (B : Bytes) (ioff : Nat) (next nd : St) (a' : Bytes)
    (h : pp.buf = sDashDash ++ B ++ a') :
    findBoundary pp B ioff next nd =
      ({ pp with skipRn := .dash, state := next, dashState := nd }, ioff + 2 + B.length, true) := by
  have h1 : ¬ pp.buf.length < 2 + B.length := by rw [h]; simp [sDashDash]; omega
  have h2 : slice pp.buf 0 2 = sDashDash := by rw [h]; simp [slice, sDashDash]
  have h3 : slice pp.buf 2 (2 + B.length) = B := by rw [h]; simp [slice, sDashDash]
  simp [findBoundary, h1, h2, h3]

theorem again_pos (pp : PP) (l : ML) (h0 : 0 < l.ioff) (h1 : l.ioff ≤ pp.buf.length) :
    again pp l = ({ pp with buf := pp.buf.drop l.ioff }, { l with ioff := 0, stateChanged := true }) := by
  have : ¬ l.ioff > pp.buf.length := by omega
  simp [again, h0, this]

theorem again_zero (pp : PP) (l : ML) (h0 : l.ioff = 0) : again pp l = (pp, l) := by
  simp [again, h0]

theorem act_main (pp : PP) (l : ML) (hrn : pp.skipRn = .inactive) :
    act pp l = match mainSwitch pp l with
      | (pp3, l4, .again) => ((again pp3 l4).1, (again pp3 l4).2, if (again pp3 l4).1.fault.isSome then .ret else .again)
      | r => r := by
  simp only [act, rnMachine, hrn]

theorem act_main_again (pp : PP) (l : ML) (pp3 : PP) (l4 : ML) (hrn : pp.skipRn = .inactive)
    (h : mainSwitch pp l = (pp3, l4, .again)) :
    act pp l = ((again pp3 l4).1, (again pp3 l4).2, if (again pp3 l4).1.fault.isSome then .ret else .again) := by
  rw [act_main pp l hrn, h]

theorem act_main_end (pp : PP) (l : ML) (pp3 : PP) (l4 : ML) (hrn : pp.skipRn = .inactive)
    (h : mainSwitch pp l = (pp3, l4, .gotoEnd)) : act pp l = (pp3, l4, .gotoEnd) := by
  rw [act_main pp l hrn, h]

/-- what one pass of `act` has to establish -/
def ActOk (c : Cfg) (pend : Bytes) (pp1 : PP) (l2 : ML) (r : PP × ML × Flow) : Prop :=
  r.2.2 ≠ .ret ∧ MBase c r.1 ∧ MInv c r.1 (r.1.buf ++ pend) ∧ r.2.1.ioff = 0 ∧ r.2.1.poff = l2.poff ∧
  ((r.2.2 = .gotoEnd ∨ r.2.1.stateChanged = false) → Quiescent r.1) ∧ (r.2.2 = .gotoEnd → r.1.buf = pp1.buf)

theorem if_fault (q : PP) (hf : q.fault = none) :
    (if q.fault.isSome = true then Flow.ret else Flow.again) = Flow.again := by simp [hf]

theorem ActOk.of_again {c : Cfg} {pend : Bytes} {pp : PP} {l : ML} {q : PP} {l' : ML} (hf : q.fault = none)
    (h : ActOk c pend pp l (q, l', .again)) :
    ActOk c pend pp l (q, l', if q.fault.isSome = true then .ret else .again) := by
  rw [if_fault q hf]; exact h

theorem delivers_nil : Delivers [] [] := rfl

theorem bnd0_hit_step (c : Cfg) (hc : CfgOk c) (pp : PP) (l : ML) (pend : Bytes) (hb : MBase c pp)
    (hrn : pp.skipRn = .inactive) (hs : pp.state = .init) (he : pp.evs = [])
    (hm : pp.metaOf = none4)
    (hX : pp.buf ++ pend = sDashDash ++ c.B ++ afterB c.B c.items)
    (hio : l.ioff = 0) : ActOk c pend pp l (act pp l) := by
  by_cases hshort : pp.buf.length < 2 + c.B.length
  · have hne : pp.buf.length ≠ pp.bufferSize := by rw [hb.size]; have := hc.bs; omega
    have hms : mainSwitch pp l = (pp, l, .again) := by
      simp only [mainSwitch, hs, hb.bnd, findBoundary_short pp c.B l.ioff _ _ hshort hne]
    rw [act_main_again pp l _ _ hrn hms]
    simp only [again_zero pp l hio, hb.fault]
    refine ⟨by simp, hb, ?_, hio, rfl, fun _ => ?_, by simp⟩
    · exact .main _ (Or.inl ⟨hrn, hX⟩) (.bnd0 [] hs he hm rfl (by intro k hk; cases hk))
    · exact Or.inr ⟨hrn, Or.inl ⟨Or.inl hs, by rw [hb.bnd]; exact hshort⟩⟩
  · obtain ⟨a', ha, hp⟩ : ∃ a', pp.buf = sDashDash ++ c.B ++ a' ∧ afterB c.B c.items = a' ++ pend := by
      rcases List.append_eq_append_iff.mp hX with ⟨a', h1, h2⟩ | ⟨c', h1, h2⟩
      · have hl := congrArg List.length h1
        simp only [List.length_append, sDashDash, List.length_cons, List.length_nil] at hl
        have : a' = [] := List.length_eq_zero_iff.mp (by omega)
        subst this
        exact ⟨[], by simpa using h1.symm, by simpa using h2.symm⟩
      · exact ⟨c', h1, h2⟩
    have hms : mainSwitch pp l =
        ({ pp with skipRn := .dash, state := .processEntryHeaders, dashState := .done },
          { l with ioff := l.ioff + 2 + c.B.length }, .again) := by
      simp only [mainSwitch, hs, hb.bnd, findBoundary_hit pp c.B l.ioff _ _ a' ha]
    rw [act_main_again pp l _ _ hrn hms]
    have hlen : pp.buf.length = 2 + c.B.length + a'.length := by rw [ha]; simp [sDashDash]; omega
    rw [again_pos _ _ (by simp; omega) (by simp [hio, hlen])]
    have hdrop : pp.buf.drop (l.ioff + 2 + c.B.length) = a' := by
      rw [hio, ha]
      have : 0 + 2 + c.B.length = (sDashDash ++ c.B).length := by simp [sDashDash]; omega
      rw [this, List.drop_left]
    simp only [hdrop, hb.fault]
    refine ⟨by simp, ⟨hb.size, hb.bnd, hb.xbuf, rfl⟩, ?_, rfl, rfl, fun h => ?_, by simp⟩
    · show MInv c _ (a' ++ pend)
      rw [← hp]
      cases hpa : c.items with
      | nil => exact .fin0 (by rw [hpa]; show Delivers pp.evs []; rw [he]; rfl) rfl rfl rfl
      | cons it rest =>
        have hpo := (hc.items it (by rw [hpa]; simp)).lines_ok
        rw [afterB_cons]
        refine .main _ (Or.inr (Or.inr ⟨Or.inr rfl, rfl⟩)) (.hdr [] it rest it.lines (by simp [hpa]) ?_ (Or.inl ⟨rfl, ?_⟩) hpo.1 rfl)
        · show Delivers pp.evs []; rw [he]; rfl
        · show it.lines.foldl hdrM pp.metaOf = it.md
          rw [hm]; exact hpo.2
    · rcases h with h | h <;> simp at h

theorem bnd0_step (c : Cfg) (hc : CfgOk c) (pp : PP) (l : ML) (pend : Bytes) (hb : MBase c pp)
    (hrn : pp.skipRn = .inactive) (pre : Bytes) (hs : pp.state = .init) (he : pp.evs = [])
    (hm : pp.metaOf = none4)
    (hX : pp.buf ++ pend = pre ++ (sDashDash ++ c.B ++ afterB c.B c.items))
    (hpre : ∀ k, k < pre.length →
      slice (pre ++ (sDashDash ++ c.B ++ afterB c.B c.items)) k (k + (2 + c.B.length)) ≠ sDashDash ++ c.B)
    (hio : l.ioff = 0) : ActOk c pend pp l (act pp l) := by
  by_cases hpz : pre = []
  · subst hpz
    exact bnd0_hit_step c hc pp l pend hb hrn hs he hm (by simpa using hX) hio
  by_cases hshort : pp.buf.length < 2 + c.B.length
  · have hne : pp.buf.length ≠ pp.bufferSize := by rw [hb.size]; have := hc.bs; omega
    have hms : mainSwitch pp l = (pp, l, .again) := by
      simp only [mainSwitch, hs, hb.bnd, findBoundary_short pp c.B l.ioff _ _ hshort hne]
    rw [act_main_again pp l _ _ hrn hms]
    simp only [again_zero pp l hio, hb.fault]
    refine ⟨by simp, hb, ?_, hio, rfl, fun _ => ?_, by simp⟩
    · exact .main _ (Or.inl ⟨hrn, hX⟩) (.bnd0 pre hs he hm rfl hpre)
    · exact Or.inr ⟨hrn, Or.inl ⟨Or.inl hs, by rw [hb.bnd]; exact hshort⟩⟩
  · -- garbage before the first delimiter: skip to the next possible `-`
    have hP : 0 < pre.length := List.length_pos_iff.mpr hpz
    have hnm : slice pp.buf 0 2 ≠ sDashDash ∨ slice pp.buf 2 (2 + c.B.length) ≠ c.B := by
      by_cases h1 : slice pp.buf 0 2 = sDashDash
      · by_cases h2 : slice pp.buf 2 (2 + c.B.length) = c.B
        · exfalso
          apply hpre 0 hP
          rw [← hX, Nat.zero_add, slice_app _ _ _ _ (by omega), slice_split pp.buf 0 2 _ (by omega) (by omega), h1, h2]
        · exact Or.inr h2
      · exact Or.inl h1
    have hRP : (pp.buf ++ pend)[pre.length]? = some cDash := by
      rw [hX]; simp [sDashDash]
    obtain ⟨s, hs1, hs2, hs3, hms⟩ : ∃ s, 1 ≤ s ∧ s ≤ pp.buf.length ∧ s ≤ pre.length ∧
        mainSwitch pp l = (pp, { l with ioff := l.ioff + s }, .again) := by
      have hfb : ∀ s, findBoundary pp c.B l.ioff .processEntryHeaders .done = (pp, l.ioff + s, false) →
          mainSwitch pp l = (pp, { l with ioff := l.ioff + s }, .again) := by
        intro s hfbs
        simp only [mainSwitch, hs, hb.bnd, hfbs]
      cases hf : findByte cDash pp.buf with
      | none =>
        refine ⟨pp.buf.length, by omega, Nat.le_refl _, ?_, hfb _ (by simp [findBoundary, hshort, hnm, hs, hf])⟩
        by_cases hle : pp.buf.length ≤ pre.length
        · exact hle
        · exfalso
          have := findByte_none hf pre.length
          rw [List.getElem?_append_left (by omega)] at hRP
          exact this hRP
      | some k =>
        have hlt := findByte_lt _ _ _ hf
        cases k with
        | zero => exact ⟨1, Nat.le_refl _, by omega, hP, hfb _ (by simp [findBoundary, hshort, hnm, hs, hf])⟩
        | succ k =>
          refine ⟨k + 1, by omega, by omega, ?_, hfb _ (by simp [findBoundary, hshort, hnm, hs, hf])⟩
          by_cases hle : k + 1 ≤ pre.length
          · exact hle
          · exfalso
            have := (findByte_some hf).2 pre.length (by omega)
            rw [List.getElem?_append_left (by omega)] at hRP
            exact this hRP
    rw [act_main_again pp l _ _ hrn hms]
    rw [again_pos _ _ (by show 0 < l.ioff + s; omega) (by show l.ioff + s ≤ pp.buf.length; omega)]
    refine ActOk.of_again ?_ ?_
    · exact hb.fault
    refine ⟨by simp, ⟨hb.size, hb.bnd, hb.xbuf, hb.fault⟩, ?_, rfl, rfl, fun h => ?_, by simp⟩
    · show MInv c _ (pp.buf.drop (l.ioff + s) ++ pend)
      have hX' : pp.buf.drop (l.ioff + s) ++ pend = pre.drop s ++ (sDashDash ++ c.B ++ afterB c.B c.items) := by
        have := congrArg (List.drop s) hX
        rw [List.drop_append_of_le_length hs2, List.drop_append_of_le_length hs3] at this
        rw [hio, Nat.zero_add]; exact this
      refine .main _ (Or.inl ⟨hrn, hX'⟩) (.bnd0 (pre.drop s) hs he hm rfl ?_)
      intro k hk
      rw [slice_drop pre _ s k _ hs3]
      simp only [List.length_drop] at hk
      have := hpre (s + k) (by omega)
      rwa [show s + (k + (2 + c.B.length)) = s + k + (2 + c.B.length) by omega]
    · rcases h with h | h <;> simp at h

theorem lineEnd_noCRLF : ∀ (l : Bytes), (∀ c ∈ l, c ≠ cCR ∧ c ≠ cLF) → lineEnd l = l.length
  | [], _ => rfl
  | x :: t, h => by
    have hx := h x (by simp)
    have := lineEnd_noCRLF t (fun c hc => h c (by simp [hc]))
    simp [lineEnd, hx.1, hx.2, this]

theorem lineEnd_app : ∀ (ln more : Bytes), (∀ c ∈ ln, c ≠ cCR ∧ c ≠ cLF) → lineEnd (ln ++ cCR :: more) = ln.length
  | [], more, _ => by simp [lineEnd]
  | x :: t, more, h => by
    have hx := h x (by simp)
    have := lineEnd_app t more (fun c hc => h c (by simp [hc]))
    simp [lineEnd, hx.1, hx.2, this]

theorem pmh_wait (pp : PP) (ioff : Nat) (next : St) (h : lineEnd pp.buf = pp.buf.length)
    (h2 : pp.buf.length ≠ pp.bufferSize) : processMultipartHeaders pp ioff next = (pp, ioff, false) := by
  simp [processMultipartHeaders, h, h2]

theorem pmh_empty (pp : PP) (ioff : Nat) (next : St) (more : Bytes) (h : pp.buf = cCR :: more)
    (h2 : 0 ≠ pp.bufferSize) :
    processMultipartHeaders pp ioff next = ({ pp with skipRn := .full, state := next }, ioff, true) := by
  have : lineEnd pp.buf = 0 := by rw [h]; simp [lineEnd]
  have h3 : ¬ (0 = pp.buf.length) := by rw [h]; simp
  unfold processMultipartHeaders
  simp only [this, h2, h3, if_false, if_true]

theorem pmh_line (pp : PP) (ioff : Nat) (next : St) (ln more : Bytes) (hne : ln ≠ [])
    (hcl : ∀ c ∈ ln, c ≠ cCR ∧ c ≠ cLF) (hfit : ln.length < pp.bufferSize) (hb : pp.buf = ln ++ cCR :: more) :
    processMultipartHeaders pp ioff next =
      ({ pp with skipRn := .optN, cname := (hdrM pp.metaOf ln).key, cfile := (hdrM pp.metaOf ln).filename,
                 ctype := (hdrM pp.metaOf ln).ctype, cenc := (hdrM pp.metaOf ln).enc,
                 buf := pp.buf.set ln.length 0 }, ioff + ln.length + 1, true) := by
  have h1 : lineEnd pp.buf = ln.length := by rw [hb]; exact lineEnd_app ln more hcl
  have h2 : ¬ ln.length = pp.bufferSize := by omega
  have h3 : ¬ ln.length = pp.buf.length := by rw [hb]; simp
  have h4 : ¬ ln.length = 0 := by
    intro h; exact hne (List.length_eq_zero_iff.mp h)
  have h5 : pp.buf[ln.length]? = some cCR := by rw [hb]; simp
  have h6 : pp.buf.take ln.length = ln := by rw [hb]; simp
  unfold processMultipartHeaders
  simp only [h1, h2, h3, h4, h5, if_false, if_true, h6]
  by_cases hd : eqCaselessN hdrDisposition (cstr ln) hdrDisposition.length = true
  · simp [hdrM, hd, PP.metaOf]
  · simp [hdrM, hd, PP.metaOf]

theorem hdr_step (c : Cfg) (hc : CfgOk c) (pp : PP) (l : ML) (pend : Bytes) (hb : MBase c pp)
    (hrn : pp.skipRn = .inactive) (done : List Item) (it : Item) (rest : List Item) (lines : List Bytes)
    (hsp : c.items = done ++ it :: rest) (hd : Delivers pp.evs (flat done))
    (hs : (pp.state = .processEntryHeaders ∧ lines.foldl hdrM pp.metaOf = it.md) ∨
          (pp.state = .performCleanup ∧ lines = it.lines))
    (hl : ∀ ln ∈ lines, LineOk c.size ln)
    (hX : pp.buf ++ pend = linesEnc lines ++ (cCR :: cLF :: itemBody c.B it rest))
    (hne : pp.buf ≠ []) (hio : l.ioff = 0) : ActOk c pend pp l (act pp l) := by
  have hpo := (hc.items it (by rw [hsp]; simp)).lines_ok
  have hsz0 : 0 ≠ pp.bufferSize := by rw [hb.size]; have := hc.bs; omega
  rcases hs with ⟨hs, hfold⟩ | ⟨hs, hlines⟩
  · -- PP_ProcessEntryHeaders
    have hms : mainSwitch pp l =
        flowHeaders (processMultipartHeaders { pp with mustIkvi := true } l.ioff .performCheckMultipart) l := by
      simp only [mainSwitch, hs]
    cases lines with
    | nil =>
      simp only [linesEnc, List.nil_append] at hX
      obtain ⟨b', hbuf⟩ : ∃ b', pp.buf = cCR :: b' := by
        cases hpb : pp.buf with
        | nil => exact absurd hpb hne
        | cons a t => rw [hpb] at hX; simp only [List.cons_append, List.cons.injEq] at hX; exact ⟨t, by rw [hX.1]⟩
      rw [pmh_empty { pp with mustIkvi := true } l.ioff _ b' hbuf hsz0] at hms
      simp only [flowHeaders, if_true] at hms
      rw [act_main_again pp l _ _ hrn hms, again_zero _ { l with stateChanged := true } hio]
      simp only [hb.fault]
      refine ⟨by simp, ⟨hb.size, hb.bnd, hb.xbuf, by first | rfl | exact hb.fault⟩, ?_, hio, rfl, fun h => ?_, by simp⟩
      · exact .main _ (Or.inr (Or.inr ⟨Or.inl rfl, hX⟩)) (.chk done it rest hsp hd rfl (by show pp.metaOf = it.md; simpa using hfold) rfl rfl)
      · rcases h with h | h <;> simp at h
    | cons ln lrest =>
      have hlo := hl ln (by simp)
      simp only [linesEnc, List.append_assoc, List.cons_append] at hX
      have hcase : (∃ as, ln = pp.buf ++ as) ∨
          (∃ b'', pp.buf = ln ++ cCR :: b'' ∧
            b'' ++ pend = cLF :: (linesEnc lrest ++ (cCR :: cLF :: itemBody c.B it rest))) := by
        rcases List.append_eq_append_iff.mp hX with ⟨as, h1, _⟩ | ⟨bs, h1, h2⟩
        · exact Or.inl ⟨as, h1⟩
        · cases bs with
          | nil => exact Or.inl ⟨[], by simpa using h1.symm⟩
          | cons b0 b'' =>
            simp only [List.cons_append, List.cons.injEq] at h2
            exact Or.inr ⟨b'', by rw [h1, ← h2.1], h2.2.symm⟩
      rcases hcase with ⟨as, has⟩ | ⟨b'', hbuf, hrest⟩
      · -- the line is not complete yet
        have hle : lineEnd pp.buf = pp.buf.length :=
          lineEnd_noCRLF _ (fun x hx => hlo.2.1 x (by rw [has]; simp [hx]))
        have hlen : pp.buf.length ≠ pp.bufferSize := by
          have := congrArg List.length has
          simp only [List.length_append] at this
          have := hlo.2.2; rw [hb.size]; omega
        rw [pmh_wait { pp with mustIkvi := true } l.ioff _ hle hlen] at hms
        simp only [flowHeaders, hs] at hms
        rw [act_main_end pp l _ _ hrn (by simpa using hms)]
        refine ⟨by simp, ⟨hb.size, hb.bnd, hb.xbuf, by first | rfl | exact hb.fault⟩, ?_, hio, rfl, fun _ => ?_, fun _ => rfl⟩
        · refine .main _ (Or.inl ⟨hrn, ?_⟩) (.hdr done it rest (ln :: lrest) hsp hd (Or.inl ⟨by first | rfl | exact hs, hfold⟩) hl rfl)
          simpa [linesEnc] using hX
        · exact Or.inr ⟨hrn, Or.inr (Or.inl ⟨Or.inl (by first | rfl | exact hs), hle⟩)⟩
      · -- a complete header line
        rw [pmh_line { pp with mustIkvi := true } l.ioff _ ln b'' hlo.1 hlo.2.1 (by rw [hb.size]; exact hlo.2.2) hbuf] at hms
        simp only [flowHeaders, if_true] at hms
        rw [act_main_again pp l _ _ hrn hms]
        have hlen : pp.buf.length = ln.length + 1 + b''.length := by rw [hbuf]; simp; omega
        rw [again_pos _ _ (by simp) (by simp [hio, hlen])]
        have hdrop : (pp.buf.set ln.length 0).drop (l.ioff + ln.length + 1) = b'' := by
          rw [hio, List.drop_set_of_lt (by omega), hbuf]
          have : 0 + ln.length + 1 = (ln ++ [cCR]).length := by simp
          rw [this, show ln ++ cCR :: b'' = (ln ++ [cCR]) ++ b'' by simp, List.drop_left]
        simp only [hdrop, hb.fault]
        refine ⟨by simp, ⟨hb.size, hb.bnd, hb.xbuf, by first | rfl | exact hb.fault⟩, ?_, rfl, rfl, fun h => ?_, by simp⟩
        · show MInv c _ (b'' ++ pend)
          rw [hrest]
          refine .main _ (Or.inr (Or.inl ⟨rfl, rfl⟩)) (.hdr done it rest lrest hsp hd (Or.inl ⟨by first | rfl | exact hs, ?_⟩)
            (fun x hx => hl x (by simp [hx])) (by simp))
          simpa [PP.metaOf] using hfold
        · rcases h with h | h <;> simp at h
  · -- PP_PerformCleanup
    have hms : mainSwitch pp l =
        ({ freeUnmarked pp.clearHave with nested := none, state := .processEntryHeaders },
          { l with stateChanged := true }, .again) := by
      simp only [mainSwitch, hs]
    rw [act_main_again pp l _ _ hrn hms, again_zero _ { l with stateChanged := true } hio]
    have hf : (freeUnmarked pp.clearHave).fault = none := by simp [freeUnmarked, PP.clearHave, hb.fault]
    simp only [hf]
    refine ⟨by simp, ⟨hb.size, hb.bnd, hb.xbuf, by first | rfl | exact hf⟩, ?_, hio, rfl, fun h => ?_, by simp⟩
    · refine .main _ (Or.inl ⟨hrn, hX⟩) (.hdr done it rest lines hsp hd (Or.inl ⟨rfl, ?_⟩) hl rfl)
      have hmeta : (freeUnmarked pp.clearHave).metaOf = ⟨none, none, none, none⟩ := by
        simp [freeUnmarked, PP.clearHave, PP.metaOf]
      show List.foldl hdrM (freeUnmarked pp.clearHave).metaOf lines = it.md
      rw [hmeta, hlines]; exact hpo.2
    · rcases h with h | h <;> simp at h

theorem hdrM_key_some {m : Meta} {ln k : Bytes} (h : m.key = some k) : (hdrM m ln).key = some k := by
  unfold hdrM
  simp only
  split
  · simp [tryGetValue, h]
  · exact h

theorem nhdr_step (c : Cfg) (hc : CfgOk c) (pp : PP) (l : ML) (pend : Bytes) (hb : MBase c pp)
    (hrn : pp.skipRn = .inactive) (done : List Item) (ls : List Bytes) (name ct nb : Bytes) (inner : List RPart)
    (rest : List Item) (idone : List RPart) (q : RPart) (qs : List RPart) (lines : List Bytes)
    (hsp : c.items = done ++ .mixed ls name ct nb inner :: rest) (hin : inner = idone ++ q :: qs)
    (hd : Delivers pp.evs (flat done ++ idone.map rfield)) (hn : pp.nested = some nb)
    (hs : (pp.state = .nestedPerformMarking ∧ pp.metaOf = ⟨some name, none, none, none⟩ ∧ lines = q.lines) ∨
          (pp.state = .nestedPerformCleanup ∧ Marks pp name ∧ lines = q.lines) ∨
          (pp.state = .nestedProcessEntryHeaders ∧ Marks pp name ∧ lines.foldl hdrM pp.metaOf = q.md))
    (hl : ∀ ln ∈ lines, LineOk c.size ln)
    (hX : pp.buf ++ pend = linesEnc lines ++ (cCR :: cLF :: (q.value ++ sCRLFDashDash ++ (nb ++ afterN nb (sDashDash ++ c.B ++ afterB c.B rest) qs))))
    (hne : pp.buf ≠ []) (hio : l.ioff = 0) : ActOk c pend pp l (act pp l) := by
  have hq : RPartOk c.size ⟨some name, none, none, none⟩ nb q := by
    have hok := hc.items (Item.mixed ls name ct nb inner) (by rw [hsp]; simp)
    cases hok with
    | mixed _ _ _ _ _ _ _ _ _ _ _ hin' => exact hin' q (by rw [hin]; simp)
  have hsz0 : 0 ≠ pp.bufferSize := by rw [hb.size]; have := hc.bs; omega
  rcases hs with ⟨hs, hmeta, hlines⟩ | ⟨hs, hmk, hlines⟩ | ⟨hs, hmk, hfold⟩
  · -- PP_Nested_PerformMarking
    have h1 : pp.cname = some name := congrArg Meta.key hmeta
    have h2 : pp.cfile = none := congrArg Meta.filename hmeta
    have h3 : pp.ctype = none := congrArg Meta.ctype hmeta
    have h4 : pp.cenc = none := congrArg Meta.enc hmeta
    have hms : mainSwitch pp l =
        ({ pp with haveName := true, haveType := false, haveFile := false, haveEnc := false,
                   state := .nestedProcessEntryHeaders }, { l with stateChanged := true }, .again) := by
      simp only [mainSwitch, hs, h1, h2, h3, h4]
      rfl
    rw [act_main_again pp l _ _ hrn hms, again_zero _ { l with stateChanged := true } hio]
    simp only [hb.fault]
    refine ⟨by simp, ⟨hb.size, hb.bnd, hb.xbuf, by first | rfl | exact hb.fault⟩, ?_, hio, rfl, fun h => ?_, by simp⟩
    · refine .main _ (Or.inl ⟨hrn, hX⟩) (.nhdr done ls name ct nb inner rest idone q qs lines hsp hin hd hn
        (Or.inr (Or.inr ⟨rfl, ⟨rfl, rfl, rfl, rfl, h1⟩, ?_⟩)) hl rfl)
      show List.foldl hdrM pp.metaOf lines = q.md
      rw [hmeta, hlines]; exact hq.hdr
    · rcases h with h | h <;> simp at h
  · -- PP_Nested_PerformCleanup
    obtain ⟨m1, m2, m3, m4, m5⟩ := hmk
    have hms : mainSwitch pp l =
        ({ freeUnmarked pp with state := .nestedProcessEntryHeaders }, { l with stateChanged := true }, .again) := by
      simp only [mainSwitch, hs]
    rw [act_main_again pp l _ _ hrn hms, again_zero _ { l with stateChanged := true } hio]
    have hf : (freeUnmarked pp).fault = none := by simp [freeUnmarked, hb.fault]
    simp only [hf]
    refine ⟨by simp, ⟨hb.size, hb.bnd, hb.xbuf, by first | rfl | exact hf⟩, ?_, hio, rfl, fun h => ?_, by simp⟩
    · have hmeta : (freeUnmarked pp).metaOf = ⟨some name, none, none, none⟩ := by
        simp [freeUnmarked, PP.metaOf, m1, m2, m3, m4, m5]
      refine .main _ (Or.inl ⟨hrn, hX⟩) (.nhdr done ls name ct nb inner rest idone q qs lines hsp hin hd hn
        (Or.inr (Or.inr ⟨rfl, ⟨m1, m2, m3, m4, congrArg Meta.key hmeta⟩, ?_⟩)) hl rfl)
      show List.foldl hdrM (freeUnmarked pp).metaOf lines = q.md
      rw [hmeta, hlines]; exact hq.hdr
    · rcases h with h | h <;> simp at h
  · -- PP_Nested_ProcessEntryHeaders
    have hms : mainSwitch pp l =
        flowHeaders (processMultipartHeaders { pp with valueOffset := 0, mustIkvi := true } l.ioff .nestedProcessValueToBoundary) l := by
      simp only [mainSwitch, hs]
    generalize htl : (q.value ++ sCRLFDashDash ++ (nb ++ afterN nb (sDashDash ++ c.B ++ afterB c.B rest) qs)) = TLv at hX
    cases lines with
    | nil =>
      simp only [linesEnc, List.nil_append] at hX
      subst htl
      obtain ⟨b', hbuf⟩ : ∃ b', pp.buf = cCR :: b' := by
        cases hpb : pp.buf with
        | nil => exact absurd hpb hne
        | cons a t => rw [hpb] at hX; simp only [List.cons_append, List.cons.injEq] at hX; exact ⟨t, by rw [hX.1]⟩
      rw [pmh_empty { pp with valueOffset := 0, mustIkvi := true } l.ioff _ b' hbuf hsz0] at hms
      simp only [flowHeaders, if_true] at hms
      rw [act_main_again pp l _ _ hrn hms, again_zero _ { l with stateChanged := true } hio]
      simp only [hb.fault]
      refine ⟨by simp, ⟨hb.size, hb.bnd, hb.xbuf, by first | rfl | exact hb.fault⟩, ?_, hio, rfl, fun h => ?_, by simp⟩
      · exact .main _ (Or.inr (Or.inr ⟨Or.inl rfl, hX⟩)) (.nval done ls name ct nb inner rest idone q qs 0 pp.evs [] hsp hin hd (by simp) (by simp [Pieces]) (Or.inr rfl) rfl hn hmk (by show pp.metaOf = q.md; simpa using hfold) rfl (Nat.zero_le _) (by simp))
      · rcases h with h | h <;> simp at h
    | cons ln lrest =>
      have hlo := hl ln (by simp)
      simp only [linesEnc, List.append_assoc, List.cons_append] at hX
      have hcase : (∃ as, ln = pp.buf ++ as) ∨
          (∃ b'', pp.buf = ln ++ cCR :: b'' ∧
            b'' ++ pend = cLF :: (linesEnc lrest ++ (cCR :: cLF :: TLv))) := by
        rcases List.append_eq_append_iff.mp hX with ⟨as, h1, _⟩ | ⟨bs, h1, h2⟩
        · exact Or.inl ⟨as, h1⟩
        · cases bs with
          | nil => exact Or.inl ⟨[], by simpa using h1.symm⟩
          | cons b0 b'' =>
            simp only [List.cons_append, List.cons.injEq] at h2
            exact Or.inr ⟨b'', by rw [h1, ← h2.1], h2.2.symm⟩
      rcases hcase with ⟨as, has⟩ | ⟨b'', hbuf, hrest⟩
      · -- the line is not complete yet
        subst htl
        have hle : lineEnd pp.buf = pp.buf.length :=
          lineEnd_noCRLF _ (fun x hx => hlo.2.1 x (by rw [has]; simp [hx]))
        have hlen : pp.buf.length ≠ pp.bufferSize := by
          have := congrArg List.length has
          simp only [List.length_append] at this
          have := hlo.2.2; rw [hb.size]; omega
        rw [pmh_wait { pp with valueOffset := 0, mustIkvi := true } l.ioff _ hle hlen] at hms
        simp only [flowHeaders, hs] at hms
        rw [act_main_end pp l _ _ hrn (by simpa using hms)]
        refine ⟨by simp, ⟨hb.size, hb.bnd, hb.xbuf, by first | rfl | exact hb.fault⟩, ?_, hio, rfl, fun _ => ?_, fun _ => rfl⟩
        · refine .main _ (Or.inl ⟨hrn, ?_⟩) (.nhdr done ls name ct nb inner rest idone q qs (ln :: lrest) hsp hin hd hn (Or.inr (Or.inr ⟨by first | rfl | exact hs, hmk, hfold⟩)) hl rfl)
          simpa [linesEnc] using hX
        · exact Or.inr ⟨hrn, Or.inr (Or.inl ⟨Or.inr (by first | rfl | exact hs), hle⟩)⟩
      · -- a complete header line
        subst htl
        rw [pmh_line { pp with valueOffset := 0, mustIkvi := true } l.ioff _ ln b'' hlo.1 hlo.2.1 (by rw [hb.size]; exact hlo.2.2) hbuf] at hms
        simp only [flowHeaders, if_true] at hms
        rw [act_main_again pp l _ _ hrn hms]
        have hlen : pp.buf.length = ln.length + 1 + b''.length := by rw [hbuf]; simp; omega
        rw [again_pos _ _ (by simp) (by simp [hio, hlen])]
        have hdrop : (pp.buf.set ln.length 0).drop (l.ioff + ln.length + 1) = b'' := by
          rw [hio, List.drop_set_of_lt (by omega), hbuf]
          have : 0 + ln.length + 1 = (ln ++ [cCR]).length := by simp
          rw [this, show ln ++ cCR :: b'' = (ln ++ [cCR]) ++ b'' by simp, List.drop_left]
        simp only [hdrop, hb.fault]
        refine ⟨by simp, ⟨hb.size, hb.bnd, hb.xbuf, by first | rfl | exact hb.fault⟩, ?_, rfl, rfl, fun h => ?_, by simp⟩
        · show MInv c _ (b'' ++ pend)
          rw [hrest]
          refine .main _ (Or.inr (Or.inl ⟨rfl, rfl⟩)) (.nhdr done ls name ct nb inner rest idone q qs lrest hsp hin hd hn (Or.inr (Or.inr ⟨by first | rfl | exact hs, ?_, ?_⟩))
            (fun x hx => hl x (by simp [hx])) (by simp))
          · exact ⟨hmk.1, hmk.2.1, hmk.2.2.1, hmk.2.2.2.1, hdrM_key_some (show pp.metaOf.key = some name from hmk.2.2.2.2)⟩
          · simpa [PP.metaOf] using hfold
        · rcases h with h | h <;> simp at h

theorem chk_step (c : Cfg) (hc : CfgOk c) (pp : PP) (l : ML) (pend : Bytes) (hb : MBase c pp)
    (hrn : pp.skipRn = .inactive) (done : List Item) (it : Item) (rest : List Item)
    (hsp : c.items = done ++ it :: rest) (hd : Delivers pp.evs (flat done))
    (hs : pp.state = .performCheckMultipart) (hm : pp.metaOf = it.md) (hi : pp.mustIkvi = true)
    (hX : pp.buf ++ pend = itemBody c.B it rest)
    (hio : l.ioff = 0) : ActOk c pend pp l (act pp l) := by
  have hpo := hc.items it (by rw [hsp]; simp)
  have hct : pp.ctype = it.md.ctype := congrArg Meta.ctype hm
  cases hpo with
  | field p hp nm =>
    have hms : mainSwitch pp l =
        ({ pp with state := .processValueToBoundary, valueOffset := 0 }, { l with stateChanged := true }, .again) := by
      simp only [mainSwitch, hs, performCheckMultipart]
      cases hc2 : pp.ctype with
      | none => rfl
      | some ct =>
        have := nm ct (hct.symm.trans hc2)
        simp [this]
    rw [act_main_again pp l _ _ hrn hms, again_zero _ { l with stateChanged := true } hio]
    simp only [hb.fault]
    refine ⟨by simp, ⟨hb.size, hb.bnd, hb.xbuf, by first | rfl | exact hb.fault⟩, ?_, hio, rfl, fun h => ?_, by simp⟩
    · refine .main _ (Or.inl ⟨hrn, hX⟩) (.val done p rest 0 pp.evs [] hsp hd (by simp) (by simp [Pieces])
        (Or.inr hi) rfl hm rfl (Nat.zero_le _) (by simp [itemBody]))
    · rcases h with h | h <;> simp at h
  | mixed ls name ct nb inner hl hh hmx hbd n1 ns hin =>
    have hct' : pp.ctype = some ct := hct
    obtain ⟨r, hr1, hr2⟩ : ∃ r, strstr sBoundaryEq ct = some r ∧ r.drop sBoundaryEq.length = nb := by
      cases hst : strstr sBoundaryEq ct with
      | none => rw [hst] at hbd; cases hbd
      | some r => rw [hst] at hbd; exact ⟨r, rfl, by simpa using hbd⟩
    have hms : mainSwitch pp l =
        ({ pp with nested := some nb, ctype := none, state := .nestedInit }, { l with stateChanged := true }, .again) := by
      simp only [mainSwitch, hs, performCheckMultipart, hct', hmx, if_true, hr1, hr2]
    rw [act_main_again pp l _ _ hrn hms, again_zero _ { l with stateChanged := true } hio]
    simp only [hb.fault]
    refine ⟨by simp, ⟨hb.size, hb.bnd, hb.xbuf, by first | rfl | exact hb.fault⟩, ?_, hio, rfl, fun h => ?_, by simp⟩
    · refine .main _ (Or.inl ⟨hrn, hX⟩) (.ninit done ls name ct nb inner rest hsp hd rfl rfl ?_ rfl)
      have h1 : pp.cname = some name := congrArg Meta.key hm
      have h2 : pp.cfile = none := congrArg Meta.filename hm
      have h3 : pp.cenc = none := congrArg Meta.enc hm
      show (⟨pp.cname, pp.cfile, none, pp.cenc⟩ : Meta) = _
      rw [h1, h2, h3]
    · rcases h with h | h <;> simp at h

/-- the event that `process_value_to_boundary` hands to the iterator -/
def valEv (q : PP) (nl : Nat) : Event :=
  { key := q.cname, filename := q.cfile, ctype := q.ctype, enc := q.cenc, off := q.valueOffset, data := q.buf.take nl }

/-- the state after the iterator call of `process_value_to_boundary` for `buf[0 .. nl)` -/
def partPP (pp : PP) (nl : Nat) : PP :=
  { pp with evs := pp.evs ++ (if pp.mustIkvi = true ∨ nl ≠ 0 then [valEv pp nl] else []), mustIkvi := false, valueOffset := pp.valueOffset + nl }

theorem pvtbDeliver_eq (q : PP) (ioff nl : Nat) (h : nl ≤ q.buf.length) :
    pvtbDeliver q ioff nl = (partPP q nl, ioff + nl, true) := by
  have : ¬ nl > q.buf.length := by omega
  unfold pvtbDeliver partPP
  simp only [this, if_false]
  by_cases hc : q.mustIkvi = true ∨ nl ≠ 0
  · simp only [hc, if_true, emitMulti, valEv]
  · simp only [hc, if_false, List.append_nil]

theorem flowValue_true (r : PP × Nat × Bool) (l : ML) (h : r.2.2 = true) :
    flowValue r l = (r.1, { l with ioff := r.2.1 }, .again) := by
  simp [flowValue, h]

theorem again_fst (pp : PP) (l : ML) (h : l.ioff ≤ pp.buf.length) :
    (again pp l).1 = { pp with buf := pp.buf.drop l.ioff } := by
  by_cases h0 : 0 < l.ioff
  · rw [again_pos pp l h0 h]
  · have : l.ioff = 0 := by omega
    rw [again_zero pp l this, this]; rfl

theorem again_snd (pp : PP) (l : ML) (h : l.ioff ≤ pp.buf.length) :
    (again pp l).2.ioff = 0 ∧ (again pp l).2.poff = l.poff ∧ ((again pp l).2.stateChanged = false → l.ioff = 0) := by
  by_cases h0 : 0 < l.ioff
  · rw [again_pos pp l h0 h]; simp
  · have : l.ioff = 0 := by omega
    rw [again_zero pp l this]; exact ⟨this, rfl, fun _ => this⟩

theorem pieces_extend {m : Meta} {v : Bytes} {off nl : Nat} {cur : List Event} (ev : Event)
    (hp : Pieces m 0 (v.take off) cur) (hle : off ≤ v.length) (hm : ev.meta = m) (ho : ev.off = off)
    (hd : ev.data = (v.drop off).take nl) : Pieces m 0 (v.take (off + nl)) (cur ++ [ev]) := by
  rw [List.take_add]
  apply Pieces.append hp
  refine ⟨hm, by rw [ho]; simp; omega, [], by simp [hd], rfl⟩

theorem val_book {m : Meta} {v : Bytes} {off nl : Nat} {cur : List Event} (ev : Event) (mi : Bool)
    (hp : Pieces m 0 (v.take off) cur) (hi : cur ≠ [] ∨ mi = true) (hle : off ≤ v.length)
    (hm : ev.meta = m) (ho : ev.off = off) (hd : ev.data = (v.drop off).take nl) :
    Pieces m 0 (v.take (off + nl)) (cur ++ (if mi = true ∨ nl ≠ 0 then [ev] else [])) ∧
      cur ++ (if mi = true ∨ nl ≠ 0 then [ev] else []) ≠ [] := by
  by_cases hc : mi = true ∨ nl ≠ 0
  · simp only [hc, if_true]
    exact ⟨pieces_extend ev hp hle hm ho hd, by simp⟩
  · simp only [hc, if_false, List.append_nil]
    have h0 : nl = 0 := by
      by_cases h : nl = 0
      · exact h
      · exact absurd (Or.inr h) hc
    have hmi : ¬ mi = true := fun h => hc (Or.inl h)
    subst h0
    refine ⟨by simpa using hp, ?_⟩
    rcases hi with h | h
    · exact h
    · exact absurd h hmi

/-- the state in which `process_value_to_boundary` calls the iterator when it found the boundary at `W` -/
def foundPP (pp : PP) (W : Nat) : PP :=
  { pp with skipRn := .dash, state := .performCleanup, dashState := .done, buf := pp.buf.set W 0 }

theorem val_step (c : Cfg) (hc : CfgOk c) (pp : PP) (l : ML) (pend : Bytes) (hb : MBase c pp)
    (hrn : pp.skipRn = .inactive) (done : List Item) (p : RPart) (rest : List Item) (off : Nat)
    (evs0 cur : List Event) (hsp : c.items = done ++ .field p :: rest) (hd : Delivers evs0 (flat done))
    (he : pp.evs = evs0 ++ cur) (hp : Pieces (p.md) 0 (p.value.take off) cur)
    (hi : cur ≠ [] ∨ pp.mustIkvi = true) (hs : pp.state = .processValueToBoundary)
    (hm : pp.metaOf = p.md) (ho : pp.valueOffset = off) (hle : off ≤ p.value.length)
    (hX : pp.buf ++ pend = p.value.drop off ++ sCRLFDashDash ++ (c.B ++ afterB c.B rest))
    (hio : l.ioff = 0) : ActOk c pend pp l (act pp l) := by
  have hocc : FreshFor c.B p.value := by
    have := hc.items (.field p) (by rw [hsp]; simp)
    cases this with
    | field _ h _ => exact h.fresh
  have hfr : ∀ k, k < (p.value.drop off).length →
      slice (pp.buf ++ pend) k (k + 4 + c.B.length) ≠ sCRLFDashDash ++ c.B := by
    intro k hk; rw [hX]; exact fresh_drop c.B p.value _ off k hocc hle hk
  have hwl : (p.value.drop off).length = p.value.length - off := by simp
  have hfull : p.value.take (off + (p.value.drop off).length) = p.value := by
    rw [List.take_of_length_le]; omega
  have hR : ∀ nl, nl ≤ (p.value.drop off).length → (p.value.drop off).drop nl = p.value.drop (off + nl) := by
    intro nl _; rw [List.drop_drop]
  generalize hw : p.value.drop off = w at *
  obtain ⟨sf, sp⟩ := scanBoundary_fresh c.B w (afterB c.B rest) pp.buf pend c.size hc.b1 hX hfr
    (by have := hc.bs; omega) 0 (Nat.zero_le _) (Nat.zero_le _)
  have hms : mainSwitch pp l = flowValue (processValueToBoundary pp l.ioff c.B .performCleanup .done) l := by
    simp only [mainSwitch, hs, hb.bnd]
  have htake : ∀ nl, nl ≤ w.length → nl ≤ pp.buf.length →
      pp.buf.take nl = w.take nl := by
    intro nl h1 h2
    have := congrArg (List.take nl) hX
    rwa [List.take_append_of_le_length h2, List.append_assoc, List.take_append_of_le_length h1] at this
  by_cases hcomp : w.length + 4 + c.B.length ≤ pp.buf.length
  · -- the boundary is completely inside the window
    have hfound := sf hcomp
    obtain ⟨b2, hbuf, htl⟩ : ∃ b2, pp.buf = (w ++ sCRLFDashDash ++ c.B) ++ b2 ∧
        afterB c.B rest = b2 ++ pend := by
      have hX' : pp.buf ++ pend = (w ++ sCRLFDashDash ++ c.B) ++ afterB c.B rest := by
        rw [hX]; simp
      rcases List.append_eq_append_iff.mp hX' with ⟨a', h1, h2⟩ | ⟨c', h1, h2⟩
      · have hl := congrArg List.length h1
        simp only [List.length_append, sCRLFDashDash, List.length_cons, List.length_nil] at hl
        have : a' = [] := List.length_eq_zero_iff.mp (by omega)
        subst this
        exact ⟨[], by simpa using h1.symm, by simpa using h2.symm⟩
      · exact ⟨c', h1, h2⟩
    have hW : w.length ≤ (foundPP pp w.length).buf.length := by
      show w.length ≤ (pp.buf.set w.length 0).length
      simp; omega
    have hpv : processValueToBoundary pp l.ioff c.B .performCleanup .done =
        pvtbDeliver (foundPP pp w.length)
          (l.ioff + c.B.length + 4) w.length := by
      simp only [processValueToBoundary, hb.size, hfound, foundPP]
    have hms2 : mainSwitch pp l = (partPP (foundPP pp w.length) w.length,
        { l with ioff := l.ioff + c.B.length + 4 + w.length }, .again) := by
      rw [hms, hpv, pvtbDeliver_eq _ _ _ hW, flowValue_true _ _ rfl]
    rw [act_main_again pp l _ _ hrn hms2]
    have hlen : pp.buf.length = w.length + 4 + c.B.length + b2.length := by
      rw [hbuf]; simp [sCRLFDashDash]; omega
    rw [again_pos _ _ (by show 0 < l.ioff + c.B.length + 4 + w.length; omega)
      (by show l.ioff + c.B.length + 4 + w.length ≤ (pp.buf.set w.length 0).length; simp; omega)]
    have hdrop : (pp.buf.set w.length 0).drop (l.ioff + c.B.length + 4 + w.length) ++ pend = afterB c.B rest := by
      rw [hio, List.drop_set_of_lt (by omega), hbuf]
      have : 0 + c.B.length + 4 + w.length = (w ++ sCRLFDashDash ++ c.B).length := by simp [sCRLFDashDash]; omega
      rw [this, List.drop_left, htl]
    refine ActOk.of_again ?_ ?_
    · exact hb.fault
    have hdata : (valEv (foundPP pp w.length) w.length).data = (p.value.drop off).take w.length := by
      show (pp.buf.set w.length 0).take w.length = _
      rw [List.take_set_of_le (Nat.le_refl _), hw]
      exact htake _ (Nat.le_refl _) (by omega)
    obtain ⟨k1, k2⟩ := val_book (valEv (foundPP pp w.length) w.length) pp.mustIkvi hp hi hle hm ho hdata
    rw [hfull] at k1
    have hdel := Delivers.snoc hd k2 k1
    have hdel' : Delivers (pp.evs ++ (if pp.mustIkvi = true ∨ w.length ≠ 0 then
        [valEv (foundPP pp w.length) w.length] else [])) (flat (done ++ [Item.field p])) := by
      rw [he, List.append_assoc]
      simpa [flat_append, flat, rfield] using hdel
    refine ⟨by simp, ⟨hb.size, hb.bnd, hb.xbuf, hb.fault⟩, ?_, rfl, rfl, fun h => ?_, by simp⟩
    · show MInv c _ ((pp.buf.set w.length 0).drop (l.ioff + c.B.length + 4 + w.length) ++ pend)
      rw [hdrop]
      cases hr : rest with
      | nil =>
        refine .fin0 ?_ rfl rfl rfl
        rw [hsp, hr]
        exact hdel'
      | cons it' rest' =>
        have hpo' := (hc.items it' (by rw [hsp, hr]; simp)).lines_ok
        rw [afterB_cons]
        exact .main _ (Or.inr (Or.inr ⟨Or.inr rfl, rfl⟩))
          (.hdr (done ++ [Item.field p]) it' rest' it'.lines (by rw [hsp, hr]; simp) hdel' (Or.inr ⟨rfl, rfl⟩) hpo'.1 rfl)
    · rcases h with h | h <;> simp at h
  · -- only a part of the value can be released
    obtain ⟨nl, hpart, _, hnl1, hnl2⟩ := sp hcomp
    have hpv : processValueToBoundary pp l.ioff c.B .performCleanup .done = pvtbDeliver pp l.ioff nl := by
      simp only [processValueToBoundary, hb.size, hpart]
    rw [hpv, pvtbDeliver_eq _ _ _ hnl2, flowValue_true _ _ rfl] at hms
    rw [act_main_again pp l _ _ hrn hms]
    have hio2 : ({ l with ioff := l.ioff + nl } : ML).ioff ≤ pp.buf.length := by simp [hio]; exact hnl2
    obtain ⟨g1, g2, g3⟩ := again_snd (partPP pp nl) { l with ioff := l.ioff + nl } hio2
    have g0 := again_fst (partPP pp nl) { l with ioff := l.ioff + nl } hio2
    have hdata : (valEv pp nl).data = (p.value.drop off).take nl := by rw [hw]; exact htake nl hnl1 hnl2
    obtain ⟨k1, k2⟩ := val_book (valEv pp nl) pp.mustIkvi hp hi hle hm ho hdata
    have hf : (again (partPP pp nl) { l with ioff := l.ioff + nl }).1.fault = none := by
      rw [g0]; exact hb.fault
    simp only [hf]
    refine ⟨by simp, ?_, ?_, g1, g2, fun h => ?_, by simp⟩
    · rw [g0]; exact ⟨hb.size, hb.bnd, hb.xbuf, hb.fault⟩
    · rw [g0]
      show MInv c _ (pp.buf.drop (l.ioff + nl) ++ pend)
      have hR : pp.buf.drop (l.ioff + nl) ++ pend =
          p.value.drop (off + nl) ++ sCRLFDashDash ++ (c.B ++ afterB c.B rest) := by
        have := congrArg (List.drop nl) hX
        rw [List.drop_append_of_le_length hnl2, List.append_assoc, List.drop_append_of_le_length hnl1,
          hR nl hnl1] at this
        rw [hio, Nat.zero_add, this]; simp
      refine .main _ (Or.inl ⟨hrn, hR⟩) (.val done p rest (off + nl) evs0 _ hsp hd ?_ k1 (Or.inl k2) hs hm
        (by show pp.valueOffset + nl = off + nl; rw [ho]) (by omega) rfl)
      show pp.evs ++ _ = _
      rw [he]; simp
    · have hz : l.ioff + nl = 0 := by
        rcases h with h | h
        · simp at h
        · exact g3 h
      have hnz : nl = 0 := by omega
      rw [g0]
      refine Or.inr ⟨hrn, Or.inr (Or.inr (Or.inl ⟨hs, ?_⟩))⟩
      show scanBoundary (pp.buf.drop (l.ioff + nl)) pp.boundary pp.bufferSize 0 = _
      rw [hz, hb.bnd, hb.size, List.drop_zero, hpart, hnz]

/-- the same inside a nested container -/
def foundPPn (pp : PP) (W : Nat) : PP :=
  { pp with skipRn := .dash, state := .nestedPerformCleanup, dashState := .nextBoundary, buf := pp.buf.set W 0 }

theorem nval_step (c : Cfg) (hc : CfgOk c) (pp : PP) (l : ML) (pend : Bytes) (hb : MBase c pp)
    (hrn : pp.skipRn = .inactive) (done : List Item) (ls : List Bytes) (name ct nb : Bytes) (inner : List RPart) (rest : List Item)
    (idone : List RPart) (p : RPart) (qs : List RPart) (off : Nat)
    (evs0 cur : List Event) (hsp : c.items = done ++ .mixed ls name ct nb inner :: rest) (hin : inner = idone ++ p :: qs)
    (hd : Delivers evs0 (flat done ++ idone.map rfield)) (hn : pp.nested = some nb) (hmk : Marks pp name)
    (he : pp.evs = evs0 ++ cur) (hp : Pieces (p.md) 0 (p.value.take off) cur)
    (hi : cur ≠ [] ∨ pp.mustIkvi = true) (hs : pp.state = .nestedProcessValueToBoundary)
    (hm : pp.metaOf = p.md) (ho : pp.valueOffset = off) (hle : off ≤ p.value.length)
    (hX : pp.buf ++ pend = p.value.drop off ++ sCRLFDashDash ++ (nb ++ afterN nb (sDashDash ++ c.B ++ afterB c.B rest) qs))
    (hio : l.ioff = 0) : ActOk c pend pp l (act pp l) := by
  obtain ⟨n1, ns, hqs⟩ : 1 ≤ nb.length ∧ nb.length + 4 < c.size ∧
      ∀ q ∈ inner, RPartOk c.size ⟨some name, none, none, none⟩ nb q := by
    have hok := hc.items (Item.mixed ls name ct nb inner) (by rw [hsp]; simp)
    cases hok with
    | mixed _ _ _ _ _ _ _ _ _ n1 ns hin' => exact ⟨n1, ns, hin'⟩
  have hocc : FreshFor nb p.value := (hqs p (by rw [hin]; simp)).fresh
  have hfr : ∀ k, k < (p.value.drop off).length →
      slice (pp.buf ++ pend) k (k + 4 + nb.length) ≠ sCRLFDashDash ++ nb := by
    intro k hk; rw [hX]; exact fresh_drop nb p.value _ off k hocc hle hk
  have hwl : (p.value.drop off).length = p.value.length - off := by simp
  have hfull : p.value.take (off + (p.value.drop off).length) = p.value := by
    rw [List.take_of_length_le]; omega
  have hR : ∀ nl, nl ≤ (p.value.drop off).length → (p.value.drop off).drop nl = p.value.drop (off + nl) := by
    intro nl _; rw [List.drop_drop]
  generalize hw : p.value.drop off = w at *
  obtain ⟨sf, sp⟩ := scanBoundary_fresh nb w ((afterN nb (sDashDash ++ c.B ++ afterB c.B rest) qs)) pp.buf pend c.size n1 hX hfr
    (by omega) 0 (Nat.zero_le _) (Nat.zero_le _)
  have hms : mainSwitch pp l = flowValue (processValueToBoundary pp l.ioff nb .nestedPerformCleanup .nextBoundary) l := by
    simp only [mainSwitch, hs, hn]
  have htake : ∀ nl, nl ≤ w.length → nl ≤ pp.buf.length →
      pp.buf.take nl = w.take nl := by
    intro nl h1 h2
    have := congrArg (List.take nl) hX
    rwa [List.take_append_of_le_length h2, List.append_assoc, List.take_append_of_le_length h1] at this
  by_cases hcomp : w.length + 4 + nb.length ≤ pp.buf.length
  · -- the boundary is completely inside the window
    have hfound := sf hcomp
    obtain ⟨b2, hbuf, htl⟩ : ∃ b2, pp.buf = (w ++ sCRLFDashDash ++ nb) ++ b2 ∧
        (afterN nb (sDashDash ++ c.B ++ afterB c.B rest) qs) = b2 ++ pend := by
      have hX' : pp.buf ++ pend = (w ++ sCRLFDashDash ++ nb) ++ (afterN nb (sDashDash ++ c.B ++ afterB c.B rest) qs) := by
        rw [hX]; simp
      rcases List.append_eq_append_iff.mp hX' with ⟨a', h1, h2⟩ | ⟨c', h1, h2⟩
      · have hl := congrArg List.length h1
        simp only [List.length_append, sCRLFDashDash, List.length_cons, List.length_nil] at hl
        have : a' = [] := List.length_eq_zero_iff.mp (by omega)
        subst this
        exact ⟨[], by simpa using h1.symm, by simpa using h2.symm⟩
      · exact ⟨c', h1, h2⟩
    have hW : w.length ≤ (foundPPn pp w.length).buf.length := by
      show w.length ≤ (pp.buf.set w.length 0).length
      simp; omega
    have hpv : processValueToBoundary pp l.ioff nb .nestedPerformCleanup .nextBoundary =
        pvtbDeliver (foundPPn pp w.length)
          (l.ioff + nb.length + 4) w.length := by
      simp only [processValueToBoundary, hb.size, hfound, foundPPn]
    have hms2 : mainSwitch pp l = (partPP (foundPPn pp w.length) w.length,
        { l with ioff := l.ioff + nb.length + 4 + w.length }, .again) := by
      rw [hms, hpv, pvtbDeliver_eq _ _ _ hW, flowValue_true _ _ rfl]
    rw [act_main_again pp l _ _ hrn hms2]
    have hlen : pp.buf.length = w.length + 4 + nb.length + b2.length := by
      rw [hbuf]; simp [sCRLFDashDash]; omega
    rw [again_pos _ _ (by show 0 < l.ioff + nb.length + 4 + w.length; omega)
      (by show l.ioff + nb.length + 4 + w.length ≤ (pp.buf.set w.length 0).length; simp; omega)]
    have hdrop : (pp.buf.set w.length 0).drop (l.ioff + nb.length + 4 + w.length) ++ pend = (afterN nb (sDashDash ++ c.B ++ afterB c.B rest) qs) := by
      rw [hio, List.drop_set_of_lt (by omega), hbuf]
      have : 0 + nb.length + 4 + w.length = (w ++ sCRLFDashDash ++ nb).length := by simp [sCRLFDashDash]; omega
      rw [this, List.drop_left, htl]
    refine ActOk.of_again ?_ ?_
    · exact hb.fault
    have hdata : (valEv (foundPPn pp w.length) w.length).data = (p.value.drop off).take w.length := by
      show (pp.buf.set w.length 0).take w.length = _
      rw [List.take_set_of_le (Nat.le_refl _), hw]
      exact htake _ (Nat.le_refl _) (by omega)
    obtain ⟨k1, k2⟩ := val_book (valEv (foundPPn pp w.length) w.length) pp.mustIkvi hp hi hle hm ho hdata
    rw [hfull] at k1
    have hdel := Delivers.snoc hd k2 k1
    have hdel' : Delivers (pp.evs ++ (if pp.mustIkvi = true ∨ w.length ≠ 0 then
        [valEv (foundPPn pp w.length) w.length] else [])) (flat done ++ (idone ++ [p]).map rfield) := by
      rw [he, List.append_assoc]
      simpa [rfield] using hdel
    refine ⟨by simp, ⟨hb.size, hb.bnd, hb.xbuf, hb.fault⟩, ?_, rfl, rfl, fun h => ?_, by simp⟩
    · show MInv c _ ((pp.buf.set w.length 0).drop (l.ioff + nb.length + 4 + w.length) ++ pend)
      rw [hdrop]
      cases hr : qs with
      | nil =>
        refine .nfin0 (done ++ [Item.mixed ls name ct nb inner]) rest (by rw [hsp]; simp) ?_ rfl rfl rfl
        have : flat (done ++ [Item.mixed ls name ct nb inner]) = flat done ++ (idone ++ [p]).map rfield := by
          simp [flat_append, flat, hin, hr]
        rw [this]
        exact hdel'
      | cons q' qs' =>
        have hq' := hqs q' (by rw [hin, hr]; simp)
        exact .main _ (Or.inr (Or.inr ⟨Or.inr rfl, rfl⟩))
          (.nhdr done ls name ct nb inner rest (idone ++ [p]) q' qs' q'.lines hsp (by rw [hin, hr]; simp) hdel' hn
            (Or.inr (Or.inl ⟨rfl, hmk, rfl⟩)) hq'.lines rfl)
    · rcases h with h | h <;> simp at h
  · -- only a part of the value can be released
    obtain ⟨nl, hpart, _, hnl1, hnl2⟩ := sp hcomp
    have hpv : processValueToBoundary pp l.ioff nb .nestedPerformCleanup .nextBoundary = pvtbDeliver pp l.ioff nl := by
      simp only [processValueToBoundary, hb.size, hpart]
    rw [hpv, pvtbDeliver_eq _ _ _ hnl2, flowValue_true _ _ rfl] at hms
    rw [act_main_again pp l _ _ hrn hms]
    have hio2 : ({ l with ioff := l.ioff + nl } : ML).ioff ≤ pp.buf.length := by simp [hio]; exact hnl2
    obtain ⟨g1, g2, g3⟩ := again_snd (partPP pp nl) { l with ioff := l.ioff + nl } hio2
    have g0 := again_fst (partPP pp nl) { l with ioff := l.ioff + nl } hio2
    have hdata : (valEv pp nl).data = (p.value.drop off).take nl := by rw [hw]; exact htake nl hnl1 hnl2
    obtain ⟨k1, k2⟩ := val_book (valEv pp nl) pp.mustIkvi hp hi hle hm ho hdata
    have hf : (again (partPP pp nl) { l with ioff := l.ioff + nl }).1.fault = none := by
      rw [g0]; exact hb.fault
    simp only [hf]
    refine ⟨by simp, ?_, ?_, g1, g2, fun h => ?_, by simp⟩
    · rw [g0]; exact ⟨hb.size, hb.bnd, hb.xbuf, hb.fault⟩
    · rw [g0]
      show MInv c _ (pp.buf.drop (l.ioff + nl) ++ pend)
      have hR : pp.buf.drop (l.ioff + nl) ++ pend =
          p.value.drop (off + nl) ++ sCRLFDashDash ++ (nb ++ afterN nb (sDashDash ++ c.B ++ afterB c.B rest) qs) := by
        have := congrArg (List.drop nl) hX
        rw [List.drop_append_of_le_length hnl2, List.append_assoc, List.drop_append_of_le_length hnl1,
          hR nl hnl1] at this
        rw [hio, Nat.zero_add, this]; simp
      refine .main _ (Or.inl ⟨hrn, hR⟩) (.nval done ls name ct nb inner rest idone p qs (off + nl) evs0 _ hsp hin hd ?_ k1 (Or.inl k2) hs hn hmk hm
        (by show pp.valueOffset + nl = off + nl; rw [ho]) (by omega) rfl)
      show pp.evs ++ _ = _
      rw [he]; simp
    · have hz : l.ioff + nl = 0 := by
        rcases h with h | h
        · simp at h
        · exact g3 h
      have hnz : nl = 0 := by omega
      rw [g0]
      refine Or.inr ⟨hrn, Or.inr (Or.inr (Or.inr (Or.inr ⟨hs, nb, hn, ?_⟩)))⟩
      show scanBoundary (pp.buf.drop (l.ioff + nl)) nb pp.bufferSize 0 = _
      rw [hz, hb.size, List.drop_zero, hpart, hnz]

theorem rnok_inactive {rn : RN} {R X : Bytes} (h : RnOk rn R X) (hrn : rn = .inactive) : R = X := by
  rcases h with ⟨_, h⟩ | ⟨h, _⟩ | ⟨h, _⟩
  · exact h
  · rw [hrn] at h; cases h
  · rw [hrn] at h; rcases h with h | h <;> cases h


/-- `PP_NextBoundary` / `PP_Nested_Init`: wait for the delimiter line, then consume `"--" ++ Bd` -/
theorem bnd_flow (c : Cfg) (pp : PP) (l : ML) (pend Bd tl : Bytes) (next nd : St) (hb : MBase c pp)
    (hrn : pp.skipRn = .inactive) (hbs : Bd.length + 4 < c.size) (hst : pp.state ≠ .error)
    (hms : mainSwitch pp l = flowFound (findBoundary pp Bd l.ioff next nd) l)
    (hX : pp.buf ++ pend = sDashDash ++ Bd ++ tl) (hio : l.ioff = 0) :
    (pp.buf.length < 2 + Bd.length ∧ act pp l = (pp, l, .gotoEnd)) ∨
    (∃ a', a' ++ pend = tl ∧ act pp l = ({ pp with skipRn := .dash, state := next, dashState := nd, buf := a' },
      { l with ioff := 0, stateChanged := true }, .again)) := by
  by_cases hshort : pp.buf.length < 2 + Bd.length
  · left
    have hne : pp.buf.length ≠ pp.bufferSize := by rw [hb.size]; omega
    rw [findBoundary_short pp Bd l.ioff _ _ hshort hne] at hms
    simp only [flowFound, Bool.false_eq_true, if_false, hst] at hms
    exact ⟨hshort, act_main_end pp l _ _ hrn hms⟩
  · right
    obtain ⟨a', ha, hp⟩ : ∃ a', pp.buf = sDashDash ++ Bd ++ a' ∧ tl = a' ++ pend := by
      rcases List.append_eq_append_iff.mp hX with ⟨a', h1, h2⟩ | ⟨c', h1, h2⟩
      · have hl := congrArg List.length h1
        simp only [List.length_append, sDashDash, List.length_cons, List.length_nil] at hl
        have : a' = [] := List.length_eq_zero_iff.mp (by omega)
        subst this
        exact ⟨[], by simpa using h1.symm, by simpa using h2.symm⟩
      · exact ⟨c', h1, h2⟩
    refine ⟨a', hp.symm, ?_⟩
    rw [findBoundary_hit pp Bd l.ioff _ _ a' ha] at hms
    simp only [flowFound, if_true] at hms
    rw [act_main_again pp l _ _ hrn hms]
    have hlen : pp.buf.length = 2 + Bd.length + a'.length := by rw [ha]; simp [sDashDash]; omega
    rw [again_pos _ _ (by simp; omega) (by simp [hio, hlen])]
    have hdrop : pp.buf.drop (l.ioff + 2 + Bd.length) = a' := by
      rw [hio, ha]
      have : 0 + 2 + Bd.length = (sDashDash ++ Bd).length := by simp [sDashDash]; omega
      rw [this, List.drop_left]
    simp only [hdrop, hb.fault]
    rfl

theorem ninit_step (c : Cfg) (hc : CfgOk c) (pp : PP) (l : ML) (pend : Bytes) (hb : MBase c pp)
    (hrn : pp.skipRn = .inactive) (done : List Item) (ls : List Bytes) (name ct nb : Bytes) (inner : List RPart)
    (rest : List Item) (hsp : c.items = done ++ .mixed ls name ct nb inner :: rest) (hd : Delivers pp.evs (flat done))
    (hs : pp.state = .nestedInit) (hn : pp.nested = some nb) (hm : pp.metaOf = ⟨some name, none, none, none⟩)
    (hX : pp.buf ++ pend = sDashDash ++ nb ++ afterN nb (sDashDash ++ c.B ++ afterB c.B rest) inner)
    (hio : l.ioff = 0) : ActOk c pend pp l (act pp l) := by
  obtain ⟨ns, hin⟩ : nb.length + 4 < c.size ∧ ∀ q ∈ inner, RPartOk c.size ⟨some name, none, none, none⟩ nb q := by
    have hok := hc.items (Item.mixed ls name ct nb inner) (by rw [hsp]; simp)
    cases hok with
    | mixed _ _ _ _ _ hl hh hmx hbd n1 ns hin => exact ⟨ns, hin⟩
  have hms : mainSwitch pp l = flowFound (findBoundary pp nb l.ioff .nestedPerformMarking .nextBoundary) l := by
    simp only [mainSwitch, hs, hn]
  rcases bnd_flow c pp l pend nb _ _ _ hb hrn ns (by rw [hs]; simp) hms hX hio with ⟨hshort, hact⟩ | ⟨a', ha, hact⟩
  · rw [hact]
    refine ⟨by simp, hb, ?_, hio, rfl, fun _ => ?_, fun _ => rfl⟩
    · exact .main _ (Or.inl ⟨hrn, hX⟩) (.ninit done ls name ct nb inner rest hsp hd hs hn hm rfl)
    · exact Or.inr ⟨hrn, Or.inr (Or.inr (Or.inr (Or.inl ⟨hs, nb, hn, hshort⟩)))⟩
  · rw [hact]
    refine ⟨by simp, ⟨hb.size, hb.bnd, hb.xbuf, hb.fault⟩, ?_, rfl, rfl, fun h => ?_, by simp⟩
    · show MInv c _ (a' ++ pend)
      rw [ha]
      cases hi : inner with
      | nil =>
        refine .nfin0 (done ++ [Item.mixed ls name ct nb []]) rest (by rw [hsp, hi]; simp) ?_ rfl rfl rfl
        show Delivers pp.evs _
        simpa [flat_append, flat] using hd
      | cons q qs =>
        have hq := hin q (by rw [hi]; simp)
        refine .main _ (Or.inr (Or.inr ⟨Or.inr rfl, rfl⟩))
          (.nhdr done ls name ct nb inner rest [] q qs q.lines hsp hi ?_ hn (Or.inl ⟨rfl, hm, rfl⟩) hq.lines rfl)
        show Delivers pp.evs _
        simpa using hd
    · rcases h with h | h <;> simp at h

theorem nnext_step (c : Cfg) (hc : CfgOk c) (pp : PP) (l : ML) (pend : Bytes) (hb : MBase c pp)
    (hrn : pp.skipRn = .inactive) (done rest : List Item) (hsp : c.items = done ++ rest)
    (hd : Delivers pp.evs (flat done)) (hs : pp.state = .nextBoundary)
    (hX : pp.buf ++ pend = sDashDash ++ c.B ++ afterB c.B rest)
    (hio : l.ioff = 0) : ActOk c pend pp l (act pp l) := by
  have hms : mainSwitch pp l = flowFound (findBoundary pp c.B l.ioff .performCleanup .done) l := by
    simp only [mainSwitch, hs, hb.bnd]
  rcases bnd_flow c pp l pend c.B _ _ _ hb hrn hc.bs (by rw [hs]; simp) hms hX hio with ⟨hshort, hact⟩ | ⟨a', ha, hact⟩
  · rw [hact]
    refine ⟨by simp, hb, ?_, hio, rfl, fun _ => ?_, fun _ => rfl⟩
    · exact .main _ (Or.inl ⟨hrn, hX⟩) (.nnext done rest hsp hd hs rfl)
    · exact Or.inr ⟨hrn, Or.inl ⟨Or.inr hs, by rw [hb.bnd]; exact hshort⟩⟩
  · rw [hact]
    refine ⟨by simp, ⟨hb.size, hb.bnd, hb.xbuf, hb.fault⟩, ?_, rfl, rfl, fun h => ?_, by simp⟩
    · show MInv c _ (a' ++ pend)
      rw [ha]
      cases hr : rest with
      | nil => exact .fin0 (by rw [hsp, hr, List.append_nil]; exact hd) rfl rfl rfl
      | cons it' rest' =>
        have hpo' := (hc.items it' (by rw [hsp, hr]; simp)).lines_ok
        rw [afterB_cons]
        exact .main _ (Or.inr (Or.inr ⟨Or.inr rfl, rfl⟩))
          (.hdr done it' rest' it'.lines (by rw [hsp, hr]) hd (Or.inr ⟨rfl, rfl⟩) hpo'.1 rfl)
    · rcases h with h | h <;> simp at h

/-- one pass through the `skip_rn` machine, the main switch and `AGAIN:` on a window that is a
    non-empty prefix of the rest of a well-formed stream: the invariant holds again (no error, no
    `return`), and if nothing was consumed and no state changed, the window was too short -/
theorem act_spec (c : Cfg) (hc : CfgOk c) (pp : PP) (l : ML) (pend : Bytes) (hb : MBase c pp)
    (hI : MInv c pp (pp.buf ++ pend)) (hne : pp.buf ≠ []) (hio : l.ioff = 0) :
    ActOk c pend pp l (act pp l) := by
  have rn_case : ∀ X, RnOk pp.skipRn (pp.buf ++ pend) X → pp.skipRn ≠ .inactive →
      ∃ k rn', act pp l = ({ pp with skipRn := rn', buf := pp.buf.drop k }, { l with ioff := 0, stateChanged := true }, .again) ∧
        RnOk rn' (pp.buf.drop k ++ pend) X := by
    intro X hr hrn
    obtain ⟨k, rn', _, _, h3, h4⟩ := rn_step pp l pend X hr hrn hne hio hb.fault
    exact ⟨k, rn', h3, h4⟩
  obtain ⟨c0, b', hbuf⟩ : ∃ c0 b', pp.buf = c0 :: b' := by
    cases h : pp.buf with
    | nil => exact absurd h hne
    | cons a t => exact ⟨a, t, rfl⟩
  cases hI with
  | main X hr hm =>
    by_cases hrn : pp.skipRn = .inactive
    · have hX := rnok_inactive hr hrn
      cases hm with
      | bnd0 pre hs he hm hX2 hpre => exact bnd0_step c hc pp l pend hb hrn pre hs he hm (hX.trans hX2) hpre hio
      | hdr done p rest lines hsp hd hs hl hX2 =>
        exact hdr_step c hc pp l pend hb hrn done p rest lines hsp hd hs hl (hX.trans hX2) hne hio
      | chk done p rest hsp hd hs hm hi hX2 =>
        exact chk_step c hc pp l pend hb hrn done p rest hsp hd hs hm hi (hX.trans hX2) hio
      | ninit done ls name ct nb inner rest hsp hd hs hn hm hX2 =>
        exact ninit_step c hc pp l pend hb hrn done ls name ct nb inner rest hsp hd hs hn hm (hX.trans hX2) hio
      | nhdr done ls name ct nb inner rest idone q qs lines hsp hin hd hn hs hl hX2 =>
        exact nhdr_step c hc pp l pend hb hrn done ls name ct nb inner rest idone q qs lines hsp hin hd hn hs hl (hX.trans hX2) hne hio
      | nval done ls name ct nb inner rest idone q qs off evs0 cur hsp hin hd he hp hi hs hn hmk hm ho hle hX2 =>
        exact nval_step c hc pp l pend hb hrn done ls name ct nb inner rest idone q qs off evs0 cur hsp hin hd hn hmk he hp hi hs hm ho hle (hX.trans hX2) hio
      | nnext done rest hsp hd hs hX2 => exact nnext_step c hc pp l pend hb hrn done rest hsp hd hs (hX.trans hX2) hio
      | val done p rest off evs0 cur hsp hd he hp hi hs hm ho hle hX2 =>
        exact val_step c hc pp l pend hb hrn done p rest off evs0 cur hsp hd he hp hi hs hm ho hle (hX.trans hX2) hio
    · obtain ⟨k, rn', h3, h4⟩ := rn_case X hr hrn
      rw [h3]
      refine ⟨by simp, ⟨hb.size, hb.bnd, hb.xbuf, hb.fault⟩, ?_, rfl, rfl, fun h => ?_, by simp⟩
      · exact .main X h4 (hm.congr ⟨rfl, rfl, rfl, rfl, rfl, rfl, rfl, rfl, rfl, rfl, rfl⟩)
      · rcases h with h | h <;> simp at h
  | fin0 hd hr hds hR =>
    rw [hbuf] at hR
    simp only [List.cons_append, List.cons.injEq] at hR
    obtain ⟨rfl, hR⟩ := hR
    have hact : act pp l = ({ pp with skipRn := .dash2, buf := b' }, { l with ioff := 0, stateChanged := true }, .again) := by
      simp [act, rnMachine, hr, rnDash, hbuf, again, hb.fault, hio]
    rw [hact]
    refine ⟨by simp, ⟨hb.size, hb.bnd, hb.xbuf, hb.fault⟩, ?_, rfl, rfl, fun h => ?_, by simp⟩
    · exact .fin1 hd rfl hds hR
    · rcases h with h | h <;> simp at h
  | fin1 hd hr hds hR =>
    rw [hbuf] at hR
    simp only [List.cons_append, List.cons.injEq] at hR
    obtain ⟨rfl, hR⟩ := hR
    have hact : act pp l = ({ pp with skipRn := .full, state := pp.dashState, buf := b' },
        { l with ioff := 0, stateChanged := true }, .again) := by
      simp [act, rnMachine, hr, rnDash2, hbuf, again, hb.fault, hio]
    rw [hact]
    refine ⟨by simp, ⟨hb.size, hb.bnd, hb.xbuf, hb.fault⟩, ?_, rfl, rfl, fun h => ?_, by simp⟩
    · exact .fin2 hd hds (Or.inr (Or.inr ⟨Or.inl rfl, hR⟩))
    · rcases h with h | h <;> simp at h
  | nfin0 done rest hsp hd hr hds hR =>
    rw [hbuf] at hR
    simp only [List.cons_append, List.cons.injEq] at hR
    obtain ⟨rfl, hR⟩ := hR
    have hact : act pp l = ({ pp with skipRn := .dash2, buf := b' }, { l with ioff := 0, stateChanged := true }, .again) := by
      simp [act, rnMachine, hr, rnDash, hbuf, again, hb.fault, hio]
    rw [hact]
    refine ⟨by simp, ⟨hb.size, hb.bnd, hb.xbuf, hb.fault⟩, ?_, rfl, rfl, fun h => ?_, by simp⟩
    · exact .nfin1 done rest hsp hd rfl hds hR
    · rcases h with h | h <;> simp at h
  | nfin1 done rest hsp hd hr hds hR =>
    rw [hbuf] at hR
    simp only [List.cons_append, List.cons.injEq] at hR
    obtain ⟨rfl, hR⟩ := hR
    have hact : act pp l = ({ pp with skipRn := .full, state := pp.dashState, buf := b' },
        { l with ioff := 0, stateChanged := true }, .again) := by
      simp [act, rnMachine, hr, rnDash2, hbuf, again, hb.fault, hio]
    rw [hact]
    refine ⟨by simp, ⟨hb.size, hb.bnd, hb.xbuf, hb.fault⟩, ?_, rfl, rfl, fun h => ?_, by simp⟩
    · exact .main _ (Or.inr (Or.inr ⟨Or.inl rfl, hR⟩)) (.nnext done rest hsp hd hds rfl)
    · rcases h with h | h <;> simp at h
  | fin2 hd hs hr =>
    by_cases hrn : pp.skipRn = .inactive
    · have hX := rnok_inactive hr hrn
      rw [hbuf] at hX; cases hX
    · obtain ⟨k, rn', h3, h4⟩ := rn_case [] hr hrn
      rw [h3]
      refine ⟨by simp, ⟨hb.size, hb.bnd, hb.xbuf, hb.fault⟩, ?_, rfl, rfl, fun h => ?_, by simp⟩
      · exact .fin2 hd hs h4
      · rcases h with h | h <;> simp at h

end Mhd.PP
