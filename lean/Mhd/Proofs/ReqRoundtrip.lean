/-
  Round trip of the header section (C02 clause b, field lines): the canonical rendering
  `name ": " value CRLF` of any list of well-formed fields, followed by the empty line, is
  parsed into exactly those fields — names, values, order, multiplicity — for every
  combination of strictness flags, and the strings read back from the *final* buffer
  (after in-place NUL termination and after the header tail was re-used) are the bytes sent.

  Proof: symbolic execution lemmas for one loop iteration on each character class
  (`step_nameChar`, `step_colon`, `step_valueWsp`, `step_valueChar`, `step_crlf`,
  `step_emptyLine`), lifted to runs over a name / a value / a line / a list of lines by
  induction, using `Scanner.run_advance`, the invariants of `ReqField` / `ReqStable`, and
  `finishHeaders_below` for the last step.
-/
import Mhd.Proofs.ReqStable
import Mhd.Model.ReqHead
set_option linter.unusedSimpArgs false
namespace Mhd.Req
namespace HSP
open Mhd.Gen

/-- a character that is neither a line end, nor whitespace, nor NUL -/
def plain (c : UInt8) : Prop := c ≠ cCR ∧ c ≠ cLF ∧ c ≠ cSP ∧ c ≠ cHT ∧ c ≠ 0

theorem plain_beq {c : UInt8} (h : plain c) :
    (c == cCR) = false ∧ (c == cLF) = false ∧ (c == cSP) = false ∧ (c == cHT) = false ∧ (c == 0) = false := by
  obtain ⟨h1, h2, h3, h4, h5⟩ := h
  refine ⟨?_, ?_, ?_, ?_, ?_⟩ <;> simp [*]

/-- L1: a name character -/
theorem step_nameChar (F : FLFlags) (fs : Nat) (s : HS) (c : UInt8) (hc : s.buf[s.rb + s.p]? = some c)
    (hp : plain c) (hcol : c ≠ 58) (h1 : s.nameEndFound = false) (h2 : s.startsWithWs = false) (h3 : s.wsStart = 0) :
    hsStep F fs s = .advance { s with p := s.p + 1 } := by
  obtain ⟨b1, b2, b3, b4, b5⟩ := plain_beq hp
  have b6 : (c == 58) = false := by simp [hcol]
  unfold hsStep
  rw [hc]
  simp only [b1, b2, b3, b4, b5, Bool.false_eq_true, ↓reduceIte, Bool.or_self]
  unfold onFieldChar
  simp only [h1, h2, h3, b6, Bool.not_false, Bool.and_self, ↓reduceIte, Bool.false_eq_true, bne_self_eq_false]

/-- L2: the colon after a non-empty name without whitespace -/
theorem step_colon (F : FLFlags) (fs : Nat) (s : HS) (hc : s.buf[s.rb + s.p]? = some 58)
    (h1 : s.nameEndFound = false) (h2 : s.startsWithWs = false) (h3 : s.wsStart = 0) (hp0 : s.p ≠ 0) :
    hsStep F fs s = .advance { s with buf := s.buf.setIfInBounds (s.rb + s.p) 0, nameLen := s.p, nameEndFound := true,
                                      p := s.p + 1 } := by
  have hb := fill_gt hc
  unfold hsStep
  rw [hc]
  have e1 : ((58 : UInt8) == cCR) = false := by decide
  have e2 : ((58 : UInt8) == cLF) = false := by decide
  have e3 : ((58 : UInt8) == cSP) = false := by decide
  have e4 : ((58 : UInt8) == cHT) = false := by decide
  have e5 : ((58 : UInt8) == 0) = false := by decide
  simp only [e1, e2, e3, e4, e5, Bool.false_eq_true, ↓reduceIte, Bool.or_self]
  unfold onFieldChar
  have hz : (s.p == 0) = false := by simp [hp0]
  simp only [h1, h2, h3, Bool.not_false, Bool.and_self, ↓reduceIte, beq_self_eq_true, hz, Bool.false_and,
    Bool.false_eq_true]
  rw [wr_in (by show s.rb + s.p < s.buf.size; exact hb)]

/-- L3: whitespace after the colon / inside the value -/
theorem step_valueWsp (F : FLFlags) (fs : Nat) (s : HS) (c : UInt8) (hc : s.buf[s.rb + s.p]? = some c)
    (hw : c = cSP ∨ c = cHT) (h1 : s.nameEndFound = true) (hp0 : s.p ≠ 0) :
    hsStep F fs s = .advance { s with wsStart := if (s.wsStart == 0) = true then s.p else s.wsStart, p := s.p + 1 } := by
  have b1 : (c == cCR) = false := by cases hw <;> (subst_vars; decide)
  have b2 : (c == cLF) = false := by cases hw <;> (subst_vars; decide)
  have b3 : (c == cSP || c == cHT) = true := by cases hw <;> (subst_vars; decide)
  unfold hsStep
  rw [hc]
  simp only [b1, b2, b3, Bool.false_eq_true, ↓reduceIte]
  unfold onFieldWsp
  have hz : (s.p == 0) = false := by simp [hp0]
  simp only [hz, h1, Bool.false_eq_true, ↓reduceIte, Bool.not_true, Bool.false_and]

/-- L4: a non-whitespace character of the value -/
theorem step_valueChar (F : FLFlags) (fs : Nat) (s : HS) (c : UInt8) (hc : s.buf[s.rb + s.p]? = some c)
    (hp : plain c) (h1 : s.nameEndFound = true) :
    hsStep F fs s = .advance { s with valueStart := if (s.valueStart == 0) = true then s.p else s.valueStart,
                                      wsStart := 0, p := s.p + 1 } := by
  obtain ⟨b1, b2, b3, b4, b5⟩ := plain_beq hp
  unfold hsStep
  rw [hc]
  simp only [b1, b2, b3, b4, b5, Bool.false_eq_true, ↓reduceIte, Bool.or_self]
  unfold onFieldChar
  simp only [h1, Bool.not_true, Bool.false_and, Bool.false_eq_true, ↓reduceIte]


/-- L5: CRLF ending a non-empty line that is not folded -/
theorem step_crlf (F : FLFlags) (fs : Nat) (s : HS) (d : UInt8)
    (hc : s.buf[s.rb + s.p]? = some cCR) (hn : s.buf[s.rb + s.p + 1]? = some cLF)
    (hd : s.buf[s.rb + s.p + 2]? = some d) (hd1 : d ≠ cSP) (hd2 : d ≠ cHT) (hp0 : s.p ≠ 0) :
    hsStep F fs s = onLineEnd F s (s.p + 2) := by
  have hb2 : s.rb + s.p + 2 < s.buf.size := by
    by_cases hlt : s.rb + s.p + 2 < s.buf.size
    · exact hlt
    · rw [Array.getElem?_eq_none (by omega)] at hd; cases hd
  unfold hsStep
  rw [hc]
  have hz : (s.p == 0) = false := by simp [hp0]
  have hz2 : (s.p != 0) = true := by simp [hp0]
  have hf : decide (s.p + 2 ≥ s.fill) = false := by simp [HS.fill]; omega
  simp only [beq_self_eq_true, ↓reduceIte, hz, hz2, hf, Bool.and_false, Bool.false_and, Bool.or_self, Bool.false_eq_true, hn]
  unfold handleFieldEol
  have hd' : s.buf[s.rb + (s.p + 2)]? = some d := by rw [← Nat.add_assoc]; exact hd
  have b1 : (d == cSP || d == cHT) = false := by simp [hd1, hd2]
  simp only [beq_self_eq_true, ↓reduceIte, hz, Bool.false_eq_true, hd', b1]

/-- the real end of a well-formed `name: value` line: the element is appended -/
theorem onLineEnd_valid (F : FLFlags) (s : HS) (lineLen : Nat) (h1 : s.nameEndFound = true) (h2 : s.startsWithWs = false)
    (hv : s.valueStart ≠ 0) (hw : s.wsStart = 0) (hb : s.rb + s.p < s.buf.size) :
    onLineEnd F s lineLen =
      .advance ({ ({ s with buf := s.buf.setIfInBounds (s.rb + s.p) 0 }.consume lineLen).resetLine with
        elems := s.elems ++ [⟨Http.kindHeader, ⟨0, s.rb, s.nameLen⟩,
                              some ⟨0, s.rb + s.valueStart, s.p - s.valueStart⟩⟩] }) := by
  unfold onLineEnd
  have hvz : (s.valueStart == 0) = false := by simp [hv]
  simp only [h1, h2, hw, hvz, Bool.false_eq_true, ↓reduceIte, Bool.not_true, bne_self_eq_false]
  rw [wr_in hb]

/-- ... with an empty value -/
theorem onLineEnd_emptyValue (F : FLFlags) (s : HS) (lineLen : Nat) (h1 : s.nameEndFound = true)
    (h2 : s.startsWithWs = false) (hv : s.valueStart = 0) (hb : s.rb + s.p < s.buf.size) :
    onLineEnd F s lineLen =
      .advance ({ ({ s with buf := s.buf.setIfInBounds (s.rb + s.p) 0 }.consume lineLen).resetLine with
        elems := s.elems ++ [⟨Http.kindHeader, ⟨0, s.rb, s.nameLen⟩, some ⟨0, s.rb + s.p, 0⟩⟩] }) := by
  unfold onLineEnd
  simp only [h1, h2, hv, Bool.false_eq_true, ↓reduceIte, Bool.not_true, beq_self_eq_true]
  rw [wr_in hb]

/-- L6: the empty line (CRLF) ending the header section -/
theorem step_emptyLine (F : FLFlags) (fs : Nat) (s : HS)
    (hc : s.buf[s.rb]? = some cCR) (hn : s.buf[s.rb + 1]? = some cLF) (hp0 : s.p = 0) :
    hsStep F fs s = finishHeaders (s.consume 2) fs := by
  have hb1 : s.rb + 1 < s.buf.size := by
    by_cases hlt : s.rb + 1 < s.buf.size
    · exact hlt
    · rw [Array.getElem?_eq_none (by omega)] at hn; cases hn
  unfold hsStep
  rw [hp0, Nat.add_zero, hc]
  have hf : decide (0 + 2 > s.fill) = false := by simp [HS.fill]; omega
  simp only [beq_self_eq_true, ↓reduceIte, bne_self_eq_false, hf, Bool.and_false, Bool.false_and, Bool.or_self,
    Bool.false_eq_true, hn, Nat.add_zero]
  unfold handleFieldEol
  simp only [hp0, beq_self_eq_true, ↓reduceIte, Nat.zero_add]


/-! ### running over a canonical line -/

theorem run_step (F : FLFlags) (fs : Nat) (s s' : HS) (hi : Good s) (hs : hsStep F fs s = .advance s') :
    (hsScanner F fs).run s = (hsScanner F fs).run s' ∧ Good s' :=
  ⟨Scanner.run_advance (hsLaws F fs) s s' hi.i1 hs,
   ⟨((hsStep_ok F fs s hi.i1).adv s' hs).1, (hsStep_inv2 F fs s hi.i1 hi.i2).1 s' hs⟩⟩

/-- bytes of the buffer at the current position -/
def At (s : HS) (w : List UInt8) : Prop := ∀ i, i < w.length → s.buf[s.rb + s.p + i]? = w[i]?

theorem At.head {s : HS} {c : UInt8} {w : List UInt8} (h : At s (c :: w)) : s.buf[s.rb + s.p]? = some c := by
  have := h 0 (by simp); simpa using this

theorem At.tail {s : HS} {c : UInt8} {w : List UInt8} (h : At s (c :: w)) (s' : HS) (hb : s'.buf = s.buf)
    (hr : s'.rb = s.rb) (hp : s'.p = s.p + 1) : At s' w := by
  intro i hi
  have := h (i + 1) (by simp; omega)
  rw [hb, hr, hp]
  simpa [Nat.add_assoc, Nat.add_comm 1 i] using this

/-- the name: `w` consists of name characters -/
theorem run_name (F : FLFlags) (fs : Nat) (w : List UInt8) :
    ∀ (s : HS), Good s → At s w → (∀ c ∈ w, plain c ∧ c ≠ 58) →
      s.nameEndFound = false → s.startsWithWs = false → s.wsStart = 0 →
      (hsScanner F fs).run s = (hsScanner F fs).run { s with p := s.p + w.length } ∧
        Good { s with p := s.p + w.length } := by
  induction w with
  | nil => intro s hi _ _ _ _ _; exact ⟨rfl, hi⟩
  | cons c w ih =>
    intro s hi hat hw h1 h2 h3
    have hc := (hw c (by simp))
    have st := step_nameChar F fs s c hat.head hc.1 hc.2 h1 h2 h3
    have r1 := run_step F fs s _ hi st
    have := ih { s with p := s.p + 1 } r1.2 (hat.tail _ rfl rfl rfl) (fun c' hc' => hw c' (by simp [hc'])) h1 h2 h3
    have e : s.p + 1 + w.length = s.p + (c :: w).length := by simp only [List.length_cons]; omega
    have this' : (hsScanner F fs).run { s with p := s.p + 1 } = (hsScanner F fs).run { s with p := s.p + 1 + w.length } ∧
        Good { s with p := s.p + 1 + w.length } := this
    rw [e] at this'
    have this := this'
    exact ⟨r1.1.trans this.1, this.2⟩

/-- how the value phase tracks the start of the value and the start of trailing whitespace -/
def vsFold (vs ws p : Nat) : List UInt8 → Nat × Nat
  | [] => (vs, ws)
  | c :: cs =>
    if c = cSP ∨ c = cHT then vsFold vs (if (ws == 0) = true then p else ws) (p + 1) cs
    else vsFold (if (vs == 0) = true then p else vs) 0 (p + 1) cs

/-- the state after the value characters `w` -/
def afterValue (s : HS) (w : List UInt8) : HS :=
  let r := vsFold s.valueStart s.wsStart s.p w
  { s with valueStart := r.fst, wsStart := r.snd, p := s.p + w.length }

/-- the value phase: `w` consists of value characters (anything but CR, LF, NUL) -/
theorem run_value (F : FLFlags) (fs : Nat) (w : List UInt8) :
    ∀ (s : HS), Good s → At s w → (∀ c ∈ w, plain c ∨ c = cSP ∨ c = cHT) →
      s.nameEndFound = true → s.p ≠ 0 →
      (hsScanner F fs).run s = (hsScanner F fs).run (afterValue s w) ∧ Good (afterValue s w) := by
  induction w with
  | nil => intro s hi _ _ _ _; exact ⟨rfl, hi⟩
  | cons c w ih =>
    intro s hi hat hw h1 hp0
    have hc := hw c (by simp)
    by_cases hws : c = cSP ∨ c = cHT
    · have st := step_valueWsp F fs s c hat.head hws h1 hp0
      have r1 := run_step F fs s _ hi st
      have := ih _ r1.2 (hat.tail _ rfl rfl rfl) (fun c' hc' => hw c' (by simp [hc'])) h1 (by show s.p + 1 ≠ 0; omega)
      have e : afterValue { s with wsStart := if (s.wsStart == 0) = true then s.p else s.wsStart, p := s.p + 1 } w
          = afterValue s (c :: w) := by
        simp only [afterValue, vsFold, hws, ↓reduceIte, List.length_cons]
        congr 1; omega
      rw [e] at this
      exact ⟨r1.1.trans this.1, this.2⟩
    · have hpl : plain c := by
        cases hc with
        | inl h => exact h
        | inr h => exact absurd h hws
      have st := step_valueChar F fs s c hat.head hpl h1
      have r1 := run_step F fs s _ hi st
      have := ih _ r1.2 (hat.tail _ rfl rfl rfl) (fun c' hc' => hw c' (by simp [hc'])) h1 (by show s.p + 1 ≠ 0; omega)
      have e : afterValue { s with valueStart := if (s.valueStart == 0) = true then s.p else s.valueStart,
                                   wsStart := 0, p := s.p + 1 } w = afterValue s (c :: w) := by
        simp only [afterValue, vsFold, hws, ↓reduceIte, List.length_cons]
        congr 1; omega
      rw [e] at this
      exact ⟨r1.1.trans this.1, this.2⟩


theorem vsFold_vs (w : List UInt8) : ∀ (vs ws p : Nat), vs ≠ 0 → (vsFold vs ws p w).fst = vs := by
  induction w with
  | nil => intro vs ws p _; rfl
  | cons c w ih =>
    intro vs ws p hv
    simp only [vsFold]
    split
    · exact ih _ _ _ hv
    · have : (vs == 0) = false := by simp [hv]
      simp only [this, Bool.false_eq_true, ↓reduceIte]
      exact ih _ _ _ hv

theorem vsFold_ws (w : List UInt8) : ∀ (vs ws p : Nat) (hne : w ≠ []),
    ¬ (w.getLast hne = cSP ∨ w.getLast hne = cHT) → (vsFold vs ws p w).snd = 0 := by
  induction w with
  | nil => intro _ _ _ hne; exact absurd rfl hne
  | cons c w ih =>
    intro vs ws p hne hl
    cases w with
    | nil =>
      simp only [List.getLast_singleton] at hl
      simp only [vsFold, hl, ↓reduceIte]
    | cons c2 w2 =>
      simp only [vsFold]
      have hl' : ¬ ((c2 :: w2).getLast (by simp) = cSP ∨ (c2 :: w2).getLast (by simp) = cHT) := by
        simpa [List.getLast_cons] using hl
      split
      · exact ih _ _ _ (by simp) hl'
      · exact ih _ _ _ (by simp) hl'

/-- reading a string back from the buffer -/
theorem sliceBytes_eq (buf : Bytes) (off : Nat) (w : List UInt8)
    (h : ∀ i, i < w.length → buf[off + i]? = w[i]?) : sliceBytes buf ⟨0, off, w.length⟩ = w := by
  unfold sliceBytes
  apply List.ext_getElem?
  intro i
  simp only [Array.getElem?_toList, Array.getElem?_extract]
  by_cases hi : i < w.length
  · have hb : off + i < buf.size := by
      by_cases hlt : off + i < buf.size
      · exact hlt
      · have := h i hi
        rw [Array.getElem?_eq_none (by omega), List.getElem?_eq_getElem hi] at this; cases this
    rw [if_pos (by omega)]; exact h i hi
  · rw [if_neg (by omega), List.getElem?_eq_none (by omega)]


/-- the bytes `w` are in the buffer at absolute offset `off` -/
def BufIs (buf : Bytes) (off : Nat) (w : List UInt8) : Prop := ∀ i, i < w.length → buf[off + i]? = w[i]?

theorem BufIs.left {buf : Bytes} {off : Nat} {a b : List UInt8} (h : BufIs buf off (a ++ b)) : BufIs buf off a := by
  intro i hi
  have := h i (by simp; omega)
  rw [this, List.getElem?_append_left hi]

theorem BufIs.right {buf : Bytes} {off : Nat} {a b : List UInt8} (h : BufIs buf off (a ++ b)) :
    BufIs buf (off + a.length) b := by
  intro i hi
  have := h (a.length + i) (by simp; omega)
  rw [Nat.add_assoc, this, List.getElem?_append_right (by omega)]
  congr 1; omega

theorem BufIs.set {buf : Bytes} {off : Nat} {w : List UInt8} (h : BufIs buf off w) (j : Nat) (v : UInt8)
    (hj : j < off ∨ off + w.length ≤ j) : BufIs (buf.setIfInBounds j v) off w := by
  intro i hi
  rw [Array.getElem?_setIfInBounds, if_neg (by omega)]
  exact h i hi

theorem BufIs.at {s : HS} {w : List UInt8} (h : BufIs s.buf (s.rb + s.p) w) : At s w := h

/-- **one canonical field line**.  The parser is at the start of a line; the buffer holds
    `name ": " value CRLF` followed by a byte that does not start a folded continuation.
    Then, whatever the strictness flags, the run continues from a state at the start of the
    next line in which exactly one element has been appended whose name and value, read
    back from the buffer, are `name` and `value`. -/
theorem run_line (F : FLFlags) (fs : Nat) (s : HS) (name value : List UInt8) (d : UInt8)
    (hi : Good s) (hp : s.p = 0) (f1 : s.nameEndFound = false) (f2 : s.startsWithWs = false) (f3 : s.wsStart = 0)
    (f4 : s.valueStart = 0)
    (hn0 : name ≠ []) (hname : ∀ c ∈ name, plain c ∧ c ≠ 58)
    (hval : ∀ c ∈ value, plain c ∨ c = cSP ∨ c = cHT)
    (hfirst : ∀ c, value.head? = some c → plain c)
    (hlast : ∀ hne : value ≠ [], ¬ (value.getLast hne = cSP ∨ value.getLast hne = cHT))
    (hbuf : BufIs s.buf s.rb (name ++ [58, cSP] ++ value ++ [cCR, cLF, d])) (hd1 : d ≠ cSP) (hd2 : d ≠ cHT) :
    ∃ s' : HS, (hsScanner F fs).run s = (hsScanner F fs).run s' ∧ Good s' ∧
      s'.rb = s.rb + (name.length + 2 + value.length + 2) ∧ s'.p = 0 ∧ s'.nameEndFound = false ∧
      s'.startsWithWs = false ∧ s'.wsStart = 0 ∧ s'.valueStart = 0 ∧ s'.buf.size = s.buf.size ∧
      (∀ i, i < s.rb ∨ s'.rb ≤ i → s'.buf[i]? = s.buf[i]?) ∧ s'.version = s.version ∧ s'.method = s.method ∧
      ∃ k v, s'.elems = s.elems ++ [⟨Http.kindHeader, k, some v⟩] ∧ k.region = 0 ∧ v.region = 0 ∧
        sliceBytes s'.buf k = name ∧ sliceBytes s'.buf v = value ∧
        s.rb ≤ k.off ∧ k.off + k.len ≤ s'.rb ∧ s.rb ≤ v.off ∧ v.off + v.len ≤ s'.rb := by
  have n1 : 1 ≤ name.length := by
    cases name with
    | nil => exact absurd rfl hn0
    | cons _ _ => simp
  -- pieces of the buffer
  have hb1 : BufIs s.buf s.rb name := hbuf.left.left.left
  have hb2 : BufIs s.buf (s.rb + name.length) [58, cSP] := hbuf.left.left.right
  have hb3 : BufIs s.buf (s.rb + name.length + 2) value := by
    have := hbuf.left.right; simpa [Nat.add_assoc] using this
  have hb4 : BufIs s.buf (s.rb + name.length + 2 + value.length) [cCR, cLF, d] := by
    have := hbuf.right
    simp only [List.length_append, List.length_cons, List.length_nil] at this
    have e : s.rb + (name.length + (0 + 1 + 1) + value.length) = s.rb + name.length + 2 + value.length := by omega
    rw [e] at this; exact this
  -- 1. the name
  have r1 := run_name F fs name s hi (by intro i hi'; rw [hp, Nat.add_zero]; exact hb1 i hi') hname f1 f2 f3
  -- 2. the colon
  let s1 : HS := { s with p := s.p + name.length }
  have hcol : s1.buf[s1.rb + s1.p]? = some 58 := by
    have := hb2 0 (by simp)
    show s.buf[s.rb + (s.p + name.length)]? = some 58
    rw [hp]; simpa using this
  have st2 := step_colon F fs s1 hcol f1 f2 f3 (by show s.p + name.length ≠ 0; omega)
  have r2 := run_step F fs _ _ r1.2 st2
  -- 3. the space and the value
  let s2 : HS := { s1 with buf := s1.buf.setIfInBounds (s1.rb + s1.p) 0, nameLen := s1.p, nameEndFound := true, p := s1.p + 1 }
  have hat3 : At s2 (cSP :: value) := by
    intro i hi'
    show (s.buf.setIfInBounds (s.rb + (s.p + name.length)) 0)[s.rb + (s.p + name.length + 1) + i]? = _
    rw [Array.getElem?_setIfInBounds, if_neg (by omega), hp]
    cases i with
    | zero => have := hb2 1 (by simp); simpa [Nat.add_assoc] using this
    | succ j =>
      have := hb3 j (by simp at hi'; omega)
      simp only [List.getElem?_cons_succ]
      rw [← this]; congr 1; omega
  have r3 := run_value F fs (cSP :: value) s2 r2.2 hat3
    (by intro c hc; simp at hc; cases hc with
        | inl h => exact Or.inr (Or.inl h)
        | inr h => exact hval c h) rfl (by show s.p + name.length + 1 ≠ 0; omega)
  -- 4. the line end
  have hchain := r1.1.trans (r2.1.trans r3.1)
  generalize hs3 : afterValue s2 (cSP :: value) = s3 at r3 hchain
  have e_buf : s3.buf = s.buf.setIfInBounds (s.rb + name.length) 0 := by
    rw [← hs3]; show s.buf.setIfInBounds (s.rb + (s.p + name.length)) 0 = _; rw [hp, Nat.zero_add]
  have e_rb : s3.rb = s.rb := by rw [← hs3]; rfl
  have e_p : s3.p = name.length + value.length + 2 := by
    rw [← hs3]; show s.p + name.length + 1 + (cSP :: value).length = _; simp only [List.length_cons]; omega
  have e_nl : s3.nameLen = name.length := by rw [← hs3]; show s.p + name.length = _; omega
  have e_nf : s3.nameEndFound = true := by rw [← hs3]; rfl
  have e_sw : s3.startsWithWs = false := by rw [← hs3]; exact f2
  have e_el : s3.elems = s.elems := by rw [← hs3]; rfl
  have e_ver : s3.version = s.version := by rw [← hs3]; rfl
  have e_me : s3.method = s.method := by rw [← hs3]; rfl
  have e_vs : s3.valueStart = (vsFold 0 0 (name.length + 1) (cSP :: value)).fst := by
    rw [← hs3]; show (vsFold s.valueStart s.wsStart (s.p + name.length + 1) (cSP :: value)).fst = _
    rw [f4, f3, hp, Nat.zero_add]
  have e_ws : s3.wsStart = (vsFold 0 0 (name.length + 1) (cSP :: value)).snd := by
    rw [← hs3]; show (vsFold s.valueStart s.wsStart (s.p + name.length + 1) (cSP :: value)).snd = _
    rw [f4, f3, hp, Nat.zero_add]
  have hsz : s3.buf.size = s.buf.size := by rw [e_buf]; simp
  have get3 : ∀ j, j ≠ s.rb + name.length → s3.buf[j]? = s.buf[j]? := by
    intro j hj; rw [e_buf, Array.getElem?_setIfInBounds, if_neg (by omega)]
  have c0 := hb4 0 (by simp); have c1 := hb4 1 (by simp); have c2 := hb4 2 (by simp)
  simp only [List.getElem?_cons_zero, List.getElem?_cons_succ, Nat.add_zero] at c0 c1 c2
  have hcr : s3.buf[s3.rb + s3.p]? = some cCR := by
    rw [e_rb, e_p, get3 _ (by omega), ← c0]; congr 1; omega
  have hlf : s3.buf[s3.rb + s3.p + 1]? = some cLF := by
    rw [e_rb, e_p, get3 _ (by omega), ← c1]; congr 1; omega
  have hdd : s3.buf[s3.rb + s3.p + 2]? = some d := by
    rw [e_rb, e_p, get3 _ (by omega), ← c2]; congr 1; omega
  have st4 := step_crlf F fs s3 d hcr hlf hdd hd1 hd2 (by rw [e_p]; omega)
  have hb3' : s3.rb + s3.p < s3.buf.size := fill_gt hcr
  -- the buffer after the terminating NUL of the value has been written
  have final_buf : ∀ j, j ≠ s.rb + name.length → j ≠ s.rb + (name.length + value.length + 2) →
      (s3.buf.setIfInBounds (s3.rb + s3.p) 0)[j]? = s.buf[j]? := by
    intro j h1 h2
    rw [Array.getElem?_setIfInBounds, if_neg (by rw [e_rb, e_p]; omega)]
    exact get3 j h1
  have key_ok : sliceBytes (s3.buf.setIfInBounds (s3.rb + s3.p) 0) ⟨0, s3.rb, s3.nameLen⟩ = name := by
    have hk : (⟨0, s3.rb, s3.nameLen⟩ : Slice) = ⟨0, s.rb, name.length⟩ := by rw [e_rb, e_nl]
    rw [hk]
    apply sliceBytes_eq
    intro i hi'
    rw [final_buf _ (by omega) (by omega)]; exact hb1 i hi'
  have rest_ok : ∀ i, i < s.rb ∨ s.rb + (name.length + 2 + value.length + 2) ≤ i →
      (s3.buf.setIfInBounds (s3.rb + s3.p) 0)[i]? = s.buf[i]? := by
    intro i hi'; exact final_buf i (by omega) (by omega)
  cases value with
  | nil =>
    have hv0 : s3.valueStart = 0 := by rw [e_vs]; simp [vsFold]
    rw [onLineEnd_emptyValue F s3 _ e_nf e_sw hv0 hb3'] at st4
    have r4 := run_step F fs _ _ r3.2 st4
    refine ⟨_, hchain.trans r4.1, r4.2, ?_, rfl, rfl, rfl, rfl, rfl, ?_, ?_, e_ver, e_me,
      ⟨0, s3.rb, s3.nameLen⟩, ⟨0, s3.rb + s3.p, 0⟩, ?_, rfl, rfl, key_ok, ?_, ?_, ?_, ?_, ?_⟩
    · show s3.rb + (s3.p + 2) = _; rw [e_rb, e_p]; simp
    · show (s3.buf.setIfInBounds (s3.rb + s3.p) 0).size = _; simp [hsz]
    · intro i hi'
      show (s3.buf.setIfInBounds (s3.rb + s3.p) 0)[i]? = _
      apply rest_ok
      cases hi' with
      | inl h => exact Or.inl h
      | inr h =>
        have h' : s3.rb + (s3.p + 2) ≤ i := h
        rw [e_rb, e_p] at h'; simp at h' ⊢; omega
    · show s3.elems ++ _ = _; rw [e_el]
    · show sliceBytes (s3.buf.setIfInBounds (s3.rb + s3.p) 0) ⟨0, s3.rb + s3.p, 0⟩ = []
      simp [sliceBytes]
    · show s.rb ≤ s3.rb; omega
    · show s3.rb + s3.nameLen ≤ s3.rb + (s3.p + 2); omega
    · show s.rb ≤ s3.rb + s3.p; omega
    · show s3.rb + s3.p + 0 ≤ s3.rb + (s3.p + 2); omega
  | cons c rest =>
    have hcp : plain c := hfirst c rfl
    have hcw : ¬ (c = cSP ∨ c = cHT) := by
      intro h; cases h with
      | inl h => exact hcp.2.2.1 h
      | inr h => exact hcp.2.2.2.1 h
    have fold_eq : vsFold 0 0 (name.length + 1) (cSP :: c :: rest) = vsFold (name.length + 2) 0 (name.length + 3) rest := by
      simp only [vsFold, true_or, ↓reduceIte, hcw, beq_self_eq_true]
    have hv : s3.valueStart = name.length + 2 := by
      rw [e_vs, fold_eq, vsFold_vs _ _ _ _ (by omega)]
    have hw : s3.wsStart = 0 := by
      rw [e_ws, fold_eq]
      cases rest with
      | nil => rfl
      | cons c2 r2 =>
        apply vsFold_ws _ _ _ _ (by simp)
        have := hlast (by simp)
        simpa [List.getLast_cons] using this
    rw [onLineEnd_valid F s3 _ e_nf e_sw (by rw [hv]; omega) hw hb3'] at st4
    have r4 := run_step F fs _ _ r3.2 st4
    refine ⟨_, hchain.trans r4.1, r4.2, ?_, rfl, rfl, rfl, rfl, rfl, ?_, ?_, e_ver, e_me,
      ⟨0, s3.rb, s3.nameLen⟩, ⟨0, s3.rb + s3.valueStart, s3.p - s3.valueStart⟩, ?_, rfl, rfl, key_ok, ?_, ?_, ?_, ?_, ?_⟩
    · show s3.rb + (s3.p + 2) = _; rw [e_rb, e_p]; simp only [List.length_cons]; omega
    · show (s3.buf.setIfInBounds (s3.rb + s3.p) 0).size = _; simp [hsz]
    · intro i hi'
      show (s3.buf.setIfInBounds (s3.rb + s3.p) 0)[i]? = _
      apply rest_ok
      cases hi' with
      | inl h => exact Or.inl h
      | inr h =>
        have h' : s3.rb + (s3.p + 2) ≤ i := h
        rw [e_rb, e_p] at h'; simp only [List.length_cons] at h' ⊢; omega
    · show s3.elems ++ _ = _; rw [e_el]
    · show sliceBytes (s3.buf.setIfInBounds (s3.rb + s3.p) 0) ⟨0, s3.rb + s3.valueStart, s3.p - s3.valueStart⟩ = c :: rest
      have el : s3.p - s3.valueStart = (c :: rest).length := by rw [e_p, hv]; simp
      have hk : (⟨0, s3.rb + s3.valueStart, s3.p - s3.valueStart⟩ : Slice) = ⟨0, s.rb + (name.length + 2), (c :: rest).length⟩ := by
        rw [el, e_rb, hv]
      rw [hk]
      apply sliceBytes_eq
      intro i hi'
      rw [final_buf _ (by omega) (by simp at hi' ⊢; omega)]
      have := hb3 i hi'
      rw [← this]; congr 1
    · show s.rb ≤ s3.rb; omega
    · show s3.rb + s3.nameLen ≤ s3.rb + (s3.p + 2); omega
    · show s.rb ≤ s3.rb + s3.valueStart; omega
    · show s3.rb + s3.valueStart + (s3.p - s3.valueStart) ≤ s3.rb + (s3.p + 2); omega


/-! ### a whole canonical header section -/

abbrev Field := List UInt8 × List UInt8

/-- a well-formed field: non-empty token-like name, value without CR/LF/NUL and without
    leading or trailing whitespace -/
structure FieldWF (f : Field) : Prop where
  n0 : f.1 ≠ []
  name : ∀ c ∈ f.1, plain c ∧ c ≠ 58
  value : ∀ c ∈ f.2, plain c ∨ c = cSP ∨ c = cHT
  first : ∀ c, f.2.head? = some c → plain c
  last : ∀ hne : f.2 ≠ [], ¬ (f.2.getLast hne = cSP ∨ f.2.getLast hne = cHT)

/-- canonical rendering of one field line -/
def renderField (f : Field) : List UInt8 := f.1 ++ [58, cSP] ++ f.2 ++ [cCR, cLF]

def renderFields : List Field → List UInt8
  | [] => []
  | f :: fs => renderField f ++ renderFields fs

/-- what the application reads back for an element of the read-buffer region -/
def elemView (buf : Bytes) (el : Elem) : Nat × List UInt8 × Option (List UInt8) :=
  (el.kind, sliceBytes buf el.key, el.value.map (sliceBytes buf))

theorem sliceBytes_congr (b1 b2 : Bytes) (sl : Slice)
    (h : ∀ i, sl.off ≤ i → i < sl.off + sl.len → b1[i]? = b2[i]?) : sliceBytes b1 sl = sliceBytes b2 sl := by
  unfold sliceBytes
  apply List.ext_getElem?
  intro i
  simp only [Array.getElem?_toList, Array.getElem?_extract]
  by_cases hi : i < sl.len
  · have hEq := h (sl.off + i) (by omega) (by omega)
    by_cases h1 : sl.off + i < b1.size
    · by_cases h2 : sl.off + i < b2.size
      · rw [if_pos (by omega), if_pos (by omega)]; exact hEq
      · exfalso
        rw [Array.getElem?_eq_none (show b2.size ≤ sl.off + i by omega)] at hEq
        have := Array.getElem?_eq_none_iff.mp hEq; omega
    · by_cases h2 : sl.off + i < b2.size
      · exfalso
        rw [Array.getElem?_eq_none (show b1.size ≤ sl.off + i by omega)] at hEq
        have := Array.getElem?_eq_none_iff.mp hEq.symm; omega
      · rw [if_neg (by omega), if_neg (by omega)]
  · rw [if_neg (by omega), if_neg (by omega)]

/-- slices of an element lie in `[lo, hi)` -/
def ElemIn (el : Elem) (lo hi : Nat) : Prop :=
  lo ≤ el.key.off ∧ el.key.off + el.key.len ≤ hi ∧ (∀ v, el.value = some v → lo ≤ v.off ∧ v.off + v.len ≤ hi) ∧
    el.key.region = 0 ∧ ∀ v, el.value = some v → v.region = 0

theorem elemView_congr (b1 b2 : Bytes) (el : Elem) (lo hi : Nat) (hin : ElemIn el lo hi)
    (h : ∀ i, lo ≤ i → i < hi → b1[i]? = b2[i]?) : elemView b1 el = elemView b2 el := by
  unfold elemView
  have hk := sliceBytes_congr b1 b2 el.key (fun i h1 h2 => h i (by have := hin.1; omega) (by have := hin.2.1; omega))
  rw [hk]
  cases hv : el.value with
  | none => rfl
  | some v =>
    have := hin.2.2.1 v hv
    have hv' := sliceBytes_congr b1 b2 v (fun i h1 h2 => h i (by omega) (by omega))
    simp only [Option.map_some, hv']

/-- the parser is at the start of a line -/
structure Fresh (s : HS) : Prop where
  p : s.p = 0
  f1 : s.nameEndFound = false
  f2 : s.startsWithWs = false
  f3 : s.wsStart = 0
  f4 : s.valueStart = 0

theorem renderField_head (f : Field) (h : FieldWF f) (rest : List UInt8) :
    ∃ c t, renderField f ++ rest = c :: t ∧ c ≠ cSP ∧ c ≠ cHT := by
  obtain ⟨n, v⟩ := f
  cases n with
  | nil => exact absurd rfl h.n0
  | cons c t =>
    have := (h.name c (by simp)).1
    exact ⟨c, t ++ [58, cSP] ++ v ++ [cCR, cLF] ++ rest, by simp [renderField], this.2.2.1, this.2.2.2.1⟩

/-- **all field lines of a canonical header section**, for every combination of flags:
    one element per line, in order, reading back exactly the names and values sent -/
theorem run_fields (F : FLFlags) (fs : Nat) (fields : List Field) :
    ∀ (s : HS), Good s → Fresh s → (∀ f ∈ fields, FieldWF f) →
      BufIs s.buf s.rb (renderFields fields ++ [cCR, cLF]) →
      ∃ s' : HS, (hsScanner F fs).run s = (hsScanner F fs).run s' ∧ Good s' ∧ Fresh s' ∧
        s'.rb = s.rb + (renderFields fields).length ∧ s'.buf.size = s.buf.size ∧
        (∀ i, i < s.rb ∨ s'.rb ≤ i → s'.buf[i]? = s.buf[i]?) ∧ s'.version = s.version ∧ s'.method = s.method ∧
        ∃ els, s'.elems = s.elems ++ els ∧
          els.map (elemView s'.buf) = fields.map (fun f => (Http.kindHeader, f.1, some f.2)) ∧
          ∀ el ∈ els, ElemIn el s.rb s'.rb := by
  induction fields with
  | nil =>
    intro s hg hf _ _
    exact ⟨s, rfl, hg, hf, by simp [renderFields], rfl, fun _ _ => rfl, rfl, rfl, [], by simp, rfl, by simp⟩
  | cons f rest ih =>
    intro s hg hf hwf hbuf
    have hw := hwf f (by simp)
    -- the byte after this line
    obtain ⟨d, hd⟩ : ∃ d, ∃ t, renderFields rest ++ [cCR, cLF] = d :: t ∧ d ≠ cSP ∧ d ≠ cHT := by
      cases rest with
      | nil => exact ⟨cCR, [cLF], rfl, by decide, by decide⟩
      | cons f2 r2 =>
        obtain ⟨c, t, h1, h2, h3⟩ := renderField_head f2 (hwf f2 (by simp)) (renderFields r2 ++ [cCR, cLF])
        exact ⟨c, t, by simp only [renderFields, List.append_assoc] at h1 ⊢; exact h1, h2, h3⟩
    obtain ⟨t, hdt, hd1, hd2⟩ := hd
    have hsplit : renderFields (f :: rest) ++ [cCR, cLF] = (f.1 ++ [58, cSP] ++ f.2 ++ [cCR, cLF, d]) ++ t := by
      simp only [renderFields, renderField, List.append_assoc] at hdt ⊢
      rw [hdt]; simp
    have hb1 : BufIs s.buf s.rb (f.1 ++ [58, cSP] ++ f.2 ++ [cCR, cLF, d]) := by
      rw [hsplit] at hbuf; exact hbuf.left
    obtain ⟨s1, r1, g1, e_rb, p1, a1, a2, a3, a4, e_sz, e_same, e_ver, e_me, k, v, e_el, kr, vr, vk, vv, k1, k2, v1, v2⟩ :=
      run_line F fs s f.1 f.2 d hg hf.p hf.f1 hf.f2 hf.f3 hf.f4 hw.n0 hw.name hw.value hw.first hw.last hb1 hd1 hd2
    have hlen : (renderField f).length = f.1.length + 2 + f.2.length + 2 := by simp [renderField]; omega
    have hb2 : BufIs s1.buf s1.rb (renderFields rest ++ [cCR, cLF]) := by
      have h2 : BufIs s.buf (s.rb + (renderField f).length) (renderFields rest ++ [cCR, cLF]) := by
        have : renderFields (f :: rest) ++ [cCR, cLF] = renderField f ++ (renderFields rest ++ [cCR, cLF]) := by
          simp [renderFields]
        rw [this] at hbuf; exact hbuf.right
      intro i hi'
      rw [e_same _ (Or.inr (by omega)), e_rb, ← hlen]; exact h2 i hi'
    obtain ⟨s2, r2, g2, fr2, e_rb2, e_sz2, e_same2, e_ver2, e_me2, els, e_el2, views, hin⟩ :=
      ih s1 g1 ⟨p1, a1, a2, a3, a4⟩ (fun f' hf' => hwf f' (by simp [hf'])) hb2
    have hrb12 : s1.rb ≤ s2.rb := by omega
    refine ⟨s2, r1.trans r2, g2, fr2, ?_, by omega, ?_, by rw [e_ver2, e_ver], by rw [e_me2, e_me],
      ⟨Http.kindHeader, k, some v⟩ :: els, ?_, ?_, ?_⟩
    · simp only [renderFields, List.length_append]; rw [e_rb2, e_rb, hlen]; omega
    · intro i hi'
      cases hi' with
      | inl h => rw [e_same2 i (Or.inl (by omega)), e_same i (Or.inl h)]
      | inr h => rw [e_same2 i (Or.inr h), e_same i (Or.inr (by omega))]
    · rw [e_el2, e_el]; simp
    · simp only [List.map_cons]
      congr 1
      · have hin0 : ElemIn ⟨Http.kindHeader, k, some v⟩ s.rb s1.rb :=
          ⟨k1, k2, fun v' hv' => by simp at hv'; subst hv'; exact ⟨v1, v2⟩, kr, fun v' hv' => by simp at hv'; subst hv'; exact vr⟩
        rw [elemView_congr s2.buf s1.buf _ s.rb s1.rb hin0 (fun i _ h2 => e_same2 i (Or.inl h2))]
        simp [elemView, vk, vv]
    · intro el hel
      simp only [List.mem_cons] at hel
      cases hel with
      | inl h =>
        subst h
        exact ⟨k1, by show k.off + k.len ≤ s2.rb; omega, fun v' hv' => by simp at hv'; subst hv'; exact ⟨v1, by omega⟩,
          kr, fun v' hv' => by simp at hv'; subst hv'; exact vr⟩
      | inr h =>
        have := hin el h
        exact ⟨by have := this.1; omega, this.2.1, fun v' hv' => by have := this.2.2.1 v' hv'; exact ⟨by omega, this.2⟩,
          this.2.2.2.1, this.2.2.2.2⟩


/-- **Round trip of a canonical header section** (every combination of strictness flags,
    any number of fields, any following bytes).  If the read buffer holds
    `name₁ ": " value₁ CRLF … nameₙ ": " valueₙ CRLF CRLF` (fields well-formed) the header
    parser finishes and appends exactly one element per field, in order and with multiplicity,
    whose name and value read back from the final buffer — after in-place termination and
    after the header tail has been re-used — are exactly the names and values sent; all of
    them lie below `read_buffer`, and the unconsumed bytes follow at `read_buffer`. -/
theorem fields_roundtrip (F : FLFlags) (fs : Nat) (fields : List Field) (s : HS) (hg : Good s) (hf : Fresh s)
    (hwf : ∀ f ∈ fields, FieldWF f) (hbuf : BufIs s.buf s.rb (renderFields fields ++ [cCR, cLF])) :
    ∃ h : Headers, (hsScanner F fs).run s = .done (.ok h) ∧ Below h s.version ∧
      (∃ els, h.elems = s.elems ++ els ∧
        els.map (elemView h.buf) = fields.map (fun f => (Http.kindHeader, f.1, some f.2))) ∧
      h.headerSize = s.rb + (renderFields fields).length + 2 - s.method ∧
      (∀ j, h.buf[h.rb + j]? = s.buf[s.rb + (renderFields fields).length + 2 + j]?) := by
  obtain ⟨s1, r1, g1, fr1, e_rb, e_sz, e_same, e_ver, e_me, els, e_el, views, hin⟩ := run_fields F fs fields s hg hf hwf hbuf
  have hcr : s1.buf[s1.rb]? = some cCR := by
    have := hbuf.right 0 (by simp)
    rw [e_same _ (Or.inr (Nat.le_refl _)), e_rb]; simpa using this
  have hlf : s1.buf[s1.rb + 1]? = some cLF := by
    have := hbuf.right 1 (by simp)
    rw [e_same _ (Or.inr (by omega)), e_rb]; simpa [Nat.add_assoc] using this
  have hb1 : s1.rb + 1 < s1.buf.size := by
    by_cases hlt : s1.rb + 1 < s1.buf.size
    · exact hlt
    · rw [Array.getElem?_eq_none (by omega)] at hlf; cases hlf
  have st := step_emptyLine F fs s1 hcr hlf fr1.p
  have hrb := g1.i1.hrb
  have hle : lastElemEnd (s1.consume 2) + 1 ≤ (s1.consume 2).rb := by
    rw [lastElemEnd_consume]; have := lastEnd_le s1 g1.i1.hver g1.i1.helems; show _ ≤ s1.rb + 2; omega
  have h2 : 2 ≤ (s1.consume 2).rb := by show 2 ≤ s1.rb + 2; omega
  have hsz : (s1.consume 2).rb ≤ (s1.consume 2).buf.size := by show s1.rb + 2 ≤ s1.buf.size; omega
  have hi2 : (s1.consume 2).rb - 2 < (s1.consume 2).buf.size := by omega
  cases hb : (s1.consume 2).buf[(s1.consume 2).rb - 2]? with
  | none => rw [Array.getElem?_eq_none_iff] at hb; omega
  | some b2 =>
    have heq := finishHeaders_eq (s1.consume 2) fs b2 h2 hb hle
    obtain ⟨h, hh⟩ : ∃ h, finishHeaders (s1.consume 2) fs = .done (.ok h) := by
      rw [heq]; split <;> exact ⟨_, rfl⟩
    have below := finishHeaders_below (s1.consume 2) fs h2 hsz hle g1.i2.hLver g1.i2.hmax h hh
    have hrun : (hsScanner F fs).run s = .done (.ok h) := by
      rw [r1]; exact Scanner.run_done s1 _ (by show hsStep F fs s1 = _; rw [st, hh])
    have hsize : h.headerSize = s1.rb + 2 - s1.method ∧ (∀ j, h.buf[h.rb + j]? = s1.buf[s1.rb + 2 + j]?) := by
      rw [heq] at hh
      split at hh
      · simp only [Step.done.injEq, HDone.ok.injEq] at hh
        subst hh
        refine ⟨rfl, fun j => ?_⟩
        have hr : (s1.consume 2).rb - ((s1.consume 2).rb - (lastElemEnd (s1.consume 2) + 1)) = lastElemEnd (s1.consume 2) + 1 := by omega
        show (Array.extract (s1.consume 2).buf 0 _ ++ Array.extract (s1.consume 2).buf (s1.consume 2).rb (s1.consume 2).buf.size)[_ + j]? = _
        rw [hr, Array.getElem?_append_right (by simp only [Array.size_extract]; omega)]
        simp only [Array.size_extract, Array.getElem?_extract]
        have hm : min (lastElemEnd (s1.consume 2) + 1) (s1.consume 2).buf.size - 0 = lastElemEnd (s1.consume 2) + 1 := by omega
        rw [hm, Nat.add_sub_cancel_left, Nat.min_self]
        show (if j < s1.buf.size - (s1.rb + 2) then s1.buf[s1.rb + 2 + j]? else none) = _
        split
        · rfl
        · rw [Array.getElem?_eq_none (by omega)]
      · simp only [Step.done.injEq, HDone.ok.injEq] at hh
        subst hh
        exact ⟨rfl, fun j => rfl⟩
    refine ⟨h, hrun, by rw [← e_ver]; exact below.1, ⟨els, by rw [below.2.2.1]; exact e_el, ?_⟩, ?_, ?_⟩
    · rw [← views]
      apply List.map_congr_left
      intro el hel
      have hi' := hin el hel
      have hmem : el ∈ h.elems := by rw [below.2.2.1]; show el ∈ s1.elems; rw [e_el]; simp [hel]
      -- all strings of `el` end below the final read buffer
      have hkey := below.1.2 el hmem el.key (by simp [Elem.slices]) hi'.2.2.2.1
      have hin2 : ElemIn el s.rb h.rb := by
        refine ⟨hi'.1, by omega, fun v hv => ?_, hi'.2.2.2.1, hi'.2.2.2.2⟩
        have := below.1.2 el hmem v (by simp [Elem.slices, hv]) (hi'.2.2.2.2 v hv)
        exact ⟨(hi'.2.2.1 v hv).1, by omega⟩
      exact elemView_congr h.buf s1.buf el s.rb h.rb hin2 (fun i _ h2' => below.2.1 i h2')
    · rw [hsize.1, e_rb, e_me]
    · intro j
      rw [hsize.2 j, e_same _ (Or.inr (by omega)), e_rb]

end HSP
end Mhd.Req
