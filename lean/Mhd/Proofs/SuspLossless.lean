/-
  C11 — lossless continuation.  Per-connection turn relations, lifted to every history
  (`Lift_run`):

  * `DU` / `DUi` (`run_upload`): bytes delivered to the handler ++ bytes in the read buffer ++
    bytes in the socket = bytes the client sent;
  * `RInv` / `RW` (`run_reply`): body bytes sent ++ chunk in the write buffer = the first `rwp`
    bytes the application supplied; a finished request has delivered the whole body;
  * `CInv` / `CW` (`run_count`): a Content-Length request past its body has delivered exactly
    `n` bytes to the handler;
  * `stutter`: two histories with the same request and the same client bytes agree on what the
    handler consumed and on what the client received, however they were suspended.
-/
import Mhd.Proofs.SuspResume
namespace Mhd.Susp

/-! ### what the projections of the log say -/

/-- the upload bytes the handler consumed -/
def upBytes : List CEv → List UInt8
  | [] => []
  | .handler .upload off took :: r => off.take took ++ upBytes r
  | _ :: r => upBytes r

/-- the reply body bytes sent to the client -/
def wireBytes : List CEv → List UInt8
  | [] => []
  | .sendBody b :: r => b ++ wireBytes r
  | _ :: r => wireBytes r

@[simp] theorem upBytes_nil : upBytes [] = [] := rfl
@[simp] theorem wireBytes_nil : wireBytes [] = [] := rfl

theorem upBytes_append (a b : List CEv) : upBytes (a ++ b) = upBytes a ++ upBytes b := by
  induction a with
  | nil => rfl
  | cons e r ih =>
    cases e with
    | handler ph off took => cases ph <;> simp [upBytes, ih]
    | _ => simp [upBytes, ih]

theorem wireBytes_append (a b : List CEv) : wireBytes (a ++ b) = wireBytes a ++ wireBytes b := by
  induction a with
  | nil => rfl
  | cons e r ih => cases e <;> simp [wireBytes, ih]

/-- the application script with every suspend point (and the partition of the upload into
    calls) erased -/
def Plan.erase (p : Plan) : Plan := { p with fs := [], takes := [], us := [], ls := [], rs := [], rd := false }

/-- the data fields the callbacks' suspend / resume calls never touch -/
structure Keeps (k k' : Conn) : Prop where
  rbuf : k'.rbuf = k.rbuf
  inbox : k'.inbox = k.inbox
  sent : k'.sent = k.sent
  plan : k'.plan = k.plan
  st : k'.st = k.st
  remaining : k'.remaining = k.remaining
  chunkSize : k'.chunkSize = k.chunkSize
  chunkOff : k'.chunkOff = k.chunkOff
  lastSeen : k'.lastSeen = k.lastSeen
  rwp : k'.rwp = k.rwp
  wpend : k'.wpend = k.wpend
  eos : k'.eos = k.eos
  winStart : k'.winStart = k.winStart
  winSize : k'.winSize = k.winSize
  later : k'.later = k.later
  done : k'.done = k.done

theorem Keeps.refl (k : Conn) : Keeps k k := ⟨rfl, rfl, rfl, rfl, rfl, rfl, rfl, rfl, rfl, rfl, rfl, rfl, rfl, rfl, rfl, rfl⟩

theorem Keeps.trans {a b c : Conn} (h1 : Keeps a b) (h2 : Keeps b c) : Keeps a c :=
  ⟨h2.rbuf.trans h1.rbuf, h2.inbox.trans h1.inbox, h2.sent.trans h1.sent, h2.plan.trans h1.plan, h2.st.trans h1.st,
   h2.remaining.trans h1.remaining, h2.chunkSize.trans h1.chunkSize, h2.chunkOff.trans h1.chunkOff,
   h2.lastSeen.trans h1.lastSeen, h2.rwp.trans h1.rwp, h2.wpend.trans h1.wpend, h2.eos.trans h1.eos,
   h2.winStart.trans h1.winStart, h2.winSize.trans h1.winSize, h2.later.trans h1.later, h2.done.trans h1.done⟩

theorem Keeps_doSuspend (g : Guards) (k : Conn) : Keeps k (k.doSuspend g).1 := by
  unfold Conn.doSuspend; split <;> exact ⟨rfl, rfl, rfl, rfl, rfl, rfl, rfl, rfl, rfl, rfl, rfl, rfl, rfl, rfl, rfl, rfl⟩

theorem Keeps_doResumeReq (k : Conn) : Keeps k k.doResumeReq :=
  ⟨rfl, rfl, rfl, rfl, rfl, rfl, rfl, rfl, rfl, rfl, rfl, rfl, rfl, rfl, rfl, rfl⟩

theorem Keeps_suspendAct (g : Guards) (a : ActK) (k : Conn) : Keeps k (suspendAct g k a).1 := by
  simp only [suspendAct]
  split
  · exact ⟨rfl, rfl, rfl, rfl, rfl, rfl, rfl, rfl, rfl, rfl, rfl, rfl, rfl, rfl, rfl, rfl⟩
  · cases a with
    | pre => exact (Keeps_doResumeReq k).trans (Keeps_doSuspend g k.doResumeReq)
    | imm => exact (Keeps_doSuspend g k).trans ⟨rfl, rfl, rfl, rfl, rfl, rfl, rfl, rfl, rfl, rfl, rfl, rfl, rfl, rfl, rfl, rfl⟩
    | manual => exact Keeps_doSuspend g k
    | delay n =>
      simp only []
      split
      · exact (Keeps_doSuspend g k).trans ⟨rfl, rfl, rfl, rfl, rfl, rfl, rfl, rfl, rfl, rfl, rfl, rfl, rfl, rfl, rfl, rfl⟩
      · exact Keeps_doSuspend g k

theorem Keeps_optAct (g : Guards) (a : Option ActK) (k : Conn) : Keeps k (optAct g k a).1 := by
  cases a with
  | none => exact Keeps.refl k
  | some a => exact Keeps_suspendAct g a k

/-- the events of suspend / resume calls carry no upload or reply bytes -/
theorem suspendAct_evs (g : Guards) (a : ActK) (k : Conn) :
    upBytes (suspendAct g k a).2 = [] ∧ wireBytes (suspendAct g k a).2 = [] := by
  simp only [suspendAct, Conn.setFault]
  split
  · exact ⟨rfl, rfl⟩
  · cases a <;> exact ⟨rfl, rfl⟩

theorem optAct_evs (g : Guards) (a : Option ActK) (k : Conn) :
    upBytes (optAct g k a).2 = [] ∧ wireBytes (optAct g k a).2 = [] := by
  cases a with
  | none => exact ⟨rfl, rfl⟩
  | some a => exact suspendAct_evs g a k

/-! ### request side: nothing is lost between the socket, the read buffer and the handler -/

def DU (k : Conn) (evs : List CEv) (k' : Conn) : Prop :=
  upBytes evs ++ dataOf k'.rbuf ++ dataOf k'.inbox = dataOf k.rbuf ++ dataOf k.inbox ∧ k'.sent = k.sent

theorem DU_rel : TurnRel DU where
  refl := fun _ => ⟨by simp, rfl⟩
  trans := by
    intro k e1 k1 e2 k2 h1 h2
    refine ⟨?_, h2.2.trans h1.2⟩
    have a := h1.1
    have b := h2.1
    simp only [List.append_assoc] at a b ⊢
    rw [upBytes_append, List.append_assoc, b, a]

theorem DU_of_keeps {k k' : Conn} {evs} (h : Keeps k k') (he : upBytes evs = []) : DU k evs k' :=
  ⟨by rw [he, h.rbuf, h.inbox]; rfl, h.sent⟩

theorem DU_to {k k1 k2 : Conn} {evs} (h : DU k evs k1) (h1 : k2.rbuf = k1.rbuf) (h2 : k2.inbox = k1.inbox)
    (h3 : k2.sent = k1.sent) : DU k evs k2 := ⟨by rw [h1, h2]; exact h.1, h3.trans h.2⟩

theorem dataOf_append (a b : List Sym) : dataOf (a ++ b) = dataOf a ++ dataOf b := by
  induction a with
  | nil => rfl
  | cons x r ih => cases x <;> simp [dataOf, ih]

/-- the leading body bytes of the buffer are a prefix of its data -/
theorem dataOf_drop_lead (l : List Sym) (n : Nat) (h : n ≤ (leadBytes l).length) :
    (leadBytes l).take n ++ dataOf (l.drop n) = dataOf l := by
  induction l generalizing n with
  | nil => simp [leadBytes, dataOf]
  | cons x r ih =>
    cases n with
    | zero => simp
    | succ m =>
      cases x with
      | b y => simp only [leadBytes, List.length_cons, Nat.add_le_add_iff_right] at h; simp [leadBytes, dataOf, ih m h]
      | _ => simp [leadBytes] at h

theorem take_take_le (l : List UInt8) (a b : Nat) (h : a ≤ b) : (l.take b).take a = l.take a := by
  rw [List.take_take]; congr 1; omega

theorem takeOf_le (p : Plan) (n off : Nat) : p.takeOf n off ≤ off := by
  unfold Plan.takeOf
  split
  · exact Nat.le_refl _
  · split
    · exact Nat.min_le_right _ _
    · exact Nat.le_refl _

theorem callUpload_spec (g : Guards) (k : Conn) (off : List UInt8) :
    Keeps k (callUpload g k off).1 ∧ upBytes (callUpload g k off).2.1 = off.take (callUpload g k off).2.2 ∧
    wireBytes (callUpload g k off).2.1 = [] ∧ (callUpload g k off).2.2 ≤ off.length := by
  simp only [callUpload]
  have hk : Keeps k { k with nupload := k.nupload + 1 } := ⟨rfl, rfl, rfl, rfl, rfl, rfl, rfl, rfl, rfl, rfl, rfl, rfl, rfl, rfl, rfl, rfl⟩
  have he := optAct_evs g (lookupAct k.nupload k.plan.us) { k with nupload := k.nupload + 1 }
  refine ⟨hk.trans (Keeps_optAct g _ _), ?_, ?_, takeOf_le _ _ _⟩
  · simp [upBytes, he.1]
  · simp [wireBytes, he.2]

theorem upBytes_handler_first (c : Prop) [Decidable c] (o : List UInt8) (t : Nat) (r : List CEv) :
    upBytes (.handler (if c then .first else .refirst) o t :: r) = upBytes r := by
  split <;> rfl

theorem callFirst_spec (g : Guards) (k : Conn) :
    Keeps k (callFirst g k).1 ∧ upBytes (callFirst g k).2 = [] ∧ wireBytes (callFirst g k).2 = [] := by
  simp only [callFirst]
  have hk : Keeps k { k with nfirst := k.nfirst + 1 } := ⟨rfl, rfl, rfl, rfl, rfl, rfl, rfl, rfl, rfl, rfl, rfl, rfl, rfl, rfl, rfl, rfl⟩
  have he := optAct_evs g k.plan.fs[k.nfirst]? { k with nfirst := k.nfirst + 1 }
  refine ⟨hk.trans (Keeps_optAct g _ _), ?_, by simp [wireBytes, he.2]⟩
  rw [upBytes_handler_first]; exact he.1

theorem callFinal_spec (g : Guards) (k : Conn) :
    Keeps k (callFinal g k).1 ∧ upBytes (callFinal g k).2 = [] ∧ wireBytes (callFinal g k).2 = [] := by
  simp only [callFinal]
  split
  · exact ⟨Keeps.refl k, rfl, rfl⟩
  · split
    · next a _ =>
      have hk : Keeps k { k with nfinal := k.nfinal + 1 } := ⟨rfl, rfl, rfl, rfl, rfl, rfl, rfl, rfl, rfl, rfl, rfl, rfl, rfl, rfl, rfl, rfl⟩
      have he := suspendAct_evs g a { k with nfinal := k.nfinal + 1 }
      exact ⟨hk.trans (Keeps_suspendAct g _ _), by simp [upBytes, he.1], by simp [wireBytes, he.2]⟩
    · exact ⟨⟨rfl, rfl, rfl, rfl, rfl, rfl, rfl, rfl, rfl, rfl, rfl, rfl, rfl, rfl, rfl, rfl⟩, rfl, rfl⟩

theorem callReader_spec (g : Guards) (mx : Nat) (k : Conn) :
    Keeps k (callReader g k mx).1 ∧ upBytes (callReader g k mx).2.1 = [] ∧ wireBytes (callReader g k mx).2.1 = [] := by
  simp only [callReader]
  have hk : Keeps k { k with nreader := k.nreader + 1 } := ⟨rfl, rfl, rfl, rfl, rfl, rfl, rfl, rfl, rfl, rfl, rfl, rfl, rfl, rfl, rfl, rfl⟩
  have he := optAct_evs g (lookupAct k.nreader k.plan.rs) { k with nreader := k.nreader + 1 }
  split
  · exact ⟨hk.trans (Keeps_optAct g _ _), by simp [upBytes, he.1], by simp [wireBytes, he.2]⟩
  · split
    · exact ⟨hk, rfl, rfl⟩
    · exact ⟨hk.trans (Keeps_optAct g _ _), by simp [upBytes, he.1], by simp [wireBytes, he.2]⟩

theorem DU_procBodyCL (g : Guards) : Sat DU (procBodyCL g) := by
  intro k
  simp only [procBodyCL]
  split
  · exact DU_rel.refl k
  · have sp := callUpload_spec g k ((leadBytes k.rbuf).take (min k.remaining (leadBytes k.rbuf).length))
    generalize callUpload g k ((leadBytes k.rbuf).take (min k.remaining (leadBytes k.rbuf).length)) = r at sp
    obtain ⟨hk, hu, _, hle⟩ := sp
    refine ⟨?_, hk.sent⟩
    simp only [hu, hk.rbuf, hk.inbox]
    have hle2 : r.2.2 ≤ min k.remaining (leadBytes k.rbuf).length := by simpa using hle
    rw [take_take_le _ _ _ hle2]
    rw [dataOf_drop_lead k.rbuf r.2.2 (Nat.le_trans hle2 (Nat.min_le_right _ _))]

theorem DU_setFault (k : Conn) (w : String) : DU k [.fault w] (k.setFault w).1 := ⟨by simp [upBytes, Conn.setFault], rfl⟩

theorem DU_faultIter (k : Conn) (w : String) : DU k (faultIter k w).2.1 (faultIter k w).1 := DU_setFault k w

theorem DU_chunkSizeLine (k : Conn) : DU k (chunkSizeLine k).2.1 (chunkSizeLine k).1 := by
  unfold chunkSizeLine
  split
  · next h => exact ⟨by simp [h, dataOf], rfl⟩
  · next h => exact ⟨by simp [h, dataOf], rfl⟩
  · exact DU_rel.refl k
  · exact DU_faultIter _ _

theorem DU_chunkEnd (k : Conn) : DU k (chunkEnd k).2.1 (chunkEnd k).1 := by
  unfold chunkEnd
  split
  · next r h =>
    have h1 : DU k [] { k with rbuf := r, chunkOff := 0, chunkSize := 0 } := ⟨by simp [h, dataOf], rfl⟩
    simp only []
    split
    · exact h1
    · have := DU_rel.trans _ _ _ _ _ h1 (DU_chunkSizeLine { k with rbuf := r, chunkOff := 0, chunkSize := 0 })
      simpa using this
  · exact DU_rel.refl k
  · exact DU_faultIter _ _

theorem DU_chunkMid (g : Guards) (k : Conn) : DU k (chunkMid g k).2.1 (chunkMid g k).1 := by
  unfold chunkMid
  simp only []
  split
  · split
    · exact DU_rel.refl k
    · exact DU_faultIter _ _
  · have sp := callUpload_spec g k ((leadBytes k.rbuf).take (min (k.chunkSize - k.chunkOff) (leadBytes k.rbuf).length))
    generalize callUpload g k ((leadBytes k.rbuf).take (min (k.chunkSize - k.chunkOff) (leadBytes k.rbuf).length)) = r at sp
    obtain ⟨hk, hu, _, hle⟩ := sp
    refine ⟨?_, hk.sent⟩
    simp only [hu, hk.rbuf, hk.inbox]
    have hle2 : r.2.2 ≤ min (k.chunkSize - k.chunkOff) (leadBytes k.rbuf).length := by simpa using hle
    rw [take_take_le _ _ _ hle2]
    rw [dataOf_drop_lead k.rbuf r.2.2 (Nat.le_trans hle2 (Nat.min_le_right _ _))]

theorem DU_chunkIter (g : Guards) (k : Conn) : DU k (chunkIter g k).2.1 (chunkIter g k).1 := by
  unfold chunkIter
  split
  · exact DU_chunkEnd k
  · split
    · exact DU_chunkMid g k
    · exact DU_chunkSizeLine k

theorem DU_procBody (g : Guards) : Sat DU (procBody g) := by
  intro k
  unfold procBody
  split
  · exact sat_chunkLoop DU_rel DU_setFault (DU_chunkIter g) _ k
  · exact DU_procBodyCL g k

theorem readyChunked_keeps (g : Guards) (k : Conn) :
    (readyChunked g k).1.rbuf = k.rbuf ∧ (readyChunked g k).1.inbox = k.inbox ∧ (readyChunked g k).1.sent = k.sent ∧
    upBytes (readyChunked g k).2.1 = [] := by
  unfold readyChunked
  split
  · exact ⟨rfl, rfl, rfl, rfl⟩
  · have sp := callReader_spec g (2 ^ 24 - 1) k
    simp only []
    split <;> exact ⟨sp.1.rbuf, sp.1.inbox, sp.1.sent, sp.2.1⟩

theorem tryReadyNormal_keeps (g : Guards) (k : Conn) :
    (tryReadyNormal g k).1.rbuf = k.rbuf ∧ (tryReadyNormal g k).1.inbox = k.inbox ∧ (tryReadyNormal g k).1.sent = k.sent ∧
    upBytes (tryReadyNormal g k).2.1 = [] := by
  unfold tryReadyNormal
  split
  · exact ⟨rfl, rfl, rfl, rfl⟩
  · split
    · exact ⟨rfl, rfl, rfl, rfl⟩
    · have sp := callReader_spec g (min 1024 (k.plan.size - k.rwp)) k
      simp only []
      split
      · exact ⟨sp.1.rbuf, sp.1.inbox, sp.1.sent, by simp [upBytes_append, sp.2.1, Conn.setFault, upBytes]⟩
      · exact ⟨sp.1.rbuf, sp.1.inbox, sp.1.sent, sp.2.1⟩
      · exact ⟨sp.1.rbuf, sp.1.inbox, sp.1.sent, sp.2.1⟩

theorem DU_of_same {k k' : Conn} {evs} (h1 : k'.rbuf = k.rbuf) (h2 : k'.inbox = k.inbox) (h3 : k'.sent = k.sent)
    (he : upBytes evs = []) : DU k evs k' := ⟨by rw [he, h1, h2]; rfl, h3⟩

theorem nextRequest_same (k : Conn) : (nextRequest k).1.rbuf = k.rbuf ∧ (nextRequest k).1.inbox = k.inbox ∧
    (nextRequest k).1.sent = k.sent ∧ upBytes (nextRequest k).2.1 = [] ∧ wireBytes (nextRequest k).2.1 = [] := by
  unfold nextRequest; split <;> exact ⟨rfl, rfl, rfl, rfl, rfl⟩

theorem DU_idleStep (g : Guards) (k : Conn) : DU k (idleStep g k).2.1 (idleStep g k).1 := by
  unfold idleStep
  split
  · unfold stRecvHead; split
    · next h => exact ⟨by simp [h, dataOf], rfl⟩
    · exact DU_rel.refl k
  · unfold stHdrProcessed; simp only []
    have sp := callFirst_spec g k
    split
    · exact DU_of_same sp.1.rbuf sp.1.inbox sp.1.sent sp.2.1
    · exact DU_of_same sp.1.rbuf sp.1.inbox sp.1.sent sp.2.1
  · unfold stBodyRecv; simp only []
    have h : DU k (if k.rbuf.isEmpty = true then (k, []) else procBody g k).2
                  (if k.rbuf.isEmpty = true then (k, []) else procBody g k).1 := by
      split
      · exact DU_rel.refl k
      · exact DU_procBody g k
    generalize (if k.rbuf.isEmpty = true then (k, []) else procBody g k) = r at h ⊢
    split
    · exact DU_to h rfl rfl rfl
    · exact h
  · exact DU_of_same rfl rfl rfl rfl
  · unfold stFootersRecv; split
    · next h => exact ⟨by simp [h, dataOf], rfl⟩
    · exact DU_rel.refl k
  · unfold stFullReq; simp only []
    have sp := callFinal_spec g k
    split
    · exact DU_of_same sp.1.rbuf sp.1.inbox sp.1.sent sp.2.1
    · exact DU_of_same sp.1.rbuf sp.1.inbox sp.1.sent sp.2.1
  · exact DU_rel.refl k
  · exact DU_of_same rfl rfl rfl rfl
  · unfold stBodyUnready; split
    · have sp := readyChunked_keeps g k
      exact DU_of_same sp.1 sp.2.1 sp.2.2.1 sp.2.2.2
    · split
      · exact DU_of_same rfl rfl rfl rfl
      · have sp := tryReadyNormal_keeps g k
        simp only []; split
        · exact DU_of_same sp.1 sp.2.1 sp.2.2.1 sp.2.2.2
        · exact DU_of_same sp.1 sp.2.1 sp.2.2.1 sp.2.2.2
  · exact DU_rel.refl k
  · exact DU_of_same rfl rfl rfl rfl
  · exact DU_rel.refl k
  · have sp := nextRequest_same k
    exact DU_of_same sp.1 sp.2.1 sp.2.2.1 sp.2.2.2.1
  · exact DU_rel.refl k

theorem updateEli_same (g : Guards) (k : Conn) : (updateEli g k).rbuf = k.rbuf ∧ (updateEli g k).inbox = k.inbox ∧
    (updateEli g k).sent = k.sent := by
  unfold updateEli; split <;> exact ⟨rfl, rfl, rfl⟩

theorem epollUpdate_same (k : Conn) : (epollUpdate k).rbuf = k.rbuf ∧ (epollUpdate k).inbox = k.inbox ∧
    (epollUpdate k).sent = k.sent := by
  unfold epollUpdate; simp only []; split <;> split <;> exact ⟨rfl, rfl, rfl⟩

theorem DU_handleIdle (g : Guards) (ep : Bool) : Sat DU (handleIdle g ep) := by
  apply sat_handleIdle DU_rel
  · exact sat_idleLoop DU_rel DU_setFault (fun k _ => DU_idleStep g k) _
  · intro k; have := updateEli_same g k; exact DU_of_same this.1 this.2.1 this.2.2 rfl
  · intro k; have := epollUpdate_same k; exact DU_of_same this.1 this.2.1 this.2.2 rfl

theorem DU_handleRead (g : Guards) : Sat DU (handleRead g) := by
  intro k
  unfold handleRead
  split
  · exact DU_rel.refl k
  · split
    · exact DU_of_same rfl rfl rfl rfl
    · next x xs h => exact ⟨by simp [upBytes, dataOf_append, h, dataOf], rfl⟩

theorem writeBodyKnown_keeps (g : Guards) (k : Conn) :
    (writeBodyKnown g k).1.rbuf = k.rbuf ∧ (writeBodyKnown g k).1.inbox = k.inbox ∧ (writeBodyKnown g k).1.sent = k.sent ∧
    upBytes (writeBodyKnown g k).2 = [] := by
  unfold writeBodyKnown
  have sp := tryReadyNormal_keeps g k
  split
  · simp only []
    split
    · exact sp
    · split
      · exact sp
      · exact ⟨sp.1, sp.2.1, sp.2.2.1, by simp [upBytes_append, sp.2.2.2, upBytes]⟩
  · exact ⟨rfl, rfl, rfl, rfl⟩

theorem DU_handleWrite (g : Guards) : Sat DU (handleWrite g) := by
  intro k
  unfold handleWrite
  split
  · exact DU_rel.refl k
  · split
    · exact DU_of_same rfl rfl rfl rfl
    · split
      · exact DU_of_same rfl rfl rfl rfl
      · have sp := writeBodyKnown_keeps g k
        exact DU_of_same sp.1 sp.2.1 sp.2.2.1 sp.2.2.2
    · exact DU_of_same rfl rfl rfl rfl
    · exact DU_rel.refl k

theorem DU_callHandlers (g : Guards) (ep rr wr : Bool) : Sat DU (fun k => callHandlers g ep k rr wr) :=
  sat_callHandlers DU_rel (DU_handleRead g) (DU_handleWrite g) (DU_handleIdle g ep) rr wr

/-! ### daemon level -/

/-- a daemon-level step that only touches flags -/
def KD (d : Daemon) (evs : List Ev) (d' : Daemon) : Prop :=
  ∀ c, Keeps (d.conn c) (d'.conn c) ∧ upBytes (proj c evs) = [] ∧ wireBytes (proj c evs) = []

theorem KD_rel : DRel KD where
  refl := fun d c => ⟨Keeps.refl _, rfl, rfl⟩
  trans := by
    intro d e1 d1 e2 d2 h1 h2 c
    refine ⟨(h1 c).1.trans (h2 c).1, ?_, ?_⟩
    · rw [proj_append, upBytes_append, (h1 c).2.1, (h2 c).2.1]; rfl
    · rw [proj_append, wireBytes_append, (h1 c).2.2, (h2 c).2.2]; rfl

/-- one record replaced by one that keeps the data fields; events for it carry no bytes -/
theorem KD_one (d d' : Daemon) (a : Nat) (k' : Conn) (evs : List CEv) (hconn : d'.conn = setConn d.conn a k')
    (hk : Keeps (d.conn a) k') (h1 : upBytes evs = []) (h2 : wireBytes evs = []) : KD d (tag a evs) d' := by
  intro c
  rw [hconn]
  by_cases hc : c = a
  · subst hc; simp only [setConn_same, proj_tag_same]; exact ⟨hk, h1, h2⟩
  · rw [setConn_ne _ _ hc, proj_tag_ne (Ne.symm hc)]; exact ⟨Keeps.refl _, rfl, rfl⟩

theorem KD_nil_of_conn (d d' : Daemon) (h : d'.conn = d.conn) : KD d [] d' := by
  intro c; rw [h]; exact ⟨Keeps.refl _, rfl, rfl⟩

theorem KD_resumeReq (d : Daemon) (a : Nat) : KD d (resumeReq d a).2 (resumeReq d a).1 :=
  KD_one d _ a _ [.resumeReq] rfl ⟨rfl, rfl, rfl, rfl, rfl, rfl, rfl, rfl, rfl, rfl, rfl, rfl, rfl, rfl, rfl, rfl⟩ rfl rfl

theorem KD_moveBack (g : Guards) (d : Daemon) (a : Nat) : KD d [(a, .resumed)] (moveBack g d a) := by
  have : [(a, CEv.resumed)] = tag a [.resumed] := rfl
  rw [this]
  refine KD_one d _ a _ [.resumed] rfl ?_ rfl rfl
  simp only []
  split <;> exact ⟨rfl, rfl, rfl, rfl, rfl, rfl, rfl, rfl, rfl, rfl, rfl, rfl, rfl, rfl, rfl, rfl⟩

theorem KD_resumeScan (g : Guards) : ∀ (l : List Nat) (d : Daemon), KD d (resumeScan g l d).2 (resumeScan g l d).1 := by
  intro l
  induction l with
  | nil => intro d; exact KD_rel.refl d
  | cons a rest ih =>
    intro d
    simp only [resumeScan]
    split
    · exact KD_rel.trans _ _ _ _ _ (KD_moveBack g d a) (ih _)
    · exact ih d

theorem KD_resumeSuspended (g : Guards) : DSat KD (resumeSuspended g) := by
  intro d
  simp only [resumeSuspended]
  split
  · have := KD_rel.trans _ _ _ _ _ (KD_nil_of_conn d { d with resuming := false } rfl) (KD_resumeScan g d.susp.reverse _)
    simpa using this
  · exact KD_rel.refl d

theorem KD_timerScan : ∀ (l : List Nat) (d : Daemon), KD d (timerScan l d).2 (timerScan l d).1 := by
  intro l
  induction l with
  | nil => intro d; exact KD_rel.refl d
  | cons a rest ih =>
    intro d
    simp only [timerScan]
    split
    · have h1 : KD d [] { d with conn := setConn d.conn a { (d.conn a) with timer := none } } := by
        have := KD_one d { d with conn := setConn d.conn a { (d.conn a) with timer := none } } a _ [] rfl
          ⟨rfl, rfl, rfl, rfl, rfl, rfl, rfl, rfl, rfl, rfl, rfl, rfl, rfl, rfl, rfl, rfl⟩ rfl rfl
        simpa [tag] using this
      have := KD_rel.trans _ _ _ _ _ (KD_rel.trans _ _ _ _ _ h1 (KD_resumeReq _ a)) (ih _)
      simpa using this
    · next n _ =>
      have h1 : KD d [] { d with conn := setConn d.conn a { (d.conn a) with timer := some n } } := by
        have := KD_one d { d with conn := setConn d.conn a { (d.conn a) with timer := some n } } a _ [] rfl
          ⟨rfl, rfl, rfl, rfl, rfl, rfl, rfl, rfl, rfl, rfl, rfl, rfl, rfl, rfl, rfl, rfl⟩ rfl rfl
        simpa [tag] using this
      have := KD_rel.trans _ _ _ _ _ h1 (ih _)
      simpa using this
    · exact ih d

theorem KD_processNew : ∀ (l : List Nat) (d : Daemon), KD d (processNew l d).2 (processNew l d).1 := by
  intro l
  induction l with
  | nil => intro d; exact KD_nil_of_conn d _ rfl
  | cons a rest ih =>
    intro d
    simp only [processNew]
    have h1 : KD d [(a, .connStart)]
        { d with conn := setConn d.conn a { (d.conn a) with eli := .read, inSet := d.isEpoll },
                 active := a :: d.active, normalTO := a :: d.normalTO } := by
      have : [(a, CEv.connStart)] = tag a [.connStart] := rfl
      rw [this]
      exact KD_one d _ a _ [.connStart] rfl ⟨rfl, rfl, rfl, rfl, rfl, rfl, rfl, rfl, rfl, rfl, rfl, rfl, rfl, rfl, rfl, rfl⟩ rfl rfl
    exact KD_rel.trans _ _ _ _ _ h1 (ih _)

theorem KD_newPhase : DSat KD newPhase := by
  intro d
  simp only [newPhase]
  have := KD_rel.trans _ _ _ _ _ (KD_nil_of_conn d { d with pending := false } rfl) (KD_processNew d.newConns _)
  simpa using this

theorem epollMark_keeps (k : Conn) (i o : Bool) : Keeps k (epollMark k i o) := by
  cases i <;> cases o <;> exact ⟨rfl, rfl, rfl, rfl, rfl, rfl, rfl, rfl, rfl, rfl, rfl, rfl, rfl, rfl, rfl, rfl⟩

theorem KD_epollEvents : ∀ (l : List (Nat × Bool × Bool)) (d : Daemon), KD d [] (epollEvents l d) := by
  intro l
  induction l with
  | nil => intro d; exact KD_rel.refl d
  | cons e rest ih =>
    intro d
    obtain ⟨a, i, o⟩ := e
    simp only [epollEvents]
    split
    · exact ih d
    · have h1 := KD_one d (sync { d with conn := setConn d.conn a (epollMark (d.conn a) i o) } a) a _ []
        (by rw [sync_conn]) (epollMark_keeps _ i o) rfl rfl
      have := KD_rel.trans _ _ _ _ _ h1 (ih _)
      simpa [tag] using this

theorem KD_ereadyPost (d : Daemon) (a : Nat) : KD d [] (ereadyPost d a) := by
  simp only [ereadyPost]
  split
  · have := KD_one d (sync { d with conn := setConn d.conn a { (d.conn a) with inEready := false } } a) a
      { (d.conn a) with inEready := false } [] (by rw [sync_conn])
      ⟨rfl, rfl, rfl, rfl, rfl, rfl, rfl, rfl, rfl, rfl, rfl, rfl, rfl, rfl, rfl, rfl⟩ rfl rfl
    simpa [tag] using this
  · exact KD_rel.refl d

/-- a per-connection turn property, for every connection's projection of a daemon-level step -/
def Lift (R : Conn → List CEv → Conn → Prop) (d : Daemon) (evs : List Ev) (d' : Daemon) : Prop :=
  ∀ c, R (d.conn c) (proj c evs) (d'.conn c)

theorem Lift_rel {R} (hR : TurnRel R) : DRel (Lift R) where
  refl := fun d c => hR.refl _
  trans := by
    intro d e1 d1 e2 d2 h1 h2 c
    rw [proj_append]; exact hR.trans _ _ _ _ _ (h1 c) (h2 c)

/-- `R` does not care about flag-only changes -/
def FlagOK (R : Conn → List CEv → Conn → Prop) : Prop :=
  ∀ k k' evs, Keeps k k' → upBytes evs = [] → wireBytes evs = [] → R k evs k'

theorem Lift_of_KD {R} (hF : FlagOK R) {d d' : Daemon} {evs} (h : KD d evs d') : Lift R d evs d' :=
  fun c => hF _ _ _ (h c).1 (h c).2.1 (h c).2.2

theorem Lift_turnWith {R} (hR : TurnRel R) (hF : FlagOK R) (f : Conn → Conn × List CEv) (hf : Sat R f) (a : Nat) :
    DSat (Lift R) (fun d => turnWith f d a) := by
  intro d c
  simp only [turnWith_conn, turnWith_evs]
  by_cases hc : c = a
  · subst hc
    simp only [setConn_same, proj_tag_same]
    have h0 : R (d.conn c) [] (clearDres (d.conn c)) :=
      hF _ _ _ ⟨rfl, rfl, rfl, rfl, rfl, rfl, rfl, rfl, rfl, rfl, rfl, rfl, rfl, rfl, rfl, rfl⟩ rfl rfl
    have := hR.trans _ _ _ _ _ h0 (hf (clearDres (d.conn c)))
    simpa using this
  · rw [setConn_ne _ _ hc, proj_tag_ne (Ne.symm hc)]; exact hR.refl _

section lift
variable {R : Conn → List CEv → Conn → Prop} (hR : TurnRel R) (hF : FlagOK R) (g : Guards)
  (hr : Sat R (handleRead g)) (hw : Sat R (handleWrite g)) (hi : ∀ ep, Sat R (handleIdle g ep))
include hR hF hr hw hi

theorem Lift_turn (d : Daemon) (c : Nat) (rr wr : Bool) : Lift R d (turn g d c rr wr).2 (turn g d c rr wr).1 :=
  Lift_turnWith hR hF _ (sat_callHandlers hR hr hw (hi d.isEpoll) rr wr) c d

omit hr hw in
theorem Lift_idleTurn (d : Daemon) (c : Nat) : Lift R d (idleTurn g d c).2 (idleTurn g d c).1 :=
  Lift_turnWith hR hF _ (hi d.isEpoll) c d

theorem Lift_travSelect (fr fw rd wr : Nat → Bool) :
    ∀ (l : List Nat) (d : Daemon), Lift R d (travSelect g fr fw rd wr l d).2 (travSelect g fr fw rd wr l d).1 := by
  intro l
  induction l with
  | nil => intro d; exact (Lift_rel hR).refl d
  | cons c rest ih =>
    intro d
    simp only [travSelect]
    split
    · exact Lift_turn hR hF g hr hw hi d c _ _
    · exact (Lift_rel hR).trans _ _ _ _ _ (Lift_turn hR hF g hr hw hi d c _ _) (ih _)

theorem Lift_travAll (fr fw rd wr : Nat → Bool) :
    ∀ (l : List Nat) (d : Daemon), Lift R d (travAll g fr fw rd wr l d).2 (travAll g fr fw rd wr l d).1 := by
  intro l
  induction l with
  | nil => intro d; exact (Lift_rel hR).refl d
  | cons c rest ih =>
    intro d
    simp only [travAll]
    exact (Lift_rel hR).trans _ _ _ _ _ (Lift_turn hR hF g hr hw hi d c _ _) (ih _)

theorem Lift_travEready :
    ∀ (l : List Nat) (d : Daemon), Lift R d (travEready g l d).2 (travEready g l d).1 := by
  intro l
  induction l with
  | nil => intro d; exact (Lift_rel hR).refl d
  | cons c rest ih =>
    intro d
    simp only [travEready]
    have h1 := Lift_turn hR hF g hr hw hi d c (d.conn c).readReady (d.conn c).writeReady
    have h2 : Lift R _ [] _ := Lift_of_KD hF (KD_ereadyPost (turn g d c (d.conn c).readReady (d.conn c).writeReady).1 c)
    have h12 := (Lift_rel hR).trans _ _ _ _ _ h1 h2
    have := (Lift_rel hR).trans _ _ _ _ _ h12 (ih _)
    simpa using this

theorem Lift_roundSelect (ids : List Nat) (rd wr : Nat → Bool) : DSat (Lift R) (fun d => roundSelect g d ids rd wr) := by
  intro d
  simp only [roundSelect]
  refine dsat_bindD (Lift_rel hR) (fun d => Lift_travSelect hR hF g hr hw hi _ _ rd wr _ d) ?_
  refine dsat_bindD (Lift_rel hR) (fun d => Lift_of_KD hF (KD_newPhase d)) ?_
  exact dsat_bindD (Lift_rel hR) (fun d => Lift_of_KD hF (KD_resumeSuspended g d)) (Lift_of_KD hF (KD_timerScan ids d))

theorem Lift_roundPoll (ids : List Nat) (rd wr : Nat → Bool) : DSat (Lift R) (fun d => roundPoll g d ids rd wr) := by
  intro d
  simp only [roundPoll]
  refine dsat_bindD (Lift_rel hR) ?_ ?_
  · intro d
    simp only [pollPhase]
    exact dsat_bindD (Lift_rel hR) (fun d' => Lift_travAll hR hF g hr hw hi _ _ rd wr _ d') (Lift_of_KD hF (KD_newPhase d))
  exact dsat_bindD (Lift_rel hR) (fun d => Lift_of_KD hF (KD_resumeSuspended g d)) (Lift_of_KD hF (KD_timerScan ids d))

theorem Lift_roundEpoll (ids : List Nat) (evs : List (Nat × Bool × Bool)) : DSat (Lift R) (fun d => roundEpoll g d ids evs) := by
  intro d
  simp only [roundEpoll]
  refine dsat_bindD (Lift_rel hR) (fun d => Lift_travEready hR hF g hr hw hi _ d) ?_
  refine dsat_bindD (Lift_rel hR) ?_ ?_
  · intro d
    simp only [timeoutScan]
    split
    · exact Lift_idleTurn hR hF g hi d _
    · exact (Lift_rel hR).refl d
  refine dsat_bindD (Lift_rel hR) (fun d => Lift_of_KD hF (KD_newPhase d)) ?_
  refine dsat_bindD (Lift_rel hR) ?_ ?_
  · intro d
    simp only [pureD]
    have := KD_rel.trans _ _ _ _ _ (KD_nil_of_conn d { d with pending := false } rfl) (KD_epollEvents evs { d with pending := false })
    exact Lift_of_KD hF (by simpa using this)
  exact dsat_bindD (Lift_rel hR) (fun d => Lift_of_KD hF (KD_resumeSuspended g d)) (Lift_of_KD hF (KD_timerScan ids d))

end lift

theorem Lift_step {R : Conn → List CEv → Conn → Prop} (hR : TurnRel R) (hF : FlagOK R) (g : Guards)
    (hr : Sat R (handleRead g)) (hw : Sat R (handleWrite g)) (hi : ∀ ep, Sat R (handleIdle g ep))
    (hsend : ∀ (k : Conn) (syms : List Sym), R k [] { k with inbox := k.inbox ++ syms, sent := k.sent ++ syms })
    (op : Op) : DSat (Lift R) (fun d => step g d op) := by
  intro d
  cases op with
  | arrive c =>
    simp only [step]
    split
    · exact (Lift_rel hR).refl d
    · exact Lift_of_KD hF (KD_nil_of_conn d _ rfl)
  | send a syms =>
    simp only [step]
    intro c
    by_cases hc : c = a
    · subst hc
      show R (d.conn c) [] (setConn d.conn c _ c)
      rw [setConn_same]; exact hsend _ _
    · show R (d.conn c) [] (setConn d.conn a _ c)
      rw [setConn_ne _ _ hc]; exact hR.refl _
  | resume a =>
    simp only [step]
    have h1 : KD d [] { d with conn := setConn d.conn a { (d.conn a) with timer := none } } := by
      have := KD_one d { d with conn := setConn d.conn a { (d.conn a) with timer := none } } a _ [] rfl
        ⟨rfl, rfl, rfl, rfl, rfl, rfl, rfl, rfl, rfl, rfl, rfl, rfl, rfl, rfl, rfl, rfl⟩ rfl rfl
      simpa [tag] using this
    have := KD_rel.trans _ _ _ _ _ h1 (KD_resumeReq _ a)
    exact Lift_of_KD hF (by simpa using this)
  | round ids rd wr =>
    simp only [step]
    split
    · exact Lift_roundSelect hR hF g hr hw hi ids rd wr d
    · exact Lift_roundPoll hR hF g hr hw hi ids rd wr d
    · exact (Lift_rel hR).refl d
  | eround ids evs =>
    simp only [step]
    split
    · exact Lift_roundEpoll hR hF g hr hw hi ids evs d
    · exact (Lift_rel hR).refl d

theorem Lift_run {R : Conn → List CEv → Conn → Prop} (hR : TurnRel R) (hF : FlagOK R) (g : Guards)
    (hr : Sat R (handleRead g)) (hw : Sat R (handleWrite g)) (hi : ∀ ep, Sat R (handleIdle g ep))
    (hsend : ∀ (k : Conn) (syms : List Sym), R k [] { k with inbox := k.inbox ++ syms, sent := k.sent ++ syms }) :
    ∀ (ops : List Op) (d : Daemon), Lift R d (run g d ops).2 (run g d ops).1 := by
  intro ops
  induction ops with
  | nil => intro d; exact (Lift_rel hR).refl d
  | cons op rest ih =>
    intro d
    simp only [run]
    exact (Lift_rel hR).trans _ _ _ _ _ (Lift_step hR hF g hr hw hi hsend op d) (ih _)

/-! ### request side, invariant form (absorbs the client's sends) -/

def DUi (k : Conn) (evs : List CEv) (k' : Conn) : Prop :=
  ∀ u, u ++ dataOf k.rbuf ++ dataOf k.inbox = dataOf k.sent →
    (u ++ upBytes evs) ++ dataOf k'.rbuf ++ dataOf k'.inbox = dataOf k'.sent

theorem DUi_of_DU {k k' : Conn} {evs} (h : DU k evs k') : DUi k evs k' := by
  intro u hu
  rw [h.2, ← hu]
  have := h.1
  simp only [List.append_assoc] at this ⊢
  rw [this]

theorem DUi_rel : TurnRel DUi where
  refl := fun k u hu => by simpa using hu
  trans := by
    intro k e1 k1 e2 k2 h1 h2 u hu
    have := h2 _ (h1 u hu)
    rw [upBytes_append]; simpa [List.append_assoc] using this

theorem DUi_flag : FlagOK DUi := fun _ _ _ hk h1 _ => DUi_of_DU (DU_of_keeps hk h1)

theorem run_upload (g : Guards) (ops : List Op) (d : Daemon) (c : Nat)
    (h0 : dataOf (d.conn c).rbuf ++ dataOf (d.conn c).inbox = dataOf (d.conn c).sent) :
    upBytes (proj c (run g d ops).2) ++ dataOf ((run g d ops).1.conn c).rbuf ++ dataOf ((run g d ops).1.conn c).inbox
      = dataOf ((run g d ops).1.conn c).sent := by
  have h := Lift_run DUi_rel DUi_flag g (fun k => DUi_of_DU (DU_handleRead g k)) (fun k => DUi_of_DU (DU_handleWrite g k))
    (fun ep k => DUi_of_DU (DU_handleIdle g ep k))
    (by
      intro k syms u hu
      simp only [upBytes_nil, List.append_nil, dataOf_append]
      rw [← hu]; simp [List.append_assoc]) ops d c [] (by simpa using h0)
  simpa using h

/-! ### reply side -/

theorem patRange_append (rid a n m : Nat) : patRange rid a n ++ patRange rid (a + n) m = patRange rid a (n + m) := by
  induction n generalizing a with
  | zero => simp [patRange]
  | succ n ih =>
    have : a + (n + 1) = (a + 1) + n := by omega
    rw [this, Nat.add_right_comm n 1 m]
    simp only [patRange, List.cons_append]
    rw [ih (a + 1)]

/-- the complete reply bodies of a list of requests, in order -/
def bodies : List Plan → List UInt8
  | [] => []
  | p :: r => patRange p.rid 0 p.size ++ bodies r

theorem bodies_append (a b : List Plan) : bodies (a ++ b) = bodies a ++ bodies b := by
  induction a with
  | nil => rfl
  | cons p r ih => simp [bodies, ih]

/-- invariant of the reply side: `w` = body bytes sent so far on this connection: the complete
    bodies of the requests already served, then the first `rwp` bytes of the current reply -/
structure RInv (k : Conn) (w : List UInt8) : Prop where
  wire : w ++ k.wpend = bodies k.done ++ patRange k.plan.rid 0 k.rwp
  le : k.rwp ≤ k.plan.size
  win : k.winStart + k.winSize ≤ k.plan.size
  ready : k.st ≠ .bodyReady → k.wpend = []
  known : k.chunkedReply = false → k.wpend = []
  eosv : k.eos = true → k.rwp = k.plan.size
  sentv : (k.st = .bodySent ∨ k.st = .footersSending) → k.eos = true
  done : (k.st = .replySent ∨ k.st = .finished) → k.rwp = k.plan.size

def RW (k : Conn) (evs : List CEv) (k' : Conn) : Prop := ∀ w, RInv k w → RInv k' (w ++ wireBytes evs)

theorem RW_rel : TurnRel RW where
  refl := fun k w h => by simpa using h
  trans := by
    intro k e1 k1 e2 k2 h1 h2 w hw
    have := h2 _ (h1 w hw)
    rw [wireBytes_append]; simpa [List.append_assoc] using this

/-- the reply fields -/
structure RKeeps (k k' : Conn) : Prop where
  plan : k'.plan = k.plan
  rwp : k'.rwp = k.rwp
  wpend : k'.wpend = k.wpend
  eos : k'.eos = k.eos
  winStart : k'.winStart = k.winStart
  winSize : k'.winSize = k.winSize
  done : k'.done = k.done

theorem Keeps.toR {k k' : Conn} (h : Keeps k k') : RKeeps k k' := ⟨h.plan, h.rwp, h.wpend, h.eos, h.winStart, h.winSize, h.done⟩
theorem RKeeps.refl (k : Conn) : RKeeps k k := ⟨rfl, rfl, rfl, rfl, rfl, rfl, rfl⟩
theorem RKeeps.trans {a b c : Conn} (h1 : RKeeps a b) (h2 : RKeeps b c) : RKeeps a c :=
  ⟨h2.plan.trans h1.plan, h2.rwp.trans h1.rwp, h2.wpend.trans h1.wpend, h2.eos.trans h1.eos,
   h2.winStart.trans h1.winStart, h2.winSize.trans h1.winSize, h2.done.trans h1.done⟩

/-- states in which the reply has not reached the body yet, or is waiting for the reader -/
def St.early : St → Bool
  | .bodyReady | .bodySent | .footersSending | .replySent | .finished => false
  | _ => true

/-- reply fields kept, no reply bytes in the events; the state either stays or moves between early states -/
theorem RW_of_rkeeps {k k' : Conn} {evs} (h : RKeeps k k') (he : wireBytes evs = [])
    (hst : k'.st = k.st ∨ (k.st ≠ .bodyReady ∧ k'.st.early = true)) : RW k evs k' := by
  intro w hw
  have hch : k'.chunkedReply = k.chunkedReply := by unfold Conn.chunkedReply; rw [h.plan]
  rw [he, List.append_nil]
  constructor
  · rw [h.wpend, h.plan, h.rwp, h.done]; exact hw.wire
  · rw [h.plan, h.rwp]; exact hw.le
  · rw [h.plan, h.winStart, h.winSize]; exact hw.win
  · intro hne
    rw [h.wpend]
    rcases hst with e | ⟨e1, _⟩
    · exact hw.ready (e ▸ hne)
    · exact hw.ready e1
  · rw [hch, h.wpend]; exact hw.known
  · rw [h.eos, h.rwp, h.plan]; exact hw.eosv
  · rw [h.eos]
    rcases hst with e | ⟨_, e2⟩
    · rw [e]; exact hw.sentv
    · intro hx; rcases hx with hx | hx <;> simp [hx, St.early] at e2
  · rw [h.rwp, h.plan]
    rcases hst with e | ⟨_, e2⟩
    · rw [e]; exact hw.done
    · intro hx; rcases hx with hx | hx <;> simp [hx, St.early] at e2

theorem RW_flag : FlagOK RW := fun _ _ _ hk _ h2 => RW_of_rkeeps hk.toR h2 (Or.inl hk.st)

/-- reply fields and state kept, no reply bytes in the events -/
def RKS (k : Conn) (evs : List CEv) (k' : Conn) : Prop := RKeeps k k' ∧ k'.st = k.st ∧ wireBytes evs = []

theorem RKS_rel : TurnRel RKS where
  refl := fun k => ⟨RKeeps.refl k, rfl, rfl⟩
  trans := by
    intro k e1 k1 e2 k2 h1 h2
    exact ⟨h1.1.trans h2.1, h2.2.1.trans h1.2.1, by rw [wireBytes_append, h1.2.2, h2.2.2]; rfl⟩

theorem RKS_of_keeps {k k' : Conn} {evs} (h : Keeps k k') (he : wireBytes evs = []) : RKS k evs k' := ⟨h.toR, h.st, he⟩

theorem RKS_faultIter (k : Conn) (w : String) : RKS k (faultIter k w).2.1 (faultIter k w).1 :=
  ⟨⟨rfl, rfl, rfl, rfl, rfl, rfl, rfl⟩, rfl, rfl⟩

theorem RKS_chunkSizeLine (k : Conn) : RKS k (chunkSizeLine k).2.1 (chunkSizeLine k).1 := by
  unfold chunkSizeLine
  split
  · exact ⟨⟨rfl, rfl, rfl, rfl, rfl, rfl, rfl⟩, rfl, rfl⟩
  · exact ⟨⟨rfl, rfl, rfl, rfl, rfl, rfl, rfl⟩, rfl, rfl⟩
  · exact RKS_rel.refl k
  · exact RKS_faultIter _ _

theorem RKS_chunkEnd (k : Conn) : RKS k (chunkEnd k).2.1 (chunkEnd k).1 := by
  unfold chunkEnd
  split
  · next r h =>
    have h1 : RKS k [] { k with rbuf := r, chunkOff := 0, chunkSize := 0 } := ⟨⟨rfl, rfl, rfl, rfl, rfl, rfl, rfl⟩, rfl, rfl⟩
    simp only []
    split
    · exact h1
    · have := RKS_rel.trans _ _ _ _ _ h1 (RKS_chunkSizeLine { k with rbuf := r, chunkOff := 0, chunkSize := 0 })
      simpa using this
  · exact RKS_rel.refl k
  · exact RKS_faultIter _ _

theorem RKS_chunkMid (g : Guards) (k : Conn) : RKS k (chunkMid g k).2.1 (chunkMid g k).1 := by
  unfold chunkMid
  simp only []
  split
  · split
    · exact RKS_rel.refl k
    · exact RKS_faultIter _ _
  · have sp := callUpload_spec g k ((leadBytes k.rbuf).take (min (k.chunkSize - k.chunkOff) (leadBytes k.rbuf).length))
    exact ⟨⟨sp.1.plan, sp.1.rwp, sp.1.wpend, sp.1.eos, sp.1.winStart, sp.1.winSize, sp.1.done⟩, sp.1.st, sp.2.2.1⟩

theorem RKS_chunkIter (g : Guards) (k : Conn) : RKS k (chunkIter g k).2.1 (chunkIter g k).1 := by
  unfold chunkIter
  split
  · exact RKS_chunkEnd k
  · split
    · exact RKS_chunkMid g k
    · exact RKS_chunkSizeLine k

theorem RKS_procBody (g : Guards) : Sat RKS (procBody g) := by
  intro k
  unfold procBody
  split
  · exact sat_chunkLoop RKS_rel (fun k w => ⟨⟨rfl, rfl, rfl, rfl, rfl, rfl, rfl⟩, rfl, rfl⟩) (RKS_chunkIter g) _ k
  · simp only [procBodyCL]
    split
    · exact RKS_rel.refl k
    · have sp := callUpload_spec g k ((leadBytes k.rbuf).take (min k.remaining (leadBytes k.rbuf).length))
      exact ⟨⟨sp.1.plan, sp.1.rwp, sp.1.wpend, sp.1.eos, sp.1.winStart, sp.1.winSize, sp.1.done⟩, sp.1.st, sp.2.2.1⟩

/-- what the content reader returns -/
theorem callReader_ret (g : Guards) (mx : Nat) (k : Conn) :
    ((callReader g k mx).2.2 = none → k.plan.size ≤ k.rwp) ∧
    (∀ n, (callReader g k mx).2.2 = some n → n ≤ k.plan.size - k.rwp) := by
  simp only [callReader]
  split
  · exact ⟨by simp, by intro n h; simp at h; omega⟩
  · split
    · next h => exact ⟨fun _ => h, by simp⟩
    · refine ⟨by simp, ?_⟩
      intro n h
      simp only [Option.some.injEq] at h
      subst h
      unfold readerData
      simp only []
      split
      · exact Nat.min_le_left _ _
      · exact Nat.le_trans (Nat.min_le_left _ _) (Nat.min_le_left _ _)

theorem RW_readyChunked (g : Guards) (k : Conn) (hst : k.st = .bodyUnready) (hch : k.chunkedReply = true) :
    RW k (readyChunked g k).2.1 (readyChunked g k).1 := by
  unfold readyChunked
  split
  · next heos =>
    intro w hw
    simp only [wireBytes_nil, List.append_nil]
    have hwp : k.wpend = [] := hw.ready (by rw [hst]; simp)
    exact ⟨hw.wire, hw.le, hw.win, fun _ => hwp, fun _ => hwp, hw.eosv, fun _ => heos, by simp⟩
  · have sp := callReader_spec g (2 ^ 24 - 1) k
    have rt := callReader_ret g (2 ^ 24 - 1) k
    generalize callReader g k (2 ^ 24 - 1) = r at sp rt
    obtain ⟨hk, _, hwb⟩ := sp
    have hch' : r.1.chunkedReply = true := by unfold Conn.chunkedReply at *; rw [hk.plan]; exact hch
    simp only []
    split
    · next hr =>
      intro w hw
      have hwp : k.wpend = [] := hw.ready (by rw [hst]; simp)
      have hsz : k.rwp = k.plan.size := Nat.le_antisymm hw.le (rt.1 hr)
      rw [hwb, List.append_nil]
      refine ⟨?_, ?_, ?_, ?_, ?_, ?_, ?_, ?_⟩
      · show w ++ r.1.wpend = bodies r.1.done ++ patRange r.1.plan.rid 0 r.1.rwp
        rw [hk.wpend, hk.plan, hk.rwp, hk.done]; exact hw.wire
      · show r.1.rwp ≤ r.1.plan.size
        rw [hk.plan, hk.rwp]; exact hw.le
      · show r.1.winStart + r.1.winSize ≤ r.1.plan.size
        rw [hk.plan, hk.winStart, hk.winSize]; exact hw.win
      · intro _; show r.1.wpend = []; rw [hk.wpend]; exact hwp
      · intro _; show r.1.wpend = []; rw [hk.wpend]; exact hwp
      · intro _; show r.1.rwp = r.1.plan.size; rw [hk.rwp, hk.plan]; exact hsz
      · intro _; rfl
      · intro hx; rcases hx with hx | hx <;> exact absurd hx (by simp)
    · exact RW_of_rkeeps hk.toR hwb (Or.inl hk.st)
    · next n hn hr =>
      intro w hw
      have hwp : k.wpend = [] := hw.ready (by rw [hst]; simp)
      have hn2 : n ≤ k.plan.size - k.rwp := rt.2 n hr
      have hle := hw.le
      rw [hwb, List.append_nil]
      refine ⟨?_, ?_, ?_, ?_, ?_, ?_, ?_, ?_⟩
      · show w ++ patRange k.plan.rid k.rwp n = bodies r.1.done ++ patRange r.1.plan.rid 0 (k.rwp + n)
        have := hw.wire
        rw [hwp, List.append_nil] at this
        rw [this, hk.plan, hk.done, List.append_assoc]
        have := patRange_append k.plan.rid 0 k.rwp n
        simp only [Nat.zero_add] at this
        rw [this]
      · show k.rwp + n ≤ r.1.plan.size
        rw [hk.plan]; omega
      · show r.1.winStart + r.1.winSize ≤ r.1.plan.size
        rw [hk.plan, hk.winStart, hk.winSize]; exact hw.win
      · intro hx; exact absurd rfl hx
      · intro hx; show patRange k.plan.rid k.rwp n = []
        have : ({ r.1 with wpend := patRange k.plan.rid k.rwp n, rwp := k.rwp + n, st := St.bodyReady } : Conn).chunkedReply = r.1.chunkedReply := rfl
        rw [this, hch'] at hx; exact absurd hx (by simp)
      · intro he
        show k.rwp + n = r.1.plan.size
        have he' : k.eos = true := by rw [← hk.eos]; exact he
        have := hw.eosv he'
        rw [hk.plan]; omega
      · intro hx; rcases hx with hx | hx <;> exact absurd hx (by simp)
      · intro hx; rcases hx with hx | hx <;> exact absurd hx (by simp)

/-- try_ready_normal_body for a known-size reply: the window moves, nothing is sent -/
theorem RW_tryReadyNormal (g : Guards) (k : Conn) (hch : k.chunkedReply = false)
    (hst : k.st = .bodyUnready ∨ k.st = .bodyReady) :
    RW k (tryReadyNormal g k).2.1 (tryReadyNormal g k).1 ∧
    ((tryReadyNormal g k).1.st = k.st ∨ (tryReadyNormal g k).1.st = .bodyUnready) ∧
    (tryReadyNormal g k).1.plan = k.plan ∧ (tryReadyNormal g k).1.rwp = k.rwp := by
  unfold tryReadyNormal
  split
  · exact ⟨RW_rel.refl k, Or.inl rfl, rfl, rfl⟩
  · split
    · exact ⟨RW_rel.refl k, Or.inl rfl, rfl, rfl⟩
    · have sp := callReader_spec g (min 1024 (k.plan.size - k.rwp)) k
      have rt := callReader_ret g (min 1024 (k.plan.size - k.rwp)) k
      generalize callReader g k (min 1024 (k.plan.size - k.rwp)) = r at sp rt
      obtain ⟨hk, _, hwb⟩ := sp
      have hch' : r.1.chunkedReply = false := by unfold Conn.chunkedReply at *; rw [hk.plan]; exact hch
      have hearly : k.st ≠ .bodyReady → r.1.st.early = true := by
        intro h; rw [hk.st]; rcases hst with e | e
        · rw [e]; rfl
        · exact absurd e h
      simp only []
      split
      · refine ⟨?_, Or.inl hk.st, hk.plan, hk.rwp⟩
        have h1 : RW k r.2.1 r.1 := RW_of_rkeeps hk.toR hwb (Or.inl hk.st)
        have h2 : RW r.1 [.fault "end of stream from a known-size reader"] (r.1.setFault "end of stream from a known-size reader").1 :=
          RW_of_rkeeps ⟨rfl, rfl, rfl, rfl, rfl, rfl, rfl⟩ rfl (Or.inl rfl)
        exact RW_rel.trans _ _ _ _ _ h1 h2
      · refine ⟨?_, Or.inr rfl, hk.plan, hk.rwp⟩
        intro w hw
        have hwp : k.wpend = [] := hw.known hch
        rw [hwb, List.append_nil]
        refine ⟨?_, ?_, ?_, ?_, ?_, ?_, ?_, ?_⟩
        · show w ++ r.1.wpend = bodies r.1.done ++ patRange r.1.plan.rid 0 r.1.rwp
          rw [hk.wpend, hk.plan, hk.rwp, hk.done]; exact hw.wire
        · show r.1.rwp ≤ r.1.plan.size
          rw [hk.plan, hk.rwp]; exact hw.le
        · show k.rwp + 0 ≤ r.1.plan.size
          rw [hk.plan]; exact hw.le
        · intro _; show r.1.wpend = []; rw [hk.wpend]; exact hwp
        · intro _; show r.1.wpend = []; rw [hk.wpend]; exact hwp
        · intro he; show r.1.rwp = r.1.plan.size
          rw [hk.rwp, hk.plan]; exact hw.eosv (by rw [← hk.eos]; exact he)
        · intro hx; rcases hx with hx | hx <;> exact absurd hx (by simp)
        · intro hx; rcases hx with hx | hx <;> exact absurd hx (by simp)
      · next n hn hr =>
        refine ⟨?_, Or.inl hk.st, hk.plan, hk.rwp⟩
        intro w hw
        have hwp : k.wpend = [] := hw.known hch
        have hn2 : n ≤ k.plan.size - k.rwp := rt.2 n hr
        have hle := hw.le
        rw [hwb, List.append_nil]
        refine ⟨?_, ?_, ?_, ?_, ?_, ?_, ?_, ?_⟩
        · show w ++ r.1.wpend = bodies r.1.done ++ patRange r.1.plan.rid 0 r.1.rwp
          rw [hk.wpend, hk.plan, hk.rwp, hk.done]; exact hw.wire
        · show r.1.rwp ≤ r.1.plan.size
          rw [hk.plan, hk.rwp]; exact hw.le
        · show k.rwp + n ≤ r.1.plan.size
          rw [hk.plan]; omega
        · intro _; show r.1.wpend = []; rw [hk.wpend]; exact hwp
        · intro _; show r.1.wpend = []; rw [hk.wpend]; exact hwp
        · intro he; show r.1.rwp = r.1.plan.size
          rw [hk.rwp, hk.plan]; exact hw.eosv (by rw [← hk.eos]; exact he)
        · show (r.1.st = .bodySent ∨ r.1.st = .footersSending) → r.1.eos = true
          rw [hk.st, hk.eos]; exact hw.sentv
        · show (r.1.st = .replySent ∨ r.1.st = .finished) → r.1.rwp = r.1.plan.size
          rw [hk.st, hk.rwp, hk.plan]; exact hw.done

theorem RW_writeBodyKnown (g : Guards) (k : Conn) (hch : k.chunkedReply = false) (hst : k.st = .bodyReady) :
    RW k (writeBodyKnown g k).2 (writeBodyKnown g k).1 := by
  unfold writeBodyKnown
  split
  · have t := RW_tryReadyNormal g k hch (Or.inr hst)
    generalize tryReadyNormal g k = r at t
    obtain ⟨hrw, hstr, hplan, hrwp⟩ := t
    simp only []
    split
    · exact hrw
    · split
      · exact hrw
      · intro w hw
        have h1 := hrw w hw
        have hch' : r.1.chunkedReply = false := by unfold Conn.chunkedReply at *; rw [hplan]; exact hch
        have hwp : r.1.wpend = [] := h1.known hch'
        have hwin := h1.win
        have hle := h1.le
        rw [wireBytes_append]
        simp only [wireBytes, List.append_nil]
        rw [← List.append_assoc]
        refine ⟨?_, ?_, ?_, ?_, ?_, ?_, ?_, ?_⟩
        · show (w ++ wireBytes r.2.1 ++ patRange r.1.plan.rid r.1.rwp (r.1.winStart + r.1.winSize - r.1.rwp)) ++ r.1.wpend
            = bodies r.1.done ++ patRange r.1.plan.rid 0 (r.1.rwp + (r.1.winStart + r.1.winSize - r.1.rwp))
          have := h1.wire
          rw [hwp, List.append_nil] at this ⊢
          rw [this, List.append_assoc]
          have := patRange_append r.1.plan.rid 0 r.1.rwp (r.1.winStart + r.1.winSize - r.1.rwp)
          simp only [Nat.zero_add] at this
          rw [this]
        · show r.1.rwp + (r.1.winStart + r.1.winSize - r.1.rwp) ≤ r.1.plan.size
          omega
        · exact hwin
        · intro _; exact hwp
        · intro _; exact hwp
        · intro he
          show r.1.rwp + (r.1.winStart + r.1.winSize - r.1.rwp) = r.1.plan.size
          have := h1.eosv he
          omega
        · show ((if r.1.rwp + (r.1.winStart + r.1.winSize - r.1.rwp) = r.1.plan.size then St.replySent else r.1.st) = .bodySent ∨
                (if r.1.rwp + (r.1.winStart + r.1.winSize - r.1.rwp) = r.1.plan.size then St.replySent else r.1.st) = .footersSending) → r.1.eos = true
          split
          · intro hx; rcases hx with hx | hx <;> exact absurd hx (by simp)
          · exact h1.sentv
        · show ((if r.1.rwp + (r.1.winStart + r.1.winSize - r.1.rwp) = r.1.plan.size then St.replySent else r.1.st) = .replySent ∨
                (if r.1.rwp + (r.1.winStart + r.1.winSize - r.1.rwp) = r.1.plan.size then St.replySent else r.1.st) = .finished) →
              r.1.rwp + (r.1.winStart + r.1.winSize - r.1.rwp) = r.1.plan.size
          split
          · next h => intro _; exact h
          · intro hx
            have := h1.done hx
            omega
  · next hlt =>
    intro w hw
    have hwp : k.wpend = [] := hw.known hch
    simp only [wireBytes_nil, List.append_nil]
    exact ⟨hw.wire, hw.le, hw.win, fun _ => hwp, fun _ => hwp, hw.eosv,
      by intro hx; rcases hx with hx | hx <;> exact absurd hx (by simp),
      fun _ => Nat.le_antisymm hw.le (Nat.le_of_not_lt hlt)⟩

theorem RW_handleWrite (g : Guards) : Sat RW (handleWrite g) := by
  intro k
  unfold handleWrite
  split
  · exact RW_rel.refl k
  · split
    · next hst =>
      exact RW_of_rkeeps ⟨rfl, rfl, rfl, rfl, rfl, rfl, rfl⟩ rfl (Or.inr ⟨by rw [hst]; simp, rfl⟩)
    · next hst =>
      split
      · intro w hw
        simp only [wireBytes, List.append_nil]
        exact ⟨by simpa using hw.wire, hw.le, hw.win, fun _ => rfl, fun _ => rfl, hw.eosv,
          by intro hx; rcases hx with hx | hx <;> exact absurd hx (by simp),
          by intro hx; rcases hx with hx | hx <;> exact absurd hx (by simp)⟩
      · next hc => exact RW_writeBodyKnown g k (by simpa using hc) hst
    · next hst =>
      intro w hw
      have he : k.eos = true := hw.sentv (Or.inr hst)
      have hwp : k.wpend = [] := hw.ready (by rw [hst]; simp)
      simp only [wireBytes, List.append_nil]
      exact ⟨hw.wire, hw.le, hw.win, fun _ => hwp, fun _ => hwp, hw.eosv,
        by intro hx; rcases hx with hx | hx <;> exact absurd hx (by simp), fun _ => hw.eosv he⟩
    · exact RW_rel.refl k

/-- the request boundary: the reply just completed joins `done`, the next one starts at position 0 -/
theorem RW_nextRequest (k : Conn) (hst : k.st = .replySent) : RW k (nextRequest k).2.1 (nextRequest k).1 := by
  intro w hw
  have hwp : k.wpend = [] := hw.ready (by rw [hst]; simp)
  have hdone : k.rwp = k.plan.size := hw.done (Or.inl hst)
  unfold nextRequest
  split
  · simp only [wireBytes, List.append_nil]
    exact ⟨hw.wire, hw.le, hw.win, fun _ => hwp, fun _ => hwp, hw.eosv,
      by intro hx; rcases hx with hx | hx <;> exact absurd hx (by simp), fun _ => hdone⟩
  · next p ps _ =>
    simp only [wireBytes, List.append_nil]
    refine ⟨?_, Nat.zero_le _, Nat.zero_le _, fun _ => rfl, fun _ => rfl, by simp,
      by intro hx; rcases hx with hx | hx <;> exact absurd hx (by simp),
      by intro hx; rcases hx with hx | hx <;> exact absurd hx (by simp)⟩
    show w ++ [] = bodies (k.done ++ [k.plan]) ++ patRange p.rid 0 0
    have := hw.wire
    rw [hwp, hdone] at this
    rw [this, bodies_append]
    simp [bodies, patRange]

theorem RW_idleStep (g : Guards) (k : Conn) : RW k (idleStep g k).2.1 (idleStep g k).1 := by
  unfold idleStep
  split
  · next hst =>
    unfold stRecvHead; split
    · exact RW_of_rkeeps ⟨rfl, rfl, rfl, rfl, rfl, rfl, rfl⟩ rfl (Or.inr ⟨by rw [hst]; simp, rfl⟩)
    · exact RW_rel.refl k
  · next hst =>
    unfold stHdrProcessed; simp only []
    have sp := callFirst_spec g k
    split
    · exact RW_of_rkeeps sp.1.toR sp.2.2 (Or.inl sp.1.st)
    · refine RW_of_rkeeps ⟨sp.1.plan, sp.1.rwp, sp.1.wpend, sp.1.eos, sp.1.winStart, sp.1.winSize, sp.1.done⟩ sp.2.2
        (Or.inr ⟨by rw [hst]; simp, ?_⟩)
      show (if k.plan.noBody = true then St.fullReq else St.bodyRecv).early = true
      split <;> rfl
  · next hst =>
    unfold stBodyRecv; simp only []
    have h : RKS k (if k.rbuf.isEmpty = true then (k, []) else procBody g k).2
                   (if k.rbuf.isEmpty = true then (k, []) else procBody g k).1 := by
      split
      · exact RKS_rel.refl k
      · exact RKS_procBody g k
    generalize (if k.rbuf.isEmpty = true then (k, []) else procBody g k) = r at h ⊢
    split
    · exact RW_of_rkeeps ⟨h.1.plan, h.1.rwp, h.1.wpend, h.1.eos, h.1.winStart, h.1.winSize, h.1.done⟩ h.2.2
        (Or.inr ⟨by rw [hst]; simp, rfl⟩)
    · exact RW_of_rkeeps h.1 h.2.2 (Or.inl h.2.1)
  · next hst =>
    refine RW_of_rkeeps ⟨rfl, rfl, rfl, rfl, rfl, rfl, rfl⟩ rfl (Or.inr ⟨by rw [hst]; simp, ?_⟩)
    show (if k.chunkedUp = true then St.footersRecv else St.fullReq).early = true
    split <;> rfl
  · next hst =>
    unfold stFootersRecv; split
    · exact RW_of_rkeeps ⟨rfl, rfl, rfl, rfl, rfl, rfl, rfl⟩ rfl (Or.inr ⟨by rw [hst]; simp, rfl⟩)
    · exact RW_rel.refl k
  · next hst =>
    unfold stFullReq; simp only []
    have sp := callFinal_spec g k
    split
    · exact RW_of_rkeeps ⟨sp.1.plan, sp.1.rwp, sp.1.wpend, sp.1.eos, sp.1.winStart, sp.1.winSize, sp.1.done⟩ sp.2.2
        (Or.inr ⟨by rw [hst]; simp, rfl⟩)
    · exact RW_of_rkeeps sp.1.toR sp.2.2 (Or.inl sp.1.st)
  · exact RW_rel.refl k
  · next hst => exact RW_of_rkeeps ⟨rfl, rfl, rfl, rfl, rfl, rfl, rfl⟩ rfl (Or.inr ⟨by rw [hst]; simp, rfl⟩)
  · next hst =>
    unfold stBodyUnready
    split
    · next hc => exact RW_readyChunked g k hst hc
    · next hc =>
      have hc' : k.chunkedReply = false := by simpa using hc
      split
      · next hz =>
        intro w hw
        have hwp : k.wpend = [] := hw.known hc'
        simp only [wireBytes_nil, List.append_nil]
        exact ⟨hw.wire, hw.le, hw.win, fun _ => hwp, fun _ => hwp, hw.eosv,
          by intro hx; rcases hx with hx | hx <;> exact absurd hx (by simp),
          fun _ => by
            show k.rwp = k.plan.size
            have := hw.le; omega⟩
      · have t := RW_tryReadyNormal g k hc' (Or.inl hst)
        generalize tryReadyNormal g k = r at t
        obtain ⟨hrw, hstr, hplan, _⟩ := t
        simp only []
        split
        · intro w hw
          have h1 := hrw w hw
          have hch'' : r.1.chunkedReply = false := by unfold Conn.chunkedReply at *; rw [hplan]; exact hc'
          have hwp : r.1.wpend = [] := h1.known hch''
          exact ⟨h1.wire, h1.le, h1.win, fun _ => hwp, fun _ => hwp, h1.eosv,
            by intro hx; rcases hx with hx | hx <;> exact absurd hx (by simp),
            by intro hx; rcases hx with hx | hx <;> exact absurd hx (by simp)⟩
        · exact hrw
  · exact RW_rel.refl k
  · next hst =>
    intro w hw
    have he : k.eos = true := hw.sentv (Or.inl hst)
    have hwp : k.wpend = [] := hw.ready (by rw [hst]; simp)
    simp only [wireBytes_nil, List.append_nil]
    exact ⟨hw.wire, hw.le, hw.win, fun _ => hwp, fun _ => hwp, hw.eosv, fun _ => he,
      by intro hx; rcases hx with hx | hx <;> exact absurd hx (by simp)⟩
  · exact RW_rel.refl k
  · next hst => exact RW_nextRequest k hst
  · exact RW_rel.refl k

theorem RW_setFault (k : Conn) (w : String) : RW k [.fault w] (k.setFault w).1 :=
  RW_of_rkeeps ⟨rfl, rfl, rfl, rfl, rfl, rfl, rfl⟩ rfl (Or.inl rfl)

theorem updateEli_rkeeps (g : Guards) (k : Conn) : RKeeps k (updateEli g k) ∧ (updateEli g k).st = k.st := by
  unfold updateEli; split <;> exact ⟨⟨rfl, rfl, rfl, rfl, rfl, rfl, rfl⟩, rfl⟩

theorem epollUpdate_rkeeps (k : Conn) : RKeeps k (epollUpdate k) ∧ (epollUpdate k).st = k.st := by
  unfold epollUpdate; simp only []; split <;> split <;> exact ⟨⟨rfl, rfl, rfl, rfl, rfl, rfl, rfl⟩, rfl⟩

theorem RW_handleIdle (g : Guards) (ep : Bool) : Sat RW (handleIdle g ep) := by
  apply sat_handleIdle RW_rel
  · exact sat_idleLoop RW_rel RW_setFault (fun k _ => RW_idleStep g k) _
  · intro k; have := updateEli_rkeeps g k; exact RW_of_rkeeps this.1 rfl (Or.inl this.2)
  · intro k; have := epollUpdate_rkeeps k; exact RW_of_rkeeps this.1 rfl (Or.inl this.2)

theorem RW_handleRead (g : Guards) : Sat RW (handleRead g) := by
  intro k
  unfold handleRead
  split
  · exact RW_rel.refl k
  · split
    · exact RW_of_rkeeps ⟨rfl, rfl, rfl, rfl, rfl, rfl, rfl⟩ rfl (Or.inl rfl)
    · exact RW_of_rkeeps ⟨rfl, rfl, rfl, rfl, rfl, rfl, rfl⟩ rfl (Or.inl rfl)

theorem RInv_init (p : Plan) (l : List Plan) : RInv { plan := p, later := l } [] :=
  ⟨rfl, Nat.zero_le _, Nat.zero_le _, fun _ => rfl, fun _ => rfl, by simp, by simp, by simp⟩

theorem run_reply_inv (g : Guards) (ops : List Op) (d : Daemon) (c : Nat) (h0 : RInv (d.conn c) []) :
    RInv ((run g d ops).1.conn c) (wireBytes (proj c (run g d ops).2)) := by
  have h := Lift_run RW_rel RW_flag g (RW_handleRead g) (RW_handleWrite g) (fun ep => RW_handleIdle g ep)
    (fun k syms => RW_of_rkeeps ⟨rfl, rfl, rfl, rfl, rfl, rfl, rfl⟩ rfl (Or.inl rfl)) ops d c [] h0
  simpa using h

/-- the requests of the connection that have been served completely -/
def Conn.served (k : Conn) : List Plan := if k.st = .finished then k.done ++ [k.plan] else k.done

theorem run_reply (g : Guards) (ops : List Op) (m : Mode) (plans : Nat → Plan) (later : Nat → List Plan) (c : Nat) :
    let r := run g (Daemon.init m plans later) ops
    let k := r.1.conn c
    wireBytes (proj c r.2) ++ k.wpend = bodies k.done ++ patRange k.plan.rid 0 k.rwp ∧ k.rwp ≤ k.plan.size ∧
    (k.st = .finished → wireBytes (proj c r.2) = bodies (k.done ++ [k.plan])) := by
  have h := run_reply_inv g ops (Daemon.init m plans later) c (RInv_init (plans c) (later c))
  refine ⟨h.wire, h.le, fun hf => ?_⟩
  have hwp := h.ready (by rw [hf]; simp)
  have := h.wire
  rw [hwp, List.append_nil, h.done (Or.inr hf)] at this
  rw [this, bodies_append]
  simp [bodies]

/-! ### Content-Length uploads: how much has been consumed, over the whole pipeline -/

def St.pre : St → Bool
  | .recvHead | .hdrProcessed | .bodyRecv => true
  | _ => false

/-- declared body length of a request (0 for a chunked one: not known from the head) -/
def Plan.clen (p : Plan) : Nat := match p.body with | .cl n => n | _ => 0

def clSum : List Plan → Nat
  | [] => 0
  | p :: r => p.clen + clSum r

theorem clSum_append (a b : List Plan) : clSum (a ++ b) = clSum a + clSum b := by
  induction a with
  | nil => simp [clSum]
  | cons p r ih => simp [clSum, ih, Nat.add_assoc]

/-- no request of the connection uses a chunked upload -/
def NoChunk (k : Conn) : Prop := ∀ p ∈ k.script, p.body ≠ .chunked

/-- `u` = all upload bytes the handler has consumed on this connection -/
structure CInv (k : Conn) (u : List UInt8) : Prop where
  head : k.st = .recvHead → u.length = clSum k.done
  hdr : k.st = .hdrProcessed → u.length = clSum k.done ∧ k.remaining = k.plan.clen
  body : k.st = .bodyRecv → u.length + k.remaining = clSum k.done + k.plan.clen
  late : k.st.pre = false → u.length = clSum k.done + k.plan.clen

def CW (k : Conn) (evs : List CEv) (k' : Conn) : Prop :=
  k'.script = k.script ∧ (NoChunk k → ∀ u, CInv k u → CInv k' (u ++ upBytes evs))

theorem CW_rel : TurnRel CW where
  refl := fun k => ⟨rfl, fun _ u h => by simpa using h⟩
  trans := by
    intro k e1 k1 e2 k2 h1 h2
    refine ⟨h2.1.trans h1.1, fun hn u hu => ?_⟩
    have hn1 : NoChunk k1 := by unfold NoChunk; rw [h1.1]; exact hn
    have := h2.2 hn1 _ (h1.2 hn u hu)
    rw [upBytes_append]; simpa [List.append_assoc] using this

theorem script_of_eq {k k' : Conn} (h1 : k'.plan = k.plan) (h2 : k'.later = k.later) (h3 : k'.done = k.done) :
    k'.script = k.script := by unfold Conn.script; rw [h1, h2, h3]

/-- no upload bytes in the events; state, `remaining`, plan and `done` kept -/
theorem CI_same {k k' : Conn} {evs} {u} (hs : k'.st = k.st) (hr : k'.remaining = k.remaining) (hp : k'.plan = k.plan)
    (hd : k'.done = k.done) (he : upBytes evs = []) (hu : CInv k u) : CInv k' (u ++ upBytes evs) := by
  rw [he, List.append_nil]
  exact ⟨by rw [hs, hd]; exact hu.head, by rw [hs, hd, hr, hp]; exact hu.hdr, by rw [hs, hd, hr, hp]; exact hu.body,
    by rw [hs, hd, hp]; exact hu.late⟩

theorem CW_of_keeps {k k' : Conn} {evs} (h : Keeps k k') (he : upBytes evs = []) : CW k evs k' :=
  ⟨script_of_eq h.plan h.later h.done, fun _ _ hu => CI_same h.st h.remaining h.plan h.done he hu⟩

/-- no upload bytes in the events, and the state moves between states after the body -/
theorem CI_late {k k' : Conn} {evs} {u} (hp : k'.plan = k.plan) (hd : k'.done = k.done) (he : upBytes evs = [])
    (h1 : k.st.pre = false) (h2 : k'.st.pre = false) (hu : CInv k u) : CInv k' (u ++ upBytes evs) := by
  rw [he, List.append_nil]
  refine ⟨?_, ?_, ?_, fun _ => by rw [hd, hp]; exact hu.late h1⟩
  · intro hx; rw [hx] at h2; exact absurd h2 (by simp [St.pre])
  · intro hx; rw [hx] at h2; exact absurd h2 (by simp [St.pre])
  · intro hx; rw [hx] at h2; exact absurd h2 (by simp [St.pre])

theorem CW_of_late {k k' : Conn} {evs} (hs : k'.script = k.script) (hp : k'.plan = k.plan) (hd : k'.done = k.done)
    (he : upBytes evs = []) (h1 : k.st.pre = false) (h2 : k'.st.pre = false) : CW k evs k' :=
  ⟨hs, fun _ _ hu => CI_late hp hd he h1 h2 hu⟩

theorem CW_flag : FlagOK CW := fun _ _ _ hk h1 _ => CW_of_keeps hk h1

theorem CI_procBodyCL (g : Guards) (k : Conn) (hst : k.st = .bodyRecv) (u : List UInt8) (hinv : CInv k u) :
    CInv (procBodyCL g k).1 (u ++ upBytes (procBodyCL g k).2) ∧ (procBodyCL g k).1.st = .bodyRecv := by
  simp only [procBodyCL]
  split
  · exact ⟨by simpa using hinv, hst⟩
  · have sp := callUpload_spec g k ((leadBytes k.rbuf).take (min k.remaining (leadBytes k.rbuf).length))
    generalize callUpload g k ((leadBytes k.rbuf).take (min k.remaining (leadBytes k.rbuf).length)) = r at sp
    obtain ⟨hk, hu, _, hle⟩ := sp
    have hle2 : r.2.2 ≤ min k.remaining (leadBytes k.rbuf).length := by simpa using hle
    have hlen : (((leadBytes k.rbuf).take (min k.remaining (leadBytes k.rbuf).length)).take r.2.2).length = r.2.2 := by
      rw [List.length_take, List.length_take]; omega
    have hb := hinv.body hst
    have hst' : r.1.st = .bodyRecv := by rw [hk.st]; exact hst
    refine ⟨⟨?_, ?_, ?_, ?_⟩, hst'⟩
    · intro hx; have : r.1.st = .recvHead := hx; rw [hst'] at this; exact absurd this (by simp)
    · intro hx; have : r.1.st = .hdrProcessed := hx; rw [hst'] at this; exact absurd this (by simp)
    · intro _
      show (u ++ upBytes r.2.1).length + (r.1.remaining - r.2.2) = clSum r.1.done + r.1.plan.clen
      rw [hu, List.length_append, hlen, hk.remaining, hk.done, hk.plan]
      have : r.2.2 ≤ k.remaining := Nat.le_trans hle2 (Nat.min_le_left _ _)
      omega
    · intro hx; have : r.1.st.pre = false := hx; rw [hst'] at this; exact absurd this (by simp [St.pre])

theorem readyChunked_late (g : Guards) (k : Conn) (h : k.st.pre = false) :
    (readyChunked g k).1.st.pre = false ∧ (readyChunked g k).1.plan = k.plan ∧ (readyChunked g k).1.done = k.done := by
  unfold readyChunked
  split
  · exact ⟨rfl, rfl, rfl⟩
  · have sp := callReader_spec g (2 ^ 24 - 1) k
    simp only []
    split
    · exact ⟨rfl, sp.1.plan, sp.1.done⟩
    · exact ⟨by rw [sp.1.st]; exact h, sp.1.plan, sp.1.done⟩
    · exact ⟨rfl, sp.1.plan, sp.1.done⟩

theorem tryReadyNormal_late (g : Guards) (k : Conn) (h : k.st.pre = false) :
    (tryReadyNormal g k).1.st.pre = false ∧ (tryReadyNormal g k).1.plan = k.plan ∧ (tryReadyNormal g k).1.done = k.done := by
  unfold tryReadyNormal
  split
  · exact ⟨h, rfl, rfl⟩
  · split
    · exact ⟨h, rfl, rfl⟩
    · have sp := callReader_spec g (min 1024 (k.plan.size - k.rwp)) k
      simp only []
      split
      · exact ⟨by show (callReader g k (min 1024 (k.plan.size - k.rwp))).1.st.pre = false; rw [sp.1.st]; exact h, sp.1.plan, sp.1.done⟩
      · exact ⟨rfl, sp.1.plan, sp.1.done⟩
      · exact ⟨by show (callReader g k (min 1024 (k.plan.size - k.rwp))).1.st.pre = false; rw [sp.1.st]; exact h, sp.1.plan, sp.1.done⟩

theorem noBody_clen {p : Plan} (h : p.noBody = true) : p.clen = 0 := by
  unfold Plan.noBody at h; unfold Plan.clen
  cases hb : p.body with
  | none => rfl
  | cl n => rw [hb] at h; simpa using h
  | chunked => rw [hb] at h

theorem CI_nextRequest (k : Conn) (hst : k.st = .replySent) (u : List UInt8) (hu : CInv k u) :
    CInv (nextRequest k).1 (u ++ upBytes (nextRequest k).2.1) := by
  have hl := hu.late (by rw [hst]; rfl)
  unfold nextRequest
  split
  · simp only [upBytes, List.append_nil]
    exact ⟨by simp, by simp, by simp, fun _ => hl⟩
  · simp only [upBytes, List.append_nil]
    refine ⟨fun _ => ?_, by simp, by simp, by simp [St.pre]⟩
    show u.length = clSum (k.done ++ [k.plan])
    rw [clSum_append, hl]; simp [clSum]

theorem CW_idleStep (g : Guards) (hg : g.shortcut = true) (k : Conn) : CW k (idleStep g k).2.1 (idleStep g k).1 := by
  refine ⟨(FrS_idleStep g hg k).1, fun hn u hu => ?_⟩
  have hnc : k.plan.body ≠ .chunked := hn k.plan (plan_mem_script k)
  unfold idleStep
  split
  · next hst =>
    unfold stRecvHead; split
    · have hu0 := hu.head hst
      simp only [upBytes_nil, List.append_nil]
      exact ⟨by simp, fun _ => ⟨hu0, rfl⟩, by simp, by simp [St.pre]⟩
    · simpa using hu
  · next hst =>
    unfold stHdrProcessed; simp only []
    have sp := callFirst_spec g k
    have hh := hu.hdr hst
    split
    · exact CI_same (k := k) sp.1.st sp.1.remaining sp.1.plan sp.1.done sp.2.1 hu
    · rw [sp.2.1, List.append_nil]
      by_cases hnb : k.plan.noBody = true
      · simp only [hnb, if_true]
        refine ⟨by simp, by simp, by simp, fun _ => ?_⟩
        show u.length = clSum (callFirst g k).1.done + (callFirst g k).1.plan.clen
        rw [sp.1.done, sp.1.plan, noBody_clen hnb]; exact hh.1
      · simp only [hnb]
        refine ⟨by simp, by simp, fun _ => ?_, by simp [St.pre]⟩
        show u.length + (callFirst g k).1.remaining = clSum (callFirst g k).1.done + (callFirst g k).1.plan.clen
        rw [sp.1.remaining, sp.1.done, sp.1.plan, hh.1, hh.2]
  · next hst =>
    unfold stBodyRecv; simp only []
    have hncu : k.chunkedUp = false := by
      unfold Conn.chunkedUp
      cases hb : k.plan.body with
      | chunked => exact absurd hb hnc
      | _ => rfl
    have h : CInv (if k.rbuf.isEmpty = true then (k, []) else procBody g k).1
                  (u ++ upBytes (if k.rbuf.isEmpty = true then (k, []) else procBody g k).2) ∧
             (if k.rbuf.isEmpty = true then (k, []) else procBody g k).1.st = .bodyRecv ∧
             (if k.rbuf.isEmpty = true then (k, []) else procBody g k).1.plan = k.plan := by
      split
      · exact ⟨by simpa using hu, hst, rfl⟩
      · have hp : (procBody g k).1.plan = k.plan := (RKS_procBody g k).1.plan
        unfold procBody at hp ⊢; simp only [hncu] at hp ⊢
        exact ⟨(CI_procBodyCL g k hst u hu).1, (CI_procBodyCL g k hst u hu).2, hp⟩
    generalize (if k.rbuf.isEmpty = true then (k, []) else procBody g k) = r at h ⊢
    obtain ⟨b, hst', hp'⟩ := h
    have hnc' : r.1.chunkedUp = false := by unfold Conn.chunkedUp at *; rw [hp']; exact hncu
    split
    · next hd =>
      have hb := b.body hst'
      have hrem : r.1.remaining = 0 := by
        unfold Conn.bodyDone at hd; simp only [hnc'] at hd; simpa using hd
      refine ⟨by simp, by simp, by simp, fun _ => ?_⟩
      show (u ++ upBytes r.2).length = clSum r.1.done + r.1.plan.clen
      omega
    · exact b
  · next hst => exact CI_late (k := k) rfl rfl rfl (by rw [hst]; rfl) (by show (if k.chunkedUp = true then St.footersRecv else St.fullReq).pre = false; split <;> rfl) hu
  · next hst =>
    unfold stFootersRecv; split
    · exact CI_late (k := k) rfl rfl rfl (by rw [hst]; rfl) rfl hu
    · simpa using hu
  · next hst =>
    unfold stFullReq; simp only []
    have sp := callFinal_spec g k
    split
    · exact CI_late (k := k) sp.1.plan sp.1.done sp.2.1 (by rw [hst]; rfl) rfl hu
    · exact CI_same (k := k) sp.1.st sp.1.remaining sp.1.plan sp.1.done sp.2.1 hu
  · simpa using hu
  · next hst => exact CI_late (k := k) rfl rfl rfl (by rw [hst]; rfl) rfl hu
  · next hst =>
    have hl : k.st.pre = false := by rw [hst]; rfl
    unfold stBodyUnready; split
    · have sp := readyChunked_keeps g k
      have sl := readyChunked_late g k hl
      exact CI_late (k := k) sl.2.1 sl.2.2 sp.2.2.2 hl sl.1 hu
    · split
      · exact CI_late (k := k) rfl rfl rfl hl rfl hu
      · have sp := tryReadyNormal_keeps g k
        have sl := tryReadyNormal_late g k hl
        simp only []; split
        · exact CI_late (k := k) sl.2.1 sl.2.2 sp.2.2.2 hl rfl hu
        · exact CI_late (k := k) sl.2.1 sl.2.2 sp.2.2.2 hl sl.1 hu
  · simpa using hu
  · next hst => exact CI_late (k := k) rfl rfl rfl (by rw [hst]; rfl) rfl hu
  · simpa using hu
  · next hst => exact CI_nextRequest k hst u hu
  · simpa using hu

theorem writeBodyKnown_late (g : Guards) (k : Conn) (h : k.st.pre = false) :
    (writeBodyKnown g k).1.st.pre = false ∧ (writeBodyKnown g k).1.plan = k.plan ∧ (writeBodyKnown g k).1.done = k.done := by
  unfold writeBodyKnown
  have sl := tryReadyNormal_late g k h
  split
  · simp only []
    split
    · exact sl
    · split
      · exact sl
      · refine ⟨?_, sl.2.1, sl.2.2⟩
        show (if (tryReadyNormal g k).1.rwp + ((tryReadyNormal g k).1.winStart + (tryReadyNormal g k).1.winSize - (tryReadyNormal g k).1.rwp)
                = (tryReadyNormal g k).1.plan.size then St.replySent else (tryReadyNormal g k).1.st).pre = false
        split
        · rfl
        · exact sl.1
  · exact ⟨rfl, rfl, rfl⟩

theorem CW_handleWrite (g : Guards) (hg : g.shortcut = true) : Sat CW (handleWrite g) := by
  intro k
  refine ⟨(Fr_handleWrite g hg k).1, fun _ u hu => ?_⟩
  unfold handleWrite
  split
  · simpa using hu
  · split
    · next hst => exact CI_late (k := k) rfl rfl rfl (by rw [hst]; rfl) rfl hu
    · next hst =>
      split
      · exact CI_late (k := k) rfl rfl rfl (by rw [hst]; rfl) rfl hu
      · have sp := writeBodyKnown_keeps g k
        have sl := writeBodyKnown_late g k (by rw [hst]; rfl)
        exact CI_late (k := k) sl.2.1 sl.2.2 sp.2.2.2 (by rw [hst]; rfl) sl.1 hu
    · next hst => exact CI_late (k := k) rfl rfl rfl (by rw [hst]; rfl) rfl hu
    · simpa using hu

theorem CW_handleRead (g : Guards) : Sat CW (handleRead g) := by
  intro k
  refine ⟨(Fr_handleRead g k).1, fun _ u hu => ?_⟩
  unfold handleRead
  split
  · simpa using hu
  · split
    · exact CI_same (k := k) rfl rfl rfl rfl rfl hu
    · exact CI_same (k := k) rfl rfl rfl rfl rfl hu

theorem CW_handleIdle (g : Guards) (hg : g.shortcut = true) (ep : Bool) : Sat CW (handleIdle g ep) := by
  apply sat_handleIdle CW_rel
  · refine sat_idleLoop CW_rel ?_ (fun k _ => CW_idleStep g hg k) _
    intro k w
    exact CW_of_keeps ⟨rfl, rfl, rfl, rfl, rfl, rfl, rfl, rfl, rfl, rfl, rfl, rfl, rfl, rfl, rfl, rfl⟩ rfl
  · intro k
    have h : Keeps k (updateEli g k) := by
      unfold updateEli; split <;> exact ⟨rfl, rfl, rfl, rfl, rfl, rfl, rfl, rfl, rfl, rfl, rfl, rfl, rfl, rfl, rfl, rfl⟩
    exact CW_of_keeps h rfl
  · intro k
    have h : Keeps k (epollUpdate k) := by
      unfold epollUpdate; simp only []; split <;> split <;> exact ⟨rfl, rfl, rfl, rfl, rfl, rfl, rfl, rfl, rfl, rfl, rfl, rfl, rfl, rfl, rfl, rfl⟩
    exact CW_of_keeps h rfl

/-- the scripts of a connection never change; the requests are served in script order -/
theorem run_script (g : Guards) (hg : g.shortcut = true) (ops : List Op) (m : Mode) (plans : Nat → Plan)
    (later : Nat → List Plan) (c : Nat) :
    ((run g (Daemon.init m plans later) ops).1.conn c).script = plans c :: later c := by
  have h := Lift_run (R := fun k _ k' => k'.script = k.script) ⟨fun _ => rfl, fun _ _ _ _ _ h1 h2 => h2.trans h1⟩
    (fun _ _ _ hk _ _ => script_of_eq hk.plan hk.later hk.done) g (fun k => (Fr_handleRead g k).1) (fun k => (Fr_handleWrite g hg k).1)
    (fun ep k => (Fr_handleIdle g hg ep k).1) (fun _ _ => rfl) ops (Daemon.init m plans later) c
  simpa [Daemon.init, Conn.script] using h

/-- a pipeline of Content-Length (or body-less) requests: the handler has consumed exactly the declared
    lengths of the requests served so far, plus what the invariant says about the current one -/
theorem run_count (g : Guards) (hg : g.shortcut = true) (ops : List Op) (m : Mode) (plans : Nat → Plan)
    (later : Nat → List Plan) (c : Nat) (hp : ∀ p ∈ plans c :: later c, p.body ≠ .chunked) :
    CInv ((run g (Daemon.init m plans later) ops).1.conn c) (upBytes (proj c (run g (Daemon.init m plans later) ops).2)) := by
  have h := Lift_run CW_rel CW_flag g (CW_handleRead g) (CW_handleWrite g hg) (fun ep => CW_handleIdle g hg ep)
    (fun k syms => ⟨rfl, fun _ u hu => CI_same (k := k) rfl rfl rfl rfl rfl hu⟩) ops (Daemon.init m plans later) c
  have hn : NoChunk ((Daemon.init m plans later).conn c) := by simpa [NoChunk, Daemon.init, Conn.script] using hp
  have := h.2 hn [] ⟨fun _ => rfl, by simp [Daemon.init], by simp [Daemon.init], by simp [Daemon.init, St.pre]⟩
  simpa using this

theorem erase_fields {p q : Plan} (h : p.erase = q.erase) :
    p.body = q.body ∧ p.rkind = q.rkind ∧ p.size = q.size ∧ p.cbmax = q.cbmax ∧ p.rid = q.rid := by
  unfold Plan.erase at h
  injection h with h1 h2 h3 h4 h5 h6 h7 h8 h9 h10 h11
  exact ⟨h1, h8, h9, h10, h11⟩

theorem prefix_eq_of_length {α} {a b l1 l2 : List α} (h : a ++ l1 = b ++ l2) (hl : a.length = b.length) : a = b := by
  have := List.append_inj h hl
  exact this.1

/-- `bodies` and `clSum` only look at fields that `erase` keeps -/
theorem bodies_erase : ∀ {a b : List Plan}, a.map Plan.erase = b.map Plan.erase → bodies a = bodies b ∧ clSum a = clSum b ∧
    ((∀ p ∈ a, p.body ≠ .chunked) → ∀ p ∈ b, p.body ≠ .chunked)
  | [], [], _ => ⟨rfl, rfl, fun h => h⟩
  | [], _ :: _, h => by simp at h
  | _ :: _, [], h => by simp at h
  | p :: a, q :: b, h => by
    simp only [List.map_cons, List.cons.injEq] at h
    have ef := erase_fields h.1
    have ih := bodies_erase h.2
    refine ⟨by simp [bodies, ef.2.2.1, ef.2.2.2.2, ih.1], by simp [clSum, Plan.clen, ef.1, ih.2.1], ?_⟩
    intro hh x hx
    rcases List.mem_cons.1 hx with e | e
    · subst e; rw [← ef.1]; exact hh p List.mem_cons_self
    · exact ih.2.2 (fun y hy => hh y (List.mem_cons_of_mem _ hy)) x e

/-- at the end of the pipeline everything has been served -/
theorem finished_script (g : Guards) (hg : g.shortcut = true) (ops : List Op) (m : Mode) (plans : Nat → Plan)
    (later : Nat → List Plan) (c : Nat)
    (hl : ((run g (Daemon.init m plans later) ops).1.conn c).later = []) :
    ((run g (Daemon.init m plans later) ops).1.conn c).done ++ [((run g (Daemon.init m plans later) ops).1.conn c).plan]
      = plans c :: later c := by
  have := run_script g hg ops m plans later c
  unfold Conn.script at this
  rw [hl] at this; exact this

/-- STUTTER EQUIVALENCE over a keep-alive pipeline (see Mhd.Props.C11) -/
theorem stutter (g : Guards) (hg : g.Sound) (m₁ m₂ : Mode) (pl₁ pl₂ : Nat → Plan) (la₁ la₂ : Nat → List Plan)
    (ops₁ ops₂ : List Op) (c : Nat)
    (hplan : (pl₁ c :: la₁ c).map Plan.erase = (pl₂ c :: la₂ c).map Plan.erase)
    (hsent : dataOf ((run g (Daemon.init m₁ pl₁ la₁) ops₁).1.conn c).sent = dataOf ((run g (Daemon.init m₂ pl₂ la₂) ops₂).1.conn c).sent)
    (hf₁ : ((run g (Daemon.init m₁ pl₁ la₁) ops₁).1.conn c).st = .finished ∧ ((run g (Daemon.init m₁ pl₁ la₁) ops₁).1.conn c).later = [])
    (hf₂ : ((run g (Daemon.init m₂ pl₂ la₂) ops₂).1.conn c).st = .finished ∧ ((run g (Daemon.init m₂ pl₂ la₂) ops₂).1.conn c).later = []) :
    wireBytes (proj c (run g (Daemon.init m₁ pl₁ la₁) ops₁).2) = wireBytes (proj c (run g (Daemon.init m₂ pl₂ la₂) ops₂).2) ∧
    ((∀ p ∈ pl₁ c :: la₁ c, p.body ≠ .chunked) →
      upBytes (proj c (run g (Daemon.init m₁ pl₁ la₁) ops₁).2) = upBytes (proj c (run g (Daemon.init m₂ pl₂ la₂) ops₂).2)) := by
  have hs := hg.2.2.2.2.2.2.2
  have be := bodies_erase hplan
  have s1 := finished_script g hs ops₁ m₁ pl₁ la₁ c hf₁.2
  have s2 := finished_script g hs ops₂ m₂ pl₂ la₂ c hf₂.2
  refine ⟨?_, ?_⟩
  · have r1 := (run_reply g ops₁ m₁ pl₁ la₁ c).2.2 hf₁.1
    have r2 := (run_reply g ops₂ m₂ pl₂ la₂ c).2.2 hf₂.1
    rw [r1, r2, s1, s2]; exact be.1
  · intro hn
    have c1 := (run_count g hs ops₁ m₁ pl₁ la₁ c hn).late (by rw [hf₁.1]; rfl)
    have c2 := (run_count g hs ops₂ m₂ pl₂ la₂ c (be.2.2 hn)).late (by rw [hf₂.1]; rfl)
    have e1 : clSum ((run g (Daemon.init m₁ pl₁ la₁) ops₁).1.conn c).done + ((run g (Daemon.init m₁ pl₁ la₁) ops₁).1.conn c).plan.clen
        = clSum (pl₁ c :: la₁ c) := by rw [← s1, clSum_append]; simp [clSum]
    have e2 : clSum ((run g (Daemon.init m₂ pl₂ la₂) ops₂).1.conn c).done + ((run g (Daemon.init m₂ pl₂ la₂) ops₂).1.conn c).plan.clen
        = clSum (pl₂ c :: la₂ c) := by rw [← s2, clSum_append]; simp [clSum]
    have u1 := run_upload g ops₁ (Daemon.init m₁ pl₁ la₁) c rfl
    have u2 := run_upload g ops₂ (Daemon.init m₂ pl₂ la₂) c rfl
    rw [hsent, ← u2] at u1
    simp only [List.append_assoc] at u1
    exact prefix_eq_of_length u1 (by rw [c1, c2, e1, e2]; exact be.2.1)

end Mhd.Susp
