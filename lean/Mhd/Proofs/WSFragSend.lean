/-
  C19 helper lemmas, part 22: the sending side of a fragmented message — the application calls
  MHD_websocket_encode_text / _binary with FRAGMENTATION_FIRST / FOLLOWING / LAST and
  MHD_websocket_encode_ping / _pong in between, and sends the frames it gets one after the other.
  What goes over the wire is the RFC 6455 framing `wireOf` of each payload.
-/
import Mhd.Proofs.WSFragMsg
namespace Mhd.WS

/-- the result of the common tail of the encoders when the allocation succeeds, all fields -/
theorem encodeFrame_full (wsS : WS) (b0 : UInt8) (n : Nat) (body : List UInt8 → List UInt8)
    (hb : ∀ m, (body m).length = n) (hal : overheadSize wsS n + n + 1 ≤ wsS.allocLimit) :
    ∃ k : Key,
      encodeFrame wsS b0 n body =
        { ws := (maskFor wsS).1, st := 0,
          frame := some (frameBytes wsS.isClient b0 n (keyOf wsS.isClient k) (body (keyOf wsS.isClient k)) ++ [0]),
          len := overheadSize wsS n + n } ∧
      (frameBytes wsS.isClient b0 n (keyOf wsS.isClient k) (body (keyOf wsS.isClient k))).length = overheadSize wsS n + n := by
  obtain ⟨m1, m2, m3, m4, hmk⟩ := maskFor_snd wsS
  refine ⟨(m1, m2, m3, m4), ?_⟩
  have hal' : alloc (maskFor wsS).1 (overheadSize wsS n + n + 1) =
      some (List.replicate (overheadSize wsS n + n + 1) 0) := by
    obtain ⟨r, hr⟩ := maskFor_ws wsS
    unfold alloc
    rw [hr]
    exact if_pos hal
  have hk : keyOf wsS.isClient (m1, m2, m3, m4) = (maskFor wsS).2 := by rw [hmk]; rfl
  have hlen : (frameBytes wsS.isClient b0 n (maskFor wsS).2 (body (maskFor wsS).2)).length = overheadSize wsS n + n := by
    unfold frameBytes overheadSize
    rw [hmk]
    simp only [List.length_cons, List.length_append, lenBytes_length, hb]
    cases wsS.isClient <;> simp <;> omega
  rw [hk]
  refine ⟨?_, hlen⟩
  unfold encodeFrame
  simp only [hal', hlen, if_true]

/-! ### the sending application -/

/-- the sending application: its stream, its `utf8_step` variable, what it has sent so far -/
structure Tx where
  ws : WS
  u8 : Nat
  wire : List UInt8
  deriving Repr, DecidableEq

/-- `if (MHD_WEBSOCKET_STATUS_OK == ret) send (frame, frame_len)` -/
def txAdd (tx : Tx) (r : EncRes) (u : Nat) : Option Tx :=
  if r.st = 0 ∧ r.fault = false then
    match r.frame with
    | some f => some { ws := r.ws, u8 := u, wire := tx.wire ++ f.take r.len }
    | none => none
  else none

/-- `MHD_websocket_encode_text (ws, p, |p|, frag, &frame, &len, &utf8_step)` for a text
    message (`op = 1`), `MHD_websocket_encode_binary (ws, p, |p|, frag, &frame, &len)` otherwise -/
def sendData (op : Nat) (tx : Tx) (p : List UInt8) (frag : Nat) : Option Tx :=
  if op = 1 then
    let r := encodeText tx.ws p frag (some tx.u8)
    txAdd tx r.1 (r.2.getD 0)
  else txAdd tx (encodeBinary tx.ws p frag) tx.u8

/-- one step between the first and the last fragment: a FOLLOWING fragment, or
    `MHD_websocket_encode_ping` / `_pong` -/
def sendMid (op : Nat) (tx : Tx) : Mid → Option Tx
  | .frag p => sendData op tx p 2
  | .ctrl c p => txAdd tx (encodePingPong tx.ws p c) tx.u8

def sendMids (op : Nat) : Tx → List Mid → Option Tx
  | tx, [] => some tx
  | tx, x :: r => (sendMid op tx x).bind fun tx' => sendMids op tx' r

/-- a whole message: FIRST fragment `p0`, the steps `mids`, LAST fragment `pn` -/
def sendMessage (wsS : WS) (op : Nat) (p0 : List UInt8) (mids : List Mid) (pn : List UInt8) : Option Tx :=
  (sendData op { ws := wsS, u8 := 0, wire := [] } p0 1).bind fun t1 =>
    (sendMids op t1 mids).bind fun t2 => sendData op t2 pn 3

/-- the frame for `p` fits the sender's allocation limit -/
def SendFits (wsS : WS) (p : List UInt8) : Prop := overheadSize wsS p.length + p.length + 1 ≤ wsS.allocLimit

/-- the sender's configuration (role, allocation limit) is that of `wsS` -/
def TxCfg (wsS : WS) (tx : Tx) : Prop := tx.ws.flags = wsS.flags ∧ tx.ws.allocLimit = wsS.allocLimit

theorem TxCfg.client {wsS : WS} {tx : Tx} (h : TxCfg wsS tx) : tx.ws.isClient = wsS.isClient := by
  unfold WS.isClient; rw [h.1]

theorem TxCfg.fits {wsS : WS} {tx : Tx} (h : TxCfg wsS tx) {p : List UInt8} (hf : SendFits wsS p) : SendFits tx.ws p := by
  unfold SendFits overheadSize at *
  rw [h.client, h.2]; exact hf

theorem maskFor_cfg (ws : WS) : (maskFor ws).1.flags = ws.flags ∧ (maskFor ws).1.allocLimit = ws.allocLimit := by
  obtain ⟨r, hr⟩ := maskFor_ws ws
  rw [hr]; exact ⟨rfl, rfl⟩

/-- sending one frame produced by the common tail of the encoders -/
theorem txAdd_frame (wsS : WS) (tx : Tx) (hc : TxCfg wsS tx) (b0 : UInt8) (p : List UInt8) (u : Nat)
    (hfit : SendFits wsS p) :
    ∃ (k : Key) (tx' : Tx),
      txAdd tx (encodeFrame tx.ws b0 p.length (fun mask => copyPayload p mask 0)) u = some tx' ∧
      tx'.wire = tx.wire ++ wireOf wsS.isClient b0 p k ∧ tx'.u8 = u ∧ TxCfg wsS tx' := by
  obtain ⟨k, he, hl⟩ := encodeFrame_full tx.ws b0 p.length (fun mask => copyPayload p mask 0)
    (fun m => copyPayload_length _ _ _) (hc.fits hfit)
  refine ⟨k, Tx.mk (maskFor tx.ws).1 u (tx.wire ++
      List.take (overheadSize tx.ws p.length + p.length)
        (frameBytes tx.ws.isClient b0 p.length (keyOf tx.ws.isClient k) (copyPayload p (keyOf tx.ws.isClient k) 0) ++ [0])),
    ?_, ?_, rfl, ?_⟩
  · rw [he]
    unfold txAdd
    simp only [and_self, if_true]
  · simp only []
    rw [← hl, List.take_left, hc.client]
    rfl
  · obtain ⟨a, b⟩ := maskFor_cfg tx.ws
    exact ⟨a.trans hc.1, b.trans hc.2⟩

/-- first byte of a data frame by fragmentation parameter -/
def fragB0 (op frag : Nat) : UInt8 := if frag = 1 then UInt8.ofNat op else if frag = 2 then 0x00 else 0x80

/-- sending one fragment (`frag` = FIRST 1 / FOLLOWING 2 / LAST 3) of a text or binary message -/
theorem sendData_ok (wsS : WS) (hAS : wsS.allocLimit < 2 ^ 63) (op : Nat) (hop : op = 1 ∨ op = 2) (tx : Tx)
    (hc : TxCfg wsS tx) (p : List UInt8) (frag : Nat) (hfrag : frag = 1 ∨ frag = 2 ∨ frag = 3) (hfit : SendFits wsS p)
    (u1 : Nat) (hck : op = 1 → checkUtf8 p (if frag = 1 then 0 else tx.u8) 0 = .ok u1) (hnt : op ≠ 1 → u1 = tx.u8) :
    ∃ (k : Key) (tx' : Tx), sendData op tx p frag = some tx' ∧
      tx'.wire = tx.wire ++ wireOf wsS.isClient (fragB0 op frag) p k ∧ tx'.u8 = u1 ∧ TxCfg wsS tx' := by
  have hlen : ¬ p.length > 0x7FFFFFFFFFFFFFFF := by unfold SendFits at hfit; omega
  have hed : encodeData tx.ws p frag op =
      encodeFrame tx.ws (fragB0 op frag) p.length (fun mask => copyPayload p mask 0) := by
    unfold encodeData fragB0
    rcases hfrag with h | h | h <;> subst h <;> simp
  unfold sendData
  rcases hop with h1 | h2
  · subst h1
    rw [if_pos rfl]
    have hck' := hck rfl
    have hfr3 : ¬ frag > 3 := by omega
    have hfr0 : frag ≠ 0 := by omega
    have het : encodeText tx.ws p frag (some tx.u8) = (encodeData tx.ws p frag 1, some u1) := by
      unfold encodeText
      by_cases hf1 : frag = 1
      · subst hf1
        rw [if_pos rfl] at hck'
        simp [hlen, hck']
      · rw [if_neg hf1] at hck'
        simp [hfr3, hfr0, hf1, hlen, hck']
    rw [het, hed]
    exact txAdd_frame wsS tx hc _ p u1 hfit
  · subst h2
    rw [if_neg (by decide)]
    have heb : encodeBinary tx.ws p frag = encodeData tx.ws p frag 2 := by
      unfold encodeBinary
      rw [if_neg (by omega), if_neg hlen]
    rw [heb, hed, ← hnt (by decide)]
    exact txAdd_frame wsS tx hc _ p u1 hfit

/-- side conditions on one step between first and last fragment, sender's side -/
def SendOK (wsS : WS) : Mid → Prop
  | .frag p => SendFits wsS p
  | .ctrl c p => (c = 9 ∨ c = 10) ∧ p.length ≤ 125 ∧ SendFits wsS p

/-- the steps between the first and the last fragment: what goes over the wire is the framing
    of each payload with some key -/
theorem sendMids_ok (wsS : WS) (hAS : wsS.allocLimit < 2 ^ 63) (op : Nat) (hop : op = 1 ∨ op = 2) (mids : List Mid) :
    ∀ (tx : Tx) (u' : Nat), TxCfg wsS tx → (∀ x ∈ mids, SendOK wsS x) →
      (op = 1 → checkUtf8 (midData mids) tx.u8 0 = .ok u') → (op ≠ 1 → u' = tx.u8) →
      ∃ (ks : List (Mid × Key)) (tx' : Tx), ks.map Prod.fst = mids ∧ sendMids op tx mids = some tx' ∧
        tx'.wire = tx.wire ++ midWire wsS.isClient ks ∧ tx'.u8 = u' ∧ TxCfg wsS tx' := by
  induction mids with
  | nil =>
    intro tx u' hc _ hck hnt
    refine ⟨[], tx, rfl, rfl, by simp [midWire], ?_, hc⟩
    by_cases h1 : op = 1
    · have := hck h1
      simp only [midData, checkUtf8] at this
      injection this
    · exact (hnt h1).symm
  | cons x r ih =>
    intro tx u' hc hok hck hnt
    cases x with
    | frag p =>
      simp only [midData] at hck
      have hsplit : ∃ u1, (op = 1 → checkUtf8 p tx.u8 0 = .ok u1) ∧ (op ≠ 1 → u1 = tx.u8) ∧
          (op = 1 → checkUtf8 (midData r) u1 0 = .ok u') := by
        by_cases h1 : op = 1
        · obtain ⟨u1, a, b⟩ := checkUtf8_append_ok _ _ _ _ (hck h1)
          exact ⟨u1, fun _ => a, fun h => absurd h1 h, fun _ => b⟩
        · exact ⟨tx.u8, fun h => absurd h h1, fun _ => rfl, fun h => absurd h h1⟩
      obtain ⟨u1, hck1, hnt1, hck2⟩ := hsplit
      obtain ⟨k, tx1, hs1, hw1, hu1, hc1⟩ := sendData_ok wsS hAS op hop tx hc p 2 (by omega)
        (hok (.frag p) (List.mem_cons_self ..)) u1 (by rw [if_neg (by decide)]; exact hck1) hnt1
      obtain ⟨ks, tx2, hk2, hs2, hw2, hu2, hc2⟩ := ih tx1 u' hc1 (fun y hy => hok y (List.mem_cons_of_mem _ hy))
        (by rw [hu1]; exact hck2) (by intro h; rw [hu1, hnt h, hnt1 h])
      refine ⟨(.frag p, k) :: ks, tx2, by simp [hk2], ?_, ?_, hu2, hc2⟩
      · simp only [sendMids, sendMid, hs1, Option.bind_some, hs2]
      · rw [hw2, hw1]
        simp [midWire, Mid.b0, Mid.payload, fragB0]
    | ctrl c p =>
      simp only [midData] at hck
      obtain ⟨hc9, hn, hfit⟩ : SendOK wsS (.ctrl c p) := hok (.ctrl c p) (List.mem_cons_self ..)
      have henc : encodePingPong tx.ws p c =
          encodeFrame tx.ws (UInt8.ofNat (0x80 + c)) p.length (fun mask => copyPayload p mask 0) := by
        unfold encodePingPong; rw [if_neg (by omega)]
      obtain ⟨k, tx1, hs1, hw1, hu1, hc1⟩ := txAdd_frame wsS tx hc (UInt8.ofNat (0x80 + c)) p tx.u8 hfit
      rw [← henc] at hs1
      obtain ⟨ks, tx2, hk2, hs2, hw2, hu2, hc2⟩ := ih tx1 u' hc1 (fun y hy => hok y (List.mem_cons_of_mem _ hy))
        (by rw [hu1]; exact hck) (by rw [hu1]; exact hnt)
      refine ⟨(.ctrl c p, k) :: ks, tx2, by simp [hk2], ?_, ?_, hu2, hc2⟩
      · simp only [sendMids, sendMid, hs1, Option.bind_some, hs2]
      · rw [hw2, hw1]
        simp [midWire, Mid.b0, Mid.payload]

/-- **the sender of a fragmented message**: all encoder calls succeed and what is sent is the
    RFC 6455 framing of first fragment, steps and last fragment, masked (with keys from the
    sender's rng) iff the sender is a client -/
theorem sendMessage_ok (wsS : WS) (hAS : wsS.allocLimit < 2 ^ 63) (op : Nat) (hop : op = 1 ∨ op = 2)
    (p0 : List UInt8) (mids : List Mid) (pn : List UInt8)
    (h0 : SendFits wsS p0) (hm : ∀ x ∈ mids, SendOK wsS x) (hn : SendFits wsS pn)
    (hutf : op = 1 → checkUtf8 (p0 ++ midData mids ++ pn) 0 0 = .ok 0) :
    ∃ (k0 : Key) (ks : List (Mid × Key)) (kn : Key) (tx : Tx), ks.map Prod.fst = mids ∧
      sendMessage wsS op p0 mids pn = some tx ∧
      tx.wire = wireOf wsS.isClient (UInt8.ofNat op) p0 k0 ++ midWire wsS.isClient ks ++ wireOf wsS.isClient 0x80 pn kn := by
  have hsplit : ∃ u1 u2, (op = 1 → checkUtf8 p0 0 0 = .ok u1) ∧ (op ≠ 1 → u1 = 0) ∧
      (op = 1 → checkUtf8 (midData mids) u1 0 = .ok u2) ∧ (op ≠ 1 → u2 = u1) ∧
      (op = 1 → checkUtf8 pn u2 0 = .ok 0) := by
    by_cases h1 : op = 1
    · obtain ⟨u2, a, b⟩ := checkUtf8_append_ok _ _ _ _ (hutf h1)
      obtain ⟨u1, c, d⟩ := checkUtf8_append_ok _ _ _ _ a
      exact ⟨u1, u2, fun _ => c, fun h => absurd h1 h, fun _ => d, fun h => absurd h1 h, fun _ => b⟩
    · exact ⟨0, 0, fun h => absurd h h1, fun _ => rfl, fun h => absurd h h1, fun _ => rfl, fun h => absurd h h1⟩
  obtain ⟨u1, u2, hck0, hnt0, hck1, hnt1, hck2⟩ := hsplit
  obtain ⟨k0, t1, hs1, hw1, hu1, hc1⟩ := sendData_ok wsS hAS op hop { ws := wsS, u8 := 0, wire := [] } ⟨rfl, rfl⟩ p0 1
    (by omega) h0 u1 (by rw [if_pos rfl]; exact hck0) hnt0
  obtain ⟨ks, t2, hk2, hs2, hw2, hu2, hc2⟩ := sendMids_ok wsS hAS op hop mids t1 u2 hc1 hm
    (by rw [hu1]; exact hck1) (by rw [hu1]; exact hnt1)
  obtain ⟨kn, t3, hs3, hw3, hu3, hc3⟩ := sendData_ok wsS hAS op hop t2 hc2 pn 3 (by omega) hn 0
    (by rw [if_neg (by decide), hu2]; exact hck2)
    (by intro h; rw [hu2, hnt1 h, hnt0 h])
  refine ⟨k0, ks, kn, t3, hk2, ?_, ?_⟩
  · unfold sendMessage
    simp only [hs1, Option.bind_some, hs2, hs3]
  · rw [hw3, hw2, hw1]
    simp [fragB0]

end Mhd.WS
