/-
  ONE arena: in every state of every run of `Mhd.ConnRead` the buffer carried by the phase (request line,
  headers, body, footers, finished request) is exactly the prefix of the arena (`cm.p.mem`) up to the end of
  the received data, and the arena keeps the size of the pool.  (Received bytes are written at
  `read_buffer + read_buffer_offset`, the parsers' buffers are written back, the pool operations of the
  receiving phase — in-place grow, allocation from the end, taking the free tail of the read buffer,
  shrinking the read buffer for the reply, `MHD_pool_reset` with the read-ahead kept — keep the arena size
  and leave the bytes below the end of the received data alone or move them to the arena base.)
-/
import Mhd.Proofs.ConnRead
namespace Mhd.ConnMem
open Mhd.Pool


theorem allocate_mem (p : Pool) (n : Nat) (fe : Bool) :
    (allocate p n fe).1.mem = p.mem ∧ (allocate p n fe).1.size = p.size := by
  unfold allocate
  by_cases h1 : (roundUp n = 0 ∧ n ≠ 0)
  · simp [h1]
  · by_cases h2 : roundUp n > p.end_ - p.pos
    · simp [h1, h2]
    · cases fe <;> simp [h1, h2]

theorem tryAlloc_mem (p : Pool) (n : Nat) :
    (tryAlloc p n).1.mem = p.mem ∧ (tryAlloc p n).1.size = p.size := by
  unfold tryAlloc
  by_cases h1 : (roundUp n = 0 ∧ n ≠ 0)
  · simp [h1]
  · by_cases h2 : roundUp n > p.end_ - p.pos
    · by_cases h3 : roundUp n ≤ p.end_ <;> simp [h1, h2, h3]
    · simp [h1, h2]

/-- `try_grow_read_buffer` never touches the bytes of the arena -/
theorem grow_mem {c : CM} {r : Nat} (h : Recv c r) (req : Bool) :
    (step c (.grow req)).1.p.mem = c.p.mem ∧ (step c (.grow req)).1.p.size = c.p.size := by
  have f := inv_recv h.inv h.snd
  have fr := f.2.2.2.2.2.2.2 r h.rb
  have hs := h.snd
  have hg := geo_arith f.1
  simp only [step, hs, Bool.false_eq_true, if_false]
  unfold grow
  cases hgs : growSize c req with
  | none => exact ⟨by first | rfl | trivial, by first | rfl | trivial⟩
  | some newSize =>
    simp only [h.rb, Option.isSome_some, true_and]
    by_cases hres : isResizableInplace c.p (some r) c.rbSize = true
    · simp only [hres, Bool.not_true, Bool.false_eq_true, if_false]
      have hb := (growSize_bounds c req newSize hgs).1
      have hmod : (r + c.rbSize) % W = r + c.rbSize := by
        have := fr.2.2.1; simp only [W_eq, A, Mhd.Gen.Pool.alignSize] at *; omega
      rcases reallocate_cases c.p r c.rbSize newSize with ⟨hc, _⟩ | ⟨hc, _, _⟩ | ⟨hc, hlt, _⟩ | ⟨hc, _, _, _, h4⟩
      · rw [hc]; exact ⟨by first | rfl | trivial, by first | rfl | trivial⟩
      · rw [hc]
        have : shrinkMem c.p r c.rbSize newSize = c.p.mem := by
          unfold shrinkMem; rw [if_neg (by omega)]
        exact ⟨this, by first | rfl | trivial⟩
      · omega
      · rw [hmod] at h4; exact absurd fr.2.2.2 h4
    · simp only [hres, Bool.not_false, if_true]
      exact ⟨by first | rfl | trivial, by first | rfl | trivial⟩

/-- `MHD_connection_alloc_memory_` keeps the arena size (it may zero the tail it takes from
    the read buffer) and does not touch the bytes below the end of the received data -/
theorem alloc_mem {c : CM} {r : Nat} (h : Recv c r) (n : Nat) (hn : n < W) (hm : c.p.mem.length = c.p.size) :
    (step c (.alloc n)).1.p.mem.length = (step c (.alloc n)).1.p.size := by
  have f := inv_recv h.inv h.snd
  have fr := f.2.2.2.2.2.2.2 r h.rb
  have hwb : c.wb = none := f.2.2.1
  have hg := geo_arith f.1
  simp only [step]
  unfold allocMem
  rcases tryAlloc_geo c.p n f.1 hn with ⟨need, he⟩ | ⟨p', off, he, _⟩
  · rw [he]
    cases need with
    | none => exact hm
    | some need =>
      simp only [hwb, resizable_none, Bool.false_eq_true, if_false]
      by_cases hrr : isResizableInplace c.p c.rb c.rbSize = true
      · rw [if_pos hrr]
        by_cases hroom : c.rbSize - c.rbOff ≥ need
        · rw [if_pos hroom, h.rb]
          have hlen : ∀ k, (shrinkMem c.p r c.rbSize k).length = c.p.mem.length :=
            fun k => shrinkMem_length c.p r c.rbSize k (by intro _; have := fr.2.2.1; omega)
          rcases reallocate_cases c.p r c.rbSize (c.rbSize - need) with ⟨hc, _⟩ | ⟨hc, _, _⟩ | ⟨hc, _, _⟩ | ⟨hc, _, _, _, h4⟩
          · rw [hc]; dsimp only
            rw [(allocate_mem _ _ _).1, (allocate_mem _ _ _).2]; exact hm
          · rw [hc]; dsimp only
            rw [(allocate_mem _ _ _).1, (allocate_mem _ _ _).2]; dsimp only; rw [hlen]; exact hm
          · rw [hc]; dsimp only
            rw [(allocate_mem _ _ _).1, (allocate_mem _ _ _).2]; dsimp only; rw [hlen]; exact hm
          · exfalso
            have hmod : (r + c.rbSize) % W = r + c.rbSize := by
              have := fr.2.2.1; simp only [W_eq, A, Mhd.Gen.Pool.alignSize] at *; omega
            rw [hmod] at h4; exact h4 fr.2.2.2
        · rw [if_neg hroom]; exact hm
      · rw [if_neg hrr]; exact hm
  · have t := tryAlloc_mem c.p n
    rw [he] at t ⊢
    dsimp only at t ⊢
    rw [t.1, t.2]; exact hm
end Mhd.ConnMem

namespace Mhd.ConnRead
open Mhd.ConnMem Mhd.Req Mhd.Gen
open Mhd.Pool (writeAt writeAt_length)

/-- the arena has the size of the pool -/
def MemOK (c : CM) : Prop := c.p.mem.length = c.p.size

/-- **one arena**: the buffer the phase carries is the arena prefix up to the end of the received data -/
def Sync (x : CR) : Prop :=
  ∀ b r, x.phase.view? = some (b, r) → MemOK x.cm ∧ x.cm.p.mem.take b.size = b.toList

theorem take_writeAt (m : List UInt8) (off : Nat) (bs : List UInt8) (h : off + bs.length ≤ m.length) :
    (writeAt m off bs).take (off + bs.length) = m.take off ++ bs := by
  unfold writeAt
  have h1 : (m.take off).length = off := by simp; omega
  have h2 : (bs.take (m.length - off)) = bs := List.take_of_length_le (by omega)
  rw [h2, List.append_assoc, List.take_append, h1]
  have : off + bs.length - off = bs.length := by omega
  rw [List.take_of_length_le (by simp; omega), this]
  simp

theorem writeBack_sync (c : CM) (buf : Bytes) (hm : MemOK c) (hb : buf.size ≤ c.p.size) :
    MemOK (writeBack c buf) ∧ (writeBack c buf).p.mem.take buf.size = buf.toList := by
  unfold MemOK at *
  have hl : 0 + buf.toList.length ≤ c.p.mem.length := by simp; omega
  refine ⟨?_, ?_⟩
  · show (writeAt c.p.mem 0 buf.toList).length = c.p.size
    rw [writeAt_length _ _ _ hl]; exact hm
  · show (writeAt c.p.mem 0 buf.toList).take buf.size = buf.toList
    have := take_writeAt c.p.mem 0 buf.toList hl
    simp at this
    simpa using this


theorem op_eq {c c' : CM} {o : ConnMem.Op} (h : op c o = some c') : c' = (ConnMem.step c o).1 := by
  unfold op at h
  generalize ConnMem.step c o = res at h
  obtain ⟨a, b⟩ := res
  cases b <;> simp at h <;> (subst h; rfl)

theorem step_consume_p (c : CM) (k : Nat) : (ConnMem.step c (.consume k)).1.p = c.p := by
  simp only [ConnMem.step]
  split
  · split <;> rfl
  · rfl

theorem step_shiftBack_p (c : CM) (k : Nat) : (ConnMem.step c (.shiftBack k)).1.p = c.p := by
  simp only [ConnMem.step]
  split
  · split <;> rfl
  · rfl

theorem op_p_of_window {c c' : CM} {o : ConnMem.Op} (ho : (∃ k, o = .consume k) ∨ (∃ k, o = .shiftBack k))
    (h : op c o = some c') : c'.p = c.p := by
  rw [op_eq h]
  rcases ho with ⟨k, rfl⟩ | ⟨k, rfl⟩
  · exact step_consume_p c k
  · exact step_shiftBack_p c k

theorem consumeTo_memok {c c' : CM} {n : Nat} (h : consumeTo c n = some c') (hm : MemOK c) : MemOK c' := by
  unfold consumeTo at h
  split at h
  · have := op_p_of_window (Or.inl ⟨_, rfl⟩) h
    unfold MemOK; rw [this]; exact hm
  · simp at h

theorem allocN_memok (i : Nat) (n : Nat) : ∀ {c : CM} {r size : Nat}, Link i c r size → MemOK c → MemOK (allocN n c).1 := by
  induction n with
  | zero => intro c r size _ hm; exact hm
  | succ n ih =>
    intro c r size h hm
    have a := alloc_spec h.recv _ hdrSize_lt
    have am := alloc_mem h.recv _ hdrSize_lt hm
    have hl : Link i (step c (.alloc Mhd.Gen.ConnMem.reqHeaderSize)).1 r size :=
      ⟨a.1, by rw [a.2.1]; exact h.sz, by rw [a.2.2.2.1]; exact h.inc⟩
    simp only [allocN]
    generalize step c (.alloc Mhd.Gen.ConnMem.reqHeaderSize) = res at am hl
    obtain ⟨c', rr⟩ := res
    cases rr with
    | ptr o =>
      cases o with
      | some v => exact ih hl am
      | none => exact am
    | ok => exact am
    | bool b => exact am
    | size k => exact am
    | badOp => exact am

theorem link_size_le {i : Nat} {c : CM} {r size : Nat} (h : Link i c r size) : size ≤ c.p.size := by
  have := h.sz; have := h.recv.off_le; have := h.recv.inside; omega

theorem step_bodyDrop_p (c : CM) (k : Nat) : (ConnMem.step c (.bodyDrop k)).1.p = c.p := by
  simp only [ConnMem.step]
  split <;> rfl

theorem errorOut_sync (x : CR) (k : ErrKind) : Sync (errorOut x k) := by
  intro b r hb
  exfalso
  unfold errorOut at hb
  cases k <;> simp only at hb
  · split at hb <;> simp [Phase.view?] at hb
  · split at hb <;> simp [Phase.view?] at hb
  · simp [Phase.view?] at hb

theorem closed_sync (x : CR) : Sync { x with phase := .error .closed } := by
  intro b r hb; simp [Phase.view?] at hb

theorem sync_of_writeBack (i : Nat) (c : CM) (lvl : Int) (ph : Phase) (b : Bytes) (r : Nat)
    (hl : Link i c r b.size) (hm : MemOK c) (hp : ph.view? = some (b, r)) :
    Sync { cm := writeBack c b, lvl := lvl, phase := ph } := by
  intro b' r' hb'
  have e : b' = b := by
    have : ph.view? = some (b', r') := hb'
    rw [hp] at this; simp only [Option.some.injEq, Prod.mk.injEq] at this; exact this.1.symm
  subst e
  exact writeBack_sync c b' hm (link_size_le hl)

/-- the phase changes but the buffer it carries and the arena do not -/
theorem sync_rephase {x : CR} (hs : Sync x) (ph : Phase) (b : Bytes) (r r' : Nat) (h0 : x.phase.view? = some (b, r))
    (h1 : ph.view? = some (b, r')) : Sync { x with phase := ph } := by
  intro b2 r2 hb2
  have : ph.view? = some (b2, r2) := hb2
  rw [h1] at this; simp only [Option.some.injEq, Prod.mk.injEq] at this
  rw [← this.1]
  exact hs b r h0

theorem afterLine_sync (i : Nat) (x : CR) (r : ReqLine) (hl : Link i x.cm r.rb r.buf.size) (hp : RLPost r)
    (hm : MemOK x.cm) : Sync (afterLine x r) := by
  unfold afterLine
  cases lineWspCheck (RLFlags.ofLevel x.lvl) x.cm.poolSize r with
  | some e => exact errorOut_sync _ _
  | none =>
    dsimp only
    have hv := hp.hv
    have hlen : r.tgt + r.tgtLen < r.buf.size := by have := hp.htl; have := hp.hrb; omega
    obtain ⟨T, hT, hsz, _, _, _, hel, hrb, _, hver⟩ :=
      TGT.processRequestTarget_no_fault (Discipline.unesc_strict x.lvl) r hlen hp.hnul hp.hq
    rw [hT]
    dsimp only
    have a := allocN_spec i T.elems.length hl
    have am := allocN_memok i T.elems.length hl hm
    generalize allocN T.elems.length x.cm = res at a am
    obtain ⟨c1, b⟩ := res
    cases b with
    | false => exact errorOut_sync _ _
    | true =>
      exact sync_of_writeBack i c1 x.lvl _ T.buf T.rb (by rw [hrb, hsz]; exact a.1) am rfl

theorem idleReqLine_sync (i : Nat) (x : CR) (s : RL) (hl : Link i x.cm s.rb s.buf.size)
    (hi : RLInvX (RLFlags.ofLevel x.lvl) s) (hm : MemOK x.cm) : Sync (idleReqLine x s) := by
  unfold idleReqLine
  cases hr : (rlScanner (RLFlags.ofLevel x.lvl)).run s with
  | fault f => exact absurd hr (Scanner.run_no_fault (rlLaws _) s hi.toInv f)
  | more s1 =>
    obtain ⟨hi1, hsz, hrb⟩ := rl_run_more _ hi hr
    have hp1 := hi1.toInv.hp
    obtain ⟨c1, hc, hl1, _, _⟩ := consumeTo_spec hl s1.rb hrb (by omega)
    have hm1 := consumeTo_memok hc hm
    simp only [hc]
    split
    · exact errorOut_sync _ _
    · exact sync_of_writeBack i c1 x.lvl _ s1.buf s1.rb (by rw [hsz]; exact hl1) hm1 rfl
  | done d =>
    cases d with
    | err e => exact errorOut_sync _ _
    | ok r =>
      obtain ⟨hp, hsz, hm'⟩ := rl_run_done _ hi hr
      have := hp.hm; have := hp.htl; have := hp.hv; have := hp.hrb
      obtain ⟨c1, hc, hl1, _, _⟩ := consumeTo_spec hl r.rb (by omega) (by omega)
      have hm1 := consumeTo_memok hc hm
      simp only [hc]
      have hl1' : Link i (writeBack c1 r.buf) r.rb r.buf.size := by rw [hsz]; exact hl1.setMem _
      exact afterLine_sync i { x with cm := writeBack c1 r.buf } r hl1' hp
        (writeBack_sync c1 r.buf hm1 (by rw [hsz]; exact link_size_le hl1)).1

theorem linesPhase_view (ft : Option Rq) (s : HS) (fs : Nat) : (linesPhase ft s fs).view? = some (s.buf, s.rb) := by
  cases ft <;> rfl

theorem hdrBody_sync (i : Nat) (lvl : Int) (fs : Nat) (ft : Option Rq) (k : CM → HS → CR) (m : Nat)
    (hk : ∀ (c : CM) (s : HS), Link i c s.rb s.buf.size → HSP.Inv s → MemOK c →
      (hsScanner (FLFlags.ofLevel lvl) fs).measure s < m → Sync (k c s))
    (c : CM) (s0 : HS) (hl0 : Link i c s0.rb s0.buf.size) (hi0 : HSP.Inv s0) (hm : MemOK c)
    (hm0 : (hsScanner (FLFlags.ofLevel lvl) fs).measure s0 < m + 1) :
    Sync (hdrBody lvl fs ft k c s0) := by
  have L := HSP.hsLaws (FLFlags.ofLevel lvl) fs
  have ok := HSP.hsStep_ok (FLFlags.ofLevel lvl) fs s0 hi0
  unfold hdrBody
  cases hst : hsStep (FLFlags.ofLevel lvl) fs s0 with
  | needMore => exact sync_of_writeBack i c lvl _ s0.buf s0.rb hl0 hm (linesPhase_view ft s0 fs)
  | fault f => exact absurd hst (L.no_fault s0 f hi0)
  | done d =>
    cases d with
    | err k => exact errorOut_sync _ _
    | ok h =>
      obtain ⟨g1, g2, g3, g4⟩ := HSP.hsStep_done_shape _ fs s0 hi0 h hst
      obtain ⟨c1, hc, hl1, _, _⟩ := consumeTo_spec hl0 (h.rb + h.shifted) g2 g3
      have hm1 := consumeTo_memok hc hm
      simp only [hc]
      cases ft with
      | none =>
        obtain ⟨c2, hc2, hr2, ho2, _, hinc2, _, hp2⟩ := shiftBack_spec hl1.recv h.shifted (by omega)
        simp only [hc2]
        have hm2 : MemOK c2 := by unfold MemOK; rw [hp2]; exact hm1
        refine sync_of_writeBack i c2 lvl _ h.buf h.rb ⟨?_, ?_, by rw [hinc2]; exact hl1.inc⟩ hm2 rfl
        · have e : h.rb + h.shifted - h.shifted = h.rb := by omega
          rw [e] at hr2; exact hr2
        · have := hl1.sz; rw [ho2]; omega
      | some rq =>
        exact sync_of_writeBack i c1 lvl _ s0.buf (h.rb + h.shifted) hl1 hm1 rfl
  | advance s1 =>
    obtain ⟨hi1, hsz, _⟩ := ok.adv s1 hst
    have hmono := (HSP.hsStep_mono _ fs s0 s1 hst).rb
    have hp1 := hi1.hp
    obtain ⟨c1, hc, hl1, _, _⟩ := consumeTo_spec hl0 s1.rb hmono (by omega)
    have hm1 := consumeTo_memok hc hm
    have hl1' : Link i c1 s1.rb s1.buf.size := by rw [hsz]; exact hl1
    have hdec := L.decr s0 s1 hi0 hst
    simp only [hc]
    split
    · have a := alloc_spec hl1'.recv _ hdrSize_lt
      have am := alloc_mem hl1'.recv _ hdrSize_lt hm1
      have hl2 : Link i (step c1 (.alloc Mhd.Gen.ConnMem.reqHeaderSize)).1 s1.rb s1.buf.size :=
        ⟨a.1, by rw [a.2.1]; exact hl1'.sz, by rw [a.2.2.2.1]; exact hl1'.inc⟩
      generalize step c1 (.alloc Mhd.Gen.ConnMem.reqHeaderSize) = res at hl2 am
      obtain ⟨c2, rr⟩ := res
      cases rr with
      | ptr o =>
        cases o with
        | some v => exact hk c2 s1 hl2 hi1 am (by omega)
        | none => exact errorOut_sync _ _
      | ok => exact errorOut_sync _ _
      | bool b => exact errorOut_sync _ _
      | size k => exact errorOut_sync _ _
      | badOp => exact errorOut_sync _ _
    · exact hk c1 s1 hl1' hi1 hm1 (by omega)

theorem hdrLoop_sync (i : Nat) (lvl : Int) (fs : Nat) (ft : Option Rq) : ∀ (n : Nat) (c : CM) (s : HS),
    Link i c s.rb s.buf.size → HSP.Inv s → MemOK c → (hsScanner (FLFlags.ofLevel lvl) fs).measure s < n →
    Sync (hdrLoop lvl fs ft n c s) := by
  intro n
  induction n with
  | zero => intro c s _ _ _ hm; omega
  | succ n ih =>
    intro c s hl hi hmk hm
    exact hdrBody_sync i lvl fs ft (hdrLoop lvl fs ft n) n ih c { s with rbSize := c.rbSize } hl (inv_rbSize hi _) hmk hm

theorem processBody_sync (i : Nat) (cfg : Cfg) (x : CR) (b : Body) (hl : Link i x.cm b.rb b.buf.size)
    (hm : MemOK x.cm) : Sync (processBody cfg x b) := by
  unfold processBody
  have hsz := hl.sz
  have hwl : ((b.buf.extract b.rb b.buf.size).toList).length = x.cm.rbOff := by
    simp only [Array.length_toList, Array.size_extract]; omega
  have bl := bodyLoop_ok x.lvl (fun k n => if cfg.refuse k then none else some (cfg.take k n)) b.chunked
    (b.buf.extract b.rb b.buf.size).toList
    ((b.buf.extract b.rb b.buf.size).toList.length + 1) ⟨b.cur, b.off, b.remaining, b.calls, b.processed, 0⟩ (Nat.zero_le _)
  dsimp only
  cases hr : bodyLoop x.lvl (fun k n => if cfg.refuse k then none else some (cfg.take k n)) b.chunked
      (b.buf.extract b.rb b.buf.size).toList
      ((b.buf.extract b.rb b.buf.size).toList.length + 1) ⟨b.cur, b.off, b.remaining, b.calls, b.processed, 0⟩ with
  | overrun n => exact absurd hr (bl.1 n)
  | err st => exact errorOut_sync _ _
  | closed => exact closed_sync x
  | ok s =>
    have hh := bl.2 s hr
    rw [hwl] at hh
    obtain ⟨c1, hc, hr1, ho1, _, hinc1, _, hp1⟩ := bodyDrop_spec hl.recv s.head hh
    simp only [hc]
    have hm1 : MemOK c1 := by unfold MemOK; rw [hp1]; exact hm
    refine sync_of_writeBack i c1 x.lvl _ _ b.rb ⟨hr1, ?_, by rw [hinc1]; exact hl.inc⟩ hm1 rfl
    show (b.buf.extract 0 b.rb ++ b.buf.extract (b.rb + s.head) b.buf.size).size = b.rb + c1.rbOff
    simp only [Array.size_append, Array.size_extract]
    rw [ho1]; omega

theorem idleBody_sync (i : Nat) (cfg : Cfg) (x : CR) (b : Body) (hl : Link i x.cm b.rb b.buf.size)
    (hp : x.phase = .body b) (hs : Sync x) : Sync (idleBody cfg x b) := by
  unfold idleBody
  have hm : MemOK x.cm := (hs b.buf b.rb (by rw [hp]; rfl)).1
  have h1 : Sync (if x.cm.rbOff ≠ 0 then processBody cfg x b else x) := by
    split
    · exact processBody_sync i cfg x b hl hm
    · exact hs
  generalize (if x.cm.rbOff ≠ 0 then processBody cfg x b else x) = x1 at h1
  dsimp only
  cases hp1 : x1.phase with
  | body b1 =>
    dsimp only
    split
    · split
      · exact sync_rephase h1 _ b1.buf b1.rb b1.rb (by rw [hp1]; rfl) rfl
      · exact sync_rephase h1 _ b1.buf b1.rb b1.rb (by rw [hp1]; rfl) rfl
    · exact h1
  | _ => exact h1

theorem startBody_sync (cfg : Cfg) (x : CR) (h : Headers) (rq : Rq) (ch : Bool) (n : Nat)
    (hp : x.phase = .headersDone h rq) (hs : Sync x) : Sync (startBody cfg x h rq ch n) := by
  unfold startBody
  have h0 : x.phase.view? = some (h.buf, h.rb) := by rw [hp]; rfl
  split
  · exact sync_rephase hs _ h.buf h.rb h.rb h0 rfl
  · dsimp only
    split
    · exact sync_rephase hs _ h.buf h.rb h.rb h0 rfl
    · exact sync_rephase hs _ h.buf h.rb h.rb h0 rfl

theorem afterHeaders_sync (cfg : Cfg) (x : CR) (h : Headers) (rq : Rq)
    (hp : x.phase = .headersDone h rq) (hs : Sync x) : Sync (afterHeaders cfg x h rq) := by
  unfold afterHeaders
  cases hf : cfg.frame h.buf rq with
  | stop => exact hs
  | reject code => exact errorOut_sync _ _
  | none =>
    dsimp only
    cases cfg.first h.buf rq with
    | no => exact closed_sync x
    | reply => exact closed_sync x
    | cont => exact startBody_sync cfg x h rq _ _ hp hs
  | len n =>
    dsimp only
    cases cfg.first h.buf rq with
    | no => exact closed_sync x
    | reply => exact closed_sync x
    | cont => exact startBody_sync cfg x h rq _ _ hp hs
  | chunked =>
    dsimp only
    cases cfg.first h.buf rq with
    | no => exact closed_sync x
    | reply => exact closed_sync x
    | cont => exact startBody_sync cfg x h rq _ _ hp hs

end Mhd.ConnRead

namespace Mhd.ConnMem
open Mhd.Pool

theorem deallocate_mem (p : Pool) (r n : Nat) (h : r + n ≤ p.mem.length) :
    (deallocate p (some r) n).mem.length = p.mem.length ∧ (deallocate p (some r) n).size = p.size := by
  have hz : (zeroRange p.mem r n).length = p.mem.length := zeroRange_length _ _ _ h
  unfold deallocate
  dsimp only
  split
  · exact ⟨rfl, rfl⟩
  · split
    · split <;> exact ⟨hz, rfl⟩
    · split <;> exact ⟨hz, rfl⟩

/-- `connection_shrink_read_buffer` keeps the arena size -/
theorem shrinkRead_mem {c : CM} {r : Nat} (h : Recv c r) (hm : c.p.mem.length = c.p.size) :
    (shrinkRead c).p.mem.length = (shrinkRead c).p.size ∧ (shrinkRead c).p.size = c.p.size ∧
    (shrinkRead c).rbOff = c.rbOff ∧ (∀ k, (shrinkRead c).rb = some k → k = r) := by
  have f := inv_recv h.inv h.snd
  have fr := f.2.2.2.2.2.2.2 r h.rb
  have hg := geo_arith f.1
  have hin : r + c.rbSize ≤ c.p.mem.length := by have := fr.2.2.1; omega
  unfold shrinkRead
  rw [h.rb]
  dsimp only
  split
  · exact ⟨hm, rfl, rfl, fun k hk => by rw [h.rb] at hk; exact (Option.some.inj hk).symm⟩
  · split
    · have d := deallocate_mem c.p r c.rbSize hin
      refine ⟨by show (deallocate c.p (some r) c.rbSize).mem.length = (deallocate c.p (some r) c.rbSize).size
                 rw [d.1, d.2]; exact hm, d.2, rfl, fun k hk => by cases hk⟩
    · have hlen : ∀ k, (shrinkMem c.p r c.rbSize k).length = c.p.mem.length :=
        fun k => shrinkMem_length c.p r c.rbSize k (by intro _; exact hin)
      rcases reallocate_cases c.p r c.rbSize c.rbOff with ⟨hc, _⟩ | ⟨hc, _, _⟩ | ⟨hc, _, _⟩ | ⟨hc, _, _, _, h4⟩
      · rw [hc]; exact ⟨hm, rfl, rfl, fun k hk => by cases hk⟩
      · rw [hc]; exact ⟨by show (shrinkMem _ _ _ _).length = c.p.size; rw [hlen]; exact hm, rfl, rfl,
          fun k hk => (Option.some.inj hk).symm⟩
      · rw [hc]; exact ⟨by show (shrinkMem _ _ _ _).length = c.p.size; rw [hlen]; exact hm, rfl, rfl,
          fun k hk => (Option.some.inj hk).symm⟩
      · exfalso
        have hmod : (r + c.rbSize) % W = r + c.rbSize := by
          have := fr.2.2.1; simp only [W_eq, A, Mhd.Gen.Pool.alignSize] at *; omega
        rw [hmod] at h4; exact h4 fr.2.2.2

/-- `MHD_pool_reset` keeps the arena size -/
theorem reset_mem (p : Pool) (keep : Option Nat) (copy n : Nat) (hm : p.mem.length = p.size)
    (hk : ∀ k, keep = some k → k + copy ≤ p.mem.length) :
    (Mhd.Pool.reset p keep copy n).mem.length = (Mhd.Pool.reset p keep copy n).size := by
  have hl := (resetMove_spec p keep copy hk).1
  unfold Mhd.Pool.reset
  dsimp only
  split
  · rw [zeroRange_length _ _ _ (by rw [hl, hm]; omega), hl]; exact hm
  · rw [hl]; exact hm

end Mhd.ConnMem

namespace Mhd.ConnRead
open Mhd.ConnMem Mhd.Req Mhd.Gen
open Mhd.Pool (writeAt writeAt_length)

theorem finishRequest_sync (i : Nat) (x : CR) (buf : Bytes) (rb : Nat) (hl : Link i x.cm rb buf.size)
    (hm : MemOK x.cm) : Sync (finishRequest x buf rb).1 := by
  unfold finishRequest
  obtain ⟨c1, c2, h1, h2, hr, ho, hinc⟩ := shrink_reset_spec hl.recv
  simp only [h1, h2]
  have hs := hl.recv.snd
  have sm := shrinkRead_mem hl.recv hm
  have e1 : c1 = { shrinkRead x.cm with sending := true } := by
    rw [op_eq h1]; simp only [ConnMem.step, hs, Bool.false_eq_true, if_false]
  have hin := hl.recv.inside
  have hoff := hl.recv.off_le
  have hm2 : MemOK c2 := by
    rw [op_eq h2]
    subst e1
    simp only [ConnMem.step]
    split
    · show (Mhd.Pool.reset (shrinkRead x.cm).p (shrinkRead x.cm).rb (shrinkRead x.cm).rbOff _).mem.length = _
      apply reset_mem _ _ _ _ sm.1
      intro k hk
      have := sm.2.2.2 k hk
      subst this
      rw [sm.1, sm.2.1, sm.2.2.1]
      unfold MemOK at hm; omega
    · exact sm.1
  refine sync_of_writeBack i c2 x.lvl _ (buf.extract rb buf.size) 0 ⟨hr, ?_, by rw [hinc]; exact hl.inc⟩ hm2 rfl
  have := hl.sz
  simp only [Array.size_extract]; rw [ho]; omega

theorem stLine_sync (i : Nat) (x : CR) (h : Safe i x) (hs : Sync x) : Sync (stLine x) := by
  unfold stLine
  have h' := h; unfold Safe at h'
  cases hp : x.phase with
  | reqLine s => rw [hp] at h'; exact idleReqLine_sync i x s h'.1 h'.2 (hs s.buf s.rb (by rw [hp]; rfl)).1
  | cont100 b => exact sync_rephase hs _ b.buf b.rb b.rb (by rw [hp]; rfl) rfl
  | _ => exact hs

theorem stHeaders_sync (i : Nat) (x : CR) (h : Safe i x) (hs : Sync x) : Sync (stHeaders x) := by
  unfold stHeaders
  have h' := h; unfold Safe at h'
  cases hp : x.phase with
  | headers s fs =>
    rw [hp] at h'
    exact hdrLoop_sync i _ fs none _ _ s h'.1 h'.2.1 (hs s.buf s.rb (by rw [hp]; rfl)).1 (Nat.lt_succ_self _)
  | _ => exact hs

theorem stAfter_sync (cfg : Cfg) (x : CR) (hs : Sync x) : Sync (stAfter cfg x) := by
  unfold stAfter
  cases hp : x.phase with
  | headersDone hd rq => exact afterHeaders_sync cfg x hd rq hp hs
  | _ => exact hs

theorem stBody_sync (i : Nat) (cfg : Cfg) (x : CR) (h : Safe i x) (hs : Sync x) : Sync (stBody cfg x) := by
  unfold stBody
  have h' := h; unfold Safe at h'
  cases hp : x.phase with
  | body b => rw [hp] at h'; exact idleBody_sync i cfg x b h'.1 hp hs
  | _ => exact hs

theorem stFooters_sync (i : Nat) (x : CR) (h : Safe i x) (hs : Sync x) : Sync (stFooters x) := by
  unfold stFooters
  have h' := h; unfold Safe at h'
  cases hp : x.phase with
  | footers s rq =>
    rw [hp] at h'
    exact hdrLoop_sync i _ 0 (some rq) _ _ s h'.1 h'.2 (hs s.buf s.rb (by rw [hp]; rfl)).1 (Nat.lt_succ_self _)
  | _ => exact hs

theorem stDone_sync (i : Nat) (cfg : Cfg) (x : CR) (h : Safe i x) (hs : Sync x) : Sync (stDone cfg x).1 := by
  unfold stDone
  have h' := h; unfold Safe at h'
  cases hp : x.phase with
  | reqDone buf rb rq =>
    rw [hp] at h'
    dsimp only
    split
    · exact finishRequest_sync i x buf rb h' (hs buf rb (by rw [hp]; rfl)).1
    · exact closed_sync x
  | _ => exact hs

theorem idlePass_sync (i : Nat) (cfg : Cfg) (x : CR) (h : Safe i x) (hs : Sync x) : Sync (idlePass cfg x).1 := by
  unfold idlePass
  have s1 := stLine_safe i x h
  have y1 := stLine_sync i x h hs
  have s2 := stHeaders_safe i _ s1.1
  have y2 := stHeaders_sync i _ s1.1 y1
  have s3 := stAfter_safe i cfg _ s2.1
  have y3 := stAfter_sync cfg _ y2
  have s4 := stBody_safe i cfg _ s3.1
  have y4 := stBody_sync i cfg _ s3.1 y3
  have s5 := stFooters_safe i _ s4.1
  have y5 := stFooters_sync i _ s4.1 y4
  exact stDone_sync i cfg _ s5.1 y5

theorem idleStates_sync (i : Nat) (cfg : Cfg) : ∀ (n : Nat) (x : CR), Safe i x → Sync x → Sync (idleStates cfg n x) := by
  intro n
  induction n with
  | zero => intro x _ hs; exact hs
  | succ n ih =>
    intro x h hs
    have hp := idlePass_safe i cfg x h
    have yp := idlePass_sync i cfg x h hs
    simp only [idleStates]
    generalize idlePass cfg x = res at hp yp
    obtain ⟨x', b⟩ := res
    cases b with
    | true => exact ih x' hp.1 yp
    | false => exact yp

theorem sync_setEv {x : CR} (hs : Sync x) (b : Body) (hp : x.phase = .body b) (v : Bool) :
    Sync { x with phase := .body { b with evRead := v } } :=
  sync_rephase hs _ b.buf b.rb b.rb (by rw [hp]; rfl) rfl

theorem noSpaceOut_sync (x : CR) (hs : Sync x) : Sync (noSpaceOut x) := by
  unfold noSpaceOut
  cases hp : x.phase with
  | body b =>
    dsimp only
    split
    · exact sync_setEv hs b hp false
    · exact errorOut_sync _ _
  | _ => exact errorOut_sync _ _

theorem checkGrow_sync (i : Nat) (x : CR) (h : Safe i x) (hs : Sync x) : Sync (checkGrow x) := by
  by_cases hw : x.wantsRead = true
  · have hr := wantsRead_reading hw
    obtain ⟨r, size, hl⟩ := reading_link h hr
    unfold checkGrow
    rw [if_neg (by rw [hw]; simp)]
    dsimp only
    split
    · exact hs
    · have gm := grow_mem hl.recv (x.cm.rbOff == x.cm.rbSize)
      generalize ConnMem.step x.cm (.grow (x.cm.rbOff == x.cm.rbSize)) = res at gm
      obtain ⟨c', rr⟩ := res
      dsimp only at gm
      have keep : Sync { x with cm := c' } := by
        intro b r0 hb
        have := hs b r0 hb
        exact ⟨by unfold MemOK at *; rw [gm.1, gm.2]; exact this.1, by rw [gm.1]; exact this.2⟩
      cases rr with
      | badOp => intro b r0 hb; simp [Phase.view?] at hb
      | bool bb =>
        cases bb with
        | true => exact keep
        | false =>
          dsimp only
          split
          · exact keep
          · exact noSpaceOut_sync _ keep
      | ok => dsimp only; split; exact keep; exact noSpaceOut_sync _ keep
      | ptr o => dsimp only; split; exact keep; exact noSpaceOut_sync _ keep
      | size k => dsimp only; split; exact keep; exact noSpaceOut_sync _ keep
  · have hw' : x.wantsRead = false := by cases hx : x.wantsRead <;> simp_all
    rw [checkGrow_eq_of_not_wantsRead x hw']; exact hs

theorem updateEv_sync (i : Nat) (x : CR) (h : Safe i x) (hs : Sync x) : Sync (updateEv x) := by
  unfold updateEv
  cases hp : x.phase with
  | body b =>
    dsimp only
    apply checkGrow_sync i
    · have h' := h; unfold Safe at h' ⊢; rw [hp] at h'; exact h'
    · exact sync_setEv hs b hp _
  | _ => exact checkGrow_sync i x h hs

theorem idle_sync (i : Nat) (cfg : Cfg) (x : CR) (h : Safe i x) (hs : Sync x) : Sync (idle cfg x) := by
  unfold idle
  exact updateEv_sync i _ (idleStates_safe i cfg _ x h).1 (idleStates_sync i cfg _ x h hs)

theorem recvBytes_sync (i : Nat) (x : CR) (e : List UInt8) (h : Safe i x) (hs : Sync x) (hr : x.reading = true)
    (hk : e.length ≤ x.space) : Sync (recvBytes x e) := by
  obtain ⟨r, size, hl⟩ := reading_link h hr
  obtain ⟨c', he, hr', ho, hsz', hinc, _, hp'⟩ := recv_spec hl.recv e.length hk
  have hrb : x.cm.rb.getD 0 = r := by rw [hl.recv.rb]; rfl
  unfold recvBytes
  rw [he]
  dsimp only
  have hin := hr'.inside
  have hoff := hr'.off_le
  have key : ∀ b : Bytes, b.size = r + x.cm.rbOff → MemOK x.cm → x.cm.p.mem.take b.size = b.toList →
      MemOK (setMem c' (writeAt c'.p.mem (x.cm.rb.getD 0 + x.cm.rbOff) e)) ∧
      (setMem c' (writeAt c'.p.mem (x.cm.rb.getD 0 + x.cm.rbOff) e)).p.mem.take (b ++ e.toArray).size = (b ++ e.toArray).toList := by
    intro b hb hm ht
    unfold MemOK at hm
    have hlen : r + x.cm.rbOff + e.length ≤ c'.p.mem.length := by rw [hp', hm]; rw [hp'] at hin; omega
    rw [hrb]
    refine ⟨?_, ?_⟩
    · show (writeAt c'.p.mem (r + x.cm.rbOff) e).length = c'.p.size
      rw [writeAt_length _ _ _ hlen, hp']; exact hm
    · show (writeAt c'.p.mem (r + x.cm.rbOff) e).take (b ++ e.toArray).size = _
      rw [Array.size_append, hb]
      have : e.toArray.size = e.length := by simp
      rw [this, take_writeAt _ _ _ hlen, hp', ← hb, ht]
      simp
  -- the buffer of the phase, before and after
  have hv := safe_view h
  intro b2 r2 hb2
  cases hp : x.phase with
  | reqLine s =>
    rw [hp] at hb2; simp only [Phase.extend, Phase.view?, Option.some.injEq, Prod.mk.injEq, rlExtend] at hb2
    obtain ⟨rfl, rfl⟩ := hb2
    have v := hv s.buf s.rb (by rw [hp]; rfl)
    have e0 : s.rb = r := by have := v.1; rw [hl.recv.rb] at this; exact (Option.some.inj this).symm
    have := hs s.buf s.rb (by rw [hp]; rfl)
    exact key s.buf (by rw [v.2.2.1, e0]) this.1 this.2
  | headers s fs =>
    rw [hp] at hb2; simp only [Phase.extend, Phase.view?, Option.some.injEq, Prod.mk.injEq, hsExtend] at hb2
    obtain ⟨rfl, rfl⟩ := hb2
    have v := hv s.buf s.rb (by rw [hp]; rfl)
    have e0 : s.rb = r := by have := v.1; rw [hl.recv.rb] at this; exact (Option.some.inj this).symm
    have := hs s.buf s.rb (by rw [hp]; rfl)
    exact key s.buf (by rw [v.2.2.1, e0]) this.1 this.2
  | body b =>
    rw [hp] at hb2; simp only [Phase.extend, Phase.view?, Option.some.injEq, Prod.mk.injEq] at hb2
    obtain ⟨rfl, rfl⟩ := hb2
    have v := hv b.buf b.rb (by rw [hp]; rfl)
    have e0 : b.rb = r := by have := v.1; rw [hl.recv.rb] at this; exact (Option.some.inj this).symm
    have := hs b.buf b.rb (by rw [hp]; rfl)
    exact key b.buf (by rw [v.2.2.1, e0]) this.1 this.2
  | cont100 b =>
    rw [hp] at hb2; simp only [Phase.extend, Phase.view?, Option.some.injEq, Prod.mk.injEq] at hb2
    obtain ⟨rfl, rfl⟩ := hb2
    have v := hv b.buf b.rb (by rw [hp]; rfl)
    have e0 : b.rb = r := by have := v.1; rw [hl.recv.rb] at this; exact (Option.some.inj this).symm
    have := hs b.buf b.rb (by rw [hp]; rfl)
    exact key b.buf (by rw [v.2.2.1, e0]) this.1 this.2
  | footers s rq =>
    rw [hp] at hb2; simp only [Phase.extend, Phase.view?, Option.some.injEq, Prod.mk.injEq, hsExtend] at hb2
    obtain ⟨rfl, rfl⟩ := hb2
    have v := hv s.buf s.rb (by rw [hp]; rfl)
    have e0 : s.rb = r := by have := v.1; rw [hl.recv.rb] at this; exact (Option.some.inj this).symm
    have := hs s.buf s.rb (by rw [hp]; rfl)
    exact key s.buf (by rw [v.2.2.1, e0]) this.1 this.2
  | headersDone _ _ => simp only [CR.reading, hp] at hr; cases hr
  | reqDone _ _ _ => simp only [CR.reading, hp] at hr; cases hr
  | error _ => simp only [CR.reading, hp] at hr; cases hr
  | fault _ => simp only [CR.reading, hp] at hr; cases hr
  | refused _ => simp only [CR.reading, hp] at hr; cases hr

theorem feedFuel_sync (i : Nat) (cfg : Cfg) : ∀ (n : Nat) (x : CR) (bs : List UInt8), Safe i x → Sync x →
    Sync (feedFuel cfg n x bs) := by
  intro n
  induction n with
  | zero => intro x bs _ hs; exact hs
  | succ n ih =>
    intro x bs h hs
    unfold feedFuel
    split
    · exact hs
    · rename_i hc
      have hr : x.reading = true := by cases hx : x.reading <;> simp_all
      split
      · rename_i hc2
        simp only [Bool.and_eq_true, bne_iff_ne, ne_eq] at hc2
        have hk : (bs.take (min bs.length x.space)).length ≤ x.space := by rw [List.length_take]; omega
        have h1 := recvBytes_safe i x _ h hr hk
        have y1 := recvBytes_sync i x _ h hs hr hk
        exact ih _ _ (idle_safe i cfg _ h1.1).1 (idle_sync i cfg _ h1.1 y1)
      · exact ih _ _ (idle_safe i cfg x h).1 (idle_sync i cfg x h hs)

theorem feed_sync (i : Nat) (cfg : Cfg) (x : CR) (c : List UInt8) (h : Safe i x) (hs : Sync x) : Sync (feed cfg x c) := by
  unfold feed
  split
  · split
    · exact idle_sync i cfg x h hs
    · exact hs
  · exact feedFuel_sync i cfg _ x c h hs

theorem run_sync (i : Nat) (cfg : Cfg) (chunks : List (List UInt8)) : ∀ (x : CR), Safe i x → Sync x → Sync (run cfg x chunks) := by
  induction chunks with
  | nil => intro x _ hs; exact hs
  | cons c cs ih =>
    intro x h hs
    exact ih (feed cfg x c) (feed_safe i cfg x c h).1 (feed_sync i cfg x c h hs)

theorem init_sync (allocSize poolSize inc : Nat) (lvl : Int) : Sync (init allocSize poolSize inc lvl) := by
  intro b r hb
  have e : b = #[] := by simp [init, Phase.view?, RL.init] at hb; exact hb.1
  subst e
  refine ⟨?_, by simp⟩
  show (ConnMem.init allocSize poolSize inc).p.mem.length = (ConnMem.init allocSize poolSize inc).p.size
  have := allocate_mem (Mhd.Pool.create allocSize) (poolSize / 2) false
  unfold ConnMem.init
  dsimp only
  rw [this.1, this.2]
  simp [Mhd.Pool.create]

end Mhd.ConnRead
