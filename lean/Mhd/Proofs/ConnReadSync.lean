/-
  ONE arena: in every state of every run of `Mhd.ConnRead` the buffer carried by the parser state
  is exactly the prefix of the arena (`cm.p.mem`) up to the end of the received data, and the
  arena keeps the size of the pool.  (Received bytes are written at `read_buffer +
  read_buffer_offset`, the parsers' buffers are written back, the pool operations of the
  receiving phase — in-place grow, allocation from the end, taking the free tail of the read
  buffer — leave the bytes below the end of the received data alone.)
-/
import Mhd.Proofs.ConnRead
namespace Mhd.ConnMem
open Mhd.Pool


theorem allocate_mem (p : Pool) (n : Nat) (fe : Bool) :
    (allocate p n fe).1.mem = p.mem ∧ (allocate p n fe).1.size = p.size := by
  unfold allocate
  by_cases h1 : (roundUp n = 0 ∧ n ≠ 0)
  · simp [h1]
  · by_cases h2 : roundUp n > p.end_ - p.pos
    · simp [h1, h2]
    · cases fe <;> simp [h1, h2]

theorem tryAlloc_mem (p : Pool) (n : Nat) :
    (tryAlloc p n).1.mem = p.mem ∧ (tryAlloc p n).1.size = p.size := by
  unfold tryAlloc
  by_cases h1 : (roundUp n = 0 ∧ n ≠ 0)
  · simp [h1]
  · by_cases h2 : roundUp n > p.end_ - p.pos
    · by_cases h3 : roundUp n ≤ p.end_ <;> simp [h1, h2, h3]
    · simp [h1, h2]

/-- `try_grow_read_buffer` never touches the bytes of the arena -/
theorem grow_mem {c : CM} {r : Nat} (h : Recv c r) (req : Bool) :
    (step c (.grow req)).1.p.mem = c.p.mem ∧ (step c (.grow req)).1.p.size = c.p.size := by
  have f := inv_recv h.inv h.snd
  have fr := f.2.2.2.2.2.2.2 r h.rb
  have hs := h.snd
  have hg := geo_arith f.1
  simp only [step, hs, Bool.false_eq_true, if_false]
  unfold grow
  cases hgs : growSize c req with
  | none => exact ⟨by first | rfl | trivial, by first | rfl | trivial⟩
  | some newSize =>
    simp only [h.rb, Option.isSome_some, true_and]
    by_cases hres : isResizableInplace c.p (some r) c.rbSize = true
    · simp only [hres, Bool.not_true, Bool.false_eq_true, if_false]
      have hb := (growSize_bounds c req newSize hgs).1
      have hmod : (r + c.rbSize) % W = r + c.rbSize := by
        have := fr.2.2.1; simp only [W_eq, A, Mhd.Gen.Pool.alignSize] at *; omega
      rcases reallocate_cases c.p r c.rbSize newSize with ⟨hc, _⟩ | ⟨hc, _, _⟩ | ⟨hc, hlt, _⟩ | ⟨hc, _, _, _, h4⟩
      · rw [hc]; exact ⟨by first | rfl | trivial, by first | rfl | trivial⟩
      · rw [hc]
        have : shrinkMem c.p r c.rbSize newSize = c.p.mem := by
          unfold shrinkMem; rw [if_neg (by omega)]
        exact ⟨this, by first | rfl | trivial⟩
      · omega
      · rw [hmod] at h4; exact absurd fr.2.2.2 h4
    · simp only [hres, Bool.not_false, if_true]
      exact ⟨by first | rfl | trivial, by first | rfl | trivial⟩

/-- `MHD_connection_alloc_memory_` keeps the arena size (it may zero the tail it takes from
    the read buffer) and does not touch the bytes below the end of the received data -/
theorem alloc_mem {c : CM} {r : Nat} (h : Recv c r) (n : Nat) (hn : n < W) (hm : c.p.mem.length = c.p.size) :
    (step c (.alloc n)).1.p.mem.length = (step c (.alloc n)).1.p.size := by
  have f := inv_recv h.inv h.snd
  have fr := f.2.2.2.2.2.2.2 r h.rb
  have hwb : c.wb = none := f.2.2.1
  have hg := geo_arith f.1
  simp only [step]
  unfold allocMem
  rcases tryAlloc_geo c.p n f.1 hn with ⟨need, he⟩ | ⟨p', off, he, _⟩
  · rw [he]
    cases need with
    | none => exact hm
    | some need =>
      simp only [hwb, resizable_none, Bool.false_eq_true, if_false]
      by_cases hrr : isResizableInplace c.p c.rb c.rbSize = true
      · rw [if_pos hrr]
        by_cases hroom : c.rbSize - c.rbOff ≥ need
        · rw [if_pos hroom, h.rb]
          have hlen : ∀ k, (shrinkMem c.p r c.rbSize k).length = c.p.mem.length :=
            fun k => shrinkMem_length c.p r c.rbSize k (by intro _; have := fr.2.2.1; omega)
          rcases reallocate_cases c.p r c.rbSize (c.rbSize - need) with ⟨hc, _⟩ | ⟨hc, _, _⟩ | ⟨hc, _, _⟩ | ⟨hc, _, _, _, h4⟩
          · rw [hc]; dsimp only
            rw [(allocate_mem _ _ _).1, (allocate_mem _ _ _).2]; exact hm
          · rw [hc]; dsimp only
            rw [(allocate_mem _ _ _).1, (allocate_mem _ _ _).2]; dsimp only; rw [hlen]; exact hm
          · rw [hc]; dsimp only
            rw [(allocate_mem _ _ _).1, (allocate_mem _ _ _).2]; dsimp only; rw [hlen]; exact hm
          · exfalso
            have hmod : (r + c.rbSize) % W = r + c.rbSize := by
              have := fr.2.2.1; simp only [W_eq, A, Mhd.Gen.Pool.alignSize] at *; omega
            rw [hmod] at h4; exact h4 fr.2.2.2
        · rw [if_neg hroom]; exact hm
      · rw [if_neg hrr]; exact hm
  · have t := tryAlloc_mem c.p n
    rw [he] at t ⊢
    dsimp only at t ⊢
    rw [t.1, t.2]; exact hm
end Mhd.ConnMem

namespace Mhd.ConnRead
open Mhd.ConnMem Mhd.Req Mhd.Gen
open Mhd.Pool (writeAt writeAt_length)

/-- the buffer a phase carries -/
def Phase.buf? : Phase → Option Bytes
  | .reqLine s => some s.buf
  | .headers s _ => some s.buf
  | .headersDone h => some h.buf
  | _ => none

/-- the arena has the size of the pool -/
def MemOK (c : CM) : Prop := c.p.mem.length = c.p.size

/-- **one arena**: the buffer the parser state carries is the arena prefix up to the end of the
    received data -/
def Sync (x : CR) : Prop :=
  ∀ b, x.phase.buf? = some b → MemOK x.cm ∧ x.cm.p.mem.take b.size = b.toList

theorem take_writeAt (m : List UInt8) (off : Nat) (bs : List UInt8) (h : off + bs.length ≤ m.length) :
    (writeAt m off bs).take (off + bs.length) = m.take off ++ bs := by
  unfold writeAt
  have h1 : (m.take off).length = off := by simp; omega
  have h2 : (bs.take (m.length - off)) = bs := List.take_of_length_le (by omega)
  rw [h2, List.append_assoc, List.take_append, h1]
  have : off + bs.length - off = bs.length := by omega
  rw [List.take_of_length_le (by simp; omega), this]
  simp

theorem writeBack_sync (c : CM) (buf : Bytes) (hm : MemOK c) (hb : buf.size ≤ c.p.size) :
    MemOK (writeBack c buf) ∧ (writeBack c buf).p.mem.take buf.size = buf.toList := by
  unfold MemOK at *
  have hl : 0 + buf.toList.length ≤ c.p.mem.length := by simp; omega
  refine ⟨?_, ?_⟩
  · show (writeAt c.p.mem 0 buf.toList).length = c.p.size
    rw [writeAt_length _ _ _ hl]; exact hm
  · show (writeAt c.p.mem 0 buf.toList).take buf.size = buf.toList
    have := take_writeAt c.p.mem 0 buf.toList hl
    simp at this
    simpa using this


theorem op_eq {c c' : CM} {o : ConnMem.Op} (h : op c o = some c') : c' = (ConnMem.step c o).1 := by
  unfold op at h
  generalize ConnMem.step c o = res at h
  obtain ⟨a, b⟩ := res
  cases b <;> simp at h <;> (subst h; rfl)

theorem step_consume_p (c : CM) (k : Nat) : (ConnMem.step c (.consume k)).1.p = c.p := by
  simp only [ConnMem.step]
  split
  · split <;> rfl
  · rfl

theorem step_shiftBack_p (c : CM) (k : Nat) : (ConnMem.step c (.shiftBack k)).1.p = c.p := by
  simp only [ConnMem.step]
  split
  · split <;> rfl
  · rfl

theorem op_p_of_window {c c' : CM} {o : ConnMem.Op} (ho : (∃ k, o = .consume k) ∨ (∃ k, o = .shiftBack k))
    (h : op c o = some c') : c'.p = c.p := by
  rw [op_eq h]
  rcases ho with ⟨k, rfl⟩ | ⟨k, rfl⟩
  · exact step_consume_p c k
  · exact step_shiftBack_p c k

theorem consumeTo_memok {c c' : CM} {n : Nat} (h : consumeTo c n = some c') (hm : MemOK c) : MemOK c' := by
  unfold consumeTo at h
  split at h
  · have := op_p_of_window (Or.inl ⟨_, rfl⟩) h
    unfold MemOK; rw [this]; exact hm
  · simp at h

theorem allocN_memok (i : Nat) (n : Nat) : ∀ {c : CM} {r size : Nat}, Link i c r size → MemOK c → MemOK (allocN n c).1 := by
  induction n with
  | zero => intro c r size _ hm; exact hm
  | succ n ih =>
    intro c r size h hm
    have a := alloc_spec h.recv _ hdrSize_lt
    have am := alloc_mem h.recv _ hdrSize_lt hm
    have hl : Link i (step c (.alloc Mhd.Gen.ConnMem.reqHeaderSize)).1 r size :=
      ⟨a.1, by rw [a.2.1]; exact h.sz, by rw [a.2.2.2.1]; exact h.inc⟩
    simp only [allocN]
    generalize step c (.alloc Mhd.Gen.ConnMem.reqHeaderSize) = res at am hl
    obtain ⟨c', rr⟩ := res
    cases rr with
    | ptr o =>
      cases o with
      | some v => exact ih hl am
      | none => exact am
    | ok => exact am
    | bool b => exact am
    | size k => exact am
    | badOp => exact am

theorem link_size_le {i : Nat} {c : CM} {r size : Nat} (h : Link i c r size) : size ≤ c.p.size := by
  have := h.sz; have := h.recv.off_le; have := h.recv.inside; omega

theorem errorOut_sync (x : CR) (k : ErrKind) : Sync (errorOut x k) := by
  intro b hb
  exfalso
  unfold errorOut at hb
  cases k <;> simp only at hb
  · split at hb <;> simp [Phase.buf?] at hb
  · split at hb <;> simp [Phase.buf?] at hb
  · simp [Phase.buf?] at hb

theorem sync_of_writeBack (i : Nat) (c : CM) (lvl : Int) (ph : Phase) (b : Bytes) (r : Nat)
    (hl : Link i c r b.size) (hm : MemOK c) (hp : ph.buf? = some b) :
    Sync { cm := writeBack c b, lvl := lvl, phase := ph } := by
  intro b' hb'
  have e : b' = b := by
    have : ph.buf? = some b' := hb'
    rw [hp] at this; exact (Option.some.inj this).symm
  subst e
  exact writeBack_sync c b' hm (link_size_le hl)

theorem afterLine_sync (i : Nat) (x : CR) (r : ReqLine) (hl : Link i x.cm r.rb r.buf.size) (hp : RLPost r)
    (hm : MemOK x.cm) : Sync (afterLine x r) := by
  unfold afterLine
  cases lineWspCheck (RLFlags.ofLevel x.lvl) x.cm.poolSize r with
  | some e => exact errorOut_sync _ _
  | none =>
    dsimp only
    have hv := hp.hv
    have hlen : r.tgt + r.tgtLen < r.buf.size := by have := hp.htl; have := hp.hrb; omega
    obtain ⟨T, hT, hsz, _, _, _, hel, hrb, _, hver⟩ :=
      TGT.processRequestTarget_no_fault (Discipline.unesc_strict x.lvl) r hlen hp.hnul hp.hq
    rw [hT]
    dsimp only
    have a := allocN_spec i T.elems.length hl
    have am := allocN_memok i T.elems.length hl hm
    generalize allocN T.elems.length x.cm = res at a am
    obtain ⟨c1, b⟩ := res
    cases b with
    | false => exact errorOut_sync _ _
    | true =>
      exact sync_of_writeBack i c1 x.lvl _ T.buf r.rb (by rw [hsz]; exact a.1) am rfl

theorem idleReqLine_sync (i : Nat) (x : CR) (s : RL) (hl : Link i x.cm s.rb s.buf.size)
    (hi : RLInvX (RLFlags.ofLevel x.lvl) s) (hm : MemOK x.cm) : Sync (idleReqLine x s) := by
  unfold idleReqLine
  cases hr : (rlScanner (RLFlags.ofLevel x.lvl)).run s with
  | fault f => exact absurd hr (Scanner.run_no_fault (rlLaws _) s hi.toInv f)
  | more s1 =>
    obtain ⟨hi1, hsz, hrb⟩ := rl_run_more _ hi hr
    have hp1 := hi1.toInv.hp
    obtain ⟨c1, hc, hl1, _, _⟩ := consumeTo_spec hl s1.rb hrb (by omega)
    have hm1 := consumeTo_memok hc hm
    simp only [hc]
    split
    · exact errorOut_sync _ _
    · exact sync_of_writeBack i c1 x.lvl _ s1.buf s1.rb (by rw [hsz]; exact hl1) hm1 rfl
  | done d =>
    cases d with
    | err e => exact errorOut_sync _ _
    | ok r =>
      obtain ⟨hp, hsz, hm'⟩ := rl_run_done _ hi hr
      have := hp.hm; have := hp.htl; have := hp.hv; have := hp.hrb
      obtain ⟨c1, hc, hl1, _, _⟩ := consumeTo_spec hl r.rb (by omega) (by omega)
      have hm1 := consumeTo_memok hc hm
      simp only [hc]
      have hl1' : Link i (writeBack c1 r.buf) r.rb r.buf.size := by rw [hsz]; exact hl1.setMem _
      exact afterLine_sync i { x with cm := writeBack c1 r.buf } r hl1' hp
        (writeBack_sync c1 r.buf hm1 (by rw [hsz]; exact link_size_le hl1)).1

theorem hdrBody_sync (i : Nat) (lvl : Int) (fs : Nat) (k : CM → HS → CR) (m : Nat)
    (hk : ∀ (c : CM) (s : HS), Link i c s.rb s.buf.size → HSP.Inv s → MemOK c →
      (hsScanner (FLFlags.ofLevel lvl) fs).measure s < m → Sync (k c s))
    (c : CM) (s0 : HS) (hl0 : Link i c s0.rb s0.buf.size) (hi0 : HSP.Inv s0) (hm : MemOK c)
    (hm0 : (hsScanner (FLFlags.ofLevel lvl) fs).measure s0 < m + 1) :
    Sync (hdrBody lvl fs k c s0) := by
  have L := HSP.hsLaws (FLFlags.ofLevel lvl) fs
  have ok := HSP.hsStep_ok (FLFlags.ofLevel lvl) fs s0 hi0
  unfold hdrBody
  cases hst : hsStep (FLFlags.ofLevel lvl) fs s0 with
  | needMore => exact sync_of_writeBack i c lvl _ s0.buf s0.rb hl0 hm rfl
  | fault f => exact absurd hst (L.no_fault s0 f hi0)
  | done d =>
    cases d with
    | err k => exact errorOut_sync _ _
    | ok h =>
      obtain ⟨g1, g2, g3, g4⟩ := HSP.hsStep_done_shape _ fs s0 hi0 h hst
      obtain ⟨c1, hc, hl1, _, _⟩ := consumeTo_spec hl0 (h.rb + h.shifted) g2 g3
      have hm1 := consumeTo_memok hc hm
      obtain ⟨c2, hc2, hr2, ho2, _, hinc2, _, hp2⟩ := shiftBack_spec hl1.recv h.shifted (by omega)
      simp only [hc, hc2]
      have hm2 : MemOK c2 := by unfold MemOK; rw [hp2]; exact hm1
      refine sync_of_writeBack i c2 lvl _ h.buf h.rb ⟨?_, ?_, by rw [hinc2]; exact hl1.inc⟩ hm2 rfl
      · have e : h.rb + h.shifted - h.shifted = h.rb := by omega
        rw [e] at hr2; exact hr2
      · have := hl1.sz; rw [ho2]; omega
  | advance s1 =>
    obtain ⟨hi1, hsz, _⟩ := ok.adv s1 hst
    have hmono := (HSP.hsStep_mono _ fs s0 s1 hst).rb
    have hp1 := hi1.hp
    obtain ⟨c1, hc, hl1, _, _⟩ := consumeTo_spec hl0 s1.rb hmono (by omega)
    have hm1 := consumeTo_memok hc hm
    have hl1' : Link i c1 s1.rb s1.buf.size := by rw [hsz]; exact hl1
    have hdec := L.decr s0 s1 hi0 hst
    simp only [hc]
    split
    · have a := alloc_spec hl1'.recv _ hdrSize_lt
      have am := alloc_mem hl1'.recv _ hdrSize_lt hm1
      have hl2 : Link i (step c1 (.alloc Mhd.Gen.ConnMem.reqHeaderSize)).1 s1.rb s1.buf.size :=
        ⟨a.1, by rw [a.2.1]; exact hl1'.sz, by rw [a.2.2.2.1]; exact hl1'.inc⟩
      generalize step c1 (.alloc Mhd.Gen.ConnMem.reqHeaderSize) = res at hl2 am
      obtain ⟨c2, rr⟩ := res
      cases rr with
      | ptr o =>
        cases o with
        | some v => exact hk c2 s1 hl2 hi1 am (by omega)
        | none => exact errorOut_sync _ _
      | ok => exact errorOut_sync _ _
      | bool b => exact errorOut_sync _ _
      | size k => exact errorOut_sync _ _
      | badOp => exact errorOut_sync _ _
    · exact hk c1 s1 hl1' hi1 hm1 (by omega)

theorem hdrLoop_sync (i : Nat) (lvl : Int) (fs : Nat) : ∀ (n : Nat) (c : CM) (s : HS), Link i c s.rb s.buf.size →
    HSP.Inv s → MemOK c → (hsScanner (FLFlags.ofLevel lvl) fs).measure s < n → Sync (hdrLoop lvl fs n c s) := by
  intro n
  induction n with
  | zero => intro c s _ _ _ hm; omega
  | succ n ih =>
    intro c s hl hi hmk hm
    exact hdrBody_sync i lvl fs (hdrLoop lvl fs n) n ih c { s with rbSize := c.rbSize } hl (inv_rbSize hi _) hmk hm

theorem idleStates_sync (i : Nat) (x : CR) (h : Safe i x) (hs : Sync x) : Sync (idleStates x) := by
  unfold idleStates
  unfold Safe at h
  cases hp : x.phase with
  | reqLine s =>
    rw [hp] at h
    have hm : MemOK x.cm := (hs s.buf (by rw [hp]; rfl)).1
    have h1 := idleReqLine_safe i x s h.1 h.2
    have s1 := idleReqLine_sync i x s h.1 h.2 hm
    dsimp only
    cases hp1 : (idleReqLine x s).phase with
    | headers hs' fs =>
      dsimp only
      have h1s := h1.1
      unfold Safe at h1s
      rw [hp1] at h1s
      exact hdrLoop_sync i _ fs _ _ hs' h1s.1 h1s.2 (s1 hs'.buf (by rw [hp1]; rfl)).1 (Nat.lt_succ_self _)
    | reqLine _ => exact s1
    | headersDone _ => exact s1
    | error _ => exact s1
    | fault _ => exact s1
    | refused _ => exact s1
  | headers hs' fs =>
    rw [hp] at h
    exact hdrLoop_sync i _ fs _ _ hs' h.1 h.2 (hs hs'.buf (by rw [hp]; rfl)).1 (Nat.lt_succ_self _)
  | headersDone _ => exact hs
  | error _ => exact hs
  | fault _ => exact hs
  | refused _ => exact hs

theorem checkGrow_sync (i : Nat) (x : CR) (h : Safe i x) (hs : Sync x) : Sync (checkGrow x) := by
  by_cases hr : x.reading = true
  · obtain ⟨r, size, hl⟩ := reading_link h hr
    unfold checkGrow
    rw [if_neg (by rw [hr]; simp)]
    dsimp only
    split
    · exact hs
    · have gm := grow_mem hl.recv (x.cm.rbOff == x.cm.rbSize)
      generalize ConnMem.step x.cm (.grow (x.cm.rbOff == x.cm.rbSize)) = res at gm
      obtain ⟨c', rr⟩ := res
      dsimp only at gm
      have keep : Sync { x with cm := c' } := by
        intro b hb
        have := hs b hb
        exact ⟨by unfold MemOK at *; rw [gm.1, gm.2]; exact this.1, by rw [gm.1]; exact this.2⟩
      cases rr with
      | badOp => intro b hb; simp [Phase.buf?] at hb
      | bool bb =>
        cases bb with
        | true => exact keep
        | false =>
          dsimp only
          split
          · exact keep
          · exact errorOut_sync _ _
      | ok => dsimp only; split; exact keep; exact errorOut_sync _ _
      | ptr o => dsimp only; split; exact keep; exact errorOut_sync _ _
      | size k => dsimp only; split; exact keep; exact errorOut_sync _ _
  · have hr' : x.reading = false := by cases hx : x.reading <;> simp_all
    rw [checkGrow_eq_of_not_reading x hr']; exact hs

theorem recvBytes_sync (i : Nat) (x : CR) (e : List UInt8) (h : Safe i x) (hs : Sync x) (hr : x.reading = true)
    (hk : e.length ≤ x.space) : Sync (recvBytes x e) := by
  obtain ⟨r, size, hl⟩ := reading_link h hr
  obtain ⟨c', he, hr', ho, hsz', hinc, _, hp'⟩ := recv_spec hl.recv e.length hk
  have hrb : x.cm.rb.getD 0 = r := by rw [hl.recv.rb]; rfl
  unfold recvBytes
  rw [he]
  dsimp only
  have hin := hr'.inside
  have hoff := hr'.off_le
  have key : ∀ b : Bytes, b.size = r + x.cm.rbOff → MemOK x.cm → x.cm.p.mem.take b.size = b.toList →
      MemOK (setMem c' (writeAt c'.p.mem (x.cm.rb.getD 0 + x.cm.rbOff) e)) ∧
      (setMem c' (writeAt c'.p.mem (x.cm.rb.getD 0 + x.cm.rbOff) e)).p.mem.take (b ++ e.toArray).size = (b ++ e.toArray).toList := by
    intro b hb hm ht
    unfold MemOK at hm
    have hlen : r + x.cm.rbOff + e.length ≤ c'.p.mem.length := by rw [hp', hm]; rw [hp'] at hin; omega
    rw [hrb]
    refine ⟨?_, ?_⟩
    · show (writeAt c'.p.mem (r + x.cm.rbOff) e).length = c'.p.size
      rw [writeAt_length _ _ _ hlen, hp']; exact hm
    · show (writeAt c'.p.mem (r + x.cm.rbOff) e).take (b ++ e.toArray).size = _
      rw [Array.size_append, hb]
      have : e.toArray.size = e.length := by simp
      rw [this, take_writeAt _ _ _ hlen, hp', ← hb, ht]
      simp
  unfold Safe at h
  cases hp : x.phase with
  | reqLine s =>
    rw [hp] at h
    intro b hb
    have e1 : b = s.buf ++ e.toArray := by simp [Phase.extend, Phase.buf?, rlExtend] at hb; exact hb.symm
    subst e1
    have := hs s.buf (by rw [hp]; rfl)
    exact key s.buf (by have := h.1.sz; have e0 : s.rb = r := by
                          have := h.1.recv.rb; rw [hl.recv.rb] at this; exact (Option.some.inj this).symm
                        omega) this.1 this.2
  | headers s fs =>
    rw [hp] at h
    intro b hb
    have e1 : b = s.buf ++ e.toArray := by simp [Phase.extend, Phase.buf?, hsExtend] at hb; exact hb.symm
    subst e1
    have := hs s.buf (by rw [hp]; rfl)
    exact key s.buf (by have := h.1.sz; have e0 : s.rb = r := by
                          have := h.1.recv.rb; rw [hl.recv.rb] at this; exact (Option.some.inj this).symm
                        omega) this.1 this.2
  | headersDone _ => simp only [CR.reading, hp] at hr; cases hr
  | error _ => simp only [CR.reading, hp] at hr; cases hr
  | fault _ => simp only [CR.reading, hp] at hr; cases hr
  | refused _ => simp only [CR.reading, hp] at hr; cases hr

theorem feedFuel_sync (i : Nat) : ∀ (n : Nat) (x : CR) (bs : List UInt8), Safe i x → Sync x → Sync (feedFuel n x bs) := by
  intro n
  induction n with
  | zero => intro x bs _ hs; exact hs
  | succ n ih =>
    intro x bs h hs
    unfold feedFuel
    split
    · exact hs
    · rename_i hc
      simp only [Bool.or_eq_true, Bool.not_eq_true', not_or, beq_iff_eq] at hc
      have hr : x.reading = true := by cases hx : x.reading <;> simp_all
      have hk : (bs.take (min bs.length x.space)).length ≤ x.space := by rw [List.length_take]; omega
      have h1 := recvBytes_safe i x _ h hr hk
      have s1 := recvBytes_sync i x _ h hs hr hk
      have h2 := idleStates_safe i _ h1.1
      have s2 := idleStates_sync i _ h1.1 s1
      have s3 := checkGrow_sync i _ h2.1 s2
      exact ih _ _ (idle_safe i _ h1.1).1 s3

theorem run_sync (i : Nat) (chunks : List (List UInt8)) : ∀ (x : CR), Safe i x → Sync x → Sync (run x chunks) := by
  induction chunks with
  | nil => intro x _ hs; exact hs
  | cons c cs ih =>
    intro x h hs
    exact ih (feed x c) (feedFuel_safe i (c.length + 1) x c h).1 (feedFuel_sync i (c.length + 1) x c h hs)

theorem init_sync (allocSize poolSize inc : Nat) (lvl : Int) : Sync (init allocSize poolSize inc lvl) := by
  intro b hb
  have e : b = #[] := by simp [init, Phase.buf?, RL.init] at hb; exact hb
  subst e
  refine ⟨?_, by simp⟩
  show (ConnMem.init allocSize poolSize inc).p.mem.length = (ConnMem.init allocSize poolSize inc).p.size
  have := allocate_mem (Mhd.Pool.create allocSize) (poolSize / 2) false
  unfold ConnMem.init
  dsimp only
  rw [this.1, this.2]
  simp [Mhd.Pool.create]

end Mhd.ConnRead
