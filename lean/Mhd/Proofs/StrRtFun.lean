/-
  C17 proofs: `MHD_str_remove_tokens_caseless_` — one removal round (the inner
  `do … while (1)` loop for one token) in list terms.
-/
import Mhd.Proofs.StrRmMain

namespace Mhd.Str

/-- the separator of a normalised list: ", " -/
abbrev sepCS : Bytes := [0x2c, 0x20]

/-- an element of a comma list as the in-place editor needs it: non-empty and free of commas -/
def elemOk (e : Bytes) : Bool := !e.isEmpty && e.all notComma

theorem elemOk_iff (e : Bytes) : elemOk e = true ↔ e ≠ [] ∧ ∀ x ∈ e, x ≠ 0x2c := by
  unfold elemOk
  cases e with
  | nil => simp
  | cons a t => simp [notComma]

/-! ### joinWith facts -/

theorem joinWith_append (sep : Bytes) (A B : List Bytes) (hB : B ≠ []) :
    joinWith sep (A ++ B) = joinWith sep A ++ (if A = [] then [] else sep) ++ joinWith sep B := by
  induction A with
  | nil => simp [joinWith]
  | cons a t ih =>
    cases t with
    | nil =>
      cases B with
      | nil => exact absurd rfl hB
      | cons b bs => simp [joinWith]
    | cons a' t' =>
      have : (a :: a' :: t') ++ B = a :: (a' :: (t' ++ B)) := rfl
      rw [this, joinWith, joinWith]
      have h2 : a' :: (t' ++ B) = (a' :: t') ++ B := rfl
      rw [h2, ih]
      simp [List.append_assoc]

theorem joinWith_length_mem (sep : Bytes) (l : List Bytes) : ∀ x ∈ l, x.length ≤ (joinWith sep l).length := by
  induction l with
  | nil => intro x hx; simp at hx
  | cons a t ih =>
    intro x hx
    rw [joinWith_cons]
    rcases List.mem_cons.mp hx with h | h
    · subst h; simp
    · have := ih x h
      have hne : t ≠ [] := by intro h0; rw [h0] at h; simp at h
      simp only [hne, if_false, List.length_append]; omega

theorem joinWith_ne_nil (sep : Bytes) (a : Bytes) (t : List Bytes) (ha : a ≠ []) : joinWith sep (a :: t) ≠ [] := by
  rw [joinWith_cons]; simp [ha]

theorem joinWith_cons_cons (sep a b : Bytes) (t : List Bytes) :
    joinWith sep (a :: b :: t) = a ++ (sep ++ joinWith sep (b :: t)) := by
  rw [joinWith]; simp [List.append_assoc]

/-! ### caseless equality and commas -/

theorem ceqBytes_commafree (a b : Bytes) (h : ceqBytes a b = true) (hb : ∀ x ∈ b, x ≠ 0x2c) : ∀ x ∈ a, x ≠ 0x2c := by
  induction a generalizing b with
  | nil => intro x hx; simp at hx
  | cons c a' ih =>
    cases b with
    | nil => simp [listEq] at h
    | cons d b' =>
      simp only [listEq, Bool.and_eq_true] at h
      intro x hx
      rcases List.mem_cons.mp hx with hx | hx
      · subst hx
        intro hc; subst hc
        exact hb d List.mem_cons_self (ceq_comma d h.1)
      · exact ih b' h.2 (fun y hy => hb y (List.mem_cons_of_mem _ hy)) x hx

theorem ceqBytes_length_ne (a b : Bytes) (h : a.length ≠ b.length) : ceqBytes a b = false := by
  cases hc : ceqBytes a b with
  | false => rfl
  | true => exact absurd (listEq_length hc) h

/-! ### `MHD_str_equal_caseless_bin_n_ (str + oa, tkn + ob, len)` -/

theorem eqBinAt_go (a : Bytes) (oa : Nat) (b : Bytes) (ob len : Nat) :
    ∀ (A B ja jb : Bytes) (i n : Nat), a.drop (oa + i) = A ++ ja → b.drop (ob + i) = B ++ jb →
      i + A.length = len → B.length = A.length → A.length < n →
      iter (equalCaselessBinStep a oa b ob len) n i = .ok (ceqBytes A B) := by
  intro A
  induction A with
  | nil =>
    intro B ja jb i n ha hb hl hlb hn
    obtain ⟨n', rfl⟩ : ∃ n', n = n' + 1 := ⟨n - 1, by omega⟩
    have : B = [] := List.eq_nil_of_length_eq_zero (by simpa using hlb)
    subst this
    have : ¬ i < len := by simp at hl; omega
    simp [iter, equalCaselessBinStep, this, listEq]
  | cons x A' ih =>
    intro B ja jb i n ha hb hl hlb hn
    obtain ⟨n', rfl⟩ : ∃ n', n = n' + 1 := ⟨n - 1, by omega⟩
    cases B with
    | nil => simp at hlb
    | cons y B' =>
      have hil : i < len := by simp at hl; omega
      obtain ⟨h1, h2, _⟩ := getElem?_of_drop_eq_cons (l := a) (i := oa + i) (x := x) (t := A' ++ ja) (by simpa using ha)
      obtain ⟨g1, g2, _⟩ := getElem?_of_drop_eq_cons (l := b) (i := ob + i) (x := y) (t := B' ++ jb) (by simpa using hb)
      have := ih B' ja jb (i + 1) n' (by rw [← Nat.add_assoc]; exact h2) (by rw [← Nat.add_assoc]; exact g2)
        (by simp at hl; omega) (by simpa using hlb) (by simp at hn; omega)
      simp only [iter, equalCaselessBinStep, hil, if_true, rd_some h1, rd_some g1, bind_ok']
      by_cases he : charsEqualCaseless x y = true
      · simp only [he, if_true, pure_eq_ok]; rw [this]; simp [listEq, he]
      · simp only [Bool.not_eq_true] at he
        simp [he, listEq]

theorem equalCaselessBinAt_spec (a : Bytes) (oa : Nat) (b : Bytes) (ob len : Nat) (A B ja jb : Bytes)
    (ha : a.drop oa = A ++ ja) (hb : b.drop ob = B ++ jb) (hlA : A.length = len) (hlB : B.length = len) :
    equalCaselessBinAt a oa b ob len = .ok (ceqBytes A B) := by
  unfold equalCaselessBinAt
  exact eqBinAt_go a oa b ob len A B ja jb 0 (len + 1) (by simpa using ha) (by simpa using hb) (by omega) (by omega) (by omega)

/-! ### `", "` before the next kept element -/

theorem rtSep_spec (pr pw : Nat) (buf J : Bytes) (hJ : buf.take pw = J)
    (hgap : pw ≠ 0 → pw + 2 ≤ pr) (hpr : pr ≤ buf.length)
    (hsame : pw ≠ 0 → pr = pw + 2 → (buf.drop pw).take 2 = sepCS) :
    ∃ pw' buf', rtSep pr pw buf = .ok (pw', buf') ∧ buf'.length = buf.length ∧
      pw' = pw + (if pw = 0 then 0 else 2) ∧ pw' ≤ pr ∧
      buf'.take pw' = J ++ (if pw = 0 then [] else sepCS) ∧ buf'.drop pr = buf.drop pr := by
  unfold rtSep
  by_cases h0 : pw = 0
  · subst h0
    refine ⟨0, buf, by simp, rfl, by simp, by omega, ?_, rfl⟩
    simp at hJ; simp [← hJ]
  · have hg := hgap h0
    simp only [h0, ne_eq, not_false_eq_true, if_true, if_false]
    by_cases hp : pr = pw + 2
    · have hs := hsame h0 hp
      simp only [hp, not_true_eq_false, if_false, pure_eq_ok]
      refine ⟨pw + 2, buf, rfl, rfl, rfl, by omega, ?_, rfl⟩
      rw [List.take_add, hJ, hs]
    · have hw1 : pw < buf.length := by omega
      have hw2 : pw + 1 < (buf.set pw 0x2c).length := by simp; omega
      simp only [hp, not_false_eq_true, if_true, wr_ok _ hw1, wr_ok _ hw2, bind_ok', pure_eq_ok]
      refine ⟨pw + 2, _, rfl, by simp, rfl, by omega, ?_, ?_⟩
      · rw [take_set_two _ _ _ _ (by omega), hJ]
      · rw [drop_set_lt _ _ _ _ (by omega), drop_set_lt _ _ _ _ (by omega)]

/-! ### copying one kept element down -/

theorem rtCopyElem_go (len : Nat) (junk : Bytes) :
    ∀ (cs : Bytes) (c : UInt8) (tail : Bytes) (pr pw : Nat) (buf : Bytes) (n : Nat),
      buf.drop pr = c :: cs ++ tail ++ junk → pr + (cs.length + 1 + tail.length) = len →
      (∀ x ∈ cs, x ≠ 0x2c) → (tail = [] ∨ ∃ t', tail = 0x2c :: t') → pw ≤ pr → cs.length < n →
      ∃ buf', iter (rtCopyElemStep len) n (pr, pw, buf) = .ok (pr + cs.length + 1, pw + cs.length + 1, buf') ∧
        buf'.length = buf.length ∧ buf'.take (pw + cs.length + 1) = buf.take pw ++ c :: cs ∧
        buf'.drop (pr + cs.length + 1) = buf.drop (pr + cs.length + 1) := by
  intro cs
  induction cs with
  | nil =>
    intro c tail pr pw buf n hd hlen hcs htail hle hn
    obtain ⟨n', rfl⟩ : ∃ n', n = n' + 1 := ⟨n - 1, by omega⟩
    obtain ⟨h1, h2, h3⟩ := getElem?_of_drop_eq_cons (l := buf) (i := pr) (x := c) (t := tail ++ junk) (by simpa using hd)
    -- the byte store
    obtain ⟨b1, hb1, hb1l, hb1t, hb1d⟩ : ∃ b1, (if pr ≠ pw then (do let c ← rd buf pr; wr buf pw c) else pure buf : M Bytes) = .ok b1 ∧
        b1.length = buf.length ∧ b1.take (pw + 1) = buf.take pw ++ [c] ∧ b1.drop (pr + 1) = buf.drop (pr + 1) := by
      by_cases hne : pr ≠ pw
      · have hpw : pw < buf.length := by omega
        simp only [hne, ne_eq, not_false_eq_true, if_true, rd_some h1, bind_ok', wr_ok _ hpw]
        exact ⟨_, rfl, by simp, take_set_succ _ _ _ hpw, drop_set_lt _ _ _ _ (by omega)⟩
      · have he : pr = pw := by omega
        simp only [hne, if_false, pure_eq_ok]
        refine ⟨buf, rfl, rfl, ?_, rfl⟩
        rw [List.take_add, ← he, hd]; simp
    have hagain : (if pr + 1 < len then (do let c ← rd b1 (pr + 1); pure (c != 0x2c)) else pure false : M Bool) = .ok false := by
      rcases htail with rfl | ⟨t', rfl⟩
      · have : ¬ pr + 1 < len := by simp at hlen; omega
        simp [this]
      · have hlt : pr + 1 < len := by simp at hlen; omega
        have : b1.drop (pr + 1) = 0x2c :: (t' ++ junk) := by rw [hb1d, h2]; simp
        obtain ⟨g1, _, _⟩ := getElem?_of_drop_eq_cons this
        simp [hlt, rd_some g1]
    refine ⟨b1, ?_, hb1l, by simpa using hb1t, by simpa using hb1d⟩
    simp only [pure_eq_ok] at hb1 hagain
    simp only [iter, rtCopyElemStep, hb1, bind_ok', hagain, Bool.false_eq_true, if_false, pure_eq_ok, List.length_nil,
      Nat.add_zero]
  | cons c' cs' ih =>
    intro c tail pr pw buf n hd hlen hcs htail hle hn
    obtain ⟨n', rfl⟩ : ∃ n', n = n' + 1 := ⟨n - 1, by omega⟩
    obtain ⟨h1, h2, h3⟩ := getElem?_of_drop_eq_cons (l := buf) (i := pr) (x := c) (t := c' :: cs' ++ tail ++ junk) (by simpa using hd)
    obtain ⟨b1, hb1, hb1l, hb1t, hb1d⟩ : ∃ b1, (if pr ≠ pw then (do let c ← rd buf pr; wr buf pw c) else pure buf : M Bytes) = .ok b1 ∧
        b1.length = buf.length ∧ b1.take (pw + 1) = buf.take pw ++ [c] ∧ b1.drop (pr + 1) = buf.drop (pr + 1) := by
      by_cases hne : pr ≠ pw
      · have hpw : pw < buf.length := by omega
        simp only [hne, ne_eq, not_false_eq_true, if_true, rd_some h1, bind_ok', wr_ok _ hpw]
        exact ⟨_, rfl, by simp, take_set_succ _ _ _ hpw, drop_set_lt _ _ _ _ (by omega)⟩
      · have he : pr = pw := by omega
        simp only [hne, if_false, pure_eq_ok]
        refine ⟨buf, rfl, rfl, ?_, rfl⟩
        rw [List.take_add, ← he, hd]; simp
    have hc' : c' ≠ 0x2c := hcs c' List.mem_cons_self
    have hd1 : b1.drop (pr + 1) = c' :: cs' ++ tail ++ junk := by rw [hb1d, h2]
    have hagain : (if pr + 1 < len then (do let c ← rd b1 (pr + 1); pure (c != 0x2c)) else pure false : M Bool) = .ok true := by
      have hlt : pr + 1 < len := by simp at hlen; omega
      obtain ⟨g1, _, _⟩ := getElem?_of_drop_eq_cons (l := b1) (i := pr + 1) (x := c') (t := cs' ++ tail ++ junk) (by simpa using hd1)
      simp [hlt, rd_some g1, hc']
    obtain ⟨b2, hb2, hb2l, hb2t, hb2d⟩ := ih c' tail (pr + 1) (pw + 1) b1 n' hd1 (by simp at hlen ⊢; omega)
      (fun x hx => hcs x (List.mem_cons_of_mem _ hx)) htail (by omega) (by simp at hn; omega)
    refine ⟨b2, ?_, by omega, ?_, ?_⟩
    · simp only [pure_eq_ok] at hb1 hagain
      simp only [iter, rtCopyElemStep, hb1, bind_ok', hagain, if_true, pure_eq_ok]
      rw [hb2]; simp only [List.length_cons]
      have e1 : pr + 1 + cs'.length + 1 = pr + (cs'.length + 1) + 1 := by omega
      have e2 : pw + 1 + cs'.length + 1 = pw + (cs'.length + 1) + 1 := by omega
      rw [e1, e2]
    · have e1 : pw + (c' :: cs').length + 1 = pw + 1 + cs'.length + 1 := by simp; omega
      rw [e1, hb2t, hb1t]; simp
    · have e1 : pr + (c' :: cs').length + 1 = pr + 1 + cs'.length + 1 := by simp; omega
      rw [e1, hb2d]
      have : pr + 1 + cs'.length + 1 = (pr + 1) + (cs'.length + 1) := by omega
      rw [this, ← List.drop_drop, ← List.drop_drop (l := buf), hb1d]

end Mhd.Str
