/-
  C03 helper lemmas, part 3: the strict head splitter is stable under more input
  (what was parsed stays parsed, the rest is extended) and consumes at least its terminators.
-/
import Mhd.Proofs.FramingConn
namespace Mhd.Framing
open Mhd.Gen.Framing

/-! ### the strict head splitter is stable under more input and consumes what it parses -/

theorem takeLine_spec (b l r : Bytes) (h : takeLine b = some (l, r)) : b = l ++ CR :: LF :: r := by
  induction b generalizing l with
  | nil => simp [takeLine] at h
  | cons c rest ih =>
    cases rest with
    | nil => simp [takeLine] at h
    | cons d rest' =>
      unfold takeLine at h
      by_cases hc : (c == CR && d == LF) = true
      · simp only [hc, if_true, Option.some.injEq, Prod.mk.injEq] at h
        obtain ⟨h1, h2⟩ := h
        simp only [Bool.and_eq_true, beq_iff_eq] at hc
        subst h1; subst h2; simp [hc.1, hc.2]
      · simp only [hc, Bool.false_eq_true, if_false] at h
        cases ht : takeLine (d :: rest') with
        | none => simp [ht] at h
        | some p =>
          obtain ⟨l', r'⟩ := p
          simp only [ht, Option.some.injEq, Prod.mk.injEq] at h
          obtain ⟨h1, h2⟩ := h
          subst h1; subst h2
          rw [ih l' ht]; rfl

theorem takeLine_append (b l r e : Bytes) (h : takeLine b = some (l, r)) :
    takeLine (b ++ e) = some (l, r ++ e) := by
  induction b generalizing l with
  | nil => simp [takeLine] at h
  | cons c rest ih =>
    cases rest with
    | nil => simp [takeLine] at h
    | cons d rest' =>
      unfold takeLine at h
      simp only [List.cons_append]
      unfold takeLine
      by_cases hc : (c == CR && d == LF) = true
      · simp only [hc, if_true, Option.some.injEq, Prod.mk.injEq] at h ⊢
        exact ⟨h.1, by rw [h.2]⟩
      · simp only [hc, Bool.false_eq_true, if_false] at h ⊢
        cases ht : takeLine (d :: rest') with
        | none => simp [ht] at h
        | some p =>
          obtain ⟨l', r'⟩ := p
          simp only [ht, Option.some.injEq, Prod.mk.injEq] at h
          obtain ⟨h1, h2⟩ := h
          subst h2
          have := ih l' ht
          simp only [List.cons_append] at this
          rw [this]
          simp only [Option.some.injEq, Prod.mk.injEq]
          exact ⟨h1, trivial⟩

theorem takeLine_length (b l r : Bytes) (h : takeLine b = some (l, r)) : r.length + l.length + 2 = b.length := by
  rw [takeLine_spec b l r h]; simp; omega

theorem takeFields_ne_refuse (n : Nat) (b : Bytes) (x : Option Nat) : takeFields n b ≠ .refuse x := by
  induction n generalizing b x with
  | zero => simp [takeFields]
  | succ n ih =>
    unfold takeFields
    cases hl : takeLine b with
    | none => simp
    | some q =>
      obtain ⟨l, rest⟩ := q
      cases l with
      | nil => simp
      | cons c l' =>
        simp only
        cases hp : parseField (c :: l') with
        | none => simp
        | some f =>
          simp only
          cases ht : takeFields n rest with
          | incomplete => simp
          | bad => simp
          | refuse y => exact absurd ht (ih rest y)
          | ok fs r => simp

theorem takeFields_append (n m : Nat) (b e : Bytes) (fs : List Field) (r : Bytes)
    (h : takeFields n b = .ok fs r) (hnm : n ≤ m) : takeFields m (b ++ e) = .ok fs (r ++ e) := by
  induction n generalizing m b fs with
  | zero => simp [takeFields] at h
  | succ n ih =>
    cases m with
    | zero => omega
    | succ m =>
      unfold takeFields at h ⊢
      cases hl : takeLine b with
      | none => simp [hl] at h
      | some p =>
        obtain ⟨l, rest⟩ := p
        rw [takeLine_append b l rest e hl]
        simp only [hl] at h
        cases l with
        | nil =>
          simp only at h ⊢
          cases h; rfl
        | cons c l' =>
          simp only at h ⊢
          cases hp : parseField (c :: l') with
          | none => simp [hp] at h
          | some f =>
            simp only [hp] at h ⊢
            cases ht : takeFields n rest with
            | incomplete => simp [ht] at h
            | bad => simp [ht] at h
            | refuse x => exact absurd ht (takeFields_ne_refuse _ _ x)
            | ok fs' r' =>
              simp only [ht] at h
              cases h
              rw [ih m rest fs' ht (by omega)]

theorem takeFields_bad_append (n m : Nat) (b e : Bytes)
    (h : takeFields n b = .bad) (hnm : n ≤ m) : takeFields m (b ++ e) = .bad := by
  induction n generalizing m b with
  | zero => simp [takeFields] at h
  | succ n ih =>
    cases m with
    | zero => omega
    | succ m =>
      unfold takeFields at h ⊢
      cases hl : takeLine b with
      | none => simp [hl] at h
      | some p =>
        obtain ⟨l, rest⟩ := p
        rw [takeLine_append b l rest e hl]
        simp only [hl] at h
        cases l with
        | nil => simp at h
        | cons c l' =>
          simp only at h ⊢
          cases hp : parseField (c :: l') with
          | none => rfl
          | some f =>
            simp only [hp] at h ⊢
            cases ht : takeFields n rest with
            | incomplete => simp [ht] at h
            | bad => rw [ih m rest ht (by omega)]
            | refuse x => exact absurd ht (takeFields_ne_refuse _ _ x)
            | ok fs' r' => simp [ht] at h

theorem takeFields_length (n : Nat) (b : Bytes) (fs : List Field) (r : Bytes)
    (h : takeFields n b = .ok fs r) : r.length + 2 ≤ b.length := by
  induction n generalizing b fs with
  | zero => simp [takeFields] at h
  | succ n ih =>
    unfold takeFields at h
    cases hl : takeLine b with
    | none => simp [hl] at h
    | some p =>
      obtain ⟨l, rest⟩ := p
      have hlen := takeLine_length b l rest hl
      simp only [hl] at h
      cases l with
      | nil => simp only at h; cases h; omega
      | cons c l' =>
        simp only at h
        cases hp : parseField (c :: l') with
        | none => simp [hp] at h
        | some f =>
          simp only [hp] at h
          cases ht : takeFields n rest with
          | incomplete => simp [ht] at h
          | bad => simp [ht] at h
          | refuse x => exact absurd ht (takeFields_ne_refuse _ _ x)
          | ok fs' r' =>
            simp only [ht] at h
            cases h
            have := ih rest fs' ht
            omega

theorem parseHead_append (b e : Bytes) (h : Head) (r : Bytes) (hp : parseHead b = .ok h r) :
    parseHead (b ++ e) = .ok h (r ++ e) := by
  unfold parseHead at hp ⊢
  cases hl : takeLine b with
  | none => simp [hl] at hp
  | some p =>
    obtain ⟨l, rest⟩ := p
    rw [takeLine_append b l rest e hl]
    simp only [hl] at hp ⊢
    cases hr : parseRequestLine l with
    | none => simp [hr] at hp
    | some q =>
      obtain ⟨m, t, v⟩ := q
      simp only [hr] at hp ⊢
      cases ht : takeFields (rest.length + 1) rest with
      | incomplete => simp [ht] at hp
      | bad => simp [ht] at hp
      | refuse x => exact absurd ht (takeFields_ne_refuse _ _ x)
      | ok fs r' =>
        simp only [ht] at hp
        rw [takeFields_append _ ((rest ++ e).length + 1) rest e fs r' ht (by simp)]
        simp only
        split at hp
        · rename_i hd; cases hp; simp [hd]
        · cases hp

theorem parseHead_bad_append (b e : Bytes) (hp : parseHead b = .bad) : parseHead (b ++ e) = .bad := by
  unfold parseHead at hp ⊢
  cases hl : takeLine b with
  | none => simp [hl] at hp
  | some p =>
    obtain ⟨l, rest⟩ := p
    rw [takeLine_append b l rest e hl]
    simp only [hl] at hp ⊢
    cases hr : parseRequestLine l with
    | none => rfl
    | some q =>
      obtain ⟨m, t, v⟩ := q
      simp only [hr] at hp ⊢
      cases ht : takeFields (rest.length + 1) rest with
      | incomplete => simp [ht] at hp
      | bad => rw [takeFields_bad_append _ ((rest ++ e).length + 1) rest e ht (by simp)]
      | refuse x => exact absurd ht (takeFields_ne_refuse _ _ x)
      | ok fs r' =>
        simp only [ht] at hp
        rw [takeFields_append _ ((rest ++ e).length + 1) rest e fs r' ht (by simp)]
        simp only
        split at hp
        · cases hp
        · rename_i hd; simp [hd]

theorem parseHead_length (b : Bytes) (h : Head) (r : Bytes) (hp : parseHead b = .ok h r) :
    r.length + 4 ≤ b.length := by
  unfold parseHead at hp
  cases hl : takeLine b with
  | none => simp [hl] at hp
  | some p =>
    obtain ⟨l, rest⟩ := p
    have h1 := takeLine_length b l rest hl
    simp only [hl] at hp
    cases hr : parseRequestLine l with
    | none => simp [hr] at hp
    | some q =>
      obtain ⟨m, t, v⟩ := q
      simp only [hr] at hp
      cases ht : takeFields (rest.length + 1) rest with
      | incomplete => simp [ht] at hp
      | bad => simp [ht] at hp
      | refuse x => exact absurd ht (takeFields_ne_refuse _ _ x)
      | ok fs r' =>
        simp only [ht] at hp
        have h2 := takeFields_length _ rest fs r' ht
        split at hp
        · cases hp; omega
        · cases hp

theorem parseHead_ne_refuse (b : Bytes) (x : Option Nat) : parseHead b ≠ .refuse x := by
  unfold parseHead
  cases hl : takeLine b with
  | none => simp
  | some q =>
    obtain ⟨l, rest⟩ := q
    simp only
    cases hr : parseRequestLine l with
    | none => simp
    | some q2 =>
      obtain ⟨m, t, v⟩ := q2
      simp only
      cases ht : takeFields (rest.length + 1) rest with
      | incomplete => simp
      | bad => simp
      | refuse y => exact absurd ht (takeFields_ne_refuse _ _ y)
      | ok fs r => simp only; split <;> simp

/-- the strict splitter is an incremental scanner -/
theorem strictLawful : @LawfulHeadParser strictParser :=
  @LawfulHeadParser.mk strictParser
    rfl
    parseHead_append
    parseHead_bad_append
    (fun b e x h => absurd h (parseHead_ne_refuse b x))
    (fun b h r hp => by have := parseHead_length b h r hp; omega)
    (fun b e fs r h => takeFields_append _ _ b e fs r h (by simp))
    (fun b e h => takeFields_bad_append _ _ b e h (by simp))
    (fun b e x h => absurd h (takeFields_ne_refuse _ b x))
    (fun b fs r h => by have := takeFields_length _ b fs r h; omega)

end Mhd.Framing
