/-
  C09 helper lemmas, part 6: the free callbacks emitted are exactly the
  transitions of a response to "freed" (balance law over every function).
-/
import Mhd.Proofs.LimitsResp

namespace Mhd.Limits


def frc (r : Nat) (evs : List Ev) : Nat := evs.count (.freeCb r)
@[simp] theorem frc_nil (r) : frc r [] = 0 := rfl
@[simp] theorem frc_append (r) (a b : List Ev) : frc r (a ++ b) = frc r a + frc r b := by simp [frc]
@[simp] theorem frc_cons (r) (e : Ev) (l) : frc r (e :: l) = frc r l + if e = .freeCb r then 1 else 0 := by
  simp [frc, List.count_cons]

/-- 1 iff response `r` has been freed and has a free callback -/
def phi (r : Nat) (T : Nat → Option Resp) : Nat :=
  match T r with
  | some x => if x.freed && x.hasCb then 1 else 0
  | none => 0

/-- free-callback balance: the callbacks emitted are exactly the transitions to "freed" -/
def FB (r : Nat) (Tb Ta : Nat → Option Resp) (evs : List Ev) : Prop := frc r evs + phi r Tb = phi r Ta

theorem FB.refl (r : Nat) (T : Nat → Option Resp) : FB r T T [] := by simp [FB]
theorem FB.trans {r : Nat} {T0 T1 T2 : Nat → Option Resp} {e1 e2 : List Ev} (h1 : FB r T0 T1 e1) (h2 : FB r T1 T2 e2) :
    FB r T0 T2 (e1 ++ e2) := by
  unfold FB at *; simp; omega
theorem FB.nofree {r : Nat} {T : Nat → Option Resp} {e : List Ev} (h : frc r e = 0) : FB r T T e := by
  unfold FB; omega

theorem phi_setFn_ne (r r0 : Nat) (T : Nat → Option Resp) (v : Option Resp) (h : r ≠ r0) : phi r (setFn T r0 v) = phi r T := by
  simp [phi, setFn, h]

theorem release_fb (R : RespTab) (r0 r : Nat) : FB r R.tab (release R r0).1.tab (release R r0).2 := by
  unfold release
  split
  · exact FB.nofree (by simp)
  · rename_i x hx
    split
    · exact FB.nofree (by simp)
    · rename_i hnf
      split
      · exact FB.nofree (by simp)
      · split
        · by_cases e : r = r0
          · subst e
            unfold FB
            simp only [phi, hx, setFn, if_true]
            have : x.freed = false := by simpa using hnf
            cases hcb : x.hasCb <;> simp [this, hcb]
          · unfold FB
            simp only [phi_setFn_ne r r0 _ _ e]
            have hne : ¬ r0 = r := fun hh => e hh.symm
            split <;> simp [hne]
        · by_cases e : r = r0
          · subst e
            unfold FB
            simp [phi, hx, setFn]
          · unfold FB
            simp [phi_setFn_ne r r0 _ _ e]

theorem releaseOpt_fb (R : RespTab) (o : Option Nat) (r : Nat) : FB r R.tab (releaseOpt R o).1.tab (releaseOpt R o).2 := by
  cases o with
  | none => exact FB.refl r _
  | some r0 => exact release_fb R r0 r

theorem acquire_phi (R R' : RespTab) (r0 r : Nat) (h : acquire R r0 = some R') : phi r R'.tab = phi r R.tab := by
  unfold acquire at h
  split at h
  · rename_i x hx
    split at h
    · simp at h; subst h
      by_cases e : r = r0
      · subst e; simp [phi, setFn, hx]
      · exact phi_setFn_ne r r0 _ _ e
    · simp at h
  · simp at h

theorem closeConn_fb (R : RespTab) (c : Conn) (r : Nat) : FB r R.tab (closeConn R c).1.tab (closeConn R c).2.2 := by
  unfold closeConn
  split
  · exact release_fb R _ r
  · exact FB.refl r _

theorem finishReply_fb (R : RespTab) (c : Conn) (r : Nat) : FB r R.tab (finishReply R c).1.tab (finishReply R c).2.2.2 := by
  unfold finishReply; exact closeConn_fb R c r

theorem FB.pre {r : Nat} {T0 T1 : Nat → Option Resp} {e0 e : List Ev} (h0 : frc r e0 = 0) (h : FB r T0 T1 e) : FB r T0 T1 (e0 ++ e) := by
  unfold FB at *; simp; omega

theorem runReply_fb (R1 : RespTab) (c1 : Conn) (r0 : Nat) (cl : Bool) (r : Nat) :
    FB r R1.tab (runReply R1 c1 r0 cl).1.tab (runReply R1 c1 r0 cl).2.2.2 := by
  unfold runReply
  split
  · exact closeConn_fb R1 _ r
  · split
    · exact FB.pre (by simp) (closeConn_fb R1 _ r)
    · split
      · exact FB.refl r _
      · exact finishReply_fb R1 _ r

theorem doReply_fb (cfg : Cfg) (R : RespTab) (c : Conn) (r0 : Nat) (cl : Bool) (r : Nat) :
    FB r R.tab (doReply cfg R c r0 cl).1.tab (doReply cfg R c r0 cl).2.2.2 := by
  unfold doReply
  split
  · exact FB.nofree (by simp)
  · split
    · exact FB.nofree (by simp)
    · split
      · exact FB.nofree (by simp)
      · rename_i R1 hacq
        have hp := acquire_phi R R1 r0 r hacq
        have lift : ∀ {T e}, FB r R1.tab T e → FB r R.tab T e := by
          intro T e h; unfold FB at *; rw [← hp]; exact h
        exact lift (FB.pre (by simp) (runReply_fb R1 _ r0 cl r))

theorem interimOne_fb (R : RespTab) (c : Conn) (r0 r : Nat) :
    FB r R.tab (interimOne R c r0).1.tab (interimOne R c r0).2.2 := by
  unfold interimOne
  split
  · exact FB.nofree (by simp)
  · split
    · exact FB.nofree (by simp)
    · rename_i R1 hacq
      have hp := acquire_phi R R1 r0 r hacq
      have lift : ∀ {T e}, FB r R1.tab T e → FB r R.tab T e := by
        intro T e h; unfold FB at *; rw [← hp]; exact h
      exact lift (FB.pre (by simp) (release_fb R1 r0 r))

theorem interims_fb (c : Conn) (r : Nat) (l : List Nat) : ∀ (R : RespTab),
    FB r R.tab (interims R c l).1.tab (interims R c l).2.2 := by
  induction l with
  | nil => intro R; exact FB.refl r _
  | cons r0 rest ih =>
    intro R
    unfold interims
    have h1 := interimOne_fb R c r0 r
    generalize interimOne R c r0 = q at h1 ⊢
    obtain ⟨R1, ok, e⟩ := q
    cases ok with
    | false => exact h1
    | true => exact h1.trans (ih R1)

theorem replyPre_fb (cfg : Cfg) (R : RespTab) (c : Conn) (r0 : Nat) (cl : Bool) (pre : List Nat) (r : Nat) :
    FB r R.tab (replyPre cfg R c r0 cl pre).1.tab (replyPre cfg R c r0 cl pre).2.2.2 := by
  unfold replyPre
  have h1 := interims_fb c r pre R
  generalize interims R c pre = q at h1 ⊢
  obtain ⟨R1, ok, e⟩ := q
  cases ok with
  | false => exact h1
  | true => exact h1.trans (doReply_fb cfg R1 c r0 _ r)

theorem handleReq_fb (cfg : Cfg) (R : RespTab) (c : Conn) (r : Nat) :
    FB r R.tab (handleReq cfg R c).1.tab (handleReq cfg R c).2.2.2 := by
  unfold handleReq
  split
  · exact FB.refl r _
  · split <;> exact FB.nofree (by simp)
  · exact replyPre_fb cfg R c _ _ _ r
  · exact FB.refl r _
  · exact replyPre_fb cfg R { c with inClose := true } _ _ _ r
  · split
    · exact runReply_fb R _ _ true r
    · exact FB.refl r _

theorem afterReq_fb (R : RespTab) (c : Conn) (r : Nat) : FB r R.tab (afterReq R c).1.tab (afterReq R c).2.2.2 := by
  unfold afterReq
  split
  · exact closeConn_fb R c r
  · split
    · exact finishReply_fb R c r
    · exact FB.refl r _

theorem handleConn_fb (cfg : Cfg) (R : RespTab) (c : Conn) (r : Nat) :
    FB r R.tab (handleConn cfg R c).1.tab (handleConn cfg R c).2.2.2 := by
  unfold handleConn
  have h1 := handleReq_fb cfg R c r
  generalize handleReq cfg R c = q at h1 ⊢
  obtain ⟨R1, c1, d, e⟩ := q
  simp only at h1 ⊢
  cases d with
  | keep => exact h1.trans (afterReq_fb R1 c1 r)
  | clean => exact h1
  | susp => exact h1

theorem handleList_fb (cfg : Cfg) (r : Nat) (l : List Conn) : ∀ (acc : HAcc) (T0 : Nat → Option Resp),
    FB r T0 acc.R.tab acc.evs → FB r T0 (handleList cfg acc l).R.tab (handleList cfg acc l).evs := by
  induction l with
  | nil => intro acc T0 h; exact h
  | cons x rest ih =>
    intro acc T0 h
    unfold handleList
    have hk := handleConn_fb cfg acc.R x r
    generalize handleConn cfg acc.R x = q at hk ⊢
    obtain ⟨R1, c1, d, e⟩ := q
    simp only at hk
    cases d <;> exact ih _ T0 (h.trans hk)

theorem closeList_fb (r : Nat) (l : List Conn) : ∀ (acc : CAcc) (T0 : Nat → Option Resp),
    FB r T0 acc.R.tab acc.evs → FB r T0 (closeList acc l).R.tab (closeList acc l).evs := by
  induction l with
  | nil => intro acc T0 h; exact h
  | cons x rest ih =>
    intro acc T0 h
    unfold closeList
    have hk := closeConn_fb acc.R x r
    generalize closeConn acc.R x = q at hk ⊢
    obtain ⟨R1, c1, e⟩ := q
    simp only at hk
    exact ih _ T0 (h.trans hk)



def NoFree (e : List Ev) : Prop := ∀ r, frc r e = 0
theorem nofree_nil : NoFree [] := fun _ => rfl
theorem nofree_append {a b : List Ev} (ha : NoFree a) (hb : NoFree b) : NoFree (a ++ b) := by
  intro r; simp [ha r, hb r]

theorem ipAdd_nofree (s : St) (a : Nat) : NoFree (ipAdd s a).2.2 := by
  unfold ipAdd; intro r
  split
  · simp
  · split
    · simp
    · split
      · simp
      · split <;> simp

theorem lateFail_nofree (s : St) : NoFree (lateFail s).2.2 := by
  unfold lateFail; intro r
  split
  · split <;> simp
  · split
    · split <;> simp
    · simp

theorem prepare_free (s : St) (c a : Nat) (v : Bool) : NoFree (prepare s c a v).2.2 ∧ (prepare s c a v).1.resps = s.resps := by
  unfold prepare
  by_cases hl : s.connections = s.cfg.limit
  · simp only [hl, if_true]; exact ⟨fun r => by simp, by first | rfl | trivial | simp⟩
  · simp only [hl, if_false]
    have hf := ipAdd_fields s a
    have hq := ipAdd_nofree s a
    generalize ipAdd s a = q at hf hq ⊢
    obtain ⟨s1, ok, e1⟩ := q
    simp only at hf hq
    have f8 : s1.resps = s.resps := hf.2.2.2.2.2.2.2.1
    cases ok with
    | false => exact ⟨nofree_append hq (fun r => by simp), by first | exact f8 | trivial | simp [f8]⟩
    | true =>
      simp only
      by_cases hv : (!v) = true
      · simp only [hv, if_true]; exact ⟨nofree_append hq (fun r => by simp), by first | trivial | simp [f8]⟩
      · simp only [hv]
        by_cases hc : s1.armed = some .conn
        · simp only [hc, if_true]; exact ⟨nofree_append hq (fun r => by simp), by first | trivial | simp [f8]⟩
        · simp only [hc, if_false]
          by_cases ha : s1.armed = some .addr
          · simp only [ha, if_true]; exact ⟨nofree_append hq (fun r => by simp), by first | trivial | simp [f8]⟩
          · simp only [ha, if_false]; exact ⟨nofree_append hq (fun r => by simp), by first | exact f8 | trivial | simp [f8]⟩

theorem process_free (s : St) (cn : Conn) : NoFree (process s cn).2.2 ∧ (process s cn).1.resps = s.resps := by
  unfold process
  by_cases hp : s.armed = some .pool
  · simp only [hp, if_true]; exact ⟨fun r => by simp, by first | rfl | trivial | simp⟩
  · simp only [hp, if_false]
    by_cases hl : s.connections ≥ s.cfg.limit
    · simp only [hl, if_true]; exact ⟨fun r => by simp, by first | rfl | trivial | simp⟩
    · simp only [hl, if_false]
      have hf := lateFail_fields { s with connections := s.connections + 1, active := cn :: s.active }
      have hq := lateFail_nofree { s with connections := s.connections + 1, active := cn :: s.active }
      generalize lateFail { s with connections := s.connections + 1, active := cn :: s.active } = q at hf hq ⊢
      obtain ⟨s2, fl, e⟩ := q
      simp only at hf hq
      have f9 : s2.resps = s.resps := hf.2.2.2.2.2.2.2.2.1
      cases fl with
      | false => exact ⟨nofree_append (fun r => by simp) hq, by first | exact f9 | trivial | simp [f9]⟩
      | true => exact ⟨nofree_append (nofree_append (fun r => by simp) hq) (fun r => by simp), by first | trivial | simp [f9]⟩

theorem processList_free (l : List Conn) : ∀ (s : St), NoFree (processList s l).2 ∧ (processList s l).1.resps = s.resps := by
  induction l with
  | nil => intro s; exact ⟨nofree_nil, rfl⟩
  | cons cn rest ih =>
    intro s
    unfold processList
    have h1 := process_free s cn
    generalize process s cn = q at h1 ⊢
    obtain ⟨s1, ok, e⟩ := q
    simp only at h1 ⊢
    have h2 := ih s1
    exact ⟨nofree_append h1.1 h2.1, h2.2.trans h1.2⟩

/-- state-level balance -/
def SFB (r : Nat) (s s' : St) (e : List Ev) : Prop := FB r s.resps s'.resps e

theorem SFB.of_nofree {r : Nat} {s s' : St} {e : List Ev} (h1 : NoFree e) (h2 : s'.resps = s.resps) : SFB r s s' e := by
  unfold SFB; rw [h2]; exact FB.nofree (h1 r)

theorem SFB.trans {r : Nat} {s0 s1 s2 : St} {e1 e2 : List Ev} (h1 : SFB r s0 s1 e1) (h2 : SFB r s1 s2 e2) :
    SFB r s0 s2 (e1 ++ e2) := FB.trans h1 h2

theorem processNew_sfb (r : Nat) (s : St) : SFB r s (processNew s).1 (processNew s).2 := by
  unfold processNew
  have := processList_free s.newL.reverse { s with newL := [] }
  exact SFB.of_nofree this.1 this.2

theorem cleanupOne_sfb (r : Nat) (s : St) (c : Conn) : SFB r s (cleanupOne s c).1 (cleanupOne s c).2 := by
  unfold cleanupOne
  simp only
  have h := releaseOpt_fb { tab := (ipDel s c.addr).resps, fault := none } c.resp r
  generalize releaseOpt { tab := (ipDel s c.addr).resps, fault := none } c.resp = q at h ⊢
  simp only [ipDel_resps] at h
  have hh : FB r s.resps q.1.tab ([Ev.connClose c.id] ++ q.2 ++ [Ev.fdClose c.id]) := by
    unfold FB at *; simp; omega
  unfold SFB
  split <;> exact hh

theorem cleanupList_sfb (r : Nat) (l : List Conn) : ∀ (s : St), SFB r s (cleanupList s l).1 (cleanupList s l).2 := by
  induction l with
  | nil => intro s; exact FB.refl r _
  | cons c rest ih =>
    intro s
    unfold cleanupList
    have h1 := cleanupOne_sfb r s c
    generalize cleanupOne s c = q at h1 ⊢
    obtain ⟨s1, e1⟩ := q
    exact h1.trans (ih s1)

theorem cleanupAll_sfb (r : Nat) (s : St) : SFB r s (cleanupAll s).1 (cleanupAll s).2 := by
  unfold cleanupAll
  exact cleanupList_sfb r s.cleanup.reverse { s with cleanup := [] }

theorem closeNewList_free (l : List Conn) : ∀ (s : St), NoFree (closeNewList s l).2 ∧ (closeNewList s l).1.resps = s.resps := by
  induction l with
  | nil => intro s; exact ⟨nofree_nil, rfl⟩
  | cons x rest ih =>
    intro s
    unfold closeNewList
    have := ih (ipDel s x.addr)
    exact ⟨nofree_append (fun r => by simp) this.1, by simpa using this.2⟩

theorem resumePass_sfb (r : Nat) (s : St) : SFB r s (resumePass s).1 (resumePass s).2 := by
  unfold resumePass
  split <;> exact FB.refl r _

theorem forceResume_sfb (r : Nat) (flag : Bool) (s : St) : SFB r s (forceResume flag s).1 (forceResume flag s).2 := by
  unfold forceResume
  split
  · exact resumePass_sfb r { s with resuming := true }
  · exact FB.refl r _

theorem handlePass_sfb (r : Nat) (s : St) : SFB r s (handlePass s).1 (handlePass s).2 := by
  unfold handlePass
  exact handleList_fb s.cfg r s.active.reverse
    { R := { tab := s.resps, fault := none }, kept := [], clean := [], susp := [], evs := [] } s.resps (FB.refl r _)

theorem closeActive_sfb (r : Nat) (s : St) : SFB r s (closeActive s).1 (closeActive s).2 := by
  unfold closeActive
  exact closeList_fb r s.active.reverse { R := { tab := s.resps, fault := none }, moved := [], evs := [] } s.resps (FB.refl r _)

theorem round_sfb (r : Nat) (s : St) : SFB r s (round s).1 (round s).2 := by
  unfold round
  have h1 : SFB r s (if s.cfg.allowSuspend then resumePass s else (s, [])).1 (if s.cfg.allowSuspend then resumePass s else (s, [])).2 := by
    split
    · exact resumePass_sfb r s
    · exact FB.refl r _
  have := ((h1.trans (processNew_sfb r _)).trans (handlePass_sfb r _)).trans (cleanupAll_sfb r _)
  simpa [List.append_assoc] using this

theorem markUpgraded_resps (s : St) : (markUpgraded s).resps = s.resps := by
  unfold markUpgraded; split <;> rfl

theorem stopTail_sfb (r : Nat) (s : St) : SFB r s (stopTail s).1 (stopTail s).2 := by
  unfold stopTail
  have h0 : SFB r s (markUpgraded s) [] := by unfold SFB; rw [markUpgraded_resps]; exact FB.refl r _
  have := ((h0.trans (forceResume_sfb r s.cfg.allowUpgrade (markUpgraded s))).trans (closeActive_sfb r _)).trans (cleanupAll_sfb r _)
  simpa [List.append_assoc] using this

theorem stop_sfb (r : Nat) (s : St) : SFB r s (stop s).1 (stop s).2 := by
  unfold stop
  have h1 := closeNewList_free s.newL.reverse { s with shutdown := true, newL := [] }
  have h1' : SFB r s (closeNewList { s with shutdown := true, newL := [] } s.newL.reverse).1
      (closeNewList { s with shutdown := true, newL := [] } s.newL.reverse).2 := SFB.of_nofree h1.1 h1.2
  simp only
  generalize closeNewList { s with shutdown := true, newL := [] } s.newL.reverse = r1 at h1' ⊢
  have h2 := h1'.trans (forceResume_sfb r r1.1.cfg.allowSuspend r1.1)
  generalize forceResume r1.1.cfg.allowSuspend r1.1 = r2 at h2 ⊢
  split
  · have h3 : SFB r r2.1 { r2.1 with fault := some .stopSuspended } [Ev.panic .stopSuspended] := FB.nofree (by simp)
    have := h2.trans h3
    simpa [List.append_assoc] using this
  · have := h2.trans (stopTail_sfb r r2.1)
    simpa [List.append_assoc] using this

theorem admitConn_sfb (r : Nat) (s : St) (c a : Nat) (v ext : Bool) : SFB r s (admitConn s c a v ext).1 (admitConn s c a v ext).2 := by
  unfold admitConn
  have hp := prepare_free s c a v
  generalize prepare s c a v = p at hp ⊢
  obtain ⟨s1, oc, e1⟩ := p
  simp only at hp ⊢
  cases oc with
  | none => exact SFB.of_nofree (nofree_append hp.1 (fun r => by simp)) hp.2
  | some cn =>
    simp only
    split
    · exact SFB.of_nofree (nofree_append hp.1 (fun r => by simp)) hp.2
    · have h2 := process_free s1 cn
      exact SFB.of_nofree (nofree_append (nofree_append hp.1 h2.1) (fun r => by simp)) (h2.2.trans hp.2)

theorem arrive_sfb (r : Nat) (s : St) (a : Nat) (v ext : Bool) : SFB r s (arrive s a v ext).1 (arrive s a v ext).2 := by
  unfold arrive
  simp only
  have h0 : SFB r s (if ext && !s.cfg.threadSafe && decide (s.cfg.limit ≤ s.connections) then cleanupAll { s with nextId := s.nextId + 1 }
              else ({ s with nextId := s.nextId + 1 }, [])).1
      (if ext && !s.cfg.threadSafe && decide (s.cfg.limit ≤ s.connections) then cleanupAll { s with nextId := s.nextId + 1 }
              else ({ s with nextId := s.nextId + 1 }, [])).2 := by
    split
    · exact cleanupAll_sfb r { s with nextId := s.nextId + 1 }
    · exact FB.refl r _
  exact h0.trans (admitConn_sfb r _ s.nextId a v ext)

theorem step_sfb (r : Nat) (s : St) (o : Op) : SFB r s (step s o).1 (step s o).2 := by
  unfold step
  split
  · exact FB.refl r _
  · rename_i hcond
    cases o with
    | arrive a v ext => exact arrive_sfb r s a v ext
    | armFail site => exact FB.refl r _
    | disarm => exact FB.refl r _
    | req c b => exact FB.refl r _
    | clientClose c => exact FB.refl r _
    | hold c => exact FB.refl r _
    | drain c => exact FB.refl r _
    | resume c => exact FB.refl r _
    | upClose c => exact FB.refl r _
    | round => exact round_sfb r s
    | query =>
      simp only
      split
      · exact FB.refl r _
      · exact cleanupAll_sfb r s
    | stop => exact stop_sfb r s
    | respCreate r0 big hasCb upg =>
      have hn : s.resps r0 = none := by
        simp [Op.legal] at hcond
        exact hcond.2
      unfold SFB FB
      by_cases e : r = r0
      · subst e; simp [phi, setFn, hn]
      · simp [phi_setFn_ne r r0 _ _ e]
    | respDrop r0 =>
      simp only
      cases hx : s.resps r0 with
      | none => exact FB.refl r _
      | some x =>
        simp only
        have h := release_fb { tab := setFn s.resps r0 (some { x with app := false }), fault := none } r0 r
        unfold SFB
        have hp : phi r (setFn s.resps r0 (some { x with app := false })) = phi r s.resps := by
          by_cases e : r = r0
          · subst e; simp [phi, setFn, hx]
          · exact phi_setFn_ne r r0 _ _ e
        unfold FB at *
        simp only at h ⊢
        rw [← hp]; exact h
    | extQueue c r0 =>
      simp only
      unfold extQueue
      split
      · exact FB.nofree (by simp)
      · split
        · exact FB.nofree (by simp)
        · rename_i R1 hacq
          have hp := acquire_phi { tab := s.resps, fault := none } R1 r0 r hacq
          unfold SFB FB
          simp only at hp ⊢
          rw [hp]; simp
    | acceptFail => exact FB.refl r _

theorem run_sfb (r : Nat) (ops : List Op) : ∀ (s : St), SFB r s (run s ops).1 (run s ops).2 := by
  induction ops with
  | nil => intro s; exact FB.refl r _
  | cons o os ih =>
    intro s
    unfold run
    exact (step_sfb r s o).trans (ih _)

end Mhd.Limits
