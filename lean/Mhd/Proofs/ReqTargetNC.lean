/-
  Composition of the non-canonical request-line round trip (`RLP.reqline_roundtrip_nc`: leading
  empty lines, any admitted separator byte, CRLF or bare LF) with the target decoding
  (`TGT.target_decode_render`): `reqline_target_roundtrip_nc`.
-/
import Mhd.Proofs.ReqTargetRT
import Mhd.Proofs.ReqLineRoundtripNC
set_option linter.unusedSimpArgs false
namespace Mhd.Req
namespace TGT
open RLP (BufIs)

/-- **Request line incl. target decoding, every rendering admitted when whitespace blocks are
    not merged** (levels ≥ 0): `els` empty lines (each CRLF or — if admitted — bare LF, their
    number within the level's limit), separators `w1`, `w2` any bytes the level treats as
    whitespace, line end CRLF or (if admitted) bare LF, the target any admissible rendering `R`
    of a (path, argument list).  `get_request_line` succeeds; the application is given the
    method, the path, the arguments (in order, with multiplicity, name-only arguments without
    value) and the version; the URI logger sees the target as sent. -/
theorem reqline_target_roundtrip_nc (F : RLFlags) (hB : F.wspBlocks = false) (strict : Bool) (pool : Nat)
    (buf0 : Bytes) (rb : Nat) (els : List (List UInt8)) (m v eol : List UInt8) (w1 w2 : UInt8) (R : TargetR) (hv : Int)
    (hrb : rb ≤ buf0.size) (hels : ∀ e ∈ els, RLP.LineEnd F e) (hk : RLP.SkipOK F els.length)
    (hw1 : rlIsWsp F w1 = true) (hw2 : rlIsWsp F w2 = true) (heol : RLP.LineEnd F eol) (hm0 : m ≠ [])
    (hm : ∀ c ∈ m, RLP.rplain c ∧ c ≠ 63) (hR : R.ok = true) (hvl : v.length = 8)
    (hvc : ∀ c ∈ v, RLP.rplain c ∧ c ≠ 63) (hpv : parseHttpVersion v = .ok hv)
    (hbuf : BufIs buf0 rb (els.flatten ++ (m ++ [w1] ++ R.render ++ ([w2] ++ v ++ eol)))) :
    ∃ T, getRequestLineOuter F strict pool ((rlScanner F).run (RL.init buf0 rb)) = .ok T ∧
      T.rawTarget = R.render ∧
      sliceBytes T.buf ⟨0, T.url, T.urlLen⟩ = R.semPath ∧
      T.elems.map (HSP.elemView T.buf) = R.semArgs.map (fun kv => (Gen.Http.kindGetArgument, kv.1, kv.2)) ∧
      BufIs T.buf T.method (m ++ [0]) ∧ T.methodLen = m.length ∧ T.mthd = stdMethodOf m ∧
      BufIs T.buf T.version (v ++ [0]) ∧ T.httpVer = hv ∧
      T.rb = rb + els.flatten.length + m.length + R.render.length + 10 + eol.length := by
  obtain ⟨ht0, ht⟩ := TargetR.render_bytes hR
  obtain ⟨r, hr, ok⟩ := RLP.reqline_roundtrip_nc F hB buf0 rb els m R.render v eol w1 w2 hv hrb hels hk hw1 hw2 heol
    hm0 ht0 hm ht hvl hvc hpv hbuf
  have wf : TargetWF r R.render := by
    refine ⟨ok.vTgt, fun x hx => rplain_ne0 (ht x hx), ok.tgtLen, ?_⟩
    rw [ok.qmark, firstQ_eq]
  obtain ⟨T, hT, h1, h2, h3, _, h5, _, _, h8, h9, h10, h11, h12, h13, h14, _⟩ := processRequestTarget_spec strict r R.render wf
  obtain ⟨d1, d2⟩ := target_decode_render strict R hR
  refine ⟨T, ?_, h1, by rw [h3, d1], by rw [h5, d2], ?_, by rw [h13, ok.methodLen], by rw [h14, ok.mthd], ?_,
    by rw [h12, ok.httpVer], by rw [h9, ok.rb]⟩
  · rw [hr]
    unfold getRequestLineOuter lineWspCheck
    simp only [ok.numWs, ne_eq, not_true_eq_false, ↓reduceIte, hT]
  · rw [h10]
    refine BufIs_congr ok.vMethod (fun i hi => h8 _ (Or.inl ?_))
    rw [ok.method, ok.tgt]
    simp at hi; omega
  · rw [h11]
    refine BufIs_congr ok.vVersion (fun i hi => h8 _ (Or.inr ?_))
    rw [ok.version, ok.tgt]
    omega

end TGT
end Mhd.Req
