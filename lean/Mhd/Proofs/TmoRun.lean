/-
  Every script operation — including the clock operations in both directions — and every history
  preserve `Inv`.
-/
import Mhd.Proofs.TmoRound
namespace Mhd.Tmo
open Mhd.Gen.Tmo

/-- the operation does not turn the clock back -/
def Op.monotone : Op → Prop
  | .tickback _ => False
  | _ => True

instance (o : Op) : Decidable o.monotone := by
  cases o <;> simp only [Op.monotone] <;> infer_instance

theorem inv_kqPush {d : Daemon} (h : Inv d) (i : Id) (hi : i ∈ d.conns) (he : d.cfg.epoll = true) :
    Inv { d with kq := d.kq ++ [i] } := by
  apply inv_iness h
  case hnde => exact h.ndEready
  case hnep => intro hh; simp [he] at hh
  case hrdy =>
    intro j hj
    rcases hj with x | x
    · exact Or.inl x
    · rcases List.mem_append.1 x with y | y
      · exact Or.inr (Or.inl y)
      · simp at y; subst y; exact Or.inr (Or.inr (Or.inl hi))
  case hc => intro j; exact ⟨rfl, rfl, rfl⟩
  all_goals rfl

theorem inv_clientData {d : Daemon} (h : Inv d) (i : Id) (k : Kind) (n : Nat) : Inv (clientData d i k n) := by
  unfold clientData
  dsimp only
  split
  · split
    · rename_i hc
      apply inv_kqPush
      · exact inv_set_iness h i _ rfl rfl rfl
      · simpa using hc.2.1
      · simpa using hc.1
    · exact inv_set_iness h i _ rfl rfl rfl
  · exact inv_set_iness h i _ rfl rfl rfl

theorem inv_clientClose {d : Daemon} (h : Inv d) (i : Id) : Inv (clientClose d i) := by
  unfold clientClose
  dsimp only
  split
  · rename_i hc
    apply inv_kqPush
    · exact inv_set_iness h i _ rfl rfl rfl
    · simpa using hc.2.1
    · simpa using hc.1
  · exact inv_set_iness h i _ rfl rfl rfl

theorem inv_resumeRequest {d : Daemon} (h : Inv d) (i : Id) : Inv (resumeRequest d i) := by
  unfold resumeRequest
  have h1 : Inv (d.set i { (d.c i) with resuming := true }) := inv_set_iness h i _ rfl rfl rfl
  constructor
  all_goals first
    | exact h1.nofault | exact h1.ndConns | exact h1.ndNormal | exact h1.ndManual | exact h1.ndSusp
    | exact h1.ndNew | exact h1.ndClean | exact h1.ndEready | exact h1.connsIff | exact h1.normalT | exact h1.manualT
    | exact h1.connsS | exact h1.suspS | exact h1.newT | exact h1.disjNew | exact h1.disjClean | exact h1.laLe
    | exact h1.usedAll | exact h1.ready | exact h1.nonEpoll | exact h1.sorted | exact h1.tmoB | exact h1.dtmoB

theorem inv_params {d : Daemon} (h : Inv d) (ws fs : List Id) : Inv { d with wset := ws, fset := fs } := by
  constructor
  all_goals first
    | exact h.nofault | exact h.ndConns | exact h.ndNormal | exact h.ndManual | exact h.ndSusp
    | exact h.ndNew | exact h.ndClean | exact h.ndEready | exact h.connsIff | exact h.normalT | exact h.manualT
    | exact h.connsS | exact h.suspS | exact h.newT | exact h.disjNew | exact h.disjClean | exact h.laLe
    | exact h.usedAll | exact h.ready | exact h.nonEpoll | exact h.sorted | exact h.tmoB | exact h.dtmoB

theorem inv_step {v : Variant} (hv : Fixed v) {d : Daemon} (h : Inv d) (o : Op)
    (r : Daemon × List Event) (hr : step v d o = some r) : Inv r.1 := by
  cases o with
  | arrive i =>
    simp only [step] at hr
    split at hr
    · rename_i hc; cases hr; exact inv_arrive h i hc.2
    · cases hr
  | send i =>
    simp only [step] at hr
    split at hr
    · cases hr; exact inv_clientData h i _ _
    · cases hr
  | sendp i =>
    simp only [step] at hr
    split at hr
    · cases hr; exact inv_clientData h i _ _
    · cases hr
  | sendn i k =>
    simp only [step] at hr
    split at hr
    · cases hr; exact inv_clientData h i _ _
    · cases hr
  | slow i =>
    simp only [step] at hr
    split at hr
    · cases hr; exact inv_set_iness h i _ rfl rfl rfl
    · cases hr
  | cclose i =>
    simp only [step] at hr
    split at hr
    · cases hr; exact inv_clientClose h i
    · cases hr
  | tick ms => simp only [step] at hr; cases hr; exact inv_tick h ms
  | tickback ms =>
    simp only [step] at hr
    split at hr
    · rename_i hc; cases hr; exact inv_tickback h ms hc
    · cases hr
  | setTimeout i s =>
    simp only [step] at hr
    split at hr
    · rename_i hc; cases hr
      exact inv_setTimeout hv h i s (by simpa [Daemon.started] using hc.1) hc.2
    · cases hr
  | susp i =>
    simp only [step] at hr
    split at hr
    · cases hr; exact inv_set_iness h i _ rfl rfl rfl
    · cases hr
  | resume i =>
    simp only [step] at hr
    split at hr
    · cases hr; exact inv_resumeRequest h i
    · cases hr
  | round => simp only [step] at hr; cases hr; exact inv_round hv (inv_params h [] [])
  | roundw ws fs => simp only [step] at hr; cases hr; exact inv_round hv (inv_params h ws fs)
  | allow i =>
    simp only [step] at hr
    split at hr
    · cases hr; exact h
    · cases hr
  | get i e =>
    simp only [step] at hr
    split at hr
    · cases hr; exact inv_clientData (inv_set_iness h i { (d.c i) with limited := true } rfl rfl rfl) i _ _
    · cases hr

theorem inv_run {v : Variant} (hv : Fixed v) : ∀ (ops : List Op) (d : Daemon), Inv d → Inv (run v d ops)
  | [], d, h => by simpa [run] using h
  | o :: os, d, h => by
    unfold run
    split
    · rename_i r hr
      exact inv_run hv os r.1 (inv_step hv h o r hr)
    · exact inv_run hv os d h

end Mhd.Tmo
