/-
  C19 helper lemmas, part 6: the payload case of the decoder in closed form (what is
  written where, what the UTF-8 validator is run on).
-/
import Mhd.Proofs.WSErr
namespace Mhd.WS

theorem writeAt_read_drop (buf : List UInt8) (off : Nat) (bs buf' : List UInt8) (d : Nat)
    (h : writeAt buf off bs = some buf') :
    (buf'.drop (off + d)).take (bs.length - d) = bs.drop d := by
  have := writeAt_read buf off bs buf' h
  calc (buf'.drop (off + d)).take (bs.length - d)
      = ((buf'.drop off).take bs.length).drop d := by rw [List.drop_take, List.drop_drop]
    _ = bs.drop d := by rw [this]

/-- the payload case on a data frame, in closed form -/
theorem stepPayload_data_eq {ws : WS} (h : Inv ws) (hs : ws.step = 17) (rest : List UInt8)
    (k : Nat) (hk : k = min (ws.payloadSize - ws.payloadIndex) rest.length) :
    (k = 0 → stepPayload false ws rest = payloadFinish false 0 ws) ∧
    (k ≠ 0 → ∃ buf buf', ws.dataBuf = some buf ∧
      writeAt buf (ws.dataStart + ws.payloadIndex) (copyPayload (rest.take k) ws.maskKey (ws.payloadIndex % 4)) = some buf' ∧
      stepPayload false ws rest =
        (if ws.dataType = 1 then
          match checkUtf8 (copyPayload (rest.take k) ws.maskKey (ws.payloadIndex % 4)) ws.dataUtf8 0 with
          | .invalid o => errRet { ws with dataBuf := some buf', payloadIndex := ws.payloadIndex + k } 1007 (-6) o
          | .ok s => payloadFinish false k { ws with dataBuf := some buf', payloadIndex := ws.payloadIndex + k, dataUtf8 := s }
        else payloadFinish false k { ws with dataBuf := some buf', payloadIndex := ws.payloadIndex + k })) := by
  have hidx := h.idx
  have hpsz := h.psz
  have hneed : (ws.payloadSize + W - ws.payloadIndex) % W = ws.payloadSize - ws.payloadIndex := by
    rw [W_eq]; omega
  constructor
  · intro hk0
    unfold stepPayload
    simp only [hneed, ← hk, hk0, ne_eq, not_true_eq_false, if_false]
  · intro hk0
    obtain ⟨h0, hh0, hok⟩ := h.h0 (by omega) (by omega)
    have hdst := h.dst hs
    have hdb := h.dbuf
    have hcl : (copyPayload (rest.take k) ws.maskKey (ws.payloadIndex % 4)).length = k := by
      rw [copyPayload_length, List.length_take]; omega
    cases hbuf : ws.dataBuf with
    | none => rw [hbuf] at hdb; simp only [] at hdb; omega
    | some buf =>
      rw [hbuf] at hdb; simp only [] at hdb
      obtain ⟨buf', hw⟩ := writeAt_some buf (ws.dataStart + ws.payloadIndex)
        (copyPayload (rest.take k) ws.maskKey (ws.payloadIndex % 4)) (by rw [hcl]; omega)
      have hl' := writeAt_length _ _ _ _ hw
      refine ⟨buf, buf', rfl, hw, ?_⟩
      unfold stepPayload
      simp only [hneed, ← hk, ne_eq, hk0, not_false_eq_true, if_true, hh0, if_pos hs, hbuf, hw, payloadAdvance]
      have hrd := writeAt_read _ _ _ _ hw
      rw [hcl] at hrd
      by_cases hd : ws.dataType = 1
      · rw [if_pos (Or.inl ⟨hs, hd⟩), if_pos hd]
        unfold utf8OfPayload
        simp only [if_pos hs]
        rw [checkUtf8Buf_in _ _ _ _ (by omega), hrd]
        cases checkUtf8 (copyPayload (rest.take k) ws.maskKey (ws.payloadIndex % 4)) ws.dataUtf8 0 <;> rfl
      · rw [if_neg, if_neg hd]
        intro hc
        rcases hc with ⟨_, hd'⟩ | ⟨h18, _⟩
        · exact hd hd'
        · have : ws.step = 18 := h18
          omega
end Mhd.WS
namespace Mhd.WS

/-- the payload case on a control frame, in closed form (code after F7: the close reason is
    checked from `max (payload_index, 2)` up to the new `payload_index`, with its own register) -/
theorem stepPayload_ctrl_eq {ws : WS} (h : Inv ws) (hs : ws.step = 18) (rest : List UInt8)
    (k : Nat) (hk : k = min (ws.payloadSize - ws.payloadIndex) rest.length) :
    (k = 0 → stepPayload false ws rest = payloadFinish false 0 ws) ∧
    (k ≠ 0 → ∃ h0 buf buf', ws.hdr[0]? = some h0 ∧ ws.ctrlBuf = some buf ∧
      writeAt buf ws.payloadIndex (copyPayload (rest.take k) ws.maskKey (ws.payloadIndex % 4)) = some buf' ∧
      stepPayload false ws rest =
        (if opcodeOf h0 = 8 ∧ 2 < ws.payloadIndex + k then
          match checkUtf8 ((copyPayload (rest.take k) ws.maskKey (ws.payloadIndex % 4)).drop (2 - ws.payloadIndex))
                  ws.ctrlUtf8 0 with
          | .invalid o => errRet { ws with ctrlBuf := some buf', payloadIndex := ws.payloadIndex + k } 1007 (-6)
                            (o + (2 - ws.payloadIndex))
          | .ok s => payloadFinish false k { ws with ctrlBuf := some buf', payloadIndex := ws.payloadIndex + k, ctrlUtf8 := s }
        else payloadFinish false k { ws with ctrlBuf := some buf', payloadIndex := ws.payloadIndex + k })) := by
  have hidx := h.idx
  have hpsz := h.psz
  have hneed : (ws.payloadSize + W - ws.payloadIndex) % W = ws.payloadSize - ws.payloadIndex := by
    rw [W_eq]; omega
  constructor
  · intro hk0
    unfold stepPayload
    simp only [hneed, ← hk, hk0, ne_eq, not_true_eq_false, if_false]
  · intro hk0
    obtain ⟨h0, hh0, hok⟩ := h.h0 (by omega) (by omega)
    have h17 : ¬ ws.step = 17 := by omega
    have hcb := h.cbuf hs
    have hcl : (copyPayload (rest.take k) ws.maskKey (ws.payloadIndex % 4)).length = k := by
      rw [copyPayload_length, List.length_take]; omega
    cases hbuf : ws.ctrlBuf with
    | none => rw [hbuf] at hcb; simp only [] at hcb; omega
    | some buf =>
      rw [hbuf] at hcb; simp only [] at hcb
      obtain ⟨buf', hw⟩ := writeAt_some buf ws.payloadIndex
        (copyPayload (rest.take k) ws.maskKey (ws.payloadIndex % 4)) (by rw [hcl]; omega)
      have hl' := writeAt_length _ _ _ _ hw
      refine ⟨h0, buf, buf', hh0, rfl, hw, ?_⟩
      unfold stepPayload
      simp only [hneed, ← hk, ne_eq, hk0, not_false_eq_true, if_true, hh0, if_neg h17, hbuf, Nat.zero_add, hw,
        payloadAdvance]
      by_cases hc : opcodeOf h0 = 8 ∧ 2 < ws.payloadIndex + k
      · rw [if_pos (Or.inr ⟨hs, hc.1, hc.2⟩), if_pos hc]
        unfold utf8OfPayload
        simp only [if_neg h17, Bool.false_eq_true, if_false, Nat.zero_add]
        rw [checkUtf8Buf_in _ _ _ _ (by split <;> omega)]
        have hst : (if ws.payloadIndex < 2 then 2 else ws.payloadIndex) = ws.payloadIndex + (2 - ws.payloadIndex) := by
          split <;> omega
        have heo : (if ws.payloadIndex < 2 then 2 - ws.payloadIndex else 0) = 2 - ws.payloadIndex := by
          split <;> omega
        have hrd := writeAt_read_drop _ _ _ _ (2 - ws.payloadIndex) hw
        rw [hcl] at hrd
        have hn : ws.payloadIndex + k - (ws.payloadIndex + (2 - ws.payloadIndex)) = k - (2 - ws.payloadIndex) := by omega
        rw [hst, heo, hn, hrd]
        cases checkUtf8 ((copyPayload (rest.take k) ws.maskKey (ws.payloadIndex % 4)).drop (2 - ws.payloadIndex))
          ws.ctrlUtf8 0 <;> rfl
      · rw [if_neg, if_neg hc]
        intro hc'
        rcases hc' with ⟨h17', _⟩ | ⟨_, h8, h2⟩
        · exact h17 h17'
        · exact hc ⟨h8, h2⟩
end Mhd.WS
