/-
  C06 — proofs, part 4: quiescence (MHD_get_timeout64 says "no timeout" and no watched
  descriptor is ready), histories of a select / poll daemon, and the two-connection
  witness against a traversal that reads `pos->prev` after the handlers ran.
-/
import Mhd.Proofs.LoopInv
namespace Mhd.Loop
open Mhd.Gen.Loop
variable {W : Type}

/-! ### what the daemon asks the application to watch -/

def fdStep (acc : Ready) (c : Conn W) : Ready :=
  match c.loc.eli with
  | .read | .processRead => { acc with r := acc.r ++ [c.id], e := acc.e ++ [c.id] }
  | .write => { acc with w := acc.w ++ [c.id], e := acc.e ++ [c.id] }
  | .process => { acc with e := acc.e ++ [c.id] }
  | .cleanup => acc

theorem getFdset_eq (d : Daemon W) (h : d.shutdown = false) : getFdset d = d.conns.reverse.foldl fdStep {} := by
  unfold getFdset
  simp only [h, Bool.false_eq_true, if_false]
  rfl

theorem hasRead_cases (e : Eli) : e.hasRead = true ↔ (e = .read ∨ e = .processRead) := by
  cases e <;> decide
theorem isWrite_cases (e : Eli) : e.isWrite = true ↔ e = .write := by
  cases e <;> decide

theorem fdFold_r (l : List (Conn W)) : ∀ (acc : Ready) (c : Conn W), c ∈ l → c.loc.eli.hasRead = true →
    c.id ∈ (l.foldl fdStep acc).r := by
  induction l with
  | nil => intro _ _ h; simp at h
  | cons x rest ih =>
    intro acc c hc hr
    simp only [List.foldl_cons]
    rcases List.mem_cons.mp hc with h | h
    · subst h
      have : c.id ∈ (fdStep acc c).r := by
        unfold fdStep
        rcases (hasRead_cases _).mp hr with e | e <;> simp [e]
      exact fdFold_mono_r rest _ _ this
    · exact ih _ c h hr
where
  fdFold_mono_r (l : List (Conn W)) : ∀ (acc : Ready) (id : CId), id ∈ acc.r → id ∈ (l.foldl fdStep acc).r := by
    induction l with
    | nil => intro _ _ h; exact h
    | cons x rest ih =>
      intro acc id h
      simp only [List.foldl_cons]
      apply ih
      unfold fdStep
      split <;> simp [h]

theorem fdFold_w (l : List (Conn W)) : ∀ (acc : Ready) (c : Conn W), c ∈ l → c.loc.eli.isWrite = true →
    c.id ∈ (l.foldl fdStep acc).w := by
  induction l with
  | nil => intro _ _ h; simp at h
  | cons x rest ih =>
    intro acc c hc hr
    simp only [List.foldl_cons]
    rcases List.mem_cons.mp hc with h | h
    · subst h
      have : c.id ∈ (fdStep acc c).w := by
        unfold fdStep
        simp [(isWrite_cases _).mp hr]
      exact mono rest _ _ this
    · exact ih _ c h hr
where
  mono (l : List (Conn W)) : ∀ (acc : Ready) (id : CId), id ∈ acc.w → id ∈ (l.foldl fdStep acc).w := by
    induction l with
    | nil => intro _ _ h; exact h
    | cons x rest ih =>
      intro acc id h
      simp only [List.foldl_cons]
      apply ih
      unfold fdStep
      split <;> simp [h]

/-- the daemon says "no timeout" and none of the descriptors it asked to watch is ready -/
def Quiescent (d : Daemon W) (rdy : Ready) : Prop :=
  getTimeout d = .none ∧ (∀ id ∈ (getFdset d).r, rdyR rdy id = false) ∧ (∀ id ∈ (getFdset d).w, rdyW rdy id = false)

theorem getTimeout_none {d : Daemon W} (h : getTimeout d = .none) :
    d.dap = false ∧ d.cleanup = [] ∧ d.resuming = false ∧ d.haveNew = false ∧ d.shutdown = false ∧
    (d.epoll = true → d.eready = []) := by
  unfold getTimeout at h
  split at h
  · cases h
  · rename_i h1
    split at h
    · cases h
    · rename_i h2
      simp only [Bool.or_eq_true, not_or, Bool.not_eq_true, Bool.not_eq_eq_eq_not, Bool.not_true, List.isEmpty_eq_false_iff] at h1
      refine ⟨h1.1.1.1.1, ?_, h1.1.1.2, h1.1.2, h1.2, ?_⟩
      · have := h1.1.1.1.2
        cases hc : d.cleanup with
        | nil => rfl
        | cons x xs => rw [hc] at this; simp at this
      · intro he
        simp only [he, Bool.true_and, Bool.not_eq_true'] at h2
        cases hc : d.eready with
        | nil => rfl
        | cons x xs => rw [hc] at h2; simp at h2

/-- **No lost wake-up (select / poll daemon).**  In a quiescent state no active connection
    has work that could proceed: none needs processing, none waits for readability with its
    descriptor readable, none waits for writability with its descriptor writable. -/
theorem no_lost_wakeup_sp {needs : Local W → Bool} {d : Daemon W} (h : InvSP needs d) (rdy : Ready)
    (q : Quiescent d rdy) :
    ∀ c ∈ d.conns, needs c.loc = false ∧ ¬ (c.loc.eli.hasRead = true ∧ rdyR rdy c.id = true) ∧
      ¬ (c.loc.eli.isWrite = true ∧ rdyW rdy c.id = true) := by
  obtain ⟨ht, hr, hw⟩ := q
  obtain ⟨hdap, _, _, _, hsd, _⟩ := getTimeout_none ht
  rw [getFdset_eq d hsd] at hr hw
  intro c hc
  refine ⟨?_, ?_, ?_⟩
  · cases hn : needs c.loc with
    | false => rfl
    | true =>
      have := h.flag c hc (h.sync c hc hn)
      rw [hdap] at this; cases this
  · rintro ⟨h1, h2⟩
    have := hr c.id (fdFold_r _ _ c (List.mem_reverse.mpr hc) h1)
    rw [h2] at this; cases this
  · rintro ⟨h1, h2⟩
    have := hw c.id (fdFold_w _ _ c (List.mem_reverse.mpr hc) h1)
    rw [h2] at this; cases this

end Mhd.Loop

namespace Mhd.Loop
open Mhd.Gen.Loop
variable {W : Type}

/-! ### histories of a select / poll daemon -/

/-- a connection handed to MHD_add_connection: new id, valid socket, nothing read yet -/
def FreshConn (needs : Local W → Bool) (d : Daemon W) (c : Conn W) : Prop :=
  c.id ∉ ids d.conns ∧ c.id ∉ ids d.susp ∧ c.id ∉ ids d.cleanup ∧ c.id ∉ ids d.newc ∧
  c.sockValid = true ∧ c.loc.eli = .read ∧ needs c.loc = false

theorem addConn_inv {needs : Local W → Bool} {d : Daemon W} (h : InvSP needs d) {c : Conn W}
    (hc : FreshConn needs d c) : InvSP needs (addConn d c) := by
  obtain ⟨h1, h2, h3, h4, h5, h6, h7⟩ := hc
  refine ⟨h.noep, ?_, ?_, h.sync, h.flag, ?_, ?_, h.nocleanup, h.fault⟩
  · show (ids d.conns ++ ids d.susp ++ ids d.cleanup ++ ids (c :: d.newc)).Nodup
    have hp : (ids d.conns ++ ids d.susp ++ ids d.cleanup ++ ids (c :: d.newc)).Perm
        (c.id :: (ids d.conns ++ ids d.susp ++ ids d.cleanup ++ ids d.newc)) := by
      rw [List.perm_iff_count]; intro y
      simp only [ids_cons, List.count_append, List.count_cons]; omega
    rw [hp.nodup_iff, List.nodup_cons]
    refine ⟨?_, h.nodup⟩
    simp only [List.mem_append, not_or]
    exact ⟨⟨⟨h1, h2⟩, h3⟩, h4⟩
  · intro x hx
    have hx' : x ∈ d.conns ∨ x ∈ d.susp ∨ x ∈ c :: d.newc := hx
    rcases hx' with hx' | hx' | hx'
    · exact h.valid x (Or.inl hx')
    · exact h.valid x (Or.inr (Or.inl hx'))
    · rcases List.mem_cons.mp hx' with e | e
      · rw [e]; exact h5
      · exact h.valid x (Or.inr (Or.inr e))
  · intro x hx
    have hx' : x ∈ c :: d.newc := hx
    rcases List.mem_cons.mp hx' with e | e
    · rw [e]; exact ⟨h6, h7⟩
    · exact h.fresh x e
  · intro hn
    have : (addConn d c).haveNew = true := rfl
    rw [this] at hn; cases hn

theorem resumeReq_inv {needs : Local W → Bool} {d : Daemon W} (h : InvSP needs d) (id : CId) :
    InvSP needs (resumeReq d id) := by
  have hids : ids (d.susp.map (fun c => if c.id = id then { c with resuming := true } else c)) = ids d.susp := by
    simp only [ids, List.map_map]
    apply List.map_congr_left
    intro c _
    simp only [Function.comp]
    split <;> rfl
  refine ⟨h.noep, ?_, ?_, h.sync, h.flag, h.fresh, h.newcFlag, h.nocleanup, h.fault⟩
  · show (ids d.conns ++ ids (d.susp.map _) ++ ids d.cleanup ++ ids d.newc).Nodup
    rw [hids]; exact h.nodup
  · intro x hx
    have hx' : x ∈ d.conns ∨ x ∈ d.susp.map (fun c => if c.id = id then { c with resuming := true } else c) ∨ x ∈ d.newc := hx
    rcases hx' with hx' | hx' | hx'
    · exact h.valid x (Or.inl hx')
    · obtain ⟨y, hy, rfl⟩ := List.mem_map.mp hx'
      have := h.valid y (Or.inr (Or.inl hy))
      split <;> exact this
    · exact h.valid x (Or.inr (Or.inr hx'))

/-- reachable states of a daemon that runs the select loop (`poll = false`) or the poll loop, both
    with the next pointer saved before the handlers are called -/
inductive Reach (ops : Ops W) (needs : Local W → Bool) (poll : Bool) : Daemon W → Prop where
  | init (allowSuspend : Bool) : Reach ops needs poll { allowSuspend := allowSuspend }
  | add {d : Daemon W} (c : Conn W) : Reach ops needs poll d → FreshConn needs d c → Reach ops needs poll (addConn d c)
  | resume {d : Daemon W} (id : CId) : Reach ops needs poll d → Reach ops needs poll (resumeReq d id)
  | round {d : Daemon W} (rdy : Ready) : Reach ops needs poll d →
      Reach ops needs poll (if poll then pollAllWith ops true d rdy else runFromSelectWith ops true d rdy)

theorem init_inv (needs : Local W → Bool) (a : Bool) : InvSP needs ({ allowSuspend := a } : Daemon W) :=
  ⟨rfl, by simp, by intro c h; simp at h, by intro c h; simp at h, by intro c h; simp at h,
   by intro c h; simp at h, fun _ => rfl, rfl, rfl⟩

theorem reach_inv {ops : Ops W} {needs : Local W → Bool} (L : Laws ops needs) {poll : Bool} {d : Daemon W}
    (h : Reach ops needs poll d) : InvSP needs d := by
  induction h with
  | init a => exact init_inv needs a
  | add c _ hc ih => exact addConn_inv ih hc
  | resume id _ ih => exact resumeReq_inv ih id
  | round rdy _ ih =>
    cases poll
    · exact (select_round L ih rdy).1
    · exact (poll_round L ih rdy).1

end Mhd.Loop

namespace Mhd.Loop
open Mhd.Gen.Loop

/-! ### the two-connection witness against the loop that reads `pos->prev` after the call -/
namespace Witness

/-- a per-connection step satisfying all laws: reading finds the peer gone and closes;
    idle moves a closed connection to the cleanup list and leaves everything else alone -/
def ops : Ops Unit where
  read := fun _ _ _ l => { l with st := stClosed, eli := .cleanup }
  write := fun _ _ l => l
  idle := fun _ _ wh l => if l.st = stClosed then (l, .cleanup) else (l, wh)
  close := fun _ _ l => l

/-- "needs processing" = waits for the application (content callback not ready) -/
def needs (l : Local Unit) : Bool := l.eli.hasProcess

theorem laws : Laws ops needs where
  idle_sync := by
    intro id k wh l _ hn
    unfold ops at hn ⊢
    simp only [] at hn ⊢
    split <;> simp_all [needs]
  idle_closed := by intro id k l h; simp [ops, h]
  read_force := by intro id k l; rfl
  idle_where := by
    intro id k wh l h
    unfold ops
    simp only []
    split
    · simp
    · exact h

def mkLoc (st : Nat) (e : Eli) : Local Unit := { st := st, eli := e, rdReady := false, wrReady := false, bufSpace := true, w := () }

/-- connection 0 arrived first (tail), waits for its request; connection 1 arrived later (head)
    and waits for its content callback (CHUNKED_BODY_UNREADY, PROCESS); the previous round
    therefore left data_already_pending set -/
def d0 : Daemon Unit :=
  { conns := [{ id := 1, loc := mkLoc 17 .process }, { id := 0, loc := mkLoc stInit .read }], dap := true }

/-- the client of connection 0 closes: its descriptor becomes readable -/
def rdy : Ready := { r := [0], e := [] }

theorem d0_inv : InvSP needs d0 := by
  refine ⟨rfl, by decide, ?_, ?_, ?_, ?_, fun _ => rfl, rfl, rfl⟩
  · intro c hc
    simp only [d0, List.mem_cons, List.not_mem_nil, or_false] at hc
    rcases hc with (rfl | rfl) | h | h <;> first | rfl | (simp at h)
  · intro c hc
    simp only [d0, List.mem_cons, List.not_mem_nil, or_false] at hc
    rcases hc with rfl | rfl <;> intro _ <;> first | rfl | (rename_i h; revert h; decide)
  · intro c _ _; rfl
  · intro c hc; simp [d0] at hc

def after : Daemon Unit := runFromSelectWith ops false d0 rdy

theorem after_conns : after.conns.map (fun c => (c.id, c.loc.st, c.loc.eli)) = [(1, 17, .process)] := by decide
theorem after_flags : after.dap = false ∧ after.cleanup.length = 0 ∧ after.fault = none := by decide
theorem after_log : after.log = [.idle 0, .read 0] := by decide
theorem after_hint : getTimeout after = .none := by decide
theorem after_fdset : getFdset after = { r := [], w := [], e := [1] } := by decide

end Witness
end Mhd.Loop
