/-
  C19 helper lemmas, part 12: one decode call and the application's receive loop as flat
  runs; theorem (i) of C19, split independence of a whole session.
-/
import Mhd.Proofs.WSAppend
namespace Mhd.WS

theorem loop_run (fuel : Nat) {ws : WS} (h : Inv ws) (hv : ws.validity ≠ 0) (rest : List UInt8) (cur : Nat)
    {ws' : WS} {st : Int} {rd : Nat} {pl : Option (List UInt8)} {plen : Nat}
    (hl : loop false fuel ws rest cur = .ret ws' st rd pl plen) :
    cur ≤ rd ∧
    (st < 0 → Run ws rest [(st, pl, plen)] .stop) ∧
    (0 ≤ st → ∀ E out, Run ws' (rest.drop (rd - cur)) E out → Run ws rest (evOf st pl plen ++ E) out) := by
  induction fuel generalizing ws rest cur with
  | zero => unfold loop at hl; exact absurd hl (by simp)
  | succ f ih =>
    unfold loop at hl
    split at hl
    · rename_i hnil
      subst hnil
      have htc := tail_cur ws cur
      rw [hl] at htc
      -- `tail ws 0`
      cases ht0 : tail false ws 0 with
      | cont w k => rw [ht0] at htc; exact absurd htc (by simp)
      | fault s => rw [ht0] at htc; exact absurd htc (by simp)
      | ret w s c p l =>
        rw [ht0] at htc
        injection htc with e1 e2 e3 e4 e5
        subst e1 e2 e3 e4 e5
        have hset : Settle ws (evOf st pl plen) (if st < 0 then .stop else .more ws') := ⟨_, _, _, _, _, ht0, rfl, rfl⟩
        refine ⟨Nat.le_refl _, ?_, ?_⟩
        · intro hneg
          rw [if_pos hneg, evOf_neg hneg] at hset
          exact Run.done _ _ _ hset
        · intro h0 E out hr
          rw [if_neg (by omega)] at hset
          obtain ⟨_, hq, _⟩ := hset.more_quiet h hv
          simp only [List.drop_nil] at hr
          obtain ⟨rfl, rfl⟩ := hr.nil_quiet hq
          rw [List.append_nil]
          exact Run.done _ _ _ hset
    · rename_i hne
      have hn : 1 ≤ rest.length := by cases rest with | nil => exact absurd rfl hne | cons _ _ => simp
      have hok := iter_ok h hv rest hn
      revert hl hok
      cases hit : iter false ws rest with
      | cont ws1 k =>
        intro hl hok
        obtain ⟨hi1, hv1, hk, _⟩ := hok
        obtain ⟨hmono, r1, r2⟩ := ih hi1 hv1 (rest.drop k) (cur + k) hl
        refine ⟨by omega, ?_, ?_⟩
        · intro hneg; exact Run.cont ws rest ws1 k _ _ hne hit (r1 hneg)
        · intro h0 E out hr
          refine Run.cont ws rest ws1 k _ _ hne hit (r2 h0 E out ?_)
          rw [List.drop_drop]
          have : k + (rd - (cur + k)) = rd - cur := by omega
          rw [this]; exact hr
      | ret w s k p l =>
        intro hl hok
        injection hl with e1 e2 e3 e4 e5
        subst e1 e2 e3 e4 e5
        refine ⟨by omega, ?_, ?_⟩
        · intro hneg; exact Run.err ws rest _ _ k _ _ hne hit hneg
        · intro h0 E out hr
          have : cur + k - cur = k := by omega
          rw [this] at hr
          exact Run.emit ws rest _ _ k _ _ E out hne hit h0 hr
      | fault s => intro hl; exact absurd hl (by simp)

end Mhd.WS
namespace Mhd.WS

/-- the frames and errors an application sees in a list of decode calls (status ≠ 0) -/
def evsOf (calls : List Call) : List Ev := calls.flatMap (fun c => evOf c.st c.pl c.plen)

theorem evsOf_append (a b : List Call) : evsOf (a ++ b) = evsOf a ++ evsOf b := by
  unfold evsOf; rw [List.flatMap_append]

theorem decode_loop {ws : WS} (hv : ws.validity ≠ 0) (buf : List UInt8) :
    decode false ws buf = loop false (3 * buf.length + 4) ws buf 0 := by
  unfold decode; rw [if_neg hv]

/-- the application's receive loop over one chunk, seen as a flat run -/
theorem feedLoop_run (budget : Nat) {ws : WS} (hi : Inv ws) (hq : sil ws = 0) (hv : ws.validity ≠ 0)
    (rest : List UInt8) (acc : List Call) (hb : rest.length < budget)
    {ws' : WS} {calls : List Call} {e : FeedEnd} (hf : feedLoop false budget ws rest acc = (ws', calls, e)) :
    ∃ E, evsOf calls = evsOf acc.reverse ++ E ∧
      ((e = .consumed ∧ Run ws rest E (.more ws')) ∨ (e = .error ∧ Run ws rest E .stop)) := by
  induction budget generalizing ws rest acc with
  | zero => omega
  | succ n ih =>
    unfold feedLoop at hf
    split at hf
    · rename_i hnil
      subst hnil
      injection hf with e1 e2
      injection e2 with e2 e3
      subst e1 e2 e3
      exact ⟨[], by simp, Or.inl ⟨rfl, Run.done _ _ _ (settle_quiet hq)⟩⟩
    · rename_i hne
      obtain ⟨ws1, st, rd, pl, plen, hd, hc, hp⟩ := decode_ok (fun _ => hi) rest
      rw [hd] at hf
      simp only [] at hf
      rw [decode_loop hv] at hd
      obtain ⟨_, r1, r2⟩ := loop_run _ hi hv rest 0 hd
      split at hf
      · rename_i hneg
        injection hf with e1 e2
        injection e2 with e2 e3
        subst e1 e2 e3
        refine ⟨[(st, pl, plen)], ?_, Or.inr ⟨rfl, r1 hneg⟩⟩
        rw [List.reverse_cons, evsOf_append]
        congr 1
        simp [evsOf, evOf_neg hneg]
      · rename_i hpos
        have h0 : 0 ≤ st := by omega
        obtain ⟨hq1, hv1⟩ := hc.quiet h0
        have hrd := hp h0 hq hne
        have hlen : 1 ≤ rest.length := by cases rest with | nil => exact absurd rfl hne | cons _ _ => simp
        obtain ⟨E', hE', hrun'⟩ := ih (hc.inv hv1) hq1 hv1 (rest.drop rd) _
          (by simp only [List.length_drop]; omega) hf
        refine ⟨evOf st pl plen ++ E', ?_, ?_⟩
        · rw [hE', List.reverse_cons, evsOf_append, List.append_assoc]
          congr 1
          simp [evsOf]
        · have hd0 : rest.drop (rd - 0) = rest.drop rd := by simp
          rcases hrun' with ⟨he, hr⟩ | ⟨he, hr⟩
          · exact Or.inl ⟨he, r2 h0 _ _ (by rw [hd0]; exact hr)⟩
          · exact Or.inr ⟨he, r2 h0 _ _ (by rw [hd0]; exact hr)⟩

/-- what the application sees when it receives the chunks one after the other, running
    its decode loop on each, and stops at the first negative status -/
def sessionG (lg : Bool) : WS → List (List UInt8) → List Ev
  | _, [] => []
  | ws, c :: cs =>
    let r := feed lg ws c
    evsOf r.2.1 ++ (if r.2.2 = .consumed then sessionG lg r.1 cs else [])

/-- … for the code after the fixes -/
abbrev session := sessionG false

theorem session_run {ws : WS} (hi : Inv ws) (hq : sil ws = 0) (hv : ws.validity ≠ 0) (chunks : List (List UInt8)) :
    ∃ out, Run ws chunks.flatten (session ws chunks) out := by
  induction chunks generalizing ws with
  | nil => exact ⟨_, Run.done _ _ _ (settle_quiet hq)⟩
  | cons c cs ih =>
    unfold session sessionG
    simp only [List.flatten_cons]
    cases hf : feed false ws c with
    | mk ws1 rest1 =>
      cases rest1 with
      | mk calls e =>
        simp only []
        have hf' : feedLoop false (c.length + 9) ws c [] = (ws1, calls, e) := hf
        obtain ⟨E, hE, hr⟩ := feedLoop_run _ hi hq hv c [] (by omega) hf'
        simp only [List.reverse_nil, evsOf, List.flatMap_nil, List.nil_append] at hE
        have hE' : evsOf calls = E := hE
        rw [hE']
        rcases hr with ⟨he, hr⟩ | ⟨he, hr⟩
        · subst he
          simp only [if_true]
          obtain ⟨hi1, hq1, hv1⟩ := hr.more_quiet hi hv rfl
          obtain ⟨out, hrs⟩ := ih hi1 hq1 hv1
          by_cases hb : cs.flatten = []
          · rw [hb] at hrs ⊢
            obtain ⟨e1, e2⟩ := hrs.nil_quiet hq1
            have e1' : sessionG false ws1 cs = [] := e1
            rw [e1', List.append_nil, List.append_nil]
            exact ⟨_, hr⟩
          · exact ⟨out, (hr.append hi hv _ hb).2 ws1 rfl _ _ hrs⟩
        · subst he
          rw [if_neg (by simp)]
          simp only [List.append_nil]
          by_cases hb : cs.flatten = []
          · rw [hb, List.append_nil]; exact ⟨_, hr⟩
          · exact ⟨_, (hr.append hi hv _ hb).1 rfl⟩

/-- **(i) split independence.**  For every live stream state between two calls, every list
    of chunks: feeding the chunks one after the other gives the application exactly the
    frames, payloads and error it gets from feeding the concatenation in one piece. -/
theorem session_split_independent {ws : WS} (hi : Inv ws) (hq : sil ws = 0) (hv : ws.validity ≠ 0)
    (chunks : List (List UInt8)) : session ws chunks = session ws [chunks.flatten] := by
  obtain ⟨o1, r1⟩ := session_run hi hq hv chunks
  obtain ⟨o2, r2⟩ := session_run hi hq hv [chunks.flatten]
  simp only [List.flatten_cons, List.flatten_nil, List.append_nil] at r2
  exact (r1.det r2).1

end Mhd.WS
