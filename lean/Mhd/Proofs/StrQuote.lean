/-
  C17 proofs: quoted strings — `MHD_str_unquote`, `MHD_str_quote`,
  `MHD_str_equal_quoted_bin_n`, `MHD_str_equal_caseless_quoted_bin_n`.
-/
import Mhd.Proofs.StrPct

namespace Mhd.Str

/-! ### MHD_str_unquote -/

def UnqInv (q out : Bytes) (st : RW) : Prop :=
  st.r ≤ q.length ∧ st.out.length = out.length ∧ st.w ≤ st.r ∧
  unquoteSpec q = (unquoteSpec (q.drop st.r)).map (st.out.take st.w ++ ·)

def UnqPost (q out : Bytes) (r : Nat × Bytes) : Prop :=
  r.2.length = out.length ∧
    match unquoteSpec q with
    | some d => r.1 = d.length ∧ r.2.take r.1 = d
    | none => r.1 = 0

theorem unquote_step (q out : Bytes) (hsz : q.length ≤ out.length) (st : RW) (hi : UnqInv q out st) :
    (∃ s', unquoteStep q st = .ok (.inl s') ∧ UnqInv q out s' ∧ q.length - s'.r < q.length - st.r) ∨
    (∃ r, unquoteStep q st = .ok (.inr r) ∧ UnqPost q out r) := by
  obtain ⟨hr, hlen, hwr, hg⟩ := hi
  unfold unquoteStep
  by_cases hlt : q.length > st.r
  · have hdrop : q.drop st.r = q[st.r] :: q.drop (st.r + 1) := List.drop_eq_getElem_cons hlt
    have hw : st.w < st.out.length := by omega
    simp only [hlt, if_true, rd_lt hlt, bind_ok']
    by_cases hc : q[st.r] = 0x5c
    · by_cases hend : q.length = st.r + 1
      · right
        simp only [hc, hend, if_true, pure_eq_ok, bind_ok']
        refine ⟨(0, st.out), rfl, hlen, ?_⟩
        have hn : q.drop (st.r + 1) = [] := List.drop_eq_nil_of_le (by omega)
        have : unquoteSpec (q.drop st.r) = none := by rw [hdrop, hc, hn]; exact unquoteSpec_bs_end
        simp [hg, this]
      · left
        have h1 : st.r + 1 < q.length := by omega
        have hdrop1 : q.drop (st.r + 1) = q[st.r + 1] :: q.drop (st.r + 2) := List.drop_eq_getElem_cons h1
        simp only [hc, hend, if_true, if_false, pure_eq_ok, bind_ok', rd_lt h1, wr_ok _ hw]
        refine ⟨_, rfl, ⟨by simp; omega, by simp [hlen], by simp; omega, ?_⟩, by simp; omega⟩
        simp only [take_set_succ _ _ _ hw]
        rw [hg, hdrop, hc, hdrop1, unquoteSpec_bs]
        simp [Option.map_map, Function.comp_def]
    · left
      simp only [hc, if_false, pure_eq_ok, bind_ok', rd_lt hlt, wr_ok _ hw]
      refine ⟨_, rfl, ⟨by simp; omega, by simp [hlen], by simp; omega, ?_⟩, by simp; omega⟩
      simp only [take_set_succ _ _ _ hw]
      rw [hg, hdrop, unquoteSpec_cons_ne _ _ hc]
      simp [Option.map_map, Function.comp_def]
  · right
    simp only [hlt, if_false, pure_eq_ok]
    refine ⟨_, rfl, hlen, ?_⟩
    have hnil : q.drop st.r = [] := List.drop_eq_nil_of_le (by omega)
    have hl : (st.out.take st.w).length = st.w := take_len _ _ (by omega)
    simp [hg, hnil, unquoteSpec_nil, hl]

/-- `MHD_str_unquote` with a result buffer of the documented size = the reference
    unquoting; 0 exactly for a trailing lone backslash (or the empty string). -/
theorem unquote_spec (q out : Bytes) (hsz : q.length ≤ out.length) :
    Wrote (unquote q out) out (unquoteSpec q) := by
  have h := iter_spec (unquoteStep q) (UnqInv q out) (fun st => q.length - st.r) (UnqPost q out)
    (unquote_step q out hsz) (q.length + 1) ⟨0, 0, out⟩ ⟨by simp, rfl, by simp, by simp⟩ (by simp)
  obtain ⟨⟨n, o⟩, hr, hl, hp⟩ := h
  exact ⟨n, o, hr, hl, hp⟩

/-! ### MHD_str_quote -/

theorem quoteSpec_cons_special (c : UInt8) (t : Bytes) (h : isQuoteSpecial c = true) :
    quoteSpec (c :: t) = 0x5c :: c :: quoteSpec t := by
  have : c = 0x5c ∨ c = 0x22 := by simpa [isQuoteSpecial] using h
  simp [quoteSpec, this]

theorem quoteSpec_cons_plain (c : UInt8) (t : Bytes) (h : ¬ isQuoteSpecial c = true) :
    quoteSpec (c :: t) = c :: quoteSpec t := by
  have : ¬ (c = 0x5c ∨ c = 0x22) := by simpa [isQuoteSpecial] using h
  simp [quoteSpec, this]

def QuoInv (u out : Bytes) (st : RW) : Prop :=
  st.r ≤ u.length ∧ st.out.length = out.length ∧ st.w ≤ 2 * st.r ∧ st.w ≤ out.length ∧
  quoteSpec u = st.out.take st.w ++ quoteSpec (u.drop st.r)

def QuoPost (u out : Bytes) (r : Nat × Bytes) : Prop :=
  r.2.length = out.length ∧
  if (quoteSpec u).length ≤ out.length then r.1 = (quoteSpec u).length ∧ r.2.take r.1 = quoteSpec u
  else r.1 = 0

theorem take_set_two (o : Bytes) (w : Nat) (a b : UInt8) (h : w + 1 < o.length) :
    ((o.set w a).set (w + 1) b).take (w + 2) = o.take w ++ [a, b] := by
  have h1 : w + 1 < (o.set w a).length := by simpa using h
  rw [take_set_succ _ _ _ h1, take_set_succ _ _ _ (by omega)]; simp

theorem quoteFast_step (u out : Bytes) (hsz : 2 * u.length ≤ out.length) (st : RW) (hi : QuoInv u out st) :
    (∃ s', quoteFastStep u st = .ok (.inl s') ∧ QuoInv u out s' ∧ u.length - s'.r < u.length - st.r) ∨
    (∃ r, quoteFastStep u st = .ok (.inr r) ∧ QuoPost u out r) := by
  obtain ⟨hr, hlen, hwr, hwo, hg⟩ := hi
  unfold quoteFastStep
  by_cases hlt : u.length > st.r
  · left
    have hdrop : u.drop st.r = u[st.r] :: u.drop (st.r + 1) := List.drop_eq_getElem_cons hlt
    have hw : st.w < st.out.length := by omega
    simp only [hlt, if_true, rd_lt hlt, bind_ok']
    by_cases hs : isQuoteSpecial u[st.r] = true
    · have hw1 : st.w + 1 < (st.out.set st.w 0x5c).length := by simp; omega
      simp only [hs, if_true, wr_ok _ hw, wr_ok _ hw1, bind_ok', pure_eq_ok]
      refine ⟨_, rfl, ⟨by simp; omega, by simp [hlen], by simp; omega, by simp; omega, ?_⟩, by simp; omega⟩
      simp only [take_set_two _ _ _ _ (by omega : st.w + 1 < st.out.length)]
      rw [hg, hdrop, quoteSpec_cons_special _ _ hs]; simp
    · simp only [hs, wr_ok _ hw, bind_ok', pure_eq_ok]
      refine ⟨_, rfl, ⟨by simp; omega, by simp [hlen], by simp; omega, by simp; omega, ?_⟩, by simp; omega⟩
      simp only [take_set_succ _ _ _ hw]
      rw [hg, hdrop, quoteSpec_cons_plain _ _ hs]; simp
  · right
    simp only [hlt, if_false, pure_eq_ok]
    refine ⟨_, rfl, hlen, ?_⟩
    have hnil : u.drop st.r = [] := List.drop_eq_nil_of_le (by omega)
    have hl : (st.out.take st.w).length = st.w := take_len _ _ (by omega)
    rw [hnil] at hg
    simp only [quoteSpec, List.append_nil] at hg
    simp [hg, hl, hwo]

theorem quoteSpec_cons_pos (c : UInt8) (t : Bytes) : 0 < (quoteSpec (c :: t)).length := by
  by_cases h : c = 0x5c ∨ c = 0x22 <;> simp [quoteSpec, h]

theorem quoteSlow_step (u out : Bytes) (st : RW) (hi : QuoInv u out st) :
    (∃ s', quoteSlowStep u st = .ok (.inl s') ∧ QuoInv u out s' ∧ u.length - s'.r < u.length - st.r) ∨
    (∃ r, quoteSlowStep u st = .ok (.inr r) ∧ QuoPost u out r) := by
  obtain ⟨hr, hlen, hwr, hwo, hg⟩ := hi
  unfold quoteSlowStep
  have hl : (st.out.take st.w).length = st.w := take_len _ _ (by omega)
  by_cases hlt : u.length > st.r
  · have hdrop : u.drop st.r = u[st.r] :: u.drop (st.r + 1) := List.drop_eq_getElem_cons hlt
    simp only [hlt, if_true]
    by_cases hfull : st.out.length ≤ st.w
    · right
      simp only [hfull, if_true, pure_eq_ok]
      refine ⟨_, rfl, hlen, ?_⟩
      have hpos := quoteSpec_cons_pos u[st.r] (u.drop (st.r + 1))
      have : ¬ (quoteSpec u).length ≤ out.length := by
        rw [hg, hdrop, List.length_append, hl]; omega
      simp [this]
    · have hw : st.w < st.out.length := by omega
      simp only [hfull, if_false, rd_lt hlt, bind_ok']
      by_cases hs : isQuoteSpecial u[st.r] = true
      · simp only [hs, if_true, wr_ok _ hw, bind_ok']
        by_cases hfull2 : (st.out.set st.w 0x5c).length ≤ st.w + 1
        · right
          simp only [hfull2, if_true, pure_eq_ok]
          refine ⟨_, rfl, by simp [hlen], ?_⟩
          have : ¬ (quoteSpec u).length ≤ out.length := by
            rw [hg, hdrop, quoteSpec_cons_special _ _ hs, List.length_append, hl]
            simp at hfull2 ⊢; omega
          simp [this]
        · left
          have hw1 : st.w + 1 < (st.out.set st.w 0x5c).length := by omega
          simp only [hfull2, if_false, wr_ok _ hw1, bind_ok', pure_eq_ok]
          have hw1' : st.w + 1 < st.out.length := by simpa using hw1
          refine ⟨_, rfl, ⟨by simp; omega, by simp [hlen], by simp; omega, by simp; omega, ?_⟩, by simp; omega⟩
          simp only [take_set_two _ _ _ _ hw1']
          rw [hg, hdrop, quoteSpec_cons_special _ _ hs]; simp
      · left
        simp only [hs, wr_ok _ hw, bind_ok', pure_eq_ok]
        refine ⟨_, rfl, ⟨by simp; omega, by simp [hlen], by simp; omega, by simp; omega, ?_⟩, by simp; omega⟩
        simp only [take_set_succ _ _ _ hw]
        rw [hg, hdrop, quoteSpec_cons_plain _ _ hs]; simp
  · right
    simp only [hlt, if_false, pure_eq_ok]
    refine ⟨_, rfl, hlen, ?_⟩
    have hnil : u.drop st.r = [] := List.drop_eq_nil_of_le (by omega)
    rw [hnil] at hg
    simp only [quoteSpec, List.append_nil] at hg
    simp [hg, hl, hwo]

/-- `MHD_str_quote` = the reference quoting if (and only if) it fits into the
    buffer, 0 otherwise (`unquoted_len < 2^63`: the `size_t` product cannot wrap). -/
theorem quote_spec (u out : Bytes) (hu : u.length < 2 ^ 63) :
    Wrote (quote u out) out (if (quoteSpec u).length ≤ out.length then some (quoteSpec u) else none) := by
  have hmod : (u.length * 2) % 2 ^ 64 = u.length * 2 := Nat.mod_eq_of_lt (by omega)
  have hfin : ∀ r : Nat × Bytes, QuoPost u out r →
      (r.2.length = out.length ∧
        match (if (quoteSpec u).length ≤ out.length then some (quoteSpec u) else none) with
        | some d => r.1 = d.length ∧ r.2.take r.1 = d
        | none => r.1 = 0) := by
    intro r ⟨h1, h2⟩
    refine ⟨h1, ?_⟩
    by_cases hf : (quoteSpec u).length ≤ out.length
    · simp only [hf, if_true] at h2 ⊢; exact h2
    · simp only [hf, if_false] at h2 ⊢; exact h2
  unfold quote
  rw [hmod]
  by_cases hfast : u.length * 2 ≤ out.length
  · simp only [hfast, if_true]
    obtain ⟨⟨n, o⟩, hr, hp⟩ := iter_spec (quoteFastStep u) (QuoInv u out) (fun st => u.length - st.r) (QuoPost u out)
      (quoteFast_step u out (by omega)) (u.length + 1) ⟨0, 0, out⟩ ⟨by simp, rfl, by simp, by simp, by simp⟩ (by simp)
    exact ⟨n, o, hr, hfin _ hp⟩
  · simp only [hfast, if_false]
    by_cases hq : u.length > out.length
    · simp only [hq, if_true]
      have := (quoteSpec_length_le u).1
      have hf : ¬ (quoteSpec u).length ≤ out.length := by omega
      exact ⟨0, out, rfl, rfl, by simp [hf]⟩
    · simp only [hq, if_false]
      obtain ⟨⟨n, o⟩, hr, hp⟩ := iter_spec (quoteSlowStep u) (QuoInv u out) (fun st => u.length - st.r) (QuoPost u out)
        (quoteSlow_step u out) (u.length + 1) ⟨0, 0, out⟩ ⟨by simp, rfl, by simp, by simp, by simp⟩ (by simp)
      exact ⟨n, o, hr, hfin _ hp⟩

/-! ### MHD_str_equal_quoted_bin_n / MHD_str_equal_caseless_quoted_bin_n -/

/-- element-wise comparison with `eq`, lengths must agree -/
def listEq (eq : UInt8 → UInt8 → Bool) : Bytes → Bytes → Bool
  | [], [] => true
  | a :: s, b :: t => eq a b && listEq eq s t
  | _, _ => false

/-- reference: the unquoted form of `q` exists and equals `u` under `eq` -/
def quotedEq (eq : UInt8 → UInt8 → Bool) (q u : Bytes) : Bool :=
  match unquoteSpec q with
  | some u' => listEq eq u' u
  | none => false

theorem listEq_beq (a b : Bytes) : listEq (· == ·) a b = decide (a = b) := by
  induction a generalizing b with
  | nil => cases b <;> simp [listEq]
  | cons x s ih => cases b with
    | nil => simp [listEq]
    | cons y t => simp [listEq, ih]; by_cases hxy : x = y <;> simp [hxy]

theorem listEq_length {eq} {a b : Bytes} (h : listEq eq a b = true) : a.length = b.length := by
  induction a generalizing b with
  | nil => cases b <;> simp_all [listEq]
  | cons x s ih => cases b with
    | nil => simp [listEq] at h
    | cons y t => simp [listEq] at h; simp [ih h.2]

theorem unquoteSpec_cons_pos (c : UInt8) (t d : Bytes) (h : unquoteSpec (c :: t) = some d) : d ≠ [] := by
  by_cases hc : c = 0x5c
  · subst hc
    cases t with
    | nil => rw [unquoteSpec_bs_end] at h; simp at h
    | cons x rest =>
      rw [unquoteSpec_bs] at h
      simp only [Option.map_eq_some_iff] at h
      obtain ⟨d', _, rfl⟩ := h; simp
  · rw [unquoteSpec_cons_ne _ _ hc] at h
    simp only [Option.map_eq_some_iff] at h
    obtain ⟨d', _, rfl⟩ := h; simp

theorem quotedEq_nil (eq) (u : Bytes) : quotedEq eq [] u = decide (u = []) := by
  cases u <;> simp [quotedEq, unquoteSpec_nil, listEq]

theorem quotedEq_cons_nil (eq) (c : UInt8) (t : Bytes) : quotedEq eq (c :: t) [] = false := by
  unfold quotedEq
  cases h : unquoteSpec (c :: t) with
  | none => rfl
  | some d =>
    have := unquoteSpec_cons_pos c t d h
    cases d with
    | nil => exact absurd rfl this
    | cons => simp [listEq]

theorem quotedEq_bs_end (eq) (u : Bytes) : quotedEq eq [0x5c] u = false := by
  simp [quotedEq, unquoteSpec_bs_end]

theorem quotedEq_bs (eq) (x : UInt8) (rest : Bytes) (b : UInt8) (t : Bytes) :
    quotedEq eq (0x5c :: x :: rest) (b :: t) = (eq x b && quotedEq eq rest t) := by
  unfold quotedEq
  rw [unquoteSpec_bs]
  cases unquoteSpec rest <;> simp [listEq]

theorem quotedEq_plain (eq) (c : UInt8) (rest : Bytes) (hc : c ≠ 0x5c) (b : UInt8) (t : Bytes) :
    quotedEq eq (c :: rest) (b :: t) = (eq c b && quotedEq eq rest t) := by
  unfold quotedEq
  rw [unquoteSpec_cons_ne _ _ hc]
  cases unquoteSpec rest <;> simp [listEq]

def EqqInv (eq : UInt8 → UInt8 → Bool) (q u : Bytes) (st : IJ) : Prop :=
  st.i ≤ q.length ∧ st.j ≤ u.length ∧ quotedEq eq q u = quotedEq eq (q.drop st.i) (u.drop st.j)

theorem equalQuoted_step (eq : UInt8 → UInt8 → Bool) (q u : Bytes) (st : IJ) (hi : EqqInv eq q u st) :
    (∃ s', equalQuotedStep eq q u st = .ok (.inl s') ∧ EqqInv eq q u s' ∧ q.length - s'.i < q.length - st.i) ∨
    (∃ r, equalQuotedStep eq q u st = .ok (.inr r) ∧ r = quotedEq eq q u) := by
  obtain ⟨hi1, hj1, hg⟩ := hi
  unfold equalQuotedStep
  by_cases hlt : q.length > st.i ∧ u.length > st.j
  · obtain ⟨hqi, huj⟩ := hlt
    have hdq : q.drop st.i = q[st.i] :: q.drop (st.i + 1) := List.drop_eq_getElem_cons hqi
    have hdu : u.drop st.j = u[st.j] :: u.drop (st.j + 1) := List.drop_eq_getElem_cons huj
    simp only [hqi, huj, and_self, if_true, rd_lt hqi, bind_ok']
    by_cases hc : q[st.i] = 0x5c
    · by_cases hend : q.length = st.i + 1
      · right
        simp only [hc, hend, if_true, pure_eq_ok, bind_ok']
        refine ⟨false, rfl, ?_⟩
        have hn : q.drop (st.i + 1) = [] := List.drop_eq_nil_of_le (by omega)
        rw [hg, hdq, hc, hn, quotedEq_bs_end]
      · have h1 : st.i + 1 < q.length := by omega
        have hdq1 : q.drop (st.i + 1) = q[st.i + 1] :: q.drop (st.i + 2) := List.drop_eq_getElem_cons h1
        simp only [hc, hend, if_true, if_false, pure_eq_ok, bind_ok', rd_lt h1, rd_lt huj]
        have hq : quotedEq eq q u = (eq q[st.i + 1] u[st.j] && quotedEq eq (q.drop (st.i + 2)) (u.drop (st.j + 1))) := by
          rw [hg, hdq, hc, hdq1, hdu, quotedEq_bs]
        by_cases he : eq q[st.i + 1] u[st.j] = true
        · left
          simp only [he, Bool.not_true, Bool.false_eq_true, if_false]
          refine ⟨_, rfl, ⟨by simp; omega, by simp; omega, ?_⟩, by simp; omega⟩
          simp only []; rw [hq, he]; simp
        · right
          simp only [he, Bool.not_false, if_true]
          simp only [Bool.not_eq_true] at he
          refine ⟨false, ?_, ?_⟩
          · simp [he]
          · rw [hq, he]; simp
    · simp only [hc, if_false, pure_eq_ok, bind_ok', rd_lt hqi, rd_lt huj]
      have hq : quotedEq eq q u = (eq q[st.i] u[st.j] && quotedEq eq (q.drop (st.i + 1)) (u.drop (st.j + 1))) := by
        rw [hg, hdq, hdu, quotedEq_plain _ _ _ hc]
      by_cases he : eq q[st.i] u[st.j] = true
      · left
        simp only [he, Bool.not_true, Bool.false_eq_true, if_false]
        refine ⟨_, rfl, ⟨by simp; omega, by simp; omega, ?_⟩, by simp; omega⟩
        simp only []; rw [hq, he]; simp
      · right
        simp only [Bool.not_eq_true] at he
        refine ⟨false, ?_, ?_⟩
        · simp [he]
        · rw [hq, he]; simp
  · right
    simp only [hlt, if_false, pure_eq_ok]
    refine ⟨_, rfl, ?_⟩
    rw [hg]
    by_cases hqi : q.length > st.i
    · have huj : u.length = st.j := by omega
      have hdq : q.drop st.i = q[st.i] :: q.drop (st.i + 1) := List.drop_eq_getElem_cons hqi
      have hdu : u.drop st.j = [] := List.drop_eq_nil_of_le (by omega)
      rw [hdq, hdu, quotedEq_cons_nil]
      simp; omega
    · have hdq : q.drop st.i = [] := List.drop_eq_nil_of_le (by omega)
      rw [hdq, quotedEq_nil]
      have : q.length = st.i := by omega
      simp [this]
      omega

/-- the comparison functions decide "unquote (quoted) equals unquoted" (under `eq`) -/
theorem equalQuotedGen_spec (eq : UInt8 → UInt8 → Bool) (q u : Bytes) :
    equalQuotedGen eq q u = .ok (quotedEq eq q u) := by
  unfold equalQuotedGen
  by_cases hq : u.length < q.length / 2
  · simp only [hq, if_true]
    congr 1
    unfold quotedEq
    cases h : unquoteSpec q with
    | none => rfl
    | some u' =>
      have h1 := (unquoteSpec_length_le q u' h).2
      cases h2 : listEq eq u' u with
      | false => simp [h2]
      | true => have := listEq_length h2; omega
  · simp only [hq, if_false]
    obtain ⟨r, hr, hp⟩ := iter_spec (equalQuotedStep eq q u) (EqqInv eq q u) (fun st => q.length - st.i)
      (fun r => r = quotedEq eq q u) (equalQuoted_step eq q u) (q.length + 1) ⟨0, 0⟩ ⟨by simp, by simp, by simp⟩ (by simp)
    rw [hr, hp]

/-- `MHD_str_equal_quoted_bin_n (q, u)` ⇔ `unquote q = u` -/
theorem equalQuotedBinN_spec (q u : Bytes) :
    equalQuotedBinN q u = .ok (decide (unquoteSpec q = some u)) := by
  unfold equalQuotedBinN
  rw [equalQuotedGen_spec]
  congr 1
  unfold quotedEq
  cases h : unquoteSpec q with
  | none => simp
  | some u' => simp [listEq_beq]

end Mhd.Str
