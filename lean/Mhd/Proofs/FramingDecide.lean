/-
  C03 helper lemmas, part 1: the body decision (`decideBody`) against the RFC 9112 §6.3 rule
  stated over the list of values of the Transfer-Encoding / Content-Length fields.
-/
import Mhd.Model.FramingRef
namespace Mhd.Framing
open Mhd.Gen.Framing Framer

theorem countName_eq_length (fs : List Field) (k : Bytes) :
    countName fs k = (fieldValues fs k).length := by
  induction fs with
  | nil => rfl
  | cons f t ih =>
    simp only [fieldValues] at ih
    cases h : eqCI f.name k <;> simp [countName, fieldValues, List.filter_cons, h, ih] <;> omega

theorem lookup_eq_head (fs : List Field) (k : Bytes) :
    lookup fs k = (fieldValues fs k).head? := by
  induction fs with
  | nil => rfl
  | cons f t ih =>
    simp only [fieldValues] at ih
    cases h : eqCI f.name k <;> simp [lookup, fieldValues, List.filter_cons, h, ih]

/-- value of a digit string continued from an accumulator -/
def decFrom (res : Nat) (ds : Bytes) : Nat := ds.foldl (fun a c => a * 10 + (c.toNat - 48)) res

theorem decFrom_ge (ds : Bytes) (res : Nat) : res ≤ decFrom res ds := by
  induction ds generalizing res with
  | nil => simp [decFrom]
  | cons c t ih =>
    simp only [decFrom, List.foldl_cons]
    have := ih (res * 10 + (c.toNat - 48))
    simp only [decFrom] at this
    omega

theorem decValue_eq (ds : Bytes) : decValue ds = decFrom 0 ds := rfl

theorem mulOvf10 (res d : Nat) (hd : d ≤ 9) : mulOvf 10 res d = true ↔ res * 10 + d > uint64Max := by
  unfold mulOvf uint64Max
  rw [Bool.or_eq_true, Bool.and_eq_true, decide_eq_true_iff, decide_eq_true_iff, decide_eq_true_iff]
  omega

theorem mulOvf16 (res d : Nat) (hd : d ≤ 15) : mulOvf 16 res d = true ↔ res * 16 + d > uint64Max := by
  unfold mulOvf uint64Max
  rw [Bool.or_eq_true, Bool.and_eq_true, decide_eq_true_iff, decide_eq_true_iff, decide_eq_true_iff]
  omega

theorem strToU64Aux_spec (t : Bytes) (res i : Nat) (hr : res ≤ uint64Max) :
    strToU64Aux t res i =
      if decFrom res (t.takeWhile isDigit) ≤ uint64Max
      then (i + (t.takeWhile isDigit).length, decFrom res (t.takeWhile isDigit)) else (0, 0) := by
  induction t generalizing res i with
  | nil =>
    simp [strToU64Aux, decFrom, hr]
  | cons c t ih =>
    cases hd : isDigit c
    · simp [strToU64Aux, hd, decFrom, hr]
    · simp only [strToU64Aux, hd, if_true, List.takeWhile_cons, List.length_cons]
      have hge := decFrom_ge (t.takeWhile isDigit) (res * 10 + (c.toNat - 48))
      have hstep : decFrom res (c :: t.takeWhile isDigit) = decFrom (res * 10 + (c.toNat - 48)) (t.takeWhile isDigit) := rfl
      rw [hstep]
      have hd9 : c.toNat - 48 ≤ 9 := by
        simp only [isDigit, Bool.and_eq_true, decide_eq_true_eq] at hd
        have h2 : c.toNat ≤ 57 := by simpa using (UInt8.le_iff_toNat_le.mp hd.2)
        omega
      cases hov : mulOvf 10 res (c.toNat - 48)
      · have hle : res * 10 + (c.toNat - 48) ≤ uint64Max := by
          have h1 := mulOvf10 res _ hd9
          rw [hov] at h1
          have : ¬ (res * 10 + (c.toNat - 48) > uint64Max) := fun h => by simpa using h1.mpr h
          omega
        simp only [Bool.false_eq_true, if_false]
        rw [ih _ _ hle]
        by_cases hf : decFrom (res * 10 + (c.toNat - 48)) (t.takeWhile isDigit) ≤ uint64Max
        · simp only [hf, if_true]; congr 1; omega
        · simp only [hf, if_false]
      · have := (mulOvf10 res _ hd9).mp hov
        have : ¬ (decFrom (res * 10 + (c.toNat - 48)) (t.takeWhile isDigit) ≤ uint64Max) := by omega
        simp only [if_true, if_neg this]

theorem takeWhile_all {p : UInt8 → Bool} (l : Bytes) (h : ∀ x ∈ l, p x = true) : l.takeWhile p = l := by
  induction l with
  | nil => rfl
  | cons c t ih =>
    have hc := h c (List.mem_cons_self)
    simp only [List.takeWhile_cons, hc, if_true]
    rw [ih (fun x hx => h x (List.mem_cons_of_mem _ hx))]

theorem all_of_takeWhile_length {p : UInt8 → Bool} (l : Bytes) (h : (l.takeWhile p).length = l.length) :
    ∀ x ∈ l, p x = true := by
  induction l with
  | nil => intro x hx; cases hx
  | cons c t ih =>
    cases hc : p c
    · simp [List.takeWhile_cons, hc] at h
    · simp only [List.takeWhile_cons, hc, if_true, List.length_cons] at h
      intro x hx
      cases hx with
      | head => exact hc
      | tail _ hx' => exact ih (by omega) x hx'

/-- RFC 9110 §8.6: a Content-Length value is a non-empty string of digits; this
    implementation additionally needs it to be representable (`< MHD_SIZE_UNKNOWN`). -/
def ValidDec (v : Bytes) : Prop := v ≠ [] ∧ (∀ c ∈ v, isDigit c = true) ∧ decValue v < sizeUnknown

theorem strToU64_digits (v : Bytes) (hne : v ≠ []) (hd : ∀ c ∈ v, isDigit c = true) :
    strToU64 v = if decValue v ≤ uint64Max then (v.length, decValue v) else (0, 0) := by
  cases v with
  | nil => exact absurd rfl hne
  | cons c t =>
    have hc := hd c List.mem_cons_self
    simp only [strToU64, hc, if_true]
    rw [strToU64Aux_spec _ _ _ (by simp [uint64Max]), takeWhile_all _ hd, decValue_eq]
    simp

theorem decideLen_valid (v : Bytes) (h : ValidDec v) : decideLen v = .len (decValue v) := by
  obtain ⟨hne, hd, hlt⟩ := h
  have hle : decValue v ≤ uint64Max := by simp only [sizeUnknown, uint64Max] at *; omega
  have hlen : v.length ≠ 0 := by cases v with | nil => exact absurd rfl hne | cons _ _ => simp
  unfold decideLen
  simp only [strToU64_digits v hne hd, hle, if_true]
  have h1 : ¬ ((v.length = 0 ∧ v ≠ [] ∧ firstIsDigit v = true) ∨ decValue v = sizeUnknown) := by
    intro h; cases h with
    | inl h => exact hlen h.1
    | inr h => omega
  have h2 : ¬ (v.length ≠ v.length ∨ v.length = 0) := by
    intro h; cases h with
    | inl h => exact h rfl
    | inr h => exact hlen h
  simp only [h1, h2, if_false]

theorem decideLen_invalid (v : Bytes) (h : ¬ ValidDec v) :
    decideLen v = .reject httpBadRequest ∨ decideLen v = .reject httpContentTooLarge := by
  unfold decideLen
  by_cases c1 : ((strToU64 v).1 = 0 ∧ v ≠ [] ∧ firstIsDigit v = true) ∨ (strToU64 v).2 = sizeUnknown
  · right; simp only [c1, if_true]
  · by_cases c2 : v.length ≠ (strToU64 v).1 ∨ (strToU64 v).1 = 0
    · left; simp only [c1, c2, if_true, if_false]
    · exfalso; apply h
      have hlen : v.length = (strToU64 v).1 := by
        by_cases e : v.length = (strToU64 v).1
        · exact e
        · exact absurd (Or.inl e) c2
      have hnz : (strToU64 v).1 ≠ 0 := fun e => c2 (Or.inr e)
      cases v with
      | nil => simp [strToU64] at hnz
      | cons c t =>
        cases hc : isDigit c
        · simp [strToU64, hc] at hnz
        · simp only [strToU64, hc, if_true] at hlen hnz c1
          rw [strToU64Aux_spec _ _ _ (by simp [uint64Max])] at hlen hnz c1
          by_cases hf : decFrom 0 (List.takeWhile isDigit (c :: t)) ≤ uint64Max
          · simp only [hf, if_true, Nat.zero_add] at hlen hnz c1
            have hall := all_of_takeWhile_length (c :: t) hlen.symm
            have htw := takeWhile_all (c :: t) hall
            rw [htw] at hf c1
            refine ⟨by simp, hall, ?_⟩
            have hne : decFrom 0 (c :: t) ≠ sizeUnknown := fun e => c1 (Or.inr e)
            rw [decValue_eq]
            simp only [sizeUnknown, uint64Max] at *
            omega
          · simp [hf] at hnz

/-- the Host rule does not fire -/
def HostOK (lvl : Int) (http11 : Bool) (fs : List Field) : Prop :=
  ¬ (hostAboveLvl < lvl ∧ http11 = true ∧ (lookup fs hdrHost).isNone = true)

theorem decideBody_none (lvl : Int) (http11 : Bool) (fs : List Field) (hh : HostOK lvl http11 fs)
    (hte : fieldValues fs hdrTransferEncoding = []) (hcl : fieldValues fs hdrContentLength = []) :
    decideBody lvl http11 fs = .none := by
  unfold decideBody; rw [if_neg hh]; simp [countName_eq_length, lookup_eq_head, hte, hcl]

theorem decideBody_len (lvl : Int) (http11 : Bool) (fs : List Field) (hh : HostOK lvl http11 fs) (v : Bytes)
    (hte : fieldValues fs hdrTransferEncoding = []) (hcl : fieldValues fs hdrContentLength = [v])
    (hv : ValidDec v) : decideBody lvl http11 fs = .len (decValue v) := by
  unfold decideBody; rw [if_neg hh]; simp [countName_eq_length, lookup_eq_head, hte, hcl, decideLen_valid v hv]

theorem decideBody_chunked (lvl : Int) (http11 : Bool) (fs : List Field) (hh : HostOK lvl http11 fs) (te : Bytes)
    (hte : fieldValues fs hdrTransferEncoding = [te]) (hc : eqCI te tokChunked = true)
    (hcl : fieldValues fs hdrContentLength = []) : decideBody lvl http11 fs = .chunked (! http11) := by
  unfold decideBody; rw [if_neg hh]; simp [countName_eq_length, lookup_eq_head, hte, hcl, hc]

theorem decideBody_no_host (lvl : Int) (fs : List Field) (hl : hostAboveLvl < lvl)
    (hn : lookup fs hdrHost = none) : decideBody lvl true fs = .reject httpBadRequest := by
  simp [decideBody, hl, hn]

theorem decideBody_multi_cl (lvl : Int) (http11 : Bool) (fs : List Field)
    (h : 2 ≤ (fieldValues fs hdrContentLength).length) : decideBody lvl http11 fs = .reject httpBadRequest := by
  simp only [decideBody, countName_eq_length, lookup_eq_head]
  split
  · rfl
  · rw [if_pos (Or.inr (by omega))]

theorem decideBody_multi_te (lvl : Int) (http11 : Bool) (fs : List Field)
    (h : 2 ≤ (fieldValues fs hdrTransferEncoding).length) : decideBody lvl http11 fs = .reject httpBadRequest := by
  simp only [decideBody, countName_eq_length, lookup_eq_head]
  split
  · rfl
  · rw [if_pos (Or.inl (by omega))]

theorem decideBody_te_not_chunked (lvl : Int) (http11 : Bool) (fs : List Field) (te : Bytes) (rest : List Bytes)
    (hte : fieldValues fs hdrTransferEncoding = te :: rest) (hc : eqCI te tokChunked = false) :
    decideBody lvl http11 fs = .reject httpBadRequest := by
  simp only [decideBody, countName_eq_length, lookup_eq_head]
  split
  · rfl
  · split
    · rfl
    · rw [hte]; simp [hc]

theorem decideBody_te_cl (lvl : Int) (http11 : Bool) (fs : List Field)
    (hte : fieldValues fs hdrTransferEncoding ≠ []) (hcl : fieldValues fs hdrContentLength ≠ [])
    (hl : teClRejectFromLvl ≤ lvl) : decideBody lvl http11 fs = .reject httpBadRequest := by
  simp only [decideBody, countName_eq_length, lookup_eq_head]
  split
  · rfl
  · split
    · rfl
    · cases h1 : fieldValues fs hdrTransferEncoding with
      | nil => exact absurd h1 hte
      | cons te r =>
        cases h2 : fieldValues fs hdrContentLength with
        | nil => exact absurd h2 hcl
        | cons v r2 =>
          cases hc : eqCI te tokChunked <;> simp [hc, hl]

/-- below the strict threshold the pair is tolerated, but the connection is marked must-close -/
theorem decideBody_te_cl_lenient (lvl : Int) (http11 : Bool) (fs : List Field) (hh : HostOK lvl http11 fs) (te v : Bytes)
    (hte : fieldValues fs hdrTransferEncoding = [te]) (hc : eqCI te tokChunked = true)
    (hcl : fieldValues fs hdrContentLength = [v]) (hl : ¬ teClRejectFromLvl ≤ lvl) :
    decideBody lvl http11 fs = .chunked true := by
  unfold decideBody; rw [if_neg hh]; simp [countName_eq_length, lookup_eq_head, hte, hcl, hc, hl]

theorem decideBody_bad_cl (lvl : Int) (http11 : Bool) (fs : List Field) (v : Bytes)
    (hte : fieldValues fs hdrTransferEncoding = []) (hcl : fieldValues fs hdrContentLength = [v])
    (hv : ¬ ValidDec v) :
    decideBody lvl http11 fs = .reject httpBadRequest ∨ decideBody lvl http11 fs = .reject httpContentTooLarge := by
  simp only [decideBody, countName_eq_length, lookup_eq_head]
  split
  · left; rfl
  · rw [hte, hcl]
    simpa using decideLen_invalid v hv
end Mhd.Framing
