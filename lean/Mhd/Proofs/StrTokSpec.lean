/-
  C17 reference for the comma-list token functions: split on ',', trim SP/HT,
  compare caselessly — plus the list lemmas the proofs about the model need.
-/
import Mhd.Proofs.StrCmp

namespace Mhd.Str

def isComma (c : UInt8) : Bool := c == 0x2c
def notComma (c : UInt8) : Bool := c != 0x2c

/-! ### reference -/

/-- split at every comma (always at least one element) -/
def splitAux : Bytes → Bytes → List Bytes
  | acc, [] => [acc.reverse]
  | acc, x :: t => if x = 0x2c then acc.reverse :: splitAux [] t else splitAux (x :: acc) t

def splitComma (s : Bytes) : List Bytes := splitAux [] s

/-- remove trailing spaces and tabs -/
def trimR (e : Bytes) : Bytes := (e.reverse.dropWhile isWs).reverse

/-- remove leading and trailing spaces and tabs -/
def trimWs (e : Bytes) : Bytes := trimR (e.dropWhile isWs)

/-- the trimmed elements of the comma list -/
def tokensOf (s : Bytes) : List Bytes := (splitComma s).map trimWs

/-- reference for `MHD_str_has_token_caseless_`: some element equals the token caselessly -/
def hasTokenSpec (s tok : Bytes) : Bool := (tokensOf s).any (fun e => ceqBytes e tok)

/-- a token the API allows: non-empty, no NUL, space, tab or comma -/
def TokenOk (tok : Bytes) : Prop := tok ≠ [] ∧ ∀ x ∈ tok, x ≠ 0 ∧ x ≠ 0x20 ∧ x ≠ 0x09 ∧ x ≠ 0x2c

/-! ### first element / rest -/

def headElem (r : Bytes) : Bytes := r.takeWhile notComma
def restElems (r : Bytes) : Bytes := r.dropWhile notComma

theorem splitAux_eq (acc r : Bytes) :
    splitAux acc r = (acc.reverse ++ headElem r) ::
      (match restElems r with
       | [] => []
       | _ :: r' => splitComma r') := by
  induction r generalizing acc with
  | nil => simp [splitAux, headElem, restElems]
  | cons x t ih =>
    by_cases hx : x = 0x2c
    · subst hx
      simp [splitAux, headElem, restElems, notComma, splitComma]
    · have hn : notComma x = true := by simp [notComma, hx]
      simp only [splitAux, hx, if_false]
      rw [ih]
      simp [headElem, restElems, List.takeWhile, List.dropWhile, hn]

theorem splitComma_eq (r : Bytes) :
    splitComma r = headElem r ::
      (match restElems r with
       | [] => []
       | _ :: r' => splitComma r') := by
  have := splitAux_eq [] r
  simpa [splitComma] using this

/-- "does some element of the list starting at `r` equal the token?" -/
def anyTok (tok r : Bytes) : Bool := hasTokenSpec r tok

theorem anyTok_eq (tok r : Bytes) :
    anyTok tok r = (ceqBytes (trimWs (headElem r)) tok ||
      (match restElems r with
       | [] => false
       | _ :: r' => anyTok tok r')) := by
  unfold anyTok hasTokenSpec tokensOf
  rw [splitComma_eq]
  cases restElems r <;> simp

theorem ceqBytes_nil_left (t : Bytes) : ceqBytes [] t = decide (t = []) := by
  cases t <;> simp [listEq]

theorem anyTok_nil (tok : Bytes) (h : tok ≠ []) : anyTok tok [] = false := by
  rw [anyTok_eq]; simp [headElem, restElems, trimWs, trimR, ceqBytes_nil_left, h]

theorem anyTok_comma (tok r' : Bytes) (h : tok ≠ []) : anyTok tok (0x2c :: r') = anyTok tok r' := by
  rw [anyTok_eq]
  simp [headElem, restElems, notComma, trimWs, trimR, ceqBytes_nil_left, h]

theorem restElems_eq (r : Bytes) : restElems r = [] ∨ ∃ r', restElems r = 0x2c :: r' := by
  unfold restElems
  induction r with
  | nil => left; rfl
  | cons x t ih =>
    by_cases hx : x = 0x2c
    · right; subst hx; exact ⟨t, by simp [notComma]⟩
    · have hn : notComma x = true := by simp [notComma, hx]
      simp only [List.dropWhile, hn]; exact ih

/-- moving to the end of the current element does not lose later elements -/
theorem anyTok_rest (tok r : Bytes) (h : tok ≠ []) :
    anyTok tok r = (ceqBytes (trimWs (headElem r)) tok || anyTok tok (restElems r)) := by
  rw [anyTok_eq]
  rcases restElems_eq r with h0 | ⟨r', h1⟩
  · rw [h0, anyTok_nil tok h]
  · rw [h1, anyTok_comma tok r' h]

/-! ### leading spaces, tabs and empty elements can be skipped -/

theorem trimWs_cons_ws (x : UInt8) (e : Bytes) (hx : isWs x = true) : trimWs (x :: e) = trimWs e := by
  simp [trimWs, List.dropWhile, hx]

theorem headElem_cons (x : UInt8) (t : Bytes) (hx : x ≠ 0x2c) : headElem (x :: t) = x :: headElem t := by
  have hn : notComma x = true := by simp [notComma, hx]
  simp [headElem, List.takeWhile, hn]

theorem restElems_cons (x : UInt8) (t : Bytes) (hx : x ≠ 0x2c) : restElems (x :: t) = restElems t := by
  have hn : notComma x = true := by simp [notComma, hx]
  simp [restElems, List.dropWhile, hn]

theorem isWs_ne_comma {x : UInt8} (h : isWs x = true) : x ≠ 0x2c := by
  intro hc; subst hc; revert h; decide

theorem anyTok_skip (tok : Bytes) (h : tok ≠ []) (r : Bytes) :
    anyTok tok r = anyTok tok (r.dropWhile isWsComma) := by
  induction r with
  | nil => rfl
  | cons x t ih =>
    by_cases hx : isWsComma x = true
    · simp only [List.dropWhile, hx]
      rw [← ih]
      by_cases hc : x = 0x2c
      · subst hc; exact anyTok_comma tok t h
      · have hws : isWs x = true := by
          simp only [isWsComma, Bool.or_eq_true, beq_iff_eq] at hx
          simp only [isWs, Bool.or_eq_true, beq_iff_eq]
          rcases hx with (h1 | h1) | h1
          · exact Or.inl h1
          · exact Or.inr h1
          · exact absurd h1 hc
        rw [anyTok_eq tok (x :: t), anyTok_eq tok t, headElem_cons x t hc, restElems_cons x t hc,
          trimWs_cons_ws x _ hws]
    · simp only [Bool.not_eq_true] at hx
      simp [List.dropWhile, hx]

/-! ### matching one element: `elemIs r t` = "the element at the head of `r`, right-trimmed, is `t`" -/

def elemIs : Bytes → Bytes → Bool
  | r, [] => (headElem r).all isWs
  | [], _ :: _ => false
  | x :: r', y :: t' => x != 0x2c && charsEqualCaseless x y && elemIs r' t'

theorem trimR_append_ws (e w : Bytes) (hw : ∀ x ∈ w, isWs x = true) : trimR (e ++ w) = trimR e := by
  unfold trimR
  rw [List.reverse_append]
  have : ∀ (l m : Bytes), (∀ x ∈ l, isWs x = true) → (l ++ m).dropWhile isWs = m.dropWhile isWs := by
    intro l m hl
    induction l with
    | nil => rfl
    | cons a t ih =>
      have ha := hl a List.mem_cons_self
      simp only [List.cons_append, List.dropWhile, ha]
      exact ih (fun x hx => hl x (List.mem_cons_of_mem _ hx))
  rw [this w.reverse e.reverse (fun x hx => hw x (List.mem_reverse.mp hx))]

theorem trimR_all_ws (w : Bytes) (hw : ∀ x ∈ w, isWs x = true) : trimR w = [] := by
  have := trimR_append_ws [] w hw
  simpa [trimR] using this

theorem trimR_cons (x : UInt8) (e : Bytes) :
    trimR (x :: e) = if trimR e = [] ∧ isWs x = true then [] else x :: trimR e := by
  unfold trimR
  rw [List.reverse_cons]
  -- dropWhile over `e.reverse ++ [x]`
  have key : ∀ l : Bytes, (l ++ [x]).dropWhile isWs =
      if l.dropWhile isWs = [] then (if isWs x = true then [] else [x]) else l.dropWhile isWs ++ [x] := by
    intro l
    induction l with
    | nil => by_cases hx : isWs x = true <;> simp [List.dropWhile, hx]
    | cons a t ih =>
      by_cases ha : isWs a = true
      · simp only [List.cons_append, List.dropWhile, ha]; exact ih
      · simp only [Bool.not_eq_true] at ha
        simp [List.dropWhile, ha]
  rw [key]
  by_cases h1 : e.reverse.dropWhile isWs = []
  · by_cases hx : isWs x = true <;> simp [h1, hx]
  · simp [h1]

theorem trimR_eq_nil_iff (e : Bytes) : trimR e = [] ↔ e.all isWs = true := by
  induction e with
  | nil => simp [trimR]
  | cons x t ih =>
    rw [trimR_cons]
    by_cases hx : isWs x = true
    · by_cases ht : trimR t = []
      · simp [ht, hx, ih.mp ht]
      · have : ¬ t.all isWs = true := fun h => ht (ih.mpr h)
        simp only [Bool.not_eq_true] at this
        simp [ht, hx, this]
    · simp only [Bool.not_eq_true] at hx
      simp [hx]

/-- for a token without spaces, tabs and commas `elemIs` is "right-trimmed head
    element equals the token caselessly" -/
theorem elemIs_eq (r t : Bytes) (ht : ∀ x ∈ t, x ≠ 0x20 ∧ x ≠ 0x09 ∧ x ≠ 0x2c) :
    elemIs r t = ceqBytes (trimR (headElem r)) t := by
  induction t generalizing r with
  | nil =>
    have h1 : elemIs r [] = (headElem r).all isWs := by rw [elemIs.eq_def]
    have h2 : ∀ e : Bytes, ceqBytes e [] = decide (e = []) := by intro e; cases e <;> simp [listEq]
    rw [h1, h2, Bool.eq_iff_iff]
    simp [trimR_eq_nil_iff]
  | cons y t' ih =>
    have hy := ht y List.mem_cons_self
    have ht' : ∀ x ∈ t', x ≠ 0x20 ∧ x ≠ 0x09 ∧ x ≠ 0x2c := fun x hx => ht x (List.mem_cons_of_mem _ hx)
    cases r with
    | nil => simp [elemIs, headElem, trimR, listEq]
    | cons x r' =>
      rw [elemIs.eq_def]
      simp only
      by_cases hc : x = 0x2c
      · subst hc
        simp [headElem, notComma, trimR, listEq]
      · rw [headElem_cons x r' hc, trimR_cons, ih r' ht']
        have hxc : (x != 0x2c) = true := by simp [hc]
        by_cases hnil : trimR (headElem r') = [] ∧ isWs x = true
        · -- x is a space: it cannot match the token character y
          have hne : charsEqualCaseless x y = false := by
            have hx := hnil.2
            simp only [isWs, Bool.or_eq_true, beq_iff_eq] at hx
            rw [charsEqualCaseless_iff]
            rcases hx with hx | hx
            · subst hx
              have : ∀ n : Fin 256, UInt8.ofNat n.val ≠ 0x20 → (toLower 0x20 == toLower (UInt8.ofNat n.val)) = false := by
                decide +kernel
              have := this ⟨y.toNat, y.toNat_lt⟩ (by simpa using hy.1)
              simpa using this
            · subst hx
              have : ∀ n : Fin 256, UInt8.ofNat n.val ≠ 0x09 → (toLower 0x09 == toLower (UInt8.ofNat n.val)) = false := by
                decide +kernel
              have := this ⟨y.toNat, y.toNat_lt⟩ (by simpa using hy.2.1)
              simpa using this
          simp [hnil, hne, listEq]
        · simp only [hnil, if_false, hxc, Bool.true_and, listEq]

end Mhd.Str
