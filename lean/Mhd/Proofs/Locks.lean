/-
  C18 — helper lemmas.

  (1) An abstract small-step model of threads taking and releasing mutexes under an
      acquisition discipline given by a set of permitted (held, requested) pairs, and the
      general lemma: if the permitted pairs respect a ranking, no reachable state has a
      cycle of threads each waiting for a mutex owned by the next one; moreover some waiting
      thread is always blocked only by a thread that is not itself waiting.
  (2) Lifting lemmas from the Boolean whole-table checks of `Mhd.Model.Locks` to
      ∀-statements about the entries and events of a table.
-/
import Mhd.Model.Locks

namespace Mhd.Locks
open Mhd.Gen.Locks

/-! ## (1) abstract threads-and-mutexes system -/

/-- global state: who owns each mutex, and which mutex each thread is blocked on (if any) -/
structure Sys (T : Type) where
  owner : Lock → Option T
  want : T → Option Lock

namespace Sys
set_option linter.unusedSectionVars false
variable {T : Type} [DecidableEq T]

def init : Sys T := ⟨fun _ => none, fun _ => none⟩

/-- the discipline: thread `t` may ask for `l` only if every mutex it owns is listed before `l` -/
def Allowed (edges : List (Lock × Lock)) (s : Sys T) (t : T) (l : Lock) : Prop :=
  ∀ h, s.owner h = some t → (h, l) ∈ edges

def setWant (s : Sys T) (t : T) (v : Option Lock) : Sys T :=
  { s with want := fun x => if x = t then v else s.want x }

def setOwner (s : Sys T) (l : Lock) (v : Option T) : Sys T :=
  { s with owner := fun x => if x = l then v else s.owner x }

/-- one step of some thread: ask for a mutex (becoming blocked on it), be granted a free mutex,
    or release an owned mutex while not blocked -/
inductive Step (edges : List (Lock × Lock)) : Sys T → Sys T → Prop
  | request (s : Sys T) (t : T) (l : Lock) :
      s.want t = none → Allowed edges s t l → Step edges s (s.setWant t (some l))
  | grant (s : Sys T) (t : T) (l : Lock) :
      s.want t = some l → s.owner l = none → Step edges s ((s.setOwner l (some t)).setWant t none)
  | release (s : Sys T) (t : T) (l : Lock) :
      s.owner l = some t → s.want t = none → Step edges s (s.setOwner l none)

inductive Reachable (edges : List (Lock × Lock)) : Sys T → Prop
  | init : Reachable edges init
  | step {s s' : Sys T} : Reachable edges s → Step edges s s' → Reachable edges s'

/-- a blocked thread owns only mutexes that are listed before the one it asks for -/
def Disciplined (edges : List (Lock × Lock)) (s : Sys T) : Prop :=
  ∀ t l, s.want t = some l → ∀ h, s.owner h = some t → (h, l) ∈ edges

theorem disciplined_init (edges : List (Lock × Lock)) : Disciplined edges (init : Sys T) := by
  intro t l h
  simp [init] at h

theorem disciplined_step {edges : List (Lock × Lock)} {s s' : Sys T}
    (hd : Disciplined edges s) (hs : Step edges s s') : Disciplined edges s' := by
  cases hs with
  | request t l hw ha =>
    intro t' l' hw' h ho
    simp only [setWant] at hw' ho
    by_cases htt : t' = t
    · subst htt
      simp at hw'
      subst hw'
      exact ha h ho
    · simp [htt] at hw'
      exact hd t' l' hw' h ho
  | grant t l hw hfree =>
    intro t' l' hw' h ho
    simp only [setWant, setOwner] at hw' ho
    by_cases htt : t' = t
    · subst htt
      simp at hw'
    · simp [htt] at hw'
      by_cases hl : h = l
      · subst hl
        simp at ho
        exact absurd ho.symm htt
      · simp [hl] at ho
        exact hd t' l' hw' h ho
  | release t l ho' hw =>
    intro t' l' hw' h ho
    simp only [setOwner] at hw' ho
    by_cases hl : h = l
    · subst hl
      simp at ho
    · simp [hl] at ho
      exact hd t' l' hw' h ho

theorem disciplined_of_reachable {edges : List (Lock × Lock)} {s : Sys T}
    (h : Reachable edges s) : Disciplined edges s := by
  induction h with
  | init => exact disciplined_init edges
  | step _ hs ih => exact disciplined_step ih hs

/-- `t` is blocked on a mutex owned by `t'` -/
def Waits (s : Sys T) (t t' : T) : Prop := ∃ l, s.want t = some l ∧ s.owner l = some t'

/-- transitive closure of `Waits` -/
inductive WaitPlus (s : Sys T) : T → T → Prop
  | single {a b : T} : Waits s a b → WaitPlus s a b
  | tail {a b c : T} : WaitPlus s a b → Waits s b c → WaitPlus s a c

/-- along a chain of waiting threads the rank of the requested mutex strictly increases -/
theorem rank_increases {edges : List (Lock × Lock)} {rank : Lock → Nat} {s : Sys T}
    (hd : Disciplined edges s) (hr : ∀ p ∈ edges, rank p.1 < rank p.2)
    {a b : T} (hw : WaitPlus s a b) :
    ∀ lb, s.want b = some lb → ∃ la, s.want a = some la ∧ rank la < rank lb := by
  induction hw with
  | single h =>
    intro lb hb
    obtain ⟨la, hwa, hoa⟩ := h
    exact ⟨la, hwa, hr (la, lb) (hd _ lb hb la hoa)⟩
  | tail _ h ih =>
    intro lc hc
    obtain ⟨lb, hwb, hob⟩ := h
    obtain ⟨la, hwa, hlt⟩ := ih lb hwb
    exact ⟨la, hwa, Nat.lt_trans hlt (hr (lb, lc) (hd _ lc hc lb hob))⟩

theorem waitPlus_source_waits {s : Sys T} {a b : T} (hw : WaitPlus s a b) : ∃ l, s.want a = some l := by
  induction hw with
  | single h => obtain ⟨l, h1, _⟩ := h; exact ⟨l, h1⟩
  | tail _ _ ih => exact ih

/-- **acyclic lock order ⇒ no cycle of waiting threads** (no deadlock by lock ordering),
    in every state that satisfies the discipline — in particular in every reachable state -/
theorem no_wait_cycle {edges : List (Lock × Lock)} {rank : Lock → Nat} {s : Sys T}
    (hd : Disciplined edges s) (hr : ∀ p ∈ edges, rank p.1 < rank p.2) (t : T) :
    ¬ WaitPlus s t t := by
  intro hc
  obtain ⟨l, hl⟩ := waitPlus_source_waits hc
  obtain ⟨l', hl', hlt⟩ := rank_increases hd hr hc l hl
  rw [hl] at hl'
  cases hl'
  exact Nat.lt_irrefl _ hlt

theorem exists_max_by {α : Type} (f : α → Nat) : ∀ (l : List α), l ≠ [] → ∃ a ∈ l, ∀ b ∈ l, f b ≤ f a
  | [], h => absurd rfl h
  | [a], _ => ⟨a, by simp, by intro b hb; simp at hb; subst hb; exact Nat.le_refl _⟩
  | a :: b :: rest, _ => by
    obtain ⟨m, hm, hmax⟩ := exists_max_by f (b :: rest) (by simp)
    by_cases hle : f m ≤ f a
    · refine ⟨a, by simp, ?_⟩
      intro c hc
      rcases List.mem_cons.mp hc with rfl | hc
      · exact Nat.le_refl _
      · exact Nat.le_trans (hmax c hc) hle
    · refine ⟨m, List.mem_cons_of_mem _ hm, ?_⟩
      intro c hc
      rcases List.mem_cons.mp hc with rfl | hc
      · exact Nat.le_of_lt (Nat.lt_of_not_le hle)
      · exact hmax c hc

/-- progress: among finitely many threads, if some thread is blocked then some blocked thread is
    blocked on a mutex that is free or owned by a thread that is itself *not* blocked -/
theorem exists_unblocked {edges : List (Lock × Lock)} {rank : Lock → Nat} {s : Sys T}
    (hd : Disciplined edges s) (hr : ∀ p ∈ edges, rank p.1 < rank p.2)
    (threads : List T) (t0 : T) (l0 : Lock) (h0 : t0 ∈ threads) (hw0 : s.want t0 = some l0) :
    ∃ t ∈ threads, ∃ l, s.want t = some l ∧
      (s.owner l = none ∨ ∃ t', s.owner l = some t' ∧ (s.want t' = none ∨ t' ∉ threads)) := by
  let f : T → Nat := fun t => match s.want t with | some l => rank l + 1 | none => 0
  obtain ⟨m, hm, hmax⟩ := exists_max_by f threads (List.ne_nil_of_mem h0)
  have hfm : 0 < f m := by
    have h1 : f t0 = rank l0 + 1 := by simp only [f, hw0]
    have := hmax t0 h0
    omega
  cases hwm : s.want m with
  | none => simp only [f, hwm] at hfm; exact absurd hfm (Nat.lt_irrefl 0)
  | some l =>
    refine ⟨m, hm, l, hwm, ?_⟩
    cases ho : s.owner l with
    | none => exact Or.inl rfl
    | some t' =>
      right
      by_cases hin : t' ∈ threads
      · cases hw' : s.want t' with
        | none => exact ⟨t', rfl, Or.inl hw'⟩
        | some l' =>
          exfalso
          have hlt : rank l < rank l' := hr (l, l') (hd t' l' hw' l ho)
          have h1 : f t' = rank l' + 1 := by simp only [f, hw']
          have h2 : f m = rank l + 1 := by simp only [f, hwm]
          have := hmax t' hin
          omega
      · exact ⟨t', rfl, Or.inr hin⟩

end Sys

/-! ## (2) lifting the Boolean table checks -/

theorem rankOk_iff (t : List Entry) (rank : Lock → Nat) :
    rankOk t rank = true ↔ ∀ p ∈ lockEdges t, rank p.1 < rank p.2 := by
  simp [rankOk, List.all_eq_true]

/-- what an edge of the generated order graph means -/
theorem mem_lockEdges (t : List Entry) (h l : Lock) :
    (h, l) ∈ lockEdges t ↔ ∃ en ∈ t, ∃ e ∈ en.events, e.kind = Kind.lock l ∧ h ∈ effMay en e := by
  simp only [lockEdges, List.mem_flatMap]
  constructor
  · rintro ⟨en, hen, e, he, hmem⟩
    refine ⟨en, hen, e, he, ?_⟩
    unfold evEdges at hmem
    split at hmem
    · rename_i l' hk
      simp only [List.mem_map, Prod.mk.injEq] at hmem
      obtain ⟨h', hh', rfl, rfl⟩ := hmem
      exact ⟨hk, hh'⟩
    · simp at hmem
  · rintro ⟨en, hen, e, he, hk, hh⟩
    refine ⟨en, hen, e, he, ?_⟩
    unfold evEdges
    rw [hk]
    exact List.mem_map.mpr ⟨h, hh, rfl⟩

theorem locksetOk_iff (t : List Entry) :
    locksetOk t = true ↔ ∀ en ∈ t, ∀ e ∈ en.events, accOk en e = true := by
  simp [locksetOk, List.all_eq_true]

theorem locksetOk_acc (t : List Entry) (h : locksetOk t = true) :
    ∀ en ∈ t, ∀ e ∈ en.events, ∀ f w, e.kind = Kind.acc f w →
      (protectedAcc en e f = true ∨ knownUnprotected f w = true) := by
  intro en hen e he f w hk
  have := (locksetOk_iff t).mp h en hen e he
  unfold accOk at this
  rw [hk] at this
  simpa using this

theorem locksetStrict_false (t : List Entry) (h : locksetOkStrict t = false) :
    ¬ (∀ en ∈ t, ∀ e ∈ en.events, ∀ f w, e.kind = Kind.acc f w → protectedAcc en e f = true) := by
  intro hall
  have : locksetOkStrict t = true := by
    simp only [locksetOkStrict, List.all_eq_true]
    intro en hen e he
    unfold accOkStrict
    split
    · rename_i f w hk
      exact hall en hen e he f w hk
    · rfl
  rw [h] at this
  cases this

theorem callbackOk_iff (t : List Entry) :
    callbackOk t = true ↔ ∀ en ∈ t, ∀ e ∈ en.events, e.kind = Kind.callback → ∀ l ∈ effMay en e,
      (l = Lock.response_mutex ∨ (l = Lock.cleanup_connection_mutex ∧ en.name = "resume_suspended_connections")) := by
  simp only [callbackOk, List.all_eq_true]
  constructor
  · intro h en hen e he hk l hl
    have := h en hen e he
    rw [hk] at this
    simp only [List.all_eq_true] at this
    simpa using this l hl
  · intro h en hen e he
    split
    · rename_i hk
      simp only [List.all_eq_true]
      intro l hl
      simpa using h en hen e he hk l hl
    · rfl

theorem writesOk_iff (t : List Entry) :
    writesOk t = true ↔ ∀ en ∈ t, ∀ e ∈ en.events, ∀ f, e.kind = Kind.acc f true → writeOk en e f = true := by
  simp only [writesOk, List.all_eq_true]
  constructor
  · intro h en hen e he f hk
    have := h en hen e he
    rw [hk] at this
    simpa using this
  · intro h en hen e he
    split
    · rename_i f hk
      simpa using h en hen e he f hk
    · rfl

theorem strictOk_iff (t : List Entry) :
    strictOk t = true ↔ ∀ en ∈ t, ∀ e ∈ en.events, ∀ f w, e.kind = Kind.acc f w → f ∈ strictFields →
      strictAccOk en e f = true := by
  simp only [strictOk, List.all_eq_true]
  constructor
  · intro h en hen e he f w hk hf
    have := h en hen e he
    rw [hk] at this
    simpa [hf] using this
  · intro h en hen e he
    split
    · rename_i f w hk
      by_cases hf : f ∈ strictFields
      · simpa [hf] using h en hen e he f w hk hf
      · simp [hf]
    · rfl

theorem exitsOk_iff (t : List Entry) (exits : List (String × Lock × Nat × Bool)) (wrappers : List (String × Lock)) :
    exitsOk t exits wrappers = true ↔
      (∀ x ∈ exits, (x.1, x.2.1) ∈ wrappers) ∧ (∀ w ∈ wrappers, wrapperOk t w = true) := by
  simp [exitsOk, List.all_eq_true]

theorem blockingOk_iff (t : List Entry) :
    blockingOk t = true ↔ ∀ en ∈ t, ∀ e ∈ en.events, (e.kind = Kind.join ∨ e.kind = Kind.wait) → effMay en e = [] := by
  simp only [blockingOk, List.all_eq_true]
  constructor
  · intro h en hen e he hk
    have := h en hen e he
    rcases hk with hk | hk <;> rw [hk] at this <;> simpa using this
  · intro h en hen e he
    split
    · rename_i hk; simpa using h en hen e he (Or.inl hk)
    · rename_i hk; simpa using h en hen e he (Or.inr hk)
    · rfl

end Mhd.Locks
