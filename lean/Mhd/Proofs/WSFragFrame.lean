/-
  C19 helper lemmas, part 19: one data frame (first or continuation) from a frame boundary
  with a message under assembly up to decode_payload_complete.
-/
import Mhd.Proofs.WSFrag
namespace Mhd.WS

/-- events / next state of a frame completion -/
def pcEvents : R → List Ev
  | .ret _ st _ pl plen => evOf st pl plen
  | _ => []

def pcNext : R → Option WS
  | .cont w _ => some w
  | .ret w st _ _ _ => if st < 0 then none else some w
  | .fault _ => none

/-- configuration fields, never touched by decoding -/
def Cfg (a b : WS) : Prop := b.flags = a.flags ∧ b.maxPayload = a.maxPayload ∧ b.allocLimit = a.allocLimit

theorem grownBuf_zero (acc : List UInt8) : grownBuf acc 0 = bufOf acc := by
  unfold grownBuf bufOf
  by_cases h : acc = []
  · subst h; simp
  · have : acc.length ≠ 0 := fun hh => h (List.length_eq_zero_iff.mp hh)
    simp [h, this]

/-- from a completed header (state `S16`) to `decode_payload_complete`: whatever that returns
    (`r`) is what the run over the frame body produces -/
theorem body_to_complete (S16 S17 : WS) (hi16 : Inv S16) (hv16 : S16.validity ≠ 0) (hs16 : S16.step = 16)
    (hhc : headerComplete false S16 = .cont S17 0) (hs17 : S17.step = 17)
    (acc p body : List UInt8) (key : List UInt8)
    (hbuf : S17.dataBuf = grownBuf acc p.length) (hds : S17.dataStart = acc.length) (hidx : S17.payloadIndex = 0)
    (hpsz : S17.payloadSize = p.length) (hkey : S17.maskKey = key) (hbody : copyPayload body key 0 = p)
    (u u' : Nat) (hu : S17.dataUtf8 = u)
    (hck : S17.dataType = 1 → checkUtf8 p u 0 = .ok u') (hnt : S17.dataType ≠ 1 → u' = u) :
    ∃ W : WS, W.hdr = S17.hdr ∧ W.step = 17 ∧ W.dataType = S17.dataType ∧ W.dataUtf8 = u' ∧
      W.dataBuf = bufOf (acc ++ p) ∧ W.dataSize = S17.dataSize ∧ W.dataStart + W.payloadIndex = acc.length + p.length ∧
      W.payloadSize = W.payloadIndex ∧ Cfg S17 W ∧ W.validity = S17.validity ∧ W.ctrlBuf = S17.ctrlBuf ∧
      W.ctrlUtf8 = S17.ctrlUtf8 ∧
      ∀ (r : R) (ws' : WS), payloadComplete false W = r → pcNext r = some ws' → ws'.step = 0 →
        Run S16 body (pcEvents r) (.more ws') := by
  have hbl : body.length = p.length := by rw [← hbody, copyPayload_length]
  have hq' : ∀ ws' : WS, ws'.step = 0 → sil ws' = 0 := by intro w h; unfold sil; rw [h]; simp
  by_cases hn0 : p.length = 0
  · -- empty payload: the silent trips complete the frame
    have hp : p = [] := List.length_eq_zero_iff.mp hn0
    have hb : body = [] := List.length_eq_zero_iff.mp (by omega)
    subst hp hb
    refine ⟨S17, rfl, hs17, rfl, ?_, ?_, rfl, by rw [hds, hidx]; simp, by rw [hpsz, hidx]; rfl, ⟨rfl, rfl, rfl⟩, rfl, rfl, rfl, ?_⟩
    · by_cases h1 : S17.dataType = 1
      · have := hck h1; simp only [checkUtf8] at this; injection this with this; rw [hu]; exact this
      · rw [hu]; exact (hnt h1).symm
    · rw [hbuf, List.append_nil]; exact grownBuf_zero acc
    · intro r ws' hpc hnx hst
      subst hpc
      have htail : tail false S16 0 = match payloadComplete false S17 with
          | .cont w _ => .ret w 0 0 none 0
          | .ret w st _ pl plen => .ret w st 0 pl plen
          | .fault s => .fault s := by
        unfold tail
        rw [if_pos hs16, hhc]
        simp only []
        unfold tailAfter
        rw [if_pos ⟨Or.inl hs17, by rw [hpsz, hidx]; rfl⟩]
        cases payloadComplete false S17 <;> rfl
      refine Run.done _ _ _ ?_
      revert hnx htail
      cases payloadComplete false S17 with
      | cont w k =>
        intro hnx htail
        simp only [pcNext] at hnx; injection hnx with hnx; subst hnx
        exact ⟨w, 0, 0, none, 0, htail, by simp [pcEvents, evOf], by simp⟩
      | ret w st k pl plen =>
        intro hnx htail
        simp only [pcNext] at hnx
        by_cases hneg : st < 0
        · rw [if_pos hneg] at hnx; cases hnx
        · rw [if_neg hneg] at hnx; injection hnx with hnx; subst hnx
          exact ⟨w, st, 0, pl, plen, htail, rfl, by rw [if_neg hneg]⟩
      | fault s => intro hnx; simp [pcNext] at hnx
  · -- payload bytes: one payload trip, then the completion
    have hne : body ≠ [] := by intro hb; rw [hb] at hbl; simp at hbl; omega
    have hit16 : iter false S16 body = .cont S17 0 := by
      cases hb : body with
      | nil => exact absurd hb hne
      | cons x r => rw [iter_step16 _ _ _ hs16, hhc]
    have hlen : 1 ≤ body.length := by omega
    have hok16 := iter_ok hi16 hv16 body hlen
    rw [hit16] at hok16
    obtain ⟨hi17, hv17, _, _⟩ := hok16
    have hk : p.length = min (S17.payloadSize - S17.payloadIndex) body.length := by
      rw [hpsz, hidx, hbl]; omega
    obtain ⟨buf, buf', hbuf', hw, hsp⟩ := (stepPayload_data_eq hi17 hs17 body p.length hk).2 hn0
    have hgb : grownBuf acc p.length = some (acc ++ List.replicate (p.length + 1) 0) := by
      unfold grownBuf; rw [if_neg (by omega)]
    rw [hbuf, hgb] at hbuf'; injection hbuf' with hbuf'; subst hbuf'
    have htake : body.take p.length = body := by rw [← hbl]; exact List.take_length
    have harg : copyPayload (body.take p.length) S17.maskKey (S17.payloadIndex % 4) = p := by
      rw [htake, hkey, hidx, Nat.zero_mod, hbody]
    rw [harg, hidx, hds] at hw
    simp only [Nat.add_zero] at hw
    rw [writeAt_acc] at hw
    injection hw with hw; subst hw
    have hcku : checkUtf8 p S17.dataUtf8 0 = checkUtf8 p u 0 := by rw [hu]
    rw [harg, hcku] at hsp
    -- the run, given the completion result of the state `w` the payload trip ends in
    have hrun : ∀ (w : WS), w.payloadSize = w.payloadIndex → iter false S17 body = payloadFinish false p.length w →
        ∀ (r : R) (ws' : WS), payloadComplete false w = r → pcNext r = some ws' → ws'.step = 0 →
          Run S16 body (pcEvents r) (.more ws') := by
      intro w hsz hit r ws' hpc hnx hst
      subst hpc
      unfold payloadFinish at hit
      rw [if_pos hsz] at hit
      have hdrop : body.drop p.length = [] := by rw [← hbl]; exact List.drop_length
      refine Run.cont S16 body S17 0 _ _ hne hit16 ?_
      rw [List.drop_zero]
      revert hnx hit
      cases payloadComplete false w with
      | cont w2 k =>
        intro hit hnx
        have hww : w2 = ws' := by simpa [pcNext] using hnx
        subst hww
        refine Run.cont S17 body w2 p.length _ _ hne hit ?_
        rw [hdrop]
        exact Run.done _ _ _ (settle_quiet (hq' _ hst))
      | ret w2 st k pl plen =>
        intro hit hnx
        simp only [pcNext] at hnx
        by_cases hneg : st < 0
        · rw [if_pos hneg] at hnx; cases hnx
        · rw [if_neg hneg] at hnx; injection hnx with hnx; subst hnx
          have := Run.emit S17 body w2 st p.length pl plen [] (.more w2) hne hit (by omega)
            (by rw [hdrop]; exact Run.done _ _ _ (settle_quiet (hq' _ hst)))
          rw [List.append_nil] at this
          exact this
      | fault s => intro _ hnx; simp [pcNext] at hnx
    by_cases h1 : S17.dataType = 1
    · rw [if_pos h1, hck h1] at hsp
      refine ⟨{ S17 with dataBuf := some (acc ++ p ++ [0]), payloadIndex := S17.payloadIndex + p.length, dataUtf8 := u' },
        rfl, hs17, rfl, rfl, ?_, rfl, ?_, ?_, ⟨rfl, rfl, rfl⟩, rfl, rfl, rfl, ?_⟩
      · unfold bufOf
        rw [if_neg (by intro hh; have := congrArg List.length hh; rw [List.length_append, List.length_nil] at this; omega)]
      · show S17.dataStart + (S17.payloadIndex + p.length) = _; rw [hds, hidx]; omega
      · show S17.payloadSize = S17.payloadIndex + p.length; rw [hpsz, hidx]; omega
      · exact hrun _ (by show S17.payloadSize = S17.payloadIndex + p.length; rw [hpsz, hidx]; omega)
          (by rw [iter_payload _ _ hne (Or.inl hs17)]; exact hsp)
    · rw [if_neg h1] at hsp
      refine ⟨{ S17 with dataBuf := some (acc ++ p ++ [0]), payloadIndex := S17.payloadIndex + p.length },
        rfl, hs17, rfl, ?_, ?_, rfl, ?_, ?_, ⟨rfl, rfl, rfl⟩, rfl, rfl, rfl, ?_⟩
      · show S17.dataUtf8 = u'; rw [hu, hnt h1]
      · unfold bufOf
        rw [if_neg (by intro hh; have := congrArg List.length hh; rw [List.length_append, List.length_nil] at this; omega)]
      · show S17.dataStart + (S17.payloadIndex + p.length) = _; rw [hds, hidx]; omega
      · show S17.payloadSize = S17.payloadIndex + p.length; rw [hpsz, hidx]; omega
      · exact hrun _ (by show S17.payloadSize = S17.payloadIndex + p.length; rw [hpsz, hidx]; omega)
          (by rw [iter_payload _ _ hne (Or.inl hs17)]; exact hsp)
end Mhd.WS
namespace Mhd.WS

/-- a live stream between two frames with the bytes `acc` of a message of type `t` assembled
    (`t = 0`: no message under assembly), UTF-8 validator in state `u`, validity `v` -/
structure Bnd (ws : WS) (t : Nat) (acc : List UInt8) (u v : Nat) : Prop where
  inv : Inv ws
  step : ws.step = 0
  val : ws.validity = v
  dtype : ws.dataType = t
  buf : ws.dataBuf = bufOf acc
  size : ws.dataSize = acc.length
  u8 : ws.dataUtf8 = u

/-- one data frame (first frame or continuation, any payload, any key) from a frame boundary
    up to `decode_payload_complete` -/
theorem data_frame_complete {ws : WS} {t : Nat} {acc : List UInt8} {u : Nat} (hb : Bnd ws t acc u 1)
    (b0 : UInt8) (hr : rsvBits b0 = 0) (t' : Nat)
    (hop : (opcodeOf b0 = 0 ∧ t ≠ 0 ∧ t' = t) ∨
           ((opcodeOf b0 = 1 ∨ opcodeOf b0 = 2) ∧ t = 0 ∧ acc = [] ∧ t' = opcodeOf b0))
    (p : List UInt8) (m1 m2 m3 m4 : UInt8) (masked : Bool) (hm : masked = !ws.isClient) (key : List UInt8)
    (hkey : key = if masked then [m1, m2, m3, m4] else [0, 0, 0, 0])
    (hn : acc.length + p.length < 2 ^ 63) (hmax : ws.maxPayload = 0 ∨ acc.length + p.length ≤ ws.maxPayload)
    (hal : acc.length + p.length + 1 ≤ ws.allocLimit)
    (u' : Nat) (hck : t' = 1 → checkUtf8 p u 0 = .ok u') (hnt : t' ≠ 1 → u' = u) :
    ∃ W : WS, W.hdr[0]? = some b0 ∧ W.step = 17 ∧ W.dataType = t' ∧ W.dataUtf8 = u' ∧
      W.dataBuf = bufOf (acc ++ p) ∧ W.dataSize = acc.length + p.length ∧
      W.dataStart + W.payloadIndex = acc.length + p.length ∧ W.payloadSize = W.payloadIndex ∧ Cfg ws W ∧
      W.validity = 1 ∧
      ∀ (r : R) (ws' : WS), payloadComplete false W = r → pcNext r = some ws' → ws'.step = 0 →
        Run ws (frameBytes masked b0 p.length key (copyPayload p key 0)) (pcEvents r) (.more ws') := by
  obtain ⟨h, hs, hv, hdt, hbuf, hsz, hu⟩ := hb
  have hl := h.hdrLen
  have hi0 : ws.payloadIndex = 0 := h.idx0 (by omega)
  have hctl : ctlBit b0 = false := by
    have : opcodeOf b0 ≤ 2 := by rcases hop with ⟨a, _⟩ | ⟨a | a, _⟩ <;> omega
    unfold opcodeOf at this
    unfold ctlBit
    simp only [decide_eq_false_iff_not]
    omega
  have hokop : OkOp b0 := by
    refine ⟨?_, fun h8 => ?_⟩
    · rcases hop with ⟨a, _⟩ | ⟨a | a, _⟩ <;> omega
    · rcases hop with ⟨a, _⟩ | ⟨a | a, _⟩ <;> omega
  have hdt12 : (opcodeOf b0 = 1 ∨ opcodeOf b0 = 2) → ws.dataType = 0 := by
    intro h12
    rcases hop with ⟨a, _⟩ | ⟨_, a, _⟩
    · omega
    · rw [hdt]; exact a
  -- the states
  have hi16 := phase16_inv h hs b0 (hdrTail masked p.length [m1, m2, m3, m4]) (hdrTail_length_le _ _ _ _ _ _)
    p.length key ws.validity hokop (by omega) hdt12
  have hopc : (opcodeOf b0 = 0 ∧ t' = ws.dataType) ∨ ((opcodeOf b0 = 1 ∨ opcodeOf b0 = 2) ∧ t' = opcodeOf b0 ∧ acc = []) := by
    rcases hop with ⟨a, _, c⟩ | ⟨a, _, c, d⟩
    · exact Or.inl ⟨a, by rw [hdt]; exact c⟩
    · exact Or.inr ⟨a, d, c⟩
  have hhc := headerComplete_data ws b0 (hdrTail masked p.length [m1, m2, m3, m4]) p.length key ws.validity acc t'
    hbuf hsz hopc hn hmax hal
  obtain ⟨W, w1, w2, w3, w4, w5, w6, w7, w8, w9, w10, _, _, hrun⟩ :=
    body_to_complete _ _ hi16 (by show ws.validity ≠ 0; omega) rfl hhc rfl acc p (copyPayload p key 0) key rfl rfl hi0 rfl rfl
      (copyPayload_involutive _ _ _) u u' hu hck hnt
  refine ⟨W, ?_, w2, w3, w4, w5, w6, w7, w8, ?_, ?_, ?_⟩
  · rw [w1]; exact phase_hdr0 ws b0 _ 16 p.length key ws.validity
  · obtain ⟨a, b, c⟩ := w9; exact ⟨a, b, c⟩
  · rw [w10]; exact hv
  · intro r ws' hpc hnx hst
    have hbody := hrun r ws' hpc hnx hst
    have hwire : frameBytes masked b0 p.length key (copyPayload p key 0) =
        b0 :: (hdrTail masked p.length [m1, m2, m3, m4] ++ copyPayload p key 0) := by
      unfold frameBytes hdrTail
      rw [hkey]
      cases masked <;> simp
    rw [hwire]
    have hstart : iter false ws (b0 :: (hdrTail masked p.length [m1, m2, m3, m4] ++ copyPayload p key 0)) =
        .cont (hdrPhase ws [b0] 1 ws.payloadSize ws.maskKey ws.validity) 1 := by
      rw [iter_step0 _ _ _ hs]
      conv => lhs; rw [phase_base h hs]
      rcases hop with ⟨a, b, _⟩ | ⟨a, b, _⟩
      · exact stepStart_cont ws ws.payloadSize ws.maskKey ws.validity b0 hl (by omega) (by omega) hr a (by rw [hdt]; exact b)
      · exact stepStart_data ws ws.payloadSize ws.maskKey ws.validity b0 hl (by omega) (by omega) hr a (by rw [hdt]; exact b)
    refine run_step hstart ?_
    apply header_run ws b0 p.length ws.payloadSize ws.maskKey ws.validity m1 m2 m3 m4 masked hm hl (by omega) (by omega)
      (by rw [hctl]; intro hh; cases hh) (by intro h8; rcases hop with ⟨a, _⟩ | ⟨a | a, _⟩ <;> omega)
      (by rcases hmax with a | a; exact Or.inl a; exact Or.inr (by omega))
    subst hkey
    exact hbody

end Mhd.WS
