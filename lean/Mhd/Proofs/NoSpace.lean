import Mhd.Model.NoSpace

namespace Mhd.NoSpace
open Mhd.Gen.ConnMem

theorem blame_in_set (opt uri m hl : Nat) :
    blame opt uri m hl = httpUriTooLong ∨ blame opt uri m hl = httpHeaderFieldsTooLarge ∨
    blame opt uri m hl = httpNotImplemented := by
  unfold blame
  repeat' split
  all_goals first
    | (left; rfl)
    | (right; left; rfl)
    | (right; right; rfl)

theorem blame_501_needs_method (opt uri hl : Nat) : blame opt uri 0 hl ≠ httpNotImplemented := by
  unfold blame
  intro h
  have hc : httpUriTooLong ≠ httpNotImplemented ∧ httpHeaderFieldsTooLarge ≠ httpNotImplemented := by decide
  by_cases c1 : maxReasonableHeaders < opt <;> by_cases c2 : opt > uri / 8 <;> by_cases c3 : maxReasonableTarget < uri <;>
    by_cases c4 : minReasonableHeaders < opt <;> by_cases c5 : opt * 4 > uri <;> by_cases c6 : minReasonableTarget < uri <;>
    by_cases c7 : (1 < opt ∨ 1 < uri) <;> by_cases c8 : opt ≥ uri <;> by_cases c9 : hl ≠ 0 <;>
    simp [c1, c2, c3, c4, c5, c6, c7, c8, c9, hc.1, hc.2] at h <;>
    (simp only [maxReasonableHeaders, maxReasonableTarget, minReasonableHeaders, minReasonableTarget, minReasonableMethod] at *; omega)

/-- every path of `get_no_space_err_status_code` returns one of the four "too large" codes -/
theorem status_in_set (i : Input) :
    status i = httpContentTooLarge ∨ status i = httpUriTooLong ∨
    status i = httpHeaderFieldsTooLarge ∨ status i = httpNotImplemented := by
  unfold status
  split
  · left; rfl
  · right; exact blame_in_set _ _ _ _

/-- 501 is only chosen for a non-standard request method -/
theorem not_implemented_only_for_other_method (i : Input) (h : status i = httpNotImplemented) :
    i.methodOther = true := by
  cases hm : i.methodOther with
  | true => rfl
  | false =>
    exfalso
    unfold status at h
    split at h
    · simp [httpContentTooLarge, httpNotImplemented] at h
    · simp only [hm, Bool.false_eq_true, if_false] at h
      exact blame_501_needs_method _ _ _ h

end Mhd.NoSpace
