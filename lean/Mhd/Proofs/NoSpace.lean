import Mhd.Model.NoSpace

namespace Mhd.NoSpace
open Mhd.Gen.ConnMem

theorem blame_in_set (opt uri m hl : Nat) :
    blame opt uri m hl = httpUriTooLong ∨ blame opt uri m hl = httpHeaderFieldsTooLarge ∨
    blame opt uri m hl = httpNotImplemented := by
  unfold blame
  repeat' split
  all_goals first
    | (left; rfl)
    | (right; left; rfl)
    | (right; right; rfl)

theorem blame_501_needs_method (opt uri hl : Nat) : blame opt uri 0 hl ≠ httpNotImplemented := by
  unfold blame
  intro h
  have hc : httpUriTooLong ≠ httpNotImplemented ∧ httpHeaderFieldsTooLarge ≠ httpNotImplemented := by decide
  by_cases c1 : maxReasonableHeaders < opt <;> by_cases c2 : opt > uri / 8 <;> by_cases c3 : maxReasonableTarget < uri <;>
    by_cases c4 : minReasonableHeaders < opt <;> by_cases c5 : opt * 4 > uri <;> by_cases c6 : minReasonableTarget < uri <;>
    by_cases c7 : (1 < opt ∨ 1 < uri) <;> by_cases c8 : opt ≥ uri <;> by_cases c9 : hl ≠ 0 <;>
    simp [c1, c2, c3, c4, c5, c6, c7, c8, c9, hc.1, hc.2] at h <;>
    (simp only [maxReasonableHeaders, maxReasonableTarget, minReasonableHeaders, minReasonableTarget, minReasonableMethod] at *; omega)

/-- every path of `get_no_space_err_status_code` returns one of the four "too large" codes -/
theorem status_in_set (i : Input) :
    status i = httpContentTooLarge ∨ status i = httpUriTooLong ∨
    status i = httpHeaderFieldsTooLarge ∨ status i = httpNotImplemented := by
  unfold status
  split
  · left; rfl
  · right; exact blame_in_set _ _ _ _

/-- 501 is only chosen for a non-standard request method -/
theorem not_implemented_only_for_other_method (i : Input) (h : status i = httpNotImplemented) :
    i.methodOther = true := by
  cases hm : i.methodOther with
  | true => rfl
  | false =>
    exfalso
    unfold status at h
    split at h
    · simp [httpContentTooLarge, httpNotImplemented] at h
    · simp only [hm, Bool.false_eq_true, if_false] at h
      exact blame_501_needs_method _ _ _ h

/-- which element a request with a *standard* method is told to shorten: the field lines (431) when
    they dominate the request target by the code's thresholds, otherwise the target (414) -/
def headersDominate (opt uri hl : Nat) : Bool :=
  if maxReasonableHeaders < opt then decide (opt > uri / 8)
  else if maxReasonableTarget < uri then false
  else if minReasonableHeaders < opt then decide (opt * 4 > uri)
  else if minReasonableTarget < uri then false
  else if 1 < opt ∨ 1 < uri then decide (opt ≥ uri)
  else decide (hl ≠ 0)

theorem blame_std_method (opt uri hl : Nat) :
    blame opt uri 0 hl = if headersDominate opt uri hl then httpHeaderFieldsTooLarge else httpUriTooLong := by
  unfold blame headersDominate
  by_cases c1 : maxReasonableHeaders < opt <;> by_cases c2 : opt > uri / 8 <;> by_cases c3 : maxReasonableTarget < uri <;>
    by_cases c4 : minReasonableHeaders < opt <;> by_cases c5 : opt * 4 > uri <;> by_cases c6 : minReasonableTarget < uri <;>
    by_cases c7 : (1 < opt ∨ 1 < uri) <;> by_cases c8 : opt ≥ uri <;> by_cases c9 : hl ≠ 0 <;>
    simp [c1, c2, c3, c4, c5, c6, c7, c8, c9] <;>
    (simp only [maxReasonableHeaders, maxReasonableTarget, minReasonableHeaders, minReasonableTarget] at *; omega)

/-- 413 is chosen exactly for an over-long chunk-size line -/
theorem status_413_iff (i : Input) :
    status i = httpContentTooLarge ↔ (i.stage = stageBodyChunked ∧ minReasonableChunkLine < i.addSize) := by
  unfold status
  constructor
  · intro h
    split at h
    · assumption
    · rcases blame_in_set (hostSplit i).2 i.uri (if i.methodOther then i.methodLen else 0) (hostSplit i).1 with e | e | e <;>
        rw [e] at h <;> simp [httpContentTooLarge, httpUriTooLong, httpHeaderFieldsTooLarge, httpNotImplemented] at h
  · intro h; rw [if_pos h]

/-- a request with a standard method: 413 for the chunk-size line, otherwise 431 / 414 by what dominates -/
theorem status_std_method (i : Input) (hm : i.methodOther = false) :
    status i = if i.stage = stageBodyChunked ∧ minReasonableChunkLine < i.addSize then httpContentTooLarge
               else if headersDominate (hostSplit i).2 i.uri (hostSplit i).1 then httpHeaderFieldsTooLarge
               else httpUriTooLong := by
  unfold status
  split
  · rfl
  · simp only [hm, Bool.false_eq_true, if_false]
    exact blame_std_method _ _ _

end Mhd.NoSpace
