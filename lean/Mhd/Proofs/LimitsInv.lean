/-
  C09 helper lemmas, part 2: every primitive of the admission / disposal logic
  preserves the accounting invariant `InvG`.
-/
import Mhd.Proofs.Limits

namespace Mhd.Limits


theorem InvG.congr {s s' : St} {pc pi : List Conn} (h : InvG s pc pi)
    (h1 : s'.cfg = s.cfg) (h2 : s'.connections = s.connections) (h3 : s'.ipCount = s.ipCount)
    (h4 : s'.newL = s.newL) (h5 : s'.active = s.active) (h6 : s'.susp = s.susp) (h7 : s'.cleanup = s.cleanup)
    (h8 : CountFaultFree s'.fault) : InvG s' pc pi := by
  refine ⟨?_, ?_, ?_, ?_, h8⟩
  · rw [h2, h5, h6, h7]; exact h.conns
  · rw [h2, h1]; exact h.le
  · intro a; have := h.ip a; simp only [tot] at this ⊢; rw [h3, h1, h4, h5, h6, h7]; exact this
  · intro a; rw [h3, h1]; exact h.ipLe a

/-! ### faults of the response table are never accounting faults -/

theorem cf_none : CountFaultFree none := by simp [CountFaultFree]

theorem cf_merge {a b : Option Fault} (ha : CountFaultFree a) (hb : CountFaultFree b) :
    CountFaultFree (mergeFault a b) := by
  unfold mergeFault; split <;> assumption

theorem release_cf (R : RespTab) (r : Nat) (h : CountFaultFree R.fault) : CountFaultFree (release R r).1.fault := by
  unfold release
  split
  · simp [CountFaultFree]
  · split
    · simp [CountFaultFree]
    · split
      · simp [CountFaultFree]
      · split <;> exact h

theorem releaseOpt_cf (R : RespTab) (o : Option Nat) (h : CountFaultFree R.fault) :
    CountFaultFree (releaseOpt R o).1.fault := by
  cases o with
  | none => exact h
  | some r => exact release_cf R r h

theorem acquire_cf (R R' : RespTab) (r : Nat) (h : CountFaultFree R.fault) (ha : acquire R r = some R') :
    CountFaultFree R'.fault := by
  unfold acquire at ha
  split at ha
  · split at ha
    · simp at ha; subst ha; exact h
    · simp at ha
  · simp at ha

theorem closeConn_cf (R : RespTab) (c : Conn) (h : CountFaultFree R.fault) :
    CountFaultFree (closeConn R c).1.fault := by
  unfold closeConn
  split
  · exact release_cf _ _ h
  · exact h

theorem closeConn_addr (R : RespTab) (c : Conn) : (closeConn R c).2.1.addr = c.addr ∧ (closeConn R c).2.1.id = c.id := by
  unfold closeConn
  split <;> simp





/-! ### new_connection_prepare_ -/

theorem prepare_none (s : St) (c a : Nat) (v : Bool) (h : Inv s) (hn : (prepare s c a v).2.1 = none) :
    Inv (prepare s c a v).1 := by
  unfold prepare at hn ⊢
  by_cases hl : s.connections = s.cfg.limit
  · simp only [hl, if_true]; exact h
  · simp only [hl, if_false] at hn ⊢
    have hok := ipAdd_ok s a [] [] h
    have hre := ipAdd_refused s a [] [] h
    generalize ipAdd s a = r at hn hok hre ⊢
    obtain ⟨s1, ok, e1⟩ := r
    cases ok with
    | false => simp only; exact hre rfl
    | true =>
      simp only at hn ⊢
      have h1 := hok rfl { id := c, addr := a } rfl
      by_cases hv : (!v) = true
      · simp only [hv, if_true]
        exact ipDel_pi s1 { id := c, addr := a } [] [] h1
      · simp only [hv] at hn ⊢
        by_cases hc : s1.armed = some .conn
        · simp only [hc, if_true]
          exact ipDel_pi _ { id := c, addr := a } [] [] (h1.congr rfl rfl rfl rfl rfl rfl rfl h1.cf)
        · simp only [hc, if_false] at hn ⊢
          by_cases ha : s1.armed = some .addr
          · simp only [ha, if_true]
            exact ipDel_pi _ { id := c, addr := a } [] [] (h1.congr rfl rfl rfl rfl rfl rfl rfl h1.cf)
          · simp [ha] at hn

theorem prepare_some (s : St) (c a : Nat) (v : Bool) (h : Inv s) (cn : Conn) (hs : (prepare s c a v).2.1 = some cn) :
    InvG (prepare s c a v).1 [] [cn] ∧ cn = { id := c, addr := a } := by
  unfold prepare at hs ⊢
  by_cases hl : s.connections = s.cfg.limit
  · simp [hl] at hs
  · simp only [hl, if_false] at hs ⊢
    have hok := ipAdd_ok s a [] [] h
    generalize ipAdd s a = r at hs hok ⊢
    obtain ⟨s1, ok, e1⟩ := r
    cases ok with
    | false => simp at hs
    | true =>
      simp only at hs ⊢
      have h1 := hok rfl { id := c, addr := a } rfl
      by_cases hv : (!v) = true
      · simp [hv] at hs
      · simp only [hv] at hs ⊢
        by_cases hc : s1.armed = some .conn
        · simp [hc] at hs
        · simp only [hc, if_false] at hs ⊢
          by_cases ha : s1.armed = some .addr
          · simp [ha] at hs
          · simp only [ha, if_false] at hs ⊢
            simp at hs
            subst hs
            exact ⟨h1, rfl⟩





theorem lateFail_fields (s : St) :
    (lateFail s).1.cfg = s.cfg ∧ (lateFail s).1.connections = s.connections ∧ (lateFail s).1.ipCount = s.ipCount ∧
    (lateFail s).1.newL = s.newL ∧ (lateFail s).1.active = s.active ∧ (lateFail s).1.susp = s.susp ∧
    (lateFail s).1.cleanup = s.cleanup ∧ (lateFail s).1.fault = s.fault ∧ (lateFail s).1.resps = s.resps ∧
    (lateFail s).1.nextId = s.nextId ∧ (lateFail s).1.resuming = s.resuming ∧ (lateFail s).1.shutdown = s.shutdown := by
  unfold lateFail
  split
  · split <;> simp
  · split
    · split <;> simp
    · simp

/-- moving a pending connection into `connections` -/
theorem InvG.insertActive {s : St} {cn : Conn} {pi : List Conn} (h : InvG s [] (cn :: pi))
    (hlt : s.connections < s.cfg.limit) :
    InvG { s with connections := s.connections + 1, active := cn :: s.active } [] pi := by
  refine ⟨?_, ?_, ?_, h.ipLe, h.cf⟩
  · have := h.conns; simp [allA] at this ⊢; omega
  · simp; omega
  · intro a; have := h.ip a
    by_cases hg : s.cfg.perIp = 0 ∨ a = 0
    · simp [hg] at this ⊢; exact this
    · simp [hg, tot] at this ⊢; omega

theorem process_inv (s : St) (cn : Conn) (pi : List Conn) (h : InvG s [] (cn :: pi)) :
    InvG (process s cn).1 [] pi := by
  unfold process
  by_cases hp : s.armed = some .pool
  · simp only [hp, if_true]
    exact ipDel_pi _ cn [] pi (h.congr rfl rfl rfl rfl rfl rfl rfl h.cf)
  · simp only [hp, if_false]
    by_cases hl : s.connections ≥ s.cfg.limit
    · simp only [hl, if_true]
      exact ipDel_pi _ cn [] pi h
    · simp only [hl, if_false]
      have hlt : s.connections < s.cfg.limit := by omega
      have h1 := h.insertActive hlt
      have hf := lateFail_fields { s with connections := s.connections + 1, active := cn :: s.active }
      generalize lateFail { s with connections := s.connections + 1, active := cn :: s.active } = r at hf ⊢
      obtain ⟨s2, fl, e⟩ := r
      simp only at hf
      obtain ⟨f1, f2, f3, f4, f5, f6, f7, f8, _⟩ := hf
      cases fl with
      | false =>
        simp only
        exact h1.congr f1 f2 f3 f4 f5 f6 f7 (by rw [f8]; exact h1.cf)
      | true =>
        simp only
        apply ipDel_pi _ cn [] pi
        refine h.congr ?_ ?_ ?_ ?_ ?_ ?_ ?_ ?_ <;> simp [f1, f2, f3, f4, f5, f6, f7, f8]
        exact h.cf

theorem processList_inv (l : List Conn) : ∀ (s : St) (pi : List Conn), InvG s [] (l ++ pi) →
    InvG (processList s l).1 [] pi := by
  induction l with
  | nil => intro s pi h; exact h
  | cons cn rest ih =>
    intro s pi h
    unfold processList
    have h1 := process_inv s cn (rest ++ pi) h
    generalize process s cn = r at h1 ⊢
    obtain ⟨s1, ok, e1⟩ := r
    simp only
    exact ih s1 pi h1

theorem processNew_inv (s : St) (h : Inv s) : Inv (processNew s).1 := by
  unfold processNew
  apply processList_inv
  refine ⟨?_, h.le, ?_, h.ipLe, h.cf⟩
  · have := h.conns; simpa using this
  · intro a; have := h.ip a; simp [tot] at this ⊢
    by_cases hg : s.cfg.perIp = 0 ∨ a = 0
    · simp [hg] at this ⊢; exact this
    · simp [hg] at this ⊢; omega

/-! ### MHD_cleanup_connections -/

theorem ipDel_conn (s : St) (a n : Nat) :
    ipDel { s with connections := n } a = { ipDel s a with connections := n } := by
  unfold ipDel
  split
  · rfl
  · split
    · rfl
    · split <;> rfl

theorem ipDel_cf_fault (s : St) (c : Conn) (pc pi : List Conn) (h : InvG s pc (c :: pi)) :
    CountFaultFree (ipDel s c.addr).fault := (ipDel_pi s c pc pi h).cf

theorem cleanupOne_inv (s : St) (c : Conn) (pc pi : List Conn) (h : InvG s (c :: pc) pi) :
    InvG (cleanupOne s c).1 pc pi := by
  have hpos : s.connections ≠ 0 := by have := h.conns; simp [allA] at this; omega
  -- the same state with the counter already decremented: `c` is then pending per address only
  have hA : InvG { s with connections := s.connections - 1 } pc (c :: pi) := by
    refine ⟨?_, ?_, ?_, h.ipLe, h.cf⟩
    · have := h.conns; simp [allA] at this ⊢; omega
    · have := h.le; simp; omega
    · intro a; have := h.ip a
      by_cases hg : s.cfg.perIp = 0 ∨ a = 0
      · simp [hg] at this ⊢; exact this
      · simp [hg, tot] at this ⊢; omega
  have hB := ipDel_pi _ c pc pi hA
  rw [ipDel_conn] at hB
  have hf := ipDel_fields s c.addr
  obtain ⟨f1, f2, f3, f4, f5, f6, f7, _⟩ := hf
  unfold cleanupOne
  simp only
  have hne : (ipDel s c.addr).connections ≠ 0 := by rw [f2]; exact hpos
  simp only [hne, if_false]
  refine hB.congr rfl ?_ rfl rfl rfl rfl rfl ?_
  · simp [f2]
  · simp only
    exact cf_merge hB.cf (releaseOpt_cf _ _ cf_none)

theorem cleanupList_inv (l : List Conn) : ∀ (s : St) (pc pi : List Conn), InvG s (l ++ pc) pi →
    InvG (cleanupList s l).1 pc pi := by
  induction l with
  | nil => intro s pc pi h; exact h
  | cons c rest ih =>
    intro s pc pi h
    unfold cleanupList
    have h1 := cleanupOne_inv s c (rest ++ pc) pi h
    generalize cleanupOne s c = r at h1 ⊢
    obtain ⟨s1, e1⟩ := r
    simp only
    exact ih s1 pc pi h1

theorem cleanupAll_inv (s : St) (h : Inv s) : Inv (cleanupAll s).1 := by
  unfold cleanupAll
  apply cleanupList_inv
  refine ⟨?_, h.le, ?_, h.ipLe, h.cf⟩
  · have := h.conns; simp at this ⊢; omega
  · intro a; have := h.ip a; simp [tot] at this ⊢
    by_cases hg : s.cfg.perIp = 0 ∨ a = 0
    · simp [hg] at this ⊢; exact this
    · simp [hg] at this ⊢; omega

/-- after MHD_cleanup_connections the cleanup list is empty (other lists untouched) -/
theorem cleanupList_lists (l : List Conn) : ∀ (s : St),
    (cleanupList s l).1.newL = s.newL ∧ (cleanupList s l).1.active = s.active ∧ (cleanupList s l).1.susp = s.susp ∧
    (cleanupList s l).1.cleanup = s.cleanup ∧ (cleanupList s l).1.cfg = s.cfg ∧ (cleanupList s l).1.nextId = s.nextId := by
  induction l with
  | nil => intro s; simp [cleanupList]
  | cons c rest ih =>
    intro s
    unfold cleanupList
    have hf := ipDel_fields s c.addr
    have : (cleanupOne s c).1.newL = s.newL ∧ (cleanupOne s c).1.active = s.active ∧ (cleanupOne s c).1.susp = s.susp ∧
        (cleanupOne s c).1.cleanup = s.cleanup ∧ (cleanupOne s c).1.cfg = s.cfg ∧ (cleanupOne s c).1.nextId = s.nextId := by
      unfold cleanupOne
      simp only
      split <;> simp [hf]
    generalize cleanupOne s c = r at this ⊢
    obtain ⟨s1, e1⟩ := r
    simp only at this ⊢
    have := ih s1
    simp_all


end Mhd.Limits
