/-
  `process_request_target` and bytes that arrive behind the request line: a successful run on
  `buf` is reproduced on `buf ++ e` (more received bytes), with the same result record and the
  result buffer extended by `e` — although the loop fuel of the model depends on the buffer
  size.  Lemmas per function: `strchr_ext`, `unescapePlus_ext`, `pctStrict_ext`,
  `pctLenient_ext`, `unescape_ext`, `plusUnescape_ext`, `argEntry_ext`, `parseArgs_ext`,
  `processRequestTarget_buffer_extension`.
-/
import Mhd.Proofs.ReqLinePost
import Mhd.Model.ReqTarget
set_option linter.unusedSimpArgs false
set_option linter.unusedVariables false
namespace Mhd.Req
namespace TGT

theorem size_ext_lt {buf : Bytes} {i : Nat} (e : Bytes) (h : i < buf.size) : i < (buf ++ e).size := by
  rw [Array.size_append]; omega

theorem strchr_ext (buf e : Bytes) (c : UInt8) : ∀ (fuel a : Nat) (r : Option Nat), strchr buf c fuel a = .ok r →
    ∀ fuel', fuel ≤ fuel' → strchr (buf ++ e) c fuel' a = .ok r := by
  intro fuel
  induction fuel with
  | zero => intro a r h; simp [strchr] at h
  | succ f ih =>
    intro a r h fuel' hf
    obtain ⟨f', rfl⟩ : ∃ f', fuel' = f' + 1 := ⟨fuel' - 1, by omega⟩
    unfold strchr at h ⊢
    cases hb : buf[a]? with
    | none => rw [hb] at h; cases h
    | some b =>
      rw [hb] at h; rw [get_some_ext e hb]
      dsimp only at h ⊢
      by_cases h1 : (b == c) = true
      · rw [if_pos h1] at h ⊢; exact h
      · rw [if_neg h1] at h ⊢
        by_cases h2 : (b == 0) = true
        · rw [if_pos h2] at h ⊢; exact h
        · rw [if_neg h2] at h ⊢
          exact ih _ _ h _ (by omega)

theorem unescapePlus_ext (e : Bytes) : ∀ (fuel : Nat) (buf : Bytes) (a : Nat) (b' : Bytes), unescapePlus buf fuel a = .ok b' →
    ∀ fuel', fuel ≤ fuel' → unescapePlus (buf ++ e) fuel' a = .ok (b' ++ e) := by
  intro fuel
  induction fuel with
  | zero => intro buf a b' h; simp [unescapePlus] at h
  | succ f ih =>
    intro buf a b' h fuel' hf
    obtain ⟨f', rfl⟩ : ∃ f', fuel' = f' + 1 := ⟨fuel' - 1, by omega⟩
    unfold unescapePlus at h ⊢
    cases hb : buf[a]? with
    | none => rw [hb] at h; cases h
    | some b =>
      have hlt := get_some_lt hb
      rw [hb] at h; rw [get_some_ext e hb]
      dsimp only at h ⊢
      by_cases h1 : (b == 0) = true
      · rw [if_pos h1] at h ⊢; injection h with h; rw [h]
      · rw [if_neg h1] at h ⊢
        by_cases h2 : (b == 43) = true
        · rw [if_pos h2] at h ⊢
          rw [set_ext _ _ _ _ hlt]
          exact ih _ _ _ h _ (by omega)
        · rw [if_neg h2] at h ⊢
          exact ih _ _ _ h _ (by omega)

/-- a terminal "write the NUL / fail" branch -/
theorem term_ext {buf e : Bytes} {i : Nat} {site : Nat} {n : Nat} {x : Bytes × Nat} {v : UInt8}
    (h : (if i < buf.size then (Except.ok (buf.setIfInBounds i v, n) : Except Fault (Bytes × Nat)) else .error (.write site i)) = .ok x) :
    (if i < (buf ++ e).size then (Except.ok ((buf ++ e).setIfInBounds i v, n) : Except Fault (Bytes × Nat)) else .error (.write site i))
      = .ok (x.1 ++ e, x.2) := by
  by_cases hi : i < buf.size
  · rw [if_pos hi] at h; rw [if_pos (size_ext_lt e hi), set_ext _ _ _ _ hi]
    injection h with h; rw [← h]
  · rw [if_neg hi] at h; cases h

theorem pctStrict_ext (e : Bytes) (a : Nat) : ∀ (fuel : Nat) (buf : Bytes) (r w : Nat) (x : Bytes × Nat),
    pctStrict buf a fuel r w = .ok x → ∀ fuel', fuel ≤ fuel' → pctStrict (buf ++ e) a fuel' r w = .ok (x.1 ++ e, x.2) := by
  intro fuel
  induction fuel with
  | zero => intro buf r w x h; simp [pctStrict] at h
  | succ f ih =>
    intro buf r w x h fuel' hf
    obtain ⟨f', rfl⟩ : ∃ f', fuel' = f' + 1 := ⟨fuel' - 1, by omega⟩
    unfold pctStrict at h ⊢
    dsimp only at h ⊢
    cases h0 : buf[a + r]? with
    | none => rw [h0] at h; cases h
    | some chr =>
      rw [h0] at h; rw [get_some_ext e h0]
      dsimp only at h ⊢
      by_cases c0 : (chr == 0) = true
      · rw [if_pos c0] at h ⊢; exact term_ext h
      · rw [if_neg c0] at h ⊢
        by_cases c1 : (chr == 37) = true
        · rw [if_pos c1] at h ⊢
          cases h1 : buf[a + r + 1]? with
          | none => rw [h1] at h; cases h
          | some d1 =>
            rw [h1] at h; rw [get_some_ext e h1]
            dsimp only at h ⊢
            by_cases c2 : (d1 == 0) = true
            · rw [if_pos c2] at h ⊢; exact term_ext h
            · rw [if_neg c2] at h ⊢
              cases h2 : buf[a + r + 2]? with
              | none => rw [h2] at h; cases h
              | some d2 =>
                rw [h2] at h; rw [get_some_ext e h2]
                dsimp only at h ⊢
                by_cases c3 : (d2 == 0) = true
                · rw [if_pos c3] at h ⊢; exact term_ext h
                · rw [if_neg c3] at h ⊢
                  cases x1 : xdigit d1 with
                  | none => rw [x1] at h; dsimp only at h ⊢; exact term_ext h
                  | some hh =>
                    cases x2 : xdigit d2 with
                    | none => rw [x1, x2] at h; dsimp only at h ⊢; exact term_ext h
                    | some ll =>
                      rw [x1, x2] at h
                      dsimp only at h ⊢
                      by_cases hw : a + w < buf.size
                      · rw [if_pos hw] at h; rw [if_pos (size_ext_lt e hw), set_ext _ _ _ _ hw]
                        exact ih _ _ _ _ h _ (by omega)
                      · rw [if_neg hw] at h; cases h
        · rw [if_neg c1] at h ⊢
          by_cases hw : a + w < buf.size
          · rw [if_pos hw] at h; rw [if_pos (size_ext_lt e hw), set_ext _ _ _ _ hw]
            exact ih _ _ _ _ h _ (by omega)
          · rw [if_neg hw] at h; cases h

theorem pctLenient_ext (e : Bytes) (a : Nat) : ∀ (fuel : Nat) (buf : Bytes) (r w : Nat) (x : Bytes × Nat),
    pctLenient buf a fuel r w = .ok x → ∀ fuel', fuel ≤ fuel' → pctLenient (buf ++ e) a fuel' r w = .ok (x.1 ++ e, x.2) := by
  intro fuel
  induction fuel with
  | zero => intro buf r w x h; simp [pctLenient] at h
  | succ f ih =>
    intro buf r w x h fuel' hf
    obtain ⟨f', rfl⟩ : ∃ f', fuel' = f' + 1 := ⟨fuel' - 1, by omega⟩
    unfold pctLenient at h ⊢
    cases h0 : buf[a + r]? with
    | none => rw [h0] at h; cases h
    | some chr =>
      rw [h0] at h; rw [get_some_ext e h0]
      dsimp only at h ⊢
      by_cases c0 : (chr == 0) = true
      · rw [if_pos c0] at h ⊢; exact term_ext h
      · rw [if_neg c0] at h ⊢
        by_cases c1 : (chr == 37) = true
        · rw [if_pos c1] at h ⊢
          cases h1 : buf[a + r + 1]? with
          | none => rw [h1] at h; cases h
          | some d1 =>
            rw [h1] at h; rw [get_some_ext e h1]
            dsimp only at h ⊢
            by_cases c2 : (d1 == 0) = true
            · rw [if_pos c2] at h ⊢
              by_cases hw : a + w + 1 < buf.size
              · rw [if_pos hw] at h; rw [if_pos (size_ext_lt e hw)]
                injection h with h; rw [← h]
                rw [set_ext _ _ _ _ (by omega), set_ext _ _ _ _ (by simp only [Array.size_setIfInBounds]; exact hw)]
              · rw [if_neg hw] at h; cases h
            · rw [if_neg c2] at h ⊢
              cases h2 : buf[a + r + 2]? with
              | none => rw [h2] at h; cases h
              | some d2 =>
                rw [h2] at h; rw [get_some_ext e h2]
                dsimp only at h ⊢
                by_cases c3 : (d2 == 0) = true
                · rw [if_pos c3] at h ⊢
                  by_cases hw : a + w + 2 < buf.size
                  · rw [if_pos hw] at h; rw [if_pos (size_ext_lt e hw)]
                    injection h with h; rw [← h]
                    rw [set_ext _ _ _ _ (by omega), set_ext _ _ _ _ (by simp only [Array.size_setIfInBounds]; omega),
                      set_ext _ _ _ _ (by simp only [Array.size_setIfInBounds]; exact hw)]
                  · rw [if_neg hw] at h; cases h
                · rw [if_neg c3] at h ⊢
                  cases x1 : xdigit d1 with
                  | none =>
                    rw [x1] at h; dsimp only at h ⊢
                    by_cases hw : a + w < buf.size
                    · rw [if_pos hw] at h; rw [if_pos (size_ext_lt e hw), set_ext _ _ _ _ hw]
                      exact ih _ _ _ _ h _ (by omega)
                    · rw [if_neg hw] at h; cases h
                  | some hh =>
                    cases x2 : xdigit d2 with
                    | none =>
                      rw [x1, x2] at h; dsimp only at h ⊢
                      by_cases hw : a + w < buf.size
                      · rw [if_pos hw] at h; rw [if_pos (size_ext_lt e hw), set_ext _ _ _ _ hw]
                        exact ih _ _ _ _ h _ (by omega)
                      · rw [if_neg hw] at h; cases h
                    | some ll =>
                      rw [x1, x2] at h; dsimp only at h ⊢
                      by_cases hw : a + w < buf.size
                      · rw [if_pos hw] at h; rw [if_pos (size_ext_lt e hw), set_ext _ _ _ _ hw]
                        exact ih _ _ _ _ h _ (by omega)
                      · rw [if_neg hw] at h; cases h
        · rw [if_neg c1] at h ⊢
          by_cases hw : a + w < buf.size
          · rw [if_pos hw] at h; rw [if_pos (size_ext_lt e hw), set_ext _ _ _ _ hw]
            exact ih _ _ _ _ h _ (by omega)
          · rw [if_neg hw] at h; cases h

theorem unescape_ext (strict : Bool) (buf e : Bytes) (a : Nat) (x : Bytes × Nat) (h : unescape strict buf a = .ok x) :
    unescape strict (buf ++ e) a = .ok (x.1 ++ e, x.2) := by
  unfold unescape at h ⊢
  have hs : buf.size - a + 1 ≤ (buf ++ e).size - a + 1 := by rw [Array.size_append]; omega
  cases strict with
  | true => exact pctStrict_ext e a _ _ _ _ _ h _ hs
  | false => exact pctLenient_ext e a _ _ _ _ _ h _ hs

theorem plusUnescape_ext (strict : Bool) (buf e : Bytes) (a : Nat) (x : Bytes × Nat) (h : plusUnescape strict buf a = .ok x) :
    plusUnescape strict (buf ++ e) a = .ok (x.1 ++ e, x.2) := by
  unfold plusUnescape at h ⊢
  have hs : buf.size - a + 1 ≤ (buf ++ e).size - a + 1 := by rw [Array.size_append]; omega
  cases h1 : unescapePlus buf (buf.size - a + 1) a with
  | error f => rw [h1] at h; cases h
  | ok b1 =>
    rw [h1] at h
    rw [unescapePlus_ext e _ _ _ _ h1 _ hs]
    exact unescape_ext strict b1 e a x h

theorem argEntry_ext (strict : Bool) (kind : Nat) (buf e : Bytes) (args : Nat) (eq : Option Nat) (x : Bytes × Elem)
    (h : argEntry strict kind buf args eq = .ok x) : argEntry strict kind (buf ++ e) args eq = .ok (x.1 ++ e, x.2) := by
  unfold argEntry at h ⊢
  cases eq with
  | none =>
    dsimp only at h ⊢
    cases h1 : plusUnescape strict buf args with
    | error f => rw [h1] at h; cases h
    | ok y =>
      rw [h1] at h
      rw [plusUnescape_ext strict buf e args y h1]
      simp only [bind, Except.bind, pure, Except.pure] at h ⊢
      injection h with h; rw [← h]
  | some q =>
    dsimp only at h ⊢
    by_cases hq : q < buf.size
    · rw [if_pos hq] at h; rw [if_pos (size_ext_lt e hq), set_ext _ _ _ _ hq]
      cases h1 : plusUnescape strict (buf.setIfInBounds q 0) args with
      | error f => rw [h1] at h; cases h
      | ok y =>
        rw [h1] at h
        rw [plusUnescape_ext strict _ e args y h1]
        simp only [bind, Except.bind, pure, Except.pure] at h ⊢
        cases h2 : plusUnescape strict y.1 (q + 1) with
        | error f => rw [h2] at h; cases h
        | ok z =>
          rw [h2] at h
          rw [plusUnescape_ext strict _ e (q + 1) z h2]
          dsimp only at h ⊢
          injection h with h; rw [← h]
    · rw [if_neg hq] at h; cases h

theorem parseArgs_ext (strict : Bool) (kind : Nat) (e : Bytes) : ∀ (fuel : Nat) (buf : Bytes) (args : Nat) (acc : List Elem)
    (x : Bytes × List Elem), parseArgs strict kind fuel buf args acc = .ok x →
    ∀ fuel', fuel ≤ fuel' → parseArgs strict kind fuel' (buf ++ e) args acc = .ok (x.1 ++ e, x.2) := by
  intro fuel
  induction fuel with
  | zero => intro buf args acc x h; simp [parseArgs] at h
  | succ f ih =>
    intro buf args acc x h fuel' hf
    obtain ⟨f', rfl⟩ : ∃ f', fuel' = f' + 1 := ⟨fuel' - 1, by omega⟩
    unfold parseArgs at h ⊢
    have hs : buf.size - args + 1 ≤ (buf ++ e).size - args + 1 := by rw [Array.size_append]; omega
    cases h0 : buf[args]? with
    | none => rw [h0] at h; cases h
    | some c0 =>
      rw [h0] at h; rw [get_some_ext e h0]
      dsimp only at h ⊢
      by_cases c : (c0 == 0) = true
      · rw [if_pos c] at h ⊢; injection h with h; rw [← h]
      · rw [if_neg c] at h ⊢
        cases he : strchr buf 61 (buf.size - args + 1) args with
        | error f => rw [he] at h; cases h
        | ok equals =>
          rw [he] at h; rw [strchr_ext buf e 61 _ _ _ he _ hs]
          simp only [bind, Except.bind] at h ⊢
          cases ha : strchr buf 38 (buf.size - args + 1) args with
          | error f => rw [ha] at h; cases h
          | ok amper =>
            rw [ha] at h; rw [strchr_ext buf e 38 _ _ _ ha _ hs]
            dsimp only at h ⊢
            cases amper with
            | none =>
              dsimp only at h ⊢
              cases h1 : argEntry strict kind buf args equals with
              | error f => rw [h1] at h; cases h
              | ok y =>
                rw [h1] at h; rw [argEntry_ext strict kind buf e args equals y h1]
                dsimp only at h ⊢
                injection h with h; rw [← h]
            | some am =>
              dsimp only at h ⊢
              by_cases hq : am < buf.size
              · rw [if_pos hq] at h; rw [if_pos (size_ext_lt e hq), set_ext _ _ _ _ hq]
                cases h1 : argEntry strict kind (buf.setIfInBounds am 0) args (eqWithin equals am) with
                | error f => rw [h1] at h; cases h
                | ok y =>
                  rw [h1] at h; rw [argEntry_ext strict kind _ e args _ y h1]
                  dsimp only at h ⊢
                  exact ih _ _ _ _ h _ (by omega)
              · rw [if_neg hq] at h; cases h

/-- **`process_request_target` commutes with bytes arriving behind the request line**: if it
    succeeds on the buffer `r.buf`, then on `r.buf ++ e` (the same request line, more received
    bytes behind it) it succeeds with the same record — same URL position and length, same
    element list (same slices), same raw target — and the result buffer is the old result
    buffer followed by `e` untouched. -/
theorem processRequestTarget_buffer_extension (strict : Bool) (r : ReqLine) (e : Bytes) (T : Target)
    (h : processRequestTarget strict r = .ok T) :
    processRequestTarget strict { r with buf := r.buf ++ e } = .ok { T with buf := T.buf ++ e } := by
  unfold processRequestTarget at h ⊢
  dsimp only at h ⊢
  cases hr : rdRange r.buf r.tgt r.tgtLen with
  | none => rw [hr] at h; cases h
  | some raw =>
    have hle : r.tgt + r.tgtLen ≤ r.buf.size := by
      unfold rdRange at hr
      by_cases hc : r.tgt + r.tgtLen ≤ r.buf.size
      · exact hc
      · rw [if_neg hc] at hr; cases hr
    rw [hr] at h; rw [rdRange_ext _ _ _ _ hle, hr]
    simp only [bind, Except.bind, pure, Except.pure] at h ⊢
    have hs : r.buf.size + 1 ≤ (r.buf ++ e).size + 1 := by rw [Array.size_append]; omega
    cases hq : r.qmark with
    | none =>
      rw [hq] at h
      dsimp only at h ⊢
      cases h2 : unescape strict r.buf r.tgt with
      | error f => rw [h2] at h; cases h
      | ok y =>
        rw [h2] at h; rw [unescape_ext strict _ e _ y h2]
        dsimp only at h ⊢
        injection h with h; rw [← h]
    | some q =>
      rw [hq] at h
      dsimp only at h ⊢
      by_cases hql : q < r.buf.size
      · rw [if_pos hql] at h; rw [if_pos (size_ext_lt e hql), set_ext _ _ _ _ hql]
        cases h1 : parseArgs strict Gen.Http.kindGetArgument (r.buf.size + 1) (r.buf.setIfInBounds q 0) (q + 1) [] with
        | error f => rw [h1] at h; cases h
        | ok z =>
          rw [h1] at h; rw [parseArgs_ext strict _ e _ _ _ _ z h1 _ hs]
          dsimp only at h ⊢
          cases h2 : unescape strict z.1 r.tgt with
          | error f => rw [h2] at h; cases h
          | ok y =>
            rw [h2] at h; rw [unescape_ext strict _ e _ y h2]
            dsimp only at h ⊢
            injection h with h; rw [← h]
      · rw [if_neg hql] at h; cases h

/-- the same for the outer `get_request_line` once the line is complete (`rlExtendR`: what the
    scanner's finished result looks like after more bytes arrived) -/
theorem getRequestLineOuter_buffer_extension (F : RLFlags) (strict : Bool) (pool : Nat) (r : ReqLine) (e : Bytes) (T : Target)
    (h : getRequestLineOuter F strict pool (.done (.ok r)) = .ok T) :
    getRequestLineOuter F strict pool (.done (rlExtendR (.ok r) e)) = .ok { T with buf := T.buf ++ e } := by
  simp only [getRequestLineOuter, rlExtendR] at h ⊢
  have hw : lineWspCheck F pool { r with buf := r.buf ++ e } = lineWspCheck F pool r := rfl
  rw [hw]
  cases hc : lineWspCheck F pool r with
  | some err => rw [hc] at h; cases h
  | none =>
    rw [hc] at h
    dsimp only at h ⊢
    cases hp : processRequestTarget strict r with
    | error f => rw [hp] at h; cases h
    | ok T' =>
      rw [hp] at h
      rw [processRequestTarget_buffer_extension strict r e T' hp]
      dsimp only at h ⊢
      injection h with h; rw [← h]

end TGT
end Mhd.Req
