/-
  C17 proofs: compositions of the model functions (round trips, in place =
  copying) derived from the per-function specifications.
-/
import Mhd.Proofs.StrHex
import Mhd.Proofs.StrQuote
import Mhd.Proofs.StrPct

namespace Mhd.Str

theorem pctStrict_length_le (s d : Bytes) (h : pctStrict s = some d) : d.length ≤ s.length := by
  induction s using pctStrict.induct generalizing d with
  | case1 => rw [pctStrict_nil] at h; injection h with h; subst h; simp
  | case2 a b rest hh l hb ha ih =>
    rw [pctStrict_pct, ha, hb] at h
    simp only [Option.map_eq_some_iff] at h
    obtain ⟨d', hd', rfl⟩ := h
    have := ih d' hd'; simp; omega
  | case3 a b rest hx =>
    rw [pctStrict_pct] at h
    split at h
    · rename_i h1 l1 ha hb; exact (hx _ _ ha hb).elim
    · simp at h
  | case4 t ht =>
    have : t.length < 2 := by
      match t, ht with
      | [], _ => simp
      | [_], _ => simp
      | a :: b :: r, ht => exact absurd rfl (ht a b r)
    rw [pctStrict_pct_short t this] at h; simp at h
  | case5 c t hc ih =>
    rw [pctStrict_cons_ne c t hc] at h
    simp only [Option.map_eq_some_iff] at h
    obtain ⟨d', hd', rfl⟩ := h
    have := ih d' hd'; simp; omega

theorem pctLenient_length_le : ∀ (n : Nat) (s : Bytes), s.length ≤ n → (pctLenient s).1.length ≤ s.length := by
  intro n
  induction n with
  | zero =>
    intro s hs
    have : s = [] := List.eq_nil_of_length_eq_zero (by omega)
    subst this; rw [pctLenient_nil]; simp
  | succ n ih =>
    intro s hs
    match s with
    | [] => rw [pctLenient_nil]; simp
    | c :: t =>
      have iht := ih t (by simp at hs; omega)
      by_cases hc : c = 0x25
      · subst hc
        match t with
        | [] => rw [pctLenient_pct_short [] (by simp), pctLenient_nil]; simp
        | [x] =>
          rw [pctLenient_pct_short [x] (by simp)]
          simp only [List.length_cons] at iht ⊢; omega
        | a :: b :: rest =>
          rcases toxdigit_cases a with ⟨vh, hxh, _, _⟩ | ⟨hxh, _⟩
          · rcases toxdigit_cases b with ⟨vl, hxl, _, _⟩ | ⟨hxl, _⟩
            · rw [pctLenient_pct_ok a b rest vh vl hxh hxl]
              have := ih rest (by simp at hs; omega)
              simp only [List.length_cons]; omega
            · rw [pctLenient_pct_bad a b rest (Or.inr hxl)]
              simp only [List.length_cons] at iht ⊢; omega
          · rw [pctLenient_pct_bad a b rest (Or.inl hxh)]
            simp only [List.length_cons] at iht ⊢; omega
      · rw [pctLenient_cons_ne c t hc]
        simp only [List.length_cons]; omega

/-- strict decoding in place gives the same return value and the same bytes as
    strict decoding into a separate buffer that is at least as long as the input -/
theorem inPlaceStrict_eq_copying (c tail out : Bytes) (hz : ∀ x ∈ c, x ≠ 0) (hsz : c.length ≤ out.length) :
    ∃ n b o, pctDecodeInPlaceStrict (c ++ 0 :: tail) = .ok (n, b) ∧ pctDecodeStrictN c out = .ok (n, o) ∧
      b.take n = o.take n := by
  obtain ⟨⟨n, b⟩, hr, hl, hp⟩ := pctDecodeInPlaceStrict_spec c tail hz
  obtain ⟨n', o, hr', hl', hp'⟩ := pctDecodeStrictN_spec c out
  cases hs : pctStrict c with
  | none =>
    rw [hs] at hp hp'
    simp only [Option.filter] at hp'
    simp only at hp
    refine ⟨n, b, o, hr, ?_, ?_⟩
    · rw [hr', hp', hp.1]
    · rw [hp.1]; simp
  | some d =>
    rw [hs] at hp hp'
    have hfit : fitsIn out.length d = true := by
      have := pctStrict_length_le c d hs
      simp [fitsIn]; omega
    simp only [Option.filter, hfit, if_true] at hp'
    simp only at hp
    refine ⟨n, b, o, hr, ?_, ?_⟩
    · rw [hr', hp'.1, hp.1]
    · rw [hp.2.1]
      have : n = n' := by rw [hp.1, hp'.1]
      rw [this, hp'.2]

/-- the same for the lenient decoders, including the `broken_encoding` flag -/
theorem inPlaceLenient_eq_copying (c tail out : Bytes) (hz : ∀ x ∈ c, x ≠ 0) (hsz : c.length ≤ out.length) :
    ∃ n b o br, pctDecodeInPlaceLenient (c ++ 0 :: tail) = .ok (n, b, br) ∧
      pctDecodeLenientN c out = .ok (n, o, br) ∧ b.take n = o.take n := by
  obtain ⟨⟨n, b, br⟩, hr, hl, hn, ht, _, hb⟩ := pctDecodeInPlaceLenient_spec c tail hz
  obtain ⟨⟨n', o, br'⟩, hr', hl', hp'⟩ := pctDecodeLenientN_spec c out
  have hfit : (pctLenient c).1.length ≤ out.length := by
    have := pctLenient_length_le c.length c (Nat.le_refl _); omega
  simp only [hfit, if_true] at hp'
  simp only at hn ht hb
  refine ⟨n, b, o, br, hr, ?_, ?_⟩
  · rw [hr', hp'.1, hp'.2.2, hn, hb]
  · rw [ht]
    have : n = n' := by rw [hn, hp'.1]
    rw [this, hp'.2.1]

/-- `MHD_hex_to_bin ∘ MHD_bin_to_hex = id` on the model functions -/
theorem hexToBin_binToHex (b out1 out2 : Bytes) (h1 : 2 * b.length ≤ out1.length) (h2 : b.length ≤ out2.length) :
    ∃ n o n' o', binToHex b out1 = .ok (n, o) ∧ n = 2 * b.length ∧
      hexToBin (o.take n) out2 = .ok (n', o') ∧ n' = b.length ∧ o'.take n' = b := by
  obtain ⟨n, o, hr, _, hn, ht⟩ := binToHex_spec b out1 h1
  have hlen : (hexSpec b).length = 2 * b.length := hexSpec_length b
  obtain ⟨n', o', hr', _, hp'⟩ := hexToBin_spec (hexSpec b) out2 (by rw [hlen]; omega)
  rw [hexToBin_hexSpec] at hp'
  simp only at hp'
  exact ⟨n, o, n', o', hr, by rw [hn, hlen], by rw [ht]; exact hr', hp'.1, hp'.2⟩

/-- `MHD_str_unquote ∘ MHD_str_quote = id` on the model functions whenever the
    quoted form fits into the first buffer -/
theorem unquote_quote_model (u out1 out2 : Bytes) (hu : u.length < 2 ^ 63)
    (h1 : (quoteSpec u).length ≤ out1.length) (h2 : (quoteSpec u).length ≤ out2.length) :
    ∃ n o n' o', quote u out1 = .ok (n, o) ∧ n = (quoteSpec u).length ∧
      unquote (o.take n) out2 = .ok (n', o') ∧ n' = u.length ∧ o'.take n' = u := by
  obtain ⟨n, o, hr, _, hp⟩ := quote_spec u out1 hu
  simp only [h1, if_true] at hp
  obtain ⟨n', o', hr', _, hp'⟩ := unquote_spec (quoteSpec u) out2 h2
  rw [unquote_quote] at hp'
  simp only at hp'
  exact ⟨n, o, n', o', hr, hp.1, by rw [hp.2]; exact hr', hp'.1, hp'.2⟩

end Mhd.Str
