/-
  C06 — proofs, part 10: the laws of the abstract per-connection step hold for C05's state machine
  (Mhd.Model.LoopConnSM.connsmOps).  First half: what MHD_connection_handle_idle of Mhd.Model.ConnSM leaves behind.
-/
import Mhd.Proofs.ConnSMFuel
import Mhd.Model.LoopConnSM
import Mhd.Proofs.LoopProgress
namespace Mhd.ConnSM
open Mhd.Gen.ConnState Mhd.Protocol
variable {σ : Type}

def ReadState (s : CState) : Prop := s = .init ∨ s = .reqLineReceiving ∨ s = .reqHeadersReceiving ∨ s = .footersReceiving

/-- no complete element is left unexamined in the read buffer of a connection that waits for the client -/
def Examined (c : Conn σ) : Prop := ReadState c.state → dropJunk c.buf = []

theorem idleCase_stop (cfg : Cfg) (app : App σ) (env : IdleEnv) (c c1 : Conn σ) (l : List LEv)
    (h : idleCase cfg app env c = (c1, l, .stop)) : Examined c1 := by
  unfold idleCase at h
  split at h
  all_goals rename_i hst
  all_goals repeat' (split at h)
  all_goals try (simp only [Prod.mk.injEq, reduceCtorEq, and_false] at h; done)
  all_goals (
    simp only [Prod.mk.injEq, and_true] at h
    obtain ⟨rfl, -⟩ := h
    intro hr
    first
    | (simp [ReadState, hst] at hr; done)
    | (simp_all [ReadState]; done)
    | (rename_i hq; have hcs : _ = CState.closed := closeError_state c; rw [hq] at hcs; simp only [] at hcs; rcases hr with e | e | e | e <;> rw [hcs] at e <;> cases e))


theorem idleCase_dead (cfg : Cfg) (app : App σ) (env : IdleEnv) (c c1 : Conn σ) (l : List LEv)
    (h : idleCase cfg app env c = (c1, l, .dead)) : c1.inCleanup = true := by
  unfold idleCase at h
  split at h
  all_goals rename_i hst
  all_goals repeat' (split at h)
  all_goals try (simp only [Prod.mk.injEq, reduceCtorEq, and_false] at h; done)
  all_goals (
    rename_i hq
    simp only [Prod.mk.injEq, and_true] at h
    obtain ⟨rfl, -⟩ := h
    unfold cleanupConnection at hq
    split at hq
    · simp only [Prod.mk.injEq] at hq; obtain ⟨rfl, -⟩ := hq; assumption
    · simp only [Prod.mk.injEq] at hq; obtain ⟨rfl, -⟩ := hq; simp [dropResp]; split <;> rfl)

theorem idleCase_keep (cfg : Cfg) (app : App σ) (env : IdleEnv) (c c1 : Conn σ) (l : List LEv)
    (h : idleCase cfg app env c = (c1, l, .keep)) : c1.state = .upgrade := by
  unfold idleCase at h
  split at h
  all_goals rename_i hst
  all_goals repeat' (split at h)
  all_goals try (simp only [Prod.mk.injEq, reduceCtorEq, and_false] at h; done)
  all_goals (
    simp only [Prod.mk.injEq, and_true] at h
    obtain ⟨rfl, -⟩ := h
    exact hst)

/-- what the `while` loop of MHD_connection_handle_idle leaves behind -/
theorem idleLoop_post (cfg : Cfg) (app : App σ) (env : IdleEnv) :
    ∀ (n : Nat) (c c1 : Conn σ) (l : List LEv) (f : Flow), idleLoop cfg app env n c = (c1, l, f) →
      (f = .stop → c1.suspended = true ∨ c1.fault = true ∨ Examined c1) ∧
      (f = .dead → c1.inCleanup = true) ∧ (f = .keep → c1.state = .upgrade) ∧ f ≠ .again := by
  intro n
  induction n with
  | zero =>
    intro c c1 l f h
    simp only [idleLoop, Prod.mk.injEq] at h
    obtain ⟨rfl, -, rfl⟩ := h
    exact ⟨fun _ => Or.inr (Or.inl rfl), nofun, nofun, (by decide)⟩
  | succ n ih =>
    intro c c1 l f h
    simp only [idleLoop] at h
    by_cases hs : c.suspended = true
    · simp only [if_pos hs, Prod.mk.injEq] at h
      obtain ⟨rfl, -, rfl⟩ := h
      exact ⟨fun _ => Or.inl hs, nofun, nofun, (by decide)⟩
    · simp only [if_neg hs] at h
      generalize hce : idleCase cfg app env c = rr at h
      obtain ⟨c2, l2, f2⟩ := rr
      cases f2 with
      | again =>
        simp only at h
        generalize hlo : idleLoop cfg app env n c2 = r3 at h
        obtain ⟨c3, l3, f3⟩ := r3
        simp only [Prod.mk.injEq] at h
        obtain ⟨rfl, -, rfl⟩ := h
        exact ih c2 c3 l3 f3 hlo
      | stop =>
        simp only [Prod.mk.injEq] at h
        obtain ⟨rfl, -, rfl⟩ := h
        exact ⟨fun _ => Or.inr (Or.inr (idleCase_stop cfg app env c c2 l2 hce)), nofun, nofun, (by decide)⟩
      | dead =>
        simp only [Prod.mk.injEq] at h
        obtain ⟨rfl, -, rfl⟩ := h
        exact ⟨nofun, fun _ => idleCase_dead cfg app env c c2 l2 hce, nofun, (by decide)⟩
      | keep =>
        simp only [Prod.mk.injEq] at h
        obtain ⟨rfl, -, rfl⟩ := h
        exact ⟨nofun, nofun, fun _ => idleCase_keep cfg app env c c2 l2 hce, (by decide)⟩

theorem cleanupConnection_inCleanup (c : Conn σ) : (cleanupConnection c).1.inCleanup = true := by
  unfold cleanupConnection
  split
  · assumption
  · simp [dropResp]; split <;> rfl

theorem not_read_closed : ¬ ReadState CState.closed := by simp [ReadState]
theorem not_read_headersSending : ¬ ReadState CState.headersSending := by simp [ReadState]

theorem transmitError_notRead (cfg : Cfg) (env : IdleEnv) (c : Conn σ) :
    ¬ ReadState (transmitError cfg env c).1.state := by
  unfold transmitError
  split
  · rename_i hsw
    simp only
    split
    · exact not_read_closed
    · rename_i hlt
      intro hr
      apply hlt
      rcases hr with e | e | e | e <;> rw [e] <;> decide
  · simp only
    split
    · rw [closeError_state]; exact not_read_closed
    · split
      · split
        · simp [closeError_state, ReadState]
        · simp [ReadState]
      · split
        · simp [closeError_state, ReadState]
        · split
          · split
            · simp [closeError_state, ReadState]
            · simp [ReadState]
          · simp [ReadState]

theorem recvNoSpace_notRead (cfg : Cfg) (env : IdleEnv) (c : Conn σ) (hw : wantsRead c = true) :
    ¬ ReadState (recvNoSpace cfg env c).1.state := by
  unfold recvNoSpace
  split
  · rw [closeError_state]; exact not_read_closed
  · exact transmitError_notRead cfg env c
  · exact transmitError_notRead cfg env c
  · split
    · unfold chunkSizeLineNoSpace
      split
      · have h1 := transmitError_notRead cfg env c
        generalize transmitError cfg env c = r1 at h1
        obtain ⟨c2, l2⟩ := r1
        simp only
        split
        · exact h1
        · exact transmitError_notRead cfg env c2
      · exact transmitError_notRead cfg env c
    · exact transmitError_notRead cfg env c
  · exact transmitError_notRead cfg env c
  · rename_i h1 h2 h3 h4 h5
    unfold wantsRead at hw
    split at hw <;> simp_all

/-- what MHD_connection_handle_idle leaves behind -/
theorem handleIdleWith_post (n : Nat) (cfg : Cfg) (app : App σ) (env : IdleEnv) (c : Conn σ) :
    ((handleIdleWith n cfg app env c).1.inCleanup = true ∨ (handleIdleWith n cfg app env c).1.suspended = true ∨
      (handleIdleWith n cfg app env c).1.fault = true ∨ Examined (handleIdleWith n cfg app env c).1) ∧
    (env.timedOut = false → (handleIdleWith n cfg app env c).1.state = .closed → (handleIdleWith n cfg app env c).1.inCleanup = true) := by
  unfold handleIdleWith
  generalize hlo : idleLoop cfg app env n { c with touched := false } = r
  obtain ⟨c1, l1, f⟩ := r
  have P := idleLoop_post cfg app env n _ c1 l1 f hlo
  have hex : ∀ x : Conn σ, ¬ ReadState x.state → Examined x := fun x hx hr => absurd hr hx
  -- the part after the time-out test, for a loop that ended with `break`
  have tail : ∀ (hstop : c1.suspended = true ∨ c1.fault = true ∨ Examined c1),
      let r := (let (c2, l2) := updateEventLoopInfo cfg env c1
                if c2.state = .closed then
                  let (c3, l3) := cleanupConnection c2
                  (c3, l1 ++ l2 ++ l3)
                else if ¬ c2.suspended ∧ cfg.epoll then
                  let (c3, l3) := epollUpdate cfg env c2
                  (c3, l1 ++ l2 ++ l3)
                else (c2, l1 ++ l2) : Out σ)
      (r.1.inCleanup = true ∨ r.1.suspended = true ∨ r.1.fault = true ∨ Examined r.1) ∧ (r.1.state = .closed → r.1.inCleanup = true) := by
    intro hstop
    have hu : (updateEventLoopInfo cfg env c1).1.suspended = true ∨ (updateEventLoopInfo cfg env c1).1.fault = true ∨
        Examined (updateEventLoopInfo cfg env c1).1 := by
      unfold updateEventLoopInfo
      split
      · left; assumption
      · split
        · rename_i hc
          right; right
          exact hex _ (recvNoSpace_notRead cfg env c1 (by simpa using hc.2.1))
        · rcases hstop with h | h | h
          · left; exact h
          · right; left; exact h
          · right; right; exact h
    generalize updateEventLoopInfo cfg env c1 = r2 at hu
    obtain ⟨c2, l2⟩ := r2
    simp only at hu ⊢
    split
    · rename_i hcl
      exact ⟨Or.inl (cleanupConnection_inCleanup c2), fun _ => cleanupConnection_inCleanup c2⟩
    · rename_i hncl
      split
      · unfold epollUpdate
        split
        · exact ⟨by rcases hu with h | h | h <;> simp [h], fun h => absurd h hncl⟩
        · split
          · exact ⟨by rcases hu with h | h | h <;> simp [h], fun h => absurd h hncl⟩
          · refine ⟨?_, fun h => absurd h hncl⟩
            rcases hu with h | h | h
            · right; left; exact h
            · right; right; left; exact h
            · right; right; right; exact h
          · split
            · simp only
              exact ⟨Or.inl (cleanupConnection_inCleanup _), fun _ => cleanupConnection_inCleanup _⟩
            · simp only
              exact ⟨Or.inl (cleanupConnection_inCleanup _), fun _ => cleanupConnection_inCleanup _⟩
      · exact ⟨by rcases hu with h | h | h <;> simp [h], fun h => absurd h hncl⟩
  cases f with
  | again => exact absurd rfl P.2.2.2
  | dead => exact ⟨Or.inl (P.2.1 rfl), fun _ _ => P.2.1 rfl⟩
  | keep =>
    have := P.2.2.1 rfl
    refine ⟨Or.inr (Or.inr (Or.inr (hex _ (by simp only []; rw [this]; simp [ReadState])))), fun _ h => ?_⟩
    simp only [] at h; rw [this] at h; cases h
  | stop =>
    simp only
    split
    · rename_i hto
      refine ⟨Or.inr (Or.inr (Or.inr (hex _ (by rw [closeConn_state]; exact not_read_closed)))), fun h => ?_⟩
      rw [hto.1] at h; cases h
    · have T := tail (P.1 rfl)
      exact ⟨T.1, fun _ => T.2⟩

end Mhd.ConnSM

namespace Mhd.Loop
open Mhd.Gen.Loop Mhd.Gen.ConnState Mhd.ConnSM
variable {σ : Type}

/-- in sync: an examined connection with pending work is in a PROCESS wait class -/
theorem needsSM_sync (c : SMConn σ) (hex : Examined c) (hn : needsSM c = true) :
    (eliOfSM (eventLoopInfo c)).hasProcess = true := by
  unfold needsSM at hn
  unfold eventLoopInfo
  cases hst : c.state <;> simp only [hst, Bool.and_eq_true, Bool.not_eq_true'] at hn ⊢
  all_goals first
    | rfl
    | (exfalso; have := hex (by simp [ReadState, hst]); rw [this] at hn; simp at hn; done)
    | (simp at hn; done)
    | skip
  rw [if_pos ⟨hn.2.1, hn.2.2⟩]
  split
  · split <;> rfl
  · rfl

theorem toNat_closed_eq : CState.closed.toNat = stClosed := rfl

theorem toNat_eq_closed (s : CState) (h : s.toNat = stClosed) : s = .closed := by
  cases s <;> first | rfl | (exfalso; revert h; decide)

theorem idleLoop_closed (cfg : Cfg) (app : App σ) (env : IdleEnv) (n : Nat) (c : SMConn σ) (hs : c.suspended = false)
    (hc : c.state = .closed) :
    idleLoop cfg app env (n + 1) c = ((cleanupConnection c).1, (cleanupConnection c).2, .dead) := by
  have hcase : idleCase cfg app env c = ((cleanupConnection c).1, (cleanupConnection c).2, .dead) := by
    unfold idleCase
    simp only [hc]
  rw [idleLoop, if_neg (by rw [hs]; simp), hcase]

/-- handle_idle on a closed connection that is not suspended moves it to the cleanup list -/
theorem handleIdle_closed (cfg : Cfg) (app : App σ) (env : IdleEnv) (c : SMConn σ) (hs : c.suspended = false)
    (hc : c.state = .closed) : (handleIdle cfg app env c).1.inCleanup = true := by
  unfold handleIdle handleIdleWith idleFuel
  obtain ⟨m, hm⟩ : ∃ m, 50 * (c.buf.length + 1) = m + 1 := ⟨50 * (c.buf.length + 1) - 1, by omega⟩
  rw [hm, idleLoop_closed cfg app env m { c with touched := false } hs hc]
  exact cleanupConnection_inCleanup _

theorem handleRead_recvErr_closed (c : SMConn σ) (hs : c.suspended = false) :
    (handleRead c (.recvErr false)).1.state = .closed := by
  unfold handleRead
  simp only []
  split
  · rename_i h
    rcases h with h | h
    · exact h
    · rw [hs] at h; cases h
  · simp only [Bool.false_eq_true, if_false]
    exact closeError_state c

section
variable (S : SMScript σ)

theorem connsm_laws : Laws (connsmOps S) connsmNeeds where
  idle_where := by
    intro id k wh l h
    simp only [connsmOps, if_pos h]
    exact h
  read_force := by
    intro id k l
    simp only [connsmOps, if_true, viewIO]
    rw [handleRead_recvErr_closed _ rfl]; rfl
  idle_closed := by
    intro id k l h
    simp only [connsmOps, ne_eq, not_true, if_false]
    by_cases hc : l.w.state = .closed
    · rw [if_neg (fun hh => hh.2 hc)]
      have hk := handleIdle_closed S.cfg S.app (S.idleEnv id k) { l.w with suspended := false } rfl hc
      simp only [whOfSM, hk, if_true]
    · rw [if_pos ⟨h, hc⟩]
  idle_sync := by
    intro id k wh l hact hn
    by_cases hw : wh = .active
    · subst hw
      simp only [connsmOps, ne_eq, not_true, if_false] at hact hn ⊢
      by_cases hg : l.st = stClosed ∧ l.w.state ≠ .closed
      · rw [if_pos hg] at hact; cases hact
      · rw [if_neg hg] at hact hn ⊢
        simp only [] at hact hn ⊢
        generalize hc' : (handleIdle S.cfg S.app (S.idleEnv id k) { l.w with suspended := false }).1 = c' at hact hn ⊢
        have P := (handleIdleWith_post (idleFuel { l.w with suspended := false }) S.cfg S.app (S.idleEnv id k) { l.w with suspended := false }).1
        rw [show handleIdleWith (idleFuel { l.w with suspended := false }) S.cfg S.app (S.idleEnv id k) { l.w with suspended := false } =
          handleIdle S.cfg S.app (S.idleEnv id k) { l.w with suspended := false } from rfl, hc'] at P
        unfold whOfSM at hact
        have hnc : c'.inCleanup = false := by
          cases h : c'.inCleanup with
          | false => rfl
          | true => rw [h] at hact; cases hact
        have hns : c'.suspended = false := by
          cases h : c'.suspended with
          | false => rfl
          | true => rw [hnc, h] at hact; cases hact
        have hnd : needsSM c' = true := hn
        have hnf : c'.fault = false := by
          unfold needsSM at hnd
          cases h : c'.fault with
          | false => rfl
          | true => rw [h] at hnd; simp at hnd
        have hex : Examined c' := by
          rcases P with h | h | h | h
          · rw [hnc] at h; cases h
          · rw [hns] at h; cases h
          · rw [hnf] at h; cases h
          · exact h
        show (viewIdle l c').eli.hasProcess = true
        simp only [viewIdle, hns, Bool.false_eq_true, if_false]
        exact needsSM_sync c' hex hnd
    · simp only [connsmOps, if_pos hw] at hact
      exact absurd hact hw

/-- the shape every law about an idle call on an active connection reduces to -/
theorem connsm_idle_active (id : CId) (k : Nat) (l : Local (SMConn σ))
    (hact : ((connsmOps S).idle id k .active l).2 = .active) :
    ∃ c', c' = (handleIdle S.cfg S.app (S.idleEnv id k) { l.w with suspended := false }).1 ∧
      ((connsmOps S).idle id k .active l).1 = viewIdle l c' ∧ c'.inCleanup = false ∧ c'.suspended = false := by
  simp only [connsmOps, ne_eq, not_true, if_false] at hact ⊢
  by_cases hg : l.st = stClosed ∧ l.w.state ≠ .closed
  · rw [if_pos hg] at hact; cases hact
  · rw [if_neg hg] at hact ⊢
    simp only [] at hact ⊢
    refine ⟨_, rfl, rfl, ?_⟩
    generalize (handleIdle S.cfg S.app (S.idleEnv id k) { l.w with suspended := false }).1 = c' at hact ⊢
    unfold whOfSM at hact
    have hnc : c'.inCleanup = false := by
      cases h : c'.inCleanup with
      | false => rfl
      | true => rw [h] at hact; cases hact
    refine ⟨hnc, ?_⟩
    cases h : c'.suspended with
    | false => rfl
    | true => rw [hnc, h] at hact; cases hact

theorem eli_table_sm (c : SMConn σ) :
    (c.state.toNat ∈ writeStates → eliOfSM (eventLoopInfo c) = .write) ∧
    (c.state.toNat ∈ processStates → eliOfSM (eventLoopInfo c) = .process) ∧
    (c.state.toNat ∈ readStates → eliOfSM (eventLoopInfo c) = .read) := by
  unfold eventLoopInfo
  cases h : c.state <;> refine ⟨?_, ?_, ?_⟩ <;> intro hm <;> simp only [] <;>
    first | rfl | (exfalso; revert hm; simp only [CState.toNat]; decide)

theorem connsm_law_table : LawTable (connsmOps S) where
  idle_table := by
    intro id k wh l hact
    by_cases hw : wh = .active
    · subst hw
      obtain ⟨c', _, e, _, hns⟩ := connsm_idle_active S id k l hact
      rw [e]
      unfold TableOK
      simp only [viewIdle, hns, Bool.false_eq_true, if_false]
      exact eli_table_sm c'
    · simp only [connsmOps, if_pos hw] at hact
      exact absurd hact hw

/-- without connection time-outs (C10's subject) handle_idle never leaves a closed connection in the active list -/
theorem connsm_law_open (hto : ∀ id k, (S.idleEnv id k).timedOut = false) : LawOpen (connsmOps S) where
  idle_open := by
    intro id k wh l hact
    by_cases hw : wh = .active
    · subst hw
      obtain ⟨c', hc', e, hnc, _⟩ := connsm_idle_active S id k l hact
      rw [e]
      show c'.state.toNat ≠ stClosed
      intro hcl
      have := (handleIdleWith_post (idleFuel { l.w with suspended := false }) S.cfg S.app (S.idleEnv id k)
        { l.w with suspended := false }).2 (hto id k)
      rw [show handleIdleWith (idleFuel { l.w with suspended := false }) S.cfg S.app (S.idleEnv id k) { l.w with suspended := false } =
        handleIdle S.cfg S.app (S.idleEnv id k) { l.w with suspended := false } from rfl, ← hc'] at this
      rw [this (toNat_eq_closed _ hcl)] at hnc
      cases hnc
    · simp only [connsmOps, if_pos hw] at hact
      exact absurd hact hw

end
end Mhd.Loop
