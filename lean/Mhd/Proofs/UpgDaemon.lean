/-
  C20: the daemon-level invariant over all histories: who switches `resuming` on, where a
  connection can be between two operations, `DInv` and its preservation by every operation.
-/
import Mhd.Proofs.UpgCnt
namespace Mhd.Upg

/-! ### who sets `resuming` -/

@[simp] theorem notifyCompleted_resuming (x : Conn) (c : Nat) : (notifyCompleted x c).resuming = x.resuming := by
  unfold notifyCompleted; split <;> rfl
@[simp] theorem closeConn_resuming (x : Conn) (c : Nat) : (closeConn x c).resuming = x.resuming := by
  simp [closeConn, Conn.emit]
@[simp] theorem queueResponse_resuming (cfg sh) (x : Conn) (rid : Nat) :
    (queueResponse cfg sh x rid).1.resuming = x.resuming := by
  unfold queueResponse; split <;> rfl
@[simp] theorem tryQueue_resuming (cfg sh) (l : List Nat) : ∀ (x : Conn), (tryQueue cfg sh x l).resuming = x.resuming := by
  induction l with
  | nil => intro x; rfl
  | cons rid rest ih => intro x; simp only [tryQueue]; split <;> simp [ih, Conn.emit]
@[simp] theorem startReply_resuming (cfg) (x : Conn) : (startReply cfg x).resuming = x.resuming := by
  unfold startReply; split <;> rfl
@[simp] theorem replyCall_resuming (cfg sh) (x : Conn) (f : Bool) : (replyCall cfg sh x f).resuming = x.resuming := by
  unfold replyCall; simp only; split <;> simp [handlerEntered]
@[simp] theorem handlerCalls_resuming (cfg sh) (x : Conn) : (handlerCalls cfg sh x).resuming = x.resuming := by
  unfold handlerCalls; split <;> simp [firstCallOnly, handlerEntered]
@[simp] theorem tryRequest_resuming (cfg sh) (x : Conn) : (tryRequest cfg sh x).resuming = x.resuming := by
  unfold tryRequest; split
  · split <;> simp [consumeHead]
  · rfl
@[simp] theorem handleRead_resuming (x : Conn) (n : Nat) : (handleRead x n).resuming = x.resuming := by
  unfold handleRead; split <;> rfl
@[simp] theorem handleWrite_resuming (x : Conn) (n : Nat) : (handleWrite x n).resuming = x.resuming := by
  unfold handleWrite; split <;> rfl
@[simp] theorem finishOrdinary_resuming (x : Conn) : (finishOrdinary x).resuming = x.resuming := by
  unfold finishOrdinary; split <;> simp [nextRequest, replyDone]
@[simp] theorem internalSuspend_resuming (x : Conn) : (internalSuspend x).resuming = false := by
  unfold internalSuspend; split <;> simp_all
@[simp] theorem newToActive_resuming (x : Conn) : (newToActive x).resuming = x.resuming := by
  unfold newToActive; split <;> rfl
@[simp] theorem cleanupOne_resuming (x : Conn) : (cleanupOne x).resuming = x.resuming := by
  unfold cleanupOne; split
  · simp only; split <;> rfl
  · rfl

/-- `resuming` is only ever switched on together with the daemon's flag -/
def RF (x : Conn) (p : CB) : Prop := p.1.resuming = true → x.resuming = true ∨ p.2 = true

theorem rf_upgradeActionClose (x : Conn) : RF x (upgradeActionClose x) := by
  unfold upgradeActionClose RF
  split
  · intro h; left; exact h
  · split
    · intro h; left; exact h
    · intro _; right; rfl

theorem rf_executeUpgrade (cfg) (x : Conn) (rid : Nat) : RF x (executeUpgrade cfg x rid) := by
  unfold executeUpgrade RF
  simp only
  split
  · intro h
    have := rf_upgradeActionClose (handOver (internalSuspend (takeExtra x)) rid x.rbuf) h
    rcases this with h1 | h1
    · simp [handOver] at h1
    · right; exact h1
  · intro h; simp [handOver] at h

theorem rf_afterSend (cfg) (x : Conn) : RF x (afterSend cfg x) := by
  unfold afterSend
  split
  · split
    · intro h; left; exact h
    · split
      · exact rf_executeUpgrade cfg x _
      · intro h; left; simpa using h
  · intro h; left; exact h

theorem rf_idle (cfg sh) (x : Conn) : RF x (idle cfg sh x) := by
  unfold idle RF
  intro h
  simp at h
  exact rf_afterSend cfg x h

/-- the flag component only grows, and accounts for every `resuming` switched on -/
def RFP (p q : CB) : Prop := (p.2 = true → q.2 = true) ∧ (q.1.resuming = true → p.1.resuming = true ∨ q.2 = true)

theorem rfp_refl (p : CB) : RFP p p := ⟨id, fun h => Or.inl h⟩
theorem rfp_trans {p q r : CB} (a : RFP p q) (b : RFP q r) : RFP p r := by
  refine ⟨fun h => b.1 (a.1 h), fun h => ?_⟩
  rcases b.2 h with h1 | h1
  · rcases a.2 h1 with h2 | h2
    · left; exact h2
    · right; exact b.1 h2
  · right; exact h1

theorem rfp_idleP (cfg sh) (p : CB) : RFP p (idleP cfg sh p) := by
  unfold idleP
  refine ⟨fun h => by simp [h], fun h => ?_⟩
  rcases rf_idle cfg sh p.1 h with h1 | h1
  · left; exact h1
  · right; simp [h1]

theorem rfp_rdStage (cfg sh a) (p : CB) : RFP p (rdStage cfg sh a p) := by
  unfold rdStage
  split
  · have := rfp_idleP cfg sh (handleRead p.1 a.rdMax, p.2)
    refine ⟨this.1, fun h => ?_⟩
    rcases this.2 h with h1 | h1
    · left; simpa using h1
    · right; exact h1
  · exact rfp_refl p

theorem rfp_wrStage (cfg sh a) (p : CB) : RFP p (wrStage cfg sh a p) := by
  unfold wrStage
  split
  · have := rfp_idleP cfg sh (handleWrite p.1 a.wrMax, p.2)
    refine ⟨this.1, fun h => ?_⟩
    rcases this.2 h with h1 | h1
    · left; simpa using h1
    · right; exact h1
  · exact rfp_refl p

theorem rf_callHandlers (cfg sh) (x : Conn) (a : IoAct) : RF x (callHandlers cfg sh x a) := by
  unfold callHandlers
  split
  · intro h; left; exact h
  · have h2 : RFP (x, false) (wrStage cfg sh a (rdStage cfg sh a (x, false))) :=
      rfp_trans (rfp_rdStage cfg sh a (x, false)) (rfp_wrStage cfg sh a _)
    simp only
    split
    · exact (rfp_trans h2 (rfp_idleP cfg sh _)).2
    · split
      · have h3 := rfp_idleP cfg sh (handleWrite (wrStage cfg sh a (rdStage cfg sh a (x, false))).1 a.wrMax,
                                    (wrStage cfg sh a (rdStage cfg sh a (x, false))).2)
        have h4 : RFP (wrStage cfg sh a (rdStage cfg sh a (x, false)))
            (handleWrite (wrStage cfg sh a (rdStage cfg sh a (x, false))).1 a.wrMax,
             (wrStage cfg sh a (rdStage cfg sh a (x, false))).2) :=
          ⟨id, fun h => Or.inl (by simpa using h)⟩
        exact (rfp_trans h2 (rfp_trans h4 h3)).2
      · exact h2.2

/-- a scan resumes (and so clears) every connection that is marked `resuming` -/
theorem resumeOne_resuming {cfg x} (h : Life cfg x) : (resumeOne x).resuming = false := by
  cases hr : x.resuming with
  | false =>
    unfold resumeOne; simp [hr]
  | true =>
    have hs := h.resuming_susp hr
    have hu := h.susp_urh hs
    cases hx : x.urh with
    | none => simp [hx] at hu
    | some u =>
      have h1 := h.resuming_closed hr u hx
      have h2 := h.urh_ready u hx
      unfold resumeOne
      simp [hs, hr, hx, h1, h2]

theorem rf_roundConn {cfg x} (h : Life cfg x) (sh scan : Bool) (a : Option IoAct)
    (hs : x.resuming = true → scan = true) : (roundConn cfg sh scan a x).1.resuming = true → (roundConn cfg sh scan a x).2 = true := by
  unfold roundConn
  have h1 : (newToActive (if scan = true then resumeOne x else x)).resuming = false := by
    simp only [newToActive_resuming]
    split
    · exact resumeOne_resuming h
    · rename_i hsc
      cases hr : x.resuming with
      | false => rfl
      | true => exact absurd (hs hr) hsc
  simp only
  split
  · intro hh
    simp only [cleanupOne_resuming] at hh
    rcases rf_callHandlers cfg sh _ _ hh with h2 | h2
    · rw [h1] at h2; cases h2
    · exact h2
  · intro hh
    simp only [cleanupOne_resuming] at hh
    rw [h1] at hh; cases hh


/-! ### where a connection can be between two operations -/

theorem cleanupOne_not_cleanup (x : Conn) : (cleanupOne x).loc ≠ .cleanup := by
  unfold cleanupOne
  split
  · simp
  · assumption

theorem roundConn_not_cleanup (cfg sh scan a) (x : Conn) : (roundConn cfg sh scan a x).1.loc ≠ .cleanup := by
  unfold roundConn
  simp only
  split <;> exact cleanupOne_not_cleanup _

theorem cleanupOne_final {x : Conn} (h : x.loc = .cleanup ∨ x.loc = .freed ∨ x.loc = .none) :
    (cleanupOne x).loc = .freed ∨ (cleanupOne x).loc = .none := by
  unfold cleanupOne
  split
  · simp
  · rename_i hc; rcases h with h | h | h
    · exact absurd h hc
    · left; exact h
    · right; exact h

/-- after `close_all_connections` every connection is released (or never existed) -/
theorem stopConn_final {cfg x} (h : Life cfg x) : (stopConn cfg x).loc = .freed ∨ (stopConn cfg x).loc = .none := by
  unfold stopConn
  split
  · left; unfold stopNew; split <;> rfl
  · rename_i hn
    apply cleanupOne_final
    -- case analysis on the list the connection is in
    have e1 : (x.emit .stopMark).loc = x.loc := rfl
    cases hl : x.loc with
    | new => exact absurd hl hn
    | none =>
      right; right
      simp [stopCloseActive, resumeIf, stopShutdownActive, stopMarkSuspended, resumeOne, hl, Conn.emit]
    | freed =>
      right; left
      simp [stopCloseActive, resumeIf, stopShutdownActive, stopMarkSuspended, resumeOne, hl, Conn.emit]
    | cleanup =>
      left
      simp [stopCloseActive, resumeIf, stopShutdownActive, stopMarkSuspended, resumeOne, hl, Conn.emit]
    | active =>
      left
      simp [stopCloseActive, resumeIf, stopShutdownActive, stopMarkSuspended, resumeOne, hl, Conn.emit]
    | suspended =>
      left
      have hu := h.susp_urh hl
      have hal := h.upg_allowed hu
      cases hx : x.urh with
      | none => simp [hx] at hu
      | some u =>
        have hrd := h.urh_ready u hx
        cases hr : x.resuming with
        | true =>
          have hc := h.resuming_closed hr u hx
          simp [stopCloseActive, resumeIf, stopShutdownActive, stopMarkSuspended, resumeOne, hl, Conn.emit, hal, hx, hr, hc, hrd]
        | false =>
          simp [stopCloseActive, resumeIf, stopShutdownActive, stopMarkSuspended, resumeOne, hl, Conn.emit, hal, hx, hr, hrd]


/-! ### the daemon -/

structure DInv (d : Daemon) : Prop where
  conns : ∀ c, FI (d.cfg c) (d.conn c)
  settled : ∀ c, (d.conn c).loc ≠ .cleanup
  flag : ∀ c, (d.conn c).resuming = true → d.resuming = true
  known : ∀ c, (d.conn c).loc ≠ .none → c ∈ d.ids
  stopped : d.shutdown = true → ∀ c, (d.conn c).loc = .freed ∨ (d.conn c).loc = .none

theorem dinv_init (base : Cfg) (behs : Nat → Nat → Beh) : DInv (Daemon.init base behs) := by
  refine ⟨fun c => fi_init _, ?_, ?_, ?_, ?_⟩ <;> intro c <;> simp [Daemon.init]

theorem setConn_same (f : Nat → Conn) (c : Nat) (x : Conn) : setConn f c x c = x := by simp [setConn]
theorem setConn_other (f : Nat → Conn) {c k : Nat} (x : Conn) (h : k ≠ c) : setConn f c x k = f k := by
  simp [setConn, h]

theorem roundConn_none_loc (cfg sh scan a) {x : Conn} (h : x.loc = .none) :
    (roundConn cfg sh scan a x).1 = x ∧ (roundConn cfg sh scan a x).2 = false := by
  unfold roundConn
  have h1 : (if scan = true then resumeOne x else x) = x := by
    split
    · unfold resumeOne; simp [h]
    · rfl
  have h2 : newToActive x = x := by unfold newToActive; simp [h]
  have h3 : cleanupOne x = x := by unfold cleanupOne; simp [h]
  simp only [h1, h2]
  split
  · unfold callHandlers; simp [h, h3]
  · simp [h3]

theorem roundConn_loc_none (cfg sh scan a) {x : Conn} (h : (roundConn cfg sh scan a x).1.loc ≠ .none) : x.loc ≠ .none := by
  intro hn
  rw [(roundConn_none_loc cfg sh scan a hn).1] at h
  exact h hn

theorem arriveConn_resuming (x : Conn) : (arriveConn x).resuming = x.resuming := by
  unfold arriveConn; split <;> rfl
theorem clientSendConn_resuming (x : Conn) (bs : Bytes) : (clientSendConn x bs).resuming = x.resuming := by
  unfold clientSendConn; split <;> rfl
theorem clientSendConn_loc (x : Conn) (bs : Bytes) : (clientSendConn x bs).loc = x.loc := by
  unfold clientSendConn; split <;> rfl
theorem arriveConn_loc (x : Conn) : (arriveConn x).loc = .new ∨ (arriveConn x).loc = x.loc := by
  unfold arriveConn; split
  · left; rfl
  · right; rfl

theorem Conn.appOwns_urh {x : Conn} (h : x.appOwns = true) : x.urh.isSome = true := by
  unfold Conn.appOwns at h
  cases hx : x.urh <;> simp_all

theorem dinv_step (d : Daemon) (op : Op) (h : DInv d) : DInv (step d op) := by
  cases op with
  | arrive c =>
    simp only [step]
    split
    · exact h
    · rename_i hsd
      have hsd' : d.shutdown = false := by simpa using hsd
      refine ⟨?_, ?_, ?_, ?_, ?_⟩
      · intro k
        by_cases hk : k = c
        · subst hk; simp only [setConn_same]; exact fi_arriveConn (h.conns k)
        · simp only [setConn_other _ _ hk]; exact h.conns k
      · intro k
        by_cases hk : k = c
        · subst hk; simp only [setConn_same]
          rcases arriveConn_loc (d.conn k) with h1 | h1
          · rw [h1]; simp
          · rw [h1]; exact h.settled k
        · simp only [setConn_other _ _ hk]; exact h.settled k
      · intro k
        by_cases hk : k = c
        · subst hk; simp only [setConn_same, arriveConn_resuming]; exact h.flag k
        · simp only [setConn_other _ _ hk]; exact h.flag k
      · intro k
        by_cases hk : k = c
        · subst hk; intro _
          show k ∈ (if k ∈ d.ids then d.ids else d.ids ++ [k])
          split
          · assumption
          · simp
        · simp only [setConn_other _ _ hk]
          intro h0
          have := h.known k h0
          show k ∈ (if c ∈ d.ids then d.ids else d.ids ++ [c])
          split
          · exact this
          · simp [this]
      · intro h0; rw [hsd'] at h0; cases h0
  | clientSend c bs =>
    simp only [step]
    refine ⟨?_, ?_, ?_, ?_, ?_⟩
    · intro k
      by_cases hk : k = c
      · subst hk; simp only [setConn_same]; exact fi_clientSendConn (h.conns k) bs
      · simp only [setConn_other _ _ hk]; exact h.conns k
    · intro k
      by_cases hk : k = c
      · subst hk; simp only [setConn_same, clientSendConn_loc]; exact h.settled k
      · simp only [setConn_other _ _ hk]; exact h.settled k
    · intro k
      by_cases hk : k = c
      · subst hk; simp only [setConn_same, clientSendConn_resuming]; exact h.flag k
      · simp only [setConn_other _ _ hk]; exact h.flag k
    · intro k
      by_cases hk : k = c
      · subst hk; simp only [setConn_same, clientSendConn_loc]; exact h.known k
      · simp only [setConn_other _ _ hk]; exact h.known k
    · intro h0 k
      by_cases hk : k = c
      · subst hk; simp only [setConn_same, clientSendConn_loc]; exact h.stopped h0 k
      · simp only [setConn_other _ _ hk]; exact h.stopped h0 k
  | round sched =>
    simp only [step]
    split
    · exact h
    · rename_i hsd
      have hsd' : d.shutdown = false := by simpa using hsd
      refine ⟨?_, ?_, ?_, ?_, ?_⟩
      · intro k; exact fi_roundConn (h.conns k) _ _ _
      · intro k; exact roundConn_not_cleanup _ _ _ _ _
      · intro k hk
        have hlife := (h.conns k).ci.life
        have hscan : (d.conn k).resuming = true → (d.allowUpgrade && d.resuming) = true := by
          intro hr
          have h1 := h.flag k hr
          have h2 := hlife.susp_urh (hlife.resuming_susp hr)
          have h3 : d.allowUpgrade = true := hlife.upg_allowed h2
          simp [h1, h3]
        have hflag := rf_roundConn hlife d.shutdown (d.allowUpgrade && d.resuming) (sched k) hscan hk
        have hloc : (d.conn k).loc ≠ .none := by
          apply roundConn_loc_none (d.cfg k) d.shutdown (d.allowUpgrade && d.resuming) (sched k)
          intro hn
          have := (fi_roundConn (h.conns k) d.shutdown (d.allowUpgrade && d.resuming) (sched k)).ci.life.resuming_susp hk
          rw [hn] at this; cases this
        have hmem := h.known k hloc
        show ((if d.allowUpgrade = true then false else d.resuming) || d.ids.any _) = true
        have : (d.ids.any fun c => (roundConn (d.cfg c) d.shutdown (d.allowUpgrade && d.resuming) (sched c) (d.conn c)).2) = true :=
          List.any_eq_true.mpr ⟨k, hmem, hflag⟩
        simp [this]
      · intro k hk
        exact h.known k (roundConn_loc_none _ _ _ _ hk)
      · intro h0; rw [hsd'] at h0; cases h0
  | upClose c =>
    simp only [step]
    split
    · exact h
    · rename_i hsd
      have hsd' : d.shutdown = false := by simpa using hsd
      have hs : (d.conn c).urh.isSome = true → (d.conn c).loc = .suspended := by
        intro hu
        rcases (h.conns c).ci.life.urh_loc hu with h1 | h1
        · exact h1
        · exact absurd h1 (h.settled c)
      refine ⟨?_, ?_, ?_, ?_, ?_⟩
      · intro k
        by_cases hk : k = c
        · subst hk; simp only [setConn_same]; exact fi_upgradeActionClose (h.conns k) hs
        · simp only [setConn_other _ _ hk]; exact h.conns k
      · intro k
        by_cases hk : k = c
        · subst hk; simp only [setConn_same, upgradeActionClose_loc]; exact h.settled k
        · simp only [setConn_other _ _ hk]; exact h.settled k
      · intro k
        by_cases hk : k = c
        · subst hk; simp only [setConn_same]
          intro hr
          rcases rf_upgradeActionClose (d.conn k) hr with h1 | h1
          · simp [h.flag k h1]
          · simp [h1]
        · simp only [setConn_other _ _ hk]
          intro hr; simp [h.flag k hr]
      · intro k
        by_cases hk : k = c
        · subst hk; simp only [setConn_same, upgradeActionClose_loc]; exact h.known k
        · simp only [setConn_other _ _ hk]; exact h.known k
      · intro h0; rw [hsd'] at h0; cases h0
  | upRecv c mx =>
    simp only [step]
    split
    · rename_i ho
      have hu := Conn.appOwns_urh ho
      refine ⟨?_, ?_, ?_, ?_, ?_⟩
      · intro k
        by_cases hk : k = c
        · subst hk; simp only [setConn_same]; exact fi_appRecvConn (h.conns k) hu mx
        · simp only [setConn_other _ _ hk]; exact h.conns k
      · intro k
        by_cases hk : k = c
        · subst hk; simp only [setConn_same]; exact h.settled k
        · simp only [setConn_other _ _ hk]; exact h.settled k
      · intro k
        by_cases hk : k = c
        · subst hk; simp only [setConn_same]; exact h.flag k
        · simp only [setConn_other _ _ hk]; exact h.flag k
      · intro k
        by_cases hk : k = c
        · subst hk; simp only [setConn_same]; exact h.known k
        · simp only [setConn_other _ _ hk]; exact h.known k
      · intro h0 k
        by_cases hk : k = c
        · subst hk; simp only [setConn_same]; exact h.stopped h0 k
        · simp only [setConn_other _ _ hk]; exact h.stopped h0 k
    · refine ⟨?_, ?_, ?_, ?_, ?_⟩
      · intro k
        by_cases hk : k = c
        · subst hk; simp only [setConn_same]; exact fi_emit_plain (h.conns k) rfl rfl
        · simp only [setConn_other _ _ hk]; exact h.conns k
      · intro k
        by_cases hk : k = c
        · subst hk; simp only [setConn_same]; exact h.settled k
        · simp only [setConn_other _ _ hk]; exact h.settled k
      · intro k
        by_cases hk : k = c
        · subst hk; simp only [setConn_same]; exact h.flag k
        · simp only [setConn_other _ _ hk]; exact h.flag k
      · intro k
        by_cases hk : k = c
        · subst hk; simp only [setConn_same]; exact h.known k
        · simp only [setConn_other _ _ hk]; exact h.known k
      · intro h0 k
        by_cases hk : k = c
        · subst hk; simp only [setConn_same]; exact h.stopped h0 k
        · simp only [setConn_other _ _ hk]; exact h.stopped h0 k
  | upSend c bs =>
    simp only [step]
    split
    · refine ⟨?_, ?_, ?_, ?_, ?_⟩
      · intro k
        by_cases hk : k = c
        · subst hk; simp only [setConn_same]; exact fi_appSendConn (h.conns k) bs
        · simp only [setConn_other _ _ hk]; exact h.conns k
      · intro k
        by_cases hk : k = c
        · subst hk; simp only [setConn_same]; exact h.settled k
        · simp only [setConn_other _ _ hk]; exact h.settled k
      · intro k
        by_cases hk : k = c
        · subst hk; simp only [setConn_same]; exact h.flag k
        · simp only [setConn_other _ _ hk]; exact h.flag k
      · intro k
        by_cases hk : k = c
        · subst hk; simp only [setConn_same]; exact h.known k
        · simp only [setConn_other _ _ hk]; exact h.known k
      · intro h0 k
        by_cases hk : k = c
        · subst hk; simp only [setConn_same]; exact h.stopped h0 k
        · simp only [setConn_other _ _ hk]; exact h.stopped h0 k
    · refine ⟨?_, ?_, ?_, ?_, ?_⟩
      · intro k
        by_cases hk : k = c
        · subst hk; simp only [setConn_same]; exact fi_emit_plain (h.conns k) rfl rfl
        · simp only [setConn_other _ _ hk]; exact h.conns k
      · intro k
        by_cases hk : k = c
        · subst hk; simp only [setConn_same]; exact h.settled k
        · simp only [setConn_other _ _ hk]; exact h.settled k
      · intro k
        by_cases hk : k = c
        · subst hk; simp only [setConn_same]; exact h.flag k
        · simp only [setConn_other _ _ hk]; exact h.flag k
      · intro k
        by_cases hk : k = c
        · subst hk; simp only [setConn_same]; exact h.known k
        · simp only [setConn_other _ _ hk]; exact h.known k
      · intro h0 k
        by_cases hk : k = c
        · subst hk; simp only [setConn_same]; exact h.stopped h0 k
        · simp only [setConn_other _ _ hk]; exact h.stopped h0 k
  | stop =>
    simp only [step]
    split
    · exact h
    · have hfin : ∀ k, (stopConn (d.cfg k) (d.conn k)).loc = .freed ∨ (stopConn (d.cfg k) (d.conn k)).loc = .none :=
        fun k => stopConn_final (h.conns k).ci.life
      refine ⟨?_, ?_, ?_, ?_, ?_⟩
      · intro k; exact fi_stopConn (h.conns k)
      · intro k; rcases hfin k with h1 | h1 <;> (show (stopConn _ _).loc ≠ _; rw [h1]; simp)
      · intro k hr
        have := (fi_stopConn (h.conns k)).ci.life.resuming_susp hr
        rcases hfin k with h1 | h1 <;> (rw [h1] at this; cases this)
      · intro k hk
        apply h.known k
        intro hn
        apply hk
        show (stopConn _ _).loc = _
        unfold stopConn
        simp [hn, Conn.emit, stopCloseActive, resumeIf, stopShutdownActive, stopMarkSuspended, resumeOne, cleanupOne]
      · intro _ k; exact hfin k

theorem dinv_run (d : Daemon) (ops : List Op) (h : DInv d) : DInv (run d ops) := by
  induction ops generalizing d with
  | nil => exact h
  | cons op ops ih => exact ih (step d op) (dinv_step d op h)

end Mhd.Upg
