/-
  C19 helper lemmas, part 16: round trip of a single text/binary frame, and what the data
  encoders produce.
-/
import Mhd.Proofs.WSBodyRun
namespace Mhd.WS

theorem phase_base {ws : WS} (h : Inv ws) (hs : ws.step = 0) :
    ws = hdrPhase ws [] 0 ws.payloadSize ws.maskKey ws.validity := by
  have hz : ws.hdrSize = 0 := by have := h.hsS (by omega); omega
  unfold hdrPhase
  rw [hp_nil]
  cases ws
  simp_all

theorem session_of_run {ws : WS} (hi : Inv ws) (hq : sil ws = 0) (hv : ws.validity ≠ 0) (wire : List UInt8)
    {E : List Ev} {out : Out} (hr : Run ws wire E out) : session ws [wire] = E := by
  obtain ⟨o, r⟩ := session_run hi hq hv [wire]
  simp only [List.flatten_cons, List.flatten_nil, List.append_nil] at r
  exact (r.det hr).1

theorem copyPayload_involutive (src key : List UInt8) (off : Nat) :
    copyPayload (copyPayload src key off) key off = src := by
  unfold copyPayload
  split
  · rfl
  · unfold xorMask
    apply List.ext_getElem
    · simp
    · intro i h1 h2
      simp only [List.getElem_mapIdx]
      rw [UInt8.xor_assoc, UInt8.xor_self, UInt8.xor_zero]

/-- **(ii) round trip, single data frame**: a text or binary message of any length ≥ 1 encoded
    by the peer (masked iff the receiver is a server, any key) is returned unchanged. -/
theorem roundtrip_data_run (ws : WS) (h : Inv ws) (hs : ws.step = 0) (hv : ws.validity = 1) (hdt : ws.dataType = 0)
    (op : Nat) (hop : op = 1 ∨ op = 2) (payload : List UInt8) (hne : payload ≠ []) (hn : payload.length < 2 ^ 63)
    (hmax : ws.maxPayload = 0 ∨ payload.length ≤ ws.maxPayload) (hal : payload.length + 1 ≤ ws.allocLimit)
    (hutf : op = 1 → checkUtf8 payload 0 0 = .ok 0) (m1 m2 m3 m4 : UInt8) (masked : Bool)
    (hm : masked = !ws.isClient) (key : List UInt8) (hkey : key = if masked then [m1, m2, m3, m4] else [0, 0, 0, 0]) :
    ∃ ws', Run ws (frameBytes masked (UInt8.ofNat (0x80 + op)) payload.length key (copyPayload payload key 0))
      [(Int.ofNat op, some (payload ++ [0]), payload.length)] (.more ws') := by
  have hl := h.hdrLen
  have hb0 : (UInt8.ofNat (0x80 + op)).toNat = 0x80 + op := by
    rw [UInt8.toNat_ofNat']; omega
  have hopc : opcodeOf (UInt8.ofNat (0x80 + op)) = op := by unfold opcodeOf; rw [hb0]; omega
  have hrsv : rsvBits (UInt8.ofNat (0x80 + op)) = 0 := by unfold rsvBits; rw [hb0]; omega
  have hfin : finBit (UInt8.ofNat (0x80 + op)) = true := by unfold finBit; rw [hb0]; simp
  have hctl : ctlBit (UInt8.ofNat (0x80 + op)) = false := by
    unfold ctlBit; rw [hb0]; rcases hop with h | h <;> subst h <;> decide
  generalize hB0 : UInt8.ofNat (0x80 + op) = b0 at *
  obtain ⟨ws', hrun⟩ := data_body_run h hs b0 (hdrTail masked payload.length [m1, m2, m3, m4])
    (hdrTail_length_le _ _ _ _ _ _) key ws.validity (by omega) (by rw [hopc]; exact hop) hfin hdt payload
    (copyPayload payload key 0) hn hal (by rw [hopc]; exact hutf) (copyPayload_involutive _ _ _) hne
  refine ⟨ws', ?_⟩
  have hwire : frameBytes masked b0 payload.length key (copyPayload payload key 0) =
      b0 :: (hdrTail masked payload.length [m1, m2, m3, m4] ++ copyPayload payload key 0) := by
    unfold frameBytes hdrTail
    rw [hkey]
    cases masked <;> simp
  rw [hwire]
  have hstart : iter false ws (b0 :: (hdrTail masked payload.length [m1, m2, m3, m4] ++ copyPayload payload key 0)) =
      .cont (hdrPhase ws [b0] 1 ws.payloadSize ws.maskKey ws.validity) 1 := by
    rw [iter_step0 _ _ _ hs]
    conv => lhs; rw [phase_base h hs]
    exact stepStart_data ws ws.payloadSize ws.maskKey ws.validity b0 hl (by omega) (by omega) hrsv
      (by rw [hopc]; exact hop) hdt
  refine run_step hstart ?_
  apply header_run ws b0 payload.length ws.payloadSize ws.maskKey ws.validity m1 m2 m3 m4 masked hm hl (by omega) hn
    (by rw [hctl]; intro hh; cases hh) (by rw [hopc]; omega) hmax
  rw [hopc] at hrun
  subst hkey
  exact hrun

end Mhd.WS
namespace Mhd.WS

/-- a data frame with an empty payload: completed by the trips that need no input -/
theorem data_body_run_empty {ws : WS} (h : Inv ws) (hs : ws.step = 0) (b0 : UInt8) (t : List UInt8)
    (key : List UInt8) (v : Nat) (hop : opcodeOf b0 = 1 ∨ opcodeOf b0 = 2) (hfin : finBit b0 = true)
    (hdt : ws.dataType = 0) :
    ∃ ws', Run (hdrPhase ws (b0 :: t) 16 0 key v) [] [(Int.ofNat (opcodeOf b0), none, 0)] (.more ws') := by
  have hu0 : ws.dataUtf8 = 0 := h.u8a (by omega)
  have hi0 : ws.payloadIndex = 0 := h.idx0 (by omega)
  have hnc : ¬ opcodeOf b0 = 0 := by omega
  have hne0 : ¬ Int.ofNat (opcodeOf b0) = 0 := by
    intro h0; have : opcodeOf b0 = 0 := by simpa using h0
    omega
  have hhc : headerComplete false (hdrPhase ws (b0 :: t) 16 0 key v) =
      .cont ({ hdrPhase ws (b0 :: t) 16 0 key v with
                dataBuf := none, dataStart := 0, dataSize := 0, dataType := opcodeOf b0, step := 17 } : WS) 0 := by
    unfold headerComplete
    rw [phase_hdr0]
    have hps : (hdrPhase ws (b0 :: t) 16 0 key v).payloadSize = 0 := rfl
    rcases hop with h1 | h2
    · simp only [h1, hps, ne_eq, not_true_eq_false, if_false]
    · simp only [h2, hps, ne_eq, not_true_eq_false, if_false]
  have htail : ∃ ws', tail false (hdrPhase ws (b0 :: t) 16 0 key v) 0 = .ret ws' (Int.ofNat (opcodeOf b0)) 0 none 0 := by
    unfold tail
    rw [if_pos (show (hdrPhase ws (b0 :: t) 16 0 key v).step = 16 from rfl), hhc]
    simp only []
    unfold tailAfter
    rw [if_pos ⟨Or.inl rfl, by show (0 : Nat) = ws.payloadIndex; omega⟩]
    unfold payloadComplete
    have h0 : ({ hdrPhase ws (b0 :: t) 16 0 key v with
                dataBuf := none, dataStart := 0, dataSize := 0, dataType := opcodeOf b0, step := 17 } : WS).hdr[0]? =
        some b0 := phase_hdr0 ws b0 t 16 0 key v
    have hu0' : (hdrPhase ws (b0 :: t) 16 0 key v).dataUtf8 = 0 := hu0
    simp only [h0, hfin, if_true, hu0', ne_eq, not_true_eq_false, and_false, if_false, hnc]
    exact ⟨_, rfl⟩
  obtain ⟨ws', ht⟩ := htail
  refine ⟨ws', Run.done _ _ _ ⟨ws', _, _, _, _, ht, ?_, ?_⟩⟩
  · unfold evOf; rw [if_neg hne0]
  · have hnn : ¬ Int.ofNat (opcodeOf b0) < 0 := Int.not_lt.mpr (Int.natCast_nonneg _)
    rw [if_neg hnn]

end Mhd.WS
namespace Mhd.WS

/-- what the application gets for a payload: `NULL` for an empty one, else the NUL-terminated copy -/
def plOf (payload : List UInt8) : Option (List UInt8) := if payload = [] then none else some (payload ++ [0])

/-- **(ii) round trip, single data frame, any length including 0** -/
theorem roundtrip_data_run' (ws : WS) (h : Inv ws) (hs : ws.step = 0) (hv : ws.validity = 1) (hdt : ws.dataType = 0)
    (op : Nat) (hop : op = 1 ∨ op = 2) (payload : List UInt8) (hn : payload.length < 2 ^ 63)
    (hmax : ws.maxPayload = 0 ∨ payload.length ≤ ws.maxPayload) (hal : payload.length + 1 ≤ ws.allocLimit)
    (hutf : op = 1 → checkUtf8 payload 0 0 = .ok 0) (m1 m2 m3 m4 : UInt8) (masked : Bool)
    (hm : masked = !ws.isClient) (key : List UInt8) (hkey : key = if masked then [m1, m2, m3, m4] else [0, 0, 0, 0]) :
    ∃ ws', Run ws (frameBytes masked (UInt8.ofNat (0x80 + op)) payload.length key (copyPayload payload key 0))
      [(Int.ofNat op, plOf payload, payload.length)] (.more ws') := by
  by_cases hne : payload = []
  · subst hne
    have hl := h.hdrLen
    have hb0 : (UInt8.ofNat (0x80 + op)).toNat = 0x80 + op := by
      rw [UInt8.toNat_ofNat']; omega
    have hopc : opcodeOf (UInt8.ofNat (0x80 + op)) = op := by unfold opcodeOf; rw [hb0]; omega
    have hrsv : rsvBits (UInt8.ofNat (0x80 + op)) = 0 := by unfold rsvBits; rw [hb0]; omega
    have hfin : finBit (UInt8.ofNat (0x80 + op)) = true := by unfold finBit; rw [hb0]; simp
    have hctl : ctlBit (UInt8.ofNat (0x80 + op)) = false := by
      unfold ctlBit; rw [hb0]; rcases hop with h | h <;> subst h <;> decide
    generalize hB0 : UInt8.ofNat (0x80 + op) = b0 at *
    obtain ⟨ws', hrun⟩ := data_body_run_empty h hs b0 (hdrTail masked 0 [m1, m2, m3, m4]) key ws.validity
      (by rw [hopc]; exact hop) hfin hdt
    refine ⟨ws', ?_⟩
    have hwire : frameBytes masked b0 ([] : List UInt8).length key (copyPayload [] key 0) =
        b0 :: (hdrTail masked 0 [m1, m2, m3, m4] ++ []) := by
      unfold frameBytes hdrTail copyPayload xorMask
      rw [hkey]
      cases masked <;> simp
    rw [hwire]
    have hstart : iter false ws (b0 :: (hdrTail masked 0 [m1, m2, m3, m4] ++ [])) =
        .cont (hdrPhase ws [b0] 1 ws.payloadSize ws.maskKey ws.validity) 1 := by
      rw [iter_step0 _ _ _ hs]
      conv => lhs; rw [phase_base h hs]
      exact stepStart_data ws ws.payloadSize ws.maskKey ws.validity b0 hl (by omega) (by omega) hrsv
        (by rw [hopc]; exact hop) hdt
    refine run_step hstart ?_
    apply header_run ws b0 0 ws.payloadSize ws.maskKey ws.validity m1 m2 m3 m4 masked hm hl (by omega) (by omega)
      (by rw [hctl]; intro hh; cases hh) (by rw [hopc]; omega) (by omega)
    rw [hopc] at hrun
    subst hkey
    simpa [plOf] using hrun
  · obtain ⟨ws', hr⟩ := roundtrip_data_run ws h hs hv hdt op hop payload hne hn hmax hal hutf m1 m2 m3 m4 masked hm key hkey
    exact ⟨ws', by simpa [plOf, hne] using hr⟩

end Mhd.WS
namespace Mhd.WS

theorem lenBytes_length (masked : Bool) (n : Nat) :
    (lenBytes masked n).length = 1 + (if 125 < n then (if 65535 < n then 8 else 2) else 0) := by
  unfold lenBytes
  simp only []
  by_cases h1 : n < 126
  · have a : ¬ 125 < n := by omega
    simp [h1, a]
  · by_cases h2 : n < 65536
    · have a : 125 < n := by omega
      have b : ¬ 65535 < n := by omega
      simp [h1, h2, a, b, beBytes_length]
    · have a : 125 < n := by omega
      have b : 65535 < n := by omega
      simp [h1, h2, a, b, beBytes_length]

theorem maskFor_snd (ws : WS) : ∃ m1 m2 m3 m4, (maskFor ws).2 = if ws.isClient then [m1, m2, m3, m4] else [0, 0, 0, 0] := by
  unfold maskFor genMask
  cases hc : ws.isClient
  · exact ⟨0, 0, 0, 0, by simp⟩
  · simp only [if_true]
    have hl : ((ws.rng.take 4 ++ List.replicate 4 0).take 4).length = 4 := by
      simp only [List.length_take, List.length_append, List.length_replicate]; omega
    match hk : (ws.rng.take 4 ++ List.replicate 4 0).take 4, hl with
    | [a, b, c, d], _ => exact ⟨a, b, c, d, rfl⟩

/-- what `MHD_websocket_encode_text/binary (…, MHD_WEBSOCKET_FRAGMENTATION_NONE, …)` produces:
    status OK and RFC 6455 framing of the payload, masked with the generated key iff client -/
theorem encodeData_frame (wsS : WS) (payload : List UInt8) (op : Nat)
    (hal : overheadSize wsS payload.length + payload.length + 1 ≤ wsS.allocLimit) :
    ∃ m1 m2 m3 m4,
      (encodeData wsS payload 0 op).st = 0 ∧ (encodeData wsS payload 0 op).fault = false ∧
      (encodeData wsS payload 0 op).frame =
        some (frameBytes wsS.isClient (UInt8.ofNat (0x80 + op)) payload.length
              (if wsS.isClient then [m1, m2, m3, m4] else [0, 0, 0, 0])
              (copyPayload payload (if wsS.isClient then [m1, m2, m3, m4] else [0, 0, 0, 0]) 0) ++ [0]) := by
  obtain ⟨m1, m2, m3, m4, hmk⟩ := maskFor_snd wsS
  refine ⟨m1, m2, m3, m4, ?_⟩
  have hal' : alloc (maskFor wsS).1 (overheadSize wsS payload.length + payload.length + 1) =
      some (List.replicate (overheadSize wsS payload.length + payload.length + 1) 0) := by
    obtain ⟨r, hr⟩ := maskFor_ws wsS
    unfold alloc
    rw [hr]
    exact if_pos hal
  have hlen : (frameBytes wsS.isClient (UInt8.ofNat (0x80 + op)) payload.length (maskFor wsS).2
      (copyPayload payload (maskFor wsS).2 0)).length = overheadSize wsS payload.length + payload.length := by
    unfold frameBytes overheadSize
    rw [hmk]
    simp only [List.length_cons, List.length_append, lenBytes_length, copyPayload_length]
    cases wsS.isClient <;> simp <;> omega
  unfold encodeData
  simp only []
  unfold encodeFrame
  rw [hmk] at hlen
  simp only [hal', hmk, hlen, if_true]
  exact ⟨trivial, trivial, trivial⟩

end Mhd.WS
