/-
  C12 specification side.

  * `Cred`   — the *semantic* credential: the meaning of every parameter of the
               Authorization header (C14's `view`: the value after unquoting), the
               algorithm / qop constants of their meaning and the userhash flag.
  * `expectedClass` — the result class as a function of the semantic credential: the
               clauses of the check in the order in which the code performs them, each
               stated on meanings (`value = realm`, "hex text of H(user:realm), any letter
               case", …) instead of on the raw slices, quoting flags and buffers the C code
               works with.  The only thing it looks at besides the meaning is the length
               of each parameter *as sent* (`LenView`), for the documented size limits.
  * `RFCValid` — RFC 7616 / 2617 / 2069 validity of a semantic credential for a
               request, an application call and a nonce state; `WithinLimits` — the
               implementation limits on the lengths as sent.
-/
import Mhd.Model.Dauth

namespace Mhd.Dauth
open Mhd.Auth Mhd.Gen.Auth Mhd.Gen.Dauth

/-- the semantic credential -/
structure Cred where
  /-- meaning of `algorithm` (`algoSem`): one of the `MHD_DIGEST_AUTH_ALGO3_*` constants -/
  algo3 : Nat
  /-- meaning of `qop` (`qopSem`) -/
  qop : Nat
  /-- `userhash=true` -/
  userhash : Bool
  /-- meaning of parameter `k` (index into `tk_names[]`) -/
  val : Nat → Option Bytes
  /-- `username*` as sent (an RFC 5987 ext-value; not a quoted-string with quoted-pairs) -/
  ext : Option Bytes

/-- meaning of the parsed parameters -/
def semOf (d : DAuth) : Cred :=
  { algo3 := d.algo3, qop := d.qop, userhash := d.userhash,
    val := fun k => (d.slots k).map paramUnq,
    ext := (d.slots kUsernameExt).map fun p => p.raw }

def needV (o : Option Bytes) : Except Res Bytes :=
  match o with
  | some v => .ok v
  | none => .error (.fault .nullParam)

/-! ### the clauses, in the order of the code -/

def specRealm (call : Call) (c : Cred) : Except Res Unit := do
  let v ← needV (c.val kRealm)
  if v = call.realm then .ok () else .error .wrongRealm

def specUsername (a : Algo) (call : Call) (c : Cred) : Except Res Unit :=
  if !c.userhash then
    match c.val kUsername with
    | some u => if u = call.username then .ok () else .error .wrongUsername
    | none => do
      let e ← needV c.ext
      if noBuffer (e.length + 1 - extMinLen) then .error .tooLarge
      else
        match extName e with
        | none => .error .wrongHeader
        | some name => if name = call.username then .ok () else .error .wrongUsername
  else do
    let u ← needV (c.val kUsername)
    -- the hexadecimal text of H(username ":" realm), letter case ignored
    if eqClS (binToHex (userhash a call.username call.realm)) u then .ok () else .error .wrongUsername

def specNc (maxNc : Nat) (c : Cred) : Except Res Nat :=
  if c.qop ≠ qopNone then do
    let txt ← needV (c.val kNc)
    if txt.length = 0 then .error (.fault .uninitNc)
    else
      match Mhd.Nonce.parseNc txt with
      | none => .error .wrongHeader
      | some nci =>
        if nci = 0 then .error .wrongHeader
        else if maxNc ≠ 0 ∧ maxNc < nci then .error .nonceStale
        else .ok nci
  else .ok 1

def specNonce (a : Algo) (now timeout : Nat) (c : Cred) : Except Res (Bytes × Nat) := do
  let n ← needV (c.val kNonce)
  if a.stdLen ≠ n.length then .error .nonceWrong
  else
    match Mhd.Nonce.getNonceTimestamp n n.length with
    | .fault => .error (.fault .nonceTable)
    | .invalid => .error .nonceWrong
    | .ts t =>
      if Mhd.Nonce.trim (Mhd.Nonce.sub64 now t) > (timeout * 1000) % 2 ^ Mhd.Gen.Nonce.timeoutBits then
        .error .nonceStale
      else .ok (n, t)

def specPre (now timeout maxNc : Nat) (call : Call) (c : Cred) (lv : LenView) :
    Except Res (Algo × Nat × Bytes × Nat) := do
  let a ← stageAlgoN call c.algo3
  stageQopN call c.qop
  presenceV a call lv c.qop c.userhash
  specRealm call c
  specUsername a call c
  let nci ← specNc maxNc c
  let nt ← specNonce a now timeout c
  .ok (a, nci, nt.1, nt.2)

def specUri (cfg : Cfg) (r : Req) (c : Cred) (lv : LenView) : Except Res Bytes := do
  let uri ← needV (c.val kUri)
  if noBuffer ((lv kUri).getD 0 + 1) then .error .error
  else if checkUriMatch cfg.strictUnescape uri r.url r.args then .ok uri else .error .wrongUri

def specQopPart (c : Cred) : Except Res Bytes :=
  if c.qop ≠ qopNone then do
    let nc ← needV (c.val kNc)
    let cn ← needV (c.val kCnonce)
    let q ← needV (c.val kQop)
    .ok (nc ++ 58 :: (cn ++ 58 :: (q ++ [58])))
  else .ok []

/-- the RFC 7616 §3.4.1 / RFC 2069 response value for the given texts -/
def rfcResponse (a : Algo) (h1 nonce mid uri method : Bytes) : Bytes :=
  a.hash (h1 ++ 58 :: (nonce ++ 58 :: (mid ++ binToHex (a.hash (method ++ 58 :: uri)))))

def specResponse (a : Algo) (r : Req) (call : Call) (c : Cred) (uri : Bytes) : Except Res Unit := do
  let h1 ← ha1Hex a call
  let resp ← needV (c.val kResponse)
  if a.size * 2 < resp.length then .error .responseWrong
  else
    match hexToBin resp with
    | none => .error .responseWrong
    | some bin =>
      if bin.length ≠ a.size then .error .responseWrong
      else do
        let nonce ← needV (c.val kNonce)
        let mid ← specQopPart c
        if bin = rfcResponse a h1 nonce mid uri r.method then .ok () else .error .responseWrong

def specBind (cfg : Cfg) (a : Algo) (r : Req) (call : Call) (c : Cred) (nonceTime : Nat) : Except Res Unit :=
  if cfg.bindType ≠ bindNone then
    match calcNonce cfg r call.realm a nonceTime with
    | none => .error (.fault .addrRead)
    | some nn => do
      let n ← needV (c.val kNonce)
      if n = nn then .ok () else .error .nonceOtherCond
  else .ok ()

def specPost (cfg : Cfg) (r : Req) (call : Call) (c : Cred) (lv : LenView) (a : Algo) (nonceTime : Nat) : Res :=
  match (do
    let uri ← specUri cfg r c lv
    specResponse a r call c uri
    specBind cfg a r call c nonceTime : Except Res Unit) with
  | .ok () => .ok
  | .error e => e

/-- the result class (and the nonce table afterwards) as a function of the semantic credential -/
def expectedClass (cfg : Cfg) (tbl : Mhd.Nonce.Table) (now : Nat) (r : Req) (call : Call) (timeout maxNc : Nat)
    (c : Cred) (lv : LenView) : Mhd.Nonce.Table × Res :=
  match specPre now timeout maxNc call c lv with
  | .error e => (tbl, e)
  | .ok (a, nci, nonce, nonceTime) =>
    let x := Mhd.Nonce.checkNonceNc tbl nonce nonceTime nci
    match x.2 with
    | .ok => (x.1, specPost cfg r call c lv a nonceTime)
    | other => (x.1, ofNc other)

/-! ### hypotheses about the parsed parameters (guaranteed by `parse_dauth_params`) -/

/-- every quoted parameter unquotes (the scanner stores a backslash only together with the byte it escapes) -/
def WQ (d : DAuth) : Prop := ∀ k p, d.slots k = some p → p.quoted = true → (unquoteLoop p.raw).isSome

/-- the `qop` constant is the one `get_rq_dauth_qop` gives for the stored `qop` parameter -/
def QopParsed (d : DAuth) : Prop := d.qop = qopOf (d.slots kQop)

/-! ### validity -/

/-- implementation limits on the parameters *as sent* (length of the value without the DQUOTEs) -/
structure WithinLimits (a : Algo) (call : Call) (c : Cred) (lv : LenView) : Prop where
  userhash : c.userhash = true → ∀ l, lv kUsername = some l → a.size * 2 ≤ l ∧ l ≤ a.size * 4
  realm : (isPassword call.secret = true ∨ c.userhash = true) → ∀ l, lv kRealm = some l → l ≤ maxParam
  nc : c.qop ≠ qopNone → ∀ l, lv kNc = some l → l ≤ ncMaxRaw
  cnonce : c.qop ≠ qopNone → ∀ l, lv kCnonce = some l → l ≤ maxParam
  uri : ∀ l, lv kUri = some l → l + 1 ≤ maxParam
  nonce : ∀ l, lv kNonce = some l → l ≤ a.stdLen * 2
  response : ∀ l, lv kResponse = some l → l ≤ a.size * 4
  ext : ∀ e, c.ext = some e → c.val kUsername = none → e.length + 1 - extMinLen ≤ maxParam

/-- the credential names the expected user, in one of the three notations of RFC 7616 §3.4 / §3.4.4 -/
def UserOk (a : Algo) (call : Call) (c : Cred) : Prop :=
  (c.userhash = false ∧ c.val kUsername = some call.username ∧ c.ext = none) ∨
  (c.userhash = false ∧ c.val kUsername = none ∧ ∃ e, c.ext = some e ∧ extName e = some call.username) ∨
  (c.userhash = true ∧ c.ext = none ∧
    ∃ u, c.val kUsername = some u ∧ eqClS (binToHex (userhash a call.username call.realm)) u = true)

/-- `nc`, `cnonce`, `qop` texts as required by the quality of protection; `nci` is the count presented -/
def CountOk (maxNc : Nat) (c : Cred) (nci : Nat) (mid : Bytes) : Prop :=
  (c.qop = qopNone ∧ nci = 1 ∧ mid = []) ∨
  (c.qop = qopAuth ∧ ∃ nc cn q, c.val kNc = some nc ∧ c.val kCnonce = some cn ∧ c.val kQop = some q ∧
     cn ≠ [] ∧ Mhd.Nonce.parseNc nc = some nci ∧ 0 < nci ∧ (maxNc = 0 ∨ nci ≤ maxNc) ∧
     mid = nc ++ 58 :: (cn ++ 58 :: (q ++ [58])))

/-- RFC validity of the semantic credential `c` for request `r`, the application's call, the clock and the
    nonce table.  `timeout`/`maxNc` are the effective values (zero already replaced by the daemon defaults). -/
structure RFCValid (cfg : Cfg) (tbl : Mhd.Nonce.Table) (now : Nat) (r : Req) (call : Call) (timeout maxNc : Nat)
    (c : Cred) (a : Algo) (nci : Nat) (nonce : Bytes) (t : Nat) : Prop where
  /-- a known non-session algorithm that the application allows -/
  algo : c.algo3 ≠ algoInvalid ∧ c.algo3 = (c.algo3 &&& call.malgo3) ∧ (c.algo3 &&& algoSession) = 0 ∧
         baseAlgo c.algo3 = some a
  /-- no qop (RFC 2069) or `auth`, allowed by the application -/
  qop : (c.qop = qopNone ∨ c.qop = qopAuth) ∧ c.qop = (c.qop &&& call.mqop)
  user : UserOk a call c
  realm : c.val kRealm = some call.realm
  /-- the nonce has the format of this daemon's nonces, is not older than `timeout`, … -/
  nonceVal : c.val kNonce = some nonce ∧ nonce.length = a.stdLen ∧
             Mhd.Nonce.getNonceTimestamp nonce nonce.length = .ts t ∧
             ¬ Mhd.Nonce.trim (Mhd.Nonce.sub64 now t) > (timeout * 1000) % 2 ^ Mhd.Gen.Nonce.timeoutBits
  /-- … is registered in the nonce table and the count was not used before (C13) -/
  fresh : (Mhd.Nonce.checkNonceNc tbl nonce t nci).2 = .ok
  /-- the `uri` parameter denotes the request's path and arguments -/
  uri : ∃ u, c.val kUri = some u ∧ u ≠ [] ∧ checkUriMatch cfg.strictUnescape u r.url r.args = true
  /-- the response is the hexadecimal text (any letter case) of the RFC value -/
  response : ∃ u mid h1 resp bin, c.val kUri = some u ∧ CountOk maxNc c nci mid ∧ ha1Hex a call = .ok h1 ∧
             c.val kResponse = some resp ∧ hexToBin resp = some bin ∧ resp.length ≤ a.size * 2 ∧ bin.length = a.size ∧
             bin = rfcResponse a h1 nonce mid u r.method
  /-- with a binding option: the nonce is the one this daemon makes for this client / resource / realm -/
  bind : cfg.bindType ≠ bindNone → calcNonce cfg r call.realm a t = some nonce

end Mhd.Dauth
