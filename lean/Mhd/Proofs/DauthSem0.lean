import Mhd.Proofs.DauthSpec
import Mhd.Proofs.AuthSem
namespace Mhd.Dauth
open Mhd.Auth Mhd.Gen.Auth Mhd.Gen.Dauth

theorem eqQuotedLoopCs_esc (q2 u : UInt8) (qs us : Bytes) :
    eqQuotedLoopCs (92 :: q2 :: qs) (u :: us) = (q2 == u && eqQuotedLoopCs qs us) := by rw [eqQuotedLoopCs.eq_def]; simp
theorem eqQuotedLoopCs_plain (q u : UInt8) (qs us : Bytes) (h : q ≠ 92) :
    eqQuotedLoopCs (q :: qs) (u :: us) = (q == u && eqQuotedLoopCs qs us) := by rw [eqQuotedLoopCs.eq_def]; simp [h]
theorem eqQuotedLoopCs_cons_nil (q : UInt8) (qs : Bytes) : eqQuotedLoopCs (q :: qs) [] = false := by rw [eqQuotedLoopCs.eq_def]

theorem eqQuotedLoopCs_unquote (q v tok : Bytes) (h : unquoteLoop q = some v) :
    eqQuotedLoopCs q tok = decide (v = tok) := by
  fun_induction unquoteLoop q generalizing v tok with
  | case1 =>
    simp at h; subst h
    cases tok <;> simp [eqQuotedLoopCs]
  | case2 => simp at h
  | case3 c2 r2 ih =>
    simp only [Option.map_eq_some_iff] at h
    obtain ⟨v', hv', rfl⟩ := h
    cases tok with
    | nil => simp [eqQuotedLoopCs_cons_nil]
    | cons u us => simp [eqQuotedLoopCs_esc, ih v' us hv', Bool.beq_eq_decide_eq]
  | case4 c r hc ih =>
    simp only [Option.map_eq_some_iff] at h
    obtain ⟨v', hv', rfl⟩ := h
    cases tok with
    | nil => simp [eqQuotedLoopCs_cons_nil]
    | cons u us => simp [eqQuotedLoopCs_plain _ _ _ _ hc, ih v' us hv', Bool.beq_eq_decide_eq]

theorem eqQuotedCs_unquote (q v tok : Bytes) (h : unquoteLoop q = some v) :
    eqQuotedCs q tok = decide (v = tok) := by
  unfold eqQuotedCs
  split
  · rename_i hlt
    have := unquote_length q v h
    by_cases hv : v = tok
    · subst hv; omega
    · simp [hv]
  · exact eqQuotedLoopCs_unquote q v tok h

/-- every quoted parameter unquotes -/
def PQ (p : Param) : Prop := p.quoted = true → (unquoteLoop p.raw).isSome

theorem paramUnq_quoted (p : Param) (v : Bytes) (hq : p.quoted = true) (h : unquoteLoop p.raw = some v) :
    paramUnq p = v := by simp [paramUnq, hq, unquote, h]

theorem isParamEq_sem (p : Param) (s : Bytes) (h : PQ p) : isParamEq p s = decide (paramUnq p = s) := by
  unfold isParamEq
  cases hq : p.quoted
  · simp [paramUnq, hq]
  · obtain ⟨v, hv⟩ := Option.isSome_iff_exists.mp (h hq)
    simp [eqQuotedCs_unquote _ _ _ hv, paramUnq_quoted p v hq hv]

theorem isParamEqCl_sem (p : Param) (s : Bytes) (h : PQ p) : isParamEqCl p s = eqClS s (paramUnq p) := by
  unfold isParamEqCl
  cases hq : p.quoted
  · simp [paramUnq, hq]
  · obtain ⟨v, hv⟩ := Option.isSome_iff_exists.mp (h hq)
    simp [eqQuotedCl_unquote _ _ _ hv, paramUnq_quoted p v hq hv]

theorem getUnq_small (p : Param) (h : p.raw.length ≤ maxParam) : getUnq p = .ok (paramUnq p) := by
  unfold getUnq paramUnq noBuffer
  cases hq : p.quoted <;> simp
  omega

theorem tmp1_ok (a : Algo) : ¬ tmp1Size < 2 * a.size := by cases a <;> decide
theorem tmp1_ok' (a : Algo) : ¬ tmp1Size < a.stdLen + 1 := by cases a <;> decide
theorem size_le_max (a : Algo) : a.size ≤ maxDigest := by cases a <;> decide


def Small (d : DAuth) (k : Nat) : Prop := ∀ p, d.slots k = some p → p.raw.length ≤ maxParam

theorem wq_pq {d : DAuth} (h : WQ d) {k : Nat} {p : Param} (hp : d.slots k = some p) : PQ p := fun hq => h k p hp hq

theorem stageRealm_sem (call : Call) (d : DAuth) (h : WQ d) : stageRealm call d = specRealm call (semOf d) := by
  unfold stageRealm specRealm semOf
  cases hp : d.slots kRealm with
  | none => simp [*, need, needV, bind, Except.bind] <;> rfl
  | some p => simp [*, need, needV, bind, Except.bind, isParamEq_sem p _ (wq_pq h hp)] <;> rfl

theorem stageUsername_sem (a : Algo) (call : Call) (d : DAuth) (h : WQ d) :
    stageUsername a call d = specUsername a call (semOf d) := by
  unfold stageUsername specUsername semOf
  cases huh : d.userhash
  · simp only [Bool.not_false, if_true]
    cases hu : d.slots kUsername with
    | some u => simp [hu, isParamEq_sem u _ (wq_pq h hu)] <;> rfl
    | none =>
      cases he : d.slots kUsernameExt with
      | none => simp [*, need, needV, bind, Except.bind] <;> rfl
      | some e => simp [*, need, needV, bind, Except.bind] <;> rfl
  · simp only [Bool.not_true, Bool.false_eq_true, if_false]
    cases hu : d.slots kUsername with
    | none => simp [*, need, needV, bind, Except.bind] <;> rfl
    | some u => simp [*, need, needV, bind, Except.bind, tmp1_ok a, isParamEqCl_sem u _ (wq_pq h hu)] <;> rfl

theorem stageNc_sem (maxNc : Nat) (d : DAuth) (hs : d.qop ≠ qopNone → Small d kNc) :
    stageNc maxNc d = specNc maxNc (semOf d) := by
  unfold stageNc specNc semOf
  by_cases hq : d.qop ≠ qopNone
  · simp only [hq, if_true]
    cases hp : d.slots kNc with
    | none => simp [*, need, needV, bind, Except.bind] <;> rfl
    | some p => simp [*, need, needV, bind, Except.bind, getUnq_small p (hs hq p hp)] <;> rfl
  · simp [hq]

theorem stageNonce_sem (a : Algo) (now timeout : Nat) (d : DAuth) (hs : Small d kNonce) :
    stageNonce a now timeout d = specNonce a now timeout (semOf d) := by
  unfold stageNonce specNonce semOf
  cases hp : d.slots kNonce with
  | none => simp [*, need, needV, bind, Except.bind] <;> rfl
  | some p => simp [*, need, needV, bind, Except.bind, getUnq_small p (hs p hp)] <;> rfl

theorem stageUri_sem (cfg : Cfg) (r : Req) (d : DAuth) : stageUri cfg r d = specUri cfg r (semOf d) (lenView d) := by
  unfold stageUri specUri semOf lenView
  cases hp : d.slots kUri with
  | none => simp [*, need, needV, bind, Except.bind] <;> rfl
  | some p => simp [*, need, needV, bind, Except.bind, paramUnq] <;> rfl

theorem qopPart_sem (d : DAuth) (h : d.qop ≠ qopNone → Small d kNc ∧ Small d kCnonce ∧ Small d kQop) :
    qopPart d = specQopPart (semOf d) := by
  unfold qopPart specQopPart semOf
  by_cases hq : d.qop ≠ qopNone
  · obtain ⟨h1, h2, h3⟩ := h hq
    simp only [hq, if_true]
    cases hp1 : d.slots kNc with
    | none => simp [*, need, needV, bind, Except.bind] <;> rfl
    | some p1 =>
      cases hp2 : d.slots kCnonce with
      | none => simp [*, need, needV, bind, Except.bind, getUnq_small p1 (h1 p1 hp1)] <;> rfl
      | some p2 =>
        cases hp3 : d.slots kQop with
        | none => simp [*, need, needV, bind, Except.bind, getUnq_small p1 (h1 p1 hp1), getUnq_small p2 (h2 p2 hp2)] <;> rfl
        | some p3 => simp [*, need, needV, bind, Except.bind, getUnq_small p1 (h1 p1 hp1), getUnq_small p2 (h2 p2 hp2),
            getUnq_small p3 (h3 p3 hp3)] <;> rfl
  · simp [hq]

theorem hash1_ok (a : Algo) (n : Nat) (h : ¬ a.size * 2 < n) : ¬ maxDigest < (n + 1) / 2 := by
  have := size_le_max a; omega

theorem stageResponse_sem (a : Algo) (r : Req) (call : Call) (d : DAuth) (uri : Bytes)
    (h0 : Small d kResponse) (hn : Small d kNonce) (h123 : d.qop ≠ qopNone → Small d kNc ∧ Small d kCnonce ∧ Small d kQop) :
    stageResponse a r call d uri = specResponse a r call (semOf d) uri := by
  unfold stageResponse specResponse
  rw [qopPart_sem d h123]
  unfold semOf rfcResponse
  cases hh : ha1Hex a call with
  | error e => simp [bind, Except.bind] <;> rfl
  | ok hx =>
    cases hp : d.slots kResponse with
    | none => simp [*, need, needV, bind, Except.bind] <;> rfl
    | some p =>
      simp only [hp, need, needV, bind, Except.bind, getUnq_small p (h0 p hp), Option.map_some]
      by_cases hl : a.size * 2 < (paramUnq p).length
      · simp [hl] <;> rfl
      · simp only [hl, if_false, hash1_ok a _ hl]
        cases hb : hexToBin (paramUnq p) with
        | none => simp
        | some bin =>
          simp only
          by_cases hbl : bin.length ≠ a.size
          · simp [hbl] <;> rfl
          · simp only [hbl, if_false]
            cases hpn : d.slots kNonce with
            | none => simp [hpn] <;> rfl
            | some pn => simp [hpn, getUnq_small pn (hn pn hpn), tmp1_ok a] <;> rfl

theorem stageBind_sem (cfg : Cfg) (a : Algo) (r : Req) (call : Call) (d : DAuth) (t : Nat) (h : WQ d) :
    stageBind cfg a r call d t = specBind cfg a r call (semOf d) t := by
  unfold stageBind specBind semOf
  by_cases hb : cfg.bindType ≠ bindNone
  · simp only [hb, if_true, tmp1_ok' a, if_false]
    cases hc : calcNonce cfg r call.realm a t with
    | none => simp
    | some nn =>
      cases hp : d.slots kNonce with
      | none => simp [*, need, needV, bind, Except.bind] <;> rfl
      | some p => simp [*, need, needV, bind, Except.bind, isParamEq_sem p _ (wq_pq h hp)] <;> rfl
  · simp [hb] <;> rfl

end Mhd.Dauth
